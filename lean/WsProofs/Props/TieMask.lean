import WsModel.Generated.MaskGen
import WsProofs.Lemmas.TieMaskLemmas

/-! The machine translation of `apply_mask_fallback`, `apply_mask_fast32`, `apply_mask`
(`WsModel/Generated/MaskGen.lean`) computes exactly what the hand-written model
(`WsModel/Mask.lean`, the subject of the C19 theorems) computes, for every key, every buffer and
every split `align_to_mut` may answer. -/
namespace WsProofs.Tie
open WsModel WsModel.GenMask

theorem Tie_mask_fallback (m : Mask) (buf : Bytes) :
    GenMask.applyMaskFallback buf m.toBytes = WsModel.applyMask m buf := by
  exact fallback_eq m buf

theorem Tie_mask_fast32 (sp : Split) (m : Mask) (buf : Bytes)
    (h : sp.pre + 4 * sp.words ≤ buf.length) :
    GenMask.applyMaskFast32 sp buf m.toBytes = WsModel.applyMaskFast sp.pre sp.words m buf := by
  exact fast32_eq sp m buf h

/-- with `C19_fast_eq_spec`: the translated `apply_mask` is byte-wise XOR with the key -/
theorem Tie_mask_applyMask (sp : Split) (m : Mask) (buf : Bytes)
    (h : sp.pre + 4 * sp.words ≤ buf.length) :
    GenMask.applyMask sp buf m.toBytes = WsModel.applyMask m buf := by
  unfold GenMask.applyMask
  rw [Tie_mask_fast32 sp m buf h]
  exact C19.C19_fast_eq_spec sp.pre sp.words m buf h

/-- the hypothesis is met by a concrete split: 3 unaligned bytes, 2 words, 2 bytes left -/
example : (⟨3, 2⟩ : Split).pre + 4 * (⟨3, 2⟩ : Split).words ≤ ([1, 2, 3, 4, 5, 6, 7, 8, 9, 10, 11, 12, 13] : Bytes).length := by
  decide

end WsProofs.Tie
