import WsModel.Generated.FsockGen
import WsModel.FrameSocket
import WsProofs.Props.TieCodec
import WsProofs.Lemmas.LocalCodec

/-! `FrameSocket::{read, write, flush, send}` as generated from the source equal the hand model
(`WsModel/FrameSocket.lean`), and what that model guarantees. -/
namespace WsProofs.Tie
open WsModel WsModel.Gen WsModel.GenCodec

theorem Tie_fsock_read (maxSize : Option Nat) (s : FSock) : GenFsock.read maxSize s = s.read maxSize := by
  cases s with | mk c t => ?_
  unfold GenFsock.read FSock.read
  exact Tie_codec_readFrame maxSize false true c t

theorem Tie_fsock_write (f : Frame) (s : FSock) : GenFsock.write f s = s.write f := by
  cases s with | mk c t => ?_
  unfold GenFsock.write FSock.write
  exact Tie_codec_bufferFrame f c t

theorem Tie_fsock_flush (s : FSock) : GenFsock.flush s = s.flush := by
  cases s with | mk c t => ?_
  unfold GenFsock.flush FSock.flush
  simp only [bind, M.bind, Tie_codec_writeOutBuffer]
  rcases c.writeOutBuffer t with ⟨c', t', r⟩
  cases r with
  | ok u =>
    simp only [streamFlush]
    rcases hfl : t'.flush with ⟨t2, e⟩
    cases e <;> simp
  | err e => rfl
  | panic p => rfl

theorem Tie_fsock_send (f : Frame) (s : FSock) : GenFsock.send f s = s.send f := by
  unfold GenFsock.send FSock.send
  simp only [bind, M.bind, Tie_fsock_write, Tie_fsock_flush]
  rcases s.write f with ⟨s', r⟩
  cases r <;> rfl

end WsProofs.Tie
