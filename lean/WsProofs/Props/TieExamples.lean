import WsProofs.Props.TieRun
import WsProofs.Props.TieCodec
import WsProofs.Props.C03
import WsProofs.Props.C10
import WsProofs.Props.C14

namespace WsProofs.Tie
open WsModel WsModel.Gen WsModel.GenCtx

/-! Three headline statements, spelled out for the translated code (the rest transfers the same way). -/

/-- C03(b)/C10 for the translated code: in every state it reaches, nothing follows a Close among the
frames queued, and what the transport accepted is a prefix of their wire image -/
theorem Tie_C03_close_is_last_gen (w : World) (h : ReachableGen w) :
    CloseLast w.queued ∧ ∃ rest, encodeAll w.queued = w.t.accepted ++ rest :=
  WsProofs.C03.C03_close_is_last w ((Tie_reachable w).1 h)

theorem Tie_C10_fifo_gen (w : World) (h : ReachableGen w) :
    w.t.accepted ++ w.c.codec.outBuf = encodeAll w.queued :=
  WsProofs.C10.C10_fifo w ((Tie_reachable w).1 h)

/-- C14 for the translated codec: a frame that does not fit is refused, handed back, nothing queued -/
theorem Tie_C14_full_gen (c : Codec) (t : Transport) (f : Frame) (h : f.len + c.outBuf.length > c.maxOut) :
    GenCodec.bufferFrame f ⟨c, t⟩ = ((⟨c, t⟩ : GenCodec.CS), .err (.writeBufferFull f)) := by
  rw [Tie_codec_bufferFrame]
  have := WsProofs.C14.C14_full c t f h
  simp [this]

end WsProofs.Tie
