import WsModel.Generated.Ctx
import WsProofs.Lemmas.TieLemmas
import WsProofs.Lemmas.TieWrite

/-! The machine translation of `WebSocketContext` (`WsModel/Generated/Ctx.lean`, regenerated from
`src/protocol/mod.rs` on every run) is extensionally equal to the hand-written model
(`WsModel/Context.lean`), method by method.

`check_connection_reset` first translates the result (`Tie_resCheckConnectionReset` is the pure
fact about the `Result` translation) and then assigns `Terminated` whenever the *translated*
result is `ConnectionClosed` — also when the input already was `ConnectionClosed`.  The hand
model does exactly the same, so `Tie_checkConnectionReset` holds for every input, without any
side condition.  (The two callers pass the result of the frame codec, which never is
`ConnectionClosed`: `codec_bufferFrame_ne_cc`, `codec_readFrame_ne_cc` in
`Lemmas/EndpointBasic.lean`.) -/
namespace WsProofs.Tie
open WsModel WsModel.Gen WsModel.GenCtx

theorem Tie_resCheckConnectionReset {α : Type} (r : Res α) (s : WsState) :
    resCheckConnectionReset r s =
      (match r with
       | .err (.io .reset) => if !s.canRead then .err .connectionClosed else r
       | _ => r) :=
  resCheckConnectionReset_eq r s

theorem Tie_setAdditional (add : Frame) (w : World) :
    GenCtx.setAdditional add w = (w.setAdditional add, .ok ()) :=
  setAdditional_tie add w

theorem Tie_checkConnectionReset {α : Type} (r : Res α) (w : World) :
    GenCtx.checkConnectionReset r w = w.checkConnectionReset r :=
  checkConnectionReset_tie r w

theorem Tie_bufferFrame (f : Frame) (w : World) : GenCtx.bufferFrame f w = w.bufferFrame f :=
  bufferFrame_tie f w

theorem Tie_writeInternal (d : Option Frame) (w : World) :
    GenCtx.writeInternal d w = w.writeInternal d :=
  writeInternal_tie d w

theorem Tie_flush (w : World) : GenCtx.flush w = w.flush :=
  flush_tie w

theorem Tie_close (c : Option CloseFrame) (w : World) : GenCtx.close c w = w.close c :=
  close_tie c w

theorem Tie_write (m : Message) (w : World) : GenCtx.write m w = w.write m :=
  write_tie m w

end WsProofs.Tie
