import WsModel.Generated.CStageGen
import WsProofs.Props.TieHs
import WsProofs.Props.TieVerify

/-! The machine translation of `ClientHandshake::stage_finished`
(`WsModel/Generated/CStageGen.lean`), which calls the machine translation of `verify_response`, is
the stage function `clientStage` that `Tie_hs_clientLoop` instantiates the translated
`MidHandshake::handshake` with — on every head that `Response::from_httparse` lets through. So the
client's whole handshake loop, from the machine rounds to the decision on the response and the
bytes handed to the socket, is translated code. -/
namespace WsProofs.Tie
open WsModel WsModel.Gen WsModel.Hs WsModel.GenHs WsModel.GenVerify WsModel.GenCStage

/-- `Except` as the three-way result of the handshake monad -/
def hrOf {α : Type} : Except HsErr α → HR α
  | .ok a => .ok a
  | .error e => .err e

theorem gen_verify_body_101 (v : VerifyData) (hs : List (Bytes × Bytes)) (b b' : Option Bytes) :
    GenVerify.verifyResponse v ⟨101, hs, b⟩ = GenVerify.verifyResponse v ⟨101, hs, b'⟩ := by
  unfold GenVerify.verifyResponse
  dsimp only
  rw [if_neg (show ¬ ((101 != switchingProtocols) = true) by decide),
    if_neg (show ¬ ((101 != switchingProtocols) = true) by decide)]

theorem gen_verify_not_101 (v : VerifyData) (c : Nat) (hs : List (Bytes × Bytes)) (b : Option Bytes)
    (hc : c ≠ 101) : GenVerify.verifyResponse v ⟨c, hs, b⟩ = .error (HsErr.http c b) := by
  unfold GenVerify.verifyResponse
  dsimp only
  rw [if_pos (show (c != switchingProtocols) = true by simp [switchingProtocols, hc])]
  rfl

theorem hand_verify_not_101 (v : VerifyData) (h : RawHead) (tail : Bytes)
    (hv : 1 ≤ h.version) (hc : 100 ≤ h.code ∧ h.code < 1000) (h101 : h.code ≠ 101) :
    Hs.verifyResponse v h tail = .error (HsErr.http h.code (some tail)) := by
  unfold Hs.verifyResponse
  rw [if_neg (show ¬ h.version < 1 by omega), if_neg (show ¬ (h.code < 100 ∨ h.code ≥ 1000) by omega),
    if_pos (show h.code ≠ cliSwitchingProtocols from h101)]

theorem hand_verify_101_not_http (v : VerifyData) (h : RawHead) (tail : Bytes) (s : Nat)
    (b : Option Bytes) (h101 : h.code = 101) :
    Hs.verifyResponse v h tail ≠ .error (HsErr.http s b) := by
  unfold Hs.verifyResponse
  repeat' split
  all_goals first
    | (intro hh; cases hh; done)
    | (rename_i hx; exact absurd h101 hx)
    | (rename_i hx _; exact absurd h101 hx)

theorem Tie_cstage_doneWriting (v : VerifyData) :
    hrOf (GenCStage.stageFinished v .doneWriting) = (clientStage v .doneWriting).2 := by
  rfl

theorem Tie_cstage_doneReading (v : VerifyData) (h : RawHead) (tail : Bytes)
    (hv : 1 ≤ h.version) (hc : 100 ≤ h.code ∧ h.code < 1000) :
    hrOf (GenCStage.stageFinished v (.doneReading h tail)) = (clientStage v (.doneReading h tail)).2 := by
  obtain ⟨m, ver, code, u, hdrs⟩ := h
  by_cases h101 : code = 101
  · subst h101
    have e1 : GenVerify.verifyResponse v (respOfHead ⟨m, ver, 101, u, hdrs⟩)
        = Hs.verifyResponse v ⟨m, ver, 101, u, hdrs⟩ tail := by
      rw [← Tie_verify_response v _ tail hv hc]
      exact gen_verify_body_101 v hdrs none (some tail)
    unfold GenCStage.stageFinished clientStage
    dsimp only
    rw [e1]
    cases hr : Hs.verifyResponse v ⟨m, ver, 101, u, hdrs⟩ tail with
    | ok u => cases u; rfl
    | error e =>
      cases e <;> first
        | rfl
        | exact absurd hr (hand_verify_101_not_http v _ tail _ _ rfl)
  · unfold GenCStage.stageFinished clientStage
    dsimp only
    rw [hand_verify_not_101 v _ tail hv hc h101]
    unfold respOfHead
    rw [gen_verify_not_101 v code hdrs none h101]
    rfl

/-- the bytes after the head are never lost: whenever the translated stage function finishes the
handshake, the socket is built over exactly `tail` -/
theorem Tie_cstage_tail_kept (v : VerifyData) (h : RawHead) (tail x : Bytes)
    (hd : GenCStage.stageFinished v (.doneReading h tail) = .ok (.done x)) : x = tail := by
  unfold GenCStage.stageFinished at hd
  dsimp only at hd
  generalize GenVerify.verifyResponse v (respOfHead h) = r at hd
  cases r with
  | ok u =>
    cases u
    have hd' : (Except.ok (GProc.done (fromPartiallyRead tail)) : Except HsErr (GProc Bytes))
        = .ok (.done x) := hd
    injection hd' with h1
    injection h1 with h2
    exact h2.symm
  | error e =>
    cases e <;> exact absurd hd (fun hh => by cases hh)

end WsProofs.Tie
