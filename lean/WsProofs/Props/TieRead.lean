import WsProofs.Props.TieWrite
import WsProofs.Lemmas.TieRead

/-! Read side of the translation tie (see `Props/TieWrite.lean`). -/
namespace WsProofs.Tie
open WsModel WsModel.Gen WsModel.GenCtx

theorem Tie_doClose (c : Option CloseFrame) (w : World) : GenCtx.doClose c w = w.doClose c :=
  doClose_tie c w

theorem Tie_readMessageFrame (w : World) : GenCtx.readMessageFrame w = w.readMessageFrame :=
  readMessageFrame_tie w

theorem Tie_readLoop (n : Nat) (w : World) : GenCtx.readLoop n w = World.readLoop n w :=
  readLoop_tie n w

theorem Tie_read (w : World) : GenCtx.read w = w.read :=
  read_tie w

end WsProofs.Tie
