import WsModel.Generated.HsGen
import WsProofs.Lemmas.TieHsLemmas

/-! The machine translation of `HandshakeMachine::single_round`
(`WsModel/Generated/HsGen.lean`) computes exactly what the hand-written model
(`Hs.singleRound` in `WsModel/Handshake/Model.lean`) computes: same transport, same round result,
for every parser, machine state and transport. -/
namespace WsProofs.Tie
open WsModel WsModel.Gen WsModel.Hs WsModel.GenHs

theorem Tie_hs_singleRound (parse : Bytes → HeadParse) (s : HState) (t : Transport) :
    GenHs.singleRound parse s t = ((Hs.singleRound parse s t).1, ofRound (Hs.singleRound parse s t).2) := by
  cases s with
  | reading buf attack =>
    unfold GenHs.singleRound Hs.singleRound
    hs_norm
    rcases t.read with ⟨t', ev⟩
    cases ev with
    | eof => rfl
    | err k => cases k <;> rfl
    | data bs =>
      cases bs with
      | nil => rfl
      | cons b bs =>
        simp only [readPairHs, hthen_ok, List.length_cons, List.isEmpty_cons, Bool.false_eq_true,
          if_false, attackCheck, tryParse]
        generalize buf ++ b :: bs = buf'
        cases hok : (attack.check (bs.length + 1)).2
        · simp [hs_bind_apply, hs_liftRes_apply, ofRound]
        · simp only [hs_bind_apply, hs_liftRes_apply, hthen_ok, if_true, Bool.not_true,
            Bool.false_eq_true, if_false]
          cases parse buf' <;> simp [hs_pure_apply, ofRound]
  | writing rem =>
    unfold GenHs.singleRound Hs.singleRound
    hs_norm
    cases hrem : rem.isEmpty
    · simp only [Bool.not_false, Bool.not_true, Bool.false_eq_true, if_false]
      rcases t.write rem with ⟨t', r⟩
      cases r with
      | err k => cases k <;> rfl
      | ok n =>
        simp only [writePairHs, hthen_ok]
        by_cases hn : n = 0
        · simp [hn, hs_bind_apply, hs_throwE_apply, ofRound]
        · cases (rem.drop n).isEmpty <;> simp [hn, hs_pure_apply, ofRound]
    · simp [ofRound]
  | flushing =>
    unfold GenHs.singleRound Hs.singleRound
    hs_norm
    rcases t.flush with ⟨t', ev⟩
    cases ev with
    | ok => rfl
    | err k => cases k <;> rfl

end WsProofs.Tie
