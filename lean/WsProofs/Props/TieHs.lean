import WsModel.Generated.HsGen
import WsProofs.Lemmas.TieHsLemmas

/-! The machine translation of `HandshakeMachine::single_round`
(`WsModel/Generated/HsGen.lean`) computes exactly what the hand-written model
(`Hs.singleRound` in `WsModel/Handshake/Model.lean`) computes: same transport, same round result,
for every parser, machine state and transport.  Likewise the translation of the loop of
`MidHandshake::handshake` (`GenHs.handshakeLoop`, generic in the role's `stage_finished`),
instantiated with the server's and the client's `stage_finished` as the hand model inlines them,
computes what `Hs.serverLoop` / `Hs.clientLoop` compute: same transport, same outcome
(`Tie_hs_serverLoop`, `Tie_hs_clientLoop`). -/
namespace WsProofs.Tie
open WsModel WsModel.Gen WsModel.Hs WsModel.GenHs

theorem Tie_hs_singleRound (parse : Bytes → HeadParse) (s : HState) (t : Transport) :
    GenHs.singleRound parse s t = ((Hs.singleRound parse s t).1, ofRound (Hs.singleRound parse s t).2) := by
  cases s with
  | reading buf attack =>
    unfold GenHs.singleRound Hs.singleRound
    hs_norm
    rcases t.read with ⟨t', ev⟩
    cases ev with
    | eof => rfl
    | err k => cases k <;> rfl
    | data bs =>
      cases bs with
      | nil => rfl
      | cons b bs =>
        simp only [readPairHs, hthen_ok, List.length_cons, List.isEmpty_cons, Bool.false_eq_true,
          if_false, attackCheck, tryParse]
        generalize buf ++ b :: bs = buf'
        cases hok : (attack.check (bs.length + 1)).2
        · simp [hs_bind_apply, hs_liftRes_apply, ofRound]
        · simp only [hs_bind_apply, hs_liftRes_apply, hthen_ok, if_true, Bool.not_true,
            Bool.false_eq_true, if_false]
          cases parse buf' <;> simp [hs_pure_apply, ofRound]
  | writing rem =>
    unfold GenHs.singleRound Hs.singleRound
    hs_norm
    cases hrem : rem.isEmpty
    · simp only [Bool.not_false, Bool.not_true, Bool.false_eq_true, if_false]
      rcases t.write rem with ⟨t', r⟩
      cases r with
      | err k => cases k <;> rfl
      | ok n =>
        simp only [writePairHs, hthen_ok]
        by_cases hn : n = 0
        · simp [hn, hs_bind_apply, hs_throwE_apply, ofRound]
        · cases (rem.drop n).isEmpty <;> simp [hn, hs_pure_apply, ofRound]
    · simp [ofRound]
  | flushing =>
    unfold GenHs.singleRound Hs.singleRound
    hs_norm
    rcases t.flush with ⟨t', ev⟩
    cases ev with
    | ok => rfl
    | err k => cases k <;> rfl

/-! ### the loop of `MidHandshake::handshake` -/

/-- what the generated loop does after `stage_finished` returned -/
def afterStage {ρ φ : Type} (parse : Bytes → HeadParse) (stage : ρ → GStage → ρ × HR (GProc φ))
    (fuel : Nat) (t : Transport) : ρ × HR (GProc φ) → Transport × HR (GHs ρ φ)
  | (role, .ok (.continue_ s)) => GenHs.handshakeLoop parse stage fuel role s t
  | (_, .ok (.done r)) => (t, .ok (.done r))
  | (_, .err e) => (t, .err e)
  | (_, .panic p) => (t, .panic p)

/-- one turn of the generated loop, on the hand model's round -/
def genStep {ρ φ : Type} (parse : Bytes → HeadParse) (stage : ρ → GStage → ρ × HR (GProc φ))
    (fuel : Nat) (role : ρ) : Transport × Round → Transport × HR (GHs ρ φ)
  | (t, .wouldBlock s) => (t, .ok (.interrupted role s))
  | (t, .incomplete s) => GenHs.handshakeLoop parse stage fuel role s t
  | (t, .err e) => (t, .err e)
  | (t, .panic) => (t, .panic .writingEmpty)
  | (t, .doneReading _ h tail) => afterStage parse stage fuel t (stage role (.doneReading h tail))
  | (t, .doneWriting) => afterStage parse stage fuel t (stage role .doneWriting)

theorem handshakeLoop_zero {ρ φ : Type} (parse : Bytes → HeadParse)
    (stage : ρ → GStage → ρ × HR (GProc φ)) (role : ρ) (s : HState) (t : Transport) :
    GenHs.handshakeLoop parse stage 0 role s t = (t, .panic .fuel) := rfl

theorem handshakeLoop_succ {ρ φ : Type} (parse : Bytes → HeadParse)
    (stage : ρ → GStage → ρ × HR (GProc φ)) (fuel : Nat) (role : ρ) (s : HState) (t : Transport) :
    GenHs.handshakeLoop parse stage (fuel + 1) role s t
      = genStep parse stage fuel role (Hs.singleRound parse s t) := by
  rw [GenHs.handshakeLoop.eq_2, hs_bind_apply, Tie_hs_singleRound]
  rcases Hs.singleRound parse s t with ⟨t', r⟩
  cases r with
  | wouldBlock s' => rfl
  | incomplete s' => simp only [ofRound, hthen_ok, hs_bind_apply, hs_pure_apply, genStep]
  | err e => rfl
  | panic => rfl
  | doneReading n h tail =>
    simp only [ofRound, hthen_ok, genStep]
    rcases stage role (.doneReading h tail) with ⟨role', r'⟩
    cases r' with
    | ok g => cases g <;> simp only [hs_bind_apply, hs_liftRes_apply, hs_pure_apply, hthen_ok, afterStage]
    | err e => rfl
    | panic p => rfl
  | doneWriting =>
    simp only [ofRound, hthen_ok, genStep]
    rcases stage role .doneWriting with ⟨role', r'⟩
    cases r' with
    | ok g => cases g <;> simp only [hs_bind_apply, hs_liftRes_apply, hs_pure_apply, hthen_ok, afterStage]
    | err e => rfl
    | panic p => rfl

/-- `ServerHandshake::stage_finished` as the hand model has it inlined in `serverLoop` -/
def serverStage (role : ServerRole) : GStage → ServerRole × HR (GProc Unit)
  | .doneReading h tail =>
    match serverAfterRead role h tail with
    | .error e => (role, .err e)
    | .ok (role', out) => (role', .ok (.continue_ (.writing out)))
  | .doneWriting =>
    match role.errorResponse with
    | some (status, body) => (role, .err (.http status body))
    | none => (role, .ok (.done ()))

/-- `ClientHandshake::stage_finished` as the hand model has it inlined in `clientLoop` -/
def clientStage (v : VerifyData) : GStage → VerifyData × HR (GProc Bytes)
  | .doneWriting => (v, .ok (.continue_ (.reading [] {})))
  | .doneReading h tail =>
    match verifyResponse v h tail with
    | .error e => (v, .err e)
    | .ok () => (v, .ok (.done tail))

/-- how the hand model's loop result reads in the generated code's vocabulary -/
def OutcomeMatches {ρ φ : Type} (mk : ρ → HState → Prop) : Outcome φ → HR (GHs ρ φ) → Prop
  | .done a, .ok (.done b) => a = b
  | .interrupted, .ok (.interrupted role s) => mk role s
  | .failed e, .err e' => e = e'
  | .panic, .panic _ => True
  | _, _ => False

theorem Tie_hs_serverLoop (parse : Bytes → HeadParse) (fuel : Nat) (m : ServerMid) (t : Transport) :
    (GenHs.handshake parse serverStage fuel m.role m.state t).1 = (serverLoop parse fuel m t).1 ∧
    OutcomeMatches (fun role s => (serverLoop parse fuel m t).2.1 = { role := role, state := s })
      (serverLoop parse fuel m t).2.2 (GenHs.handshake parse serverStage fuel m.role m.state t).2 := by
  unfold GenHs.handshake
  induction fuel generalizing m t with
  | zero => exact ⟨rfl, trivial⟩
  | succ fuel ih =>
    rw [handshakeLoop_succ]
    unfold serverLoop
    rcases Hs.singleRound parse m.state t with ⟨t', r⟩
    cases r with
    | wouldBlock s => exact ⟨rfl, rfl⟩
    | incomplete s => exact ih { m with state := s } t'
    | err e => exact ⟨rfl, rfl⟩
    | panic => exact ⟨rfl, trivial⟩
    | doneReading n h tail =>
      simp only [genStep, serverStage]
      cases hr : serverAfterRead m.role h tail with
      | error e => exact ⟨rfl, rfl⟩
      | ok p =>
        rcases p with ⟨role', out⟩
        exact ih { role := role', state := .writing out } t'
    | doneWriting =>
      simp only [genStep, serverStage]
      cases hr : m.role.errorResponse with
      | none => exact ⟨rfl, rfl⟩
      | some p => exact ⟨rfl, rfl⟩

theorem Tie_hs_clientLoop (parse : Bytes → HeadParse) (fuel : Nat) (m : ClientMid) (t : Transport) :
    (GenHs.handshake parse clientStage fuel m.verify m.state t).1 = (clientLoop parse fuel m t).1 ∧
    OutcomeMatches (fun v s => (clientLoop parse fuel m t).2.1 = { verify := v, state := s })
      (clientLoop parse fuel m t).2.2 (GenHs.handshake parse clientStage fuel m.verify m.state t).2 := by
  unfold GenHs.handshake
  induction fuel generalizing m t with
  | zero => exact ⟨rfl, trivial⟩
  | succ fuel ih =>
    rw [handshakeLoop_succ]
    unfold clientLoop
    rcases Hs.singleRound parse m.state t with ⟨t', r⟩
    cases r with
    | wouldBlock s => exact ⟨rfl, rfl⟩
    | incomplete s => exact ih { m with state := s } t'
    | err e => exact ⟨rfl, rfl⟩
    | panic => exact ⟨rfl, trivial⟩
    | doneWriting => exact ih { m with state := .reading [] {} } t'
    | doneReading n h tail =>
      simp only [genStep, clientStage]
      cases hr : verifyResponse m.verify h tail with
      | error e => exact ⟨rfl, rfl⟩
      | ok u => exact ⟨rfl, rfl⟩

end WsProofs.Tie
