import WsModel.Generated.CodecGen
import WsProofs.Lemmas.TieCodecLemmas

/-! The machine translation of `FrameCodec` (`WsModel/Generated/CodecGen.lean`) computes exactly
what the hand-written model (`WsModel/Codec.lean`) computes: same codec, same transport, same
result, for every input. -/
namespace WsProofs.Tie
open WsModel WsModel.Gen WsModel.GenCodec

theorem Tie_codec_writeOutBuffer (c : Codec) (t : Transport) :
    GenCodec.writeOutBuffer ⟨c, t⟩ = ((⟨(c.writeOutBuffer t).1, (c.writeOutBuffer t).2.1⟩ : CS), (c.writeOutBuffer t).2.2) := by
  unfold GenCodec.writeOutBuffer Codec.writeOutBuffer
  cd_norm [writeOutBufferLoop1_tie]
  rcases Codec.writeLoop c.outBuf.length c t with ⟨c', t', r⟩
  cases r <;> rfl

theorem Tie_codec_bufferFrame (f : Frame) (c : Codec) (t : Transport) :
    GenCodec.bufferFrame f ⟨c, t⟩ = ((⟨(c.bufferFrame t f).1, (c.bufferFrame t f).2.1⟩ : CS), (c.bufferFrame t f).2.2) := by
  unfold GenCodec.bufferFrame Codec.bufferFrame
  cd_norm
  by_cases h1 : f.len + c.outBuf.length > c.maxOut
  · simp [h1]
  · simp only [h1, decide_false, Bool.false_eq_true, if_false]
    by_cases h2 : (f.formatIntoBuf c.outBuf).length > c.writeLen
    · simp only [h2, decide_true, if_true]
      exact Tie_codec_writeOutBuffer _ _
    · simp [h2]

theorem Tie_codec_readFrame (maxSize : Option Nat) (unmask acceptUnmasked : Bool) (c : Codec) (t : Transport) :
    GenCodec.readFrame maxSize unmask acceptUnmasked ⟨c, t⟩ =
      ((⟨(c.readFrame t maxSize unmask acceptUnmasked).1, (c.readFrame t maxSize unmask acceptUnmasked).2.1⟩ : CS),
       (c.readFrame t maxSize unmask acceptUnmasked).2.2) := by
  unfold GenCodec.readFrame Codec.readFrame
  cd_norm [readFrameLoop1_tie]
  rcases Codec.readLoop (maxSize.getD usizeMax) (t.rd.length + 1) c t with ⟨c', t', r⟩
  cases r with
  | err e => rfl
  | panic s => rfl
  | ok o =>
    cases o with
    | none => rfl
    | some p =>
      simp only [loopOutOf, cthen_ok]
      cases c' with | mk inBuf outBuf maxOut writeLen header => ?_
      cases header with
      | none =>
        cd_norm
        simp [Codec.finishFrame]
      | some hl =>
        obtain ⟨h, len⟩ := hl
        cases h with | mk fin rsv1 rsv2 rsv3 opcode mask => ?_
        cd_norm
        simp only [Codec.finishFrame]
        by_cases hlen : p.length = len
        · cases unmask
          · simp [hlen]
          · cases mask with
            | some m => simp [hlen, cd_pure_apply]
            | none =>
              cases acceptUnmasked <;> simp [hlen, cd_pure_apply, cd_bind_apply, cd_throwE_apply]
        · simp [hlen]

end WsProofs.Tie
