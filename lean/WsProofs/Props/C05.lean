import WsProofs.Lemmas.ReadTotal
import WsProofs.Lemmas.ReadCounter
namespace WsProofs.C05
open WsModel WsModel.Gen WsProofs.Read

/-! # C05 — what is read does not depend on how the transport cuts the byte stream

The incremental reader of the model (`Codec.readFrame`, `World.read`, called again and again by
`readAll`) is compared with the one-shot RFC 6455 decoder `Spec.decode` applied to the whole
inbound stream `pre ++ dataOf t.rd`.

The comparison holds for every stream against the *effective* limits of the implementation
(`C05_reads_effective_limits`: a missing `max_message_size` behaves as `usize::MAX`, because
`IncompleteMessage::extend` compares against `usize::MAX`), and against the configured limits
whenever a message-size limit is configured or the stream is shorter than 2^64 bytes
(`C05_segmentation_independent_of_size`).  Without that proviso the statement is false: see
`C05_unlimited_needs_size_bound`. -/

/-- the limits the implementation really enforces: no `max_message_size` means `usize::MAX` for a
fragmented message -/
def effectiveLimits (cfg : Config) : Spec.Limits :=
  ⟨cfg.maxFrame, some (cfg.maxMsg.getD usizeMax)⟩

/-- What is read does not depend on how the transport cuts the byte stream: for every inbound
stream, every split into (pre-read part, rest), every segmentation of the rest with WouldBlock
anywhere, the messages delivered by successive reads and the way reading ends are those of the
one-shot RFC 6455 decoder applied to the whole stream, under the limits the implementation
enforces. No assumption on the length of the stream. -/
theorem C05_reads_effective_limits
    (role : Role) (cfg : Config) (pre : Bytes) (c : Ctx) (hc : Ctx.new role cfg pre = some c)
    (hmax : 200 ≤ cfg.maxw)
    (t : Transport) (hb : ∀ e ∈ t.rd, e.benign = true) (hdef : t.rdDef = .err .wouldBlock)
    (hout : t.acceptsAll) (mu : List Mask) :
    let w : World := { c := c, t := t, mu := mu }
    let r := readAll (readAllFuel w) w
    let s := Spec.decode role cfg.acceptUnmasked (effectiveLimits cfg) (pre ++ dataOf t.rd)
    r.1 = s.1 ∧ finalMatches role r.2 s.2 :=
  readAll_init role cfg (effectiveLimits cfg) pre c hc hmax t hb hdef hout mu rfl (Or.inl rfl)

/-- The same against the configured limits, when a message-size limit is configured or the
stream is shorter than 2^64 bytes (which every stream a real machine can hold is). -/
theorem C05_segmentation_independent_of_size
    (role : Role) (cfg : Config) (pre : Bytes) (c : Ctx) (hc : Ctx.new role cfg pre = some c)
    (hmax : 200 ≤ cfg.maxw)
    (t : Transport) (hb : ∀ e ∈ t.rd, e.benign = true) (hdef : t.rdDef = .err .wouldBlock)
    (hout : t.acceptsAll) (mu : List Mask)
    (hsz : cfg.maxMsg = none → (pre ++ dataOf t.rd).length < 2 ^ 64) :
    let w : World := { c := c, t := t, mu := mu }
    let r := readAll (readAllFuel w) w
    let s := Spec.decode role cfg.acceptUnmasked ⟨cfg.maxFrame, cfg.maxMsg⟩ (pre ++ dataOf t.rd)
    r.1 = s.1 ∧ finalMatches role r.2 s.2 :=
  readAll_init role cfg ⟨cfg.maxFrame, cfg.maxMsg⟩ pre c hc hmax t hb hdef hout mu rfl
    (Or.inr ⟨rfl, hsz⟩)

/-- two segmentations (and pre-read splits) of the same stream read the same -/
theorem C05_same_stream_same_result
    (role : Role) (cfg : Config) (pre₁ pre₂ : Bytes) (c₁ c₂ : Ctx)
    (h₁ : Ctx.new role cfg pre₁ = some c₁) (h₂ : Ctx.new role cfg pre₂ = some c₂) (hmax : 200 ≤ cfg.maxw)
    (t₁ t₂ : Transport) (hb₁ : ∀ e ∈ t₁.rd, e.benign = true) (hb₂ : ∀ e ∈ t₂.rd, e.benign = true)
    (hd₁ : t₁.rdDef = .err .wouldBlock) (hd₂ : t₂.rdDef = .err .wouldBlock)
    (ho₁ : t₁.acceptsAll) (ho₂ : t₂.acceptsAll) (mu₁ mu₂ : List Mask)
    (hs : pre₁ ++ dataOf t₁.rd = pre₂ ++ dataOf t₂.rd) :
    (readAll (readAllFuel { c := c₁, t := t₁, mu := mu₁ }) { c := c₁, t := t₁, mu := mu₁ }).1 =
    (readAll (readAllFuel { c := c₂, t := t₂, mu := mu₂ }) { c := c₂, t := t₂, mu := mu₂ }).1 := by
  have e₁ := (C05_reads_effective_limits role cfg pre₁ c₁ h₁ hmax t₁ hb₁ hd₁ ho₁ mu₁).1
  have e₂ := (C05_reads_effective_limits role cfg pre₂ c₂ h₂ hmax t₂ hb₂ hd₂ ho₂ mu₂).1
  rw [e₁, e₂, hs]

theorem finalMatches_no_panic {role : Role} {f : Final} {e : Spec.End} (h : finalMatches role f e) :
    ∀ s, f ≠ .panicked s := by
  intro s hf
  subst hf
  cases e with
  | needMore => cases h
  | error c => obtain ⟨err, h1, _⟩ := h; cases h1
  | closed =>
    cases role with
    | server => cases h
    | client => exact h s rfl

/-- reading never panics and never runs out of model fuel in this setting -/
theorem C05_no_panic
    (role : Role) (cfg : Config) (pre : Bytes) (c : Ctx) (hc : Ctx.new role cfg pre = some c)
    (hmax : 200 ≤ cfg.maxw)
    (t : Transport) (hb : ∀ e ∈ t.rd, e.benign = true) (hdef : t.rdDef = .err .wouldBlock)
    (hout : t.acceptsAll) (mu : List Mask) :
    ∀ s, (readAll (readAllFuel { c := c, t := t, mu := mu }) { c := c, t := t, mu := mu }).2 ≠ .panicked s :=
  finalMatches_no_panic (C05_reads_effective_limits role cfg pre c hc hmax t hb hdef hout mu).2

/-! ## the size proviso cannot be dropped -/

/-- no frame-size limit, no message-size limit -/
def cexCfg : Config := { maxMsg := none, maxFrame := none }

/-- a binary message in two unmasked fragments of 2^63 zero bytes each (2^64 + 20 bytes) -/
def cexStream : Bytes := bigStream half

def cexCtx : Ctx :=
  { role := .client, cfg := cexCfg,
    codec := { inBuf := cexStream, maxOut := cexCfg.maxw, writeLen := cexCfg.wbuf } }

def cexT : Transport := { rd := [], wr := [], fl := [] }

/-- The statement of `C05_segmentation_independent_of_size` without its size hypothesis is false:
on a stream of 2^64 + 20 bytes, with `max_message_size = None`, the implementation (as modelled:
`IncompleteMessage::extend` compares against `usize::MAX`) ends with a capacity error on the second
fragment, while the specification without a limit goes on and waits for more. Such a stream cannot
exist on a 64-bit machine; the finding is about the statement, not about the crate. -/
theorem C05_unlimited_needs_size_bound :
    ¬ (∀ (role : Role) (cfg : Config) (pre : Bytes) (c : Ctx), Ctx.new role cfg pre = some c →
        200 ≤ cfg.maxw → ∀ (t : Transport), (∀ e ∈ t.rd, e.benign = true) →
        t.rdDef = .err .wouldBlock → t.acceptsAll → ∀ (mu : List Mask),
        let w : World := { c := c, t := t, mu := mu }
        let r := readAll (readAllFuel w) w
        let s := Spec.decode role cfg.acceptUnmasked ⟨cfg.maxFrame, cfg.maxMsg⟩ (pre ++ dataOf t.rd)
        r.1 = s.1 ∧ finalMatches role r.2 s.2) := by
  intro H
  have hc : Ctx.new .client cexCfg cexStream = some cexCtx := by
    unfold Ctx.new
    rw [if_pos (by decide)]
    rfl
  have hmax : 200 ≤ cexCfg.maxw := by decide
  have hb : ∀ e ∈ cexT.rd, e.benign = true := fun e he => by cases he
  have hacc : cexT.acceptsAll := ⟨rfl, rfl, rfl, rfl⟩
  have hstream : cexStream ++ dataOf cexT.rd = cexStream := List.append_nil _
  have e1 : Spec.decode .client cexCfg.acceptUnmasked ⟨cexCfg.maxFrame, cexCfg.maxMsg⟩ cexStream =
      ([], .needMore) := big_unlimited _ half rfl
  have e2 : Spec.decode .client cexCfg.acceptUnmasked (effectiveLimits cexCfg) cexStream =
      ([], .error .capacity) := big_effective _ half rfl
  have h1 := H .client cexCfg cexStream cexCtx hc hmax cexT hb rfl hacc []
  have h2 := C05_reads_effective_limits .client cexCfg cexStream cexCtx hc hmax cexT hb rfl
    hacc []
  dsimp only at h1 h2
  rw [hstream, e1] at h1
  rw [hstream, e2] at h2
  have h1' : (readAll (readAllFuel { c := cexCtx, t := cexT, mu := [] })
      { c := cexCtx, t := cexT, mu := [] }).2 = .pending := h1.2
  obtain ⟨err, he, _⟩ := h2.2
  rw [h1'] at he
  cases he

/-! ## the single-frame layer -/

/-- One call of `read_frame`, started at a frame boundary with `c.inBuf` buffered, over any benign
cutting `t.rd` of the rest: the result is dictated by the one-shot split `shot` of the whole
stream `c.inBuf ++ dataOf t.rd` — the frame (and the unread suffix is exactly what is left in the
buffer and the script), or the error the header alone decides, or WouldBlock with a state that
still represents the same stream. -/
theorem C05_frame_segmentation_independent
    (maxFrame : Option Nat) (unmask acceptUnmasked : Bool) (c : Codec) (t : Transport)
    (hh : c.header = none) (hb : ∀ e ∈ t.rd, e.benign = true) (hdef : t.rdDef = .err .wouldBlock) :
    RdFrameOut (maxFrame.getD usizeMax) unmask acceptUnmasked c t (c.inBuf ++ dataOf t.rd)
      (c.readFrame t maxFrame unmask acceptUnmasked) :=
  readFrame_spec maxFrame unmask acceptUnmasked c t c.inBuf hb hdef (Rep_none hh)

/-- The same for a call that resumes after an earlier one blocked (`c` represents the bytes `B`
since the last frame boundary, its header possibly parsed already): resuming equals restarting. -/
theorem C05_wouldblock_neutral
    (maxFrame : Option Nat) (unmask acceptUnmasked : Bool) (c : Codec) (t : Transport) (B : Bytes)
    (hrep : Rep c B) (hb : ∀ e ∈ t.rd, e.benign = true) (hdef : t.rdDef = .err .wouldBlock) :
    RdFrameOut (maxFrame.getD usizeMax) unmask acceptUnmasked c t (B ++ dataOf t.rd)
      (c.readFrame t maxFrame unmask acceptUnmasked) :=
  readFrame_spec maxFrame unmask acceptUnmasked c t B hb hdef hrep

/-! ## concrete instances -/

/-- "Hel" "lo" as a fragmented masked text message followed by a ping, cut into five pieces with
WouldBlock in between, part of it pre-read -/
def exStream : Bytes :=
  [0x01, 0x83, 1, 2, 3, 4, 0x49, 0x67, 0x6f,
   0x80, 0x82, 0, 0, 0, 0, 0x6c, 0x6f,
   0x89, 0x80, 9, 9, 9, 9]

def exCtx : Ctx := { role := .server, cfg := {}, codec := { inBuf := exStream.take 3, maxOut := usizeMax, writeLen := 131072 } }

def exT : Transport :=
  { rd := [.data [exStream[3]!], .err .wouldBlock, .data ((exStream.drop 4).take 9), .err .wouldBlock,
           .err .wouldBlock, .data ((exStream.drop 13).take 5), .data (exStream.drop 18)],
    wr := [], fl := [] }

example : Ctx.new .server {} (exStream.take 3) = some exCtx := rfl
example : exStream.take 3 ++ dataOf exT.rd = exStream := by decide
example : (readAll (readAllFuel { c := exCtx, t := exT }) { c := exCtx, t := exT }).1 =
    [.text [0x48, 0x65, 0x6c, 0x6c, 0x6f], .ping []] := by decide
example : (Spec.decode .server false ⟨some 16777216, some 67108864⟩ exStream).1 =
    [.text [0x48, 0x65, 0x6c, 0x6c, 0x6f], .ping []] := by decide

end WsProofs.C05
