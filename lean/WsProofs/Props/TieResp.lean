import WsModel.Generated.RespGen
import WsProofs.Lemmas.HsServerChecks

/-! `write_response` as generated from the source writes exactly the bytes the handshake model
(`response101`, `rejectBytes`, `headerLines` in `WsModel/Handshake/Model.lean`) says the server
answers with. -/
namespace WsProofs.Tie
open WsModel WsModel.Gen WsModel.Hs WsModel.GenResp

/-- every value is something `HeaderValue::to_str` accepts -/
def Printable (hs : List (Bytes × Bytes)) : Prop := ∀ p ∈ hs, toStr p.2 = some p.2

theorem writeResponseLoop1_eq (ver st : Bytes) (hs : List (Bytes × Bytes)) (hp : Printable hs) (out : Bytes) :
    GenResp.writeResponseLoop1 ver st hs out =
      (out ++ (hs.map fun (k, v) => headerLine k v).flatten, .ok ()) := by
  induction hs generalizing out with
  | nil => simp [GenResp.writeResponseLoop1, pure, GenResp.M.pure]
  | cons p rest ih =>
    obtain ⟨k, v⟩ := p
    have hv : toStr v = some v := hp (k, v) (by simp)
    have hr : Printable rest := fun q hq => hp q (by simp [hq])
    unfold GenResp.writeResponseLoop1
    simp only [bind, GenResp.M.bind, GenResp.liftRes, GenResp.toStrR, hv, GenResp.writeLn]
    rw [ih hr]
    simp [headerLine, colonSp, crlf, List.append_assoc]

/-- the generated serialiser: status line, one line per header in iteration order, empty line -/
theorem Tie_resp_writeResponse (ver st : Bytes) (hs : List (Bytes × Bytes)) (hp : Printable hs) (out : Bytes) :
    GenResp.writeResponse ver st hs out =
      (out ++ (ver ++ [32] ++ st ++ crlf) ++ (hs.map fun (k, v) => headerLine k v).flatten ++ crlf, .ok ()) := by
  unfold GenResp.writeResponse
  simp only [bind, GenResp.M.bind, GenResp.writeLn, writeResponseLoop1_eq ver st hs hp, pure, GenResp.M.pure]
  simp [crlf, List.append_assoc]

/-- a callback's rejection: what `write_response` writes for it, followed by the body, is the
model's `rejectBytes` -/
theorem Tie_resp_reject (ver st : Bytes) (hs : List (Bytes × Bytes)) (body : Option Bytes)
    (hp : Printable (HMap.ofList hs).iter) :
    (GenResp.writeResponse ver st (HMap.ofList hs).iter []).1 ++ body.getD [] =
      rejectBytes (ver ++ [32] ++ st) hs body ∧
    (GenResp.writeResponse ver st (HMap.ofList hs).iter []).2 = .ok () := by
  rw [Tie_resp_writeResponse ver st _ hp]
  simp [rejectBytes, headerLines, List.append_assoc]

/-- the 101: with the version and status texts `http` prints for it, `write_response` on the header
map of `create_parts` plus the callback's additions writes the model's `response101` -/
theorem Tie_resp_response101 (acc : Bytes) (extra : List (Bytes × Bytes))
    (hp : Printable (HMap.ofList ([srvRespConnection, srvRespUpgrade, (srvRespAcceptName, acc)] ++ extra)).iter) :
    GenResp.writeResponse [72, 84, 84, 80, 47, 49, 46, 49]
        [49, 48, 49, 32, 83, 119, 105, 116, 99, 104, 105, 110, 103, 32, 80, 114, 111, 116, 111, 99, 111, 108, 115]
        (HMap.ofList ([srvRespConnection, srvRespUpgrade, (srvRespAcceptName, acc)] ++ extra)).iter [] =
      (response101 acc extra, .ok ()) := by
  rw [Tie_resp_writeResponse _ _ _ hp]
  have hs : ([72, 84, 84, 80, 47, 49, 46, 49] ++ [32] ++
      [49, 48, 49, 32, 83, 119, 105, 116, 99, 104, 105, 110, 103, 32, 80, 114, 111, 116, 111, 99, 111, 108, 115] ++ crlf : Bytes)
      = statusLine101 := by decide
  simp only [List.nil_append]
  rw [hs]
  simp [response101, headerLines, List.append_assoc]

/-- non-vacuity: a rejection with a repeated header name -/
example : (GenResp.writeResponse [72] [52, 48, 52] (HMap.ofList [([65], [49]), ([66], [50]), ([97], [51])]).iter []).1
    = [72, 32, 52, 48, 52, 13, 10, 97, 58, 32, 49, 13, 10, 97, 58, 32, 51, 13, 10, 98, 58, 32, 50, 13, 10, 13, 10] := by
  decide

end WsProofs.Tie
