import WsModel.FrameSocket
import WsProofs.Lemmas.EndpointBasic

/-! # What `FrameSocket` guarantees about the bytes it is given (C01 / C10 / C14 / C19 at the
level of the public codec wrapper)

`FSock.stream` is everything the socket has taken responsibility for, in order: what the transport
has accepted followed by what is still in the codec's buffer. -/
namespace WsProofs.Fsock
open WsModel WsModel.Gen

def stream (s : FSock) : Bytes := s.t.accepted ++ s.c.outBuf

/-- `write`: either refused with the frame handed back and nothing changed, or the frame's
encoding is appended to the stream — also when the transport reported an error -/
theorem C10_fsock_write (s : FSock) (f : Frame) :
    ((s.write f).2 = .err (.writeBufferFull f) ∧ (s.write f).1 = s) ∨
    (((s.write f).2 = .ok () ∨ ∃ k, (s.write f).2 = .err (.io k)) ∧
      stream (s.write f).1 = stream s ++ f.format) := by
  cases s with | mk c t => ?_
  have h := Codec.bufferFrame_spec c t f
  unfold FSock.write stream
  rcases h.cases with ⟨hr, hc, ht⟩ | ⟨hr, hf, _⟩
  · left; exact ⟨hr, by simp only [hc, ht]⟩
  · right; exact ⟨hr, hf⟩

/-- a write buffer without a bound (how `FrameSocket::new` creates the codec) never refuses -/
theorem C10_fsock_write_unbounded (s : FSock) (f : Frame) (h : f.len + s.c.outBuf.length ≤ s.c.maxOut) :
    ((s.write f).2 = .ok () ∨ ∃ k, (s.write f).2 = .err (.io k)) ∧
      stream (s.write f).1 = stream s ++ f.format := by
  rcases C10_fsock_write s f with ⟨hr, _⟩ | h2
  · exfalso
    cases s with | mk c t => ?_
    unfold FSock.write Codec.bufferFrame at hr
    have hn : ¬ f.len + c.outBuf.length > c.maxOut := by simpa using Nat.not_lt.mpr h
    simp only [hn, if_false] at hr
    have hw := Codec.writeOutBuffer_spec { c with outBuf := f.formatIntoBuf c.outBuf } t
    split at hr
    · rcases hw.kind with h1 | ⟨k, h1⟩ <;> rw [h1] at hr <;> cases hr
    · cases hr
  · exact h2

/-- `flush` loses and reorders nothing, and when it returns `Ok` nothing is left in the buffer:
every byte ever written is on the wire -/
theorem C10_fsock_flush (s : FSock) :
    stream s.flush.1 = stream s ∧
    (s.flush.2 = .ok () → s.flush.1.c.outBuf = [] ∧ s.flush.1.t.accepted = stream s) := by
  cases s with | mk c t => ?_
  have h := Codec.writeOutBuffer_spec c t
  unfold FSock.flush stream
  rcases hw : c.writeOutBuffer t with ⟨c', t', r⟩
  rw [hw] at h
  cases r with
  | ok u =>
    simp only
    have hfl := Transport.flush_spec t'
    rcases hfl2 : t'.flush with ⟨t2, e⟩
    rw [hfl2] at hfl
    have hacc : t2.accepted = t'.accepted := hfl.2.1
    have hempty : c'.outBuf = [] := h.empty rfl
    cases e with
    | ok =>
      simp only
      refine ⟨by rw [hacc]; exact h.fifo, fun _ => ⟨hempty, ?_⟩⟩
      have := h.fifo
      rw [hempty, List.append_nil] at this
      rw [hacc, this]
    | err k =>
      simp only
      exact ⟨by rw [hacc]; exact h.fifo, fun hk => by cases hk⟩
  | err e => simp only; exact ⟨h.fifo, fun hk => by cases hk⟩
  | panic p => simp only; exact ⟨h.fifo, fun hk => by cases hk⟩

/-- `send` = `write` then `flush`: `Ok` means the frame and everything before it is on the wire -/
theorem C10_fsock_send_ok (s : FSock) (f : Frame) (h : (s.send f).2 = .ok ()) :
    (s.send f).1.c.outBuf = [] ∧ (s.send f).1.t.accepted = stream s ++ f.format := by
  unfold FSock.send at h ⊢
  rcases hw : s.write f with ⟨s1, r⟩
  rw [hw] at h
  cases r with
  | ok u =>
    simp only at h ⊢
    have hfl := (C10_fsock_flush s1).2 h
    refine ⟨hfl.1, ?_⟩
    rw [hfl.2]
    rcases C10_fsock_write s f with ⟨hr, _⟩ | ⟨_, hs⟩
    · rw [hw] at hr; cases hr
    · rw [hw] at hs; exact hs
  | err e => cases h
  | panic p => cases h

/-- reading does not touch what was written -/
theorem C10_fsock_read_keeps_stream (s : FSock) (maxSize : Option Nat) :
    stream (s.read maxSize).1 = stream s := by
  cases s with | mk c t => ?_
  have h := Codec.readFrame_spec c t maxSize false true
  unfold FSock.read stream
  simp only
  rw [h.same.outBuf, h.accepted]

/-! ### every history of calls -/

inductive FOp where
  | read (maxSize : Option Nat)
  | write (f : Frame)
  | flush
  | send (f : Frame)

/-- one call; the second component is the frame the call queued, if it queued one (a `write` or
`send` that was not refused with `WriteBufferFull`) -/
def step (s : FSock) : FOp → FSock × Option Frame
  | .read m => ((s.read m).1, none)
  | .write f => ((s.write f).1, if (s.write f).2.isWriteBufferFull then none else some f)
  | .flush => (s.flush.1, none)
  | .send f => ((s.send f).1, if (s.write f).2.isWriteBufferFull then none else some f)

def run : List FOp → FSock → FSock × List Frame
  | [], s => (s, [])
  | op :: ops, s =>
    let r := step s op
    let rest := run ops r.1
    (rest.1, (match r.2 with | some f => [f] | none => []) ++ rest.2)

theorem step_stream (s : FSock) (op : FOp) :
    stream (step s op).1 = stream s ++ (match (step s op).2 with | some f => f.format | none => []) := by
  cases op with
  | read m => simp [step, C10_fsock_read_keeps_stream]
  | flush => simp [step, (C10_fsock_flush s).1]
  | write f =>
    simp only [step]
    rcases C10_fsock_write s f with ⟨hr, hs⟩ | ⟨hr, hs⟩
    · simp [hr, hs, Res.isWriteBufferFull]
    · have hne : (s.write f).2.isWriteBufferFull = false := by
        rcases hr with h | ⟨k, h⟩ <;> rw [h] <;> rfl
      simp [hne, hs]
  | send f =>
    simp only [step]
    rcases C10_fsock_write s f with ⟨hr, hs⟩ | ⟨hr, hs⟩
    · have : (s.send f).1 = s := by
        unfold FSock.send
        rcases hw : s.write f with ⟨s1, r⟩
        rw [hw] at hr hs
        simp only at hr hs
        subst hr; subst hs; rfl
      simp [hr, this, Res.isWriteBufferFull]
    · have hne : (s.write f).2.isWriteBufferFull = false := by
        rcases hr with h | ⟨k, h⟩ <;> rw [h] <;> rfl
      have : stream (s.send f).1 = stream (s.write f).1 := by
        unfold FSock.send
        rcases hw : s.write f with ⟨s1, r⟩
        cases r with
        | ok u => exact (C10_fsock_flush s1).1
        | err e => rfl
        | panic p => rfl
      simp [hne, this, hs]

/-- C10 for the frame socket, for every history of `read` / `write` / `flush` / `send` over every
transport behaviour: accepted-or-buffered bytes are exactly the encodings of the frames queued,
in the order of the calls — nothing lost, duplicated or reordered -/
theorem C10_fsock_history (ops : List FOp) (s : FSock) :
    stream (run ops s).1 = stream s ++ ((run ops s).2.map Frame.format).flatten := by
  induction ops generalizing s with
  | nil => simp [run]
  | cons op ops ih =>
    simp only [run]
    rw [ih, step_stream]
    cases (step s op).2 <;> simp

/-- non-vacuity: a frame written to a transport that takes 3 bytes and then blocks, then a flush
on the transport that accepts everything -/
def exSock : FSock :=
  ⟨{ maxOut := usizeMax, writeLen := 0 }, { rd := [], wr := [.accept 3, .err .wouldBlock], fl := [] }⟩
def exFrame : Frame := Frame.message [1, 2, 3, 4, 5] (.data .binary) true

example : (run [.write exFrame, .flush] exSock).2 = [exFrame] := rfl
example : (run [.write exFrame, .flush] exSock).1.t.accepted = exFrame.format := rfl

end WsProofs.Fsock
