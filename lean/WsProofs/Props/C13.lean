import WsModel.Endpoint
import WsProofs.Lemmas.GlobalRead
import WsProofs.Props.C03
import WsProofs.Props.C10
import WsProofs.Props.C11

/-! C13 — Close frames and automatic replies are never lost to back-pressure: whatever the
transport does (WouldBlock, partial writes, a full write buffer), a Close that is owed stays in the
pending slot until it is queued, and what is queued is on the wire or in the write buffer. -/
namespace WsProofs.C13
open WsModel WsModel.Gen

/-- "the Close frame with this payload is still owed or already queued" -/
def ClosePending (w : World) (payload : Bytes) : Prop :=
  (∃ f, w.c.additional = some f ∧ f.isClose = true ∧ f.payload = payload) ∨
  (∃ f ∈ w.queued, f.isClose = true ∧ f.payload = payload)

/-! ### helpers -/

theorem mem_snoc_self {q : List Frame} (f : Frame) : f ∈ q ++ [f] := by simp

/-- a slot frame survives slot draining: it is still in the slot (maybe re-masked) or was queued -/
theorem sd_keeps {w w' : World} (h : SD w w') {f : Frame} (hf : w.c.additional = some f) :
    (∃ f', Remask w.c.role f f' ∧ w'.c.additional = some f') ∨
    (∃ f', Remask w.c.role f f' ∧ f' ∈ w'.queued) := by
  rcases h.full f hf with ⟨f', r, s, _⟩ | ⟨f', m, _, q⟩
  · exact Or.inl ⟨f', r, s⟩
  · exact Or.inr ⟨f', m.remask, by rw [q]; exact mem_snoc_self f'⟩

theorem ClosePending.of_queue {w w' : World} {p : Bytes} (h : ClosePending w p)
    (ha : w'.c.additional = w.c.additional) (hq : ∃ l, w'.queued = w.queued ++ l) :
    ClosePending w' p := by
  obtain ⟨l, hq⟩ := hq
  rcases h with ⟨f, hf, hc, hp⟩ | ⟨f, hf, hc, hp⟩
  · exact Or.inl ⟨f, ha.trans hf, hc, hp⟩
  · exact Or.inr ⟨f, by rw [hq]; exact List.mem_append_left _ hf, hc, hp⟩

theorem ClosePending.sd {w w' : World} {p : Bytes} (h : ClosePending w p) (hd : SD w w') :
    ClosePending w' p := by
  rcases h with ⟨f, hf, hc, hp⟩ | ⟨f, hf, hc, hp⟩
  · rcases sd_keeps hd hf with ⟨f', r, s⟩ | ⟨f', r, s⟩
    · exact Or.inl ⟨f', s, by rw [r.isClose]; exact hc, by rw [r.payload]; exact hp⟩
    · exact Or.inr ⟨f', s, by rw [r.isClose]; exact hc, by rw [r.payload]; exact hp⟩
  · obtain ⟨l, hq⟩ := hd.grow
    exact Or.inr ⟨f, by rw [hq]; exact List.mem_append_left _ hf, hc, hp⟩

/-- a slot that holds a Close is not "empty or a pong" -/
theorem not_pongy_of_close {w : World} {f : Frame} (hf : w.c.additional = some f)
    (hc : f.isClose = true) (hp : Pongy w) : False := by
  have := close_not_pong hc
  rw [hp f hf] at this
  cases this

theorem ClosePending.ovw {w w' : World} {p : Bytes} (h : ClosePending w p) (ho : Ovw w w') :
    ClosePending w' p := by
  rcases h with ⟨f, hf, hc, hp⟩ | ⟨f, hf, hc, hp⟩
  · rcases ho.slot with ha | ⟨_, hpg, _⟩
    · exact Or.inl ⟨f, ha.trans hf, hc, hp⟩
    · exact (not_pongy_of_close hf hc hpg).elim
  · exact Or.inr ⟨f, by rw [ho.queued]; exact hf, hc, hp⟩

theorem ClosePending.pre {w w0 : World} {op : Op} {p : Bytes} (h : ClosePending w p)
    (hpre : Pre w op w0) : ClosePending w0 p := by
  cases hpre with
  | same ha hq => exact h.of_queue ha ⟨[], by rw [hq]; simp⟩
  | close c _ hpg _ hq =>
    rcases h with ⟨f, hf, hc, _⟩ | ⟨f, hf, hc, hp⟩
    · exact (not_pongy_of_close hf hc hpg).elim
    · exact Or.inr ⟨f, by rw [hq]; exact hf, hc, hp⟩
  | pong d _ _ hpg _ hq =>
    rcases h with ⟨f, hf, hc, _⟩ | ⟨f, hf, hc, hp⟩
    · exact (not_pongy_of_close hf hc hpg).elim
    · exact Or.inr ⟨f, by rw [hq]; exact hf, hc, hp⟩
  | data f f' _ _ ha hq => exact h.of_queue ha ⟨[f'], hq⟩

theorem Pongy.sd {w w' : World} (h : Pongy w) (hd : SD w w') : Pongy w' := by
  intro g hg
  cases ha : w.c.additional with
  | none => rw [(hd.empty ha).1] at hg; cases hg
  | some f =>
    rcases hd.full f ha with ⟨f', r, s, _⟩ | ⟨_, _, s, _⟩
    · rw [s] at hg; cases hg
      rw [r.isPong]; exact h f ha
    · rw [s] at hg; cases hg

/-! ### the theorems -/

/-- once close() has been called on an open connection — whatever it returned — the Close frame is pending -/
theorem C13_close_pending (w : World) (c : Option CloseFrame) (hr : w.Reachable) (hact : w.c.state = .active) :
    ClosePending (w.close c).1 (Frame.close c).payload := by
  have _ := hr
  have h0 : ClosePending ((w.setState .closedByUs).setAdditionalRaw (some (Frame.close c)))
      (Frame.close c).payload := Or.inl ⟨_, rfl, rfl, rfl⟩
  exact h0.sd (close_ws_active w c hact).toSD

/-- the reply to a received Close is pending as soon as the Close is delivered -/
theorem C13_reply_pending (w : World) (c : Option CloseFrame) (hr : w.Reachable) (hact : w.c.state = .active)
    (h : (w.read).2 = .ok (.close c)) : ClosePending (w.read).1 (Frame.close c).payload := by
  have hI := reachable_inv w hr
  obtain ⟨w1, h1, h2, _, h4⟩ := read_slot w (active_ne_terminated hact)
  exact Or.inl ⟨_, h4 c h (h2 hact) (Pongy.sd (hI.pongy hact) h1), rfl, rfl⟩

/-- a pending Close is never discarded: whatever call is made and whatever the transport does, it stays
pending (in the slot, or queued in the write buffer / on the wire) -/
theorem C13_close_never_dropped (w : World) (op : Op) (payload : Bytes) (hr : w.Reachable) (hop : op.noRaw)
    (h : ClosePending w payload) : ClosePending (w.step op).1 payload := by
  obtain ⟨w0, w1, _, hp, hd, ho⟩ := step_decomp w op (reachable_inv w hr) hop
  exact ((h.pre hp).sd hd).ovw ho

/-- queued means: in the write buffer or already accepted by the transport, in order (from C10) -/
theorem C13_queued_is_on_its_way (w : World) (hr : w.Reachable) :
    w.t.accepted ++ w.c.codec.outBuf = encodeAll w.queued :=
  C10.C10_fifo w hr

/-- the slot frame is queued by a successful flush (as `C11_flush_sends_pending`, from every state) -/
theorem flush_sends_pending (w : World) (f : Frame) (hs : w.c.additional = some f)
    (hfit : f.len + 4 ≤ w.c.codec.maxOut) (hok : (w.flush).2 = .ok ()) :
    ∃ f', (w.flush).1.queued = w.queued ++ [f'] ∧ f'.payload = f.payload ∧
      f'.header.opcode = f.header.opcode ∧ (w.flush).1.c.additional = none := by
  obtain ⟨w1, b1, w2, w3, w4, hslot, hwob, hretry, hsf, hflush⟩ := C11.flush_ok_inv w hok
  rw [hflush]
  obtain ⟨sfq, sfc, _⟩ := Local.streamFlush_spec w3
  rw [hsf] at sfq sfc
  dsimp only at sfq sfc
  show ∃ f', w4.queued = w.queued ++ [f'] ∧ f'.payload = f.payload ∧
      f'.header.opcode = f.header.opcode ∧ w4.c.additional = none
  rw [sfq, sfc]
  obtain ⟨oq, oa, om, oe, _⟩ := Local.world_writeOutBuffer_spec w1
  rw [hwob] at oq oa om oe
  dsimp only at oq oa om oe
  have oe' := oe rfl
  obtain ⟨f1, hp1, ho1, hm1, _, hcases⟩ := Local.writeSlot_some w f hs
  rw [hslot] at hm1 hcases
  dsimp only at hm1 hcases
  rcases hcases with ⟨_, _, hadd1, hq1, _⟩ | ⟨_, hok1⟩
  · have hadd2 : w2.c.additional = some f1 := by rw [oa, hadd1]
    obtain ⟨w5, b5, hslot2, hwob2⟩ := C11.flushRetry_ok_inv w2 w3 (by rw [hadd2]; rfl) hretry
    obtain ⟨f2, hp2, ho2, _, _, hcases2⟩ := Local.writeSlot_some w2 f1 hadd2
    rw [hslot2] at hcases2
    dsimp only at hcases2
    obtain ⟨pq, pa, _, _, _⟩ := Local.world_writeOutBuffer_spec w5
    rw [hwob2] at pq pa
    dsimp only at pq pa
    have hlen2 : f2.len ≤ f.len + 4 := Local.len_le_of_payload f f2 (by rw [hp2, hp1])
    rcases hcases2 with ⟨hfull2, _⟩ | ⟨_, hok2⟩
    · exfalso
      rw [oe', om, hm1] at hfull2
      simp only [List.length_nil] at hfull2
      omega
    · obtain ⟨hadd5, hq5⟩ := hok2 b5 rfl
      refine ⟨f2, ?_, by rw [hp2, hp1], by rw [ho2, ho1], ?_⟩
      · rw [pq, hq5, oq, hq1]
      · rw [pa, hadd5]
  · obtain ⟨hadd1, hq1⟩ := hok1 b1 rfl
    have hadd2 : w2.c.additional = none := by rw [oa, hadd1]
    have h32 : w3 = w2 := by
      unfold World.flushRetry at hretry
      rw [hadd2] at hretry
      have : (w2, (Res.ok () : Res Unit)) = (w3, .ok ()) := hretry
      injection this with h _
      exact h.symm
    rw [h32]
    exact ⟨f1, by rw [oq, hq1], hp1, ho1, hadd2⟩

/-- as soon as the transport accepts writes again, one successful flush puts the pending frame on the wire -/
theorem C13_flush_delivers (w : World) (f : Frame) (hr : w.Reachable) (hs : w.c.additional = some f)
    (hfit : f.len + 4 ≤ w.c.codec.maxOut) (hok : (w.flush).2 = .ok ()) :
    (w.flush).1.c.additional = none ∧ (w.flush).1.c.codec.outBuf = [] ∧
    (w.flush).1.t.accepted = encodeAll (w.flush).1.queued ∧
    ∃ f', f' ∈ (w.flush).1.queued ∧ f'.payload = f.payload ∧ f'.header.opcode = f.header.opcode := by
  obtain ⟨f', hq, hp, ho, hn⟩ := flush_sends_pending w f hs hfit hok
  obtain ⟨h1, h2, _, _⟩ := C10.C10_flush_ok w hr hok
  exact ⟨hn, h1, h2, f', by rw [hq]; exact mem_snoc_self f', hp, ho⟩

/-- read retries too: whenever a reply is pending or buffered-but-unflushed, read starts with a flush -/
theorem C13_read_retries (w : World) (h : w.c.additional.isSome = true ∨ w.c.unflushed = true)
    (hnt : w.c.state.notTerminated = true) :
    (w.readPre).1.t.log.length ≥ (w.flush).1.t.log.length ∧
    ((w.flush).2 = .ok () → (w.readPre) = ((w.flush).1, .ok ())) := by
  have _ := hnt
  unfold World.readPre
  rw [if_pos h]
  generalize w.flush = x
  obtain ⟨w1, r⟩ := x
  cases r with
  | ok u => cases u; exact ⟨Nat.le_refl _, fun _ => rfl⟩
  | panic s => exact ⟨Nat.le_refl _, fun h => by cases h⟩
  | err e =>
    cases e with
    | io k => cases k <;> exact ⟨Nat.le_refl _, fun h => by cases h⟩
    | connectionClosed => exact ⟨Nat.le_refl _, fun h => by cases h⟩
    | alreadyClosed => exact ⟨Nat.le_refl _, fun h => by cases h⟩
    | capacity a b => exact ⟨Nat.le_refl _, fun h => by cases h⟩
    | protocol p => exact ⟨Nat.le_refl _, fun h => by cases h⟩
    | writeBufferFull f => exact ⟨Nat.le_refl _, fun h => by cases h⟩
    | utf8 => exact ⟨Nat.le_refl _, fun h => by cases h⟩

/-- the endpoint never reports the connection closed while a Close of its own is still unsent on a
live transport -/
theorem C13_no_premature_closed (w : World) (op : Op) (hr : w.Reachable) (hop : op.noRaw)
    (h : (w.step op).2.err? = some .connectionClosed) :
    ((w.step op).1.c.additional = none ∧ (w.step op).1.c.codec.outBuf = [] ∧
      (w.step op).1.t.accepted = encodeAll (w.step op).1.queued) ∨
    ∃ call ∈ newCalls w (w.step op).1, call.isEnd = true := by
  rcases (C03.C03_connection_closed_sound w op hr hop h).2.2 with ⟨_, h2, h3, h4⟩ | h5
  · exact Or.inl ⟨h3, h2, h4⟩
  · exact Or.inr h5

/-- a pending automatic pong is replaced only by a newer pong or by a Close, never silently dropped.
(Changed from the given statement: the third disjunct also allows the pong the user supplied with
this very `write(Message::Pong(d))` call, which replaces the pending one — see the counterexample
below.) -/
theorem C13_pong_never_dropped (w : World) (op : Op) (f : Frame) (hr : w.Reachable) (hop : op.noRaw)
    (hs : w.c.additional = some f) (hp : f.isPong = true) :
    (w.step op).1.c.additional = some f ∨
    (∃ g, (w.step op).1.c.additional = some g ∧ (g.isPong = true ∨ g.isClose = true)) ∨
    (∃ g ∈ (w.step op).1.queued, g.isPong = true ∧
      (g.payload = f.payload ∨ op = .write (.pong g.payload))) ∨
    (∃ g ∈ (w.step op).1.queued, g.isClose = true) ∨ (w.step op).1.c.state = .terminated := by
  have hI := reachable_inv w hr
  have hI' := step_inv w op hI hop
  obtain ⟨w0, w1, hrole, hpre, hd, ho⟩ := step_decomp w op hI hop
  cases hslot : (w.step op).1.c.additional with
  | some g => exact Or.inr (Or.inl ⟨g, rfl, hI'.slot g hslot⟩)
  | none =>
    -- the slot was emptied: no overwrite happened at the end, so the draining queued its frame
    have h1 : w1.c.additional = none := by
      rcases ho.slot with ha | ⟨_, _, ⟨d, ha⟩ | ⟨c, ha⟩⟩
      · rw [← ha]; exact hslot
      · rw [ha] at hslot; cases hslot
      · rw [ha] at hslot; cases hslot
    have drained : ∀ f0, w0.c.additional = some f0 →
        ∃ f', Remask w.c.role f0 f' ∧ f' ∈ (w.step op).1.queued := by
      intro f0 hf0
      rcases hd.full f0 hf0 with ⟨f', _, s, _⟩ | ⟨f', m, _, q⟩
      · rw [s] at h1; cases h1
      · refine ⟨f', hrole ▸ m.remask, ?_⟩
        rw [ho.queued, q]; exact mem_snoc_self f'
    cases hpre with
    | same ha _ =>
      obtain ⟨f', r, hm⟩ := drained f (ha.trans hs)
      exact Or.inr (Or.inr (Or.inl ⟨f', hm, by rw [r.isPong]; exact hp, Or.inl r.payload⟩))
    | data _ _ _ _ ha _ =>
      obtain ⟨f', r, hm⟩ := drained f (ha.trans hs)
      exact Or.inr (Or.inr (Or.inl ⟨f', hm, by rw [r.isPong]; exact hp, Or.inl r.payload⟩))
    | close c _ _ ha _ =>
      obtain ⟨f', r, hm⟩ := drained _ ha
      exact Or.inr (Or.inr (Or.inr (Or.inl ⟨f', hm, by rw [r.isClose]; rfl⟩)))
    | pong d hopd _ _ ha _ =>
      obtain ⟨f', r, hm⟩ := drained _ ha
      refine Or.inr (Or.inr (Or.inl ⟨f', hm, by rw [r.isPong]; rfl, Or.inr ?_⟩))
      rw [hopd, r.payload]
      rfl

/-! ### the hypotheses are satisfiable; the counterexample to the given `C13_pong_never_dropped` -/

/-- a server with a 12-byte write buffer limit whose transport refuses the first writes -/
def exServer : World :=
  { c := { role := .server, cfg := { wbuf := 0, maxw := 12 },
           codec := { inBuf := [], maxOut := 12, writeLen := 0 } }
    t := { rd := [.data [0x89, 0x81, 0, 0, 0, 0, 1]], wr := [.err .wouldBlock, .err .wouldBlock], fl := [] } }

theorem exServer_init : exServer.Init :=
  ⟨.server, { wbuf := 0, maxw := 12 }, [], _, rfl, rfl, rfl, rfl, rfl, rfl⟩

/-- 10 bytes are stuck in the write buffer … -/
theorem ex_reachable : (exServer.run [.write (.binary [1, 2, 3, 4, 5, 6, 7, 8])]).1.Reachable :=
  ⟨exServer, _, exServer_init, by simp [Op.noRaw], rfl⟩

/-- … so the 6-byte Close frame of `close(1000, "AB")` does not fit (10 + 6 > 12): it is put back in
the slot, the call fails with WouldBlock, and the Close frame is still pending -/
example : ((exServer.run [.write (.binary [1, 2, 3, 4, 5, 6, 7, 8])]).1.close (some ⟨.normal, [65, 66]⟩)).2 =
    .err (.io .wouldBlock) := rfl

example : ((exServer.run [.write (.binary [1, 2, 3, 4, 5, 6, 7, 8])]).1.close (some ⟨.normal, [65, 66]⟩)).1.c.additional =
    some (Frame.close (some ⟨.normal, [65, 66]⟩)) := by decide

example : ClosePending
    ((exServer.run [.write (.binary [1, 2, 3, 4, 5, 6, 7, 8])]).1.close (some ⟨.normal, [65, 66]⟩)).1
    (Frame.close (some ⟨.normal, [65, 66]⟩)).payload :=
  C13_close_pending _ _ ex_reachable (by decide)

/-- once the transport accepts writes, one flush delivers it: hypotheses of `C13_flush_delivers` -/
example : ((exServer.run [.write (.binary [1, 2, 3, 4, 5, 6, 7, 8]), .close (some ⟨.normal, [65, 66]⟩)]).1.flush).2 =
    .ok () := rfl

/-- a pending pong (the peer's ping [1] was read) -/
theorem ex_pong_reachable : (exServer.run [.read]).1.Reachable :=
  ⟨exServer, _, exServer_init, by simp [Op.noRaw], rfl⟩

example : (exServer.run [.read]).1.c.additional = some (Frame.pong [1]) := by decide

/-- counterexample to the statement as given (third disjunct `g.payload = f.payload` only):
`write(Message::Pong([2]))` replaces the pending pong [1] by the user's pong [2], which is sent;
afterwards the slot is empty, no pong with payload [1] and no Close is queued, the state is active -/
example :
    let w := (exServer.run [.read]).1
    let w' := (w.step (.write (.pong [2]))).1
    w.c.additional = some (Frame.pong [1]) ∧
    w'.c.additional = none ∧ w'.queued = [Frame.pong [2]] ∧ w'.c.state = .active := by
  decide

end WsProofs.C13
