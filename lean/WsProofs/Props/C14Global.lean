import WsModel.Endpoint
import WsProofs.Lemmas.EndpointStep

/-! History-level corollaries of the global invariant for C14. -/
namespace WsProofs.C14
open WsModel WsModel.Gen

/-- whatever the user writes, the peer triggers or the transport refuses: the encoded data an
endpoint holds unsent in its write buffer never exceeds max_write_buffer_size -/
theorem C14_bound (w : World) (h : w.Reachable) : w.c.codec.outBuf.length ≤ w.c.cfg.maxw := by
  have hi := reachable_inv w h
  have := hi.bound
  rw [hi.cfgFixed.1] at this
  exact this

/-- … plus at most the one pending control frame: everything else that was ever queued is in that
buffer or already accepted by the transport -/
theorem C14_unsent_is_buffer_plus_slot (w : World) (h : w.Reachable) :
    w.t.accepted ++ w.c.codec.outBuf = encodeAll w.queued ∧
    w.c.codec.outBuf.length ≤ w.c.cfg.maxw ∧ w.c.codec.writeLen = w.c.cfg.wbuf :=
  ⟨(reachable_inv w h).fifo, C14_bound w h, (reachable_inv w h).cfgFixed.2⟩

end WsProofs.C14
