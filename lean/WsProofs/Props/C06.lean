import WsModel.Endpoint
import WsModel.Spec.Rfc6455
import WsProofs.Props.C20
import WsProofs.Props.C08
import WsProofs.Props.C19

/-! # C06 — inbound size limits

`Codec.readFrame` (`FrameCodec::read_frame`, `max_frame_size`), `Incomplete.extend`
(`IncompleteMessage::extend`, `max_message_size`), `World.onData`, and the specification
decoder `Spec.decode`. -/
namespace WsProofs.C06
open WsModel WsModel.Gen

/-! ## frame limit -/

theorem trySplit_frame_le (c c2 : Codec) (maxSize : Nat) (p : Bytes)
    (h : c.trySplit maxSize = .frame c2 p) : p.length ≤ maxSize := by
  unfold Codec.trySplit at h
  cases hh : c.header with
  | none => rw [hh] at h; exact nomatch h
  | some hl =>
    obtain ⟨hd, len⟩ := hl
    rw [hh] at h
    dsimp only at h
    by_cases h1 : len > maxSize
    · rw [if_pos h1] at h; exact nomatch h
    · rw [if_neg h1] at h
      by_cases h2 : len ≤ c.inBuf.length
      · rw [if_pos h2] at h
        injection h with _ hp
        rw [← hp, List.length_take]
        omega
      · rw [if_neg h2] at h; exact nomatch h

theorem readLoop_payload_le (maxSize : Nat) : ∀ (fuel : Nat) (c : Codec) (t : Transport) (p : Bytes),
    (Codec.readLoop maxSize fuel c t).2.2 = .ok (some p) → p.length ≤ maxSize := by
  intro fuel
  induction fuel with
  | zero => intro c t p h; exact nomatch h
  | succ fuel ih =>
    intro c t p h
    unfold Codec.readLoop at h
    cases he : c.ensureHeader with
    | mk c1 r =>
      rw [he] at h
      cases r with
      | err e => exact nomatch h
      | panic s => exact nomatch h
      | ok u =>
        cases u
        dsimp only at h
        cases hs : c1.trySplit maxSize with
        | frame c2 p' =>
          rw [hs] at h
          dsimp only at h
          injection h with h
          injection h with h
          subst h
          exact trySplit_frame_le c1 c2 maxSize p' hs
        | tooLong size max => rw [hs] at h; exact nomatch h
        | more n =>
          rw [hs] at h
          dsimp only at h
          cases hrd : t.read with
          | mk t1 ev =>
            rw [hrd] at h
            cases ev with
            | eof => exact nomatch h
            | err k => exact nomatch h
            | data bs =>
              dsimp only at h
              by_cases hb : bs.isEmpty = true
              · rw [if_pos hb] at h; exact nomatch h
              · rw [if_neg hb] at h
                exact ih _ _ p h

theorem finishFrame_payload (c : Codec) (p : Bytes) (unmask au : Bool) (f : Frame)
    (h : (c.finishFrame p unmask au).2 = .ok (some f)) : f.payload.length = p.length := by
  unfold Codec.finishFrame at h
  cases hh : c.header with
  | none => rw [hh] at h; exact nomatch h
  | some hl =>
    obtain ⟨hd, len⟩ := hl
    rw [hh] at h
    dsimp only at h
    by_cases h1 : p.length ≠ len
    · rw [if_pos h1] at h; exact nomatch h
    · rw [if_neg h1] at h
      cases unmask with
      | false =>
        simp only [Bool.false_eq_true, if_false] at h
        injection h with h
        injection h with h
        rw [← h]
      | true =>
        simp only [if_true] at h
        cases hm : hd.mask with
        | some m =>
          rw [hm] at h
          dsimp only at h
          injection h with h
          injection h with h
          rw [← h]
          exact C19.C19_length m p
        | none =>
          rw [hm] at h
          dsimp only at h
          cases au with
          | false => exact nomatch h
          | true =>
            simp only [if_true] at h
            injection h with h
            injection h with h
            rw [← h]

/-- no frame with a payload above max_frame_size is ever returned -/
theorem C06_frame_limit (c : Codec) (t : Transport) (maxSize : Nat) (unmask au : Bool) (f : Frame)
    (h : (c.readFrame t (some maxSize) unmask au).2.2 = .ok (some f)) : f.payload.length ≤ maxSize := by
  unfold Codec.readFrame at h
  have hle := readLoop_payload_le ((some maxSize).getD usizeMax) (t.rd.length + 1) c t
  cases hl : Codec.readLoop ((some maxSize).getD usizeMax) (t.rd.length + 1) c t with
  | mk c1 tr =>
    cases tr with
    | mk t1 r =>
      rw [hl] at h hle
      cases r with
      | err e => exact nomatch h
      | panic s => exact nomatch h
      | ok o =>
        cases o with
        | none => exact nomatch h
        | some p =>
          dsimp only at h
          have := hle p rfl
          rw [finishFrame_payload c1 p unmask au f h]
          exact this

theorem readLoop_tooLong (maxSize fuel : Nat) (c : Codec) (t : Transport) (h : Header) (len n : Nat)
    (hh : c.header = none) (hp : Header.parse c.inBuf = .header h len n) (hbig : len > maxSize) :
    Codec.readLoop maxSize (fuel + 1) c t =
      ({ c with header := some (h, len), inBuf := c.inBuf.drop n }, t, .err (.capacity len maxSize)) := by
  unfold Codec.readLoop
  have he : c.ensureHeader =
      ({ c with header := some (h, len), inBuf := c.inBuf.drop n }, .ok ()) := by
    unfold Codec.ensureHeader
    rw [hh]
    dsimp only
    rw [hp]
  rw [he]
  dsimp only
  unfold Codec.trySplit
  dsimp only
  rw [if_pos hbig]

/-- a frame is rejected as soon as its header announces an over-limit length: capacity error,
no transport read, nothing buffered beyond what was there -/
theorem C06_early_reject (c : Codec) (t : Transport) (maxSize : Nat) (unmask au : Bool)
    (h : Header) (len n : Nat) (hh : c.header = none) (hp : Header.parse c.inBuf = .header h len n)
    (hbig : len > maxSize) :
    (c.readFrame t (some maxSize) unmask au).2.2 = .err (.capacity len maxSize) ∧
    (c.readFrame t (some maxSize) unmask au).2.1 = t := by
  unfold Codec.readFrame
  have hl := readLoop_tooLong maxSize t.rd.length c t h len n hh hp hbig
  rw [show (some maxSize).getD usizeMax = maxSize from rfl, hl]
  exact ⟨rfl, rfl⟩

/-! ## message limit: the accumulator -/

theorem decodeRest_len (s : Collector) (hi : s.incomplete = none) (x : Bytes)
    (hok : (s.decodeRest x).2 = .ok ()) : (s.decodeRest x).1.len = s.data.length + x.length := by
  unfold Collector.decodeRest at hok ⊢
  by_cases hx : x.isEmpty = true
  · rw [if_pos hx]
    have : x = [] := List.isEmpty_iff.mp hx
    subst this
    unfold Collector.len
    rw [hi]
    rfl
  · rw [if_neg hx] at hok ⊢
    unfold utf8Decode at hok ⊢
    cases hv : utf8Validate x with
    | ok =>
      dsimp only
      unfold Collector.len
      dsimp only
      rw [hi, List.length_append]
      rfl
    | err v el =>
      rw [hv] at hok
      cases el with
      | some k => exact nomatch hok
      | none =>
        dsimp only
        unfold Collector.len
        dsimp only
        rw [List.length_append, List.length_take, List.length_drop]
        omega

/-- `StringCollector::extend` adds exactly the bytes it is given (on any collector value) -/
theorem collector_extend_len (s : Collector) (tail : Bytes) (hok : (s.extend tail).2 = .ok ()) :
    (s.extend tail).1.len = s.len + tail.length := by
  unfold Collector.extend at hok ⊢
  cases hi : s.incomplete with
  | none =>
    rw [hi] at hok
    dsimp only at hok ⊢
    rw [decodeRest_len s hi tail hok]
    unfold Collector.len
    rw [hi]
    rfl
  | some buf =>
    rw [hi] at hok
    dsimp only at hok ⊢
    have hlen : s.len = s.data.length + buf.length := by unfold Collector.len; rw [hi]
    rw [hlen]
    unfold utf8TryComplete at hok ⊢
    dsimp only at hok ⊢
    generalize hc : min (4 - buf.length) tail.length = copied at hok ⊢
    have hcl : copied ≤ tail.length := by omega
    have hsl : (buf ++ tail.take copied).length = buf.length + copied := by
      rw [List.length_append, List.length_take]; omega
    cases hv : utf8Validate (buf ++ tail.take copied) with
    | ok =>
      rw [hv] at hok
      dsimp only at hok ⊢
      rw [decodeRest_len _ rfl _ hok]
      dsimp only
      rw [List.length_append, hsl, List.length_drop]
      omega
    | err v el =>
      rw [hv] at hok
      dsimp only at hok ⊢
      obtain ⟨hvle, _, hstep⟩ := Utf8.validate_err_spec hv
      rw [hsl] at hvle
      by_cases hv0 : v > 0
      · rw [if_pos hv0] at hok ⊢
        by_cases hvi : v < buf.length
        · rw [if_pos hvi] at hok; exact nomatch hok
        · rw [if_neg hvi] at hok ⊢
          dsimp only at hok ⊢
          rw [decodeRest_len _ rfl _ hok]
          dsimp only
          rw [List.length_append, List.length_take, hsl, List.length_drop]
          omega
      · rw [if_neg hv0] at hok ⊢
        cases el with
        | some k =>
          dsimp only at hok
          by_cases hk : k < buf.length
          · rw [if_pos hk] at hok; exact nomatch hok
          · rw [if_neg hk] at hok; exact nomatch hok
        | none =>
          dsimp only
          have hv0' : v = 0 := by omega
          subst hv0'
          rw [List.drop_zero] at hstep
          have hl := (Utf8.step_incomplete hstep).2.1
          rw [hsl] at hl
          unfold Collector.len
          dsimp only
          rw [hsl]
          omega

/-- the reassembly accumulator never exceeds max_message_size, and the first excess is a capacity error -/
theorem C06_accumulator (m : Incomplete) (tail : Bytes) (max : Nat) :
    (m.len + tail.length > max → (m.extend tail (some max)).2 = .err (.capacity (m.len + tail.length) max)) ∧
    (∀ m', (m.extend tail (some max)) = (m', .ok ()) → m'.len = m.len + tail.length ∧ m'.len ≤ max) := by
  unfold Incomplete.extend
  dsimp only [Option.getD]
  by_cases hover : m.len > max ∨ tail.length > max - m.len
  · rw [if_pos hover]
    refine ⟨fun _ => rfl, ?_⟩
    intro m' h
    injection h with _ h
    exact nomatch h
  · rw [if_neg hover]
    have hfit : m.len + tail.length ≤ max := by omega
    refine ⟨fun h => by omega, ?_⟩
    intro m' h
    cases m with
    | binary v =>
      dsimp only at h
      injection h with h _
      subst h
      have : (Incomplete.binary (v ++ tail)).len = (Incomplete.binary v).len + tail.length := by
        show (v ++ tail).length = v.length + tail.length
        rw [List.length_append]
      rw [this]
      exact ⟨rfl, hfit⟩
    | text s =>
      dsimp only at h
      have h1 : Incomplete.text (s.extend tail).1 = m' := congrArg Prod.fst h
      have h2 : (s.extend tail).2 = .ok () := congrArg Prod.snd h
      subst h1
      have : (Incomplete.text (s.extend tail).1).len = (Incomplete.text s).len + tail.length :=
        collector_extend_len s tail h2
      rw [this]
      exact ⟨rfl, hfit⟩

/-- an unfragmented message above max_message_size is a capacity error -/
theorem C06_single_frame_limit (w : World) (frame : Frame) (max : Nat) (d : OpData)
    (hd : d = .text ∨ d = .binary) (hfin : frame.header.fin = true) (hinc : w.c.incomplete = none)
    (hmax : w.c.cfg.maxMsg = some max) (hbig : frame.payload.length > max) :
    w.onData frame d = (w, .err (.capacity frame.payload.length max)) := by
  have hchk : (!checkMaxSize frame.payload.length w.c.cfg.maxMsg) = true := by
    rw [hmax]
    unfold checkMaxSize
    simp only [Bool.not_not, decide_eq_true_eq]
    exact hbig
  unfold World.onData
  rcases hd with hd | hd <;> subst hd <;> dsimp only <;>
    rw [hinc, if_neg (by decide), if_pos hfin, if_pos hchk, hmax] <;> rfl

/-! ## the specification decoder -/

def MsgOk (max : Nat) (m : Message) : Prop :=
  (∀ b, m = .text b → b.length ≤ max) ∧ (∀ b, m = .binary b → b.length ≤ max)

def FragOk (max : Nat) (frag : Option Spec.Partial) : Prop :=
  ∀ f, frag = some f → f.acc.length ≤ max

def Good (max : Nat) : Spec.FrameOut → Prop
  | .deliver m frag' => MsgOk max m ∧ FragOk max frag'
  | .continue_ frag' => FragOk max frag'
  | .close m => MsgOk max m
  | .fail _ => True

theorem msgOk_ping (max : Nat) (p : Bytes) : MsgOk max (.ping p) := ⟨nofun, nofun⟩
theorem msgOk_pong (max : Nat) (p : Bytes) : MsgOk max (.pong p) := ⟨nofun, nofun⟩
theorem msgOk_close (max : Nat) (c : Option CloseFrame) : MsgOk max (.close c) := ⟨nofun, nofun⟩
theorem msgOk_text (max : Nat) (p : Bytes) (h : p.length ≤ max) : MsgOk max (.text p) :=
  ⟨fun b hb => by injection hb with hb; rw [← hb]; exact h, nofun⟩
theorem msgOk_binary (max : Nat) (p : Bytes) (h : p.length ≤ max) : MsgOk max (.binary p) :=
  ⟨nofun, fun b hb => by injection hb with hb; rw [← hb]; exact h⟩
theorem fragOk_none (max : Nat) : FragOk max none := nofun
theorem fragOk_some (max : Nat) (t : Bool) (acc : Bytes) (h : acc.length ≤ max) :
    FragOk max (some ⟨t, acc⟩) := by
  intro f hf; injection hf with hf; rw [← hf]; exact h

theorem good_closeMessage (max : Nat) (p : Bytes) : Good max (Spec.closeMessage p) := by
  unfold Spec.closeMessage
  cases p with
  | nil => exact msgOk_close _ _
  | cons a t =>
    cases t with
    | nil => exact trivial
    | cons b reason =>
      dsimp only
      apply ite_cases (P := Good max) <;> intro _
      · exact trivial
      · apply ite_cases (P := Good max) <;> intro _ <;> exact msgOk_close _ _

theorem not_overLimit {n max : Nat} (h : ¬ Spec.overLimit n (some max) = true) : n ≤ max := by
  unfold Spec.overLimit at h
  simp only [decide_eq_true_eq] at h
  omega

theorem good_frameMeaning (lim : Spec.Limits) (max : Nat) (hmax : lim.maxMsg = some max)
    (frag : Option Spec.Partial) (hf : FragOk max frag) (fin : Bool) (opcode : Nat) (p : Bytes) :
    Good max (Spec.frameMeaning lim frag fin opcode p) := by
  unfold Spec.frameMeaning
  rw [hmax]
  apply ite_cases (P := Good max) <;> intro _
  · apply ite_cases (P := Good max) <;> intro _
    · exact trivial
    · apply ite_cases (P := Good max) <;> intro _
      · exact trivial
      · apply ite_cases (P := Good max) <;> intro _
        · exact good_closeMessage max p
        · apply ite_cases (P := Good max) <;> intro _
          · exact ⟨msgOk_ping _ _, hf⟩
          · exact ⟨msgOk_pong _ _, hf⟩
  · apply ite_cases (P := Good max) <;> intro _
    · cases frag with
      | none => exact trivial
      | some f =>
        dsimp only
        apply ite_cases (P := Good max) <;> intro hov
        · exact trivial
        · have hle : (f.acc ++ p).length ≤ max := by
            rw [List.length_append]; exact not_overLimit hov
          apply ite_cases (P := Good max) <;> intro _
          · apply ite_cases (P := Good max) <;> intro _
            · apply ite_cases (P := Good max) <;> intro _
              · exact ⟨msgOk_text _ _ hle, fragOk_none _⟩
              · exact trivial
            · apply ite_cases (P := Good max) <;> intro _
              · exact fragOk_some _ _ _ hle
              · exact trivial
          · apply ite_cases (P := Good max) <;> intro _
            · exact ⟨msgOk_binary _ _ hle, fragOk_none _⟩
            · exact fragOk_some _ _ _ hle
    · cases frag with
      | some f => exact trivial
      | none =>
        dsimp only
        apply ite_cases (P := Good max) <;> intro hov
        · exact trivial
        · have hle : p.length ≤ max := not_overLimit hov
          apply ite_cases (P := Good max) <;> intro _
          · apply ite_cases (P := Good max) <;> intro _
            · apply ite_cases (P := Good max) <;> intro _
              · exact ⟨msgOk_text _ _ hle, fragOk_none _⟩
              · exact trivial
            · apply ite_cases (P := Good max) <;> intro _
              · exact fragOk_some _ _ _ hle
              · exact trivial
          · apply ite_cases (P := Good max) <;> intro _
            · exact ⟨msgOk_binary _ _ hle, fragOk_none _⟩
            · exact fragOk_some _ _ _ hle

theorem decodeFrom_bounded (role : Role) (au : Bool) (lim : Spec.Limits) (max : Nat)
    (hmax : lim.maxMsg = some max) :
    ∀ (fuel : Nat) (frag : Option Spec.Partial) (bs : Bytes), FragOk max frag →
      ∀ m ∈ (Spec.decodeFrom role au lim fuel frag bs).1, MsgOk max m := by
  intro fuel
  induction fuel with
  | zero => intro frag bs _ m hm; exact nomatch hm
  | succ fuel ih =>
    intro frag bs hf
    unfold Spec.decodeFrom
    cases hh : Spec.rawHeader bs with
    | none => intro m hm; exact nomatch hm
    | some h =>
      dsimp only
      apply ite_cases (P := fun x : List Message × Spec.End => ∀ m ∈ x.1, MsgOk max m) <;> intro _
      · intro m hm; exact nomatch hm
      apply ite_cases (P := fun x : List Message × Spec.End => ∀ m ∈ x.1, MsgOk max m) <;> intro _
      · intro m hm; exact nomatch hm
      apply ite_cases (P := fun x : List Message × Spec.End => ∀ m ∈ x.1, MsgOk max m) <;> intro _
      · intro m hm; exact nomatch hm
      apply ite_cases (P := fun x : List Message × Spec.End => ∀ m ∈ x.1, MsgOk max m) <;> intro _
      · intro m hm; exact nomatch hm
      apply ite_cases (P := fun x : List Message × Spec.End => ∀ m ∈ x.1, MsgOk max m) <;> intro _
      · intro m hm; exact nomatch hm
      apply ite_cases (P := fun x : List Message × Spec.End => ∀ m ∈ x.1, MsgOk max m) <;> intro _
      · intro m hm; exact nomatch hm
      have hg := good_frameMeaning lim max hmax frag hf h.fin h.opcode
        (if role = Role.server then Spec.unmaskPayload h.mask (List.take h.len (List.drop h.size bs))
          else List.take h.len (List.drop h.size bs))
      cases hfm : Spec.frameMeaning lim frag h.fin h.opcode
        (if role = Role.server then Spec.unmaskPayload h.mask (List.take h.len (List.drop h.size bs))
          else List.take h.len (List.drop h.size bs)) with
      | fail c => intro m hm; exact nomatch hm
      | close m0 =>
        rw [hfm] at hg
        intro m hm
        have : m = m0 := by
          rcases List.mem_cons.mp hm with h1 | h1
          · exact h1
          · exact nomatch h1
        rw [this]; exact hg
      | deliver m0 frag' =>
        rw [hfm] at hg
        intro m hm
        have hm' : m ∈ m0 :: (Spec.decodeFrom role au lim fuel frag'
            (List.drop h.len (List.drop h.size bs))).1 := hm
        rcases List.mem_cons.mp hm' with h1 | h1
        · rw [h1]; exact hg.1
        · exact ih frag' _ hg.2 m h1
      | continue_ frag' =>
        rw [hfm] at hg
        exact ih frag' _ hg

/-- the specification never delivers a message above max_message_size (with the refinement
theorem of C05 this bounds every message `read` returns) -/
theorem C06_spec_messages_bounded (role : Role) (au : Bool) (lim : Spec.Limits) (bs : Bytes)
    (max : Nat) (hmax : lim.maxMsg = some max) :
    ∀ m ∈ (Spec.decode role au lim bs).1,
      (∀ b, m = .text b → b.length ≤ max) ∧ (∀ b, m = .binary b → b.length ≤ max) :=
  decodeFrom_bounded role au lim max hmax (bs.length + 1) none bs (fragOk_none max)

/-! ## concrete instances (non-vacuity) -/

def exCodec : Codec := { inBuf := [0x82, 0x7e, 0x01, 0x00] }
def exT : Transport := { rd := [.data [1, 2, 3]], wr := [], fl := [] }

/-- a header announcing 256 bytes with a 255-byte limit: the hypotheses of `C06_early_reject` -/
example : exCodec.header = none ∧
    Header.parse exCodec.inBuf = .header { Header.default with opcode := .data .binary } 256 4 ∧
    256 > 255 := by decide
example : (exCodec.readFrame exT (some 255) false false).2.1.log = [] := by rfl

/-- a frame within the limit is returned: the hypothesis of `C06_frame_limit` -/
example : (({ inBuf := [0x82, 0x02, 7, 8] } : Codec).readFrame exT (some 2) false false).2.2 =
    .ok (some ⟨{ Header.default with opcode := .data .binary }, [7, 8]⟩) := by rfl

/-- the accumulator at and over the limit, binary and text (with a split code point) -/
example : ((Incomplete.binary [1, 2, 3]).extend [4, 5] (some 5)) = (.binary [1, 2, 3, 4, 5], .ok ()) := by rfl
example : ((Incomplete.binary [1, 2, 3]).extend [4, 5] (some 4)).2 = .err (.capacity 5 4) := by rfl
example : ((Incomplete.text ⟨[0x41], some [0xC3]⟩).extend [0xA9, 0x42] (some 4)) =
    (.text ⟨[0x41, 0xC3, 0xA9, 0x42], none⟩, .ok ()) := by rfl

/-- the specification delivers a 2-byte message under limit 2 and stops at the 3-byte one -/
example : Spec.decode .client false ⟨none, some 2⟩ [0x02, 0x01, 1, 0x80, 0x01, 2, 0x82, 0x03, 1, 2, 3] =
    ([.binary [1, 2]], .error .capacity) := by decide

end WsProofs.C06
