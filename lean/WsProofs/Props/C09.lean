import WsModel.Endpoint
import WsProofs.Lemmas.GlobalRead
import WsProofs.Props.C18

/-! C09 — every frame the library emits is well-formed for its role, against every history of user
calls (without raw `Message::Frame` writes), every peer and every transport behaviour. -/
namespace WsProofs.C09
open WsModel WsModel.Gen

/-- a frame built from a user message or an automatic reply -/
def WfFrame (role : Role) (f : Frame) : Prop :=
  f.header.fin = true ∧ f.header.rsv1 = false ∧ f.header.rsv2 = false ∧ f.header.rsv3 = false ∧
  (f.header.opcode = .data .text ∨ f.header.opcode = .data .binary ∨ f.header.opcode = .control .ping ∨
   f.header.opcode = .control .pong ∨ f.header.opcode = .control .close) ∧
  (role = .client ↔ f.header.mask.isSome = true)

/-! ### the invariant -/

/-- the role-independent part of `WfFrame` -/
def WfBase (f : Frame) : Prop :=
  f.header.fin = true ∧ f.header.rsv1 = false ∧ f.header.rsv2 = false ∧ f.header.rsv3 = false ∧
  (f.header.opcode = .data .text ∨ f.header.opcode = .data .binary ∨ f.header.opcode = .control .ping ∨
   f.header.opcode = .control .pong ∨ f.header.opcode = .control .close)

/-- a frame about to be handed to `buffer_frame`: well-formed, and unmasked on a server (a client's
put-back frame carries its old key, which `buffer_frame` replaces) -/
def WfSlot (role : Role) (f : Frame) : Prop :=
  WfBase f ∧ (role = .server → f.header.mask = none)

/-- all queued frames are well-formed for the role, the slot frame is ready to be queued -/
def WfInv (w : World) : Prop :=
  (∀ f ∈ w.queued, WfFrame w.c.role f) ∧ (∀ f, w.c.additional = some f → WfSlot w.c.role f)

theorem wfSlot_pong (role : Role) (d : Bytes) : WfSlot role (Frame.pong d) :=
  ⟨⟨rfl, rfl, rfl, rfl, Or.inr (Or.inr (Or.inr (Or.inl rfl)))⟩, fun _ => rfl⟩

theorem wfSlot_close (role : Role) (c : Option CloseFrame) : WfSlot role (Frame.close c) :=
  ⟨⟨rfl, rfl, rfl, rfl, Or.inr (Or.inr (Or.inr (Or.inr rfl)))⟩, fun _ => rfl⟩

theorem wfSlot_user (role : Role) {f : Frame} (h : UserFrame f) : WfSlot role f := by
  rcases h with ⟨d, rfl⟩ | ⟨d, rfl⟩ | ⟨d, rfl⟩
  · exact ⟨⟨rfl, rfl, rfl, rfl, Or.inl rfl⟩, fun _ => rfl⟩
  · exact ⟨⟨rfl, rfl, rfl, rfl, Or.inr (Or.inl rfl)⟩, fun _ => rfl⟩
  · exact ⟨⟨rfl, rfl, rfl, rfl, Or.inr (Or.inr (Or.inl rfl))⟩, fun _ => rfl⟩

theorem wfBase_withMask {f : Frame} (h : WfBase f) (m : Mask) : WfBase (withMask f m) := h

theorem WfSlot.remask {role : Role} {f f' : Frame} (h : WfSlot role f) (hr : Remask role f f') :
    WfSlot role f' := by
  rcases hr with rfl | ⟨hc, m, rfl⟩
  · exact h
  · exact ⟨wfBase_withMask h.1 m, fun hs => by rw [hc] at hs; cases hs⟩

theorem WfSlot.masked {role : Role} {f f' : Frame} (h : WfSlot role f) (hm : Masked role f f') :
    WfFrame role f' := by
  obtain ⟨⟨b1, b2, b3, b4, b5⟩, hmask⟩ := h
  rcases hm with ⟨hs, rfl⟩ | ⟨hc, m, rfl⟩
  · refine ⟨b1, b2, b3, b4, b5, ?_⟩
    rw [hmask hs, hs]
    simp
  · refine ⟨b1, b2, b3, b4, b5, ?_⟩
    rw [hc]
    simp [withMask]

theorem WfInv.of_same {w w' : World} (h : WfInv w) (hr : w'.c.role = w.c.role)
    (ha : w'.c.additional = w.c.additional) (hq : w'.queued = w.queued) : WfInv w' := by
  refine ⟨?_, ?_⟩
  · rw [hq, hr]; exact h.1
  · rw [ha, hr]; exact h.2

/-- replacing the slot by a frame that is ready to be queued -/
theorem WfInv.set_slot {w w' : World} (h : WfInv w) (hr : w'.c.role = w.c.role)
    (hq : w'.queued = w.queued) {g : Frame} (ha : w'.c.additional = some g) (hg : WfSlot w.c.role g) :
    WfInv w' := by
  refine ⟨?_, ?_⟩
  · rw [hq, hr]; exact h.1
  · intro f hf
    rw [ha] at hf
    cases hf
    rw [hr]; exact hg

theorem mem_snoc {q : List Frame} {f' g : Frame} (hg : g ∈ q ++ [f']) : g ∈ q ∨ g = f' := by
  rcases List.mem_append.mp hg with h | h
  · exact Or.inl h
  · exact Or.inr (List.mem_singleton.mp h)

theorem WfInv.sd {w w' : World} (h : WfInv w) (hd : SD w w') : WfInv w' := by
  cases ha : w.c.additional with
  | none =>
    obtain ⟨n, q⟩ := hd.empty ha
    exact h.of_same hd.role (n.trans ha.symm) q
  | some f =>
    have hf := h.2 f ha
    rcases hd.full f ha with ⟨f', r, s, q⟩ | ⟨f', m, s, q⟩
    · exact h.set_slot hd.role q s (hf.remask r)
    · refine ⟨?_, ?_⟩
      · rw [q, hd.role]
        intro g hg
        rcases mem_snoc hg with hg | rfl
        · exact h.1 g hg
        · exact hf.masked m
      · intro g hg
        rw [s] at hg; cases hg

theorem WfInv.ovw {w w' : World} (h : WfInv w) (ho : Ovw w w') : WfInv w' := by
  rcases ho.slot with ha | ⟨_, _, ⟨d, ha⟩ | ⟨c, ha⟩⟩
  · exact h.of_same ho.role ha ho.queued
  · exact h.set_slot ho.role ho.queued ha (wfSlot_pong _ d)
  · exact h.set_slot ho.role ho.queued ha (wfSlot_close _ c)

theorem WfInv.pre {w w0 : World} {op : Op} (h : WfInv w) (hr : w0.c.role = w.c.role)
    (hp : Pre w op w0) : WfInv w0 := by
  cases hp with
  | same ha hq => exact h.of_same hr ha hq
  | close c _ _ ha hq => exact h.set_slot hr hq ha (wfSlot_close _ c)
  | pong d _ _ _ ha hq => exact h.set_slot hr hq ha (wfSlot_pong _ d)
  | data f f' hu hm ha hq =>
    refine ⟨?_, ?_⟩
    · rw [hq, hr]
      intro g hg
      rcases mem_snoc hg with hg | rfl
      · exact h.1 g hg
      · exact (wfSlot_user _ hu).masked hm
    · rw [ha, hr]; exact h.2

theorem step_wf (w : World) (op : Op) (hI : Inv w) (hW : WfInv w) (hop : op.noRaw) :
    WfInv (w.step op).1 := by
  obtain ⟨w0, w1, hr, hp, hd, ho⟩ := step_decomp w op hI hop
  exact ((hW.pre hr hp).sd hd).ovw ho

theorem run_wf (ops : List Op) (w : World) (hI : Inv w) (hW : WfInv w)
    (hops : ∀ op ∈ ops, Op.noRaw op) : WfInv (w.run ops).1 := by
  induction ops generalizing w with
  | nil => exact hW
  | cons op ops ih =>
    simp only [World.run]
    have hop := hops op (by simp)
    exact ih (w.step op).1 (step_inv w op hI hop) (step_wf w op hI hW hop)
      (fun o ho => hops o (by simp [ho]))

theorem init_wf (w : World) (h : w.Init) : WfInv w := by
  obtain ⟨role, cfg, pre, c, hc, hwc, hq, _, _, _⟩ := h
  unfold Ctx.new at hc
  by_cases hv : configValid cfg.maxw cfg.wbuf = true
  · rw [if_pos hv] at hc
    have hc' := (Option.some.inj hc).symm
    rw [hc'] at hwc
    refine ⟨?_, ?_⟩
    · rw [hq]; intro f hf; cases hf
    · intro f hf; rw [hwc] at hf; cases hf
  · rw [if_neg hv] at hc; cases hc

theorem reachable_wf (w : World) (h : w.Reachable) : WfInv w := by
  obtain ⟨w0, ops, hinit, hops, rfl⟩ := h
  exact run_wf ops w0 (init_inv w0 hinit) (init_wf w0 hinit) hops

/-! ### the theorems -/

/-- every frame ever queued (hence every frame on the wire) is well-formed for the role:
FIN set, RSV clear, one of the five opcodes, masked iff client -/
theorem C09_queued_wellformed (w : World) (h : w.Reachable) : ∀ f ∈ w.queued, WfFrame w.c.role f :=
  (reachable_wf w h).1

/-- the role never changes -/
theorem C09_role_fixed (w : World) (op : Op) : (w.step op).1.c.role = w.c.role :=
  step_role w op

theorem wfFrame_not_reserved {role : Role} {f : Frame} (h : WfFrame role f) :
    isReservedOpcode f.header.opcode = false := by
  obtain ⟨_, _, _, _, ho, _⟩ := h
  rcases ho with ho | ho | ho | ho | ho <;> rw [ho] <;> rfl

/-- what the transport has accepted is a prefix of the concatenated encodings of those frames, and
each encoding decodes (by the header parser) to the frame's own header and payload length in the
shortest length form, followed by the payload XOR the key (client) or the payload itself (server) -/
theorem C09_wire_is_wellformed_frames (w : World) (h : w.Reachable) :
    (∃ rest, encodeAll w.queued = w.t.accepted ++ rest) ∧
    ∀ f ∈ w.queued, ∀ more, f.payload.length < 2 ^ 64 →
      Header.parse (f.format ++ more) = .header f.header f.payload.length (f.header.len f.payload.length) ∧
      f.format = f.header.format f.payload.length ++
        (match f.header.mask with | some m => applyMask m f.payload | none => f.payload) := by
  refine ⟨⟨w.c.codec.outBuf, (reachable_inv w h).fifo.symm⟩, ?_⟩
  intro f hf more hl
  refine ⟨?_, rfl⟩
  have hnr := wfFrame_not_reserved (C09_queued_wellformed w h f hf)
  unfold Frame.format
  rw [List.append_assoc]
  exact C18.C18_parse_format f.header f.payload.length _ hnr hl

/-- a client takes the key of every frame from the mask source, in order -/
theorem C09_client_mask_from_oracle (w : World) (f : Frame) (m : Mask) (rest : List Mask)
    (hc : w.c.role = .client) (hmu : w.mu = m :: rest)
    (hnf : ∀ g, (w.bufferFrame f).2 ≠ .err (.writeBufferFull g)) :
    (w.bufferFrame f).1.queued = w.queued ++ [{ f with header := { f.header with mask := some m } }] ∧
    (w.bufferFrame f).1.mu = rest := by
  have hms : maskStep w f =
      ({ w with mu := rest }, { f with header := { f.header with mask := some m } }) := by
    unfold maskStep World.nextMask
    rw [hc, hmu]
  rw [bufferFrame_eq] at hnf ⊢
  rw [hms] at hnf ⊢
  simp only [] at hnf ⊢
  have hncc := codec_bufferFrame_ne_cc ({ w with mu := rest } : World).c.codec
    ({ w with mu := rest } : World).t { f with header := { f.header with mask := some m } }
  generalize ({ w with mu := rest } : World).c.codec.bufferFrame ({ w with mu := rest } : World).t
    { f with header := { f.header with mask := some m } } = q at *
  obtain ⟨c1, t1, r⟩ := q
  simp only [] at hnf hncc ⊢
  have hnw : r.isWriteBufferFull = false := by
    cases r with
    | ok u => rfl
    | panic s => rfl
    | err e =>
      cases e with
      | writeBufferFull g =>
        exfalso
        simp only [Res.isWriteBufferFull, if_true] at hnf
        rcases checkConnectionReset_cases (({ w with mu := rest } : World).setCodec c1 t1)
          (.err (.writeBufferFull g) : Res Unit) (by intro h; cases h) with ⟨he, _⟩ | ⟨_, h, _⟩
        · rw [he] at hnf
          exact hnf g rfl
        · cases h
      | _ => rfl
  simp only [hnw, Bool.false_eq_true, if_false]
  rcases checkConnectionReset_cases
      ({ ({ w with mu := rest } : World).setCodec c1 t1 with
          queued := ({ w with mu := rest } : World).queued ++
            [{ f with header := { f.header with mask := some m } }] } : World) r hncc
    with ⟨he, _⟩ | ⟨he, _, _⟩
  · rw [he]; exact ⟨rfl, rfl⟩
  · rw [he]; exact ⟨rfl, rfl⟩

/-- automatic replies never exceed 125 payload bytes -/
theorem C09_auto_pong_small (w : World) (frame : Frame) (f : Frame)
    (h : (w.onControl frame .ping).1.c.additional = some f) (hnew : w.c.additional ≠ some f) :
    f.payload.length ≤ 125 := by
  unfold World.onControl at h
  by_cases h1 : (!frame.header.fin) = true
  · rw [if_pos h1] at h; exact absurd h hnew
  · rw [if_neg h1] at h
    by_cases h2 : frame.payload.length > 125
    · rw [if_pos h2] at h; exact absurd h hnew
    · rw [if_neg h2] at h
      simp only [] at h
      by_cases ha : w.c.state.isActive = true
      · simp only [ha, if_true] at h
        rcases setAdditional_slot w (Frame.pong frame.payload) with hs | ⟨_, hs⟩
        · rw [hs] at h; exact absurd h hnew
        · rw [hs] at h
          cases h
          show frame.payload.length ≤ 125
          omega
      · simp only [ha, if_false, Bool.false_eq_true] at h
        exact absurd h hnew

theorem close_payload_length (c : Option CloseFrame) :
    (Frame.close c).payload.length = match c with | some cf => 2 + cf.reason.length | none => 0 := by
  cases c with
  | none => rfl
  | some cf => simp [Frame.close, beBytes_length]

theorem C09_close_reply_small (w : World) (frame : Frame) (f : Frame) (hact : w.c.state = .active)
    (h : (w.onControl frame .close).1.c.additional = some f) (hnew : w.c.additional ≠ some f) :
    f.payload.length ≤ 125 := by
  unfold World.onControl at h
  by_cases h1 : (!frame.header.fin) = true
  · rw [if_pos h1] at h; exact absurd h hnew
  · rw [if_neg h1] at h
    by_cases h2 : frame.payload.length > 125
    · rw [if_pos h2] at h; exact absurd h hnew
    · rw [if_neg h2] at h
      simp only [] at h
      cases hic : frame.intoClose with
      | err e => rw [hic] at h; exact absurd h hnew
      | panic s => rw [hic] at h; exact absurd h hnew
      | ok c =>
        rw [hic] at h
        simp only [] at h
        have hdc : w.doClose c =
            ((w.setState .closedByPeer).setAdditional (Frame.close (c.map fun cf =>
              if (!closeCodeIsAllowed cf.code) = true then
                { code := .protocol, reason := protocolViolationReason } else cf)),
             .ok (some (c.map fun cf =>
              if (!closeCodeIsAllowed cf.code) = true then
                { code := .protocol, reason := protocolViolationReason } else cf))) := by
          unfold World.doClose
          rw [hact]
        rw [hdc] at h
        simp only [andThen] at h
        rcases setAdditional_slot (w.setState .closedByPeer) (Frame.close (c.map fun cf =>
              if (!closeCodeIsAllowed cf.code) = true then
                { code := .protocol, reason := protocolViolationReason } else cf)) with hs | ⟨_, hs⟩
        · rw [hs] at h; exact absurd h hnew
        · rw [hs] at h
          cases h
          rw [close_payload_length]
          -- the reason is the received one (payload minus the code) or "Protocol violation"
          unfold Frame.intoClose at hic
          match hp : frame.payload, hic with
          | [], hic =>
            injection hic with hic
            subst hic
            simp
          | a :: b :: reason, hic =>
            simp only [] at hic
            by_cases hu : isUtf8 reason = true
            · rw [if_pos hu] at hic
              injection hic with hic
              subst hic
              have hl : reason.length + 2 ≤ 125 := by
                have : frame.payload.length = reason.length + 2 := by rw [hp]; simp
                omega
              simp only [Option.map]
              by_cases hal : (!closeCodeIsAllowed (closeCodeOfU16 (beNat [a, b]))) = true
              · rw [if_pos hal]
                simp [protocolViolationReason]
              · rw [if_neg hal]
                simp only []
                omega
            · rw [if_neg hu] at hic; cases hic

/-! ### the hypotheses are satisfiable -/

/-- a client that reads a ping while the transport refuses writes, then sends a binary message -/
def exClient : World :=
  { c := { role := .client, cfg := {},
           codec := { inBuf := [], maxOut := ({} : Config).maxw, writeLen := ({} : Config).wbuf } }
    t := { rd := [.data [0x89, 0x01, 7]], wr := [], fl := [] }
    mu := [⟨1, 2, 3, 4⟩, ⟨5, 6, 7, 8⟩] }

theorem exClient_init : exClient.Init :=
  ⟨.client, {}, [], _, rfl, rfl, rfl, rfl, rfl, rfl⟩

theorem ex_reachable : (exClient.run [.read, .write (.binary [9])]).1.Reachable :=
  ⟨exClient, _, exClient_init, by simp [Op.noRaw], rfl⟩

/-- two frames were queued: the binary message, then the automatic pong, each with the next key -/
example : (exClient.run [.read, .write (.binary [9])]).1.queued.map (fun f => (f.header.opcode, f.header.mask)) =
    [(.data .binary, some ⟨1, 2, 3, 4⟩), (.control .pong, some ⟨5, 6, 7, 8⟩)] := by decide

example : ∀ f ∈ (exClient.run [.read, .write (.binary [9])]).1.queued, WfFrame .client f :=
  C09_queued_wellformed _ ex_reachable

/-- the hypotheses of `C09_client_mask_from_oracle` -/
example : exClient.c.role = .client ∧ exClient.mu = ⟨1, 2, 3, 4⟩ :: [⟨5, 6, 7, 8⟩] ∧
    (exClient.bufferFrame (Frame.ping [1])).2 = .ok () := ⟨rfl, rfl, rfl⟩

/-- the hypotheses of `C09_auto_pong_small` / `C09_close_reply_small` -/
example : (exClient.onControl ⟨{ Header.default with opcode := .control .ping }, [7]⟩ .ping).1.c.additional =
    some (Frame.pong [7]) ∧ exClient.c.additional ≠ some (Frame.pong [7]) := ⟨rfl, by decide⟩

example : (exClient.onControl ⟨Header.default, [3, 232]⟩ .close).1.c.additional =
    some (Frame.close (some ⟨.normal, []⟩)) ∧ exClient.c.state = .active := ⟨by decide, rfl⟩

end WsProofs.C09
