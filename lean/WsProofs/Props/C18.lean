import WsModel.Frame
namespace WsProofs.C18
open WsModel WsModel.Gen

/-! # C18 — frame headers encode and decode without loss

All statements are about `WsModel.Header.format` / `Header.parse` / `Header.len` and the two frame
encoders, which are built from the generated `WsModel.Gen` definitions (`opCodeToU8`,
`opCodeOfU8`, `lfForLength`, `lfForByte`, `lfExtraBytes`, `lfLengthByte`, `headerLen` and the bit
constants).  Every byte-level fact below is established by evaluating those generated
definitions (`decide`) or by unfolding them, so the proofs are re-checked against the generated
text on every run. -/

/-- an opcode the decoder can return: one of the six defined ones -/
def validOpcode (o : OpCode) : Prop := isReservedOpcode o = false ∧ opCodeToU8 o < 16

/-! ## big-endian helpers -/

theorem beBytes_length (k n : Nat) : (beBytes k n).length = k := by
  induction k generalizing n with
  | zero => rfl
  | succ k ih => simp only [beBytes, List.length_append, ih, List.length_singleton]

theorem beNat_snoc (xs : Bytes) (b : UInt8) : beNat (xs ++ [b]) = beNat xs * 256 + b.toNat := by
  simp only [beNat, List.foldl_append, List.foldl_cons, List.foldl_nil]

theorem beNat_beBytes (k n : Nat) : beNat (beBytes k n) = n % 256 ^ k := by
  induction k generalizing n with
  | zero => simp only [beBytes, beNat, List.foldl_nil, Nat.pow_zero, Nat.mod_one]
  | succ k ih =>
    have e : (UInt8.ofNat (n % 256)).toNat = n % 256 := by rw [UInt8.toNat_ofNat']; omega
    rw [beBytes, beNat_snoc, ih, e, Nat.pow_succ 256 k, Nat.mul_comm (256 ^ k) 256, Nat.mod_mul]
    omega

/-- a list of length `k + 1` is a shorter list plus a last element -/
theorem snoc_of_length {α : Type} (bs : List α) (k : Nat) (h : bs.length = k + 1) :
    ∃ xs b, bs = xs ++ [b] ∧ xs.length = k := by
  have hne : bs ≠ [] := by intro h0; rw [h0] at h; cases h
  refine ⟨bs.dropLast, bs.getLast hne, (List.dropLast_concat_getLast hne).symm, ?_⟩
  rw [List.length_dropLast, h]; rfl

theorem beNat_lt (k : Nat) (bs : Bytes) (h : bs.length = k) : beNat bs < 256 ^ k := by
  induction k generalizing bs with
  | zero =>
    cases bs with
    | nil => decide
    | cons a t => cases h
  | succ k ih =>
    obtain ⟨xs, b, rfl, hx⟩ := snoc_of_length bs k h
    have h1 := ih xs hx
    have h2 := UInt8.toNat_lt b
    rw [beNat_snoc, Nat.pow_succ]
    omega

theorem beBytes_beNat (k : Nat) (bs : Bytes) (h : bs.length = k) : beBytes k (beNat bs) = bs := by
  induction k generalizing bs with
  | zero =>
    cases bs with
    | nil => rfl
    | cons a t => cases h
  | succ k ih =>
    obtain ⟨xs, b, rfl, hx⟩ := snoc_of_length bs k h
    have h2 := UInt8.toNat_lt b
    have e1 : (beNat xs * 256 + b.toNat) / 256 = beNat xs := by omega
    have e2 : (beNat xs * 256 + b.toNat) % 256 = b.toNat := by omega
    rw [beNat_snoc, beBytes, e1, e2, ih xs hx, UInt8.ofNat_toNat]

/-! ## byte-level facts, by evaluation of the generated constants -/

/-- the six opcodes that are not reserved -/
def validOps : List OpCode :=
  [.data .continue, .data .text, .data .binary, .control .close, .control .ping, .control .pong]

theorem mem_validOps (o : OpCode) (hv : isReservedOpcode o = false) : o ∈ validOps := by
  cases o with
  | data d => cases d <;> first | decide | cases hv
  | control c => cases c <;> first | decide | cases hv

theorem validOpcode_iff (o : OpCode) : validOpcode o ↔ o ∈ validOps := by
  constructor
  · intro h; exact mem_validOps o h.1
  · have h : ∀ o ∈ validOps, isReservedOpcode o = false ∧ opCodeToU8 o < 16 := by decide
    exact h o

/-- the header a first byte, an opcode and a mask key decode to -/
def hdrOf (first : UInt8) (o : OpCode) (m : Option Mask) : Header :=
  { fin := (first &&& UInt8.ofNat parseBitFin) != 0
    rsv1 := (first &&& UInt8.ofNat parseBitRsv1) != 0
    rsv2 := (first &&& UInt8.ofNat parseBitRsv2) != 0
    rsv3 := (first &&& UInt8.ofNat parseBitRsv3) != 0
    opcode := o
    mask := m }

/-- encode-then-decode on the first byte: all 16 flag combinations × 6 opcodes -/
theorem fb_fwd : ∀ fin r1 r2 r3 : Bool, ∀ o ∈ validOps,
    let f := UInt8.ofNat (opCodeToU8 o)
      ||| (if fin then UInt8.ofNat bitFin else 0)
      ||| (if r1 then UInt8.ofNat bitRsv1 else 0)
      ||| (if r2 then UInt8.ofNat bitRsv2 else 0)
      ||| (if r3 then UInt8.ofNat bitRsv3 else 0)
    opCodeOfU8 (f &&& UInt8.ofNat opcodeMask).toNat = some o ∧
    ((f &&& UInt8.ofNat parseBitFin) != 0) = fin ∧
    ((f &&& UInt8.ofNat parseBitRsv1) != 0) = r1 ∧
    ((f &&& UInt8.ofNat parseBitRsv2) != 0) = r2 ∧
    ((f &&& UInt8.ofNat parseBitRsv3) != 0) = r3 := by
  decide +kernel

/-- decode-then-encode on the first byte: all 256 byte values -/
theorem fb_bwd : ∀ b, b < 256 →
    ∀ o ∈ (opCodeOfU8 (UInt8.ofNat b &&& UInt8.ofNat opcodeMask).toNat).toList,
      isReservedOpcode o = false →
      (UInt8.ofNat (opCodeToU8 o)
        ||| (if (UInt8.ofNat b &&& UInt8.ofNat parseBitFin) != 0 then UInt8.ofNat bitFin else 0)
        ||| (if (UInt8.ofNat b &&& UInt8.ofNat parseBitRsv1) != 0 then UInt8.ofNat bitRsv1 else 0)
        ||| (if (UInt8.ofNat b &&& UInt8.ofNat parseBitRsv2) != 0 then UInt8.ofNat bitRsv2 else 0)
        ||| (if (UInt8.ofNat b &&& UInt8.ofNat parseBitRsv3) != 0 then UInt8.ofNat bitRsv3 else 0))
        = UInt8.ofNat b := by
  decide +kernel

/-- the opcode nibble always decodes -/
theorem op_total : ∀ b, b < 256 →
    (opCodeOfU8 (UInt8.ofNat b &&& UInt8.ofNat opcodeMask).toNat).isSome = true := by
  decide +kernel

/-- encode-then-decode on the second byte -/
theorem sb_fwd : ∀ b, b < 128 → ∀ masked : Bool,
    ((UInt8.ofNat b ||| (if masked then UInt8.ofNat bitMasked else 0))
        &&& UInt8.ofNat lenMask).toNat = b ∧
    (((UInt8.ofNat b ||| (if masked then UInt8.ofNat bitMasked else 0))
        &&& UInt8.ofNat parseBitMasked) != 0) = masked := by
  decide +kernel

/-- decode-then-encode on the second byte -/
theorem sb_bwd : ∀ b, b < 256 →
    (UInt8.ofNat b &&& UInt8.ofNat lenMask).toNat < 128 ∧
    (UInt8.ofNat ((UInt8.ofNat b &&& UInt8.ofNat lenMask).toNat) |||
      (if ((UInt8.ofNat b &&& UInt8.ofNat parseBitMasked) != 0) then UInt8.ofNat bitMasked else 0))
      = UInt8.ofNat b := by
  decide +kernel

theorem firstByte_spec (h : Header) (hv : isReservedOpcode h.opcode = false) :
    opCodeOfU8 (h.firstByte &&& UInt8.ofNat opcodeMask).toNat = some h.opcode ∧
    hdrOf h.firstByte h.opcode h.mask = h := by
  obtain ⟨h1, h2, h3, h4, h5⟩ :=
    fb_fwd h.fin h.rsv1 h.rsv2 h.rsv3 h.opcode (mem_validOps _ hv)
  refine ⟨h1, ?_⟩
  unfold hdrOf
  rw [show (h.firstByte &&& UInt8.ofNat parseBitFin != 0) = h.fin from h2,
    show (h.firstByte &&& UInt8.ofNat parseBitRsv1 != 0) = h.rsv1 from h3,
    show (h.firstByte &&& UInt8.ofNat parseBitRsv2 != 0) = h.rsv2 from h4,
    show (h.firstByte &&& UInt8.ofNat parseBitRsv3 != 0) = h.rsv3 from h5]

theorem firstByte_hdrOf (f : UInt8) (o : OpCode) (m : Option Mask)
    (hop : opCodeOfU8 (f &&& UInt8.ofNat opcodeMask).toNat = some o)
    (hv : isReservedOpcode o = false) : (hdrOf f o m).firstByte = f := by
  have h := fb_bwd f.toNat (UInt8.toNat_lt f)
  rw [UInt8.ofNat_toNat (x := f)] at h
  exact h o (by rw [hop]; exact List.mem_singleton.mpr rfl) hv

theorem lenByte_lt (s : UInt8) : (s &&& UInt8.ofNat lenMask).toNat < 128 := by
  have h := (sb_bwd s.toNat (UInt8.toNat_lt s)).1
  rw [UInt8.ofNat_toNat (x := s)] at h
  exact h

theorem secondByte_rebuild (s : UInt8) :
    (UInt8.ofNat ((s &&& UInt8.ofNat lenMask).toNat) |||
      (if ((s &&& UInt8.ofNat parseBitMasked) != 0) then UInt8.ofNat bitMasked else 0)) = s := by
  have h := (sb_bwd s.toNat (UInt8.toNat_lt s)).2
  rw [UInt8.ofNat_toNat (x := s)] at h
  exact h

/-! ## the generated length-format functions -/

theorem lfForLength_small {len : Nat} (h : len < 126) : lfForLength len = .u8 len := by
  unfold lfForLength; rw [if_pos h]

theorem lfForLength_mid {len : Nat} (h1 : 126 ≤ len) (h2 : len < 65536) :
    lfForLength len = .u16 := by
  unfold lfForLength; rw [if_neg (by omega), if_pos h2]

theorem lfForLength_big {len : Nat} (h : 65536 ≤ len) : lfForLength len = .u64 := by
  unfold lfForLength; rw [if_neg (by omega), if_neg (by omega)]

theorem lfForByte_small {b : Nat} (h : b < 126) : lfForByte b = .u8 b := by
  unfold lfForByte
  rw [if_neg (by omega), if_neg (by omega), Nat.mod_eq_of_lt (by omega)]

theorem lfForByte_126 : lfForByte 126 = .u16 := by decide
theorem lfForByte_127 : lfForByte 127 = .u64 := by decide

theorem lfLengthByte_lt (len : Nat) : lfLengthByte (lfForLength len) < 128 := by
  by_cases h1 : len < 126
  · rw [lfForLength_small h1]; simp only [lfLengthByte]; omega
  · by_cases h2 : len < 65536
    · rw [lfForLength_mid (by omega) h2]; decide
    · rw [lfForLength_big (by omega)]; decide

theorem secondByte_spec (h : Header) (len : Nat) :
    (h.secondByte len &&& UInt8.ofNat lenMask).toNat = lfLengthByte (lfForLength len) ∧
    ((h.secondByte len &&& UInt8.ofNat parseBitMasked) != 0) = h.mask.isSome :=
  sb_fwd _ (lfLengthByte_lt len) h.mask.isSome

theorem extLen_length (len : Nat) :
    (Header.extLen len).length = lfExtraBytes (lfForLength len) := by
  unfold Header.extLen
  cases lfForLength len with
  | u8 b => rfl
  | u16 => exact beBytes_length 2 len
  | u64 => exact beBytes_length 8 len

theorem maskBytes_length (h : Header) : h.maskBytes.length = if h.mask.isSome then 4 else 0 := by
  unfold Header.maskBytes
  cases h.mask with
  | none => rfl
  | some m => rfl

/-! ## the decoder, level by level -/

/-- closes `[a, b, c].length < 4`-style goals -/
local macro "short_len" : tactic =>
  `(tactic| (simp only [List.length_cons, List.length_nil] <;> omega))

theorem parseFinish_ok {f : UInt8} {o : OpCode} {l : Nat} {m : Option Mask} {u : Nat}
    (hr : isReservedOpcode o = false) :
    Header.parseFinish f o l m u = .header (hdrOf f o m) l u := by
  unfold Header.parseFinish; rw [hr]; rfl

theorem parseFinish_bad {f : UInt8} {o : OpCode} {l : Nat} {m : Option Mask} {u : Nat}
    (hr : isReservedOpcode o = true) :
    Header.parseFinish f o l m u =
      .error (.protocol (.invalidOpcode (f &&& UInt8.ofNat opcodeMask).toNat)) := by
  unfold Header.parseFinish; rw [hr]; rfl

theorem parseMask_unmasked {f s : UInt8} {o : OpCode} {l : Nat} {rest : Bytes} {u : Nat}
    (hm : ((s &&& UInt8.ofNat parseBitMasked) != 0) = false) :
    Header.parseMask f s o l rest u = Header.parseFinish f o l none u := by
  unfold Header.parseMask; rw [hm]; rfl

theorem parseMask_masked {f s : UInt8} {o : OpCode} {l : Nat} {a b c d : UInt8} {t : Bytes}
    {u : Nat} (hm : ((s &&& UInt8.ofNat parseBitMasked) != 0) = true) :
    Header.parseMask f s o l (a :: b :: c :: d :: t) u =
      Header.parseFinish f o l (some ⟨a, b, c, d⟩) (u + 4) := by
  unfold Header.parseMask; rw [hm]; rfl

theorem parseMask_short {f s : UInt8} {o : OpCode} {l : Nat} {rest : Bytes} {u : Nat}
    (hm : ((s &&& UInt8.ofNat parseBitMasked) != 0) = true) (hl : rest.length < 4) :
    Header.parseMask f s o l rest u = .incomplete := by
  unfold Header.parseMask; rw [hm]
  rcases rest with _ | ⟨a, _ | ⟨b, _ | ⟨c, _ | ⟨d, t⟩⟩⟩⟩
  · rfl
  · rfl
  · rfl
  · rfl
  · simp only [List.length_cons] at hl; omega

/-- the three possible values of the 7-bit length field -/
theorem lenByte_cases (s : UInt8) :
    ((s &&& UInt8.ofNat lenMask).toNat < 126 ∧
        lfExtraBytes (lfForByte (s &&& UInt8.ofNat lenMask).toNat) = 0) ∨
    ((s &&& UInt8.ofNat lenMask).toNat = 126 ∧
        lfExtraBytes (lfForByte (s &&& UInt8.ofNat lenMask).toNat) = 2) ∨
    ((s &&& UInt8.ofNat lenMask).toNat = 127 ∧
        lfExtraBytes (lfForByte (s &&& UInt8.ofNat lenMask).toNat) = 8) := by
  have h := lenByte_lt s
  by_cases h1 : (s &&& UInt8.ofNat lenMask).toNat < 126
  · left; rw [lfForByte_small h1]; exact ⟨h1, rfl⟩
  · by_cases h2 : (s &&& UInt8.ofNat lenMask).toNat = 126
    · right; left; rw [h2, lfForByte_126]; exact ⟨rfl, rfl⟩
    · have h3 : (s &&& UInt8.ofNat lenMask).toNat = 127 := by omega
      right; right; rw [h3, lfForByte_127]; exact ⟨rfl, rfl⟩

theorem parseLen_zero {f s : UInt8} {o : OpCode} {rest : Bytes}
    (hk : lfExtraBytes (lfForByte (s &&& UInt8.ofNat lenMask).toNat) = 0) :
    Header.parseLen f s o rest =
      Header.parseMask f s o (s &&& UInt8.ofNat lenMask).toNat rest 2 := by
  unfold Header.parseLen
  simp only [hk]
  rw [if_neg (by omega)]

theorem parseLen_ext {f s : UInt8} {o : OpCode} {rest : Bytes} {k : Nat}
    (hk : lfExtraBytes (lfForByte (s &&& UInt8.ofNat lenMask).toNat) = k)
    (h0 : 0 < k) (h8 : k ≤ 8) :
    Header.parseLen f s o rest =
      if rest.length < k then .incomplete
      else Header.parseMask f s o (beNat (rest.take k)) (rest.drop k) (2 + k) := by
  unfold Header.parseLen
  simp only [hk]
  rw [if_pos (by omega), if_neg (by omega)]

theorem parse_nil : Header.parse [] = .incomplete := rfl
theorem parse_single (a : UInt8) : Header.parse [a] = .incomplete := rfl

theorem parse_cons_none {f s : UInt8} {rest : Bytes}
    (hop : opCodeOfU8 (f &&& UInt8.ofNat opcodeMask).toNat = none) :
    Header.parse (f :: s :: rest) = .panic .opcodeOutOfRange := by
  simp only [Header.parse, hop]

theorem parse_cons_some {f s : UInt8} {rest : Bytes} {o : OpCode}
    (hop : opCodeOfU8 (f &&& UInt8.ofNat opcodeMask).toNat = some o) :
    Header.parse (f :: s :: rest) = Header.parseLen f s o rest := by
  simp only [Header.parse, hop]

/-! ## the wire shape of a decodable header -/

/-- relation between the 7-bit length field, the extended-length bytes and the decoded length -/
def LenShape (b : Nat) (ext : Bytes) (len : Nat) : Prop :=
  (b < 126 ∧ ext = [] ∧ len = b) ∨
  (b = 126 ∧ ext.length = 2 ∧ len = beNat ext) ∨
  (b = 127 ∧ ext.length = 8 ∧ len = beNat ext)

theorem parseMask_of {f s : UInt8} {o : OpCode} {m : Option Mask} (l : Nat) (tail : Bytes)
    (u : Nat) (hr : isReservedOpcode o = false)
    (hm : ((s &&& UInt8.ofNat parseBitMasked) != 0) = m.isSome) :
    Header.parseMask f s o l ((hdrOf f o m).maskBytes ++ tail) u =
      .header (hdrOf f o m) l (u + (hdrOf f o m).maskBytes.length) := by
  cases m with
  | none =>
    have hm' : ((s &&& UInt8.ofNat parseBitMasked) != 0) = false := hm
    rw [parseMask_unmasked hm', parseFinish_ok hr]; rfl
  | some m =>
    have hm' : ((s &&& UInt8.ofNat parseBitMasked) != 0) = true := hm
    show Header.parseMask f s o l (m.b0 :: m.b1 :: m.b2 :: m.b3 :: tail) u = _
    rw [parseMask_masked hm', parseFinish_ok hr]; rfl

theorem parseLen_ext_of {f s : UInt8} {o : OpCode} {m : Option Mask} {k : Nat} (ext tail : Bytes)
    (hk : lfExtraBytes (lfForByte (s &&& UInt8.ofNat lenMask).toNat) = k)
    (h0 : 0 < k) (h8 : k ≤ 8) (hl : ext.length = k)
    (hr : isReservedOpcode o = false)
    (hm : ((s &&& UInt8.ofNat parseBitMasked) != 0) = m.isSome) :
    Header.parseLen f s o (ext ++ ((hdrOf f o m).maskBytes ++ tail)) =
      .header (hdrOf f o m) (beNat ext) (2 + ext.length + (hdrOf f o m).maskBytes.length) := by
  rw [parseLen_ext hk h0 h8, if_neg (by rw [List.length_append]; omega), List.take_left' hl,
    List.drop_left' hl, hl]
  exact parseMask_of _ _ _ hr hm

/-- every byte string of the right shape decodes, whatever follows it -/
theorem parse_of_shape (f s : UInt8) (o : OpCode) (m : Option Mask) (ext tail : Bytes) (len : Nat)
    (hop : opCodeOfU8 (f &&& UInt8.ofNat opcodeMask).toNat = some o)
    (hr : isReservedOpcode o = false)
    (hm : ((s &&& UInt8.ofNat parseBitMasked) != 0) = m.isSome)
    (hs : LenShape (s &&& UInt8.ofNat lenMask).toNat ext len) :
    Header.parse (f :: s :: (ext ++ ((hdrOf f o m).maskBytes ++ tail))) =
      .header (hdrOf f o m) len (2 + ext.length + (hdrOf f o m).maskBytes.length) := by
  rw [parse_cons_some hop]
  rcases lenByte_cases s with ⟨hb, hk⟩ | ⟨hb, hk⟩ | ⟨hb, hk⟩
  · rcases hs with ⟨_, rfl, rfl⟩ | ⟨hb', _, _⟩ | ⟨hb', _, _⟩
    · rw [parseLen_zero hk, List.nil_append, List.length_nil, Nat.add_zero]
      exact parseMask_of _ _ _ hr hm
    · omega
    · omega
  · rcases hs with ⟨hb', _, _⟩ | ⟨_, hl, rfl⟩ | ⟨hb', _, _⟩
    · omega
    · exact parseLen_ext_of ext tail hk (by omega) (by omega) hl hr hm
    · omega
  · rcases hs with ⟨hb', _, _⟩ | ⟨hb', _, _⟩ | ⟨_, hl, rfl⟩
    · omega
    · omega
    · exact parseLen_ext_of ext tail hk (by omega) (by omega) hl hr hm

theorem parseFinish_inv {f : UInt8} {o : OpCode} {l : Nat} {m : Option Mask} {u : Nat}
    {h : Header} {len n : Nat} (hp : Header.parseFinish f o l m u = .header h len n) :
    isReservedOpcode o = false ∧ h = hdrOf f o m ∧ len = l ∧ n = u := by
  cases hr : isReservedOpcode o with
  | true => rw [parseFinish_bad hr] at hp; cases hp
  | false => rw [parseFinish_ok hr] at hp; cases hp; exact ⟨rfl, rfl, rfl, rfl⟩

theorem parseMask_inv {f s : UInt8} {o : OpCode} {l : Nat} {rest : Bytes} {u : Nat}
    {h : Header} {len n : Nat} (hp : Header.parseMask f s o l rest u = .header h len n) :
    ∃ m tail, h = hdrOf f o m ∧ rest = (hdrOf f o m).maskBytes ++ tail ∧
      n = u + (hdrOf f o m).maskBytes.length ∧ len = l ∧ isReservedOpcode o = false ∧
      ((s &&& UInt8.ofNat parseBitMasked) != 0) = m.isSome := by
  cases hmb : ((s &&& UInt8.ofNat parseBitMasked) != 0) with
  | false =>
    rw [parseMask_unmasked hmb] at hp
    obtain ⟨hr, rfl, rfl, rfl⟩ := parseFinish_inv hp
    exact ⟨none, rest, rfl, rfl, rfl, rfl, hr, rfl⟩
  | true =>
    rcases rest with _ | ⟨a, _ | ⟨b, _ | ⟨c, _ | ⟨d, t⟩⟩⟩⟩
    · rw [parseMask_short hmb (by short_len)] at hp; cases hp
    · rw [parseMask_short hmb (by short_len)] at hp; cases hp
    · rw [parseMask_short hmb (by short_len)] at hp; cases hp
    · rw [parseMask_short hmb (by short_len)] at hp; cases hp
    · rw [parseMask_masked hmb] at hp
      obtain ⟨hr, rfl, rfl, rfl⟩ := parseFinish_inv hp
      exact ⟨some ⟨a, b, c, d⟩, t, rfl, rfl, rfl, rfl, hr, rfl⟩

/-- the wire shape of anything that decodes to a header -/
theorem parse_inv {bs : Bytes} {h : Header} {len n : Nat}
    (hp : Header.parse bs = .header h len n) :
    ∃ f s o m ext tail, h = hdrOf f o m ∧
      bs = f :: s :: (ext ++ ((hdrOf f o m).maskBytes ++ tail)) ∧
      n = 2 + ext.length + (hdrOf f o m).maskBytes.length ∧
      opCodeOfU8 (f &&& UInt8.ofNat opcodeMask).toNat = some o ∧
      isReservedOpcode o = false ∧
      ((s &&& UInt8.ofNat parseBitMasked) != 0) = m.isSome ∧
      LenShape (s &&& UInt8.ofNat lenMask).toNat ext len := by
  rcases bs with _ | ⟨f, _ | ⟨s, rest⟩⟩
  · rw [parse_nil] at hp; cases hp
  · rw [parse_single] at hp; cases hp
  · cases hop : opCodeOfU8 (f &&& UInt8.ofNat opcodeMask).toNat with
    | none => rw [parse_cons_none hop] at hp; cases hp
    | some o =>
      rw [parse_cons_some hop] at hp
      rcases lenByte_cases s with ⟨hb, hk⟩ | ⟨hb, hk⟩ | ⟨hb, hk⟩
      · rw [parseLen_zero hk] at hp
        obtain ⟨m, tail, rfl, rfl, rfl, rfl, hr, hm⟩ := parseMask_inv hp
        exact ⟨f, s, o, m, [], tail, rfl, rfl, rfl, hop, hr, hm, Or.inl ⟨hb, rfl, rfl⟩⟩
      · rw [parseLen_ext hk (by omega) (by omega)] at hp
        by_cases hl : rest.length < 2
        · rw [if_pos hl] at hp; cases hp
        · rw [if_neg hl] at hp
          obtain ⟨m, tail, rfl, hrest, rfl, rfl, hr, hm⟩ := parseMask_inv hp
          have hlen : (rest.take 2).length = 2 := by rw [List.length_take]; omega
          refine ⟨f, s, o, m, rest.take 2, tail, rfl, ?_, ?_, hop, hr, hm,
            Or.inr (Or.inl ⟨hb, hlen, rfl⟩)⟩
          · rw [← hrest, List.take_append_drop]
          · rw [hlen]
      · rw [parseLen_ext hk (by omega) (by omega)] at hp
        by_cases hl : rest.length < 8
        · rw [if_pos hl] at hp; cases hp
        · rw [if_neg hl] at hp
          obtain ⟨m, tail, rfl, hrest, rfl, rfl, hr, hm⟩ := parseMask_inv hp
          have hlen : (rest.take 8).length = 8 := by rw [List.length_take]; omega
          refine ⟨f, s, o, m, rest.take 8, tail, rfl, ?_, ?_, hop, hr, hm,
            Or.inr (Or.inr ⟨hb, hlen, rfl⟩)⟩
          · rw [← hrest, List.take_append_drop]
          · rw [hlen]

/-! ## a complete result is stable under more input -/

theorem parseMask_stable {f s : UInt8} {o : OpCode} {l : Nat} {rest : Bytes} {u : Nat}
    (more : Bytes) (hne : Header.parseMask f s o l rest u ≠ .incomplete) :
    Header.parseMask f s o l (rest ++ more) u = Header.parseMask f s o l rest u := by
  cases hmb : ((s &&& UInt8.ofNat parseBitMasked) != 0) with
  | false => rw [parseMask_unmasked hmb, parseMask_unmasked hmb]
  | true =>
    rcases rest with _ | ⟨a, _ | ⟨b, _ | ⟨c, _ | ⟨d, t⟩⟩⟩⟩
    · exact absurd (parseMask_short hmb (by short_len)) hne
    · exact absurd (parseMask_short hmb (by short_len)) hne
    · exact absurd (parseMask_short hmb (by short_len)) hne
    · exact absurd (parseMask_short hmb (by short_len)) hne
    · simp only [List.cons_append]
      rw [parseMask_masked hmb, parseMask_masked hmb]

theorem parseLen_stable {f s : UInt8} {o : OpCode} {rest : Bytes}
    (more : Bytes) (hne : Header.parseLen f s o rest ≠ .incomplete) :
    Header.parseLen f s o (rest ++ more) = Header.parseLen f s o rest := by
  have ext : ∀ k, lfExtraBytes (lfForByte (s &&& UInt8.ofNat lenMask).toNat) = k → 0 < k →
      k ≤ 8 → Header.parseLen f s o (rest ++ more) = Header.parseLen f s o rest := by
    intro k hk h0 h8
    rw [parseLen_ext (rest := rest) hk h0 h8] at hne ⊢
    rw [parseLen_ext (rest := rest ++ more) hk h0 h8]
    by_cases hl : rest.length < k
    · rw [if_pos hl] at hne; exact absurd rfl hne
    · rw [if_neg hl] at hne ⊢
      rw [if_neg (by rw [List.length_append]; omega),
        List.take_append_of_le_length (by omega), List.drop_append_of_le_length (by omega)]
      exact parseMask_stable more hne
  rcases lenByte_cases s with ⟨_, hk⟩ | ⟨_, hk⟩ | ⟨_, hk⟩
  · rw [parseLen_zero (rest := rest) hk] at hne ⊢
    rw [parseLen_zero (rest := rest ++ more) hk]
    exact parseMask_stable more hne
  · exact ext 2 hk (by omega) (by omega)
  · exact ext 8 hk (by omega) (by omega)

theorem parse_stable (bs more : Bytes) (hne : Header.parse bs ≠ .incomplete) :
    Header.parse (bs ++ more) = Header.parse bs := by
  rcases bs with _ | ⟨f, _ | ⟨s, rest⟩⟩
  · exact absurd parse_nil hne
  · exact absurd (parse_single f) hne
  · simp only [List.cons_append]
    cases hop : opCodeOfU8 (f &&& UInt8.ofNat opcodeMask).toNat with
    | none => rw [parse_cons_none hop, parse_cons_none hop]
    | some o =>
      rw [parse_cons_some (rest := rest) hop] at hne ⊢
      rw [parse_cons_some (rest := rest ++ more) hop]
      exact parseLen_stable more hne

/-! ## no panic -/

theorem parseFinish_ne_panic (f : UInt8) (o : OpCode) (l : Nat) (m : Option Mask) (u : Nat)
    (p : PanicSite) : Header.parseFinish f o l m u ≠ .panic p := by
  cases hr : isReservedOpcode o with
  | true => rw [parseFinish_bad hr]; intro h; cases h
  | false => rw [parseFinish_ok hr]; intro h; cases h

theorem parseMask_ne_panic (f s : UInt8) (o : OpCode) (l : Nat) (rest : Bytes) (u : Nat)
    (p : PanicSite) : Header.parseMask f s o l rest u ≠ .panic p := by
  cases hmb : ((s &&& UInt8.ofNat parseBitMasked) != 0) with
  | false => rw [parseMask_unmasked hmb]; exact parseFinish_ne_panic _ _ _ _ _ _
  | true =>
    by_cases hl : rest.length < 4
    · rw [parseMask_short hmb hl]; intro h; cases h
    · rcases rest with _ | ⟨a, _ | ⟨b, _ | ⟨c, _ | ⟨d, t⟩⟩⟩⟩
      · exact absurd (by short_len) hl
      · exact absurd (by short_len) hl
      · exact absurd (by short_len) hl
      · exact absurd (by short_len) hl
      · rw [parseMask_masked hmb]; exact parseFinish_ne_panic _ _ _ _ _ _

theorem parseLen_ne_panic (f s : UInt8) (o : OpCode) (rest : Bytes) (p : PanicSite) :
    Header.parseLen f s o rest ≠ .panic p := by
  have ext : ∀ k, lfExtraBytes (lfForByte (s &&& UInt8.ofNat lenMask).toNat) = k → 0 < k →
      k ≤ 8 → Header.parseLen f s o rest ≠ .panic p := by
    intro k hk h0 h8
    rw [parseLen_ext hk h0 h8]
    by_cases hl : rest.length < k
    · rw [if_pos hl]; intro h; cases h
    · rw [if_neg hl]; exact parseMask_ne_panic _ _ _ _ _ _ _
  rcases lenByte_cases s with ⟨_, hk⟩ | ⟨_, hk⟩ | ⟨_, hk⟩
  · rw [parseLen_zero hk]; exact parseMask_ne_panic _ _ _ _ _ _ _
  · exact ext 2 hk (by omega) (by omega)
  · exact ext 8 hk (by omega) (by omega)

/-! ## list bookkeeping -/

theorem take_two_add {α : Type} (a b : α) (xs : List α) (k : Nat) :
    (a :: b :: xs).take (2 + k) = a :: b :: xs.take k := by
  rw [show 2 + k = k + 1 + 1 from by omega]; rfl

theorem take_shape (f s : UInt8) (ext mb tail : Bytes) :
    (f :: s :: (ext ++ (mb ++ tail))).take (2 + ext.length + mb.length) =
      f :: s :: (ext ++ (mb ++ [])) := by
  rw [Nat.add_assoc, take_two_add, List.append_nil, ← List.append_assoc]
  rw [List.take_left' (by rw [List.length_append])]

theorem parse_used_le {bs : Bytes} {h : Header} {len n : Nat}
    (hp : Header.parse bs = .header h len n) : n ≤ bs.length := by
  obtain ⟨f, s, o, m, ext, tail, rfl, rfl, rfl, _, _, _, _⟩ := parse_inv hp
  simp only [List.length_cons, List.length_append]
  omega

theorem applyMaskFrom_length (m : Mask) (off : Nat) (p : Bytes) :
    (applyMaskFrom m off p).length = p.length := by
  induction p generalizing off with
  | nil => rfl
  | cons b bs ih => simp only [applyMaskFrom, List.length_cons, ih]

theorem applyMask_length (m : Mask) (p : Bytes) : (applyMask m p).length = p.length :=
  applyMaskFrom_length m 0 p

theorem formatShape (len : Nat) :
    LenShape (lfLengthByte (lfForLength len)) (Header.extLen len) (len % 2 ^ 64) := by
  unfold Header.extLen
  by_cases h1 : len < 126
  · rw [lfForLength_small h1]
    exact Or.inl ⟨h1, rfl, show len % 2 ^ 64 = len by omega⟩
  · by_cases h2 : len < 65536
    · rw [lfForLength_mid (by omega) h2]
      refine Or.inr (Or.inl ⟨rfl, beBytes_length 2 len, ?_⟩)
      show _ = beNat (beBytes 2 len)
      rw [beNat_beBytes]; omega
    · rw [lfForLength_big (by omega)]
      refine Or.inr (Or.inr ⟨rfl, beBytes_length 8 len, ?_⟩)
      show _ = beNat (beBytes 8 len)
      rw [beNat_beBytes]

/-! ## the C18 theorems -/

/-- decode ∘ encode = id, for every header (all flag bits, every non-reserved opcode, with or
without mask key) and every 64-bit payload length; exactly the encoded bytes are consumed and
their count is the advertised header size -/
theorem C18_parse_format (h : Header) (len : Nat) (rest : Bytes)
    (hv : isReservedOpcode h.opcode = false) (hl : len < 2 ^ 64) :
    Header.parse (h.format len ++ rest) = .header h len (h.len len) := by
  obtain ⟨hop, hh⟩ := firstByte_spec h hv
  obtain ⟨hb, hm⟩ := secondByte_spec h len
  have hs := formatShape len
  rw [← hb, Nat.mod_eq_of_lt hl] at hs
  have key := parse_of_shape h.firstByte (h.secondByte len) h.opcode h.mask (Header.extLen len)
    rest len hop hv hm hs
  rw [hh] at key
  have e : h.format len ++ rest =
      h.firstByte :: h.secondByte len :: (Header.extLen len ++ (h.maskBytes ++ rest)) := by
    simp only [Header.format, List.cons_append, List.nil_append, List.append_assoc]
  rw [e, key, extLen_length, maskBytes_length]
  rfl

theorem C18_format_length (h : Header) (len : Nat) : (h.format len).length = h.len len := by
  simp only [Header.format, List.length_append, List.length_cons, List.length_nil,
    extLen_length, maskBytes_length, Header.len, headerLen]

/-- encoding always uses the shortest length form -/
theorem C18_minimal (len : Nat) (hl : len < 2 ^ 64) :
    (len < 126 → (Header.extLen len).length = 0) ∧
    (126 ≤ len → len < 65536 → (Header.extLen len).length = 2) ∧
    (65536 ≤ len → (Header.extLen len).length = 8) := by
  have _ := hl
  rw [extLen_length]
  refine ⟨fun h => ?_, fun h1 h2 => ?_, fun h => ?_⟩
  · rw [lfForLength_small h]; rfl
  · rw [lfForLength_mid h1 h2]; rfl
  · rw [lfForLength_big h]; rfl

/-- decoding never panics: any byte string yields a header, incomplete, or an error -/
theorem C18_parse_total (bs : Bytes) : ∀ s, Header.parse bs ≠ .panic s := by
  intro p
  rcases bs with _ | ⟨f, _ | ⟨s, rest⟩⟩
  · rw [parse_nil]; intro h; cases h
  · rw [parse_single]; intro h; cases h
  · cases hop : opCodeOfU8 (f &&& UInt8.ofNat opcodeMask).toNat with
    | none =>
      have h := op_total f.toNat (UInt8.toNat_lt f)
      rw [UInt8.ofNat_toNat (x := f), hop] at h
      cases h
    | some o => rw [parse_cons_some hop]; exact parseLen_ne_panic _ _ _ _ _

/-- more input never changes a decoded header -/
theorem C18_parse_append (bs more : Bytes) (h : Header) (len n : Nat)
    (hp : Header.parse bs = .header h len n) : Header.parse (bs ++ more) = .header h len n := by
  rw [parse_stable bs more (by rw [hp]; intro h; cases h), hp]

/-- a decoded header consumed a prefix of the input, depends only on that prefix, and every
shorter prefix is reported incomplete (nothing is consumed before the header is complete) -/
theorem C18_parse_prefix (bs : Bytes) (h : Header) (len n : Nat)
    (hp : Header.parse bs = .header h len n) :
    n ≤ bs.length ∧ Header.parse (bs.take n) = .header h len n ∧
    ∀ k, k < n → Header.parse (bs.take k) = .incomplete := by
  refine ⟨parse_used_le hp, ?_, ?_⟩
  · obtain ⟨f, s, o, m, ext, tail, rfl, rfl, rfl, hop, hr, hm, hs⟩ := parse_inv hp
    rw [take_shape]
    exact parse_of_shape f s o m ext [] len hop hr hm hs
  · intro k hk
    by_cases hinc : Header.parse (bs.take k) = .incomplete
    · exact hinc
    · have h1 := parse_stable (bs.take k) (bs.drop k) hinc
      rw [List.take_append_drop, hp] at h1
      have h2 := parse_used_le h1.symm
      rw [List.length_take] at h2
      omega

/-- decoded values are in range, and re-encoding a decoded header gives the canonical form:
it decodes to the same header and length, is never longer than what was consumed, and equals
the consumed bytes whenever those used the shortest length form -/
theorem C18_reencode (bs : Bytes) (h : Header) (len n : Nat)
    (hp : Header.parse bs = .header h len n) :
    len < 2 ^ 64 ∧ isReservedOpcode h.opcode = false ∧
    Header.parse (h.format len) = .header h len (h.len len) ∧ h.len len ≤ n ∧
    (n = h.len len → bs.take n = h.format len) := by
  obtain ⟨f, s, o, m, ext, tail, rfl, rfl, rfl, hop, hr, hm, hs⟩ := parse_inv hp
  have hlen : len < 2 ^ 64 := by
    rcases hs with ⟨hb, _, rfl⟩ | ⟨_, hl, rfl⟩ | ⟨_, hl, rfl⟩
    · omega
    · have := beNat_lt 2 ext hl; omega
    · exact beNat_lt 8 ext hl
  have hfmt := C18_parse_format (hdrOf f o m) len [] hr hlen
  rw [List.append_nil] at hfmt
  have hlenEq : (hdrOf f o m).len len =
      2 + lfExtraBytes (lfForLength len) + (hdrOf f o m).maskBytes.length := by
    rw [maskBytes_length]; rfl
  have hle : lfExtraBytes (lfForLength len) ≤ ext.length := by
    rcases hs with ⟨hb, rfl, rfl⟩ | ⟨_, hl, rfl⟩ | ⟨_, hl, rfl⟩
    · rw [lfForLength_small hb]; exact Nat.le_refl _
    · have := beNat_lt 2 ext hl
      rw [hl]
      by_cases h1 : beNat ext < 126
      · rw [lfForLength_small h1]; exact Nat.zero_le _
      · rw [lfForLength_mid (by omega) (by omega)]; exact Nat.le_refl _
    · rw [hl]
      cases lfForLength (beNat ext) <;> first | decide | exact Nat.zero_le _
  refine ⟨hlen, hr, hfmt, by rw [hlenEq]; omega, ?_⟩
  intro hn
  rw [hlenEq] at hn
  have hex : lfExtraBytes (lfForLength len) = ext.length := by omega
  rw [take_shape, List.append_nil]
  have hfirst : (hdrOf f o m).firstByte = f := firstByte_hdrOf f o m hop hr
  have hbyte : lfLengthByte (lfForLength len) = (s &&& UInt8.ofNat lenMask).toNat ∧
      Header.extLen len = ext := by
    unfold Header.extLen
    rcases hs with ⟨hb, rfl, rfl⟩ | ⟨hb, hl, rfl⟩ | ⟨hb, hl, rfl⟩
    · rw [lfForLength_small hb]; exact ⟨rfl, rfl⟩
    · have := beNat_lt 2 ext hl
      by_cases h1 : beNat ext < 126
      · rw [lfForLength_small h1, hl] at hex; cases hex
      · rw [lfForLength_mid (by omega) (by omega), hb]
        exact ⟨rfl, beBytes_beNat 2 ext hl⟩
    · by_cases h1 : beNat ext < 65536
      · by_cases h0 : beNat ext < 126
        · rw [lfForLength_small h0, hl] at hex; cases hex
        · rw [lfForLength_mid (by omega) h1, hl] at hex; cases hex
      · rw [lfForLength_big (by omega), hb]
        exact ⟨rfl, beBytes_beNat 8 ext hl⟩
  have hsecond : (hdrOf f o m).secondByte len = s := by
    unfold Header.secondByte
    rw [hbyte.1, show (hdrOf f o m).mask.isSome = m.isSome from rfl, ← hm]
    exact secondByte_rebuild s
  simp only [Header.format, List.cons_append, List.nil_append]
  rw [hfirst, hsecond, hbyte.2]

/-- a frame's reported size equals the number of bytes either encoder emits, and both encoders
emit identical bytes -/
theorem C18_encoders_agree (f : Frame) (buf : Bytes) :
    f.formatIntoBuf buf = buf ++ f.format ∧ f.format.length = f.len := by
  constructor
  · unfold Frame.formatIntoBuf Frame.format
    cases f.header.mask with
    | none => simp only [List.append_assoc]
    | some m =>
      dsimp only
      rw [List.take_left' rfl, List.drop_left' rfl, List.append_assoc]
  · unfold Frame.format Frame.len
    rw [List.length_append, C18_format_length]
    cases f.header.mask with
    | none => rfl
    | some m => simp only [applyMask_length]

/-! ## concrete instances (non-vacuity) -/

/-- a masked final text header -/
def exHdr : Header :=
  { fin := true, rsv1 := false, rsv2 := false, rsv3 := false, opcode := .data .text,
    mask := some ⟨0x37, 0xfa, 0x21, 0x3d⟩ }

/-- the three length forms on the wire, at their boundaries -/
example : exHdr.format 5 = [0x81, 0x85, 0x37, 0xfa, 0x21, 0x3d] := by decide
example : exHdr.format 125 = [0x81, 0xfd, 0x37, 0xfa, 0x21, 0x3d] := by decide
example : exHdr.format 126 = [0x81, 0xfe, 0x00, 0x7e, 0x37, 0xfa, 0x21, 0x3d] := by decide
example : exHdr.format 65535 = [0x81, 0xfe, 0xff, 0xff, 0x37, 0xfa, 0x21, 0x3d] := by decide
example : exHdr.format 65536 =
    [0x81, 0xff, 0, 0, 0, 0, 0, 1, 0, 0, 0x37, 0xfa, 0x21, 0x3d] := by decide

/-- a masked text header with length 65536 round-trips, consuming exactly its 14 bytes and
ignoring the payload bytes that follow -/
example : Header.parse (exHdr.format 65536 ++ [0xde, 0xad]) = .header exHdr 65536 14 := by decide
example : exHdr.len 65536 = 14 := by decide

/-- the largest 64-bit length round-trips -/
example : Header.parse (exHdr.format (2 ^ 64 - 1)) = .header exHdr (2 ^ 64 - 1) 14 := by decide

/-- an unmasked close header with all reserved bits set round-trips in two bytes -/
example : Header.parse
    (({ fin := false, rsv1 := true, rsv2 := true, rsv3 := true, opcode := .control .close,
        mask := none } : Header).format 0) =
    .header { fin := false, rsv1 := true, rsv2 := true, rsv3 := true, opcode := .control .close,
              mask := none } 0 2 := by decide

/-- every strict prefix of an encoded header is incomplete -/
example : ∀ k, k < 14 → Header.parse ((exHdr.format 65536).take k) = .incomplete := by decide

/-- a non-minimal encoding (length 5 in the 16-bit form) still decodes, and re-encoding it is
strictly shorter: the hypothesis `n = h.len len` of `C18_reencode` is necessary -/
example : Header.parse [0x81, 0x7e, 0x00, 0x05] = .header { exHdr with mask := none } 5 4 ∧
    ({ exHdr with mask := none } : Header).format 5 = [0x81, 0x05] := by decide

/-- a reserved opcode is rejected with a protocol error, not a panic -/
example : Header.parse [0x83, 0x00] = .error (.protocol (.invalidOpcode 3)) := by decide

/-- the length hypothesis of `C18_parse_format` is necessary: 2^64 is truncated like `as u64` -/
example : Header.parse (exHdr.format (2 ^ 64)) = .header exHdr 0 14 := by decide

/-- both frame encoders on a concrete masked frame -/
example : (Frame.mk exHdr [0x7f, 0x9f, 0x4d, 0x51, 0x58]).format =
      [0x81, 0x85, 0x37, 0xfa, 0x21, 0x3d, 0x48, 0x65, 0x6c, 0x6c, 0x6f] ∧
    (Frame.mk exHdr [0x7f, 0x9f, 0x4d, 0x51, 0x58]).formatIntoBuf [1, 2] =
      [1, 2, 0x81, 0x85, 0x37, 0xfa, 0x21, 0x3d, 0x48, 0x65, 0x6c, 0x6c, 0x6f] ∧
    (Frame.mk exHdr [0x7f, 0x9f, 0x4d, 0x51, 0x58]).len = 11 := by decide

end WsProofs.C18
