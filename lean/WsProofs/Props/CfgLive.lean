import WsProofs.Lemmas.EndpointStep
import WsProofs.Props.TieConfig
import WsProofs.Props.C07
import WsProofs.Lemmas.GlobalPanic

/-! # `set_config` on a live connection

The reachability theorems of C07/C10/C13/C14 quantify over histories of `read`, `write`, `flush`,
`close` on a connection whose configuration is fixed at creation. Here the history may also
contain `set_config` calls that install a valid configuration whose `max_write_buffer_size` is not
below what is buffered at that moment; the global invariant (`Inv`: nothing accepted is lost or
reordered, the unsent data respects the bound, the codec enforces the stored configuration, the
close-handshake bookkeeping) survives them.  A call that lowers the bound *below* what is buffered
is legal too, but then the bound cannot hold until the buffer has drained — that case is covered by
the correspondence and the monitors (`ep:cfglive`), not by these theorems. -/
namespace WsProofs.CfgLive
open WsModel WsModel.Gen WsProofs

/-- histories of calls and admissible `set_config`s -/
inductive ReachableCfg : World → Prop
  | init {w : World} : w.Init → ReachableCfg w
  | step {w : World} (op : Op) : ReachableCfg w → Op.noRaw op → ReachableCfg (w.step op).1
  | setcfg {w : World} (f : Config → Config) : ReachableCfg w →
      configValid (f w.c.cfg).maxw (f w.c.cfg).wbuf = true →
      w.c.codec.outBuf.length ≤ (f w.c.cfg).maxw → ReachableCfg (w.setConfig f).1

theorem setConfig_inv {w : World} (h : Inv w) (f : Config → Config)
    (hv : configValid (f w.c.cfg).maxw (f w.c.cfg).wbuf = true)
    (hb : w.c.codec.outBuf.length ≤ (f w.c.cfg).maxw) : Inv (w.setConfig f).1 := by
  unfold World.setConfig
  simp only [hv, if_true]
  exact ⟨h.fifo, hb, ⟨rfl, rfl⟩, h.closeLast, h.active, h.closing, h.drained, h.slot, h.slotClean⟩

/-- the invariant holds in every state reachable with admissible `set_config` calls -/
theorem C14_inv_under_set_config {w : World} (h : ReachableCfg w) : Inv w := by
  induction h with
  | init hi => exact init_inv _ hi
  | step op _ hop ih => exact step_inv _ op ih hop
  | setcfg f _ hv hb ih => exact setConfig_inv ih f hv hb

/-- C14 under a changing configuration: the unsent data never exceeds the bound in force -/
theorem C14_bound_under_set_config {w : World} (h : ReachableCfg w) :
    w.c.codec.outBuf.length ≤ w.c.cfg.maxw := by
  have hi := C14_inv_under_set_config h
  rw [← hi.cfgFixed.1]; exact hi.bound

/-- C10 under a changing configuration: what the transport accepted plus what is still buffered is
exactly the encoding of the frames queued, in order — `set_config` loses and reorders nothing -/
theorem C10_fifo_under_set_config {w : World} (h : ReachableCfg w) :
    w.t.accepted ++ w.c.codec.outBuf = encodeAll w.queued :=
  (C14_inv_under_set_config h).fifo

/-- the codec enforces the configuration the user installed last -/
theorem C14_codec_follows_config {w : World} (h : ReachableCfg w) :
    w.c.codec.maxOut = w.c.cfg.maxw ∧ w.c.codec.writeLen = w.c.cfg.wbuf :=
  (C14_inv_under_set_config h).cfgFixed

/-- every state of the fixed-configuration theorems is one of these -/
theorem reachable_is_reachableCfg {w : World} (h : w.Reachable) : ReachableCfg w := by
  obtain ⟨w0, ops, hinit, hops, rfl⟩ := h
  have : ∀ (ops : List Op) (w : World), ReachableCfg w → (∀ op ∈ ops, Op.noRaw op) →
      ReachableCfg (w.run ops).1 := by
    intro ops
    induction ops with
    | nil => intro w hw _; exact hw
    | cons op ops ih =>
      intro w hw hops
      simp only [World.run]
      exact ih _ (.step op hw (hops op (by simp))) (fun o ho => hops o (by simp [ho]))
  exact this ops w0 (.init hinit) hops

/-- the collector invariant behind "no panic site is reachable" does not depend on the
configuration: it survives every `set_config` -/
theorem setConfig_cinv {w : World} (h : CInv w) (f : Config → Config) : CInv (w.setConfig f).1 := by
  have hk := (Tie.Tie_setConfig_keeps_data f w).2.2.1
  unfold CInv at *
  rw [hk]; exact h

theorem reachableCfg_cinv {w : World} (h : ReachableCfg w) : CInv w := by
  induction h with
  | init hi => exact init_cinv _ hi
  | step op _ hop ih => exact step_cinv _ op ih hop
  | setcfg f _ _ _ ih => exact setConfig_cinv ih f

/-- C07 under a changing configuration: after any history of calls and admissible `set_config`s,
no call panics — reading (under the same hypothesis on the read script as `C07_read_no_panic`),
the write side, and `set_config` itself with a valid configuration -/
theorem C07_no_panic_under_set_config {w : World} (h : ReachableCfg w) (op : Op) (hop : Op.noRaw op)
    (hdef : ∀ bs, w.t.rdDef ≠ .data bs) : (w.step op).2.isPanic = false := by
  by_cases hr : op = .read
  · subst hr
    show (Out.msg w.read.2).isPanic = false
    cases hres : w.read.2 with
    | ok m => rfl
    | err e => rfl
    | panic s => exact absurd hres (read_np w (reachableCfg_cinv h) hdef s)
  · -- the write side does not depend on how the state was reached
    have key : ∀ (w : World) (op : Op), Op.noRaw op → op ≠ .read → (w.step op).2.isPanic = false := by
      intro w op hop hw
      cases op with
      | read => exact absurd rfl hw
      | flush =>
        show (Out.unit w.flush.2).isPanic = false
        by_cases hnt : w.c.state = .terminated
        · rw [terminated_flush w hnt]; rfl
        · rcases (flush_FSC hnt).kind with ⟨a, h⟩ | ⟨k, h⟩ | h <;> rw [h] <;> rfl
      | close c =>
        show (Out.unit (w.close c).2).isPanic = false
        by_cases hnt : w.c.state = .terminated
        · rw [terminated_close w c hnt]; rfl
        · obtain ⟨w0, _, _, _, _, _, _, _, F⟩ := close_FSC (w := w) c hnt
          rcases F.kind with ⟨a, h⟩ | ⟨k, h⟩ | h <;> rw [h] <;> rfl
      | write m =>
        show (Out.unit (w.write m).2).isPanic = false
        by_cases hs : w.c.state = .active
        · cases m with
          | frame f => exact absurd hop (by simp [Op.noRaw])
          | _ =>
            rcases write_active_kind w _ hs with h | ⟨k, h⟩ | ⟨g, h⟩ | h <;> rw [h] <;> rfl
        · rcases (write_refused w m hs).2 with h | h <;> rw [h] <;> rfl
    exact key w op hop hr

/-- and `set_config` panics exactly for the documented invalid configuration -/
theorem C07_set_config_panics_iff (w : World) (f : Config → Config) :
    (w.setConfig f).2 = .panic .configInvalid ↔ (f w.c.cfg).maxw ≤ (f w.c.cfg).wbuf := by
  unfold World.setConfig configValid
  by_cases h : (f w.c.cfg).maxw > (f w.c.cfg).wbuf
  · simp [h]
  · simp [h]; omega

/-! ### non-vacuity: a read, then the bound lowered to 10 bytes above a write buffer of 0, then a write -/

def exLower (c : Config) : Config := { c with wbuf := 0, maxw := 10 }

theorem ex_reachableCfg :
    ReachableCfg ((((C07.exServer.step .read).1.setConfig exLower).1.step (.write (.binary [1, 2, 3]))).1) := by
  refine .step _ (.setcfg exLower (.step .read (.init C07.exServer_init) (by simp [Op.noRaw])) ?_ ?_) (by simp [Op.noRaw])
  · decide
  · decide

/-- the new bound is the one in force afterwards -/
example : ((((C07.exServer.step .read).1.setConfig exLower).1.step (.write (.binary [1, 2, 3]))).1).c.cfg.maxw = 10 := rfl

end WsProofs.CfgLive
