import WsModel.Endpoint
import WsProofs.Lemmas.GlobalPanic
import WsProofs.Lemmas.GlobalWork
import WsProofs.Props.C18

/-! C07 — no call panics: none of the `expect`/`unwrap`/`unreachable!`/`panic!`/`assert!` sites of
the modelled code is reachable from a freshly created endpoint, whatever the peer sends, whatever
the transport does and whatever (non-raw) calls the user makes; and the model's own loops never run
out of fuel. -/
namespace WsProofs.C07
open WsModel WsModel.Gen

/-- the header parser never panics (restated from C18) and `OpCode::from` is only applied to a nibble -/
theorem C07_header_parse_no_panic (bs : Bytes) : ∀ s, Header.parse bs ≠ .panic s :=
  C18.C18_parse_total bs

/-- the write side never panics, for every state and transport behaviour -/
theorem C07_write_side_no_panic (w : World) (op : Op) (hr : w.Reachable) (hop : op.noRaw)
    (hw : op ≠ .read) : (w.step op).2.isPanic = false := by
  have _ := hr
  cases op with
  | read => exact absurd rfl hw
  | flush =>
    show (Out.unit w.flush.2).isPanic = false
    by_cases hnt : w.c.state = .terminated
    · rw [terminated_flush w hnt]; rfl
    · rcases (flush_FSC hnt).kind with ⟨a, h⟩ | ⟨k, h⟩ | h <;> rw [h] <;> rfl
  | close c =>
    show (Out.unit (w.close c).2).isPanic = false
    by_cases hnt : w.c.state = .terminated
    · rw [terminated_close w c hnt]; rfl
    · obtain ⟨w0, _, _, _, _, _, _, _, F⟩ := close_FSC (w := w) c hnt
      rcases F.kind with ⟨a, h⟩ | ⟨k, h⟩ | h <;> rw [h] <;> rfl
  | write m =>
    show (Out.unit (w.write m).2).isPanic = false
    by_cases hs : w.c.state = .active
    · cases m with
      | frame f => exact absurd hop (by simp [Op.noRaw])
      | _ =>
        rcases write_active_kind w _ hs with h | ⟨k, h⟩ | ⟨g, h⟩ | h <;> rw [h] <;> rfl
    · rcases (write_refused w m hs).2 with h | h <;> rw [h] <;> rfl

/-- construction panics only for the documented invalid configuration -/
theorem C07_new_panics_iff (role : Role) (cfg : Config) (pre : Bytes) :
    Ctx.new role cfg pre = none ↔ cfg.maxw ≤ cfg.wbuf := by
  unfold Ctx.new configValid
  by_cases h : cfg.maxw > cfg.wbuf
  · simp [h]
  · simp [h]; omega

/-- reading never panics either: none of the `expect`/`unwrap`/`unreachable!`/`panic!` sites is
reachable and the model's loops never run out of fuel -/
theorem C07_read_no_panic (w : World) (hr : w.Reachable) (hdef : ∀ bs, w.t.rdDef ≠ .data bs) :
    (w.step .read).2.isPanic = false := by
  show (Out.msg w.read.2).isPanic = false
  cases hres : w.read.2 with
  | ok m => rfl
  | err e => rfl
  | panic s => exact absurd hres (read_np w (reachable_cinv w hr) hdef s)

/-- every call makes boundedly many transport calls: at most one per scripted event it consumes, one
per byte it has to write (what is waiting in the write buffer and the pending slot, plus the frame
the call itself submits), plus a constant per `read` iteration (so no call spins).

Changed from the given statement, which is false: the bytes of the frame submitted by the call
(`opLen op`) and of the frame waiting in the pending slot (`slotLen w`) have to be counted — with a
transport that accepts one byte per write, sending an n-byte message takes n+2 write calls (see the
counterexample below). The hypothesis on `wrDef` turns out not to be needed: `write_out_buffer`
stops with an error on `Ok(0)`. -/
theorem C07_bounded_work (w : World) (op : Op) (hr : w.Reachable) (hop : op.noRaw)
    (hdef : ∀ bs, w.t.rdDef ≠ .data bs) (hw : ∀ k, w.t.wrDef = .accept k → 1 ≤ k) :
    (w.step op).1.t.log.length ≤ w.t.log.length + w.t.rd.length + w.t.wr.length + w.t.fl.length
      + w.c.codec.outBuf.length + slotLen w + opLen op
      + 16 * (w.c.codec.inBuf.length + rdBytes w.t.rd + 2) + 16 := by
  have _ := hr
  have _ := hop
  have _ := hw
  have h := step_cost w op hdef
  have h1 : (w.step op).1.t.log.length ≤ psi0 (w.step op).1 := by
    unfold psi0 tcost; omega
  have h2 : psi w = w.t.log.length + w.t.rd.length + w.t.wr.length + w.t.fl.length
      + w.c.codec.outBuf.length + slotLen w := by
    unfold psi psi0 tcost; rfl
  omega

/-! ### the hypotheses are satisfiable; the counterexample to the given `C07_bounded_work` -/

/-- a server whose peer sends "é" as a text message in two fragments that split the two-byte
character (so the collector's `Incomplete` buffer is exercised), then a ping -/
def exServer : World :=
  { c := { role := .server, cfg := {},
           codec := { inBuf := [], maxOut := ({} : Config).maxw, writeLen := ({} : Config).wbuf } }
    t := { rd := [.data [0x01, 0x81, 0, 0, 0, 0, 0xC3], .data [0x80, 0x81, 0, 0, 0, 0, 0xA9],
                  .data [0x89, 0x80, 0, 0, 0, 0]],
           wr := [], fl := [] } }

theorem exServer_init : exServer.Init :=
  ⟨.server, {}, [], _, rfl, rfl, rfl, rfl, rfl, rfl⟩

theorem ex_reachable : (exServer.run [.read]).1.Reachable :=
  ⟨exServer, _, exServer_init, by simp [Op.noRaw], rfl⟩

/-- the first read assembles the message across the split character (two loop iterations) -/
example : (exServer.run [.read]).2 = [.msg (.ok (.text [0xC3, 0xA9]))] := rfl

/-- the hypotheses of `C07_read_no_panic` / `C07_bounded_work` hold for the next read -/
example : ∀ bs, (exServer.run [.read]).1.t.rdDef ≠ .data bs := by
  intro bs h; cases h

example : ((exServer.run [.read]).1.step .read).2.isPanic = false :=
  C07_read_no_panic _ ex_reachable (by intro bs h; cases h)

/-- … and mid-message (after the first fragment only) the collector holds an incomplete code point -/
def exMid : World := { exServer with t := { exServer.t with rd := [.data [0x01, 0x81, 0, 0, 0, 0, 0xC3]] } }

example : (exMid.run [.read]).1.c.incomplete =
    some (.text { data := [], incomplete := some [0xC3] }) := by decide

/-- `C07_new_panics_iff`: both sides occur -/
example : Ctx.new .server { wbuf := 10, maxw := 10 } [] = none := rfl
example : (Ctx.new .server { wbuf := 10, maxw := 11 } []).isSome = true := rfl

/-- counterexample to the bound as given (without `opLen`): a transport that accepts one byte per
write call needs 102 calls for a 100-byte binary message, the given bound is 48 -/
def exSlow : World :=
  { c := { role := .server, cfg := { wbuf := 0 },
           codec := { inBuf := [], maxOut := ({} : Config).maxw, writeLen := 0 } }
    t := { rd := [], wr := [], fl := [], wrDef := .accept 1 } }

example : exSlow.Init := ⟨.server, { wbuf := 0 }, [], _, rfl, rfl, rfl, rfl, rfl, rfl⟩

example :
    (exSlow.step (.write (.binary (List.replicate 100 0)))).1.t.log.length = 102 ∧
    exSlow.t.log.length + exSlow.t.rd.length + exSlow.t.wr.length + exSlow.t.fl.length
      + exSlow.c.codec.outBuf.length + 16 * (exSlow.c.codec.inBuf.length + rdBytes exSlow.t.rd + 2) + 16 = 48 ∧
    (∀ bs, exSlow.t.rdDef ≠ .data bs) ∧ (∀ k, exSlow.t.wrDef = .accept k → 1 ≤ k) := by
  refine ⟨by decide, by decide, fun bs h => (by cases h), fun k h => ?_⟩
  have : k = 1 := by injection h with h; exact h.symm
  omega

end WsProofs.C07
