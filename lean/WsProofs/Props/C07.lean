import WsModel.Endpoint
import WsProofs.Lemmas.GlobalPanic
import WsProofs.Props.C18

/-! C07 — no call panics: none of the `expect`/`unwrap`/`unreachable!`/`panic!`/`assert!` sites of
the modelled code is reachable from a freshly created endpoint, whatever the peer sends, whatever
the transport does and whatever (non-raw) calls the user makes; and the model's own loops never run
out of fuel. -/
namespace WsProofs.C07
open WsModel WsModel.Gen

/-- the header parser never panics (restated from C18) and `OpCode::from` is only applied to a nibble -/
theorem C07_header_parse_no_panic (bs : Bytes) : ∀ s, Header.parse bs ≠ .panic s :=
  C18.C18_parse_total bs

/-- the write side never panics, for every state and transport behaviour -/
theorem C07_write_side_no_panic (w : World) (op : Op) (hr : w.Reachable) (hop : op.noRaw)
    (hw : op ≠ .read) : (w.step op).2.isPanic = false := by
  have _ := hr
  cases op with
  | read => exact absurd rfl hw
  | flush =>
    show (Out.unit w.flush.2).isPanic = false
    by_cases hnt : w.c.state = .terminated
    · rw [terminated_flush w hnt]; rfl
    · rcases (flush_FSC hnt).kind with ⟨a, h⟩ | ⟨k, h⟩ | h <;> rw [h] <;> rfl
  | close c =>
    show (Out.unit (w.close c).2).isPanic = false
    by_cases hnt : w.c.state = .terminated
    · rw [terminated_close w c hnt]; rfl
    · obtain ⟨w0, _, _, _, _, _, _, _, F⟩ := close_FSC (w := w) c hnt
      rcases F.kind with ⟨a, h⟩ | ⟨k, h⟩ | h <;> rw [h] <;> rfl
  | write m =>
    show (Out.unit (w.write m).2).isPanic = false
    by_cases hs : w.c.state = .active
    · cases m with
      | frame f => exact absurd hop (by simp [Op.noRaw])
      | _ =>
        rcases write_active_kind w _ hs with h | ⟨k, h⟩ | ⟨g, h⟩ | h <;> rw [h] <;> rfl
    · rcases (write_refused w m hs).2 with h | h <;> rw [h] <;> rfl

/-- construction panics only for the documented invalid configuration -/
theorem C07_new_panics_iff (role : Role) (cfg : Config) (pre : Bytes) :
    Ctx.new role cfg pre = none ↔ cfg.maxw ≤ cfg.wbuf := by
  unfold Ctx.new configValid
  by_cases h : cfg.maxw > cfg.wbuf
  · simp [h]
  · simp [h]; omega

/-- reading never panics either: none of the `expect`/`unwrap`/`unreachable!`/`panic!` sites is
reachable and the model's loops never run out of fuel -/
theorem C07_read_no_panic (w : World) (hr : w.Reachable) (hdef : ∀ bs, w.t.rdDef ≠ .data bs) :
    (w.step .read).2.isPanic = false := by
  show (Out.msg w.read.2).isPanic = false
  cases hres : w.read.2 with
  | ok m => rfl
  | err e => rfl
  | panic s => exact absurd hres (read_np w (reachable_cinv w hr) hdef s)

end WsProofs.C07
