import WsProofs.Lemmas.HistPong

/-! # C11 — pings are answered (history-level part)

Pongs appear on the wire in the order of their sources (Ping messages read, pongs the user wrote)
and none is invented; a Ping message returned by `read` while the endpoint stays active leaves its
pong in the pending slot. Built on the slot analysis of `GlobalSlot`/`GlobalRead` and its
ping-aware refinement in `HistPong`. -/
namespace WsProofs.C11
open WsModel WsModel.Gen

/-- the pong payloads a history may legitimately produce, in order: one per Ping message that a
read delivered, one per user `write (pong p)` call — as they occur in the run -/
def pongSources : List Op → List Out → List Bytes
  | .read :: ops, .msg (.ok (.ping p)) :: outs => p :: pongSources ops outs
  | .write (.pong p) :: ops, _ :: outs => p :: pongSources ops outs
  | _ :: ops, _ :: outs => pongSources ops outs
  | _, _ => []

/-- the pong frames that were queued, in queue (= wire) order -/
def queuedPongs (w : World) : List Bytes := (w.queued.filter (·.isPong)).map (·.payload)

theorem pongSources_cons (op : Op) (o : Out) (ops : List Op) (outs : List Out) :
    pongSources (op :: ops) (o :: outs) = srcOf op o ++ pongSources ops outs := by
  cases op with
  | read =>
    cases o with
    | unit r => rfl
    | msg r =>
      cases r with
      | err e => rfl
      | panic s => rfl
      | ok m => cases m <;> rfl
  | flush => rfl
  | close c => rfl
  | write m => cases m <;> rfl

/-- along a run: the committed pongs (queued, then the one in the slot) stay a subsequence of the
sources so far -/
theorem run_pongs (ops : List Op) (w : World) (hI : Inv w) (hops : ∀ op ∈ ops, Op.noRaw op)
    (acc : List Bytes) (h : (pongs w).Sublist acc) :
    (pongs (w.run ops).1).Sublist (acc ++ pongSources ops (w.run ops).2) := by
  induction ops generalizing w acc with
  | nil =>
    show (pongs w).Sublist (acc ++ [])
    rw [List.append_nil]; exact h
  | cons op ops ih =>
    have hop : op.noRaw := hops op (by simp)
    have hS := step_pongs w op hI hop acc h
    have hI' := step_inv w op hI hop
    have hrec := ih (w.step op).1 hI' (fun o ho => hops o (by simp [ho])) _ hS
    show (pongs ((w.step op).1.run ops).1).Sublist
      (acc ++ pongSources (op :: ops) ((w.step op).2 :: ((w.step op).1.run ops).2))
    rw [pongSources_cons, ← List.append_assoc]
    exact hrec

theorem init_pongs (w0 : World) (hinit : w0.Init) : pongs w0 = [] := by
  obtain ⟨role, cfg, pre, c, hc, hwc, hq, _⟩ := hinit
  unfold Ctx.new at hc
  by_cases hv : configValid cfg.maxw cfg.wbuf = true
  · rw [if_pos hv] at hc
    have hc' := (Option.some.inj hc).symm
    have ha : w0.c.additional = none := by rw [hwc, hc']
    unfold pongs qPongs
    rw [slotPong_none ha, hq]
    rfl
  · rw [if_neg hv] at hc; cases hc

/-- every pong ever queued answers a ping that was read (same payload) or is a pong the user wrote;
they are queued in the order of their sources; none is invented: the queued pongs form a
subsequence of the pong sources of the history -/
theorem C11_order_no_invention (w0 : World) (ops : List Op) (hinit : w0.Init)
    (hops : ∀ op ∈ ops, Op.noRaw op) :
    (queuedPongs (w0.run ops).1).Sublist (pongSources ops (w0.run ops).2) := by
  have h := run_pongs ops w0 (init_inv w0 hinit) hops [] (by rw [init_pongs w0 hinit]; exact List.Sublist.refl _)
  rw [List.nil_append] at h
  exact sublist_of_prefix h

/-- the stronger bookkeeping behind it: the queued pongs followed by the pong still waiting in the
slot form a subsequence of the sources — a pending pong is accounted for as well -/
theorem order_with_pending (w0 : World) (ops : List Op) (hinit : w0.Init)
    (hops : ∀ op ∈ ops, Op.noRaw op) :
    (queuedPongs (w0.run ops).1 ++ slotPong (w0.run ops).1).Sublist (pongSources ops (w0.run ops).2) := by
  have h := run_pongs ops w0 (init_inv w0 hinit) hops [] (by rw [init_pongs w0 hinit]; exact List.Sublist.refl _)
  rw [List.nil_append] at h
  exact h

/-- a ping read while the connection is open is answered unless a newer pong or a Close displaced it:
after the read, the pong with the same payload is the pending frame -/
theorem C11_ping_makes_pong_pending (w : World) (p : Bytes) (hr : w.Reachable)
    (h : (w.read).2 = .ok (.ping p)) (hact : (w.read).1.c.state = .active) :
    ∃ f, (w.read).1.c.additional = some f ∧ f.isPong = true ∧ f.payload = p := by
  have hI := reachable_inv w hr
  refine ⟨Frame.pong p, ?_, rfl, rfl⟩
  by_cases hnt : w.c.state = .terminated
  · rw [terminated_read w hnt] at h; cases h
  · revert h hact
    unfold World.read
    have hnt' : ¬ (!w.c.state.notTerminated) = true := by simp [notTerminated_iff.mpr hnt]
    rw [if_neg hnt']
    intro h hact
    exact readLoop_ping _ w hI hnt p h hact

/-! ## concrete instances (non-vacuity) -/

/-- a server with a 12-byte write buffer limit whose transport refuses the first two writes; the
peer sends Ping [1], Ping [2], then Ping [3] and a Close in one segment -/
def gServer : World :=
  { c := { role := .server, cfg := { wbuf := 0, maxw := 12 },
           codec := { inBuf := [], maxOut := 12, writeLen := 0 } }
    t := { rd := [.data [0x89, 0x81, 0, 0, 0, 0, 1], .data [0x89, 0x81, 0, 0, 0, 0, 2],
                  .data [0x89, 0x81, 0, 0, 0, 0, 3, 0x88, 0x80, 0, 0, 0, 0]],
           wr := [.err .wouldBlock, .err .wouldBlock], fl := [] } }

theorem gServer_init : gServer.Init :=
  ⟨.server, { wbuf := 0, maxw := 12 }, [], _, rfl, rfl, rfl, rfl, rfl, rfl⟩

def gOps : List Op :=
  [.read, .write (.pong [9]), .read, .read, .write (.pong [7]), .flush, .read, .write (.pong [8]), .read]

/-- six sources; pong [1] is displaced by the user's pong [9], pong [3] by the user's pong [7],
pong [8] is refused (the Close was read): three pongs reach the wire, in source order -/
example : pongSources gOps (gServer.run gOps).2 = [[1], [9], [2], [3], [7], [8]] := by decide
example : queuedPongs (gServer.run gOps).1 = [[9], [2], [7]] := by decide
example : (queuedPongs (gServer.run gOps).1).Sublist (pongSources gOps (gServer.run gOps).2) :=
  C11_order_no_invention gServer gOps gServer_init (by simp [gOps, Op.noRaw])

/-- the hypotheses of `C11_ping_makes_pong_pending` hold on the fresh server … -/
theorem gServer_reachable : gServer.Reachable :=
  ⟨gServer, [], gServer_init, by simp, rfl⟩
example : (gServer.read).2 = .ok (.ping [1]) := rfl
example : (gServer.read).1.c.state = .active := by decide
example : (gServer.read).1.c.additional = some (Frame.pong [1]) := by decide

/-- … and after one read, where the pending pong [1] (its write blocked) is displaced by pong [2] -/
theorem gServer_after_read : (gServer.run [.read, .flush]).1.Reachable :=
  ⟨gServer, _, gServer_init, by simp [Op.noRaw], rfl⟩
example : ((gServer.run [.read, .flush]).1.read).2 = .ok (.ping [2]) := rfl
example : ((gServer.run [.read, .flush]).1.read).1.c.additional = some (Frame.pong [2]) := by decide

end WsProofs.C11
