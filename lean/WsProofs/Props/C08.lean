import WsModel.Collect
import WsModel.Spec.Utf8Table
import WsProofs.Lemmas.Utf8Lemmas
import WsProofs.Lemmas.Utf8ScalarLemmas
import WsProofs.Lemmas.Utf8TableLemmas
import WsProofs.Lemmas.CollectorLemmas
namespace WsProofs.C08
open WsModel WsModel.Spec

/-! C08 — UTF-8 validation of text messages and close reasons: `str::from_utf8` as modelled,
the fragment-wise `StringCollector`, and the executable table used by the monitors all decide
the same predicate, Table 3-7 of the Unicode Standard. -/

/-- feed the fragments of one text message to the collector, stop at the first error -/
def extendAll (s : Collector) : List Bytes → Collector × Res Unit
  | [] => (s, .ok ())
  | f :: fs =>
    match s.extend f with
    | (s', .ok ()) => extendAll s' fs
    | (s', r) => (s', r)

/-- what `read` delivers for a text message received as the fragments `frags` -/
def collectText (frags : List Bytes) : Res Bytes :=
  match extendAll {} frags with
  | (s, .ok ()) => s.intoString
  | (_, .err e) => .err e
  | (_, .panic p) => .panic p

/-- the model of `str::from_utf8` accepts exactly the well-formed sequences of Table 3-7 -/
theorem C08_std_iff_table (bs : Bytes) : utf8Validate bs = .ok ↔ WellFormed bs :=
  Utf8.validate_ok_iff bs

/-- … which are exactly the encodings of strings of Unicode scalar values
(no overlong forms, no surrogates, nothing above U+10FFFF) -/
theorem C08_table_iff_scalars (bs : Bytes) :
    WellFormed bs ↔ ∃ cs : List Nat, (∀ c ∈ cs, IsScalar c) ∧ bs = encodeScalars cs :=
  ⟨Utf8.wf_decode, fun ⟨_, hcs, hbs⟩ => hbs ▸ Utf8.wf_encodeScalars hcs⟩

/-- the executable spec used by the monitors is the table -/
theorem C08_wellFormedB_iff (bs : Bytes) : wellFormedB bs = true ↔ WellFormed bs :=
  Utf8.wellFormedB_iff bs

/-- an error report of `from_utf8` is exact: the prefix is well-formed, and `error_len = none`
means the rest is a proper prefix of a well-formed sequence (more input could still complete it)
while `some k` means no continuation of the input can ever be well-formed -/
theorem C08_std_error_shape (bs : Bytes) (v : Nat) (el : Option Nat)
    (h : utf8Validate bs = .err v el) :
    v ≤ bs.length ∧ WellFormed (bs.take v) ∧
    (el = none → 1 ≤ (bs.drop v).length ∧ (bs.drop v).length ≤ 3 ∧
        ∃ more, more ≠ [] ∧ WellFormed (bs.drop v ++ more)) ∧
    (∀ k, el = some k → 1 ≤ k ∧ k ≤ 3 ∧ v + k ≤ bs.length ∧ ∀ more, ¬ WellFormed (bs ++ more)) := by
  obtain ⟨hv, hwf, hstep⟩ := Utf8.validate_err_spec h
  refine ⟨hv, hwf, ?_, ?_⟩
  · intro hel
    subst hel
    obtain ⟨h1, h3, more, hne, hseq⟩ := Utf8.step_incomplete hstep
    exact ⟨h1, h3, more, hne, Utf8.seq_wf hseq⟩
  · intro k hel
    subst hel
    obtain ⟨h1, h3, hk, _⟩ := Utf8.step_invalid_local hstep
    rw [List.length_drop] at hk
    refine ⟨h1, h3, by omega, ?_⟩
    intro more hw
    rw [← List.take_append_drop v bs, List.append_assoc] at hw
    exact Utf8.not_wf_of_step_invalid hstep more (Utf8.wf_cancel hwf hw)

theorem extendAll_eq (s : Collector) (frags : List Bytes) :
    extendAll s frags = Collector.feedAll s frags := by
  induction frags generalizing s with
  | nil => rfl
  | cons f fs ih =>
    simp only [extendAll, Collector.feedAll]
    cases s.extend f with
    | mk s' r => cases r <;> simp only [ih]

theorem collectText_eq (frags : List Bytes) : collectText frags = Collector.feedText frags := by
  unfold collectText Collector.feedText
  rw [extendAll_eq]
  cases Collector.feedAll {} frags with
  | mk s r => cases r <;> rfl

/-- a fragmented text message is accepted iff the concatenation of its fragments is well-formed
UTF-8, wherever the fragment boundaries fall (including inside a multi-byte character) -/
theorem C08_collector_iff (frags : List Bytes) :
    (∃ s, collectText frags = .ok s) ↔ WellFormed frags.flatten := by
  rw [collectText_eq]
  rcases Collector.feedText_spec frags with ⟨h1, h2⟩ | ⟨h1, h2⟩
  · exact ⟨fun _ => h2, fun _ => ⟨_, h1⟩⟩
  · constructor
    · rintro ⟨s, hs⟩; rw [h1] at hs; cases hs
    · intro hw; exact absurd hw h2

/-- and the delivered text is exactly that concatenation -/
theorem C08_collector_value (frags : List Bytes) (s : Bytes) (h : collectText frags = .ok s) :
    s = frags.flatten := by
  rw [collectText_eq] at h
  rcases Collector.feedText_spec frags with ⟨h1, _⟩ | ⟨h1, _⟩
  · rw [h1] at h; cases h; rfl
  · rw [h1] at h; cases h

/-- a rejected text is rejected with the UTF-8 error, and the collector never panics
(the `checked_sub().unwrap()` sites of the utf-8 crate are unreachable) -/
theorem C08_collector_reject (frags : List Bytes) (h : ¬ WellFormed frags.flatten) :
    collectText frags = .err .utf8 := by
  rw [collectText_eq]
  rcases Collector.feedText_spec frags with ⟨_, h2⟩ | ⟨h1, _⟩
  · exact absurd h2 h
  · exact h1

/-- single-frame text and close reasons use `from_utf8` directly: same predicate -/
theorem C08_single_frame (payload : Bytes) : isUtf8 payload = true ↔ WellFormed payload := by
  unfold isUtf8
  rw [beq_iff_eq]
  exact Utf8.validate_ok_iff payload

/-! ### concrete instances -/

/-- U+1F600 (F0 9F 98 80) cut inside the code point, twice -/
example : collectText [[0xF0], [0x9F, 0x98], [0x80]] = .ok [0xF0, 0x9F, 0x98, 0x80] := rfl

/-- an empty fragment in the middle of a code point changes nothing -/
example : collectText [[0xF0], [], [0x9F, 0x98], [0x80, 0x41]]
    = .ok [0xF0, 0x9F, 0x98, 0x80, 0x41] := rfl

/-- "A😀" ++ "😀\u{80}": the completion consumes one byte, the rest is decoded afresh and leaves
a new incomplete tail that the last fragment completes -/
example : collectText [[0x41, 0xF0, 0x9F, 0x98], [0x80, 0xF0, 0x9F, 0x98, 0x80, 0xC2], [0x80]]
    = .ok [0x41, 0xF0, 0x9F, 0x98, 0x80, 0xF0, 0x9F, 0x98, 0x80, 0xC2, 0x80] := rfl

/-- a message that ends inside a code point is rejected by `into_string` -/
example : collectText [[0x41, 0xF0, 0x9F, 0x98]] = .err .utf8 := rfl

/-- a surrogate (U+D800 = ED A0 80) is rejected, in one piece or cut after the second byte -/
example : collectText [[0xED, 0xA0, 0x80]] = .err .utf8 := rfl
example : collectText [[0xED, 0xA0], [0x80]] = .err .utf8 := rfl
example : collectText [[0xED], [0xA0, 0x80]] = .err .utf8 := rfl

/-- overlong (E0 80, C0) and out-of-range (F4 90) forms are rejected across a boundary -/
example : collectText [[0xE0], [0x80]] = .err .utf8 := rfl
example : collectText [[0xF4], [0x90]] = .err .utf8 := rfl
example : collectText [[0xC0]] = .err .utf8 := rfl

/-- `from_utf8` error reports -/
example : utf8Validate [0x41, 0xF0, 0x9F, 0x98] = .err 1 none := by decide
example : utf8Validate [0x41, 0xF0, 0x9F, 0x41] = .err 1 (some 2) := by decide
example : utf8Validate [0xE0, 0x80] = .err 0 (some 1) := by decide
example : utf8Validate [0xED, 0xA0, 0x80] = .err 0 (some 1) := by decide

/-- the table, the executable table and the scalar encoding on U+1F600 and on a surrogate -/
example : WellFormed [0xF0, 0x9F, 0x98, 0x80] := (C08_wellFormedB_iff _).mp (by decide)
example : encodeScalar 0x1F600 = [0xF0, 0x9F, 0x98, 0x80] := by decide
example : ¬ WellFormed [0xED, 0xA0, 0x80] :=
  fun h => absurd ((C08_wellFormedB_iff _).mpr h) (by decide)

end WsProofs.C08
