import WsModel.Generated.CollGen
import WsProofs.Lemmas.TieCollLemmas

/-! The machine translation of `StringCollector` (`WsModel/Generated/CollGen.lean`) computes exactly
what the hand-written model (`Collector.len` / `extend` / `intoString` in `WsModel/Collect.lean`)
computes: same collector afterwards, same result, for every collector and input. -/
namespace WsProofs.Tie
open WsModel WsModel.Gen WsModel.GenColl

theorem Tie_coll_len (s : Collector) : GenColl.len s = (s, .ok s.len) := by
  unfold GenColl.len Collector.len
  coll_norm
  cases s.incomplete <;> rfl

/-- the second half of the translated `extend` is `Collector.decodeRest` -/
theorem coll_decodeRest (input : Bytes) (s : Collector) :
    (if (!input.isEmpty) = true then
      (match utf8DecodeG input with
        | GR.ok text => (do let _ ← pushStr text; pure ())
        | GR.err (GDecodeErr.incomplete valid_prefix incomplete_suffix) => (do
          let _ ← pushStr valid_prefix
          setIncompleteM (some incomplete_suffix)
          pure ())
        | GR.err (GDecodeErr.invalid valid_prefix _) => (do
          let _ ← pushStr valid_prefix
          throwE Err.utf8)
        | _ => panicAt PanicSite.fuel : M Unit)
    else pure ()) s = ((s.decodeRest input).1, ofRes (s.decodeRest input).2) := by
  unfold Collector.decodeRest utf8DecodeG
  cases input.isEmpty
  · simp only [Bool.not_false, if_true, Bool.false_eq_true, if_false]
    cases utf8Decode input <;> rfl
  · rfl

theorem Tie_coll_extend (tail : Bytes) (s : Collector) :
    GenColl.extend tail s = ((s.extend tail).1, ofRes (s.extend tail).2) := by
  unfold GenColl.extend Collector.extend
  rw [coll_bind_apply]
  simp only [coll_takeIncomplete_apply, sthen_ok]
  cases s with
  | mk data inc =>
  cases inc with
  | none => exact coll_decodeRest tail _
  | some buf =>
    simp only [coll_bind_apply, tryCompleteG]
    cases utf8TryComplete buf tail with
    | still buf' => rfl
    | panic => rfl
    | done ok bytes consumed =>
      cases ok with
      | false => rfl
      | true =>
        simp only [sthen_ok]
        exact coll_decodeRest _ _

theorem Tie_coll_intoString (s : Collector) : GenColl.intoString s = (s, ofRes s.intoString) := by
  unfold GenColl.intoString Collector.intoString
  coll_norm
  cases s.incomplete <;> rfl

end WsProofs.Tie
