import WsModel.Frame
namespace WsProofs.C19
open WsModel WsModel.Gen

/-! ## The bytewise specification -/

theorem applyMaskFrom_length (m : Mask) (off : Nat) (bs : Bytes) :
    (applyMaskFrom m off bs).length = bs.length := by
  induction bs generalizing off with
  | nil => rfl
  | cons b bs ih => simp [applyMaskFrom, ih]

theorem applyMaskFrom_append (m : Mask) (off : Nat) (xs ys : Bytes) :
    applyMaskFrom m off (xs ++ ys)
      = applyMaskFrom m off xs ++ applyMaskFrom m (off + xs.length) ys := by
  induction xs generalizing off with
  | nil => simp [applyMaskFrom]
  | cons x xs ih =>
    simp only [List.cons_append, applyMaskFrom, ih, List.length_cons]
    rw [show off + 1 + xs.length = off + (xs.length + 1) by omega]

/-- `applyMaskFrom` only looks at the key through `Mask.get (off + j)` -/
theorem applyMaskFrom_congr (m m' : Mask) (off off' : Nat) (bs : Bytes)
    (h : ∀ j, m.get (off + j) = m'.get (off' + j)) :
    applyMaskFrom m off bs = applyMaskFrom m' off' bs := by
  induction bs generalizing off off' with
  | nil => rfl
  | cons b bs ih =>
    simp only [applyMaskFrom]
    have h0 := h 0
    simp only [Nat.add_zero] at h0
    rw [h0, ih (off + 1) (off' + 1)]
    intro j
    have := h (j + 1)
    rwa [show off + (j + 1) = off + 1 + j by omega,
      show off' + (j + 1) = off' + 1 + j by omega] at this

theorem Mask.get_mod (m : Mask) (i : Nat) : m.get (i % 4) = m.get i := by
  simp only [Mask.get, Nat.mod_mod]

theorem Mask.get_congr (m : Mask) (i j : Nat) (h : i % 4 = j % 4) : m.get i = m.get j := by
  rw [← Mask.get_mod m i, ← Mask.get_mod m j, h]

/-- `applyMaskFrom m off` depends on `off` only through `off % 4` -/
theorem applyMaskFrom_mod (m : Mask) (off : Nat) (bs : Bytes) :
    applyMaskFrom m (off % 4) bs = applyMaskFrom m off bs := by
  apply applyMaskFrom_congr
  intro j
  apply Mask.get_congr
  omega

theorem applyMaskFrom_getElem? (m : Mask) (off : Nat) (bs : Bytes) (i : Nat)
    (h : i < bs.length) :
    (applyMaskFrom m off bs)[i]? = some (bs[i] ^^^ m.get (off + i)) := by
  induction bs generalizing off i with
  | nil => simp at h
  | cons b bs ih =>
    cases i with
    | zero => simp [applyMaskFrom]
    | succ i =>
      simp only [applyMaskFrom, List.getElem?_cons_succ, List.getElem_cons_succ]
      rw [ih (off + 1) i (by simpa using h)]
      rw [show off + 1 + i = off + (i + 1) by omega]

theorem applyMaskFrom_involution (m : Mask) (off : Nat) (bs : Bytes) :
    applyMaskFrom m off (applyMaskFrom m off bs) = bs := by
  induction bs generalizing off with
  | nil => rfl
  | cons b bs ih =>
    simp only [applyMaskFrom, ih, UInt8.xor_assoc, UInt8.xor_self, UInt8.xor_zero]

/-- masking keeps the length -/
theorem C19_length (m : Mask) (bs : Bytes) : (applyMask m bs).length = bs.length :=
  applyMaskFrom_length m 0 bs

/-- byte i becomes byte i XOR key[i mod 4], and nothing else changes -/
theorem C19_bytewise (m : Mask) (bs : Bytes) (i : Nat) (h : i < bs.length) :
    (applyMask m bs)[i]? = some (bs[i] ^^^ m.get i) := by
  have := applyMaskFrom_getElem? m 0 bs i h
  rwa [Nat.zero_add] at this

/-- applying the mask twice restores the original -/
theorem C19_involution (m : Mask) (bs : Bytes) : applyMask m (applyMask m bs) = bs :=
  applyMaskFrom_involution m 0 bs

/-! ## Bit-level facts about the little-endian word view -/

theorem forall_lt_8 {P : Nat → Prop} (h : P 0 ∧ P 1 ∧ P 2 ∧ P 3 ∧ P 4 ∧ P 5 ∧ P 6 ∧ P 7) :
    ∀ i, i < 8 → P i := by
  intro i hi
  obtain ⟨h0, h1, h2, h3, h4, h5, h6, h7⟩ := h
  rcases (by omega : i = 0 ∨ i = 1 ∨ i = 2 ∨ i = 3 ∨ i = 4 ∨ i = 5 ∨ i = 6 ∨ i = 7) with
    rfl | rfl | rfl | rfl | rfl | rfl | rfl | rfl <;> assumption

theorem forall_lt_32 {P : Nat → Prop}
    (h : (∀ i, i < 8 → P i) ∧ (∀ i, i < 8 → P (i + 8)) ∧ (∀ i, i < 8 → P (i + 16)) ∧
      (∀ i, i < 8 → P (i + 24))) : ∀ i, i < 32 → P i := by
  intro i hi
  obtain ⟨h0, h1, h2, h3⟩ := h
  rcases (by omega : i < 8 ∨ (8 ≤ i ∧ i < 16) ∨ (16 ≤ i ∧ i < 24) ∨ 24 ≤ i) with h | h | h | h
  · exact h0 i h
  · have := h1 (i - 8) (by omega); rwa [show i - 8 + 8 = i by omega] at this
  · have := h2 (i - 16) (by omega); rwa [show i - 16 + 16 = i by omega] at this
  · have := h3 (i - 24) (by omega); rwa [show i - 24 + 24 = i by omega] at this

/-- the little-endian word made of four 8-bit vectors -/
def word4 (a b c d : BitVec 8) : BitVec 32 :=
  a.setWidth 32 ||| (b.setWidth 32 <<< 8) ||| (c.setWidth 32 <<< 16) ||| (d.setWidth 32 <<< 24)

/-- byte `k` (little-endian) of a word, as `wordToMask` extracts it -/
def byte0 (w : BitVec 32) : BitVec 8 := w.setWidth 8
def byte1 (w : BitVec 32) : BitVec 8 := (w >>> 8).setWidth 8
def byte2 (w : BitVec 32) : BitVec 8 := (w >>> 16).setWidth 8
def byte3 (w : BitVec 32) : BitVec 8 := (w >>> 24).setWidth 8

theorem ofNat_mod_toBitVec (x : BitVec 32) :
    UInt8.ofNat (x.toNat % 256) = UInt8.ofBitVec (x.setWidth 8) := by
  apply UInt8.eq_of_toBitVec_eq
  apply BitVec.eq_of_toNat_eq
  simp

theorem ofNat32_toNat (b : UInt8) : BitVec.ofNat 32 b.toNat = b.toBitVec.setWidth 32 := by
  apply BitVec.eq_of_toNat_eq
  simp

theorem toWord_eq (m : Mask) :
    m.toWord = word4 m.b0.toBitVec m.b1.toBitVec m.b2.toBitVec m.b3.toBitVec := by
  simp only [Mask.toWord, word4, ofNat32_toNat]

theorem wordToMask_eq (w : BitVec 32) :
    wordToMask w = ⟨.ofBitVec (byte0 w), .ofBitVec (byte1 w), .ofBitVec (byte2 w),
      .ofBitVec (byte3 w)⟩ := by
  simp only [wordToMask, ofNat_mod_toBitVec, byte0, byte1, byte2, byte3]

theorem word4_byte0 (a b c d : BitVec 8) : byte0 (word4 a b c d) = a := by
  apply BitVec.eq_of_getLsbD_eq
  apply forall_lt_8
  simp [word4, byte0]

theorem word4_byte1 (a b c d : BitVec 8) : byte1 (word4 a b c d) = b := by
  apply BitVec.eq_of_getLsbD_eq
  apply forall_lt_8
  simp [word4, byte1]

theorem word4_byte2 (a b c d : BitVec 8) : byte2 (word4 a b c d) = c := by
  apply BitVec.eq_of_getLsbD_eq
  apply forall_lt_8
  simp [word4, byte2]

theorem word4_byte3 (a b c d : BitVec 8) : byte3 (word4 a b c d) = d := by
  apply BitVec.eq_of_getLsbD_eq
  apply forall_lt_8
  simp [word4, byte3]

theorem byte0_xor (x y : BitVec 32) : byte0 (x ^^^ y) = byte0 x ^^^ byte0 y := by
  apply BitVec.eq_of_getLsbD_eq
  apply forall_lt_8
  simp [byte0]

theorem byte1_xor (x y : BitVec 32) : byte1 (x ^^^ y) = byte1 x ^^^ byte1 y := by
  apply BitVec.eq_of_getLsbD_eq
  apply forall_lt_8
  simp [byte1]

theorem byte2_xor (x y : BitVec 32) : byte2 (x ^^^ y) = byte2 x ^^^ byte2 y := by
  apply BitVec.eq_of_getLsbD_eq
  apply forall_lt_8
  simp [byte2]

theorem byte3_xor (x y : BitVec 32) : byte3 (x ^^^ y) = byte3 x ^^^ byte3 y := by
  apply BitVec.eq_of_getLsbD_eq
  apply forall_lt_8
  simp [byte3]

theorem word4_rot8 (a b c d : BitVec 8) : (word4 a b c d).rotateRight 8 = word4 b c d a := by
  apply BitVec.eq_of_getLsbD_eq
  apply forall_lt_32
  refine ⟨?_, ?_, ?_, ?_⟩ <;> apply forall_lt_8 <;> simp [word4]

theorem word4_rot16 (a b c d : BitVec 8) : (word4 a b c d).rotateRight 16 = word4 c d a b := by
  apply BitVec.eq_of_getLsbD_eq
  apply forall_lt_32
  refine ⟨?_, ?_, ?_, ?_⟩ <;> apply forall_lt_8 <;> simp [word4]

theorem word4_rot24 (a b c d : BitVec 8) : (word4 a b c d).rotateRight 24 = word4 d a b c := by
  apply BitVec.eq_of_getLsbD_eq
  apply forall_lt_32
  refine ⟨?_, ?_, ?_, ?_⟩ <;> apply forall_lt_8 <;> simp [word4]

theorem wordToMask_word4 (a b c d : BitVec 8) :
    wordToMask (word4 a b c d) = ⟨.ofBitVec a, .ofBitVec b, .ofBitVec c, .ofBitVec d⟩ := by
  rw [wordToMask_eq, word4_byte0, word4_byte1, word4_byte2, word4_byte3]

/-- `to_ne_bytes (from_ne_bytes key) = key` -/
theorem wordToMask_toWord (m : Mask) : wordToMask m.toWord = m := by
  rw [toWord_eq, wordToMask_word4]

/-- rotating the key word right by one byte rotates the key by one position -/
theorem wordToMask_rot8 (m : Mask) :
    wordToMask (m.toWord.rotateRight 8) = ⟨m.b1, m.b2, m.b3, m.b0⟩ := by
  rw [toWord_eq, word4_rot8, wordToMask_word4]

theorem wordToMask_rot16 (m : Mask) :
    wordToMask (m.toWord.rotateRight 16) = ⟨m.b2, m.b3, m.b0, m.b1⟩ := by
  rw [toWord_eq, word4_rot16, wordToMask_word4]

theorem wordToMask_rot24 (m : Mask) :
    wordToMask (m.toWord.rotateRight 24) = ⟨m.b3, m.b0, m.b1, m.b2⟩ := by
  rw [toWord_eq, word4_rot24, wordToMask_word4]

theorem ofBitVec_xor (a : UInt8) (x : BitVec 8) :
    UInt8.ofBitVec (a.toBitVec ^^^ x) = a ^^^ UInt8.ofBitVec x := by
  apply UInt8.eq_of_toBitVec_eq
  simp

/-- XOR-ing one aligned word with `w` XORs its four bytes with the four bytes of `w` -/
theorem wordToBytes_xor (a b c d : UInt8) (w : BitVec 32) :
    wordToBytes (bytesToWord a b c d ^^^ w)
      = [a ^^^ (wordToMask w).b0, b ^^^ (wordToMask w).b1,
         c ^^^ (wordToMask w).b2, d ^^^ (wordToMask w).b3] := by
  simp only [wordToBytes, bytesToWord, Mask.toBytes, wordToMask_eq, toWord_eq,
    byte0_xor, byte1_xor, byte2_xor, byte3_xor,
    word4_byte0, word4_byte1, word4_byte2, word4_byte3]
  simp only [ofBitVec_xor]

/-! ## The key selected by the fast path -/

/-- the rotated key word used after `head` unaligned bytes -/
def fastWord (m : Mask) (head : Nat) : BitVec 32 :=
  if head > 0 then (Mask.toWord m).rotateRight (8 * head) else Mask.toWord m

/-- for every rotation amount the word's key is the original key shifted by `head` positions -/
theorem fastWord_get (m : Mask) (head : Nat) (hh : head < 4) (j : Nat) :
    (wordToMask (fastWord m head)).get j = m.get (j + head) := by
  have hj : j % 4 = 0 ∨ j % 4 = 1 ∨ j % 4 = 2 ∨ j % 4 = 3 := by omega
  rcases (by omega : head = 0 ∨ head = 1 ∨ head = 2 ∨ head = 3) with rfl | rfl | rfl | rfl
  · simp only [fastWord, Nat.lt_irrefl, if_false, wordToMask_toWord, Nat.add_zero]
  · simp only [fastWord, wordToMask_rot8, Nat.reduceMul, Nat.reduceGT, if_true]
    rcases hj with h | h | h | h
    · simp only [Mask.get, h, show (j + 1) % 4 = 1 by omega]
    · simp only [Mask.get, h, show (j + 1) % 4 = 2 by omega]
    · simp only [Mask.get, h, show (j + 1) % 4 = 3 by omega]
    · simp only [Mask.get, h, show (j + 1) % 4 = 0 by omega]
  · simp only [fastWord, wordToMask_rot16, Nat.reduceMul, Nat.reduceGT, if_true]
    rcases hj with h | h | h | h
    · simp only [Mask.get, h, show (j + 2) % 4 = 2 by omega]
    · simp only [Mask.get, h, show (j + 2) % 4 = 3 by omega]
    · simp only [Mask.get, h, show (j + 2) % 4 = 0 by omega]
    · simp only [Mask.get, h, show (j + 2) % 4 = 1 by omega]
  · simp only [fastWord, wordToMask_rot24, Nat.reduceMul, Nat.reduceGT, if_true]
    rcases hj with h | h | h | h
    · simp only [Mask.get, h, show (j + 3) % 4 = 3 by omega]
    · simp only [Mask.get, h, show (j + 3) % 4 = 0 by omega]
    · simp only [Mask.get, h, show (j + 3) % 4 = 1 by omega]
    · simp only [Mask.get, h, show (j + 3) % 4 = 2 by omega]

/-! ## The word loop -/

/-- the word loop over exactly `n` whole words is the bytewise mask with the word's key -/
theorem xorWords_eq (w : BitVec 32) (n : Nat) (bs : Bytes) (h : bs.length = 4 * n) :
    xorWords w n bs = applyMaskFrom (wordToMask w) 0 bs := by
  induction n generalizing bs with
  | zero =>
    have : bs = [] := List.eq_nil_of_length_eq_zero (by omega)
    subst this
    rfl
  | succ n ih =>
    match bs, h with
    | a :: b :: c :: d :: rest, h =>
      have hr : rest.length = 4 * n := by simp only [List.length_cons] at h; omega
      have h4 : applyMaskFrom (wordToMask w) 4 rest = applyMaskFrom (wordToMask w) 0 rest := by
        apply applyMaskFrom_congr
        intro j
        apply Mask.get_congr
        omega
      simp only [xorWords, wordToBytes_xor, ih rest hr, applyMaskFrom, h4]
      simp [Mask.get]
    | [], h => simp only [List.length_nil] at h; omega
    | [_], h => simp only [List.length_cons, List.length_nil] at h; omega
    | [_, _], h => simp only [List.length_cons, List.length_nil] at h; omega
    | [_, _, _], h => simp only [List.length_cons, List.length_nil] at h; omega

/-! ## The fast path -/

theorem fast_core (m : Mask) (p mid suf : Bytes) (words : Nat) (hmid : mid.length = 4 * words) :
    applyMask m p ++ xorWords (fastWord m (p.length % 4)) words mid
        ++ applyMask (wordToMask (fastWord m (p.length % 4))) suf
      = applyMask m (p ++ mid ++ suf) := by
  have hh : p.length % 4 < 4 := Nat.mod_lt _ (by decide)
  simp only [applyMask, applyMaskFrom_append, Nat.zero_add, List.length_append, hmid]
  rw [xorWords_eq _ _ _ hmid]
  congr 1
  · congr 1
    apply applyMaskFrom_congr
    intro j
    rw [fastWord_get m _ hh]
    apply Mask.get_congr
    omega
  · apply applyMaskFrom_congr
    intro j
    rw [fastWord_get m _ hh]
    apply Mask.get_congr
    omega

/-- the word-wise fast path equals the bytewise specification for EVERY split into
(unaligned prefix, whole words, suffix), not only the one `align_to_mut` happens to pick -/
theorem C19_fast_eq_spec (pre words : Nat) (m : Mask) (bs : Bytes)
    (h : pre + 4 * words ≤ bs.length) : applyMaskFast pre words m bs = applyMask m bs := by
  have hp : (bs.take pre).length = pre := by rw [List.length_take]; omega
  have hmid : ((bs.drop pre).take (4 * words)).length = 4 * words := by
    rw [List.length_take, List.length_drop]; omega
  have hbs : bs.take pre ++ (bs.drop pre).take (4 * words) ++ (bs.drop pre).drop (4 * words)
      = bs := by
    rw [List.append_assoc, List.take_append_drop, List.take_append_drop]
  have := fast_core m (bs.take pre) ((bs.drop pre).take (4 * words))
    ((bs.drop pre).drop (4 * words)) words hmid
  rw [hp, hbs] at this
  exact this

/-! ## The two encoders -/

/-- encoding into the shared write buffer leaves the bytes already in the buffer untouched
and appends exactly what the stand-alone encoder produces -/
theorem C19_format_into_buf (f : Frame) (buf : Bytes) : f.formatIntoBuf buf = buf ++ f.format := by
  unfold Frame.formatIntoBuf Frame.format
  cases f.header.mask with
  | none => simp only [List.append_assoc]
  | some m =>
    simp only [List.take_left, List.drop_left]
    rw [List.append_assoc]

theorem C19_format_into_buf_prefix (f : Frame) (buf : Bytes) :
    (f.formatIntoBuf buf).take buf.length = buf := by
  rw [C19_format_into_buf, List.take_left']
  rfl

/-- the server read path: unmasking what the client masked gives back the payload -/
theorem C19_unmask_roundtrip (m : Mask) (payload : Bytes) :
    applyMask m (applyMask m payload) = payload :=
  C19_involution m payload

/-! ## Concrete instances -/

/-- a 7-byte buffer, 1 unaligned byte, 1 whole word, 2 trailing bytes -/
example :
    applyMaskFast 1 1 ⟨0x11, 0x22, 0x33, 0x44⟩ [1, 2, 3, 4, 5, 6, 7]
      = [1 ^^^ 0x11, 2 ^^^ 0x22, 3 ^^^ 0x33, 4 ^^^ 0x44, 5 ^^^ 0x11, 6 ^^^ 0x22, 7 ^^^ 0x33] := by
  decide

example :
    applyMaskFast 1 1 ⟨0x11, 0x22, 0x33, 0x44⟩ [1, 2, 3, 4, 5, 6, 7]
      = [0x10, 0x20, 0x30, 0x40, 0x14, 0x24, 0x34] := by
  decide

/-- the split need not be the aligned one: 3 unaligned bytes, 1 word, 0 trailing -/
example :
    applyMaskFast 3 1 ⟨0xde, 0xad, 0xbe, 0xef⟩ [0, 0, 0, 0, 0, 0, 0]
      = [0xde, 0xad, 0xbe, 0xef, 0xde, 0xad, 0xbe] := by
  decide

end WsProofs.C19
