import WsModel.Generated.HdrGen
import WsProofs.Lemmas.TieHdrLemmas

/-! The machine translation of `FrameHeader::{parse_internal, parse, format}`
(`WsModel/Generated/HdrGen.lean`) computes exactly what the hand-written header model
(`WsModel/Header.lean`, the subject of the C18 theorems) computes: the same result for every
cursor, the same cursor position after a header or an incomplete read, the same bytes appended
for every header and length. -/
namespace WsProofs.Tie
open WsModel WsModel.Gen WsModel.GenHdr

/-- the `Result<Option<(FrameHeader, u64)>>` that corresponds to a `ParseRes` of the hand model -/
def parseResOf : ParseRes → Res (Option (Header × Nat))
  | .header h len _ => .ok (some (h, len))
  | .incomplete => .ok none
  | .error e => .err e
  | .panic p => .panic p

section
open WsProofs.C18

set_option hygiene false in
macro "hd_finish" p:term : tactic => `(tactic| (
  refine ⟨$p, ?_, ?_⟩
  · rcases o with (_|_|_|_) | (_|_|_|_) <;>
      simp only [Header.parseFinish, isReservedOpcode, parseResOf, if_true, Bool.false_eq_true,
        if_false, hd_bind_apply, hd_pure_apply, hd_throwE_apply, hd_then_ok, hd_then_err] <;> rfl
  · rcases o with (_|_|_|_) | (_|_|_|_) <;>
      simp only [Header.parseFinish, isReservedOpcode, if_true, Bool.false_eq_true, if_false] <;>
      intro hd len used hh <;> first | (cases hh; omega) | cases hh))

set_option hygiene false in
macro "hd_tail" hr:term "," p:term : tactic => `(tactic| (
  by_cases hm : (b &&& 128 != 0) = true
  · have hm' : ((b &&& UInt8.ofNat parseBitMasked) != 0) = true := hm
    rw [if_pos hm]
    rcases shape4 _ with hl | ⟨m0, m1, m2, m3, t, hsh⟩
    · obtain ⟨bs, hcr⟩ := cursorRead_short' (n := 4) $hr hl
      have hne : (List.length _ != 4) = true := bne_iff_ne.mpr (Nat.ne_of_lt hl)
      simp only [hcr, hd_then_ok]
      rw [if_pos hne, parseMask_short hm' hl]
      exact ⟨_, rfl, by intro _ _ _ hh; cases hh⟩
    · have hr4 := $hr
      rw [hsh] at hr4
      simp only [cursorRead4 hr4, hd_then_ok, show ((4 : Nat) != 4) = false from rfl,
        Bool.false_eq_true, if_false, Option.map_some]
      rw [hsh, parseMask_masked hm']
      hd_finish ($p + 4)
  · have hm0 : (b &&& 128 != 0) = false := by simpa only [Bool.not_eq_true] using hm
    have hm' : ((b &&& UInt8.ofNat parseBitMasked) != 0) = false := hm0
    rw [if_neg hm, parseMask_unmasked hm']
    hd_finish $p))

set_option hygiene false in
macro "hd_ext" k:num "," z:num : tactic => `(tactic| (
  have hk' : lfExtraBytes (lfForByte (b &&& 127).toNat) = $k := hk
  rw [parseLen_ext hk (by omega) (by omega)]
  simp only [hk', show decide ($k > 0) = true from rfl,
    show (!decide ($k ≤ sizeOfU64)) = false from rfl, if_true, Bool.false_eq_true, if_false,
    show List.drop (sizeOfU64 - $k) (zeros sizeOfU64) = zeros $k from rfl,
    show List.take (sizeOfU64 - $k) (zeros sizeOfU64) = zeros $z from rfl]
  have hzl : (zeros $k).length = $k := rfl
  by_cases hlen : rest'.length < $k
  · rw [if_pos hlen]
    have hlen' : ({ data := s.data, pos := s.pos + 2, out := s.out } : St).rest.length
        < (zeros $k).length := by rw [hr1, hzl]; exact hlen
    simp only [cursorReadExact_eof hlen', hd_then_ok, hd_pure_apply]
    exact ⟨_, rfl, by intro _ _ _ hh; cases hh⟩
  · rw [if_neg hlen]
    have hlen' : ¬ ({ data := s.data, pos := s.pos + 2, out := s.out } : St).rest.length
        < (zeros $k).length := by rw [hr1, hzl]; exact hlen
    have hr2 : ({ data := s.data, pos := s.pos + 2 + $k, out := s.out } : St).rest
        = rest'.drop $k := rest_advance_drop hr1 $k hlen
    hd_norm [cursorReadExact_done hlen', beNat_zeros, hr1, hzl]
    hd_tail hr2, (s.pos + 2 + $k)))

theorem pi_cons (s : St) (a b : UInt8) (rest' : Bytes) (h : s.rest = a :: b :: rest') :
    ∃ p, GenHdr.parseInternal s = ({ s with pos := p }, parseResOf (Header.parse (a :: b :: rest'))) ∧
      ∀ hd len used, Header.parse (a :: b :: rest') = .header hd len used → p = s.pos + used := by
  unfold GenHdr.parseInternal
  have hr1 : ({ data := s.data, pos := s.pos + 2, out := s.out } : St).rest = rest' :=
    rest_advance (xs := [a, b]) h 2 rfl
  have e0 : ([a, b] : Bytes)[0]! = a := rfl
  have e1 : ([a, b] : Bytes)[1]! = b := rfl
  have e22 : ((2 : Nat) != 2) = false := rfl
  cases hop : opCodeOfU8 (a &&& UInt8.ofNat opcodeMask).toNat with
  | none =>
    have hop' : opCodeOfU8 (a &&& 15).toNat = none := hop
    rw [parse_cons_none hop]
    refine ⟨s.pos + 2, ?_, ?_⟩
    · hd_norm [cursorRead2 h, e0, e1, e22, Bool.false_eq_true, if_false, hd_opCodeFromByte_none hop']
      rfl
    · intro hd len used hh; cases hh
  | some o =>
    have hop' : opCodeOfU8 (a &&& 15).toNat = some o := hop
    rw [parse_cons_some hop]
    hd_norm [cursorRead2 h, e0, e1, e22, Bool.false_eq_true, if_false, hd_opCodeFromByte_some hop']
    rcases lenByte_cases b with ⟨hlt, hk⟩ | ⟨heq, hk⟩ | ⟨heq, hk⟩
    · have hk' : lfExtraBytes (lfForByte (b &&& 127).toNat) = 0 := hk
      rw [parseLen_zero hk]
      simp only [hk', show decide (0 > 0) = false from rfl, Bool.false_eq_true, if_false]
      hd_tail hr1, (s.pos + 2)
    · hd_ext 2, 6
    · hd_ext 8, 0

end

theorem pi_short (s : St) (hl : s.rest.length < 2) :
    ∃ p, GenHdr.parseInternal s = ({ s with pos := p }, Res.ok none) := by
  obtain ⟨bs, hcr⟩ := cursorRead_short (n := 2) hl
  unfold GenHdr.parseInternal
  hd_norm [hcr]
  rw [if_pos (bne_iff_ne.mpr (Nat.ne_of_lt hl))]
  exact ⟨_, rfl⟩

theorem pi_all (s : St) :
    ∃ p, GenHdr.parseInternal s = ({ s with pos := p }, parseResOf (Header.parse s.rest)) ∧
      ∀ hd len used, Header.parse s.rest = .header hd len used → p = s.pos + used := by
  rcases hs : s.rest with _ | ⟨a, _ | ⟨b, r⟩⟩
  · obtain ⟨p, hp⟩ := pi_short s (by rw [hs]; decide)
    exact ⟨p, hp, by intro _ _ _ hh; cases hh⟩
  · obtain ⟨p, hp⟩ := pi_short s (by rw [hs]; simp only [List.length_cons, List.length_nil]; omega)
    exact ⟨p, hp, by intro _ _ _ hh; cases hh⟩
  · exact pi_cons s a b r hs

theorem parse_all (s : St) :
    ∃ p, GenHdr.parse s = ({ s with pos := p }, parseResOf (Header.parse s.rest)) ∧
      (∀ hd len used, Header.parse s.rest = .header hd len used → p = s.pos + used) ∧
      (Header.parse s.rest = .incomplete → p = s.pos) := by
  obtain ⟨p, he, hu⟩ := pi_all s
  unfold GenHdr.parse
  hd_norm
  rw [he]
  cases hh : Header.parse s.rest with
  | header hd len used =>
    rw [hh] at hu
    exact ⟨p, rfl, hu, (by intro h; cases h)⟩
  | incomplete => exact ⟨s.pos, rfl, (by intro _ _ _ h; cases h), fun _ => rfl⟩
  | error e => exact ⟨p, rfl, (by intro _ _ _ h; cases h), (by intro h; cases h)⟩
  | panic q => exact ⟨p, rfl, (by intro _ _ _ h; cases h), (by intro h; cases h)⟩

theorem Tie_hdr_parseInternal_result (s : St) :
    (GenHdr.parseInternal s).2 = parseResOf (Header.parse s.rest) := by
  obtain ⟨p, he, _⟩ := pi_all s
  rw [he]

theorem Tie_hdr_parseInternal_state (s : St) (h : Header) (len used : Nat)
    (hp : Header.parse s.rest = .header h len used) :
    (GenHdr.parseInternal s).1 = { s with pos := s.pos + used } := by
  obtain ⟨p, he, hu⟩ := pi_all s
  rw [he, hu _ _ _ hp]

theorem Tie_hdr_parse_result (s : St) :
    (GenHdr.parse s).2 = parseResOf (Header.parse s.rest) := by
  obtain ⟨p, he, _⟩ := parse_all s
  rw [he]

/-- after a header the cursor has advanced by exactly the bytes the hand model says were used -/
theorem Tie_hdr_parse_state_header (s : St) (h : Header) (len used : Nat)
    (hp : Header.parse s.rest = .header h len used) :
    (GenHdr.parse s).1 = { s with pos := s.pos + used } := by
  obtain ⟨p, he, hu, _⟩ := parse_all s
  rw [he, hu _ _ _ hp]

/-- an incomplete header consumes nothing -/
theorem Tie_hdr_parse_state_incomplete (s : St) (hp : Header.parse s.rest = .incomplete) :
    (GenHdr.parse s).1 = s := by
  obtain ⟨p, he, _, hi⟩ := parse_all s
  rw [he, hi hp]

/-- the decoder never touches the data or the output -/
theorem Tie_hdr_parse_frame (s : St) :
    (GenHdr.parse s).1.data = s.data ∧ (GenHdr.parse s).1.out = s.out := by
  obtain ⟨p, he, _⟩ := parse_all s
  rw [he]
  exact ⟨rfl, rfl⟩

theorem Tie_hdr_format (h : Header) (len : Nat) (s : St) :
    GenHdr.format h len s = ({ s with out := s.out ++ h.format len }, .ok ()) := by
  unfold GenHdr.format Header.format Header.firstByte Header.secondByte Header.extLen Header.maskBytes
  have e16 : beBytes 2 (len % 65536) = beBytes 2 len := beBytes_mod 2 len
  cases h with
  | mk fin r1 r2 r3 op mask =>
  cases hlf : lfForLength len <;> cases mask <;>
    hd_norm [e16, List.append_assoc, List.append_nil, Option.isSome] <;> rfl

/-- the hypotheses of the state theorems are met by concrete cursors: a masked text header at
offset 2 of the data, and a header cut inside its mask key -/
example : Header.parse (St.rest ⟨[7, 7, 0x81, 0x85, 1, 2, 3, 4, 5], 2, []⟩) =
    .header { fin := true, rsv1 := false, rsv2 := false, rsv3 := false, opcode := .data .text,
              mask := some ⟨1, 2, 3, 4⟩ } 5 6 := by decide
example : Header.parse (St.rest ⟨[0x81, 0x85, 1, 2, 3], 0, []⟩) = .incomplete := by decide
example : (GenHdr.parse ⟨[7, 7, 0x81, 0x85, 1, 2, 3, 4, 5], 2, []⟩).1.pos = 8 := by decide

end WsProofs.Tie
