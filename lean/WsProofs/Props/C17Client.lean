import WsModel.Handshake.Run
import WsProofs.Lemmas.HistClientRun

/-! # C17 — the client handshake is schedule independent

The client-side analogue of `C17_server_schedule_independent`: over any transport that only
segments and delays, the client handshake writes exactly its request, once, and ends as
`verifyResponse` decides on the response head, handing every byte received beyond the head to the
socket as pre-read data. Proof: the loop invariant `ClInv` of `HistClientRun` (same machine and same
structure as `HsServerRun`; the writing stage comes first). -/
namespace WsProofs.C17
open WsModel WsModel.Hs WsModel.Gen WsProofs.HsL

/-- what a client handshake must do: write exactly the request, then judge the response head -/
def clientSpec (vd : VerifyData) (h : RawHead) (tail : Bytes) : Outcome Bytes :=
  match verifyResponse vd h tail with
  | .ok () => .done tail
  | .error e => .failed e

theorem clientSpec_eq (vd : VerifyData) (h : RawHead) (tail : Bytes) : clientSpec vd h tail = cSpec vd h tail := rfl

/-- however few bytes each write accepts and however often write / flush / read block, and however
the transport segments the response head (short of tripping the guard): the client handshake is
either still interrupted having written a prefix of its request, or it has written exactly the
request and ended as `verifyResponse` decides, handing every byte received beyond the head to the
socket as pre-read data.

The read script is described by `hdata`: its first `n` events deliver `S ++ extra`, fewer events
deliver less than the head `S` — i.e. the `n`-th event is the chunk that completes the head, and it
carries `extra` (possibly empty) as well. `hstable`: the parser reports the same complete head when
more bytes follow it (an assumption about httparse, checked on the real crate).

Against the first formulation: the bound `req.length < 400` is dropped (not needed: `hsFuel` counts
the bytes still to write); the `done` branch says `tail = extra` exactly; the `failed` branch says
which error: that of `clientSpec vd h extra`. -/
theorem C17_client_schedule_independent (parse : Bytes → HeadParse) (vd : VerifyData) (req : Bytes)
    (hreq : req ≠ [])
    (S extra : Bytes) (h : RawHead) (hne : S ≠ [])
    (hhead : HeadOf parse S h) (hstable : ∀ more, parse (S ++ more) = .complete S.length h)
    (t : Transport) (hb : Transport.Benign t) (hacc : t.accepted = [])
    (hdata : ∃ n, hsData (t.rd.take n) = S ++ extra ∧ ∀ k, k < n → (hsData (t.rd.take k)).length < S.length)
    (hguard : guardOk {} t.rd = true) (n : Nat) :
    let r := clientRun parse n { verify := vd, state := .writing req } t
    (r.2.2 = .interrupted ∧ ∃ rest, req = r.1.accepted ++ rest) ∨
    (r.1.accepted = req ∧
      ((r.2.2 = .done extra ∧ clientSpec vd h extra = .done extra) ∨
       (∃ e, r.2.2 = .failed e ∧ clientSpec vd h extra = .failed e))) := by
  intro r
  have hinv : ClInv vd req S extra { verify := vd, state := .writing req } t := by
    obtain ⟨k, h1, h2⟩ := hdata
    exact cinv_start hreq hne hb hacc ⟨k, h1, h2, guardOk_take _ _ _ hguard⟩
  have := clientRun_result hhead hstable n _ t hinv
  simp only [clientSpec_eq]
  exact this

/-- the same with the guard hypothesis restricted to the events up to the one that completes the
head (what follows the head in the script is not constrained by the handshake's guard) -/
theorem client_schedule_independent_guard_prefix (parse : Bytes → HeadParse) (vd : VerifyData) (req : Bytes)
    (hreq : req ≠ [])
    (S extra : Bytes) (h : RawHead) (hne : S ≠ [])
    (hhead : HeadOf parse S h) (hstable : ∀ more, parse (S ++ more) = .complete S.length h)
    (t : Transport) (hb : Transport.Benign t) (hacc : t.accepted = [])
    (hdata : ∃ n, hsData (t.rd.take n) = S ++ extra ∧
      (∀ k, k < n → (hsData (t.rd.take k)).length < S.length) ∧ guardOk {} (t.rd.take n) = true)
    (n : Nat) :
    let r := clientRun parse n { verify := vd, state := .writing req } t
    (r.2.2 = .interrupted ∧ ∃ rest, req = r.1.accepted ++ rest) ∨
    (r.1.accepted = req ∧
      ((r.2.2 = .done extra ∧ clientSpec vd h extra = .done extra) ∨
       (∃ e, r.2.2 = .failed e ∧ clientSpec vd h extra = .failed e))) := by
  intro r
  have := clientRun_result hhead hstable n _ t (cinv_start (vd := vd) hreq hne hb hacc hdata)
  simp only [clientSpec_eq]
  exact this

/-! ### concrete instances (non-vacuity) -/

/-- a response head that `verifyResponse` accepts for the key "AB" -/
def cliHead : RawHead :=
  { code := 101
    headers := [(cliUpgradeName, cliUpgradeValue), (cliConnectionName, cliConnectionValue), (cliAcceptName, [65, 66])] }

def cliVd : VerifyData := { acceptKey := [65, 66], subprotocols := none }
def cliVdBad : VerifyData := { acceptKey := [65, 67], subprotocols := none }

/-- a stand-in for `httparse`: the head is the first three bytes -/
def cliParse (b : Bytes) : HeadParse := if b.length < 3 then .incomplete else .complete 3 cliHead

/-- the request goes out 2 bytes, blocked, 1 byte, then 2 at a time; the first flush blocks; the head
`[1, 2, 3]` arrives in two pieces with a `WouldBlock` between, the second piece carrying the two
further bytes `[9, 8]`; one more chunk follows -/
def cliT : Transport :=
  { rd := [.data [1], .err .wouldBlock, .data [2, 3, 9, 8], .data [7]], wr := [.accept 2, .err .wouldBlock, .accept 1],
    fl := [.err .wouldBlock], wrDef := .accept 2 }

def cliReq : Bytes := [5, 5, 5, 5, 5, 5, 5]

theorem cliHeadOf : HeadOf cliParse [1, 2, 3] cliHead := ⟨by decide, by decide⟩
theorem cliStable : ∀ more, cliParse ([1, 2, 3] ++ more) = .complete ([1, 2, 3] : Bytes).length cliHead := by
  intro more
  simp [cliParse]
theorem cliBenign : Transport.Benign cliT := by unfold Transport.Benign; decide

/-- the hypotheses of the theorem are satisfiable, for every number of resumptions and both verdicts -/
example (n : Nat) := C17_client_schedule_independent cliParse cliVd cliReq (by decide) [1, 2, 3] [9, 8] cliHead
  (by decide) cliHeadOf cliStable cliT cliBenign rfl ⟨3, by decide, by decide⟩ (by decide) n
example (n : Nat) := C17_client_schedule_independent cliParse cliVdBad cliReq (by decide) [1, 2, 3] [9, 8] cliHead
  (by decide) cliHeadOf cliStable cliT cliBenign rfl ⟨3, by decide, by decide⟩ (by decide) n

/-- … and all alternatives occur: after 1 resumption 2 bytes are out, after 2 the whole request (the
flush blocked), after 4 the handshake is done with the two extra bytes handed on as pre-read data -/
example : (clientRun cliParse 1 ⟨cliVd, .writing cliReq⟩ cliT).1.accepted = [5, 5] := by decide +kernel
example : (clientRun cliParse 1 ⟨cliVd, .writing cliReq⟩ cliT).2.2 matches .interrupted := by decide +kernel
example : (clientRun cliParse 2 ⟨cliVd, .writing cliReq⟩ cliT).1.accepted = cliReq := by decide +kernel
example : (clientRun cliParse 2 ⟨cliVd, .writing cliReq⟩ cliT).2.2 matches .interrupted := by decide +kernel
example : (clientRun cliParse 4 ⟨cliVd, .writing cliReq⟩ cliT).1.accepted = cliReq := by decide +kernel
example : (clientRun cliParse 4 ⟨cliVd, .writing cliReq⟩ cliT).2.2 matches .done [9, 8] := by decide +kernel
example : clientSpec cliVd cliHead [9, 8] matches .done [9, 8] := by decide +kernel
example : (clientRun cliParse 4 ⟨cliVdBad, .writing cliReq⟩ cliT).2.2 matches .failed .secWebSocketAcceptKeyMismatch := by
  decide +kernel
example : clientSpec cliVdBad cliHead [9, 8] matches .failed .secWebSocketAcceptKeyMismatch := by decide +kernel

/-- `hne` is needed, as for the server: if the empty string counted as a head, `hdata` (with `n = 0`,
`extra = []`) would say nothing about the script; here the handshake hands on `[1]`, not `extra` -/
def cliConstParse (_ : Bytes) : HeadParse := .complete 0 cliHead
example : HeadOf cliConstParse [] cliHead := ⟨rfl, fun k hk => absurd hk (Nat.not_lt_zero k)⟩
example : ∀ more, cliConstParse ([] ++ more) = .complete ([] : Bytes).length cliHead := fun _ => rfl
example : hsData (([.data [1]] : List RdEv).take 0) = [] ++ [] := rfl
example : (clientRun cliConstParse 1 ⟨cliVd, .writing cliReq⟩ { rd := [.data [1]], wr := [], fl := [] }).2.2
    matches .done [1] := by decide +kernel

end WsProofs.C17
