import WsModel.Endpoint
import WsProofs.Lemmas.LocalCodec
import WsProofs.Lemmas.LocalWorld

/-! # C11 — pings are answered (local part)

`World.onControl … .ping` (`read_message_frame`, Ping arm), `World.readPre` (top of the `read`
loop), `World.flush` (`WebSocketContext::flush`). -/
namespace WsProofs.C11
open WsModel WsModel.Gen WsProofs.Local

theorem C11_pong_queued (w : World) (frame : Frame) (hact : w.c.state = .active)
    (hfin : frame.header.fin = true) (hlen : frame.payload.length ≤ 125)
    (hslot : ∀ f, w.c.additional = some f → f.isPong = true) :
    w.onControl frame .ping =
      (w.setAdditionalRaw (some (Frame.pong frame.payload)), .ok (some (.ping frame.payload))) := by
  unfold World.onControl
  rw [if_neg (by rw [hfin]; decide), if_neg (by omega)]
  dsimp only
  rw [hact]
  have hsa : w.setAdditional (Frame.pong frame.payload) =
      w.setAdditionalRaw (some (Frame.pong frame.payload)) := by
    unfold World.setAdditional
    cases h : w.c.additional with
    | none => rfl
    | some f => dsimp only; rw [if_pos (hslot f h)]
  rw [hsa]
  rfl

theorem C11_no_pong_once_closing (w : World) (frame : Frame) (h : w.c.state ≠ .active) :
    (w.onControl frame .ping).1 = w := by
  unfold World.onControl
  by_cases h1 : (!frame.header.fin) = true
  · rw [if_pos h1]
  · rw [if_neg h1]
    by_cases h2 : frame.payload.length > 125
    · rw [if_pos h2]
    · rw [if_neg h2]
      dsimp only
      have hia : w.c.state.isActive = false := by
        cases hs : w.c.state with
        | active => exact absurd hs h
        | _ => rfl
      rw [hia]
      rfl

/-- a blocked write or flush while reading postpones the reply, sets the retry flag, and reading goes on -/
theorem C11_read_continues (w : World) (h : (w.flush).2 = .err (.io .wouldBlock))
    (hp : w.c.additional.isSome = true ∨ w.c.unflushed = true) :
    w.readPre = ((w.flush).1.setUnflushed true, .ok ()) := by
  unfold World.readPre
  rw [if_pos hp]
  cases hf : w.flush with
  | mk w' r =>
    rw [hf] at h
    dsimp only at h
    subst h
    rfl

theorem C11_read_pre_never_blocks (w : World) : (w.readPre).2 ≠ .err (.io .wouldBlock) := by
  unfold World.readPre
  by_cases hp : w.c.additional.isSome = true ∨ w.c.unflushed = true
  · rw [if_pos hp]
    cases hf : w.flush with
    | mk w' r =>
      cases r with
      | ok u => cases u; exact nofun
      | panic s => exact nofun
      | err e =>
        cases e with
        | io k =>
          cases k with
          | wouldBlock => exact nofun
          | _ => exact nofun
        | _ => exact nofun
  · rw [if_neg hp]
    by_cases hc : w.c.role = .server ∧ (!w.c.state.canRead) = true
    · rw [if_pos hc]; exact nofun
    · rw [if_neg hc]; exact nofun

/-- inversion of a successful `flush` into its five steps -/
theorem flush_ok_inv (w : World) (hok : (w.flush).2 = .ok ()) :
    ∃ w1 b1 w2 w3 w4,
      w.writeSlot = (w1, .ok b1) ∧ w1.writeOutBuffer = (w2, .ok ()) ∧
      w2.flushRetry = (w3, .ok ()) ∧ w3.streamFlush = (w4, .ok ()) ∧
      w.flush = (w4.setUnflushed false, .ok ()) := by
  unfold World.flush at hok ⊢
  by_cases hc : (!w.c.state.notTerminated) = true
  · rw [if_pos hc] at hok; exact nomatch hok
  · rw [if_neg hc] at hok ⊢
    obtain ⟨w1, b1, h1, e1⟩ := andThen_ok_inv _ _ _ hok
    rw [e1] at hok ⊢
    obtain ⟨w2, u2, h2, e2⟩ := andThen_ok_inv _ _ _ hok
    rw [e2] at hok ⊢
    obtain ⟨w3, u3, h3, e3⟩ := andThen_ok_inv _ _ _ hok
    rw [e3] at hok ⊢
    obtain ⟨w4, u4, h4, e4⟩ := andThen_ok_inv _ _ _ hok
    rw [e4]
    have hws : w.writeSlot = (w1, .ok b1) := by
      rw [← writeInternal_none_ok w b1 (by rw [h1]), h1]
    exact ⟨w1, b1, w2, w3, w4, hws, h2, h3, h4, rfl⟩

/-- inversion of a successful `flushRetry` with a pending frame -/
theorem flushRetry_ok_inv (w w' : World) (hs : w.c.additional.isSome = true)
    (hok : w.flushRetry = (w', .ok ())) :
    ∃ w1 b1, w.writeSlot = (w1, .ok b1) ∧ w1.writeOutBuffer = (w', .ok ()) := by
  unfold World.flushRetry at hok
  rw [if_pos hs] at hok
  have hok2 : (andThen (w.writeInternal none) fun w _ => w.writeOutBuffer).2 = .ok () := by rw [hok]
  obtain ⟨w1, b1, h1, e1⟩ := andThen_ok_inv _ _ _ hok2
  rw [e1] at hok
  have hws : w.writeSlot = (w1, .ok b1) := by
    rw [← writeInternal_none_ok w b1 (by rw [h1]), h1]
  exact ⟨w1, b1, hws, hok⟩

/-- a successful flush sends the pending reply: it is queued (exactly once, after everything
queued before), the slot is empty, the write buffer is drained and the transport flushed -/
theorem C11_flush_sends_pending (w : World) (f : Frame) (hs : w.c.additional = some f)
    (hfit : f.len + 4 ≤ w.c.codec.maxOut) (hst : w.c.state = .active ∨ w.c.state = .closedByUs ∨ w.c.role = .client)
    (hok : (w.flush).2 = .ok ()) :
    ∃ f', (w.flush).1.queued = w.queued ++ [f'] ∧ f'.payload = f.payload ∧
      f'.header.opcode = f.header.opcode ∧ (w.flush).1.c.additional = none ∧
      (w.flush).1.c.codec.outBuf = [] ∧ (w.flush).1.c.unflushed = false := by
  have _ := hst
  obtain ⟨w1, b1, w2, w3, w4, hslot, hwob, hretry, hsf, hflush⟩ := flush_ok_inv w hok
  rw [hflush]
  -- the final two steps keep everything we track
  obtain ⟨sfq, sfc, _⟩ := streamFlush_spec w3
  rw [hsf] at sfq sfc
  dsimp only at sfq sfc
  show ∃ f', w4.queued = w.queued ++ [f'] ∧ f'.payload = f.payload ∧
      f'.header.opcode = f.header.opcode ∧ w4.c.additional = none ∧
      w4.c.codec.outBuf = [] ∧ false = false
  rw [sfq, sfc]
  -- first `writeOutBuffer`
  obtain ⟨oq, oa, om, oe, _⟩ := world_writeOutBuffer_spec w1
  rw [hwob] at oq oa om oe
  dsimp only at oq oa om oe
  have oe' := oe rfl
  -- first `writeSlot`
  obtain ⟨f1, hp1, ho1, hm1, _, hcases⟩ := writeSlot_some w f hs
  rw [hslot] at hm1 hcases
  dsimp only at hm1 hcases
  rcases hcases with ⟨_, _, hadd1, hq1, _⟩ | ⟨_, hok1⟩
  · -- the buffer was full: the frame is put back and retried after the buffer is drained
    have hadd2 : w2.c.additional = some f1 := by rw [oa, hadd1]
    obtain ⟨w5, b5, hslot2, hwob2⟩ := flushRetry_ok_inv w2 w3 (by rw [hadd2]; rfl) hretry
    obtain ⟨f2, hp2, ho2, _, _, hcases2⟩ := writeSlot_some w2 f1 hadd2
    rw [hslot2] at hcases2
    dsimp only at hcases2
    obtain ⟨pq, pa, _, pe, _⟩ := world_writeOutBuffer_spec w5
    rw [hwob2] at pq pa pe
    dsimp only at pq pa pe
    have hlen2 : f2.len ≤ f.len + 4 := len_le_of_payload f f2 (by rw [hp2, hp1])
    rcases hcases2 with ⟨hfull2, _⟩ | ⟨_, hok2⟩
    · exfalso
      rw [oe', om, hm1] at hfull2
      simp only [List.length_nil] at hfull2
      omega
    · obtain ⟨hadd5, hq5⟩ := hok2 b5 rfl
      refine ⟨f2, ?_, by rw [hp2, hp1], by rw [ho2, ho1], ?_, pe rfl, rfl⟩
      · rw [pq, hq5, oq, hq1]
      · rw [pa, hadd5]
  · -- there was room: the frame is queued at once and the retry has nothing to do
    obtain ⟨hadd1, hq1⟩ := hok1 b1 rfl
    have hadd2 : w2.c.additional = none := by rw [oa, hadd1]
    have h32 : w3 = w2 := by
      unfold World.flushRetry at hretry
      rw [hadd2] at hretry
      have : (w2, (Res.ok () : Res Unit)) = (w3, .ok ()) := hretry
      injection this with h _
      exact h.symm
    rw [h32]
    exact ⟨f1, by rw [oq, hq1], hp1, ho1, hadd2, oe', rfl⟩

/-! ## concrete instances (non-vacuity) -/

def exT : Transport := { rd := [], wr := [], fl := [] }
def exServer : World := { c := { role := .server }, t := exT }
def exHdr : Header := { Header.default with opcode := .control .ping }

/-- a ping on a fresh server: the pong is put in the slot -/
example : (exServer.onControl ⟨exHdr, [1, 2]⟩ .ping).1.c.additional = some (Frame.pong [1, 2]) := by rfl

/-- the hypotheses of `C11_flush_sends_pending` hold for a server with a pending pong and a
transport that accepts everything; the pong is what gets queued -/
def exPending : World := exServer.setAdditionalRaw (some (Frame.pong [1, 2]))
example : exPending.c.additional = some (Frame.pong [1, 2]) ∧
    (Frame.pong [1, 2]).len + 4 ≤ exPending.c.codec.maxOut ∧ exPending.c.state = .active :=
  ⟨rfl, by decide, rfl⟩
example : (exPending.flush).2 = .ok () := by rfl
example : (exPending.flush).1.queued = [Frame.pong [1, 2]] := by rfl

/-- the put-back-and-retry path: a client whose buffer holds 3 bytes with `maxOut = 8`; the
masked pong (8 bytes) does not fit at first, is put back, and is sent by the retry -/
def exClient : World :=
  { c := { role := .client, additional := some (Frame.pong [1, 2]),
           codec := { maxOut := 8, writeLen := 100, outBuf := [9, 9, 9] } },
    t := exT, mu := [⟨1, 1, 1, 1⟩, ⟨2, 2, 2, 2⟩] }
example : (Frame.pong [1, 2]).len + 4 ≤ exClient.c.codec.maxOut := by decide
example : (exClient.flush).2 = .ok () := by rfl
example : (exClient.flush).1.queued.map Frame.payload = [[1, 2]] ∧
    (exClient.flush).1.mu = [] := by decide

/-- a blocked flush while reading: the hypotheses of `C11_read_continues` are satisfiable -/
def exBlocked : World := { exPending with t := { exT with fl := [.err .wouldBlock] } }
example : (exBlocked.flush).2 = .err (.io .wouldBlock) := by rfl
example : (exBlocked.readPre).2 = .ok () := by rfl

end WsProofs.C11
