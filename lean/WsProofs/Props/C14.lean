import WsModel.Endpoint
import WsProofs.Lemmas.LocalCodec
import WsProofs.Lemmas.LocalWorld

/-! # C14 — write buffer bound and batching threshold (codec level)

`Codec.bufferFrame` / `Codec.writeOutBuffer` (`FrameCodec::buffer_frame`, `write_out_buffer`),
`Ctx.new` (`WebSocketConfig::assert_valid`), and the user-level `WriteBufferFull` hand-back. -/
namespace WsProofs.C14
open WsModel WsModel.Gen WsProofs.Local

/-- construction fails (panics) exactly when `max_write_buffer_size ≤ write_buffer_size`; otherwise
the codec is configured with the two sizes and starts empty and active -/
theorem C14_config (role : Role) (cfg : Config) (pre : Bytes) :
    (Ctx.new role cfg pre = none ↔ cfg.maxw ≤ cfg.wbuf) ∧
    (∀ c, Ctx.new role cfg pre = some c → c.codec.maxOut = cfg.maxw ∧ c.codec.writeLen = cfg.wbuf ∧
        c.codec.outBuf = [] ∧ c.codec.inBuf = pre ∧ c.state = .active) := by
  unfold Ctx.new configValid
  by_cases h : cfg.maxw > cfg.wbuf
  · rw [if_pos (decide_eq_true h)]
    refine ⟨⟨(fun h' => nomatch h'), (fun h' => by omega)⟩, ?_⟩
    intro c hc
    injection hc with hc
    subst hc
    exact ⟨rfl, rfl, rfl, rfl, rfl⟩
  · rw [if_neg (by rw [decide_eq_false h]; exact Bool.false_ne_true)]
    refine ⟨⟨fun _ => by omega, fun _ => rfl⟩, ?_⟩
    intro c hc
    cases hc

/-- the write buffer never grows beyond its maximum -/
theorem C14_buffer_frame_bound (c : Codec) (t : Transport) (f : Frame) (h : c.outBuf.length ≤ c.maxOut) :
    (c.bufferFrame t f).1.outBuf.length ≤ c.maxOut ∧ (c.bufferFrame t f).1.maxOut = c.maxOut := by
  by_cases hfull : f.len + c.outBuf.length > c.maxOut
  · rw [bufferFrame_full c t f hfull]
    exact ⟨h, rfl⟩
  · have hroom : f.len + c.outBuf.length ≤ c.maxOut := by omega
    obtain ⟨⟨k, hk⟩, _, _⟩ := bufferFrame_room c t f hroom
    rw [hk]
    dsimp only
    refine ⟨?_, rfl⟩
    rw [List.length_drop, List.length_append, format_length]
    omega

theorem C14_write_out_shrinks (c : Codec) (t : Transport) :
    (c.writeOutBuffer t).1.outBuf.length ≤ c.outBuf.length ∧ (c.writeOutBuffer t).1.maxOut = c.maxOut := by
  obtain ⟨⟨k, hk⟩, _, _, _⟩ := writeOutBuffer_spec c t
  rw [hk]
  dsimp only
  refine ⟨?_, rfl⟩
  rw [List.length_drop]
  omega

/-- a frame that would exceed the maximum is handed back intact and nothing is queued or written -/
theorem C14_full (c : Codec) (t : Transport) (f : Frame) (h : f.len + c.outBuf.length > c.maxOut) :
    c.bufferFrame t f = (c, t, .err (.writeBufferFull f)) :=
  bufferFrame_full c t f h

/-- … and the same frame is accepted once there is room -/
theorem C14_accepted_when_room (c : Codec) (t : Transport) (f : Frame)
    (h : f.len + c.outBuf.length ≤ c.maxOut) :
    ∀ g, (c.bufferFrame t f).2.2 ≠ .err (.writeBufferFull g) :=
  (bufferFrame_room c t f h).2.1

/-- batching: at or below write_buffer_size the transport is not touched; above it, it is -/
theorem C14_threshold_quiet (c : Codec) (t : Transport) (f : Frame)
    (hroom : f.len + c.outBuf.length ≤ c.maxOut) (hsmall : c.outBuf.length + f.format.length ≤ c.writeLen) :
    c.bufferFrame t f = ({ c with outBuf := c.outBuf ++ f.format }, t, .ok ()) := by
  unfold Codec.bufferFrame
  rw [if_neg (by omega)]
  dsimp only
  rw [C19.C19_format_into_buf, List.length_append, if_neg (by omega)]

theorem C14_threshold_writes (c : Codec) (t : Transport) (f : Frame)
    (hroom : f.len + c.outBuf.length ≤ c.maxOut) (hbig : c.outBuf.length + f.format.length > c.writeLen) :
    (c.bufferFrame t f).2.1.log.length > t.log.length := by
  unfold Codec.bufferFrame
  rw [if_neg (by omega)]
  dsimp only
  rw [C19.C19_format_into_buf, List.length_append, if_pos hbig]
  unfold Codec.writeOutBuffer
  dsimp only
  have hlen : (c.outBuf ++ f.format).length = (c.outBuf.length + f.format.length - 1) + 1 := by
    rw [List.length_append]; omega
  rw [hlen]
  apply writeLoop_log_strict
  dsimp only
  intro h0
  have := congrArg List.length h0
  rw [List.length_append, List.length_nil] at this
  omega

theorem write_binary_eq (w : World) (d : Bytes) (h1 : w.c.state.notTerminated = true)
    (h2 : w.c.state.isActive = true) :
    w.write (.binary d) = w.writeData (Frame.message d (.data .binary) true) := by
  unfold World.write
  simp only [h1, h2, Bool.not_true, Bool.false_eq_true, if_false]

theorem writeData_eq (w : World) (f : Frame) :
    w.writeData f =
      andThen (andThen (w.bufferFrame f) fun w _ => andThen w.writeSlot fun w sf => w.writeTail sf)
        fun w sf => if sf = true then w.flush else (w, .ok ()) := rfl

/-- user-level: WriteBufferFull hands the message back as its frame and queues nothing of it -/
theorem C14_write_full_hands_back (w : World) (d : Bytes) (g : Frame)
    (h : (w.write (.binary d)).2 = .err (.writeBufferFull g)) :
    g.payload = d ∧ g.header.opcode = .data .binary ∧ (w.write (.binary d)).1.queued = w.queued ∧
    (w.write (.binary d)).1.c.codec.outBuf = w.c.codec.outBuf ∧ (w.write (.binary d)).1.t.accepted = w.t.accepted := by
  by_cases h1 : w.c.state.notTerminated = true
  · by_cases h2 : w.c.state.isActive = true
    · rw [write_binary_eq w d h1 h2] at h ⊢
      rw [writeData_eq] at h ⊢
      obtain ⟨f', hp, ho, _, _, hcases⟩ :=
        world_bufferFrame_spec w (Frame.message d (.data .binary) true)
      rcases hcases with ⟨_, hr, hq, hob, ht⟩ | ⟨_, hnf, _⟩
      · cases hb : w.bufferFrame (Frame.message d (.data .binary) true) with
        | mk w1 r =>
          rw [hb] at hr hq hob ht h
          dsimp only at hr hq hob ht
          subst hr
          have hg : g = f' := by
            have h' : (Res.err (.writeBufferFull f') : Res Unit) = .err (.writeBufferFull g) := h
            injection h' with h'
            injection h' with h'
            exact h'.symm
          subst hg
          refine ⟨hp, ho, hq, hob, ?_⟩
          show w1.t.accepted = w.t.accepted
          rw [ht]
      · exfalso
        refine andThen_noFull _ _ ?_ ?_ g h
        · exact andThen_noFull _ _ hnf
            (fun w1 _ => andThen_noFull _ _ (writeSlot_noFull w1) (fun w2 sf => writeTail_noFull w2 sf))
        · intro w1 sf
          by_cases hsf : sf = true
          · rw [if_pos hsf]; exact flush_noFull w1
          · rw [if_neg hsf]; exact noFull_ok _
    · exfalso
      unfold World.write at h
      simp only [h1, h2, Bool.not_true, Bool.not_false, Bool.false_eq_true, if_false, if_true] at h
      exact nomatch h
  · exfalso
    unfold World.write at h
    simp only [h1, Bool.not_false, if_true] at h
    exact nomatch h

/-! ## concrete instances (non-vacuity) -/

def exCodec : Codec := { maxOut := 10, writeLen := 4, outBuf := [1, 2, 3] }
def exT : Transport := { rd := [], wr := [], fl := [] }
def exFrame : Frame := Frame.message [7, 8] (.data .binary) true

/-- the default configuration is valid; equal sizes are not -/
example : (Ctx.new .server {} []).isSome = true ∧ Ctx.new .server { wbuf := 5, maxw := 5 } [] = none := by
  decide

/-- room, above the threshold: the frame is appended and the transport is written to -/
example : exFrame.len + exCodec.outBuf.length ≤ exCodec.maxOut ∧
    exCodec.outBuf.length + exFrame.format.length > exCodec.writeLen ∧
    (exCodec.bufferFrame exT exFrame).2.1.log.length = 1 := by decide

/-- room, at the threshold: nothing is written -/
example : exFrame.len + ({ exCodec with writeLen := 7 } : Codec).outBuf.length ≤ 10 ∧
    (({ exCodec with writeLen := 7 } : Codec).bufferFrame exT exFrame).2.1.log.length = 0 := by decide

/-- no room: `WriteBufferFull` with the frame -/
example : exFrame.len + ({ exCodec with maxOut := 6 } : Codec).outBuf.length > 6 := by decide
example : (({ exCodec with maxOut := 6 } : Codec).bufferFrame exT exFrame).2.2 =
    .err (.writeBufferFull exFrame) := by rfl

/-- user level: a server whose buffer is full hands the binary message back -/
example :
    ((World.mk { role := .server, codec := { maxOut := 3, writeLen := 2, outBuf := [1, 2, 3] } } exT [] false []).write
      (.binary [7, 8])).2 = .err (.writeBufferFull exFrame) := by rfl

end WsProofs.C14
