import WsProofs.Lemmas.PairJoint
import WsProofs.Lemmas.PairLive6

/-! # C04, two-party: a client and a server joined by two pipes (`WsModel/TwoParty.lean`)

For EVERY interleaving of user calls on both endpoints, every byte-granular delivery schedule and
every WouldBlock / partial-write behaviour of the two transports:

* `C04_pair_no_protocol_error` — no call on either side ever panics or reports a protocol, capacity
  or UTF-8 error (other than the user's own `SendAfterClosing`);
* `C04_pair_prefix_delivery` — the data messages a side has been delivered are, in order, a prefix
  of the data messages the other side's writes queued;
* `C04_pair_close_completes` — from every state reached by such a history in which either side has
  started closing, two rounds of the fair driver (`Pair.drive`) end with both sides told
  `ConnectionClosed`, the server first.

Hypotheses that had to be added to the ones suggested (both are necessary, see the examples at the
end of the file):
* `CloseOk`: `Op.Sendable` constrains `write(Message::Close(..))` but not `close(Some(frame))`; a
  `close()` with an over-long or non-UTF-8 reason queues an invalid Close frame;
* `World.Init` allows bytes "already read" (`from_partially_read`); in a pair nothing has been
  pre-read: both codecs start with an empty input buffer.
The liveness theorem is therefore stated for `ReachableOk` (= `Pair.Reachable` with these
hypotheses on the initial pair and the history) instead of `Pair.Reachable`. -/
namespace WsProofs.C04
open WsModel WsModel.Gen WsProofs WsProofs.Pair

/-- the start of a connection, from the hypotheses as they are stated in the theorems -/
theorem start_of (p0 : Pair) (hinit : p0.Init)
    (hcfg : p0.c.c.cfg.maxFrame = none ∧ p0.c.c.cfg.maxMsg = none ∧ 400 ≤ p0.c.c.cfg.maxw ∧
      p0.s.c.cfg.maxFrame = none ∧ p0.s.c.cfg.maxMsg = none ∧ 400 ≤ p0.s.c.cfg.maxw)
    (hpre : p0.c.c.codec.inBuf = [] ∧ p0.s.c.codec.inBuf = []) : Start p0 :=
  ⟨hinit, ⟨hcfg.1, hcfg.2.1, hcfg.2.2.1⟩, ⟨hcfg.2.2.2.1, hcfg.2.2.2.2.1, hcfg.2.2.2.2.2⟩,
    hpre.1, hpre.2⟩

theorem ops_ok {as : List Action}
    (hb : ∀ a ∈ as, a.Benign ∧ a.op.Sendable ∧ CloseOk a.op) :
    ∀ a ∈ as, a.Benign ∧ OpOk a.op :=
  fun a ha => ⟨(hb a ha).1, (hb a ha).1.1, (hb a ha).2.1, (hb a ha).2.2⟩

/-- for every interleaving of user operations on both endpoints, every byte-granular delivery
schedule and every write-side WouldBlock / partial-write behaviour: neither side ever sees a
protocol error (other than the user's own mistake of writing after closing), never a capacity or
UTF-8 error, and no call panics -/
theorem C04_pair_no_protocol_error (p0 : Pair) (hinit : p0.Init)
    (hcfg : p0.c.c.cfg.maxFrame = none ∧ p0.c.c.cfg.maxMsg = none ∧ 400 ≤ p0.c.c.cfg.maxw ∧
      p0.s.c.cfg.maxFrame = none ∧ p0.s.c.cfg.maxMsg = none ∧ 400 ≤ p0.s.c.cfg.maxw)
    (hpre : p0.c.c.codec.inBuf = [] ∧ p0.s.c.codec.inBuf = [])
    (as : List Action) (hb : ∀ a ∈ as, a.Benign ∧ a.op.Sendable ∧ CloseOk a.op) :
    ∀ so ∈ (p0.run as).2,
      so.2.isPanic = false ∧
      (∀ e, so.2.err? = some e → e = .connectionClosed ∨ e = .alreadyClosed ∨ (∃ k, e = .io k) ∨
            e = .protocol .sendAfterClosing ∨ (∃ f, e = .writeBufferFull f)) := by
  obtain ⟨_, _, _, h, _⟩ := J.run as p0 0 0 (start_of p0 hinit hcfg hpre).j (ops_ok hb)
  exact h

theorem dataOfFrames_take_prefix (q : List Frame) (n : Nat) :
    dataOfFrames (q.take n) <+: dataOfFrames q :=
  ⟨dataOfFrames (q.drop n), by rw [← dataOfFrames_append, List.take_append_drop]⟩

/-- what a side has read so far is, in order, a prefix of the data messages the other side's
writes queued (nothing added, dropped, reordered): `dataRead who outs` are the text / binary
messages the `read` calls of side `who` returned, `dataWritten who as outs` the text / binary
messages of its `write` calls that returned Ok or a transport error -/
theorem C04_pair_prefix_delivery (p0 : Pair) (hinit : p0.Init)
    (hcfg : p0.c.c.cfg.maxFrame = none ∧ p0.c.c.cfg.maxMsg = none ∧ 400 ≤ p0.c.c.cfg.maxw ∧
      p0.s.c.cfg.maxFrame = none ∧ p0.s.c.cfg.maxMsg = none ∧ 400 ≤ p0.s.c.cfg.maxw)
    (hpre : p0.c.c.codec.inBuf = [] ∧ p0.s.c.codec.inBuf = [])
    (as : List Action) (hb : ∀ a ∈ as, a.Benign ∧ a.op.Sendable ∧ CloseOk a.op) :
    dataRead .s (p0.run as).2 <+: dataWritten .c as (p0.run as).2 ∧
    dataRead .c (p0.run as).2 <+: dataWritten .s as (p0.run as).2 := by
  have hs := start_of p0 hinit hcfg hpre
  obtain ⟨nc', ns', _, _, r1, r2, w1, w2⟩ := J.run as p0 0 0 hs.j (ops_ok hb)
  obtain ⟨_, _, _, q1, _, _⟩ := init_fields hs.init.1
  obtain ⟨_, _, _, q2, _, _⟩ := init_fields hs.init.2.1
  rw [q2] at r1 w2
  rw [q1] at r2 w1
  simp only [List.take_nil, dataOfFrames, List.filterMap_nil, List.nil_append] at r1 r2 w1 w2
  constructor
  · rw [← r2, ← w1]; exact dataOfFrames_take_prefix _ _
  · rw [← r1, ← w2]; exact dataOfFrames_take_prefix _ _

/-- states reached from a fresh connection by histories that respect the documented preconditions
(`Pair.Reachable` plus the three hypotheses the safety theorems need: no inbound limits and room
for a control frame in the write buffers, nothing pre-read, `close()` reasons well-formed) -/
def ReachableOk (p : Pair) : Prop :=
  ∃ (p0 : Pair) (as : List Action), p0.Init ∧
    (p0.c.c.cfg.maxFrame = none ∧ p0.c.c.cfg.maxMsg = none ∧ 400 ≤ p0.c.c.cfg.maxw ∧
      p0.s.c.cfg.maxFrame = none ∧ p0.s.c.cfg.maxMsg = none ∧ 400 ≤ p0.s.c.cfg.maxw) ∧
    (p0.c.c.codec.inBuf = [] ∧ p0.s.c.codec.inBuf = []) ∧
    (∀ a ∈ as, a.Benign ∧ a.op.Sendable ∧ CloseOk a.op) ∧ (p0.run as).1 = p

theorem ReachableOk.reachable {p : Pair} (h : ReachableOk p) : p.Reachable := by
  obtain ⟨p0, as, h1, _, _, h4, h5⟩ := h
  exact ⟨p0, as, h1, fun a ha => ⟨(h4 a ha).1, (h4 a ha).2.1⟩, h5⟩

/-- the server's ConnectionClosed comes before any ConnectionClosed of the client -/
theorem order_lemma (o1 o2 o3 o4 : List Out)
    (h : (∃ o ∈ o1, o.isConnectionClosed = true) ∨
      ((∀ o ∈ o2, o.isConnectionClosed = false) ∧ ∃ o ∈ o3, o.isConnectionClosed = true)) :
    ∃ pre post, o1.map (Prod.mk Side.s) ++ o2.map (Prod.mk Side.c) ++
        (o3.map (Prod.mk Side.s) ++ o4.map (Prod.mk Side.c) ++ []) = pre ++ post ∧
      (∃ so ∈ pre, so.1 = Side.s ∧ so.2.isConnectionClosed = true) ∧
      (∀ so ∈ pre, ¬ (so.1 = Side.c ∧ so.2.isConnectionClosed = true)) := by
  rcases h with ⟨o, ho, hoc⟩ | ⟨hno, o, ho, hoc⟩
  · refine ⟨o1.map (Prod.mk Side.s), _, List.append_assoc _ _ _,
      ⟨(Side.s, o), List.mem_map.mpr ⟨o, ho, rfl⟩, rfl, hoc⟩, ?_⟩
    intro so hso hx
    obtain ⟨o', _, rfl⟩ := List.mem_map.mp hso
    cases hx.1
  · refine ⟨o1.map (Prod.mk Side.s) ++ o2.map (Prod.mk Side.c) ++ o3.map (Prod.mk Side.s),
      o4.map (Prod.mk Side.c) ++ [], by simp only [List.append_assoc],
      ⟨(Side.s, o), List.mem_append_right _ (List.mem_map.mpr ⟨o, ho, rfl⟩), rfl, hoc⟩, ?_⟩
    intro so hso hx
    rcases List.mem_append.mp hso with hso | hso
    · rcases List.mem_append.mp hso with hso | hso
      · obtain ⟨o', _, rfl⟩ := List.mem_map.mp hso
        cases hx.1
      · obtain ⟨o', ho', rfl⟩ := List.mem_map.mp hso
        have := hno o' ho'
        rw [hx.2] at this
        cases this
    · obtain ⟨o', _, rfl⟩ := List.mem_map.mp hso
      cases hx.1

/-- once either side has started closing, if both keep flushing and reading over a working
transport and each drops the transport when told the connection is closed, both are told
ConnectionClosed after finitely many steps (two rounds of the fair driver, with
`reads = frames still to be read + pending control frames + 2`) — the server first -/
theorem C04_pair_close_completes (p : Pair) (hr : ReachableOk p)
    (hclosing : p.c.c.state ≠ .active ∨ p.s.c.state ≠ .active) :
    ∃ n reads, ((p.drive reads n).1.cDropped = true ∧ (p.drive reads n).1.sDropped = true) ∧
      (p.cDropped = false → p.sDropped = false →
        ∃ pre post, (p.drive reads n).2 = pre ++ post ∧
          (∃ so ∈ pre, so.1 = .s ∧ so.2.isConnectionClosed = true) ∧
          (∀ so ∈ pre, ¬ (so.1 = .c ∧ so.2.isConnectionClosed = true))) := by
  obtain ⟨p0, as, hinit, hcfg, hpre, hb, rfl⟩ := hr
  obtain ⟨nc, ns, jp⟩ := JP.run as p0 0 0 (start_of p0 hinit hcfg hpre).jp (ops_ok hb)
  generalize (p0.run as).1 = p at jp hclosing ⊢
  have hR : psi (viewS p) ns nc + 2 ≤ Psi p nc ns + 2 := by rw [Psi_s]; exact Nat.le_refl _
  obtain ⟨h1, h2, h3⟩ := hp_close (h0 := viewS p) jp.s hclosing (Psi p nc ns + 2) hR
  refine ⟨2, Psi p nc ns + 2, ?_⟩
  rw [drive2]
  refine ⟨⟨h1, h2⟩, ?_⟩
  intro hc hs
  exact order_lemma _ _ _ _ (h3 hs hc)

/-! ## concrete instances: the hypotheses are satisfiable, the added ones are necessary -/

def exPairCfg : Config := { maxFrame := none, maxMsg := none }

def exW (r : Role) (pre : Bytes) : World :=
  { c := { role := r, cfg := exPairCfg,
           codec := { inBuf := pre, maxOut := exPairCfg.maxw, writeLen := exPairCfg.wbuf } },
    t := { rd := [], wr := [], fl := [] }, mu := [⟨1, 2, 3, 4⟩, ⟨5, 6, 7, 8⟩] }

/-- a fresh pair -/
def exPair : Pair := { c := exW .client [], s := exW .server [] }

theorem exPair_init : exPair.Init :=
  ⟨⟨.client, exPairCfg, [], _, rfl, rfl, rfl, rfl, rfl, rfl⟩,
    ⟨.server, exPairCfg, [], _, rfl, rfl, rfl, rfl, rfl, rfl⟩, rfl, rfl, rfl, rfl, rfl, rfl⟩

/-- the client writes "hi" and starts closing -/
def exOps : List Action := [fullAction .c (.write (.text [104, 105])), fullAction .c (.close none)]

theorem exOps_ok : ∀ a ∈ exOps, a.Benign ∧ a.op.Sendable ∧ CloseOk a.op := by
  intro a ha
  simp only [exOps, List.mem_cons, List.mem_nil_iff, or_false] at ha
  rcases ha with rfl | rfl
  · exact ⟨full_benign (full_fullAction _ _) trivial,
      ⟨(C08.C08_wellFormedB_iff _).mp (by decide), by decide⟩, trivial⟩
  · exact ⟨full_benign (full_fullAction _ _) trivial, trivial, trivial⟩

theorem exClosing_reachable : ReachableOk (exPair.run exOps).1 :=
  ⟨exPair, exOps, exPair_init, ⟨rfl, rfl, by decide, rfl, rfl, by decide⟩, ⟨rfl, rfl⟩, exOps_ok, rfl⟩

/-- the hypotheses of the liveness theorem hold of that state -/
example : ∃ n reads, (((exPair.run exOps).1.drive reads n).1.cDropped = true ∧
    ((exPair.run exOps).1.drive reads n).1.sDropped = true) :=
  have h := C04_pair_close_completes _ exClosing_reachable (Or.inl (by decide))
  ⟨h.choose, h.choose_spec.choose, h.choose_spec.choose_spec.1⟩

/-- `CloseOk` is necessary: `close(Some(..))` with a reason that is not UTF-8 is `Sendable`, yet
the peer reports a UTF-8 error -/
def exBad : List Action :=
  [fullAction .c (.close (some ⟨.normal, [0xFF]⟩)), fullAction .s .read]

example : ∀ a ∈ exBad, a.Benign ∧ a.op.Sendable := by
  intro a ha
  simp only [exBad, List.mem_cons, List.mem_nil_iff, or_false] at ha
  rcases ha with rfl | rfl <;> exact ⟨full_benign (full_fullAction _ _) trivial, trivial⟩

example : (exPair.run exBad).2.map (fun so => so.2.err?) = [none, some .utf8] := by decide

/-- "nothing pre-read" is necessary: `World.Init` allows any bytes in the input buffer -/
def exPre : Pair := { c := exW .client [0xFF, 0x00], s := exW .server [] }

example : exPre.Init :=
  ⟨⟨.client, exPairCfg, [0xFF, 0x00], _, rfl, rfl, rfl, rfl, rfl, rfl⟩,
    ⟨.server, exPairCfg, [], _, rfl, rfl, rfl, rfl, rfl, rfl⟩, rfl, rfl, rfl, rfl, rfl, rfl⟩

example : (exPre.run [fullAction .c .read]).2.map (fun so => so.2.err?) =
    [some (.protocol (.invalidOpcode 15))] := by decide

end WsProofs.C04
