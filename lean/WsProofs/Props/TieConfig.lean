import WsModel.Generated.Ctx
/-! `WebSocketContext::set_config` as generated from the source equals the hand model. -/
namespace WsProofs.Tie
open WsModel WsModel.Gen WsModel.GenCtx

theorem Tie_setConfig (f : Config → Config) (w : World) : GenCtx.setConfig f w = w.setConfig f := by
  unfold GenCtx.setConfig World.setConfig
  simp only [bind, M.bind, applyCfg, assertValidCfg, codecSetMaxOut, codecSetWriteLen, modifyW, getW]
  by_cases h : configValid (f w.c.cfg).maxw (f w.c.cfg).wbuf = true <;> simp [h, pure, M.pure]

/-- `set_config` touches the configuration and the codec's two sizes, nothing else: no buffered
byte, pending reply, half-received message or connection state is lost or changed -/
theorem Tie_setConfig_keeps_data (f : Config → Config) (w : World) :
    let w' := (w.setConfig f).1
    w'.c.state = w.c.state ∧ w'.c.additional = w.c.additional ∧ w'.c.incomplete = w.c.incomplete ∧
    w'.c.unflushed = w.c.unflushed ∧ w'.c.codec.outBuf = w.c.codec.outBuf ∧
    w'.c.codec.inBuf = w.c.codec.inBuf ∧ w'.c.codec.header = w.c.codec.header ∧ w'.t = w.t ∧
    w'.c.cfg = f w.c.cfg := by
  unfold World.setConfig
  by_cases h : configValid (f w.c.cfg).maxw (f w.c.cfg).wbuf = true <;> simp [h]

/-- a valid new configuration is what the codec enforces from then on -/
theorem Tie_setConfig_sizes (f : Config → Config) (w : World)
    (h : configValid (f w.c.cfg).maxw (f w.c.cfg).wbuf = true) :
    (w.setConfig f).2 = .ok () ∧ (w.setConfig f).1.c.codec.maxOut = (f w.c.cfg).maxw ∧
    (w.setConfig f).1.c.codec.writeLen = (f w.c.cfg).wbuf := by
  unfold World.setConfig; simp [h]

/-- an invalid one panics (as documented) and changes nothing in the codec -/
theorem Tie_setConfig_invalid (f : Config → Config) (w : World)
    (h : configValid (f w.c.cfg).maxw (f w.c.cfg).wbuf = false) :
    (w.setConfig f).2 = .panic .configInvalid ∧ (w.setConfig f).1.c.codec = w.c.codec := by
  unfold World.setConfig; simp [h]

/-- non-vacuity: lowering the bound on a live connection takes effect in the codec, an invalid
configuration panics and stays behind -/
example (w : World) : (w.setConfig fun c => { c with wbuf := 0, maxw := 10 }).1.c.codec.maxOut = 10 := by
  simp [World.setConfig, configValid]
example (w : World) : (w.setConfig fun c => { c with wbuf := 10, maxw := 10 }).2 = .panic .configInvalid := by
  simp [World.setConfig, configValid]

end WsProofs.Tie
