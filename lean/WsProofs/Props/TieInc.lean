import WsModel.Generated.IncGen

/-! `IncompleteMessage::{len, extend, complete}` as generated from the source equal the hand model
(`WsModel/Collect.lean`) the property theorems (C02, C06, C08) are about. -/
namespace WsProofs.Tie
open WsModel WsModel.Gen WsModel.GenInc

theorem Tie_inc_len (m : Incomplete) : GenInc.len m = (m, .ok m.len) := by
  cases m <;> rfl

theorem Tie_inc_extend (tail : Bytes) (limit : Option Nat) (m : Incomplete) :
    GenInc.extend tail limit m = m.extend tail limit := by
  unfold GenInc.extend Incomplete.extend
  have hu : (2 ^ 64 - 1 : Nat) = usizeMax := rfl
  rw [hu]
  simp only [bind, M.bind, Tie_inc_len]
  generalize limit.getD usizeMax = mx
  by_cases h : m.len > mx ∨ tail.length > mx - m.len
  · have hb : (decide (m.len > mx) || decide (tail.length > mx - m.len)) = true := by
      simpa using h
    rw [if_pos h, if_pos hb]
    rfl
  · have hb : ¬ (decide (m.len > mx) || decide (tail.length > mx - m.len)) = true := by
      simpa using h
    rw [if_neg h, if_neg hb]
    cases m with
    | binary v => rfl
    | text c => rfl

theorem Tie_inc_complete (m : Incomplete) : GenInc.complete m = (m, m.complete) := by
  cases m with
  | binary v => rfl
  | text c =>
    unfold GenInc.complete Incomplete.complete
    simp only [bind, M.bind, getW, liftRes]
    cases h : c.intoString <;> simp [Res.map, pure, M.pure]

end WsProofs.Tie
