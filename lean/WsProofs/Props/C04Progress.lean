import WsProofs.Lemmas.ProgressEof
import WsProofs.Props.C03
import WsProofs.Props.C04
import WsProofs.Props.C05
import WsProofs.Props.C13

/-! # C04 (liveness half) — single-endpoint progress facts of the close handshake

"Two endpoints always complete the close handshake" decomposes into facts about ONE endpoint whose
transport accepts what it is offered (`Transport.acceptsAll`); the two-party glue — what one side's
transport accepts is what the other side's transport delivers — is exercised on the real crate by
the two-party test family.

1. the closing side gets its Close onto the wire by the first flush after the transport accepts;
2. a server that has received a Close is told `ConnectionClosed` by its next flush / read, with its
   reply (or its own Close) accepted by the transport;
3. a client that has received a Close sends its reply by its next flush, and is told
   `ConnectionClosed` by a read that meets EOF;
4. the side that did not start closing is delivered the messages before the Close, then the Close;
5. nothing is reported closed too early (restated from C03). -/
namespace WsProofs.C04
open WsModel WsModel.Gen WsProofs WsProofs.Read WsProofs.Pipe WsProofs.Progress

/-! ## (1) the closing side -/

/-- once the transport accepts, one flush after close() leaves the Close frame accepted by the
transport, whatever close() itself returned -/
theorem C04_close_reaches_wire (w : World) (c : Option CloseFrame) (hr : w.Reachable)
    (hact : w.c.state = .active)
    (hfit : (Frame.close c).len + 4 ≤ w.c.codec.maxOut)
    (hacc : ((w.close c).1).t.acceptsAll) (hnt : ((w.close c).1).c.state ≠ .terminated) :
    let w2 := ((w.close c).1.flush).1
    (∃ f ∈ w2.queued, f.isClose = true ∧ f.payload = (Frame.close c).payload) ∧
    w2.c.codec.outBuf = [] ∧ w2.t.accepted = encodeAll w2.queued := by
  intro w2
  have hI := reachable_inv w hr
  have hI1 : Inv (w.close c).1 := close_inv hI c
  have W := close_ws_active w c hact
  have hcfg : (w.close c).1.c.cfg = w.c.cfg := W.rside.cfg
  have hmax : (w.close c).1.c.codec.maxOut = w.c.codec.maxOut := by
    rw [hI1.cfgFixed.1, hcfg]
    exact hI.cfgFixed.1.symm
  have hfits : Fits (w.close c).1 := by
    intro f hf g hg
    rcases W.toSD.full (Frame.close c) rfl with ⟨f', r, s, _⟩ | ⟨f', _, s, _⟩
    · rw [s] at hf
      cases hf
      have := Local.len_le_of_payload (Frame.close c) g (hg.trans r.payload)
      rw [hmax]
      omega
    · rw [s] at hf
      cases hf
  have P := flush_post (w.close c).1 hI1 hacc hnt hfits
  have CP : C13.ClosePending w2 (Frame.close c).payload :=
    (C13.C13_close_pending w c hr hact).sd (flush_ws _).toSD
  rcases CP with ⟨f, hf, _⟩ | h
  · have hf' : ((w.close c).1.flush).1.c.additional = some f := hf
    rw [P.additional] at hf'
    cases hf'
  · exact ⟨h, P.outBuf, P.wire⟩

/-! ## (2) a server that has received a Close -/

/-- a server that has received a Close and whose transport accepts is told ConnectionClosed by its
next flush (and likewise by its next read), with everything it queued — including the reply or its
own Close — accepted by the transport -/
theorem C04_server_told_closed (w : World) (hr : w.Reachable) (hs : w.c.role = .server)
    (hcr : w.c.state.closeReceived = true) (hacc : w.t.acceptsAll)
    (hfit : ∀ f, w.c.additional = some f → f.len + 4 ≤ w.c.codec.maxOut) :
    (w.flush).2 = .err .connectionClosed ∧ (w.flush).1.c.state = .terminated ∧
    (w.flush).1.t.accepted = encodeAll (w.flush).1.queued ∧ (w.flush).1.c.additional = none ∧
    (w.read).2 = .err .connectionClosed := by
  have hI := reachable_inv w hr
  obtain ⟨hcan, hnt, _⟩ := closeReceived_cases hcr
  have hT : T w := ⟨hs, hcan⟩
  have P := flush_post w hI hacc hnt (Fits.of_len hfit)
  obtain ⟨h1, h2⟩ := P.closed hT
  exact ⟨h1, h2, P.wire, P.additional, read_closed w hnt hT h1⟩

/-- a reply (or own Close) that was pending is queued by that flush -/
theorem reply_queued (w : World) (f : Frame) (hr : w.Reachable)
    (hcr : w.c.state.closeReceived = true) (hacc : w.t.acceptsAll) (hslot : w.c.additional = some f)
    (hfit : f.len + 4 ≤ w.c.codec.maxOut) :
    FlPost w (w.flush).1 (w.flush).2 ∧
    ∃ g ∈ (w.flush).1.queued, g.isClose = true ∧ g.payload = f.payload := by
  have hI := reachable_inv w hr
  obtain ⟨_, hnt, hcl⟩ := closeReceived_cases hcr
  have hfits : Fits w := Fits.of_len (by
    intro g hg
    rw [hslot] at hg
    cases hg
    exact hfit)
  have P := flush_post w hI hacc hnt hfits
  obtain ⟨f', m, q⟩ := flush_queues w f hslot P.additional
  refine ⟨P, f', by rw [q]; simp, ?_, m.remask.payload⟩
  rw [m.remask.isClose]
  exact (hI.closing hcl f hslot).1

/-- and its reply (or own Close) is among what was accepted -/
theorem C04_server_reply_sent (w : World) (f : Frame) (hr : w.Reachable) (hs : w.c.role = .server)
    (hcr : w.c.state.closeReceived = true) (hacc : w.t.acceptsAll) (hslot : w.c.additional = some f)
    (hfit : f.len + 4 ≤ w.c.codec.maxOut) :
    ∃ g ∈ (w.flush).1.queued, g.isClose = true ∧ g.payload = f.payload := by
  have _ := hs
  exact (reply_queued w f hr hcr hacc hslot hfit).2

/-! ## (3) a client that has received a Close -/

/-- a client that has received a Close sends its reply by its next flush when the transport
accepts -/
theorem C04_client_reply_sent (w : World) (f : Frame) (hr : w.Reachable) (hc : w.c.role = .client)
    (hcr : w.c.state.closeReceived = true) (hacc : w.t.acceptsAll) (hslot : w.c.additional = some f)
    (hfit : f.len + 4 ≤ w.c.codec.maxOut) :
    (w.flush).2 = .ok () ∧ ∃ g ∈ (w.flush).1.queued, g.isClose = true ∧ g.payload = f.payload := by
  obtain ⟨P, h⟩ := reply_queued w f hr hcr hacc hslot hfit
  have hT : ¬ T w := by
    intro hT
    have := hT.1
    rw [hc] at this
    cases this
  exact ⟨(P.opened hT).1, h⟩

/-- … and is told ConnectionClosed exactly when the transport ends: a read that meets EOF -/
theorem C04_client_told_closed_at_eof (w : World) (hr : w.Reachable) (hc : w.c.role = .client)
    (hcr : w.c.state.closeReceived = true) (hidle : w.c.additional = none ∧ w.c.unflushed = false)
    (hbuf : w.c.codec.inBuf = [] ∧ w.c.codec.header = none)
    (heof : w.t.rd = [] ∧ w.t.rdDef = .eof) :
    (w.read).2 = .err .connectionClosed ∧ (w.read).1.c.state = .terminated := by
  have _ := hr
  exact read_eof w hc hcr hidle.1 hidle.2 hbuf.1 hbuf.2 heof.1 heof.2

/-! ## (4) the side that did not start closing -/

theorem msgOf_close {f : Frame} (h : f.isClose = true) : ∃ cf, msgOf f = .close cf := by
  have ho : f.header.opcode = .control .close := by
    unfold Frame.isClose at h
    simpa using h
  unfold msgOf
  rw [ho]
  dsimp only
  unfold closeMsgOf
  match f.payload with
  | [] => exact ⟨_, rfl⟩
  | [_] => exact ⟨_, rfl⟩
  | a :: b :: reason =>
    dsimp only
    by_cases hw : Spec.wireCloseCode (Spec.be16 a b) = true
    · rw [if_pos hw]; exact ⟨_, rfl⟩
    · rw [if_neg hw]; exact ⟨_, rfl⟩

/-- reading a legitimate peer's wire image that contains a Close delivers exactly the messages
before it and then the Close — after which (C03) it refuses writes and has the reply pending -/
theorem C04_close_is_delivered (sender : Role) (frames : List Frame)
    (hl : ∀ f ∈ frames, Legit sender f) (hc : CloseLast frames) (hclose : ∃ f ∈ frames, f.isClose = true)
    (cfg : Config) (hcfg : cfg.maxFrame = none ∧ cfg.maxMsg = none ∧ 200 ≤ cfg.maxw) (pre : Bytes) (c : Ctx)
    (hnew : Ctx.new (Pipe.peerOf sender) cfg pre = some c)
    (t : Transport) (hb : ∀ e ∈ t.rd, e.benign = true) (hdef : t.rdDef = .err .wouldBlock)
    (hout : t.acceptsAll) (mu : List Mask)
    (hstream : pre ++ dataOf t.rd = encodeAll frames) (htot : (encodeAll frames).length < 2 ^ 64) :
    let w : World := { c := c, t := t, mu := mu }
    (readAll (readAllFuel w) w).1.length = frames.length ∧
    ∃ cf, (readAll (readAllFuel w) w).1.getLast? = some (.close cf) := by
  intro w
  have hsz : cfg.maxMsg = none → (pre ++ dataOf t.rd).length < 2 ^ 64 := by
    intro _
    rw [hstream]
    exact htot
  have h5 := (C05.C05_segmentation_independent_of_size (peerOf sender) cfg pre c hnew hcfg.2.2 t hb
    hdef hout mu hsz).1
  rw [hstream, decode_eq_dec,
    dec_legit_full sender cfg.acceptUnmasked ⟨cfg.maxFrame, cfg.maxMsg⟩ ⟨hcfg.1, hcfg.2.1⟩ frames hl,
    expectAll_map frames hc] at h5
  have h5' : (readAll (readAllFuel w) w).1 = frames.map msgOf := h5
  rw [h5']
  refine ⟨List.length_map _, ?_⟩
  obtain ⟨f, hf, hfc⟩ := hclose
  obtain ⟨pre', post, hfr⟩ := List.append_of_mem hf
  have hpost : post = [] := hc pre' f post hfr hfc
  subst hpost
  obtain ⟨cf, hcf⟩ := msgOf_close hfc
  refine ⟨cf, ?_⟩
  rw [hfr, List.map_append, List.map_cons, List.map_nil, List.getLast?_append, hcf]
  rfl

/-! ## (5) nothing is reported closed too early -/

/-- restated from C03 for both roles: ConnectionClosed implies a Close had been received, and for a
client that the transport ended during the call -/
theorem C04_closed_only_after_handshake (w : World) (op : Op) (hr : w.Reachable) (hop : op.noRaw)
    (h : (w.step op).2.err? = some .connectionClosed) :
    w.c.state.closeReceived = true ∧
    (w.c.role = .client → ∃ call ∈ newCalls w (w.step op).1, call.isEnd = true) :=
  ⟨(C03.C03_connection_closed_sound w op hr hop h).1,
   fun hc => C03.C03_client_closed_only_after_end w op hr hop hc h⟩

/-- … and for a server, on a transport that did not end, that everything queued was accepted -/
theorem closed_server_all_accepted (w : World) (op : Op) (hr : w.Reachable) (hop : op.noRaw)
    (h : (w.step op).2.err? = some .connectionClosed)
    (hlive : ∀ call ∈ newCalls w (w.step op).1, call.isEnd = false) :
    w.c.role = .server ∧ (w.step op).1.c.additional = none ∧
    (w.step op).1.t.accepted = encodeAll (w.step op).1.queued := by
  rcases (C03.C03_connection_closed_sound w op hr hop h).2.2 with ⟨r1, _, r3, r4⟩ | ⟨call, hc, he⟩
  · exact ⟨r1, r3, r4⟩
  · rw [hlive call hc] at he
    cases he

/-! ## concrete instances (the hypotheses are satisfiable, the conclusions are what `World.run` computes) -/

/-- (1) a server with a tiny write buffer (17 / 18 bytes) over a transport whose first write blocks -/
def exCfgS : Config := { wbuf := 17, maxw := 18 }

def exCloser0 : World :=
  { c := { role := .server, cfg := exCfgS,
           codec := { inBuf := [], maxOut := exCfgS.maxw, writeLen := exCfgS.wbuf } }
    t := { rd := [], wr := [.err .wouldBlock], fl := [] } }

/-- after a 15-byte binary message (17 bytes buffered, nothing written yet) -/
def exCloser : World := (exCloser0.run [.write (.binary [1, 2, 3, 4, 5, 6, 7, 8, 9, 10, 11, 12, 13, 14, 15])]).1

theorem exCloser_reachable : exCloser.Reachable :=
  ⟨exCloser0, _, ⟨.server, exCfgS, [], _, rfl, rfl, rfl, rfl, rfl, rfl⟩, by simp [Op.noRaw], rfl⟩

/-- close() itself fails with WouldBlock, the Close frame does not even fit into the buffer and
stays in the slot … -/
example : (exCloser.close none).2 = .err (.io .wouldBlock) := rfl
example : (exCloser.close none).1.c.additional = some (Frame.close none) ∧
    (exCloser.close none).1.c.codec.outBuf.length = 17 := by decide

/-- … and the next flush, over a transport that now accepts, drains the buffer, retries the slot and
puts the Close on the wire -/
example :
    let w2 := ((exCloser.close none).1.flush).1
    (∃ f ∈ w2.queued, f.isClose = true ∧ f.payload = (Frame.close none).payload) ∧
    w2.c.codec.outBuf = [] ∧ w2.t.accepted = encodeAll w2.queued :=
  C04_close_reaches_wire exCloser none exCloser_reachable (by decide) (by decide)
    ⟨rfl, rfl, rfl, rfl⟩ (by decide)

example : ((exCloser.close none).1.flush).1.t.accepted =
    [0x82, 15, 1, 2, 3, 4, 5, 6, 7, 8, 9, 10, 11, 12, 13, 14, 15, 0x88, 0] := by decide

/-- (2) the server of C03 after it has read the peer's Close: the reply is pending -/
def exSrvClosed : World := (C03.exServer.run [.read]).1

theorem exSrvClosed_slot : exSrvClosed.c.additional = some (Frame.close none) := by decide

example :
    (exSrvClosed.flush).2 = .err .connectionClosed ∧ (exSrvClosed.flush).1.c.state = .terminated ∧
    (exSrvClosed.flush).1.t.accepted = encodeAll (exSrvClosed.flush).1.queued ∧
    (exSrvClosed.flush).1.c.additional = none ∧ (exSrvClosed.read).2 = .err .connectionClosed :=
  C04_server_told_closed exSrvClosed C03.exClosed_reachable rfl (by decide) ⟨rfl, rfl, rfl, rfl⟩
    (by
      intro f hf
      rw [exSrvClosed_slot] at hf
      cases hf
      decide)

example : ∃ g ∈ (exSrvClosed.flush).1.queued, g.isClose = true ∧ g.payload = (Frame.close none).payload :=
  C04_server_reply_sent exSrvClosed _ C03.exClosed_reachable rfl (by decide) ⟨rfl, rfl, rfl, rfl⟩
    exSrvClosed_slot (by decide)

example : (exSrvClosed.flush).1.t.accepted = [0x88, 0] := by decide

/-- a server that closed first and then read the peer's reply: nothing pending, still told closed -/
def exSrvAcked : World := (C03.exServer.run [.close none, .read]).1

theorem exSrvAcked_reachable : exSrvAcked.Reachable :=
  ⟨C03.exServer, _, C03.exServer_init, by simp [Op.noRaw], rfl⟩

example : exSrvAcked.c.state = .closeAcknowledged ∧ exSrvAcked.c.additional = none := by decide

example : (exSrvAcked.flush).2 = .err .connectionClosed ∧ (exSrvAcked.read).2 = .err .connectionClosed :=
  have h := C04_server_told_closed exSrvAcked exSrvAcked_reachable rfl (by decide) ⟨rfl, rfl, rfl, rfl⟩
    (by
      intro f hf
      have hn : exSrvAcked.c.additional = none := by decide
      rw [hn] at hf
      cases hf)
  ⟨h.1, h.2.2.2.2⟩

/-- (3) a client whose transport delivers the server's Close and then ends -/
def exClient0 : World :=
  { c := { role := .client, cfg := {},
           codec := { inBuf := [], maxOut := ({} : Config).maxw, writeLen := ({} : Config).wbuf } }
    t := { rd := [.data [0x88, 0x00]], wr := [], fl := [], rdDef := .eof }
    mu := [⟨1, 2, 3, 4⟩] }

theorem exClient0_init : exClient0.Init := ⟨.client, {}, [], _, rfl, rfl, rfl, rfl, rfl, rfl⟩

def exCliClosed : World := (exClient0.run [.read]).1

theorem exCliClosed_reachable : exCliClosed.Reachable :=
  ⟨exClient0, _, exClient0_init, by simp [Op.noRaw], rfl⟩

theorem exCliClosed_slot : exCliClosed.c.additional = some (Frame.close none) := by decide

example : (exCliClosed.flush).2 = .ok () ∧
    ∃ g ∈ (exCliClosed.flush).1.queued, g.isClose = true ∧ g.payload = (Frame.close none).payload :=
  C04_client_reply_sent exCliClosed _ exCliClosed_reachable rfl (by decide) ⟨rfl, rfl, rfl, rfl⟩
    exCliClosed_slot (by decide)

example : (exCliClosed.flush).1.t.accepted = [0x88, 0x80, 1, 2, 3, 4] := by decide

/-- after the reply has been flushed: idle, and the next read meets EOF -/
def exCliIdle : World := (exClient0.run [.read, .flush]).1

theorem exCliIdle_reachable : exCliIdle.Reachable :=
  ⟨exClient0, _, exClient0_init, by simp [Op.noRaw], rfl⟩

example : (exCliIdle.read).2 = .err .connectionClosed ∧ (exCliIdle.read).1.c.state = .terminated :=
  C04_client_told_closed_at_eof exCliIdle exCliIdle_reachable rfl (by decide) (by decide) (by decide)
    (by decide)

/-- (4) the client reader of `C04.lean` (three bytes pre-read, the rest in pieces with WouldBlock in
between) is delivered "hi", the ping and then the Close -/
example :
    (readAll (readAllFuel { c := exCtx, t := exT }) { c := exCtx, t := exT }).1.length = exFrames.length ∧
    ∃ cf, (readAll (readAllFuel { c := exCtx, t := exT }) { c := exCtx, t := exT }).1.getLast? =
      some (.close cf) :=
  C04_close_is_delivered .server exFrames exFrames_legit exFrames_closeLast
    ⟨Frame.close (some ⟨.normal, [0x41]⟩), by simp [exFrames], rfl⟩ exCfg ⟨rfl, rfl, by decide⟩
    (exWire.take 3) exCtx rfl exT (by decide) rfl ⟨rfl, rfl, rfl, rfl⟩ [] (by decide) (by decide)

/-- (5) the flush that tells the server of (2) `ConnectionClosed` -/
example : exSrvClosed.c.state.closeReceived = true :=
  (C04_closed_only_after_handshake exSrvClosed .flush C03.exClosed_reachable trivial (by decide)).1

/-- … and the read that tells the client of (3): the transport call that ended it is in the log -/
example : ∃ call ∈ newCalls exCliIdle (exCliIdle.step .read).1, call.isEnd = true :=
  (C04_closed_only_after_handshake exCliIdle .read exCliIdle_reachable trivial (by decide)).2 rfl

end WsProofs.C04
