import WsModel.Generated.ReadInGen

/-! The machine translation of `FrameCodec::read_in` (`WsModel/Generated/ReadInGen.lean`) followed
by the caller's `?` is the leaf `readIn` the translated `read_frame` uses
(`WsModel/CodecM.lean`: "one transport read appended to the input buffer"), for every capacity
that leaves room for what the transport delivers.  The transport events of the model are
*resolved* (they say how many bytes the real transport delivered into the slice it was given), so
"the delivered bytes fit" is what the real buffer guarantees, not an assumption about the peer. -/
set_option linter.unusedSimpArgs false
namespace WsProofs.Tie
open WsModel WsModel.Gen WsModel.GenCodec

/-- the next read event fits into the spare capacity -/
def Fits (cap : Nat) (s : CS) : Prop :=
  ∀ bs, s.t.read.2 = .data bs → s.c.inBuf.length + bs.length ≤ cap

theorem Tie_codec_readIn (cap : Nat) (s : CS) (hcap : s.c.inBuf.length < cap) (hfit : Fits cap s) :
    (readInGen cap >>= ioTry) s = readIn s := by
  obtain ⟨c, t⟩ := s
  have hbind : ∀ {α β : Type} (x : M α) (k : α → M β) (s : CS), (x >>= k) s =
      match x s with
      | (s, .ok a) => k a s
      | (s, .err e) => (s, .err e)
      | (s, .panic p) => (s, .panic p) := fun _ _ _ => rfl
  have hpure : ∀ {α : Type} (a : α) (s : CS), (pure a : M α) s = (s, .ok a) := fun _ _ => rfl
  simp only [readInGen, readIn, hbind, hpure, inLen, inResize, inTruncate, modifyW, streamReadAt, ioTry,
    ioCopiedUnwrapOr, panicAt, throwE]
  have hcap' : c.inBuf.length < cap := hcap
  rw [if_neg (by simp only [Bool.not_eq_true', decide_eq_false_iff_not, gt_iff_lt, Nat.not_lt]; omega)]
  simp only [hbind, hpure, modifyW, streamReadAt]
  have htake : c.inBuf.take cap = c.inBuf := List.take_of_length_le (Nat.le_of_lt hcap)
  simp only [htake]
  unfold Fits at hfit
  simp only at hfit
  cases hr : t.read with
  | mk t' ev =>
    rw [hr] at hfit
    cases ev with
    | data bs =>
      have hb := hfit bs rfl
      simp only [List.length_append, List.length_replicate]
      have hn : min bs.length (c.inBuf.length + (cap - c.inBuf.length) - c.inBuf.length) = bs.length := by omega
      simp only [hn, List.take_left', List.take_length, hpure]
      have : (c.inBuf ++ bs ++ List.drop (c.inBuf.length + bs.length) (c.inBuf ++ List.replicate (cap - c.inBuf.length) 0)).take (c.inBuf.length + bs.length) = c.inBuf ++ bs := by
        rw [List.take_append_of_le_length (by simp)]
        rw [List.take_of_length_le (by simp)]
      simp only [this]
    | eof =>
      simp only [Nat.add_zero, List.take_left', hpure]
    | err k =>
      simp only [Nat.add_zero, List.take_left', hpure]
      rfl

/-- without spare capacity the translated function stops at its `debug_assert!` -/
theorem Tie_codec_readIn_full (cap : Nat) (s : CS) (hcap : cap ≤ s.c.inBuf.length) :
    (readInGen cap s).2 = .panic .readInCapacity := by
  have hbind : ∀ {α β : Type} (x : M α) (k : α → M β) (s : CS), (x >>= k) s =
      match x s with
      | (s, .ok a) => k a s
      | (s, .err e) => (s, .err e)
      | (s, .panic p) => (s, .panic p) := fun _ _ _ => rfl
  simp only [readInGen, hbind, inLen]
  have hc : decide (cap > s.c.inBuf.length) = false := by simpa using hcap
  simp only [hc, Bool.not_false, if_true]
  rfl

/-- the hypotheses are met: an empty buffer with the crate's initial capacity and a transport
about to deliver three bytes -/
example : Fits 4096 { c := { inBuf := [], outBuf := [], maxOut := 0, writeLen := 0, header := none },
                      t := { (default : Transport) with rd := [.data [1, 2, 3]] } } := by
  intro bs h
  simp only [Transport.read] at h
  cases h
  decide

end WsProofs.Tie
