import WsModel.Generated.FrameGen
import WsProofs.Lemmas.TieFrameLemmas

/-! The machine translation of `Frame::{len, into_close, close, format, format_into_buf}`
(`WsModel/Generated/FrameGen.lean`) computes exactly what the hand-written model
(`WsModel/Frame.lean`) computes: same output buffer afterwards, same result, for every frame and
every buffer. -/
namespace WsProofs.Tie
open WsModel WsModel.Gen WsModel.GenFrame

theorem Tie_frame_len (f : Frame) (out : Bytes) : GenFrame.len f out = (out, .ok f.len) := rfl

theorem Tie_frame_intoClose (f : Frame) (out : Bytes) :
    GenFrame.intoClose f out = (out, f.intoClose) := by
  unfold GenFrame.intoClose Frame.intoClose
  cases f with
  | mk h payload =>
  cases payload with
  | nil => rfl
  | cons a rest =>
    cases rest with
    | nil => rfl
    | cons b reason =>
      simp only [List.length_cons]
      fr_norm
      show fr_then (out, utf8BytesTryFrom reason) _ = _
      unfold utf8BytesTryFrom
      cases isUtf8 reason <;> rfl

theorem Tie_frame_close (msg : Option CloseFrame) (out : Bytes) :
    GenFrame.close msg out = (out, .ok (Frame.close msg)) := by
  unfold GenFrame.close Frame.close
  cases msg with
  | none => rfl
  | some cf => cases cf; rfl

theorem Tie_frame_format (f : Frame) (out : Bytes) :
    GenFrame.format f out = (out ++ f.format, .ok ()) := by
  unfold GenFrame.format Frame.format
  cases f with
  | mk h payload =>
  cases h with
  | mk fin r1 r2 r3 op mask =>
  cases mask with
  | none => fr_norm [List.append_assoc]
  | some m => fr_norm [List.append_assoc]

theorem Tie_frame_formatIntoBuf (f : Frame) (buf : Bytes) :
    GenFrame.formatIntoBuf f buf = (f.formatIntoBuf buf, .ok ()) := by
  unfold GenFrame.formatIntoBuf Frame.formatIntoBuf
  cases f with
  | mk h payload =>
  cases h with
  | mk fin r1 r2 r3 op mask =>
  cases mask with
  | none => fr_norm
  | some m => fr_norm

end WsProofs.Tie
