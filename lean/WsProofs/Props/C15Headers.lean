import WsModel.Handshake.Run
import WsProofs.Lemmas.HsServerChecks
import WsProofs.Lemmas.HsHMap
/-! C15, header printing: what `write_response` prints for a header map built by appending a list
of headers is a rearrangement of that list (names in lower case) that keeps the values of each name
in order; so every header of a rejection or appended by a callback reaches the wire. -/
namespace WsProofs.C15
open WsModel WsModel.Hs WsModel.Gen WsProofs.HsL

theorem iter_nil : HMap.iter [] = [] := rfl

theorem iter_cons (k : Bytes) (vs : List Bytes) (rest : HMap) :
    HMap.iter ((k, vs) :: rest) = vs.map (fun v => (k, v)) ++ HMap.iter rest := by
  simp [HMap.iter]

/-- appending adds exactly one printed pair -/
theorem iter_append_perm (n v : Bytes) : ∀ m : HMap,
    (m.append n v).iter.Perm (m.iter ++ [(lowerAll n, v)])
  | [] => by simp [HMap.append, HMap.iter]
  | (k, vs) :: rest => by
    by_cases hk : k = lowerAll n
    · subst hk
      simp only [HMap.append, beq_self_eq_true, if_true, iter_cons, List.map_append, List.map_cons,
        List.map_nil, List.append_assoc]
      exact List.Perm.append_left _ List.perm_append_comm
    · have hk' : (k == lowerAll n) = false := by simpa using hk
      simp only [HMap.append, hk', iter_cons, List.append_assoc]
      exact List.Perm.append_left _ (iter_append_perm n v rest)

theorem foldl_iter_perm : ∀ (hs : List (Bytes × Bytes)) (m : HMap),
    (hs.foldl (fun m (n, v) => m.append n v) m).iter.Perm
      (m.iter ++ hs.map fun (n, v) => (lowerAll n, v))
  | [], m => by simp
  | (n, v) :: rest, m => by
    simp only [List.foldl_cons, List.map_cons]
    refine (foldl_iter_perm rest (m.append n v)).trans ?_
    refine ((iter_append_perm n v m).append_right _).trans ?_
    simp

/-- no printed pair of `m` has a name that is not a key of `m` -/
theorem filter_iter_of_not_key (k : Bytes) : ∀ m : HMap, k ∉ m.map Prod.fst →
    (m.iter.filter fun p => p.1 == k) = []
  | [], _ => by simp [iter_nil]
  | (k', vs) :: rest, h => by
    simp only [List.map_cons, List.mem_cons, not_or] at h
    have hk : (k' == k) = false := by simpa using fun e => h.1 e.symm
    simp [iter_cons, List.filter_append, filter_iter_of_not_key k rest h.2, List.filter_map, hk,
      Function.comp_def]

/-- with pairwise distinct keys, the new value comes after every printed pair of the same name -/
theorem filter_iter_append (n v k : Bytes) : ∀ m : HMap, KeysNodup m →
    ((m.append n v).iter.filter fun p => p.1 == k) =
      (m.iter.filter fun p => p.1 == k) ++ (if lowerAll n == k then [(lowerAll n, v)] else [])
  | [], _ => by
    by_cases h : lowerAll n = k <;> simp [HMap.append, HMap.iter, h]
  | (k', vs) :: rest, hn => by
    have hn' : k' ∉ rest.map Prod.fst ∧ KeysNodup rest := by
      simpa [KeysNodup, List.nodup_cons] using hn
    by_cases hk : k' = lowerAll n
    · subst hk
      simp only [HMap.append, beq_self_eq_true, if_true, iter_cons, List.map_append, List.map_cons,
        List.map_nil, List.filter_append, List.append_assoc]
      by_cases hkk : lowerAll n = k
      · subst hkk
        simp [filter_iter_of_not_key _ rest hn'.1]
      · have : (lowerAll n == k) = false := by simpa using hkk
        simp [this]
    · have hk' : (k' == lowerAll n) = false := by simpa using hk
      simp only [HMap.append, hk', Bool.false_eq_true, if_false, iter_cons, List.filter_append,
        List.append_assoc]
      rw [filter_iter_append n v k rest hn'.2]

theorem foldl_filter_iter (k : Bytes) : ∀ (hs : List (Bytes × Bytes)) (m : HMap), KeysNodup m →
    (((hs.foldl (fun m (n, v) => m.append n v) m).iter.filter fun p => p.1 == k).map (·.2)) =
      ((m.iter.filter fun p => p.1 == k).map (·.2))
        ++ ((hs.filter fun p => lowerAll p.1 == k).map (·.2))
  | [], m, _ => by simp
  | (n, v) :: rest, m, hn => by
    simp only [List.foldl_cons]
    rw [foldl_filter_iter k rest (m.append n v) (keysNodup_append hn n v), filter_iter_append n v k m hn]
    by_cases h : lowerAll n = k
    · simp [h]
    · have : (lowerAll n == k) = false := by simpa using h
      simp [this]

theorem infix_flatten_map {α β} (f : α → List β) {a : α} : ∀ {l : List α}, a ∈ l →
    f a <:+: (l.map f).flatten
  | b :: l, h => by
    rw [List.mem_cons] at h
    cases h with
    | inl h =>
      subst h
      exact ⟨[], (l.map f).flatten, by simp⟩
    | inr h =>
      obtain ⟨s, t, e⟩ := infix_flatten_map f h
      exact ⟨f b ++ s, t, by simp [← e]⟩

/-- nothing is dropped, nothing invented: what is printed is a rearrangement of what was appended
(names in lower case) -/
theorem C15_headers_perm (hs : List (Bytes × Bytes)) :
    ((HMap.ofList hs).iter).Perm (hs.map fun (n, v) => (lowerAll n, v)) := by
  have := foldl_iter_perm hs []
  simpa [HMap.ofList, iter_nil] using this

/-- the values of one name keep the order in which they were appended -/
theorem C15_headers_values_in_order (hs : List (Bytes × Bytes)) (k : Bytes) :
    (((HMap.ofList hs).iter).filter fun p => p.1 == k).map (·.2) =
      ((hs.filter fun p => lowerAll p.1 == k).map (·.2)) := by
  have := foldl_filter_iter k hs [] (by simp [KeysNodup])
  simpa [HMap.ofList, iter_nil] using this

/-- every appended header is a line of the printed header block -/
theorem C15_every_header_line_written (hs : List (Bytes × Bytes)) (n v : Bytes) (h : (n, v) ∈ hs) :
    headerLine (lowerAll n) v <:+: headerLines hs := by
  have hm : (lowerAll n, v) ∈ (HMap.ofList hs).iter :=
    (C15_headers_perm hs).mem_iff.2 (List.mem_map.2 ⟨(n, v), h, rfl⟩)
  exact infix_flatten_map (fun (p : Bytes × Bytes) => headerLine p.1 p.2) hm

/-- a rejection is written in full: status line, every header, the blank line and the body -/
theorem C15_rejection_written_in_full (status : Nat) (line : Bytes) (hs : List (Bytes × Bytes))
    (body : Option Bytes) :
    line ++ crlf <+: rejectBytes line hs body ∧
    (∀ n v, (n, v) ∈ hs → headerLine (lowerAll n) v <:+: rejectBytes line hs body) ∧
    (crlf ++ body.getD []) <:+ rejectBytes line hs body := by
  refine ⟨⟨headerLines hs ++ crlf ++ body.getD [], by simp [rejectBytes]⟩, ?_,
    ⟨line ++ crlf ++ headerLines hs, by simp [rejectBytes]⟩⟩
  intro n v h
  obtain ⟨s, t, e⟩ := C15_every_header_line_written hs n v h
  exact ⟨line ++ crlf ++ s, t ++ crlf ++ body.getD [], by simp [rejectBytes, ← e]⟩

/-- every header a callback appends to the 101 response is written -/
theorem C15_callback_headers_written (acc : Bytes) (extra : List (Bytes × Bytes)) (n v : Bytes)
    (h : (n, v) ∈ extra) : headerLine (lowerAll n) v <:+: response101 acc extra := by
  obtain ⟨s, t, e⟩ := C15_every_header_line_written
    ([srvRespConnection, srvRespUpgrade, (srvRespAcceptName, acc)] ++ extra) n v
    (List.mem_append_right _ h)
  exact ⟨statusLine101 ++ s, t ++ crlf, by simp only [response101, ← e, List.append_assoc]⟩

/-- a repeated name (differing only in case) is grouped under its first occurrence:
"a: 1\r\na: 3\r\nb: 2\r\n" -/
example : headerLines [([65], [49]), ([66], [50]), ([97], [51])] =
    [97, 58, 32, 49, 13, 10, 97, 58, 32, 51, 13, 10, 98, 58, 32, 50, 13, 10] := by decide

end WsProofs.C15
