import WsProofs.Props.TieParts
import WsProofs.Lemmas.HsServerChecks

/-! C15's acceptance criterion stated directly for the machine translation of `create_parts`
(`WsModel/Generated/PartsGen.lean`, regenerated from `/repo` on every run). -/
namespace WsProofs.C15Gen
open WsModel WsModel.Gen WsModel.Hs WsModel.GenParts WsProofs.Tie WsProofs.HsL

/-- the translated `create_parts` answers a GET request of version ≥ 1.1 with a 101 builder if and
only if the request is a valid upgrade — `Connection` contains the token `Upgrade`, `Upgrade` is
`websocket` (both case-insensitively, as visible ASCII), `Sec-WebSocket-Version` is exactly `13`,
a `Sec-WebSocket-Key` is present — and then the builder carries status 101, the request's
version and exactly `Connection: Upgrade`, `Upgrade: websocket`, `Sec-WebSocket-Accept:
base64(sha1(key ++ GUID))`, in this order -/
theorem C15_gen_createParts_ok_iff (version : Nat) (headers : List (Bytes × Bytes)) (hv : 1 ≤ version)
    (b : Builder) :
    GenParts.createParts ⟨GET, version, headers⟩ = .ok b ↔
      connOk headers ∧ upgOk headers ∧ verOk headers ∧
        ∃ k, hget headers srvKeyName = some k ∧
          b = builderOf version (base64Encode (sha1 (k ++ wsGuidLit))) := by
  rw [Tie_parts_createParts version headers hv]
  cases hc : Hs.createParts headers with
  | error e =>
    constructor
    · intro h; cases h
    · rintro ⟨h1, h2, h3, k, hk, _⟩
      have := (createParts_ok_iff headers _).2 ⟨h1, h2, h3, k, hk, rfl⟩
      rw [hc] at this; cases this
  | ok key =>
    obtain ⟨h1, h2, h3, k, hk, hkey⟩ := (createParts_ok_iff headers key).1 hc
    constructor
    · intro h
      simp only [Except.ok.injEq] at h
      exact ⟨h1, h2, h3, k, hk, by rw [← h, hkey]⟩
    · rintro ⟨_, _, _, k', hk', hb⟩
      rw [hk] at hk'
      simp only [Option.some.injEq] at hk'
      subst hk'
      rw [hb, hkey]

/-- a request that is not GET, or older than HTTP/1.1, never gets a builder from the translated code -/
theorem C15_gen_refuses_method_and_version (m : Bytes) (version : Nat) (headers : List (Bytes × Bytes))
    (h : m ≠ GET ∨ (m = GET ∧ version = 0)) :
    ∃ e, GenParts.createParts ⟨m, version, headers⟩ = .error e := by
  rcases h with hm | ⟨rfl, rfl⟩
  · exact ⟨_, Tie_parts_wrong_method m version headers hm⟩
  · exact ⟨_, Tie_parts_old_version headers⟩

end WsProofs.C15Gen
