import WsModel.Endpoint
import WsProofs.Lemmas.EndpointInv
import WsProofs.Lemmas.EndpointStep

/-! C10 — accepted writes reach the transport exactly once and in order, under every transport
write outcome (the write script `World.t.wr`, with its default, is universally quantified). -/
namespace WsProofs.C10
open WsModel WsModel.Gen

/-- frames that only user writes create (the library never generates text, binary or ping) -/
def isUserData (f : Frame) : Bool :=
  f.header.opcode == .data .text || f.header.opcode == .data .binary || f.header.opcode == .control .ping

def userFrame : Message → Option Frame
  | .text d => some (Frame.message d (.data .text) true)
  | .binary d => some (Frame.message d (.data .binary) true)
  | .ping d => some (Frame.ping d)
  | _ => none

/-! ### helpers -/

theorem isUserData_of_slot {g : Frame} (h : g.isPong = true ∨ g.isClose = true) :
    isUserData g = false := by
  unfold isUserData
  rcases h with h | h
  · have : g.header.opcode = .control .pong := by
      unfold Frame.isPong at h; simpa using h
    rw [this]; rfl
  · have : g.header.opcode = .control .close := by
      unfold Frame.isClose at h; simpa using h
    rw [this]; rfl

theorem filter_qext {q q' : List Frame} (h : QExt q q') :
    q'.filter isUserData = q.filter isUserData := by
  obtain ⟨l, rfl, hl⟩ := h
  rw [List.filter_append]
  have : l.filter isUserData = [] := by
    rw [List.filter_eq_nil_iff]
    intro g hg
    rw [isUserData_of_slot (hl g hg)]
    simp
  rw [this, List.append_nil]

theorem userFrame_spec {m : Message} {f : Frame} (hm : userFrame m = some f) :
    isUserData f = true ∧ f.header.fin = true ∧ f.isClose = false ∧
    ((∃ d, m = .text d ∧ f = Frame.message d (.data .text) true) ∨
     (∃ d, m = .binary d ∧ f = Frame.message d (.data .binary) true) ∨
     (∃ d, m = .ping d ∧ f = Frame.ping d)) := by
  cases m with
  | text d =>
    have : f = Frame.message d (.data .text) true := (Option.some.inj hm).symm
    subst this
    exact ⟨rfl, rfl, rfl, Or.inl ⟨d, rfl, rfl⟩⟩
  | binary d =>
    have : f = Frame.message d (.data .binary) true := (Option.some.inj hm).symm
    subst this
    exact ⟨rfl, rfl, rfl, Or.inr (Or.inl ⟨d, rfl, rfl⟩)⟩
  | ping d =>
    have : f = Frame.ping d := (Option.some.inj hm).symm
    subst this
    exact ⟨rfl, rfl, rfl, Or.inr (Or.inr ⟨d, rfl, rfl⟩)⟩
  | pong d => cases hm
  | close c => cases hm
  | frame g => cases hm

/-! ### the theorems -/

/-- accepted ++ still-buffered = the encoded queue: no byte lost, repeated or reordered, under
every transport write outcome (accept k of n for every k, WouldBlock, errors) -/
theorem C10_fifo (w : World) (h : w.Reachable) :
    w.t.accepted ++ w.c.codec.outBuf = encodeAll w.queued :=
  (reachable_inv w h).fifo

/-- a user data message is queued (exactly once, after all earlier ones) iff its write returned Ok
or a transport error; otherwise nothing of it is queued -/
theorem C10_user_order (w : World) (m : Message) (f : Frame) (hr : w.Reachable)
    (hm : userFrame m = some f) :
    (((w.write m).2 = .ok () ∨ ∃ k, (w.write m).2 = .err (.io k)) →
        ∃ f', (w.write m).1.queued.filter isUserData = w.queued.filter isUserData ++ [f'] ∧
              f'.payload = f.payload ∧ f'.header.opcode = f.header.opcode ∧ f'.header.fin = true) ∧
    (¬ ((w.write m).2 = .ok () ∨ ∃ k, (w.write m).2 = .err (.io k)) →
        (w.write m).1.queued.filter isUserData = w.queued.filter isUserData) := by
  have hI := reachable_inv w hr
  obtain ⟨hud, hfin, _, hshape⟩ := userFrame_spec hm
  by_cases hs : w.c.state = .active
  · have hw : w.write m = w.writeData f := by
      obtain ⟨e1, e2, e3⟩ := write_data_eq w hs
      rcases hshape with ⟨d, rfl, rfl⟩ | ⟨d, rfl, rfl⟩ | ⟨d, rfl, rfl⟩
      · exact e1 d
      · exact e2 d
      · exact e3 d
    rw [hw]
    obtain ⟨f', hsk, hcase⟩ := (writeData_spec w f hs).queue hI.slotOk
    rcases hcase with ⟨hres, hq⟩ | ⟨hres, l, hq, hl⟩
    · refine ⟨?_, fun _ => by rw [hq]⟩
      intro hok
      rcases hok with hok | ⟨k, hok⟩ <;> rw [hres] at hok <;> cases hok
    · refine ⟨fun _ => ⟨f', ?_, hsk.1, hsk.2.1, hsk.2.2.trans hfin⟩, fun hn => absurd hres hn⟩
      have hud' : isUserData f' = true := by
        unfold isUserData at hud ⊢
        rw [hsk.2.1]; exact hud
      have hlnil : l.filter isUserData = [] := by
        rw [List.filter_eq_nil_iff]
        intro g hg
        rw [isUserData_of_slot (hl g hg)]
        simp
      rw [hq, List.filter_append, List.filter_append, hlnil, List.append_nil]
      simp [hud']
  · obtain ⟨hsame, hres⟩ := write_refused w m hs
    refine ⟨?_, fun _ => by rw [hsame]⟩
    intro hok
    rcases hres with hres | hres <;> rcases hok with hok | ⟨k, hok⟩ <;> rw [hres] at hok <;> cases hok

/-- no other call queues user data -/
theorem C10_other_ops_add_no_data (w : World) (op : Op) (hr : w.Reachable) (hop : op.noRaw)
    (h : ∀ m, op = .write m → userFrame m = none) :
    (w.step op).1.queued.filter isUserData = w.queued.filter isUserData := by
  apply filter_qext
  apply step_qext w op (reachable_inv w hr) hop
  intro d
  refine ⟨?_, ?_, ?_⟩ <;> intro he <;> have := h _ he <;> cases this

/-- when flush returns success everything has been handed to the transport and the transport has
been flushed after its last write -/
theorem C10_flush_ok (w : World) (hr : w.Reachable) (h : (w.flush).2 = .ok ()) :
    (w.flush).1.c.codec.outBuf = [] ∧ (w.flush).1.t.accepted = encodeAll (w.flush).1.queued ∧
    (w.flush).1.t.flushedUpTo = (w.flush).1.t.accepted.length ∧ (w.flush).1.c.unflushed = false := by
  have hI := reachable_inv w hr
  obtain ⟨h1, h2, h3⟩ := flush_ok_spec hI h
  refine ⟨h1, ?_, h2, h3⟩
  have hf := (flush_inv hI).fifo
  rw [h1, List.append_nil] at hf
  exact hf

/-! ### the hypotheses are satisfiable: concrete histories -/

/-- a server whose transport first blocks, then accepts 2 bytes, then everything -/
def exServer : World :=
  { c := { role := .server, cfg := {},
           codec := { inBuf := [], maxOut := ({} : Config).maxw, writeLen := ({} : Config).wbuf } }
    t := { rd := [], wr := [.err .wouldBlock, .accept 2], fl := [] } }

theorem exServer_init : exServer.Init :=
  ⟨.server, {}, [], _, rfl, rfl, rfl, rfl, rfl, rfl⟩

theorem ex_reachable : (exServer.run [.write (.binary [1]), .close none]).1.Reachable :=
  ⟨exServer, _, exServer_init, by simp [Op.noRaw], rfl⟩

/-- `close` hit WouldBlock: nothing accepted yet, data frame and Close frame wait in the buffer -/
example : (exServer.run [.write (.binary [1]), .close none]).1.t.accepted = [] ∧
    (exServer.run [.write (.binary [1]), .close none]).1.c.codec.outBuf = [0x82, 0x01, 0x01, 0x88, 0x00] := by
  decide

/-- the next `flush` succeeds (partial write of 2 bytes, then the rest): hypotheses of `C10_flush_ok` -/
example : ((exServer.run [.write (.binary [1]), .close none]).1.flush).2 = .ok () := rfl

example : ((exServer.run [.write (.binary [1]), .close none]).1.flush).1.t.accepted =
    [0x82, 0x01, 0x01, 0x88, 0x00] := by decide

/-- hypotheses of `C10_user_order`: a user write on a reachable active world that returns Ok -/
theorem ex_reachable0 : (exServer.run []).1.Reachable :=
  ⟨exServer, _, exServer_init, by simp, rfl⟩

example : userFrame (.binary [1]) = some (Frame.message [1] (.data .binary) true) ∧
    ((exServer.run []).1.write (.binary [1])).2 = .ok () := ⟨rfl, rfl⟩

/-- a client (frames are masked with keys from the oracle), write hits a transport error:
still queued exactly once -/
def exClient : World :=
  { c := { role := .client, cfg := { wbuf := 0 },
           codec := { inBuf := [], maxOut := ({} : Config).maxw, writeLen := 0 } }
    t := { rd := [], wr := [.accept 3, .err .other], fl := [] }
    mu := [⟨1, 2, 3, 4⟩] }

example : exClient.Init := ⟨.client, { wbuf := 0 }, [], _, rfl, rfl, rfl, rfl, rfl, rfl⟩

example : (exClient.write (.binary [1])).2 = .err (.io .other) ∧
    (exClient.write (.binary [1])).1.queued.filter isUserData =
      [{ header := { (Frame.message [1] (.data .binary) true).header with mask := some ⟨1, 2, 3, 4⟩ },
         payload := [1] }] ∧
    (exClient.write (.binary [1])).1.t.accepted = [0x82, 0x81, 1] := ⟨rfl, by decide, by decide⟩

end WsProofs.C10
