import WsModel.Generated.Coding
import WsProofs.Lemmas.Ite

/-! # C20 — close status codes map to and from their numeric values without loss

All statements are about `WsModel.Gen.closeCodeOfU16` / `closeCodeToU16` / `closeCodeIsAllowed`,
which are regenerated from `src/protocol/frame/coding.rs` on every run. -/
namespace WsProofs.C20
open WsModel.Gen

/-- the wire-allowed set of the property statement -/
def allowedSpec (c : Nat) : Prop :=
  (1000 ≤ c ∧ c ≤ 1003) ∨ (1007 ≤ c ∧ c ≤ 1013) ∨ (3000 ≤ c ∧ c ≤ 4999)

/-- Converting any 16-bit status code to the close-code type and back returns the same number. -/
theorem C20_u16_roundtrip (c : Nat) (_hc : c < 65536) : closeCodeToU16 (closeCodeOfU16 c) = c := by
  unfold closeCodeOfU16
  repeat' (apply ite_cases (P := fun x => closeCodeToU16 x = c) <;> intro h)
  all_goals first | (simp only [closeCodeToU16]; omega) | simp only [closeCodeToU16]

/-- Converting a decoded value to a number and back returns an equal value. -/
theorem C20_code_roundtrip (c : Nat) (hc : c < 65536) :
    closeCodeOfU16 (closeCodeToU16 (closeCodeOfU16 c)) = closeCodeOfU16 c := by
  rw [C20_u16_roundtrip c hc]

/-- The 'may appear on the wire' predicate is true exactly for 1000–1003, 1007–1013, 3000–4999. -/
theorem C20_allowed_iff (c : Nat) (_hc : c < 65536) :
    closeCodeIsAllowed (closeCodeOfU16 c) = true ↔ allowedSpec c := by
  unfold closeCodeOfU16 allowedSpec
  repeat' (apply ite_cases (P := fun x => closeCodeIsAllowed x = true ↔ _) <;> intro h)
  all_goals (simp only [closeCodeIsAllowed, true_iff, false_iff, Bool.false_eq_true]; omega)

/-- every value of the close-code type the decoder can produce is a fixed point of
encode-then-decode (the second half of the round-trip claim, stated on values) -/
theorem C20_value_roundtrip (v : CloseCode) (c : Nat) (hc : c < 65536) (hv : v = closeCodeOfU16 c) :
    closeCodeOfU16 (closeCodeToU16 v) = v := by
  subst hv; exact C20_code_roundtrip c hc

/-- non-vacuity: concrete codes on both sides of every boundary -/
example : closeCodeIsAllowed (closeCodeOfU16 1003) = true ∧ closeCodeIsAllowed (closeCodeOfU16 1004) = false
    ∧ closeCodeIsAllowed (closeCodeOfU16 1006) = false ∧ closeCodeIsAllowed (closeCodeOfU16 1007) = true
    ∧ closeCodeIsAllowed (closeCodeOfU16 1013) = true ∧ closeCodeIsAllowed (closeCodeOfU16 1014) = false
    ∧ closeCodeIsAllowed (closeCodeOfU16 2999) = false ∧ closeCodeIsAllowed (closeCodeOfU16 3000) = true
    ∧ closeCodeIsAllowed (closeCodeOfU16 4999) = true ∧ closeCodeIsAllowed (closeCodeOfU16 5000) = false
    ∧ closeCodeIsAllowed (closeCodeOfU16 0) = false ∧ closeCodeIsAllowed (closeCodeOfU16 65535) = false := by
  decide

end WsProofs.C20
