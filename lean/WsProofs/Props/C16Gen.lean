import WsProofs.Props.TieVerify
import WsProofs.Props.C16

/-! C16's acceptance criterion stated directly for the machine translation of
`VerifyData::verify_response` (`WsModel/Generated/VerifyGen.lean`, regenerated from `/repo` on
every run). -/
namespace WsProofs.C16Gen
open WsModel WsModel.Gen WsModel.Hs WsModel.GenVerify WsProofs.Tie WsProofs.C16

/-- the translated `verify_response` accepts a response that `from_httparse` let through if and
only if it is the matching 101: status 101, `Upgrade: websocket` and `Connection: Upgrade`
(case-insensitively, as visible ASCII), `Sec-WebSocket-Accept` byte for byte the expected value,
and a subprotocol exactly when one was offered, and then one of those offered -/
theorem C16_gen_verify_iff (v : VerifyData) (h : RawHead) (tail : Bytes)
    (hv : 1 ≤ h.version) (hc : 100 ≤ h.code ∧ h.code < 1000) :
    GenVerify.verifyResponse v (respOf h tail) = .ok () ↔
      (h.code = 101 ∧
       (∃ x, hget h.headers cliUpgradeName = some x ∧ toStr x = some x ∧ eqIgnoreCase x cliUpgradeValue = true) ∧
       (∃ x, hget h.headers cliConnectionName = some x ∧ toStr x = some x ∧ eqIgnoreCase x cliConnectionValue = true) ∧
       hget h.headers cliAcceptName = some v.acceptKey ∧
       ((hget h.headers cliProtocolName = none ∧ v.subprotocols = none) ∨
        (∃ p offered, hget h.headers cliProtocolName = some p ∧ v.subprotocols = some offered ∧
           toStr p = some p ∧ p ∈ offered))) := by
  rw [Tie_verify_response v h tail hv hc, C16_verify_iff]
  constructor
  · rintro ⟨_, rest⟩; exact rest
  · intro rest; exact ⟨hv, rest⟩

/-- in particular an accept value that differs from the expected one in any byte — the case of a
letter included — is refused by the translated code -/
theorem C16_gen_wrong_accept_refused (v : VerifyData) (h : RawHead) (tail : Bytes)
    (hv : 1 ≤ h.version) (hc : 100 ≤ h.code ∧ h.code < 1000)
    (hne : hget h.headers cliAcceptName ≠ some v.acceptKey) :
    GenVerify.verifyResponse v (respOf h tail) ≠ .ok () := by
  intro hok
  exact hne ((C16_gen_verify_iff v h tail hv hc).mp hok).2.2.2.1

/-- and a status other than 101 is refused -/
theorem C16_gen_not_101_refused (v : VerifyData) (h : RawHead) (tail : Bytes)
    (hv : 1 ≤ h.version) (hc : 100 ≤ h.code ∧ h.code < 1000) (hne : h.code ≠ 101) :
    GenVerify.verifyResponse v (respOf h tail) ≠ .ok () := by
  intro hok
  exact hne ((C16_gen_verify_iff v h tail hv hc).mp hok).1

end WsProofs.C16Gen
