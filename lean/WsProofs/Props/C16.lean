import WsModel.Handshake.Run
import WsProofs.Lemmas.HsMachine
import WsProofs.Lemmas.HsServerChecks
import WsProofs.Lemmas.HsHMap
import WsProofs.Lemmas.HsClientReq
import WsProofs.Lemmas.HsClientVerify

/-! # C16 — the client side of the opening handshake

The request written by `generate_request` is one GET with each of the five required headers exactly
once; a request built from a URL has the authority without credentials as Host and is accepted by
this library's server; the client accepts exactly the matching `101`; bytes that arrive together with
the response head are kept.

`http::HeaderMap` never holds two entries of the same name; the model type `HMap` is a plain list, so
theorems about `remove` carry that invariant as the hypothesis `(hm.map Prod.fst).Nodup`
(`keysNodup_ofList`: every map built by `HMap.ofList` has it). -/
namespace WsProofs.C16
open WsModel WsModel.Hs WsModel.Gen WsProofs.HsL

/-- the request is one GET with each of the five headers exactly once, then the other headers -/
theorem C16_request_shape (u : UriView) (hm : HMap) (req key : Bytes) (hwf : (hm.map Prod.fst).Nodup)
    (h : generateRequest u hm = .ok (req, key)) :
    ∃ path v1 v2 v3 v4 others,
      u.pathAndQuery = some path ∧
      req = requestLine path ++ headerLine (reqHeaderNames.getD 0 []) v1 ++ headerLine (reqHeaderNames.getD 1 []) v2
              ++ headerLine (reqHeaderNames.getD 2 []) v3 ++ headerLine (reqHeaderNames.getD 3 []) v4
              ++ headerLine reqKeyName key ++ others ++ crlf ∧
      hm.get (reqHeaderNames.getD 0 []) = some v1 ∧ hm.get reqKeyName = some key := by
  have hn : KeysNodup hm := hwf
  obtain ⟨path, req5, rest, others, hp, hk, _, ht, _, hreq⟩ := generateRequest_ok h
  have hnames : reqHeaderNames = [reqHeaderNames.getD 0 [], reqHeaderNames.getD 1 [], reqHeaderNames.getD 2 [],
      reqHeaderNames.getD 3 [], reqKeyName] := by decide
  rw [hnames] at ht
  obtain ⟨v1, o1, g1, _, r1, e1⟩ := takeRequired_cons_ok ht
  obtain ⟨v2, o2, _, _, r2, e2⟩ := takeRequired_cons_ok r1
  obtain ⟨v3, o3, _, _, r3, e3⟩ := takeRequired_cons_ok r2
  obtain ⟨v4, o4, _, _, r4, e4⟩ := takeRequired_cons_ok r3
  obtain ⟨v5, o5, g5, _, r5, e5⟩ := takeRequired_cons_ok r4
  simp only [takeRequired, Except.ok.injEq, Prod.mk.injEq] at r5
  have hn1 := keysNodup_remove hn (reqHeaderNames.getD 0 [])
  have hn2 := keysNodup_remove hn1 (reqHeaderNames.getD 1 [])
  have hn3 := keysNodup_remove hn2 (reqHeaderNames.getD 2 [])
  rw [get_remove_ne hn3 _ _ (by decide), get_remove_ne hn2 _ _ (by decide), get_remove_ne hn1 _ _ (by decide),
    get_remove_ne hn _ _ (by decide), hk] at g5
  have hv5 : v5 = key := (Option.some.inj g5).symm
  refine ⟨path, v1, v2, v3, v4, others, hp, ?_, g1, hk⟩
  rw [hreq, e1, e2, e3, e4, e5, ← r5.1, hv5]
  simp only [List.append_assoc, List.append_nil]

/-- after the five removals none of the five names is left (so each is written exactly once) -/
theorem C16_required_removed (names : List Bytes) (hm rest : HMap) (out : Bytes) (hwf : (hm.map Prod.fst).Nodup)
    (h : takeRequired names hm = .ok (out, rest)) : ∀ n ∈ names, rest.get n = none :=
  takeRequired_removed names h hwf

/-- a request built from a URL: the Host is the authority without credentials -/
theorem C16_host_without_credentials (u : UriView) (auth key : Bytes) (extra : List (Bytes × Bytes))
    (protos : List Bytes) (hm : HMap) (ha : u.authority = some auth)
    (h : requestFromUri u key extra protos = .ok hm) :
    ∃ host cred, hm.get hostName = some host ∧ auth = cred ++ host ∧ ¬ (64 : UInt8) ∈ host ∧
      (cred = [] ∨ cred.getLast? = some 64) := by
  unfold requestFromUri at h
  rw [ha] at h
  simp only at h
  by_cases he : (afterAt uriHostAfterLastAt auth).isEmpty = true
  · simp only [he, if_true] at h; cases h
  · simp only [he, Bool.false_eq_true, if_false, Except.ok.injEq] at h
    obtain ⟨cred, h1, h2, h3⟩ := afterAt_last auth
    refine ⟨afterAt true auth, cred, ?_, h1, h2, h3⟩
    rw [← h]
    exact get_ofList_head hostName _ _

/-- the header map `impl IntoClientRequest for Uri` builds when nothing is added -/
theorem ofList_base (host key : Bytes) :
    HMap.ofList [(hostName, host), (reqHeaderNames.getD 1 [], uriReqConnection), (reqHeaderNames.getD 2 [], uriReqUpgrade),
         (reqHeaderNames.getD 3 [], uriReqVersion), (reqKeyName, key)] =
      [(lowerAll hostName, [host]), (lowerAll (reqHeaderNames.getD 1 []), [uriReqConnection]),
       (lowerAll (reqHeaderNames.getD 2 []), [uriReqUpgrade]), (lowerAll (reqHeaderNames.getD 3 []), [uriReqVersion]),
       (lowerAll reqKeyName, [key])] := by
  rfl

/-- … and a server endpoint of this library accepts it (the header checks of create_parts pass and
produce the accept value the client expects) -/
theorem C16_server_accepts (u : UriView) (key : Bytes) (hm : HMap)
    (h : requestFromUri u key [] [] = .ok hm) :
    createParts hm.iter = .ok (base64Encode (sha1 (key ++ wsGuidLit))) := by
  unfold requestFromUri at h
  cases ha : u.authority with
  | none => rw [ha] at h; cases h
  | some auth =>
    rw [ha] at h
    simp only at h
    by_cases he : (afterAt uriHostAfterLastAt auth).isEmpty = true
    · simp only [he, if_true] at h; cases h
    · simp only [he, Bool.false_eq_true, if_false, Except.ok.injEq, List.isEmpty_nil, if_true, List.append_nil] at h
      rw [ofList_base] at h
      subst h
      apply (createParts_ok_iff _ _).2
      refine ⟨⟨uriReqConnection, rfl, by decide, srvConnectionToken, by decide, by decide⟩,
        ⟨uriReqUpgrade, rfl, by decide, by decide⟩, rfl, key, rfl, rfl⟩

/-- the accept value the client will insist on is derived from the key header it sends -/
theorem C16_expected_accept (u : UriView) (hm : HMap) (vd : VerifyData) (req key : Bytes)
    (hs : clientStart u hm = .ok (vd, req)) (hk : hm.get reqKeyName = some key) (hstr : toStr key = some key) :
    vd.acceptKey = base64Encode (sha1 (key ++ wsGuidLit)) := by
  have _ := hstr
  unfold clientStart at hs
  by_cases hsch : (!(u.scheme == some wsScheme || u.scheme == some wssScheme)) = true
  · simp only [hsch, if_true] at hs; cases hs
  · simp only [hsch, Bool.false_eq_true, if_false] at hs
    cases hx : extractSubprotocols hm with
    | error e => rw [hx] at hs; cases hs
    | ok subs =>
      rw [hx] at hs; simp only at hs
      cases hg : generateRequest u hm with
      | error e => rw [hg] at hs; cases hs
      | ok res =>
        obtain ⟨req', key'⟩ := res
        rw [hg] at hs
        simp only [Except.ok.injEq, Prod.mk.injEq] at hs
        obtain ⟨_, _, _, _, _, hk', _⟩ := generateRequest_ok hg
        rw [hk] at hk'
        have : key = key' := Option.some.inj hk'
        subst this
        rw [← hs.1]
/-- frame bytes that arrive together with the response head become the socket's pre-read buffer -/
theorem C16_tail_not_lost (parse : Bytes → HeadParse) (buf : Bytes) (a : AttackCheck) (t : Transport)
    (t' : Transport) (size : Nat) (h : RawHead) (tail : Bytes)
    (hr : singleRound parse (.reading buf a) t = (t', .doneReading size h tail)) :
    ∃ bs, t.read = (t', .data bs) ∧ parse (buf ++ bs) = .complete size h ∧ tail = (buf ++ bs).drop size := by
  cases hrd : t.read with
  | mk t1 ev =>
    cases ev with
    | eof => rw [singleRound_read_eof hrd] at hr; simp at hr
    | err k =>
      by_cases hk : k = .wouldBlock
      · subst hk; rw [singleRound_read_wb hrd] at hr; simp at hr
      · rw [singleRound_read_err hrd hk] at hr; simp at hr
    | data bs =>
      rw [singleRound_read_data hrd] at hr
      by_cases h1 : bs.isEmpty = true
      · simp only [h1, if_true] at hr; simp at hr
      · by_cases h2 : (!(a.check bs.length).2) = true
        · simp only [h1, h2, if_true] at hr; simp at hr
        · simp only [h1, h2, parseStep] at hr
          cases hp : parse (buf ++ bs) with
          | incomplete => rw [hp] at hr; simp at hr
          | tooManyHeaders => rw [hp] at hr; simp at hr
          | error => rw [hp] at hr; simp at hr
          | complete sz h' =>
            rw [hp] at hr
            simp only [Bool.false_eq_true, if_false, Prod.mk.injEq, Round.doneReading.injEq] at hr
            obtain ⟨e1, e2, e3, e4⟩ := hr
            subst e1 e2 e3 e4
            exact ⟨bs, rfl, hp, rfl⟩

/-- the client accepts exactly the matching 101 -/
theorem C16_verify_iff (v : VerifyData) (h : RawHead) (tail : Bytes) :
    verifyResponse v h tail = .ok () ↔
      (1 ≤ h.version ∧ h.code = 101 ∧
       (∃ x, hget h.headers cliUpgradeName = some x ∧ toStr x = some x ∧ eqIgnoreCase x cliUpgradeValue = true) ∧
       (∃ x, hget h.headers cliConnectionName = some x ∧ toStr x = some x ∧ eqIgnoreCase x cliConnectionValue = true) ∧
       hget h.headers cliAcceptName = some v.acceptKey ∧
       ((hget h.headers cliProtocolName = none ∧ v.subprotocols = none) ∨
        (∃ p offered, hget h.headers cliProtocolName = some p ∧ v.subprotocols = some offered ∧
           toStr p = some p ∧ p ∈ offered))) := by
  rw [verifyResponse_eq, verifyCore_iff, cliAccB_iff, protoCheck_iff]
  unfold cliUpgB cliConnB
  rw [eqCheck_iff, eqCheck_iff]
/-! ### concrete instances (non-vacuity) and the counterexamples behind the added hypotheses -/

/-- `ws://u@h/` -/
def exUri : UriView := { scheme := some wsScheme, authority := some [117, 64, 104], pathAndQuery := some [47] }

def exMap : HMap :=
  [([104, 111, 115, 116], [[104]]), ([99, 111, 110, 110, 101, 99, 116, 105, 111, 110], [[85, 112, 103, 114, 97, 100, 101]]),
   ([117, 112, 103, 114, 97, 100, 101], [[119, 101, 98, 115, 111, 99, 107, 101, 116]]),
   ([115, 101, 99, 45, 119, 101, 98, 115, 111, 99, 107, 101, 116, 45, 118, 101, 114, 115, 105, 111, 110], [[49, 51]]),
   ([115, 101, 99, 45, 119, 101, 98, 115, 111, 99, 107, 101, 116, 45, 107, 101, 121], [[75]])]

example : requestFromUri exUri [75] [] [] = .ok exMap := by rfl
example : (exMap.map Prod.fst).Nodup := by decide
example : ∃ req, generateRequest exUri exMap = .ok (req, [75]) := ⟨_, rfl⟩
example : ∃ vd req, clientStart exUri exMap = .ok (vd, req) := ⟨_, _, rfl⟩
example : exMap.get hostName = some [104] := by decide

/-- a list with two entries of one name is not a `HeaderMap`; on it the swap-remove would write the
second key while the first is returned (so `C16_request_shape` needs the invariant) … -/
def dupMap : HMap := exMap ++ [([115, 101, 99, 45, 119, 101, 98, 115, 111, 99, 107, 101, 116, 45, 107, 101, 121], [[76]])]

example : (generateRequest exUri dupMap).toOption =
    some (requestLine [47] ++ headerLine (reqHeaderNames.getD 0 []) [104] ++ headerLine (reqHeaderNames.getD 1 []) uriReqConnection
      ++ headerLine (reqHeaderNames.getD 2 []) uriReqUpgrade ++ headerLine (reqHeaderNames.getD 3 []) uriReqVersion
      ++ headerLine reqKeyName [76] ++ headerLine (lowerAll reqKeyName) [75] ++ crlf, [75]) := by decide

/-- … and a removed name would still be there (so `C16_required_removed` needs it too) -/
example : ((takeRequired [reqKeyName] (dupMap.drop 4)).toOption.map fun r => r.2.get reqKeyName) = some (some [76]) := by
  decide

/-- a response the client accepts, one with the wrong accept value, one that is not a 101 -/
def exVerify : VerifyData := { acceptKey := [65], subprotocols := none }
def exResp : RawHead :=
  { code := 101, headers := [(cliUpgradeName, [87, 69, 66, 83, 79, 67, 75, 69, 84]), (cliConnectionName, [117, 112, 103, 114, 97, 100, 101]),
      (cliAcceptName, [65])] }

example : verifyResponse exVerify exResp [1, 2] = .ok () := by rfl
example : verifyResponse { exVerify with acceptKey := [66] } exResp [] = .error .secWebSocketAcceptKeyMismatch := by rfl
example : verifyResponse exVerify { exResp with code := 200 } [1] = .error (.http 200 (some [1])) := by rfl
example : verifyResponse { exVerify with subprotocols := some [[97]] } exResp [] =
    .error (.subProtocol .noSubProtocol) := by rfl

/-- a head and the first frame bytes in one read: the bytes after the head are handed on -/
example :
    (singleRound (fun b => if b.length < 3 then .incomplete else .complete 3 exResp) (.reading [1] {})
      { rd := [.data [2, 3, 4, 5]], wr := [], fl := [] }).2 matches .doneReading 3 _ [4, 5] := by decide

end WsProofs.C16
