import WsModel.Endpoint
import WsProofs.Lemmas.EndpointStep

/-! History-level corollary of the global invariant for C12. -/
namespace WsProofs.C12
open WsModel WsModel.Gen

/-- at most one Close frame is ever queued (hence at most one reaches the wire) -/
theorem C12_at_most_one_close (w : World) (h : w.Reachable) (pre mid post : List Frame) (f g : Frame)
    (hq : w.queued = pre ++ f :: mid ++ g :: post) (hf : f.isClose = true) : g.isClose = false := by
  have hcl := (reachable_inv w h).closeLast
  have : mid ++ g :: post = [] := hcl pre f (mid ++ g :: post) (by rw [hq]; simp) hf
  simp at this

end WsProofs.C12
