import WsModel.Endpoint
import WsProofs.Props.C20

/-! # C12 — a received Close is answered once, echoing its code or 1002

`World.onControl … .close` (`read_message_frame`, Close arm), `World.doClose` (`do_close`),
`World.setAdditional` (`set_additional`), `Frame.intoClose`, `Frame.close`. -/
namespace WsProofs.C12
open WsModel WsModel.Gen

theorem beNat_pair (a b : UInt8) : beNat [a, b] = a.toNat * 256 + b.toNat := by
  simp only [beNat, List.foldl]
  omega

theorem pair_lt (a b : UInt8) : a.toNat * 256 + b.toNat < 65536 := by
  have ha := a.toNat_lt
  have hb := b.toNat_lt
  omega

/-- `onControl` on a final, short Close frame is `intoClose` then `doClose` -/
theorem onControl_close_eq (w : World) (frame : Frame) (hfin : frame.header.fin = true)
    (hlen : frame.payload.length ≤ 125) :
    w.onControl frame .close =
      match frame.intoClose with
      | .ok c => andThen (w.doClose c) fun w r => (w, .ok (r.map Message.close))
      | .err e => (w, .err e)
      | .panic s => (w, .panic s) := by
  unfold World.onControl
  rw [if_neg (by rw [hfin]; decide), if_neg (by omega)]
  rfl

theorem intoClose_pair (h : Header) (a b : UInt8) (reason : Bytes) (hutf : isUtf8 reason = true) :
    (Frame.mk h (a :: b :: reason)).intoClose =
      .ok (some ⟨closeCodeOfU16 (a.toNat * 256 + b.toNat), reason⟩) := by
  unfold Frame.intoClose
  dsimp only
  rw [if_pos hutf, beNat_pair]

/-- an empty or pong-holding slot is overwritten -/
theorem setAdditional_free (w : World) (add : Frame)
    (hslot : ∀ f, w.c.additional = some f → f.isPong = true) :
    w.setAdditional add = w.setAdditionalRaw (some add) := by
  unfold World.setAdditional
  cases h : w.c.additional with
  | none => rfl
  | some f => dsimp only; rw [if_pos (hslot f h)]

/-- what is reported and replied for a well-formed Close payload arriving on an open connection:
the peer's own code and reason if the code may appear on the wire, otherwise 1002 'Protocol violation' -/
theorem C12_reply_code (w : World) (h : Header) (a b : UInt8) (reason : Bytes)
    (hact : w.c.state = .active) (hfin : h.fin = true) (hlen : reason.length ≤ 123)
    (hutf : isUtf8 reason = true)
    (hslot : ∀ f, w.c.additional = some f → f.isPong = true) :
    let n := a.toNat * 256 + b.toNat
    let reported : CloseFrame :=
      if (1000 ≤ n ∧ n ≤ 1003) ∨ (1007 ≤ n ∧ n ≤ 1013) ∨ (3000 ≤ n ∧ n ≤ 4999)
      then ⟨closeCodeOfU16 n, reason⟩ else ⟨.protocol, protocolViolationReason⟩
    let r := w.onControl ⟨h, a :: b :: reason⟩ .close
    r.2 = .ok (some (.close (some reported))) ∧
    r.1.c.additional = some (Frame.close (some reported)) ∧
    r.1.c.state = .closedByPeer ∧
    (Frame.close (some reported)).payload =
      beBytes 2 (if (1000 ≤ n ∧ n ≤ 1003) ∨ (1007 ≤ n ∧ n ≤ 1013) ∨ (3000 ≤ n ∧ n ≤ 4999) then n else 1002)
        ++ reported.reason := by
  intro n reported r
  have hn : n < 65536 := pair_lt a b
  have hallow := C20.C20_allowed_iff n hn
  have hr : r = (((w.setState .closedByPeer).setAdditionalRaw (some (Frame.close (some reported)))),
      .ok (some (.close (some reported)))) := by
    show w.onControl ⟨h, a :: b :: reason⟩ .close = _
    rw [onControl_close_eq w _ hfin (by simp only [List.length_cons]; omega),
      intoClose_pair h a b reason hutf]
    dsimp only
    unfold World.doClose
    rw [hact]
    dsimp only [andThen, Option.map]
    rw [setAdditional_free _ _ (by exact hslot)]
    by_cases hs : C20.allowedSpec n
    · have hal : closeCodeIsAllowed (closeCodeOfU16 (a.toNat * 256 + b.toNat)) = true := hallow.mpr hs
      have hrep : reported = ⟨closeCodeOfU16 n, reason⟩ := if_pos hs
      rw [hrep]
      simp only [hal, Bool.not_true, Bool.false_eq_true, if_false]
      rfl
    · have hal : closeCodeIsAllowed (closeCodeOfU16 (a.toNat * 256 + b.toNat)) = false := by
        cases hc : closeCodeIsAllowed (closeCodeOfU16 (a.toNat * 256 + b.toNat)) with
        | false => rfl
        | true => exact absurd (hallow.mp hc) hs
      have hrep : reported = ⟨.protocol, protocolViolationReason⟩ := if_neg hs
      rw [hrep]
      simp only [hal, Bool.not_false, if_true]
  rw [hr]
  refine ⟨rfl, rfl, rfl, ?_⟩
  by_cases hs : C20.allowedSpec n
  · have hrep : reported = ⟨closeCodeOfU16 n, reason⟩ := if_pos hs
    rw [hrep, if_pos (show (1000 ≤ n ∧ n ≤ 1003) ∨ (1007 ≤ n ∧ n ≤ 1013) ∨ (3000 ≤ n ∧ n ≤ 4999) from hs)]
    show beBytes 2 (closeCodeToU16 (closeCodeOfU16 n)) ++ reason = _
    rw [C20.C20_u16_roundtrip n hn]
  · have hrep : reported = ⟨.protocol, protocolViolationReason⟩ := if_neg hs
    rw [hrep, if_neg (show ¬ ((1000 ≤ n ∧ n ≤ 1003) ∨ (1007 ≤ n ∧ n ≤ 1013) ∨ (3000 ≤ n ∧ n ≤ 4999)) from hs)]
    rfl

/-- an empty Close is answered with an empty Close -/
theorem C12_reply_empty (w : World) (h : Header) (hact : w.c.state = .active) (hfin : h.fin = true)
    (hslot : ∀ f, w.c.additional = some f → f.isPong = true) :
    let r := w.onControl ⟨h, []⟩ .close
    r.2 = .ok (some (.close none)) ∧ r.1.c.additional = some (Frame.close none) ∧
    (Frame.close none).payload = [] ∧ r.1.c.state = .closedByPeer := by
  intro r
  have hr : r = (((w.setState .closedByPeer).setAdditionalRaw (some (Frame.close none))),
      .ok (some (.close none))) := by
    show w.onControl ⟨h, []⟩ .close = _
    rw [onControl_close_eq w _ hfin (by simp only [List.length_nil]; omega)]
    unfold Frame.intoClose
    dsimp only
    unfold World.doClose
    rw [hact]
    dsimp only [andThen, Option.map]
    rw [setAdditional_free _ _ (by exact hslot)]
  rw [hr]
  exact ⟨rfl, rfl, rfl, rfl⟩

/-- a Close that answers our own Close is reported unchanged and not answered again -/
theorem C12_answer_to_our_close (w : World) (h : Header) (a b : UInt8) (reason : Bytes)
    (hst : w.c.state = .closedByUs) (hfin : h.fin = true) (hlen : reason.length ≤ 123)
    (hutf : isUtf8 reason = true) :
    let r := w.onControl ⟨h, a :: b :: reason⟩ .close
    r.2 = .ok (some (.close (some ⟨closeCodeOfU16 (a.toNat * 256 + b.toNat), reason⟩))) ∧
    r.1.c.additional = w.c.additional ∧ r.1.c.state = .closeAcknowledged ∧ r.1.queued = w.queued := by
  intro r
  have hr : r = (w.setState .closeAcknowledged,
      .ok (some (.close (some ⟨closeCodeOfU16 (a.toNat * 256 + b.toNat), reason⟩)))) := by
    show w.onControl ⟨h, a :: b :: reason⟩ .close = _
    rw [onControl_close_eq w _ hfin (by simp only [List.length_cons]; omega),
      intoClose_pair h a b reason hutf]
    dsimp only
    unfold World.doClose
    rw [hst]
    rfl
  rw [hr]
  exact ⟨rfl, rfl, rfl, rfl⟩

/-- a second Close from the peer is ignored -/
theorem C12_second_close_ignored (w : World) (frame : Frame)
    (hst : w.c.state = .closedByPeer ∨ w.c.state = .closeAcknowledged)
    (hfin : frame.header.fin = true) (hlen : frame.payload.length ≤ 125)
    (hok : ∃ c, frame.intoClose = .ok c) :
    w.onControl frame .close = (w, .ok none) := by
  obtain ⟨c, hc⟩ := hok
  rw [onControl_close_eq w frame hfin hlen, hc]
  dsimp only
  unfold World.doClose
  rcases hst with hst | hst <;> rw [hst] <;> rfl

/-- the pending reply is never displaced (by a pong or anything else) -/
theorem C12_reply_not_displaced (w : World) (f add : Frame) (hs : w.c.additional = some f)
    (hc : f.isPong = false) : (w.setAdditional add).c.additional = some f := by
  unfold World.setAdditional
  rw [hs]
  dsimp only
  rw [if_neg (by rw [hc]; decide)]
  exact hs

/-- malformed close payloads are errors, nothing is reported or queued -/
theorem C12_malformed (w : World) (h : Header) (x : UInt8) (hfin : h.fin = true) :
    w.onControl ⟨h, [x]⟩ .close = (w, .err (.protocol .invalidCloseSequence)) := by
  rw [onControl_close_eq w _ hfin (by simp only [List.length_cons, List.length_nil]; omega)]
  rfl

/-! ## concrete instances (non-vacuity) -/

def exWorld : World := { c := { role := .server }, t := { rd := [], wr := [], fl := [] } }
def exHdr : Header := { Header.default with mask := none }

/-- the hypotheses of `C12_reply_code` hold for a fresh server and the payload 1000 "ok" -/
example : exWorld.c.state = .active ∧ exHdr.fin = true ∧ ([111, 107] : Bytes).length ≤ 123 ∧
    isUtf8 [111, 107] = true ∧ (∀ f, exWorld.c.additional = some f → f.isPong = true) :=
  ⟨rfl, rfl, by decide, by decide, fun _ h => nomatch h⟩

/-- code 1000 is echoed -/
example : ((exWorld.onControl ⟨exHdr, [3, 232, 111, 107]⟩ .close).1.c.additional.map Frame.payload) =
    some [3, 232, 111, 107] := by rfl

/-- code 1005 must not appear on the wire: the reply is 1002 'Protocol violation' -/
example : ((exWorld.onControl ⟨exHdr, [3, 237]⟩ .close).1.c.additional.map Frame.payload) =
    some ([3, 234] ++ protocolViolationReason) := by rfl

/-- a pending Close reply survives a later pong -/
example : (((exWorld.onControl ⟨exHdr, []⟩ .close).1.setAdditional (Frame.pong [1])).c.additional) =
    some (Frame.close none) := by rfl

/-- the closedByUs and closedByPeer hypotheses are satisfiable -/
example : (exWorld.setState .closedByUs).c.state = .closedByUs ∧
    (exWorld.setState .closedByPeer).c.state = .closedByPeer ∧
    (∃ c, (Frame.mk exHdr []).intoClose = .ok c) := ⟨rfl, rfl, _, rfl⟩

end WsProofs.C12
