import WsModel.Generated.PartsGen

/-! The machine translation of `create_parts` (`WsModel/Generated/PartsGen.lean`) decides exactly as
the hand-written `createParts` (`WsModel/Handshake/Model.lean`, the subject of the C15 theorems):
on a GET request of version ≥ 1.1 the same refusal, or a builder with status 101, the request's
version and exactly the three headers of `response101`, in that order, with the accept key the
hand model computes; any other method or an older version is refused first. -/
namespace WsProofs.Tie
open WsModel WsModel.Gen WsModel.Hs WsModel.GenParts

/-- the builder `create_parts` returns for an accept key -/
def builderOf (version : Nat) (acceptKey : Bytes) : Builder :=
  { code := 101, ver := version,
    hdrs := [srvRespConnection, srvRespUpgrade, (srvRespAcceptName, acceptKey)] }

local macro "norm" : tactic =>
  `(tactic| try dsimp only [Option.bind_some, Option.bind_none, Option.map_some, Option.map_none,
    Option.getD_some, Option.getD_none, Bool.not_true, Bool.not_false, cond_true, cond_false])

theorem builder_eq (version : Nat) (key : Bytes) :
    (((((Builder.new).status switchingProtocols).version version).header [67, 111, 110, 110, 101, 99, 116, 105, 111, 110] [85, 112, 103, 114, 97, 100, 101]).header [85, 112, 103, 114, 97, 100, 101] [119, 101, 98, 115, 111, 99, 107, 101, 116]).header [83, 101, 99, 45, 87, 101, 98, 83, 111, 99, 107, 101, 116, 45, 65, 99, 99, 101, 112, 116] (deriveAcceptKey key)
      = builderOf version (base64Encode (sha1 (key ++ wsGuidLit))) := by
  unfold builderOf srvRespConnection srvRespUpgrade srvRespAcceptName deriveAcceptKey
    switchingProtocols
  rfl

theorem Tie_parts_createParts (version : Nat) (headers : List (Bytes × Bytes)) (hv : 1 ≤ version) :
    GenParts.createParts ⟨GET, version, headers⟩ =
      (match Hs.createParts headers with
       | .ok key => .ok (builderOf version key)
       | .error e => .error e) := by
  unfold GenParts.createParts Hs.createParts
  dsimp only
  simp only [builder_eq]
  unfold methodGET http11
  rw [if_neg (show ¬ ((GET != GET) = true) by simp only [bne_self_eq_false]; exact Bool.false_ne_true),
    if_neg (show ¬ (decide (version < 1) = true) by simp only [decide_eq_true_eq]; omega)]
  unfold srvConnectionName srvConnectionToken srvConnectionSplit srvUpgradeName srvUpgradeValue
    srvVersionName srvVersionValue srvKeyName
  generalize hget headers [67, 111, 110, 110, 101, 99, 116, 105, 111, 110] = c
  generalize hget headers [85, 112, 103, 114, 97, 100, 101] = u
  generalize hget headers [83, 101, 99, 45, 87, 101, 98, 83, 111, 99, 107, 101, 116, 45, 86, 101, 114, 115, 105, 111, 110] = vv
  generalize hget headers [83, 101, 99, 45, 87, 101, 98, 83, 111, 99, 107, 101, 116, 45, 75, 101, 121] = k
  simp only [← cond_eq_ite]
  generalize u.bind toStr = us
  generalize c.bind toStr = cs
  cases cs with
  | none => rfl
  | some s =>
    norm
    generalize (List.any (splitOn [32, 44] s) fun p => eqIgnoreCase p [85, 112, 103, 114, 97, 100, 101]) = b1
    cases b1 with
    | false => rfl
    | true =>
      norm
      cases us with
      | none => rfl
      | some s2 =>
        norm
        cases eqIgnoreCase s2 [119, 101, 98, 115, 111, 99, 107, 101, 116] with
        | false => rfl
        | true =>
          norm
          cases vv with
          | none => rfl
          | some x =>
            norm
            cases (x == [49, 51]) with
            | false => rfl
            | true =>
              cases k <;> rfl

theorem Tie_parts_wrong_method (m : Bytes) (version : Nat) (headers : List (Bytes × Bytes))
    (hm : m ≠ GET) : GenParts.createParts ⟨m, version, headers⟩ = .error .wrongHttpMethod := by
  unfold GenParts.createParts
  dsimp only
  unfold methodGET
  rw [if_pos (show (m != GET) = true from bne_iff_ne.mpr hm)]
  rfl

theorem Tie_parts_old_version (headers : List (Bytes × Bytes)) :
    GenParts.createParts ⟨GET, 0, headers⟩ = .error .wrongHttpVersion := by
  unfold GenParts.createParts
  dsimp only
  unfold methodGET http11
  rw [if_neg (show ¬ ((GET != GET) = true) by simp only [bne_self_eq_false]; exact Bool.false_ne_true),
    if_pos (show decide (0 < 1) = true from rfl)]
  rfl

end WsProofs.Tie
