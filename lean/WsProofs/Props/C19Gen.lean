import WsProofs.Props.TieMask
import WsProofs.Props.C19

/-! C19 stated directly for the machine translation of `mask.rs`
(`WsModel/Generated/MaskGen.lean`, regenerated from `/repo` on every run): the headline statements
of `Props/C19.lean` carried over to the translated `apply_mask` with `Props/TieMask.lean`.
`sp` is whatever `align_to_mut::<u32>()` answered; the only thing assumed of it is that the three
parts fit into the buffer. -/
namespace WsProofs.C19Gen
open WsModel WsModel.GenMask WsProofs.Tie WsProofs.C19

/-- a split `align_to_mut` can answer for this buffer -/
def Fits (sp : Split) (buf : Bytes) : Prop := sp.pre + 4 * sp.words ≤ buf.length

/-- byte `i` of the result of the translated `apply_mask` is `buf[i] XOR key[i mod 4]`, at every
length and for every split (hence every alignment of the buffer) -/
theorem C19_gen_bytewise (sp : Split) (m : Mask) (buf : Bytes) (hf : Fits sp buf) (i : Nat)
    (h : i < buf.length) :
    (GenMask.applyMask sp buf m.toBytes)[i]? = some (buf[i] ^^^ m.get i) := by
  rw [Tie_mask_applyMask sp m buf hf]
  exact C19_bytewise m buf i h

/-- the length is kept: no byte is added or lost -/
theorem C19_gen_length (sp : Split) (m : Mask) (buf : Bytes) (hf : Fits sp buf) :
    (GenMask.applyMask sp buf m.toBytes).length = buf.length := by
  rw [Tie_mask_applyMask sp m buf hf]
  exact C19_length m buf

/-- the result does not depend on the split, i.e. on where the buffer happens to lie in memory -/
theorem C19_gen_split_independent (sp sp' : Split) (m : Mask) (buf : Bytes) (hf : Fits sp buf)
    (hf' : Fits sp' buf) :
    GenMask.applyMask sp buf m.toBytes = GenMask.applyMask sp' buf m.toBytes := by
  rw [Tie_mask_applyMask sp m buf hf, Tie_mask_applyMask sp' m buf hf']

/-- unmasking undoes masking, even when the two calls see differently aligned buffers -/
theorem C19_gen_involution (sp sp' : Split) (m : Mask) (buf : Bytes) (hf : Fits sp buf)
    (hf' : Fits sp' buf) :
    GenMask.applyMask sp' (GenMask.applyMask sp buf m.toBytes) m.toBytes = buf := by
  have hl := C19_gen_length sp m buf hf
  have hf'' : Fits sp' (GenMask.applyMask sp buf m.toBytes) := by
    unfold Fits at *
    rw [hl]
    exact hf'
  rw [Tie_mask_applyMask sp' m _ hf'', Tie_mask_applyMask sp m buf hf]
  exact C19_involution m buf

/-- the fallback alone (what the prefix and the suffix go through) is the same function -/
theorem C19_gen_fallback_eq_fast (sp : Split) (m : Mask) (buf : Bytes) (hf : Fits sp buf) :
    GenMask.applyMaskFallback buf m.toBytes = GenMask.applyMask sp buf m.toBytes := by
  rw [Tie_mask_fallback, Tie_mask_applyMask sp m buf hf]

/-- non-vacuity: 13 bytes, 3 unaligned, 2 words, 2 left over; and the empty split always fits -/
example : Fits ⟨3, 2⟩ ([1, 2, 3, 4, 5, 6, 7, 8, 9, 10, 11, 12, 13] : Bytes) := by unfold Fits; decide
example (buf : Bytes) : Fits ⟨0, 0⟩ buf := by unfold Fits; exact Nat.zero_le _
example : GenMask.applyMask ⟨1, 1⟩ [0x10, 0x20, 0x30, 0x40, 0x50, 0x60] (Mask.toBytes ⟨1, 2, 3, 4⟩) =
    [0x11, 0x22, 0x33, 0x44, 0x51, 0x62] := by decide

end WsProofs.C19Gen
