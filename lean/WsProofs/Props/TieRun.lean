import WsModel.GenEndpoint
import WsProofs.Props.TieRead

/-! Histories executed by the machine-translated `WebSocketContext` methods are histories of the
hand-written model, so every property theorem that quantifies over `World.run` is a theorem about
the translated code (`Tie_transfer`). -/
namespace WsProofs.Tie
open WsModel WsModel.Gen WsModel.GenCtx

theorem Tie_step (w : World) (op : Op) : stepGen w op = w.step op := by
  cases op <;> simp [stepGen, World.step, Tie_read, Tie_write, Tie_flush, Tie_close]

theorem Tie_run (w : World) (ops : List Op) : runGen w ops = w.run ops := by
  induction ops generalizing w with
  | nil => rfl
  | cons op ops ih => simp [runGen, World.run, Tie_step, ih]

/-- whatever holds of every history of the hand model holds of every history of the translated code -/
theorem Tie_transfer (P : World → List Op → World × List Out → Prop)
    (h : ∀ w ops, P w ops (w.run ops)) : ∀ w ops, P w ops (runGen w ops) := by
  intro w ops
  rw [Tie_run]
  exact h w ops

/-- states the TRANSLATED code reaches from a fresh endpoint by histories without raw-frame writes -/
def ReachableGen (w : World) : Prop :=
  ∃ (w0 : World) (ops : List Op), w0.Init ∧ (∀ op ∈ ops, Op.noRaw op) ∧ (runGen w0 ops).1 = w

theorem Tie_reachable (w : World) : ReachableGen w ↔ w.Reachable := by
  unfold ReachableGen World.Reachable
  constructor <;> (rintro ⟨w0, ops, h0, hn, hr⟩; exact ⟨w0, ops, h0, hn, by simpa [Tie_run] using hr⟩)

end WsProofs.Tie
