import WsModel.Endpoint
import WsProofs.Lemmas.EndpointInv
import WsProofs.Lemmas.EndpointStep

/-! C03 — close-handshake safety of one endpoint against every peer, every transport behaviour
and every history of user calls (the transport scripts inside `World.t` are universally
quantified through `World.Reachable` / arbitrary `w`). -/
namespace WsProofs.C03
open WsModel WsModel.Gen

/-- every reachable state satisfies the invariant -/
theorem C03_inv (w : World) (h : w.Reachable) : Inv w := reachable_inv w h

/-- (a) closing is irreversible; close() always starts it, whatever it returns -/
theorem C03_never_active_again (w : World) (op : Op) (h : w.c.state ≠ .active) :
    (w.step op).1.c.state ≠ .active :=
  Tr.not_active (step_tr w op) h

theorem C03_close_starts_closing (w : World) (c : Option CloseFrame) (h : w.c.state = .active) :
    (w.close c).1.c.state ≠ .active := by
  obtain ⟨w0, _, _, _, ha, _, _, _, F⟩ := close_FSC (w := w) c (active_ne_terminated h)
  refine Tr.not_active F.toFS.tr ?_
  rw [(ha h).1]; simp

/-- (a) once closing has begun every write is refused and changes nothing -/
theorem C03_write_refused (w : World) (m : Message) (h : w.c.state ≠ .active) :
    (w.write m).1 = w ∧
    ((w.write m).2 = .err .alreadyClosed ∨ (w.write m).2 = .err (.protocol .sendAfterClosing)) :=
  write_refused w m h

/-- (b) our Close frame is the last frame ever queued, and the wire is a prefix of the queue image -/
theorem C03_close_is_last (w : World) (h : w.Reachable) :
    CloseLast w.queued ∧ ∃ rest, encodeAll w.queued = w.t.accepted ++ rest := by
  have hI := reachable_inv w h
  exact ⟨hI.closeLast, w.c.codec.outBuf, hI.fifo.symm⟩

/-- (c) once a Close has been received no further message is delivered -/
theorem C03_no_message_after_close (w : World) (h : w.c.state.canRead = false) :
    ∀ m, (w.read).2 ≠ .ok m := by
  by_cases hnt : w.c.state = .terminated
  · intro m; rw [terminated_read w hnt]; simp
  · exact (read_spec w hnt).blocked h

theorem C03_close_delivered_stops_reading (w : World) (c : Option CloseFrame)
    (h : (w.read).2 = .ok (.close c)) : (w.read).1.c.state.canRead = false := by
  by_cases hnt : w.c.state = .terminated
  · rw [terminated_read w hnt] at h; cases h
  · exact (read_spec w hnt).closeMsg c h

theorem C03_cannot_read_forever (w : World) (op : Op) (h : w.c.state.canRead = false) :
    (w.step op).1.c.state.canRead = false :=
  Tr.canRead (step_tr w op) h

/-- (d) ConnectionClosed is reported only if a Close had been received, the state becomes
terminated, and either (server) everything queued, including any Close of ours, was accepted by the
transport and nothing is pending, or the transport itself ended during the call -/
theorem C03_connection_closed_sound (w : World) (op : Op) (hr : w.Reachable) (hop : op.noRaw)
    (h : (w.step op).2.err? = some .connectionClosed) :
    w.c.state.closeReceived = true ∧ (w.step op).1.c.state = .terminated ∧
    ((w.c.role = .server ∧ (w.step op).1.c.codec.outBuf = [] ∧ (w.step op).1.c.additional = none ∧
        (w.step op).1.t.accepted = encodeAll (w.step op).1.queued)
     ∨ ∃ call ∈ newCalls w (w.step op).1, call.isEnd = true) := by
  have hI := reachable_inv w hr
  obtain ⟨c1, c2, c3, c4⟩ := step_cc w op hI hop h
  refine ⟨closeReceived_of c1 c2, c3, ?_⟩
  rcases c4 with ⟨r1, r2, r3⟩ | c4
  · refine Or.inl ⟨r1, r2, r3, ?_⟩
    have hf := (step_inv w op hI hop).fifo
    rw [r2, List.append_nil] at hf
    exact hf
  · exact Or.inr (LogEnded.newCalls c4)

/-- (d) a client reports it only after the transport ended -/
theorem C03_client_closed_only_after_end (w : World) (op : Op) (hr : w.Reachable) (hop : op.noRaw)
    (hc : w.c.role = .client) (h : (w.step op).2.err? = some .connectionClosed) :
    ∃ call ∈ newCalls w (w.step op).1, call.isEnd = true := by
  rcases (C03_connection_closed_sound w op hr hop h).2.2 with ⟨r1, _⟩ | h2
  · rw [hc] at r1; cases r1
  · exact h2

/-- (e) without a received Close no call ever reports a clean close -/
theorem C03_reset_not_clean (w : World) (op : Op) (hr : w.Reachable) (hop : op.noRaw)
    (h : w.c.state.closeReceived = false) : (w.step op).2.err? ≠ some .connectionClosed := by
  intro hcc
  have := (C03_connection_closed_sound w op hr hop hcc).1
  rw [h] at this; cases this

/-- (f) after termination every call is refused as already closed and changes nothing -/
theorem C03_terminated_frozen (w : World) (op : Op) (h : w.c.state = .terminated) :
    (w.step op).1 = w ∧ (w.step op).2.err? = some .alreadyClosed := by
  cases op with
  | read =>
    have e : w.step .read = (w, .msg (.err .alreadyClosed)) := by
      simp only [World.step, terminated_read w h]
    rw [e]; exact ⟨rfl, rfl⟩
  | flush =>
    have e : w.step .flush = (w, .unit (.err .alreadyClosed)) := by
      simp only [World.step, terminated_flush w h]
    rw [e]; exact ⟨rfl, rfl⟩
  | close c =>
    have e : w.step (.close c) = (w, .unit (.err .alreadyClosed)) := by
      simp only [World.step, terminated_close w c h]
    rw [e]; exact ⟨rfl, rfl⟩
  | write m =>
    have hw : w.write m = (w, .err .alreadyClosed) := by
      unfold World.write
      rw [h]; rfl
    have e : w.step (.write m) = (w, .unit (.err .alreadyClosed)) := by
      simp only [World.step, hw]
    rw [e]; exact ⟨rfl, rfl⟩

/-- (g) can_write / can_read agree with what write / read then do -/
theorem C03_can_write_agrees (w : World) (m : Message) :
    (w.canWrite = false →
      ((w.write m).2 = .err .alreadyClosed ∨ (w.write m).2 = .err (.protocol .sendAfterClosing))) ∧
    (w.canWrite = true →
      (w.write m).2 ≠ .err .alreadyClosed ∧ (w.write m).2 ≠ .err (.protocol .sendAfterClosing)) := by
  refine ⟨?_, ?_⟩
  · intro h
    have hs : w.c.state ≠ .active := by
      intro hs
      unfold World.canWrite at h
      rw [hs] at h; cases h
    exact (write_refused w m hs).2
  · intro h
    have hs : w.c.state = .active := isActive_eq_true h
    rcases write_active_kind w m hs with h1 | ⟨k, h1⟩ | ⟨g, h1⟩ | h1 <;> rw [h1] <;> simp

/-! ### the hypotheses are satisfiable: a concrete server history -/

/-- a server over a transport that delivers one masked Close frame from the peer -/
def exServer : World :=
  { c := { role := .server, cfg := {},
           codec := { inBuf := [], maxOut := ({} : Config).maxw, writeLen := ({} : Config).wbuf } }
    t := { rd := [.data [0x88, 0x80, 0, 0, 0, 0]], wr := [], fl := [] } }

theorem exServer_init : exServer.Init :=
  ⟨.server, {}, [], _, rfl, rfl, rfl, rfl, rfl, rfl⟩

/-- after `write(binary [1])` and `close(None)`: reachable, closing, our Close is the last frame -/
example : (exServer.run [.write (.binary [1]), .close none]).1.Reachable :=
  ⟨exServer, _, exServer_init, by simp [Op.noRaw], rfl⟩

example : (exServer.run [.write (.binary [1]), .close none]).1.c.state = .closedByUs := by decide

example : (exServer.run [.write (.binary [1]), .close none]).1.t.accepted = [0x82, 0x01, 0x01, 0x88, 0x00] := by
  decide

/-- after reading the peer's Close: reachable, Close received, and the next `flush` reports
`ConnectionClosed` — the hypotheses of (d) hold together -/
theorem exClosed_reachable : (exServer.run [.read]).1.Reachable :=
  ⟨exServer, _, exServer_init, by simp [Op.noRaw], rfl⟩

example : ((exServer.run [.read]).1.step .flush).2.err? = some .connectionClosed := by decide

example : (exServer.run [.read]).1.c.state.closeReceived = true ∧
    ((exServer.run [.read]).1.step .flush).1.c.state = .terminated :=
  ⟨(C03_connection_closed_sound _ .flush exClosed_reachable trivial (by decide)).1,
   (C03_connection_closed_sound _ .flush exClosed_reachable trivial (by decide)).2.1⟩

end WsProofs.C03
