import WsProofs.Props.TieFrame
import WsProofs.Props.C20
import WsProofs.Props.C18

/-! The close payload through the machine translation of `Frame::close` and `Frame::into_close`
(`WsModel/Generated/FrameGen.lean`, regenerated from `/repo` on every run) and the generated code
tables: what the translated encoder writes for a status code and a reason, the translated decoder
reads back as the same code and reason. -/
namespace WsProofs.C20Gen
open WsModel WsModel.Gen WsModel.GenFrame WsProofs.Tie

theorem be2 (c : Nat) : beBytes 2 c = [UInt8.ofNat (c / 256 % 256), UInt8.ofNat (c % 256)] := by
  simp only [beBytes, List.nil_append, List.cons_append]

/-- every 16-bit code, every valid UTF-8 reason: `into_close(close(code, reason)) = (code, reason)`
on the translated code, with no loss — the value decoded is the value encoded -/
theorem C20_gen_close_roundtrip (c : Nat) (hc : c < 65536) (reason out : Bytes)
    (hu : isUtf8 reason = true) :
    ∃ fr, GenFrame.close (some ⟨closeCodeOfU16 c, reason⟩) out = (out, .ok fr) ∧
      GenFrame.intoClose fr out = (out, .ok (some ⟨closeCodeOfU16 c, reason⟩)) ∧
      fr.payload.length = 2 + reason.length := by
  refine ⟨Frame.close (some ⟨closeCodeOfU16 c, reason⟩), Tie_frame_close _ out, ?_, ?_⟩
  · rw [Tie_frame_intoClose]
    have hn : closeCodeToU16 (closeCodeOfU16 c) = c := WsProofs.C20.C20_u16_roundtrip c hc
    have hb : beNat (beBytes 2 c) = c := by
      rw [WsProofs.C18.beNat_beBytes]; exact Nat.mod_eq_of_lt (by omega)
    unfold Frame.close Frame.intoClose
    simp only [hn]
    rw [be2] at hb ⊢
    simp only [List.cons_append, List.nil_append, hu, if_true, hb]
  · unfold Frame.close
    simp only [List.length_append, WsProofs.C18.beBytes_length]

/-- an empty close frame decodes to "no status" and a one-byte payload is refused, on the
translated decoder -/
theorem C20_gen_close_short (h : Header) (b : UInt8) (out : Bytes) :
    GenFrame.intoClose ⟨h, []⟩ out = (out, .ok none) ∧
    GenFrame.intoClose ⟨h, [b]⟩ out = (out, .err (.protocol .invalidCloseSequence)) := by
  rw [Tie_frame_intoClose, Tie_frame_intoClose]
  exact ⟨rfl, rfl⟩

/-- non-vacuity -/
example : isUtf8 ([0x62, 0x79, 0x65] : Bytes) = true ∧ (1000 : Nat) < 65536 := by decide

end WsProofs.C20Gen
