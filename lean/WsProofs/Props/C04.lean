import WsProofs.Lemmas.PipeRead
namespace WsProofs.C04
open WsModel WsModel.Gen WsProofs.Read WsProofs.Pipe

/-! # C04 — two endpoints: nothing one side legitimately sends makes the other see a protocol error

Each side's inbound stream is (a prefix of) the other side's wire image, which by C10/C09/C03 is
the concatenated encodings of frames that are well-formed for the sender's role with nothing after
a Close. The safety statement is proved on the specification (`Spec.decode`) for every prefix of
such an image and transferred to the implementation model with C05. -/

/-- frames a correct endpoint of role `r` may queue: FIN set, RSV clear, masked iff client, one of the
five opcodes, control payloads ≤ 125, text payloads valid UTF-8, close payloads well-formed -/
def Legit (r : Role) (f : Frame) : Prop :=
  f.header.fin = true ∧ f.header.rsv1 = false ∧ f.header.rsv2 = false ∧ f.header.rsv3 = false ∧
  (r = .client ↔ f.header.mask.isSome = true) ∧ f.payload.length < 2 ^ 63 ∧
  ((f.header.opcode = .data .text ∧ Spec.WellFormed f.payload) ∨ f.header.opcode = .data .binary ∨
   (f.header.opcode = .control .ping ∧ f.payload.length ≤ 125) ∨
   (f.header.opcode = .control .pong ∧ f.payload.length ≤ 125) ∨
   (f.header.opcode = .control .close ∧ f.payload.length ≤ 125 ∧
      (f.payload = [] ∨ ∃ a b reason, f.payload = a :: b :: reason ∧ Spec.WellFormed reason)))

/-- the definition above is the one the helper lemmas are stated with -/
theorem legit_iff (r : Role) (f : Frame) : Legit r f ↔ Pipe.Legit r f := Iff.rfl

/-- the receiver never sees a protocol (or capacity, or UTF-8) error on ANY prefix of such a wire
image — i.e. at any moment of any delivery schedule — provided nothing follows a Close -/
theorem C04_no_error_on_legit_stream (sender : Role) (frames : List Frame) (n : Nat)
    (hl : ∀ f ∈ frames, Legit sender f) (hc : CloseLast frames)
    (lim : Spec.Limits) (hlim : lim.maxFrame = none ∧ lim.maxMsg = none) :
    ∀ c, (Spec.decode (peerOf sender) false lim ((encodeAll frames).take n)).2 ≠ .error c := by
  have _ := hc
  intro c
  rw [decode_eq_dec, dec_legit sender false lim hlim frames n hl]
  exact expect_no_error frames n c

/-- and what it delivers on the complete image is one message per frame, in order, ending with the
Close if there is one -/
theorem C04_delivers_in_order (sender : Role) (frames : List Frame)
    (hl : ∀ f ∈ frames, Legit sender f) (hc : CloseLast frames)
    (lim : Spec.Limits) (hlim : lim.maxFrame = none ∧ lim.maxMsg = none) :
    (Spec.decode (peerOf sender) false lim (encodeAll frames)).1.length = frames.length ∧
    ((Spec.decode (peerOf sender) false lim (encodeAll frames)).2 = .closed ↔ ∃ f ∈ frames, f.isClose = true) := by
  rw [decode_eq_dec, dec_legit_full sender false lim hlim frames hl]
  exact expectAll_closeLast frames hc

/-- which messages: the payload of every frame, as the message of its opcode (a Close with a code
that may not appear on the wire is delivered as 1002) -/
theorem delivers_values (sender : Role) (frames : List Frame)
    (hl : ∀ f ∈ frames, Legit sender f) (hc : CloseLast frames)
    (lim : Spec.Limits) (hlim : lim.maxFrame = none ∧ lim.maxMsg = none) :
    (Spec.decode (peerOf sender) false lim (encodeAll frames)).1 = frames.map msgOf := by
  rw [decode_eq_dec, dec_legit_full sender false lim hlim frames hl]
  exact expectAll_map frames hc

/-- transferred to the implementation model: a fresh endpoint reading any segmentation of any prefix
of a legitimate peer's wire image never reports a protocol error -/
theorem C04_reader_sees_no_protocol_error (sender : Role) (frames : List Frame) (n : Nat)
    (hl : ∀ f ∈ frames, Legit sender f) (hc : CloseLast frames)
    (cfg : Config) (hcfg : cfg.maxFrame = none ∧ cfg.maxMsg = none ∧ 200 ≤ cfg.maxw) (pre : Bytes) (c : Ctx)
    (hnew : Ctx.new (peerOf sender) cfg pre = some c)
    (t : Transport) (hb : ∀ e ∈ t.rd, e.benign = true) (hdef : t.rdDef = .err .wouldBlock)
    (hout : t.acceptsAll) (mu : List Mask)
    (hstream : pre ++ dataOf t.rd = (encodeAll frames).take n) (htot : (encodeAll frames).length < 2 ^ 64) :
    let w : World := { c := c, t := t, mu := mu }
    ∀ p, (readAll (readAllFuel w) w).2 ≠ .error (.protocol p) := by
  intro w p
  cases sender with
  | client =>
    -- the reader is a server: the generic refinement is enough
    have hsz : cfg.maxMsg = none → (pre ++ dataOf t.rd).length < 2 ^ 64 := by
      intro _
      rw [hstream, List.length_take]
      omega
    have h5 := C05.C05_segmentation_independent_of_size .server cfg pre c hnew hcfg.2.2 t hb hdef
      hout mu hsz
    dsimp only at h5
    have hd := dec_legit .client cfg.acceptUnmasked ⟨cfg.maxFrame, cfg.maxMsg⟩
      ⟨hcfg.1, hcfg.2.1⟩ frames n hl
    rw [hstream, decode_eq_dec] at h5
    have hd' : dec .server cfg.acceptUnmasked ⟨cfg.maxFrame, cfg.maxMsg⟩ none
        ((encodeAll frames).take n) = expect frames n := hd
    rw [hd'] at h5
    obtain ⟨_, h2⟩ := h5
    have hE := expect_no_error frames n
    generalize (expect frames n).2 = e at h2 hE
    cases e with
    | needMore =>
      have h2' : (readAll (readAllFuel w) w).2 = .pending := h2
      rw [h2']; intro h; cases h
    | error k => exact absurd rfl (hE k)
    | closed =>
      have h2' : (readAll (readAllFuel w) w).2 = .error .connectionClosed := h2
      rw [h2']; intro h; cases h
  | server =>
    -- the reader is a client: follow it frame by frame, also past the Close
    have hinv := init_inv .client cfg pre c hnew hcfg.2.2 t hb hdef hout mu
    rw [hstream] at hinv
    have := readAll_client cfg hcfg.1 hcfg.2.1 (readAllFuel w) w frames n hl hc hinv
      (init_measM c t mu)
    rw [this]
    intro h; cases h

/-! ## concrete instances (the hypotheses are satisfiable) -/

/-- what a server may send: "hi", an empty ping, a Close (1000, "A") -/
def exFrames : List Frame :=
  [Frame.message [0x68, 0x69] (.data .text) true, Frame.ping [],
   Frame.close (some ⟨.normal, [0x41]⟩)]

theorem exFrames_legit : ∀ f ∈ exFrames, Legit .server f := by
  intro f hf
  simp only [exFrames, List.mem_cons, List.not_mem_nil, or_false] at hf
  rcases hf with rfl | rfl | rfl
  · exact ⟨rfl, rfl, rfl, rfl, ⟨fun h => (by cases h), fun h => (by cases h)⟩, by decide,
      Or.inl ⟨rfl, (C08.C08_wellFormedB_iff _).mp (by decide)⟩⟩
  · exact ⟨rfl, rfl, rfl, rfl, ⟨fun h => (by cases h), fun h => (by cases h)⟩, by decide,
      Or.inr (Or.inr (Or.inl ⟨rfl, by decide⟩))⟩
  · exact ⟨rfl, rfl, rfl, rfl, ⟨fun h => (by cases h), fun h => (by cases h)⟩, by decide,
      Or.inr (Or.inr (Or.inr (Or.inr ⟨rfl, by decide,
        Or.inr ⟨3, 232, [0x41], rfl, (C08.C08_wellFormedB_iff _).mp (by decide)⟩⟩)))⟩

theorem exFrames_closeLast : CloseLast exFrames := by
  intro pre f post he hf
  rcases pre with _ | ⟨a, _ | ⟨b, _ | ⟨c, pre⟩⟩⟩
  · simp only [exFrames, List.nil_append, List.cons.injEq] at he
    rw [← he.1] at hf; cases hf
  · simp only [exFrames, List.cons_append, List.nil_append, List.cons.injEq] at he
    rw [← he.2.1] at hf; cases hf
  · simp only [exFrames, List.cons_append, List.nil_append, List.cons.injEq] at he
    exact he.2.2.2.symm
  · have := congrArg List.length he
    simp only [exFrames, List.length_cons, List.length_append, List.length_nil] at this
    omega

/-- the wire image: 4 + 2 + 5 bytes -/
def exWire : Bytes := encodeAll exFrames

example : exWire.length = 11 := by decide

example : ∀ n c, (Spec.decode .client false ⟨none, none⟩ (exWire.take n)).2 ≠ .error c :=
  fun n => C04_no_error_on_legit_stream .server exFrames n exFrames_legit exFrames_closeLast
    ⟨none, none⟩ ⟨rfl, rfl⟩

set_option maxRecDepth 20000 in
example : Spec.decode .client false ⟨none, none⟩ exWire =
    ([.text [0x68, 0x69], .ping [], .close (some ⟨.normal, [0x41]⟩)], .closed) := by decide
example : Spec.decode .client false ⟨none, none⟩ (exWire.take 8) =
    ([.text [0x68, 0x69], .ping []], .needMore) := by decide

def exCfg : Config := { maxFrame := none, maxMsg := none }

/-- a client reader: three bytes pre-read, the rest in pieces with WouldBlock in between, the
Close frame complete -/
def exCtx : Ctx :=
  { role := .client, cfg := exCfg,
    codec := { inBuf := exWire.take 3, maxOut := usizeMax, writeLen := 131072 } }

def exT : Transport :=
  { rd := [.data ((exWire.drop 3).take 2), .err .wouldBlock, .data ((exWire.drop 5).take 5),
           .err .wouldBlock, .data (exWire.drop 10)],
    wr := [], fl := [] }

example : ∀ p, (readAll (readAllFuel { c := exCtx, t := exT }) { c := exCtx, t := exT }).2 ≠
    .error (.protocol p) :=
  C04_reader_sees_no_protocol_error .server exFrames 11 exFrames_legit exFrames_closeLast exCfg
    ⟨rfl, rfl, by decide⟩ (exWire.take 3) exCtx rfl exT (by decide) rfl ⟨rfl, rfl, rfl, rfl⟩ []
    (by decide) (by decide)

set_option maxRecDepth 20000 in
example : (readAll (readAllFuel { c := exCtx, t := exT }) { c := exCtx, t := exT }).1 =
    [.text [0x68, 0x69], .ping [], .close (some ⟨.normal, [0x41]⟩)] := by decide

end WsProofs.C04
