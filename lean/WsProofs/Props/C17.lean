import WsModel.Handshake.Run
import WsProofs.Lemmas.HsMachine
import WsProofs.Lemmas.HsServerChecks
import WsProofs.Lemmas.HsServerRun
import WsProofs.Lemmas.Base64Lemmas

/-! # C17 — the handshake is resumable, schedule independent and guarded

The small-packet guard bounds what a reading stage can consume; a `WouldBlock` round leaves the
machine unchanged; and over any transport that only segments and delays, the server handshake writes
exactly the bytes of the one-shot specification and ends as it says. -/
namespace WsProofs.C17
open WsModel WsModel.Hs WsModel.Gen WsProofs.HsL

/-- the counters of an accepted prefix -/
def Good (a : AttackCheck) : Prop :=
  a.packets ≤ 512 ∧ a.bytes ≤ 65536 ∧ (64 < a.packets → 128 * a.packets ≤ a.bytes)

theorem attackCheckOk_iff (p b : Nat) :
    attackCheckOk p b = true ↔ b ≤ 65536 ∧ p ≤ 512 ∧ (64 < p → 128 * p ≤ b) := by
  unfold attackCheckOk
  simp only [attackMaxBytes, attackMaxPackets, attackMinPacketCheckThreshold, attackMinPacketSize]
  constructor
  · intro h
    by_cases h1 : b > 65536
    · simp only [h1, if_true] at h; cases h
    · by_cases h2 : p > 512
      · simp only [h1, h2, if_true, if_false] at h; cases h
      · by_cases h3 : p > 64 ∧ p * 128 > b
        · simp only [h1, h2, h3, if_false] at h; simp at h
        · exact ⟨by omega, by omega, fun h4 => by
            apply Classical.byContradiction; intro hc; apply h3; omega⟩
  · intro ⟨h1, h2, h3⟩
    have g1 : ¬ b > 65536 := by omega
    have g2 : ¬ p > 512 := by omega
    have g3 : ¬ (p > 64 ∧ p * 128 > b) := by
      intro ⟨x, y⟩; have := h3 x; omega
    simp only [g1, g2, g3, if_false]

theorem foldl_add (l : List Nat) : ∀ a, l.foldl (· + ·) a = a + l.foldl (· + ·) 0 := by
  induction l with
  | nil => intro a; simp
  | cons x xs ih => intro a; simp only [List.foldl_cons]; rw [ih (a + x), ih (0 + x)]; omega

theorem attackRun_spec (sizes : List Nat) : ∀ (a : AttackCheck), Good a →
    (∀ s ∈ sizes, s ≤ 4096) →
    (attackRun a sizes).1 ≤ 513 ∧ (attackRun a sizes).2.1 ≤ 65536 + 4096 := by
  induction sizes with
  | nil =>
    intro a hg _
    simp only [attackRun]
    obtain ⟨h1, h2, h3⟩ := hg
    exact ⟨by omega, by omega⟩
  | cons s rest ih =>
    intro a hg hs
    have hs1 : s ≤ 4096 := hs s (by simp)
    obtain ⟨h1, h2, h3⟩ := hg
    simp only [attackRun, AttackCheck.check]
    by_cases hok : attackCheckOk (a.packets + 1) (a.bytes + s) = true
    · simp only [hok, if_true]
      have hok' := (attackCheckOk_iff _ _).1 hok
      exact ih ⟨a.packets + 1, a.bytes + s⟩ ⟨hok'.2.1, hok'.1, hok'.2.2⟩ (fun x hx => hs x (by simp [hx]))
    · simp only [hok, Bool.false_eq_true, if_false]
      exact ⟨by omega, by omega⟩

/-- an accepted run: the counters are the totals and they are within all bounds -/
theorem attackRun_ok (sizes : List Nat) : ∀ (a : AttackCheck), Good a →
    (attackRun a sizes).2.2 = true →
    (attackRun a sizes).1 = a.packets + sizes.length ∧
    (attackRun a sizes).2.1 = a.bytes + sizes.foldl (· + ·) 0 ∧
    Good ⟨(attackRun a sizes).1, (attackRun a sizes).2.1⟩ := by
  induction sizes with
  | nil => intro a hg _; simp only [attackRun]; exact ⟨by simp, by simp, hg⟩
  | cons s rest ih =>
    intro a hg
    simp only [attackRun, AttackCheck.check]
    by_cases hok : attackCheckOk (a.packets + 1) (a.bytes + s) = true
    · simp only [hok, if_true]
      have hok' := (attackCheckOk_iff _ _).1 hok
      intro hr
      obtain ⟨j1, j2, j3⟩ := ih ⟨a.packets + 1, a.bytes + s⟩ ⟨hok'.2.1, hok'.1, hok'.2.2⟩ hr
      refine ⟨?_, ?_, j3⟩
      · rw [j1]; simp only [List.length_cons]; omega
      · rw [j2, List.foldl_cons, foldl_add rest (0 + s)]; simp only; omega
    · simp only [hok, Bool.false_eq_true, if_false]; intro h; cases h

theorem good_init : Good {} := ⟨by decide, by decide, by intro h; simp at h⟩

/-- the guard: whatever the peer sends in chunks of at most 4096 bytes, a reading stage consumes at
most 513 reads and at most 65536 + 4096 bytes before it stops with an error; every accepted prefix
has at most 512 reads and 65536 bytes, and beyond 64 reads the average read is at least 128 bytes -/
theorem C17_bounded (sizes : List Nat) (hs : ∀ s ∈ sizes, 1 ≤ s ∧ s ≤ readBufferChunkSize) :
    let r := attackRun {} sizes
    r.1 ≤ 513 ∧ r.2.1 ≤ 65536 + 4096 ∧
    (r.2.2 = true → r.1 = sizes.length ∧ r.1 ≤ 512 ∧ r.2.1 ≤ 65536 ∧ (64 < r.1 → 128 * r.1 ≤ r.2.1)) := by
  intro r
  have hs' : ∀ s ∈ sizes, s ≤ 4096 := fun s h => by have := (hs s h).2; simpa [readBufferChunkSize] using this
  obtain ⟨h1, h2⟩ := attackRun_spec sizes {} good_init hs'
  refine ⟨h1, h2, fun hr => ?_⟩
  obtain ⟨j1, j2, j3, j4, j5⟩ := attackRun_ok sizes {} good_init hr
  refine ⟨?_, j3, j4, j5⟩
  show (attackRun {} sizes).1 = sizes.length
  rw [j1]; simp

/-- an endless head is stopped: more than 512 reads, or more than 65536 bytes, never pass -/
theorem C17_endless_stopped (sizes : List Nat) (hs : ∀ s ∈ sizes, 1 ≤ s)
    (hbig : 512 < sizes.length ∨ 65536 < sizes.foldl (· + ·) 0) : (attackRun {} sizes).2.2 = false := by
  have _ := hs
  cases hr : (attackRun {} sizes).2.2 with
  | false => rfl
  | true =>
    obtain ⟨j1, j2, j3, j4, _⟩ := attackRun_ok sizes {} good_init hr
    simp only at j3 j4
    rw [j1] at j3; rw [j2] at j4
    simp at j3 j4
    omega

/-- a WouldBlock round returns the machine unchanged: nothing is lost or repeated -/
theorem C17_interrupt_is_identity (parse : Bytes → HeadParse) (s : HState) (t t' : Transport) (s' : HState)
    (h : singleRound parse s t = (t', .wouldBlock s')) : s' = s ∧ t'.accepted = t.accepted :=
  round_wouldBlock h

/-- server: however the transport segments the request head (short of tripping the guard), however
often read/write/flush block and however few bytes each write accepts, the handshake is either
still interrupted having written a prefix of the right bytes, or has finished exactly as the
one-shot specification says, having written exactly its bytes.

Two hypotheses are added to the reserved statement: `hne` (the head is not empty: with `S = []` the
hypothesis `hdata` says nothing about the script) and `hlen` (the loop's fuel `hsFuel` covers the
response: its constant 400 must exceed the response length unless the write/flush scripts are that
much longer; see `fuel_too_small` below). -/
theorem C17_server_schedule_independent (parse : Bytes → HeadParse) (cb : Callback) (S : Bytes) (h : RawHead)
    (hhead : HeadOf parse S h) (t : Transport) (hb : Transport.Benign t) (hacc : t.accepted = [])
    (hdata : ∃ n, hsData (t.rd.take n) = S) (hguard : guardOk {} t.rd = true) (n : Nat)
    (hne : S ≠ []) (hlen : (serverSpec cb h).1.length < t.wr.length + t.fl.length + 400) :
    let r := serverRun parse n (serverStart cb) t
    (r.2.2 = .interrupted ∧ ∃ rest, (serverSpec cb h).1 = r.1.accepted ++ rest) ∨
    (r.1.accepted = (serverSpec cb h).1 ∧
      ((r.2.2 = .done () ∧ (serverSpec cb h).2 = .done ()) ∨
       ∃ e, r.2.2 = .failed e ∧ (serverSpec cb h).2 = .failed e)) := by
  intro r
  have hinv : Inv cb S h (serverStart cb) t := by
    refine ⟨hb, ?_⟩
    simp only [serverStart]
    refine ⟨trivial, hacc, ?_, ?_, hguard, hlen⟩
    · exact List.length_pos_iff.2 hne
    · obtain ⟨k, hk⟩ := hdata; exact ⟨k, by rw [List.nil_append]; exact hk⟩
  exact serverRun_result hhead n (serverStart cb) t hinv

theorem sha1_length (msg : Bytes) : (sha1 msg).length = 20 := by
  simp [sha1, Sha1State.toBytes, be32Bytes]

/-- without a callback the response has 129 bytes, so the fuel is always enough -/
theorem default_response_short (h : RawHead) : (serverSpec .none_ h).1.length < 400 := by
  cases hs : serverAfterRead { callback := .none_ } h [] with
  | error e => rw [serverSpec_err hs]; simp
  | ok res =>
    obtain ⟨role, out⟩ := res
    rw [serverSpec_ok hs]
    obtain ⟨_, _, _, _, acc, hc, hcb⟩ := (serverAfterRead_ok_iff _ _ _ _).1 hs
    obtain ⟨_, _, _, key, _, hacc⟩ := (createParts_ok_iff _ _).1 hc
    simp only [cbResult, Except.ok.injEq, Prod.mk.injEq] at hcb
    have h1 : acc.length = 28 := by rw [hacc, base64_length, sha1_length]
    simp only
    rw [← hcb.2]
    have e1 : (headerLine (lowerAll srvRespConnection.1) srvRespConnection.2).length = 21 := by decide
    have e2 : (headerLine (lowerAll srvRespUpgrade.1) srvRespUpgrade.2).length = 20 := by decide
    have e3 : (headerLine (lowerAll srvRespAcceptName) acc).length = 52 := by
      have : (lowerAll srvRespAcceptName).length = 20 := by decide
      simp only [headerLine, List.length_append, this, h1, colonSp, crlf, List.length_cons, List.length_nil]
    have e4 : statusLine101.length = 34 := by decide
    simp only [response101, headerLines_base, List.length_append, e1, e2, e3, e4, crlf, List.map_nil,
      List.flatten_nil, List.length_nil, List.length_cons]
    omega

/-- the reserved statement holds as written (apart from `S ≠ []`) when there is no callback -/
theorem C17_server_schedule_independent_default (parse : Bytes → HeadParse) (S : Bytes) (h : RawHead)
    (hhead : HeadOf parse S h) (t : Transport) (hb : Transport.Benign t) (hacc : t.accepted = [])
    (hdata : ∃ n, hsData (t.rd.take n) = S) (hguard : guardOk {} t.rd = true) (n : Nat) (hne : S ≠ []) :
    let r := serverRun parse n (serverStart .none_) t
    (r.2.2 = .interrupted ∧ ∃ rest, (serverSpec .none_ h).1 = r.1.accepted ++ rest) ∨
    (r.1.accepted = (serverSpec .none_ h).1 ∧
      ((r.2.2 = .done () ∧ (serverSpec .none_ h).2 = .done ()) ∨
       ∃ e, r.2.2 = .failed e ∧ (serverSpec .none_ h).2 = .failed e)) :=
  C17_server_schedule_independent parse .none_ S h hhead t hb hacc hdata hguard n hne
    (by have := default_response_short h; omega)

/-! ### concrete instances (non-vacuity) and the counterexamples behind the added hypotheses -/

example : attackRun {} (List.replicate 600 4096) = (17, 69632, false) := by decide +kernel
example : attackRun {} (List.replicate 600 1) = (65, 65, false) := by decide +kernel
example : attackRun {} (List.replicate 600 128) = (513, 65664, false) := by decide +kernel
example : attackRun {} (List.replicate 512 128) = (512, 65536, true) := by decide +kernel

def exHead : RawHead :=
  { method := GET
    headers :=
      [(srvConnectionName, srvConnectionToken), (srvUpgradeName, srvUpgradeValue), (srvVersionName, srvVersionValue),
       (srvKeyName, [100,71,104,108,73,72,78,104,98,88,66,115,90,83,66,117,98,50,53,106,90,81,61,61])] }

/-- a stand-in for `httparse`: the head is the three bytes `[1, 2, 3]` -/
def exParse (b : Bytes) : HeadParse :=
  if b.length < 3 then .incomplete else if b = [1, 2, 3] then .complete 3 exHead else .error

/-- the head in two pieces with a `WouldBlock` between; writes of 10, blocked, 100, then 7 at a time;
the first flush blocks -/
def exT : Transport :=
  { rd := [.data [1], .err .wouldBlock, .data [2, 3]], wr := [.accept 10, .err .wouldBlock, .accept 100],
    fl := [.err .wouldBlock], wrDef := .accept 7 }

theorem exHeadOf : HeadOf exParse [1, 2, 3] exHead := ⟨by decide, by decide⟩
theorem exBenign : Transport.Benign exT := by unfold Transport.Benign; decide

/-- the hypotheses of the theorem are satisfiable, for every number of resumptions -/
example (n : Nat) := C17_server_schedule_independent_default exParse [1, 2, 3] exHead exHeadOf exT exBenign rfl
  ⟨3, rfl⟩ (by decide) n (by decide)

/-- … and both alternatives occur: after 2 resumptions 10 bytes are out, after 4 all 129 -/
example : (serverRun exParse 2 (serverStart .none_) exT).1.accepted = (serverSpec .none_ exHead).1.take 10 := by
  decide +kernel
example : (serverRun exParse 2 (serverStart .none_) exT).2.2 matches .interrupted := by decide +kernel
example : (serverRun exParse 4 (serverStart .none_) exT).1.accepted = (serverSpec .none_ exHead).1 := by
  decide +kernel
example : (serverRun exParse 4 (serverStart .none_) exT).2.2 matches .done () := by decide +kernel

/-- `hlen` is needed: a 505-byte rejection over a transport that takes one byte per write exhausts the
loop's fuel (`hsFuel` = scripts + 400) after 400 bytes -/
def bigReject : Callback := .reject 403 [72] [] (some (List.replicate 500 0))
def slowT : Transport := { rd := [.data [1, 2, 3]], wr := [], fl := [], wrDef := .accept 1 }

example : Transport.Benign slowT := by unfold Transport.Benign; decide
example : (serverSpec bigReject exHead).1.length = 505 := by decide +kernel
theorem fuel_too_small : (serverRun exParse 1 (serverStart bigReject) slowT).2.2 matches .panic := by decide +kernel
example : (serverRun exParse 1 (serverStart bigReject) slowT).1.accepted.length = 400 := by decide +kernel

/-- `hne` is needed: if the empty string counted as a head, `hdata` (with `n = 0`) would allow any script -/
def emptyParse (b : Bytes) : HeadParse := if b = [] then .complete 0 exHead else .error

example : HeadOf emptyParse [] exHead := ⟨by decide, by decide⟩
example : (serverRun emptyParse 1 (serverStart .none_) { rd := [.data [1]], wr := [], fl := [] }).2.2
    matches .failed .httparse := by decide +kernel
example : (serverSpec .none_ exHead).2 matches .done () := by decide +kernel

end WsProofs.C17
