import WsModel.Generated.VerifyGen

/-! The machine translation of `VerifyData::verify_response` (`WsModel/Generated/VerifyGen.lean`)
decides exactly as the hand-written `verifyResponse` (`WsModel/Handshake/Model.lean`, the subject
of the C16 theorems) on every head that `Response::from_httparse` lets through (version 1.1,
a three-digit status code) — same acceptance, same error, for every header list, every expected
accept value and every offered subprotocol list. -/
namespace WsProofs.Tie
open WsModel WsModel.Gen WsModel.Hs WsModel.GenVerify

/-- the response object `from_httparse` builds from a parsed head and the bytes after it -/
def respOf (h : RawHead) (tail : Bytes) : Resp := ⟨h.code, h.headers, some tail⟩

local macro "norm" : tactic =>
  `(tactic| dsimp only [Option.bind_some, Option.bind_none, Option.map_some, Option.map_none,
    Option.getD_some, Option.getD_none])

theorem Tie_verify_response (v : VerifyData) (h : RawHead) (tail : Bytes)
    (hv : 1 ≤ h.version) (hc : 100 ≤ h.code ∧ h.code < 1000) :
    GenVerify.verifyResponse v (respOf h tail) = Hs.verifyResponse v h tail := by
  obtain ⟨ak, subs⟩ := v
  unfold GenVerify.verifyResponse Hs.verifyResponse respOf
  rw [if_neg (show ¬ h.version < 1 by omega), if_neg (show ¬ (h.code < 100 ∨ h.code ≥ 1000) by omega)]
  dsimp only
  unfold cliUpgradeName cliUpgradeValue cliConnectionName cliConnectionValue cliAcceptName
    cliProtocolName cliSwitchingProtocols switchingProtocols
  generalize hget h.headers [83, 101, 99, 45, 87, 101, 98, 83, 111, 99, 107, 101, 116, 45, 80, 114, 111, 116, 111, 99, 111, 108] = p
  generalize hget h.headers [83, 101, 99, 45, 87, 101, 98, 83, 111, 99, 107, 101, 116, 45, 65, 99, 99, 101, 112, 116] = a
  generalize hget h.headers [67, 111, 110, 110, 101, 99, 116, 105, 111, 110] = c
  generalize hget h.headers [85, 112, 103, 114, 97, 100, 101] = u
  by_cases h101 : h.code = 101
  · rw [if_neg (show ¬ ((h.code != 101) = true) by simp [h101]),
      if_neg (show ¬ (h.code ≠ 101) from fun hn => hn h101)]
    simp only [← cond_eq_ite]
    generalize u.bind toStr = us
    generalize c.bind toStr = cs
    cases us with
    | none => rfl
    | some s =>
      norm
      cases eqIgnoreCase s [119, 101, 98, 115, 111, 99, 107, 101, 116] with
      | false => rfl
      | true =>
        cases cs with
        | none => rfl
        | some s2 =>
          norm
          cases eqIgnoreCase s2 [85, 112, 103, 114, 97, 100, 101] with
          | false => rfl
          | true =>
            cases a with
            | none => rfl
            | some x =>
              norm
              cases (x == ak) with
              | false => rfl
              | true =>
                cases p with
                | none => cases subs <;> rfl
                | some pv =>
                  cases subs with
                  | none => rfl
                  | some offered =>
                    unfold toStrTry
                    norm
                    cases toStr pv with
                    | none => rfl
                    | some s3 =>
                      dsimp only [bind, Except.bind, pure, Except.pure]
                      cases offered.contains s3 <;> rfl
  · rw [if_pos (show (h.code != 101) = true by simp [h101]), if_pos h101]
    rfl

end WsProofs.Tie
