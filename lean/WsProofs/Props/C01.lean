import WsProofs.Lemmas.PipeSpec
import WsProofs.Lemmas.PipeWrite
namespace WsProofs.C01
open WsModel WsModel.Gen WsProofs.Read WsProofs.Pipe

/-! # C01 — messages written by one endpoint are read by the peer intact and in order

Three layers: the one-shot RFC decoder inverts the encoder on whole message sequences
(`C01_spec_roundtrip`), the writer puts exactly the concatenated encodings on the wire
(`C01_writer_wire`), and the reader's successive reads return exactly the written messages for
every segmentation of that wire image (`C01_end_to_end`). -/

/-- the messages the property talks about, with their documented preconditions: text is valid UTF-8
(true of every `Utf8Bytes`), control payloads are at most 125 bytes -/
def Sendable : Message → Prop
  | .text b => Spec.WellFormed b
  | .binary _ => True
  | .ping b => b.length ≤ 125
  | .pong b => b.length ≤ 125
  | _ => False

/-- the frame `write` builds for a message -/
def frameOf : Message → Frame
  | .text b => Frame.message b (.data .text) true
  | .binary b => Frame.message b (.data .binary) true
  | .ping b => Frame.ping b
  | .pong b => Frame.pong b
  | _ => Frame.close none

/-- the frames a writer of the given role queues for `msgs`: a client masks each with the next key -/
def framesOf : Role → List Message → List Mask → List Frame
  | _, [], _ => []
  | .server, m :: ms, ks => frameOf m :: framesOf .server ms ks
  | .client, m :: ms, k :: ks =>
      { frameOf m with header := { (frameOf m).header with mask := some k } } :: framesOf .client ms ks
  | .client, m :: ms, [] =>
      { frameOf m with header := { (frameOf m).header with mask := some ⟨0, 0, 0, 0⟩ } } :: framesOf .client ms []

/-! ## the frames of sendable messages are legitimate -/

/-- `frameOf m` with the mask field set -/
def withMask (m : Message) (k : Option Mask) : Frame :=
  { frameOf m with header := { (frameOf m).header with mask := k } }

theorem withMask_none (m : Message) : withMask m none = frameOf m := by
  cases m <;> rfl

theorem withMask_spec (writer : Role) (m : Message) (k : Option Mask)
    (hk : writer = .client ↔ k.isSome = true) (hs : Sendable m)
    (hlen : ∀ b, (m = .text b ∨ m = .binary b) → b.length < 2 ^ 63) :
    Pipe.Legit writer (withMask m k) ∧ (withMask m k).isClose = false ∧ msgOf (withMask m k) = m := by
  cases m with
  | text b =>
    exact ⟨⟨rfl, rfl, rfl, rfl, hk, hlen b (Or.inl rfl), Or.inl ⟨rfl, hs⟩⟩, rfl, rfl⟩
  | binary b =>
    exact ⟨⟨rfl, rfl, rfl, rfl, hk, hlen b (Or.inr rfl), Or.inr (Or.inl rfl)⟩, rfl, rfl⟩
  | ping b =>
    have h : b.length ≤ 125 := hs
    exact ⟨⟨rfl, rfl, rfl, rfl, hk, (by show b.length < 2 ^ 63; omega),
      Or.inr (Or.inr (Or.inl ⟨rfl, h⟩))⟩, rfl, rfl⟩
  | pong b =>
    have h : b.length ≤ 125 := hs
    exact ⟨⟨rfl, rfl, rfl, rfl, hk, (by show b.length < 2 ^ 63; omega),
      Or.inr (Or.inr (Or.inr (Or.inl ⟨rfl, h⟩)))⟩, rfl, rfl⟩
  | close c => cases hs
  | frame f => cases hs

theorem framesOf_spec (writer : Role) : ∀ (msgs : List Message) (ks : List Mask),
    (∀ m ∈ msgs, Sendable m) →
    (∀ m ∈ msgs, ∀ b, (m = .text b ∨ m = .binary b) → b.length < 2 ^ 63) →
    (∀ f ∈ framesOf writer msgs ks, Pipe.Legit writer f) ∧
    (∀ f ∈ framesOf writer msgs ks, f.isClose = false) ∧
    (framesOf writer msgs ks).map msgOf = msgs := by
  intro msgs
  induction msgs with
  | nil =>
    intro ks _ _
    have : framesOf writer [] ks = [] := by unfold framesOf; rfl
    rw [this]
    exact ⟨fun f hf => (by cases hf), fun f hf => (by cases hf), rfl⟩
  | cons m ms ih =>
    intro ks hs hlen
    have hsm := hs m (List.mem_cons_self ..)
    have hlm := hlen m (List.mem_cons_self ..)
    have hs' : ∀ x ∈ ms, Sendable x := fun x hx => hs x (List.mem_cons_of_mem _ hx)
    have hlen' : ∀ x ∈ ms, ∀ b, (x = .text b ∨ x = .binary b) → b.length < 2 ^ 63 :=
      fun x hx => hlen x (List.mem_cons_of_mem _ hx)
    have step : ∀ (k : Option Mask) (ks' : List Mask), (writer = .client ↔ k.isSome = true) →
        (∀ f ∈ withMask m k :: framesOf writer ms ks', Pipe.Legit writer f) ∧
        (∀ f ∈ withMask m k :: framesOf writer ms ks', f.isClose = false) ∧
        (withMask m k :: framesOf writer ms ks').map msgOf = m :: ms := by
      intro k ks' hk
      obtain ⟨h1, h2, h3⟩ := withMask_spec writer m k hk hsm hlm
      obtain ⟨i1, i2, i3⟩ := ih ks' hs' hlen'
      refine ⟨?_, ?_, ?_⟩
      · intro f hf
        rcases List.mem_cons.mp hf with rfl | hf
        · exact h1
        · exact i1 f hf
      · intro f hf
        rcases List.mem_cons.mp hf with rfl | hf
        · exact h2
        · exact i2 f hf
      · rw [List.map_cons, h3, i3]
    cases writer with
    | server =>
      have e : framesOf .server (m :: ms) ks = withMask m none :: framesOf .server ms ks := by
        rw [withMask_none]; rfl
      rw [e]
      exact step none ks ⟨fun h => (by cases h), fun h => (by cases h)⟩
    | client =>
      cases ks with
      | nil =>
        have e : framesOf .client (m :: ms) [] =
            withMask m (some ⟨0, 0, 0, 0⟩) :: framesOf .client ms [] := rfl
        rw [e]
        exact step _ [] ⟨fun _ => rfl, fun _ => rfl⟩
      | cons k ks =>
        have e : framesOf .client (m :: ms) (k :: ks) =
            withMask m (some k) :: framesOf .client ms ks := rfl
        rw [e]
        exact step _ ks ⟨fun _ => rfl, fun _ => rfl⟩

/-- the round trip for any `accept_unmasked_frames` setting of the reader -/
theorem spec_roundtrip_au (au : Bool) (writer : Role) (msgs : List Message) (ks : List Mask)
    (hs : ∀ m ∈ msgs, Sendable m) (hlen : ∀ m ∈ msgs, ∀ b, (m = .text b ∨ m = .binary b) → b.length < 2 ^ 63)
    (lim : Spec.Limits) (hlim : lim.maxFrame = none ∧ lim.maxMsg = none) :
    Spec.decode (peerOf writer) au lim (encodeAll (framesOf writer msgs ks)) = (msgs, .needMore) := by
  obtain ⟨h1, h2, h3⟩ := framesOf_spec writer msgs ks hs hlen
  rw [decode_eq_dec, dec_legit_full writer au lim hlim _ h1, expectAll_no_close _ h2, h3]

/-- decode ∘ encode = id at the level of whole message sequences: the one-shot RFC decoder of the
READER's role, applied to the concatenated encodings of the writer's frames, returns exactly the
messages, for every payload length (0, 125/126, 65535/65536, …), both directions, every key -/
theorem C01_spec_roundtrip (writer : Role) (msgs : List Message) (ks : List Mask)
    (hs : ∀ m ∈ msgs, Sendable m) (hlen : ∀ m ∈ msgs, ∀ b, (m = .text b ∨ m = .binary b) → b.length < 2 ^ 63)
    (lim : Spec.Limits) (hlim : lim.maxFrame = none ∧ lim.maxMsg = none) :
    Spec.decode (peerOf writer) false lim (encodeAll (framesOf writer msgs ks)) = (msgs, .needMore) :=
  spec_roundtrip_au false writer msgs ks hs hlen lim hlim

/-- end to end: the reader's successive reads return exactly the written messages, then block —
for every pre-read split and every segmentation (with WouldBlocks) of the writer's wire image -/
theorem C01_end_to_end (writer : Role) (msgs : List Message) (ks : List Mask)
    (hs : ∀ m ∈ msgs, Sendable m) (hlen : ∀ m ∈ msgs, ∀ b, (m = .text b ∨ m = .binary b) → b.length < 2 ^ 63)
    (cfg : Config) (hcfg : cfg.maxFrame = none ∧ cfg.maxMsg = none ∧ 200 ≤ cfg.maxw) (pre : Bytes) (c : Ctx)
    (hc : Ctx.new (peerOf writer) cfg pre = some c)
    (t : Transport) (hb : ∀ e ∈ t.rd, e.benign = true) (hdef : t.rdDef = .err .wouldBlock)
    (hout : t.acceptsAll) (mu : List Mask)
    (hstream : pre ++ dataOf t.rd = encodeAll (framesOf writer msgs ks))
    (htot : (encodeAll (framesOf writer msgs ks)).length < 2 ^ 64) :
    let w : World := { c := c, t := t, mu := mu }
    readAll (readAllFuel w) w = (msgs, .pending) := by
  intro w
  have h5 := C05.C05_segmentation_independent_of_size (peerOf writer) cfg pre c hc hcfg.2.2 t hb
    hdef hout mu (fun _ => by rw [hstream]; exact htot)
  dsimp only at h5
  rw [hstream, spec_roundtrip_au cfg.acceptUnmasked writer msgs ks hs hlen
    ⟨cfg.maxFrame, cfg.maxMsg⟩ ⟨hcfg.1, hcfg.2.1⟩] at h5
  obtain ⟨h1, h2⟩ := h5
  have h2' : (readAll (readAllFuel w) w).2 = .pending := h2
  exact Prod.ext h1 h2'

/-! ## the writer -/

theorem framesOf_nil (role : Role) (ks : List Mask) : framesOf role [] ks = [] := by
  unfold framesOf; rfl

theorem framesOf_cons (role : Role) (m : Message) (ms : List Message) (ks : List Mask) :
    framesOf role (m :: ms) ks =
      sent role (frameOf m) ks :: framesOf role ms (restKeys role ks) := by
  cases role with
  | server => rfl
  | client => cases ks <;> rfl

/-- one `write` of a sendable message queues exactly its frame, masked with the next key -/
theorem write_step {role : Role} {w : World} {Q : List Frame} {ks : List Mask}
    (h : WSt role w Q ks) (m : Message) (hs : Sendable m)
    (hfit : (encodeAll (Q ++ [sent role (frameOf m) ks])).length ≤ usizeMax) :
    WSt role (w.write m).1 (Q ++ [sent role (frameOf m) ks]) (restKeys role ks) := by
  cases m with
  | text d =>
    refine ⟨write_inv h.inv _ trivial, ?_⟩
    rw [(write_data_eq w h.wf.state).1 d]
    exact writeData_WF h _ hfit
  | binary d =>
    refine ⟨write_inv h.inv _ trivial, ?_⟩
    rw [(write_data_eq w h.wf.state).2.1 d]
    exact writeData_WF h _ hfit
  | ping d =>
    refine ⟨write_inv h.inv _ trivial, ?_⟩
    rw [(write_data_eq w h.wf.state).2.2 d]
    exact writeData_WF h _ hfit
  | pong d => exact ⟨write_inv h.inv _ trivial, write_pong_WF h d hfit⟩
  | close c => cases hs
  | frame f => cases hs

theorem run_writes (role : Role) : ∀ (msgs : List Message) (ks : List Mask) (w : World)
    (Q : List Frame), WSt role w Q ks → (∀ m ∈ msgs, Sendable m) →
    (encodeAll (Q ++ framesOf role msgs ks)).length < 2 ^ 64 →
    ∃ ks', WSt role (w.run (msgs.map Op.write)).1 (Q ++ framesOf role msgs ks) ks' := by
  intro msgs
  induction msgs with
  | nil =>
    intro ks w Q h _ _
    rw [framesOf_nil, List.append_nil]
    exact ⟨ks, h⟩
  | cons m ms ih =>
    intro ks w Q h hs htot
    rw [framesOf_cons] at htot ⊢
    have hfit : (encodeAll (Q ++ [sent role (frameOf m) ks])).length ≤ usizeMax := by
      have e : Q ++ sent role (frameOf m) ks :: framesOf role ms (restKeys role ks) =
          (Q ++ [sent role (frameOf m) ks]) ++ framesOf role ms (restKeys role ks) := by
        rw [List.append_assoc]; rfl
      rw [e, encodeAll_append (Q ++ [sent role (frameOf m) ks]), List.length_append] at htot
      unfold usizeMax
      omega
    have h1 := write_step h m (hs m (List.mem_cons_self ..)) hfit
    have e : Q ++ sent role (frameOf m) ks :: framesOf role ms (restKeys role ks) =
        (Q ++ [sent role (frameOf m) ks]) ++ framesOf role ms (restKeys role ks) := by
      rw [List.append_assoc]; rfl
    rw [e] at htot ⊢
    have hrun : (w.run ((m :: ms).map Op.write)).1 = ((w.write m).1.run (ms.map Op.write)).1 := rfl
    rw [hrun]
    exact ih _ _ _ h1 (fun x hx => hs x (List.mem_cons_of_mem _ hx)) htot

/-- what the writer puts on the wire: after writing `msgs` (each write returning Ok or WouldBlock —
the frame is queued either way) and a flush that succeeds, the transport has accepted exactly the
concatenated encodings of their frames, for every write-buffer size and every partial-write /
WouldBlock behaviour of the transport.

`htot` was added to the statement as first given: without a bound on the size of the whole image
the claim fails (only) for write buffers holding 2^64 bytes — see the comment below. -/
theorem C01_writer_wire (role : Role) (cfg : Config) (c : Ctx) (hc : Ctx.new role cfg [] = some c)
    (hmaxw : cfg.maxw = usizeMax) (t : Transport) (ht : t.accepted = [] ∧ t.log = [] ∧ t.flushedUpTo = 0 ∧ t.rd = [])
    (msgs : List Message) (ks : List Mask) (hs : ∀ m ∈ msgs, Sendable m) (hk : msgs.length ≤ ks.length)
    (hsize : ∀ m ∈ msgs, ∀ b, (m = .text b ∨ m = .binary b) → b.length + 14 < usizeMax)
    (htot : (encodeAll (framesOf role msgs ks)).length < 2 ^ 64) :
    let w0 : World := { c := c, t := t, mu := ks }
    let r := w0.run (msgs.map Op.write ++ [.flush])
    (∀ o ∈ r.2, o = .unit (.ok ()) ∨ o = .unit (.err (.io .wouldBlock))) →
    r.2.getLast? = some (.unit (.ok ())) →
    r.1.t.accepted = encodeAll (framesOf role msgs ks) := by
  have _ := hk
  have _ := hsize
  intro w0 r _ hlast
  have h0 := init_WSt role cfg c hc hmaxw t ht ks
  obtain ⟨ks', h1⟩ := run_writes role msgs ks w0 [] h0 hs (by rw [List.nil_append]; exact htot)
  rw [List.nil_append] at h1
  obtain ⟨e1, e2⟩ := run_append w0 (msgs.map Op.write) [.flush]
  obtain ⟨f1, f2⟩ := run_flush (w0.run (msgs.map Op.write)).1
  have hr1 : r.1 = (w0.run (msgs.map Op.write)).1.flush.1 := e1.trans f1
  have hr2 : r.2 = (w0.run (msgs.map Op.write)).2 ++ [.unit (w0.run (msgs.map Op.write)).1.flush.2] := by
    rw [← f2]; exact e2
  rw [hr2, List.getLast?_append, List.getLast?_singleton] at hlast
  have hok : (w0.run (msgs.map Op.write)).1.flush.2 = .ok () := by
    simp only [Option.some_or, Option.some.injEq, Out.unit.injEq] at hlast
    exact hlast
  rw [hr1]
  exact flush_ok_accepted h1 hok

/-! ## concrete instances (the hypotheses are satisfiable) -/

/-- "hi", an empty ping, 126 bytes of binary (the first 16-bit length), a pong -/
def exMsgs : List Message :=
  [.text [0x68, 0x69], .ping [], .binary (List.replicate 126 7), .pong [1, 2, 3]]

def exKeys : List Mask := [⟨1, 2, 3, 4⟩, ⟨9, 9, 9, 9⟩, ⟨0, 0, 0, 0⟩, ⟨0xff, 0, 0xff, 0⟩]

theorem exMsgs_sendable : ∀ m ∈ exMsgs, Sendable m := by
  intro m hm
  simp only [exMsgs, List.mem_cons, List.not_mem_nil, or_false] at hm
  rcases hm with rfl | rfl | rfl | rfl
  · exact (C08.C08_wellFormedB_iff _).mp (by decide)
  · exact (by decide : ([] : Bytes).length ≤ 125)
  · trivial
  · exact (by decide : ([1, 2, 3] : Bytes).length ≤ 125)

theorem exMsgs_len (bound : Nat) (hb : 200 ≤ bound) :
    ∀ m ∈ exMsgs, ∀ b, (m = .text b ∨ m = .binary b) → b.length + 14 < bound := by
  intro m hm b hb
  simp only [exMsgs, List.mem_cons, List.not_mem_nil, or_false] at hm
  rcases hm with rfl | rfl | rfl | rfl <;> rcases hb with hb | hb <;> cases hb
  · show 2 + 14 < bound; omega
  · show (List.replicate 126 (7 : UInt8)).length + 14 < bound
    rw [List.length_replicate]; omega

theorem exMsgs_len63 : ∀ m ∈ exMsgs, ∀ b, (m = .text b ∨ m = .binary b) → b.length < 2 ^ 63 := by
  intro m hm b hb
  have := exMsgs_len (2 ^ 63) (by decide) m hm b hb
  omega

example : Spec.decode .server false ⟨none, none⟩ (encodeAll (framesOf .client exMsgs exKeys)) =
    (exMsgs, .needMore) :=
  C01_spec_roundtrip .client exMsgs exKeys exMsgs_sendable exMsgs_len63 ⟨none, none⟩ ⟨rfl, rfl⟩

example : Spec.decode .client false ⟨none, none⟩ (encodeAll (framesOf .server exMsgs [])) =
    (exMsgs, .needMore) :=
  C01_spec_roundtrip .server exMsgs [] exMsgs_sendable exMsgs_len63 ⟨none, none⟩ ⟨rfl, rfl⟩

/-- the wire image of the example, 157 bytes -/
def exWire : Bytes := encodeAll (framesOf .client exMsgs exKeys)

set_option maxRecDepth 20000 in
theorem exWire_length : exWire.length = 157 := by decide

/-- a client writer that writes through at once (`write_buffer_size = 0`) over a transport that
takes one byte, blocks, takes three, blocks, then takes everything -/
def exWCfg : Config := { wbuf := 0 }

def exWriter : World :=
  { c := { role := .client, cfg := exWCfg, codec := { maxOut := usizeMax, writeLen := 0 } },
    t := { rd := [], wr := [.accept 1, .err .wouldBlock, .accept 3, .err .wouldBlock], fl := [] },
    mu := exKeys }

set_option maxRecDepth 20000 in
theorem exWriter_outs : (exWriter.run (exMsgs.map Op.write ++ [.flush])).2 =
    [.unit (.err (.io .wouldBlock)), .unit (.err (.io .wouldBlock)), .unit (.ok ()), .unit (.ok ()),
     .unit (.ok ())] := rfl

example : (exWriter.run (exMsgs.map Op.write ++ [.flush])).1.t.accepted = exWire := by
  have h := C01_writer_wire .client exWCfg exWriter.c rfl rfl exWriter.t ⟨rfl, rfl, rfl, rfl⟩
    exMsgs exKeys exMsgs_sendable (by decide) (exMsgs_len usizeMax (by decide))
    (by show exWire.length < 2 ^ 64; rw [exWire_length]; decide)
  have hw : ({ c := exWriter.c, t := exWriter.t, mu := exKeys } : World) = exWriter := rfl
  dsimp only at h
  rw [hw, exWriter_outs] at h
  refine h ?_ rfl
  intro o ho
  simp only [List.mem_cons, List.not_mem_nil, or_false] at ho
  rcases ho with rfl | rfl | rfl | rfl | rfl
  · exact Or.inr rfl
  · exact Or.inr rfl
  · exact Or.inl rfl
  · exact Or.inl rfl
  · exact Or.inl rfl

/-- the server reader: five bytes pre-read, the rest cut into pieces with WouldBlock in between -/
def exCfg : Config := { maxFrame := none, maxMsg := none }

def exReaderCtx : Ctx :=
  { role := .server, cfg := exCfg,
    codec := { inBuf := exWire.take 5, maxOut := usizeMax, writeLen := 131072 } }

def exReaderT : Transport :=
  { rd := [.data ((exWire.drop 5).take 1), .err .wouldBlock, .data ((exWire.drop 6).take 10),
           .err .wouldBlock, .err .wouldBlock, .data (exWire.drop 16)],
    wr := [], fl := [] }

set_option maxRecDepth 20000 in
theorem exReader_stream : exWire.take 5 ++ dataOf exReaderT.rd = exWire := by decide

set_option maxRecDepth 20000 in
theorem exReader_benign : ∀ e ∈ exReaderT.rd, e.benign = true := by decide

example : readAll (readAllFuel { c := exReaderCtx, t := exReaderT })
    { c := exReaderCtx, t := exReaderT } = (exMsgs, .pending) :=
  C01_end_to_end .client exMsgs exKeys exMsgs_sendable exMsgs_len63 exCfg ⟨rfl, rfl, by decide⟩
    (exWire.take 5) exReaderCtx rfl exReaderT exReader_benign rfl ⟨rfl, rfl, rfl, rfl⟩ []
    exReader_stream (by show exWire.length < 2 ^ 64; rw [exWire_length]; decide)

/-! ## why `C01_writer_wire` needs the bound `htot` on the whole image

`FrameCodec::buffer_frame` refuses a frame when `frame.len() + out_buffer.len() >
max_write_buffer_size`. A data write then fails with `WriteBufferFull`, but a user pong goes
through the pending-frame slot, and `_write` turns the refusal into "put the pong back, return
Ok". The pong is buffered by a later call — after frames written in between (and, for a client,
under a later mask key). With `max_write_buffer_size = usize::MAX` this needs 2^64 − 127 buffered
bytes, which the per-message bound `hsize` of the statement as first given does not exclude:

* server, `msgs = [binary (2^64 − 16 bytes), pong (125 bytes), binary []]`, the transport blocks
  the first write and accepts everything afterwards: the outputs are WouldBlock, Ok, Ok and the
  final flush returns Ok, but the wire carries binary, binary, pong.
* client, `msgs = [binary (2^64 − 20 bytes), pong []]`: the pong is masked with the fourth key
  drawn, not the second.

Such buffers cannot exist on a 64-bit machine; the finding is about the statement. The same runs
with `max_write_buffer_size = 300` (so that 280 bytes play the role of 2^64 − 16), checked: -/

def cexCfg : Config := { maxw := 300, wbuf := 100 }

def cexMsgs : List Message :=
  [.binary (List.replicate 280 0), .pong (List.replicate 125 0), .binary []]

def cexWorld (role : Role) (ks : List Mask) : World :=
  { c := { role := role, cfg := cexCfg, codec := { maxOut := 300, writeLen := 100 } },
    t := { rd := [], wr := [.err .wouldBlock], fl := [] }, mu := ks }

example : Ctx.new .server cexCfg [] = some (cexWorld .server []).c := rfl

set_option maxRecDepth 100000 in
/-- the outputs are WouldBlock, Ok, Ok and the final flush returns Ok … -/
example : ((cexWorld .server []).run (cexMsgs.map Op.write ++ [.flush])).2 =
    [.unit (.err (.io .wouldBlock)), .unit (.ok ()), .unit (.ok ()), .unit (.ok ())] := rfl

set_option maxRecDepth 100000 in
/-- … but the pong left after the second binary frame -/
example : ((cexWorld .server []).run (cexMsgs.map Op.write ++ [.flush])).1.queued.map
      (fun f => f.header.opcode) = [.data .binary, .data .binary, .control .pong] ∧
    ((cexWorld .server []).run (cexMsgs.map Op.write ++ [.flush])).1.t.accepted ≠
      encodeAll (framesOf .server cexMsgs []) := by decide

set_option maxRecDepth 100000 in
/-- client: the pong is sent under a later key than the one `framesOf` assigns to it -/
example : ((cexWorld .client [⟨1, 1, 1, 1⟩, ⟨2, 2, 2, 2⟩, ⟨3, 3, 3, 3⟩, ⟨4, 4, 4, 4⟩]).run
      ((cexMsgs.take 2).map Op.write ++ [.flush])).1.queued.map (fun f => f.header.mask) =
    [some ⟨1, 1, 1, 1⟩, some ⟨4, 4, 4, 4⟩] := by decide

end WsProofs.C01
