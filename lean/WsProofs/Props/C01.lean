import WsProofs.Lemmas.PipeSpec
namespace WsProofs.C01
open WsModel WsModel.Gen WsProofs.Read WsProofs.Pipe

/-! # C01 — messages written by one endpoint are read by the peer intact and in order

Three layers: the one-shot RFC decoder inverts the encoder on whole message sequences
(`C01_spec_roundtrip`), the writer puts exactly the concatenated encodings on the wire
(`C01_writer_wire`), and the reader's successive reads return exactly the written messages for
every segmentation of that wire image (`C01_end_to_end`). -/

/-- the messages the property talks about, with their documented preconditions: text is valid UTF-8
(true of every `Utf8Bytes`), control payloads are at most 125 bytes -/
def Sendable : Message → Prop
  | .text b => Spec.WellFormed b
  | .binary _ => True
  | .ping b => b.length ≤ 125
  | .pong b => b.length ≤ 125
  | _ => False

/-- the frame `write` builds for a message -/
def frameOf : Message → Frame
  | .text b => Frame.message b (.data .text) true
  | .binary b => Frame.message b (.data .binary) true
  | .ping b => Frame.ping b
  | .pong b => Frame.pong b
  | _ => Frame.close none

/-- the frames a writer of the given role queues for `msgs`: a client masks each with the next key -/
def framesOf : Role → List Message → List Mask → List Frame
  | _, [], _ => []
  | .server, m :: ms, ks => frameOf m :: framesOf .server ms ks
  | .client, m :: ms, k :: ks =>
      { frameOf m with header := { (frameOf m).header with mask := some k } } :: framesOf .client ms ks
  | .client, m :: ms, [] =>
      { frameOf m with header := { (frameOf m).header with mask := some ⟨0, 0, 0, 0⟩ } } :: framesOf .client ms []

/-! ## the frames of sendable messages are legitimate -/

/-- `frameOf m` with the mask field set -/
def withMask (m : Message) (k : Option Mask) : Frame :=
  { frameOf m with header := { (frameOf m).header with mask := k } }

theorem withMask_none (m : Message) : withMask m none = frameOf m := by
  cases m <;> rfl

theorem withMask_spec (writer : Role) (m : Message) (k : Option Mask)
    (hk : writer = .client ↔ k.isSome = true) (hs : Sendable m)
    (hlen : ∀ b, (m = .text b ∨ m = .binary b) → b.length < 2 ^ 63) :
    Pipe.Legit writer (withMask m k) ∧ (withMask m k).isClose = false ∧ msgOf (withMask m k) = m := by
  cases m with
  | text b =>
    exact ⟨⟨rfl, rfl, rfl, rfl, hk, hlen b (Or.inl rfl), Or.inl ⟨rfl, hs⟩⟩, rfl, rfl⟩
  | binary b =>
    exact ⟨⟨rfl, rfl, rfl, rfl, hk, hlen b (Or.inr rfl), Or.inr (Or.inl rfl)⟩, rfl, rfl⟩
  | ping b =>
    have h : b.length ≤ 125 := hs
    exact ⟨⟨rfl, rfl, rfl, rfl, hk, (by show b.length < 2 ^ 63; omega),
      Or.inr (Or.inr (Or.inl ⟨rfl, h⟩))⟩, rfl, rfl⟩
  | pong b =>
    have h : b.length ≤ 125 := hs
    exact ⟨⟨rfl, rfl, rfl, rfl, hk, (by show b.length < 2 ^ 63; omega),
      Or.inr (Or.inr (Or.inr (Or.inl ⟨rfl, h⟩)))⟩, rfl, rfl⟩
  | close c => cases hs
  | frame f => cases hs

theorem framesOf_spec (writer : Role) : ∀ (msgs : List Message) (ks : List Mask),
    (∀ m ∈ msgs, Sendable m) →
    (∀ m ∈ msgs, ∀ b, (m = .text b ∨ m = .binary b) → b.length < 2 ^ 63) →
    (∀ f ∈ framesOf writer msgs ks, Pipe.Legit writer f) ∧
    (∀ f ∈ framesOf writer msgs ks, f.isClose = false) ∧
    (framesOf writer msgs ks).map msgOf = msgs := by
  intro msgs
  induction msgs with
  | nil =>
    intro ks _ _
    have : framesOf writer [] ks = [] := by unfold framesOf; rfl
    rw [this]
    exact ⟨fun f hf => (by cases hf), fun f hf => (by cases hf), rfl⟩
  | cons m ms ih =>
    intro ks hs hlen
    have hsm := hs m (List.mem_cons_self ..)
    have hlm := hlen m (List.mem_cons_self ..)
    have hs' : ∀ x ∈ ms, Sendable x := fun x hx => hs x (List.mem_cons_of_mem _ hx)
    have hlen' : ∀ x ∈ ms, ∀ b, (x = .text b ∨ x = .binary b) → b.length < 2 ^ 63 :=
      fun x hx => hlen x (List.mem_cons_of_mem _ hx)
    have step : ∀ (k : Option Mask) (ks' : List Mask), (writer = .client ↔ k.isSome = true) →
        (∀ f ∈ withMask m k :: framesOf writer ms ks', Pipe.Legit writer f) ∧
        (∀ f ∈ withMask m k :: framesOf writer ms ks', f.isClose = false) ∧
        (withMask m k :: framesOf writer ms ks').map msgOf = m :: ms := by
      intro k ks' hk
      obtain ⟨h1, h2, h3⟩ := withMask_spec writer m k hk hsm hlm
      obtain ⟨i1, i2, i3⟩ := ih ks' hs' hlen'
      refine ⟨?_, ?_, ?_⟩
      · intro f hf
        rcases List.mem_cons.mp hf with rfl | hf
        · exact h1
        · exact i1 f hf
      · intro f hf
        rcases List.mem_cons.mp hf with rfl | hf
        · exact h2
        · exact i2 f hf
      · rw [List.map_cons, h3, i3]
    cases writer with
    | server =>
      have e : framesOf .server (m :: ms) ks = withMask m none :: framesOf .server ms ks := by
        rw [withMask_none]; rfl
      rw [e]
      exact step none ks ⟨fun h => (by cases h), fun h => (by cases h)⟩
    | client =>
      cases ks with
      | nil =>
        have e : framesOf .client (m :: ms) [] =
            withMask m (some ⟨0, 0, 0, 0⟩) :: framesOf .client ms [] := rfl
        rw [e]
        exact step _ [] ⟨fun _ => rfl, fun _ => rfl⟩
      | cons k ks =>
        have e : framesOf .client (m :: ms) (k :: ks) =
            withMask m (some k) :: framesOf .client ms ks := rfl
        rw [e]
        exact step _ ks ⟨fun _ => rfl, fun _ => rfl⟩

/-- the round trip for any `accept_unmasked_frames` setting of the reader -/
theorem spec_roundtrip_au (au : Bool) (writer : Role) (msgs : List Message) (ks : List Mask)
    (hs : ∀ m ∈ msgs, Sendable m) (hlen : ∀ m ∈ msgs, ∀ b, (m = .text b ∨ m = .binary b) → b.length < 2 ^ 63)
    (lim : Spec.Limits) (hlim : lim.maxFrame = none ∧ lim.maxMsg = none) :
    Spec.decode (peerOf writer) au lim (encodeAll (framesOf writer msgs ks)) = (msgs, .needMore) := by
  obtain ⟨h1, h2, h3⟩ := framesOf_spec writer msgs ks hs hlen
  rw [decode_eq_dec, dec_legit_full writer au lim hlim _ h1, expectAll_no_close _ h2, h3]

/-- decode ∘ encode = id at the level of whole message sequences: the one-shot RFC decoder of the
READER's role, applied to the concatenated encodings of the writer's frames, returns exactly the
messages, for every payload length (0, 125/126, 65535/65536, …), both directions, every key -/
theorem C01_spec_roundtrip (writer : Role) (msgs : List Message) (ks : List Mask)
    (hs : ∀ m ∈ msgs, Sendable m) (hlen : ∀ m ∈ msgs, ∀ b, (m = .text b ∨ m = .binary b) → b.length < 2 ^ 63)
    (lim : Spec.Limits) (hlim : lim.maxFrame = none ∧ lim.maxMsg = none) :
    Spec.decode (peerOf writer) false lim (encodeAll (framesOf writer msgs ks)) = (msgs, .needMore) :=
  spec_roundtrip_au false writer msgs ks hs hlen lim hlim

/-- end to end: the reader's successive reads return exactly the written messages, then block —
for every pre-read split and every segmentation (with WouldBlocks) of the writer's wire image -/
theorem C01_end_to_end (writer : Role) (msgs : List Message) (ks : List Mask)
    (hs : ∀ m ∈ msgs, Sendable m) (hlen : ∀ m ∈ msgs, ∀ b, (m = .text b ∨ m = .binary b) → b.length < 2 ^ 63)
    (cfg : Config) (hcfg : cfg.maxFrame = none ∧ cfg.maxMsg = none ∧ 200 ≤ cfg.maxw) (pre : Bytes) (c : Ctx)
    (hc : Ctx.new (peerOf writer) cfg pre = some c)
    (t : Transport) (hb : ∀ e ∈ t.rd, e.benign = true) (hdef : t.rdDef = .err .wouldBlock)
    (hout : t.acceptsAll) (mu : List Mask)
    (hstream : pre ++ dataOf t.rd = encodeAll (framesOf writer msgs ks))
    (htot : (encodeAll (framesOf writer msgs ks)).length < 2 ^ 64) :
    let w : World := { c := c, t := t, mu := mu }
    readAll (readAllFuel w) w = (msgs, .pending) := by
  intro w
  have h5 := C05.C05_segmentation_independent_of_size (peerOf writer) cfg pre c hc hcfg.2.2 t hb
    hdef hout mu (fun _ => by rw [hstream]; exact htot)
  dsimp only at h5
  rw [hstream, spec_roundtrip_au cfg.acceptUnmasked writer msgs ks hs hlen
    ⟨cfg.maxFrame, cfg.maxMsg⟩ ⟨hcfg.1, hcfg.2.1⟩] at h5
  obtain ⟨h1, h2⟩ := h5
  have h2' : (readAll (readAllFuel w) w).2 = .pending := h2
  exact Prod.ext h1 h2'

end WsProofs.C01
