import WsProofs.Props.C05
namespace WsProofs.C02
open WsModel WsModel.Gen WsModel.Spec WsProofs.Read

/-! # C02 — successive reads deliver what RFC 6455 says

The refinement statement is the one of C05 read the other way round: the incremental reader
delivers exactly the messages of the independent one-shot decoder `Spec.decode`, in order, and
ends as it ends.  The `C02_spec_*` lemmas characterise that decoder itself: each listed violation,
as the first frame of a stream, yields a protocol error whatever follows. -/

/-- successive reads deliver exactly the messages of the independent RFC 6455 decoder, in order,
and end as it ends — against the limits the implementation enforces, for every stream -/
theorem C02_refines_spec_effective
    (role : Role) (cfg : Config) (pre : Bytes) (c : Ctx) (hc : Ctx.new role cfg pre = some c)
    (hmax : 200 ≤ cfg.maxw)
    (t : Transport) (hb : ∀ e ∈ t.rd, e.benign = true) (hdef : t.rdDef = .err .wouldBlock)
    (hout : t.acceptsAll) (mu : List Mask) :
    let w : World := { c := c, t := t, mu := mu }
    let r := readAll (readAllFuel w) w
    let s := Spec.decode role cfg.acceptUnmasked (C05.effectiveLimits cfg) (pre ++ dataOf t.rd)
    r.1 = s.1 ∧ finalMatches role r.2 s.2 :=
  C05.C05_reads_effective_limits role cfg pre c hc hmax t hb hdef hout mu

/-- … and against the configured limits when a message-size limit is configured or the stream is
shorter than 2^64 bytes (see `C05.C05_unlimited_needs_size_bound` for why the proviso is there) -/
theorem C02_refines_spec_of_size
    (role : Role) (cfg : Config) (pre : Bytes) (c : Ctx) (hc : Ctx.new role cfg pre = some c)
    (hmax : 200 ≤ cfg.maxw)
    (t : Transport) (hb : ∀ e ∈ t.rd, e.benign = true) (hdef : t.rdDef = .err .wouldBlock)
    (hout : t.acceptsAll) (mu : List Mask)
    (hsz : cfg.maxMsg = none → (pre ++ dataOf t.rd).length < 2 ^ 64) :
    let w : World := { c := c, t := t, mu := mu }
    let r := readAll (readAllFuel w) w
    let s := Spec.decode role cfg.acceptUnmasked ⟨cfg.maxFrame, cfg.maxMsg⟩ (pre ++ dataOf t.rd)
    r.1 = s.1 ∧ finalMatches role r.2 s.2 :=
  C05.C05_segmentation_independent_of_size role cfg pre c hc hmax t hb hdef hout mu hsz

/-! ## the specification rejects each violation -/

theorem unmask_length (m : Option Mask) (p : Bytes) : (unmaskPayload m p).length = p.length := by
  cases m with
  | none => rfl
  | some k => rw [unmask_some]; exact C18.applyMask_length k p

/-- a complete first frame whose payload the message-level rules reject with a protocol error,
whatever the masking and reserved-bit checks say before -/
theorem decode_first_protocol (role : Role) (au : Bool) (lim : Limits) (bs : Bytes) (h : RawHeader)
    (hr : rawHeader bs = some h) (hd : isDefinedOpcode h.opcode = true)
    (hl : overLimit h.len lim.maxFrame = false) (hlen : h.size + h.len ≤ bs.length)
    (hfm : ∀ p : Bytes, p.length = h.len →
      frameMeaning lim none h.fin h.opcode p = .fail .protocol) :
    Spec.decode role au lim bs = ([], .error .protocol) := by
  rw [decode_eq_dec, dec_step]
  unfold frameStep
  rw [hr]
  dsimp only
  rw [hd, hl]
  simp only [Bool.not_true, Bool.false_eq_true, if_false]
  rw [if_neg (by omega)]
  by_cases h1 : role = .server ∧ h.mask.isNone = true ∧ (!au) = true
  · rw [if_pos h1]
  · rw [if_neg h1]
    by_cases h2 : h.rsv ≠ 0
    · rw [if_pos h2]
    · rw [if_neg h2]
      by_cases h3 : role = .client ∧ h.mask.isSome = true
      · rw [if_pos h3]
      · rw [if_neg h3]
        have hraw : ((bs.drop h.size).take h.len).length = h.len := by
          rw [List.length_take, List.length_drop]; omega
        rw [hfm _ (by
          by_cases hs : role = .server
          · rw [if_pos hs, unmask_length]; exact hraw
          · rw [if_neg hs]; exact hraw)]

/-- a complete first frame that one of the frame-level checks rejects -/
theorem decode_first_check (role : Role) (au : Bool) (lim : Limits) (bs : Bytes) (h : RawHeader)
    (hr : rawHeader bs = some h) (hd : isDefinedOpcode h.opcode = true)
    (hl : overLimit h.len lim.maxFrame = false) (hlen : h.size + h.len ≤ bs.length)
    (hck : (role = .server ∧ h.mask.isNone = true ∧ (!au) = true) ∨ h.rsv ≠ 0 ∨
      (role = .client ∧ h.mask.isSome = true)) :
    Spec.decode role au lim bs = ([], .error .protocol) := by
  rw [decode_eq_dec, dec_step]
  unfold frameStep
  rw [hr]
  dsimp only
  rw [hd, hl]
  simp only [Bool.not_true, Bool.false_eq_true, if_false]
  rw [if_neg (by omega)]
  by_cases h1 : role = .server ∧ h.mask.isNone = true ∧ (!au) = true
  · rw [if_pos h1]
  · rw [if_neg h1]
    by_cases h2 : h.rsv ≠ 0
    · rw [if_pos h2]
    · rw [if_neg h2]
      have h3 : role = .client ∧ h.mask.isSome = true := by
        rcases hck with hck | hck | hck
        · exact absurd hck h1
        · exact absurd hck h2
        · exact hck
      rw [if_pos h3]

/-- any RSV bit set -/
theorem C02_spec_rejects_rsv (role : Role) (au : Bool) (lim : Limits) (bs : Bytes) (h : RawHeader)
    (hr : rawHeader bs = some h) (hd : isDefinedOpcode h.opcode = true)
    (hl : overLimit h.len lim.maxFrame = false) (hlen : h.size + h.len ≤ bs.length)
    (hrsv : h.rsv ≠ 0) :
    Spec.decode role au lim bs = ([], .error .protocol) :=
  decode_first_check role au lim bs h hr hd hl hlen (Or.inr (Or.inl hrsv))

/-- a reserved opcode (3–7, 11–15): rejected as soon as the header is complete -/
theorem C02_spec_rejects_reserved_opcode (role : Role) (au : Bool) (lim : Limits) (bs : Bytes)
    (h : RawHeader) (hr : rawHeader bs = some h) (hd : isDefinedOpcode h.opcode = false) :
    Spec.decode role au lim bs = ([], .error .protocol) := by
  rw [decode_eq_dec, dec_step]
  unfold frameStep
  rw [hr]
  dsimp only
  rw [hd]
  rfl

/-- a control frame (opcode ≥ 8) with FIN clear -/
theorem C02_spec_rejects_fragmented_control (role : Role) (au : Bool) (lim : Limits) (bs : Bytes)
    (h : RawHeader) (hr : rawHeader bs = some h) (hd : isDefinedOpcode h.opcode = true)
    (hl : overLimit h.len lim.maxFrame = false) (hlen : h.size + h.len ≤ bs.length)
    (hop : h.opcode ≥ 8) (hfin : h.fin = false) :
    Spec.decode role au lim bs = ([], .error .protocol) :=
  decode_first_protocol role au lim bs h hr hd hl hlen (fun p _ => by
    rw [frameMeaning_ctl _ _ _ _ _ hop, hfin]; rfl)

/-- a control frame (opcode ≥ 8) with more than 125 payload bytes -/
theorem C02_spec_rejects_big_control (role : Role) (au : Bool) (lim : Limits) (bs : Bytes)
    (h : RawHeader) (hr : rawHeader bs = some h) (hd : isDefinedOpcode h.opcode = true)
    (hl : overLimit h.len lim.maxFrame = false) (hlen : h.size + h.len ≤ bs.length)
    (hop : h.opcode ≥ 8) (hbig : h.len > 125) :
    Spec.decode role au lim bs = ([], .error .protocol) :=
  decode_first_protocol role au lim bs h hr hd hl hlen (fun p hp => by
    rw [frameMeaning_ctl _ _ _ _ _ hop]
    cases h.fin with
    | false => rfl
    | true =>
      simp only [Bool.not_true, Bool.false_eq_true, if_false]
      rw [if_pos (by omega)])

/-- a continuation frame (opcode 0) with nothing to continue -/
theorem C02_spec_rejects_stray_continuation (role : Role) (au : Bool) (lim : Limits) (bs : Bytes)
    (h : RawHeader) (hr : rawHeader bs = some h)
    (hl : overLimit h.len lim.maxFrame = false) (hlen : h.size + h.len ≤ bs.length)
    (hop : h.opcode = 0) :
    Spec.decode role au lim bs = ([], .error .protocol) :=
  decode_first_protocol role au lim bs h hr (by rw [hop]; rfl) hl hlen (fun p _ => by
    rw [hop, frameMeaning_cont])

/-- server role, unmasked frame, `accept_unmasked_frames = false` -/
theorem C02_spec_rejects_wrong_mask_server (lim : Limits) (bs : Bytes) (h : RawHeader)
    (hr : rawHeader bs = some h) (hd : isDefinedOpcode h.opcode = true)
    (hl : overLimit h.len lim.maxFrame = false) (hlen : h.size + h.len ≤ bs.length)
    (hm : h.mask = none) :
    Spec.decode .server false lim bs = ([], .error .protocol) :=
  decode_first_check .server false lim bs h hr hd hl hlen (Or.inl ⟨rfl, by rw [hm]; rfl, rfl⟩)

/-- client role, masked frame -/
theorem C02_spec_rejects_wrong_mask_client (au : Bool) (lim : Limits) (bs : Bytes) (h : RawHeader)
    (hr : rawHeader bs = some h) (hd : isDefinedOpcode h.opcode = true)
    (hl : overLimit h.len lim.maxFrame = false) (hlen : h.size + h.len ≤ bs.length)
    (hm : h.mask.isSome = true) :
    Spec.decode .client au lim bs = ([], .error .protocol) :=
  decode_first_check .client au lim bs h hr hd hl hlen (Or.inr (Or.inr ⟨rfl, hm⟩))

/-- a Close frame with a 1-byte payload (a status code needs two) -/
theorem C02_spec_rejects_close_len1 (role : Role) (au : Bool) (lim : Limits) (bs : Bytes)
    (h : RawHeader) (hr : rawHeader bs = some h)
    (hl : overLimit h.len lim.maxFrame = false) (hlen : h.size + h.len ≤ bs.length)
    (hop : h.opcode = 8) (hone : h.len = 1) :
    Spec.decode role au lim bs = ([], .error .protocol) :=
  decode_first_protocol role au lim bs h hr (by rw [hop]; rfl) hl hlen (fun p hp => by
    rw [hop, frameMeaning_ctl _ _ _ _ _ (by decide)]
    cases h.fin with
    | false => rfl
    | true =>
      simp only [Bool.not_true, Bool.false_eq_true, if_false]
      rw [if_neg (by omega), if_pos trivial]
      match p, hp with
      | [x], _ => rfl
      | [], hp => rw [hone] at hp; cases hp
      | _ :: _ :: _, hp => rw [hone] at hp; simp at hp)

/-! ## concrete instances -/

/-- a masked text frame "A" with RSV1 set, followed by junk -/
example : Spec.decode .server false ⟨none, none⟩ [0xC1, 0x81, 1, 2, 3, 4, 0x40, 0xFF, 0xFF] =
    ([], .error .protocol) :=
  C02_spec_rejects_rsv .server false ⟨none, none⟩ _ ⟨true, 4, 1, some ⟨1, 2, 3, 4⟩, 1, 6⟩ rfl rfl rfl
    (by decide) (by decide)

/-- opcode 3 -/
example : Spec.decode .client false ⟨none, none⟩ [0x83, 0x00, 0x81, 0x00] = ([], .error .protocol) :=
  C02_spec_rejects_reserved_opcode .client false ⟨none, none⟩ _ ⟨true, 0, 3, none, 0, 2⟩ rfl rfl

/-- a ping with FIN clear -/
example : Spec.decode .client false ⟨none, none⟩ [0x09, 0x00, 0x81] = ([], .error .protocol) :=
  C02_spec_rejects_fragmented_control .client false ⟨none, none⟩ _ ⟨false, 0, 9, none, 0, 2⟩ rfl rfl rfl
    (by decide) (by decide) rfl

/-- a ping announcing 126 payload bytes -/
example : Spec.decode .client false ⟨none, none⟩ ([0x89, 0x7E, 0x00, 0x7E] ++ List.replicate 126 0) =
    ([], .error .protocol) :=
  C02_spec_rejects_big_control .client false ⟨none, none⟩ _ ⟨true, 0, 9, none, 126, 4⟩ rfl rfl rfl
    (by simp) (by decide) (by decide)

/-- a continuation frame first -/
example : Spec.decode .client false ⟨none, none⟩ [0x80, 0x01, 0x41, 0x81, 0x00] =
    ([], .error .protocol) :=
  C02_spec_rejects_stray_continuation .client false ⟨none, none⟩ _ ⟨true, 0, 0, none, 1, 2⟩ rfl rfl
    (by decide) rfl

/-- an unmasked text frame sent to a server -/
example : Spec.decode .server false ⟨none, none⟩ [0x81, 0x01, 0x41] = ([], .error .protocol) :=
  C02_spec_rejects_wrong_mask_server ⟨none, none⟩ _ ⟨true, 0, 1, none, 1, 2⟩ rfl rfl rfl
    (by decide) rfl

/-- a masked text frame sent to a client -/
example : Spec.decode .client false ⟨none, none⟩ [0x81, 0x81, 1, 2, 3, 4, 0x40] =
    ([], .error .protocol) :=
  C02_spec_rejects_wrong_mask_client false ⟨none, none⟩ _ ⟨true, 0, 1, some ⟨1, 2, 3, 4⟩, 1, 6⟩ rfl
    rfl rfl (by decide) rfl

/-- a Close frame with one payload byte -/
example : Spec.decode .client false ⟨none, none⟩ [0x88, 0x01, 0x03] = ([], .error .protocol) :=
  C02_spec_rejects_close_len1 .client false ⟨none, none⟩ _ ⟨true, 0, 8, none, 1, 2⟩ rfl rfl
    (by decide) rfl rfl

/-- the hypotheses are needed: the same RSV frame cut short is not an error yet -/
example : Spec.decode .server false ⟨none, none⟩ [0xC1, 0x81, 1, 2, 3, 4] = ([], .needMore) := by
  decide

/-- … and over the frame-size limit it is a capacity error instead -/
example : Spec.decode .client false ⟨some 2, none⟩ [0x81, 0x03, 0x41, 0x42, 0x43] =
    ([], .error .capacity) := by decide

end WsProofs.C02
