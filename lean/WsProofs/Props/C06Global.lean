import WsModel.Codec

/-! The buffer space the reader asks for is bounded by the limit before the data arrives (C06). -/
namespace WsProofs.C06
open WsModel WsModel.Gen

/-- the reader never asks for more buffer space than the frame-size limit allows (or the 6 bytes it
wants for a header): memory is bounded BEFORE the data arrives, whatever length the peer announces -/
theorem C06_reserve_bounded (c : Codec) (maxSize n : Nat) (h : c.trySplit maxSize = .more n) :
    n ≤ max 6 maxSize := by
  unfold Codec.trySplit at h
  cases hh : c.header with
  | none =>
    simp only [hh] at h
    cases h
    exact Nat.le_max_left 6 maxSize
  | some p =>
    obtain ⟨hd, len⟩ := p
    simp only [hh] at h
    by_cases h1 : len > maxSize
    · simp only [h1, if_true] at h
      cases h
    · simp only [h1, if_false] at h
      by_cases h2 : len ≤ c.inBuf.length
      · simp only [h2, if_true] at h
        cases h
      · simp only [h2, if_false] at h
        cases h
        exact Nat.le_trans (Nat.le_of_not_gt h1) (Nat.le_max_right 6 maxSize)

end WsProofs.C06
