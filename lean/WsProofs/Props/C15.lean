import WsModel.Handshake.Run
import WsProofs.Lemmas.HsServerChecks
import WsProofs.Lemmas.HsHget

/-! # C15 — the server side of the opening handshake

The server answers a request with the `101` built by `create_parts` exactly when the request is a
valid upgrade request; the response carries `base64(SHA-1(key ++ GUID))`; header order, name case
and additional headers are irrelevant; an invalid request never gets a `101`; a rejection by the
user callback is written in full. -/
namespace WsProofs.C15
open WsModel WsModel.Hs WsModel.Gen WsProofs.HsL

/-- the property's list of conditions on the parsed request head -/
def ValidUpgrade (h : RawHead) (tail : Bytes) : Prop :=
  h.method = GET ∧ 1 ≤ h.version ∧ h.uriOk = true ∧ tail = [] ∧
  (∃ v, hget h.headers srvConnectionName = some v ∧ toStr v = some v ∧
        ∃ tok ∈ splitOn srvConnectionSplit v, eqIgnoreCase tok srvConnectionToken = true) ∧
  (∃ v, hget h.headers srvUpgradeName = some v ∧ toStr v = some v ∧ eqIgnoreCase v srvUpgradeValue = true) ∧
  hget h.headers srvVersionName = some srvVersionValue ∧
  (∃ k, hget h.headers srvKeyName = some k)

/-- `ValidUpgrade` in terms of `create_parts` -/
theorem validUpgrade_iff (h : RawHead) (tail : Bytes) :
    ValidUpgrade h tail ↔
      h.method = GET ∧ 1 ≤ h.version ∧ h.uriOk = true ∧ tail = [] ∧ ∃ acc, createParts h.headers = .ok acc := by
  unfold ValidUpgrade
  constructor
  · intro ⟨h1, h2, h3, h4, c1, c2, c3, k, hk⟩
    exact ⟨h1, h2, h3, h4, _, (createParts_ok_iff _ _).2 ⟨c1, c2, c3, k, hk, rfl⟩⟩
  · intro ⟨h1, h2, h3, h4, acc, hc⟩
    obtain ⟨c1, c2, c3, k, hk, _⟩ := (createParts_ok_iff _ _).1 hc
    exact ⟨h1, h2, h3, h4, c1, c2, c3, k, hk⟩

/-- any successful `DoneReading` stage, whatever the callback, had a valid upgrade request -/
theorem valid_of_ok {r0 : ServerRole} {h : RawHead} {tail : Bytes} {res : ServerRole × Bytes}
    (hok : serverAfterRead r0 h tail = .ok res) : ValidUpgrade h tail := by
  obtain ⟨h1, h2, h3, h4, acc, hc, _⟩ := (serverAfterRead_ok_iff _ _ _ _).1 hok
  exact (validUpgrade_iff h tail).2 ⟨h1, h2, h3, h4, acc, hc⟩

/-- the server goes on to write a response built by create_parts iff the request is a valid upgrade -/
theorem C15_accept_iff (h : RawHead) (tail : Bytes) :
    (∃ r out, serverAfterRead { callback := .none_ } h tail = .ok (r, out)) ↔ ValidUpgrade h tail := by
  constructor
  · intro ⟨r, out, hok⟩; exact valid_of_ok hok
  · intro hv
    obtain ⟨h1, h2, h3, h4, acc, hc⟩ := (validUpgrade_iff h tail).1 hv
    exact ⟨_, _, (serverAfterRead_ok_iff _ _ _ _).2 ⟨h1, h2, h3, h4, acc, hc, rfl⟩⟩

/-- the response is the 101 with Upgrade, Connection and base64(SHA-1(key ++ GUID)) -/
theorem C15_response (h : RawHead) (r : ServerRole) (out : Bytes)
    (hok : serverAfterRead { callback := .none_ } h [] = .ok (r, out)) :
    ∃ key, hget h.headers srvKeyName = some key ∧
      out = response101 (base64Encode (sha1 (key ++ wsGuidLit))) [] ∧ r.errorResponse = none := by
  obtain ⟨_, _, _, _, acc, hc, hcb⟩ := (serverAfterRead_ok_iff _ _ _ _).1 hok
  obtain ⟨_, _, _, key, hk, hacc⟩ := (createParts_ok_iff _ _).1 hc
  simp only [cbResult, Except.ok.injEq, Prod.mk.injEq] at hcb
  refine ⟨key, hk, ?_, ?_⟩
  · rw [← hcb.2, hacc]
  · rw [← hcb.1]

/-- the bytes of that response, spelled out -/
theorem C15_response_bytes (accept : Bytes) :
    response101 accept [] =
      statusLine101 ++ [99,111,110,110,101,99,116,105,111,110,58,32,85,112,103,114,97,100,101,13,10]
        ++ [117,112,103,114,97,100,101,58,32,119,101,98,115,111,99,107,101,116,13,10]
        ++ [115,101,99,45,119,101,98,115,111,99,107,101,116,45,97,99,99,101,112,116,58,32] ++ accept ++ [13,10]
        ++ [13,10] := by
  have e1 : headerLine (lowerAll srvRespConnection.1) srvRespConnection.2
      = [99,111,110,110,101,99,116,105,111,110,58,32,85,112,103,114,97,100,101,13,10] := by decide
  have e2 : headerLine (lowerAll srvRespUpgrade.1) srvRespUpgrade.2
      = [117,112,103,114,97,100,101,58,32,119,101,98,115,111,99,107,101,116,13,10] := by decide
  have e3 : lowerAll srvRespAcceptName ++ colonSp
      = [115,101,99,45,119,101,98,115,111,99,107,101,116,45,97,99,99,101,112,116,58,32] := by decide
  unfold response101
  rw [headerLines_base, e1, e2]
  unfold headerLine
  rw [e3]
  simp only [List.map_nil, List.flatten_nil, List.append_nil, crlf, List.append_assoc]

/-- the generated GUID and the Lean SHA-1/Base64 reproduce the RFC 6455 example -/
theorem C15_rfc_example :
    base64Encode (sha1 ([100,71,104,108,73,72,78,104,98,88,66,115,90,83,66,117,98,50,53,106,90,81,61,61] ++ wsGuidLit))
      = [115,51,112,80,76,77,66,105,84,120,97,81,57,107,89,71,122,122,104,90,82,98,75,43,120,79,111,61] := by
  decide +kernel

/-- header order, name case and additional headers do not matter when each required header occurs once -/
theorem C15_name_case_irrelevant (hs : List (Bytes × Bytes)) (f : Bytes → Bytes)
    (hf : ∀ n, lowerAll (f n) = lowerAll n) :
    createParts (hs.map fun (n, v) => (f n, v)) = createParts hs :=
  createParts_congr fun name _ => hget_map_name f hf name hs

theorem C15_order_irrelevant (hs₁ hs₂ : List (Bytes × Bytes)) (hp : hs₁.Perm hs₂)
    (huniq : ∀ name ∈ [srvConnectionName, srvUpgradeName, srvVersionName, srvKeyName],
        (hs₁.filter fun (n, _) => eqIgnoreCase n name).length ≤ 1) :
    createParts hs₁ = createParts hs₂ :=
  createParts_congr fun name hn => hget_perm name hp (huniq name hn)

theorem C15_extra_headers_irrelevant (hs : List (Bytes × Bytes)) (n v : Bytes) (i : Nat)
    (hn : ∀ name ∈ [srvConnectionName, srvUpgradeName, srvVersionName, srvKeyName], eqIgnoreCase n name = false) :
    createParts (hs.take i ++ (n, v) :: hs.drop i) = createParts hs :=
  createParts_congr fun name hm => hget_insert name n v (hn name hm) hs i

/-- an invalid request never gets a 101: the handshake fails without writing anything -/
theorem C15_no_101_when_invalid (parse : Bytes → HeadParse) (cb : Callback) (h : RawHead) (tail : Bytes)
    (hinv : ¬ ValidUpgrade h tail) : ∃ e, serverAfterRead { callback := cb } h tail = .error e := by
  have _ := parse
  cases hr : serverAfterRead { callback := cb } h tail with
  | error e => exact ⟨e, rfl⟩
  | ok res => exact absurd (valid_of_ok hr) hinv

/-- a callback rejection is written in full (status line, headers, body) and reported as an HTTP error -/
theorem C15_callback_reject (h : RawHead) (status : Nat) (line : Bytes) (hs : List (Bytes × Bytes))
    (body : Option Bytes) (hv : ValidUpgrade h []) (hs2 : ¬ (200 ≤ status ∧ status < 300)) :
    serverSpec (.reject status line hs body) h = (rejectBytes line hs body, .failed (.http status body)) := by
  obtain ⟨h1, h2, h3, h4, acc, hc⟩ := (validUpgrade_iff h []).1 hv
  have : serverAfterRead { callback := .reject status line hs body } h [] =
      .ok ({ callback := .none_, errorResponse := some (status, body) }, rejectBytes line hs body) := by
    apply (serverAfterRead_ok_iff _ _ _ _).2
    refine ⟨h1, h2, h3, h4, acc, hc, ?_⟩
    simp only [cbResult, hs2, if_false]
  unfold serverSpec
  rw [this]

/-! ### concrete instances (non-vacuity) -/

/-- the RFC 6455 §1.3 request: `Connection: keep-alive, Upgrade`, `upgrade: WebSocket`, … -/
def exHead : RawHead :=
  { method := GET
    headers :=
      [([72, 111, 115, 116], [97]),
       ([99, 111, 110, 110, 101, 99, 116, 105, 111, 110],
          [107, 101, 101, 112, 45, 97, 108, 105, 118, 101, 44, 32, 85, 112, 103, 114, 97, 100, 101]),
       ([117, 112, 103, 114, 97, 100, 101], [87, 101, 98, 83, 111, 99, 107, 101, 116]),
       (srvVersionName, [49, 51]),
       (srvKeyName, [100,71,104,108,73,72,78,104,98,88,66,115,90,83,66,117,98,50,53,106,90,81,61,61])] }

theorem exValid : ValidUpgrade exHead [] :=
  ⟨by decide, by decide, by decide, rfl,
   ⟨[107, 101, 101, 112, 45, 97, 108, 105, 118, 101, 44, 32, 85, 112, 103, 114, 97, 100, 101],
      by decide, by decide, [85, 112, 103, 114, 97, 100, 101], by decide, by decide⟩,
   ⟨[87, 101, 98, 83, 111, 99, 107, 101, 116], by decide, by decide, by decide⟩, by decide,
   ⟨[100,71,104,108,73,72,78,104,98,88,66,115,90,83,66,117,98,50,53,106,90,81,61,61], by decide⟩⟩

example : (serverSpec .none_ exHead).1 =
    response101 [115,51,112,80,76,77,66,105,84,120,97,81,57,107,89,71,122,122,104,90,82,98,75,43,120,79,111,61] [] := by
  decide +kernel

example : ∃ r, serverAfterRead { callback := .none_ } exHead [] =
    .ok (r, response101 [115,51,112,80,76,77,66,105,84,120,97,81,57,107,89,71,122,122,104,90,82,98,75,43,120,79,111,61] []) := by
  obtain ⟨r, out, h⟩ := (C15_accept_iff exHead []).2 exValid
  obtain ⟨key, hk, hout, _⟩ := C15_response exHead r out h
  have : key = [100,71,104,108,73,72,78,104,98,88,66,115,90,83,66,117,98,50,53,106,90,81,61,61] := by
    have h2 : hget exHead.headers srvKeyName =
        some [100,71,104,108,73,72,78,104,98,88,66,115,90,83,66,117,98,50,53,106,90,81,61,61] := by decide
    rw [h2] at hk; exact (Option.some.inj hk).symm
  subst this
  rw [C15_rfc_example] at hout
  exact ⟨r, hout ▸ h⟩

/-- bytes after the head, a POST, HTTP/1.0, a missing or wrong header: refused -/
example : ¬ ValidUpgrade exHead [0] := fun h => by cases h.2.2.2.1
example : serverAfterRead { callback := .none_ } exHead [0] = .error .junkAfterRequest := by rfl
example : serverAfterRead { callback := .none_ } { exHead with method := [80, 79, 83, 84] } [] =
    .error .wrongHttpMethod := by rfl
example : serverAfterRead { callback := .none_ } { exHead with version := 0 } [] = .error .wrongHttpVersion := by
  rfl
example : serverAfterRead { callback := .none_ } { exHead with headers := exHead.headers.take 4 } [] =
    .error .missingSecWebSocketKey := by rfl
example : serverAfterRead { callback := .none_ } { exHead with headers := exHead.headers.drop 2 } [] =
    .error .missingConnectionUpgradeHeader := by rfl

/-- without the uniqueness hypothesis header order does matter: two different keys -/
example : (createParts (exHead.headers ++ [(srvKeyName, [65])])).toOption ≠
    (createParts ((srvKeyName, [65]) :: exHead.headers)).toOption := by decide +kernel

/-- a callback rejection with a 2xx status is refused instead -/
example : (serverSpec (.reject 200 [] [] none) exHead).1 = [] := by decide +kernel
example : (serverSpec (.reject 403 [72] [([88], [89])] (some [110, 111])) exHead).1 =
    [72, 13, 10, 120, 58, 32, 89, 13, 10, 13, 10, 110, 111] := by decide +kernel

end WsProofs.C15
