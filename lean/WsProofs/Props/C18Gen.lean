import WsProofs.Props.TieHdr
import WsProofs.Props.C18
import WsModel.CodecM
import WsProofs.Props.TieFrame

/-! C18 stated directly for the machine translation of `FrameHeader::{parse, format}`
(`WsModel/Generated/HdrGen.lean`, regenerated from `/repo` on every run): the headline statements
of `Props/C18.lean` carried over to the translated code with the tie theorems of `Props/TieHdr.lean`. -/
namespace WsProofs.C18Gen
open WsModel WsModel.Gen WsModel.GenHdr WsProofs.Tie WsProofs.C18

/-- the bytes the translated `FrameHeader::format` writes into an empty output -/
def encode (h : Header) (len : Nat) : Bytes := (GenHdr.format h len ⟨[], 0, []⟩).1.out

theorem C18_gen_encode_eq (h : Header) (len : Nat) : encode h len = h.format len := by
  unfold encode
  rw [Tie_hdr_format]
  simp only [List.nil_append]

/-- the translated encoder never fails and touches neither the data nor the position -/
theorem C18_gen_format_ok (h : Header) (len : Nat) (s : St) :
    (GenHdr.format h len s).2 = .ok () ∧ (GenHdr.format h len s).1.data = s.data ∧
    (GenHdr.format h len s).1.pos = s.pos := by
  rw [Tie_hdr_format]
  exact ⟨rfl, rfl, rfl⟩

/-- decode ∘ encode = id **on the translated code**: for every header with a non-reserved opcode
(all flag bits, with or without key), every 64-bit length, whatever follows and wherever the
encoded header sits in the data, the translated `parse` returns the header and the length and
advances the cursor by exactly the advertised header size -/
theorem C18_gen_roundtrip (h : Header) (len : Nat) (before rest out : Bytes)
    (hv : isReservedOpcode h.opcode = false) (hl : len < 2 ^ 64) :
    GenHdr.parse ⟨before ++ encode h len ++ rest, before.length, out⟩ =
      (⟨before ++ encode h len ++ rest, before.length + h.len len, out⟩, .ok (some (h, len))) := by
  have hrest : (St.rest ⟨before ++ encode h len ++ rest, before.length, out⟩) = h.format len ++ rest := by
    unfold St.rest
    rw [C18_gen_encode_eq, List.append_assoc, List.drop_left]
  have hp := C18_parse_format h len rest hv hl
  rw [← hrest] at hp
  have h1 := Tie_hdr_parse_result ⟨before ++ encode h len ++ rest, before.length, out⟩
  have h2 := Tie_hdr_parse_state_header _ h len (h.len len) hp
  rw [hp] at h1
  exact Prod.ext h2 h1

/-- the encoded size is the advertised header size -/
theorem C18_gen_size (h : Header) (len : Nat) : (encode h len).length = h.len len := by
  rw [C18_gen_encode_eq]
  exact C18_format_length h len

/-- the translated decoder never panics, on any cursor -/
theorem C18_gen_parse_total (s : St) (p : PanicSite) : (GenHdr.parse s).2 ≠ .panic p := by
  rw [Tie_hdr_parse_result]
  have ht := C18_parse_total s.rest
  cases hq : Header.parse s.rest with
  | header h l u => intro e; cases e
  | incomplete => intro e; cases e
  | error e => intro e'; cases e'
  | panic q => exact absurd hq (ht q)

/-- "incomplete" consumes nothing: when the translated `parse` answers `Ok(None)` the cursor is
where it was -/
theorem C18_gen_incomplete_consumes_nothing (s : St) (hn : (GenHdr.parse s).2 = .ok none) :
    (GenHdr.parse s).1 = s := by
  rw [Tie_hdr_parse_result] at hn
  apply Tie_hdr_parse_state_incomplete
  cases hq : Header.parse s.rest with
  | header h l u => rw [hq] at hn; cases hn
  | incomplete => rfl
  | error e => rw [hq] at hn; cases hn
  | panic q => rw [hq] at hn; cases hn

/-- a header is consumed exactly: whenever the translated `parse` returns a header, the bytes it
moved over re-decode (hand model) to the same header, and every shorter prefix is incomplete -/
theorem C18_gen_consumes_header (s : St) (h : Header) (len : Nat)
    (hr : (GenHdr.parse s).2 = .ok (some (h, len))) :
    ∃ used, (GenHdr.parse s).1 = { s with pos := s.pos + used } ∧ used ≤ s.rest.length ∧
      Header.parse (s.rest.take used) = .header h len used ∧
      ∀ k, k < used → Header.parse (s.rest.take k) = .incomplete := by
  rw [Tie_hdr_parse_result] at hr
  cases hq : Header.parse s.rest with
  | header h' l u =>
    rw [hq] at hr
    simp only [parseResOf, Res.ok.injEq, Option.some.injEq, Prod.mk.injEq] at hr
    obtain ⟨rfl, rfl⟩ := hr
    obtain ⟨a, b, c⟩ := C18_parse_prefix s.rest h' l u hq
    exact ⟨u, Tie_hdr_parse_state_header s h' l u hq, a, b, c⟩
  | incomplete => rw [hq] at hr; cases hr
  | error e => rw [hq] at hr; cases hr
  | panic q => rw [hq] at hr; cases hr

/-- the leaf `FrameHeader::parse(&mut cursor)` of the translated `FrameCodec::read_frame`
(`GenCodec.headerParseAt`, `WsModel/CodecM.lean`) is the translated `FrameHeader::parse`: same
result on every cursor, and the same cursor whenever the result is `Ok` (after an error the codec
drops the cursor) -/
theorem C18_gen_codec_leaf (buf : Bytes) (pos : Nat) (out : Bytes) :
    (GenCodec.headerParseAt (buf, pos)).2 = (GenHdr.parse ⟨buf, pos, out⟩).2 ∧
    (∀ x, (GenCodec.headerParseAt (buf, pos)).2 = .ok x →
      (GenCodec.headerParseAt (buf, pos)).1 =
        ((GenHdr.parse ⟨buf, pos, out⟩).1.data, (GenHdr.parse ⟨buf, pos, out⟩).1.pos)) := by
  have hr := Tie_hdr_parse_result ⟨buf, pos, out⟩
  have hrest : St.rest ⟨buf, pos, out⟩ = buf.drop pos := rfl
  rw [hrest] at hr
  unfold GenCodec.headerParseAt
  cases hq : Header.parse (buf.drop pos) with
  | header h l u =>
    have hs := Tie_hdr_parse_state_header ⟨buf, pos, out⟩ h l u (by rw [hrest]; exact hq)
    rw [hq] at hr
    refine ⟨by rw [hr]; rfl, fun x _ => ?_⟩
    rw [hs]
  | incomplete =>
    have hs := Tie_hdr_parse_state_incomplete ⟨buf, pos, out⟩ (by rw [hrest]; exact hq)
    rw [hq] at hr
    refine ⟨by rw [hr]; rfl, fun x _ => ?_⟩
    rw [hs]
  | error e =>
    rw [hq] at hr
    refine ⟨by rw [hr]; rfl, fun x hx => ?_⟩
    cases hx
  | panic q =>
    rw [hq] at hr
    refine ⟨by rw [hr]; rfl, fun x hx => ?_⟩
    cases hx

/-- the two translated frame encoders (`Frame::format` into a fresh vector, `Frame::format_into_buf`
behind whatever the write buffer already holds) emit identical bytes, neither fails, and the
translated `Frame::len` is the number of bytes either emits -/
theorem C18_gen_encoders_agree (f : Frame) (buf : Bytes) :
    (GenFrame.formatIntoBuf f buf).1 = buf ++ (GenFrame.format f []).1 ∧
    (GenFrame.formatIntoBuf f buf).2 = .ok () ∧ (GenFrame.format f []).2 = .ok () ∧
    GenFrame.len f buf = (buf, .ok (GenFrame.format f []).1.length) := by
  rw [Tie_frame_formatIntoBuf, Tie_frame_format, Tie_frame_len]
  obtain ⟨h1, h2⟩ := C18_encoders_agree f buf
  refine ⟨?_, rfl, rfl, ?_⟩
  · show f.formatIntoBuf buf = buf ++ ([] ++ f.format)
    rw [List.nil_append]; exact h1
  · show (buf, Res.ok f.len) = (buf, Res.ok ([] ++ f.format).length)
    rw [List.nil_append, h2]

/-- a frame written by the translated in-place encoder starts with the bytes the translated
header encoder writes for its header and payload length -/
theorem C18_gen_frame_starts_with_header (f : Frame) :
    ∃ body, (GenFrame.format f []).1 = encode f.header f.payload.length ++ body ∧
      body.length = f.payload.length := by
  rw [Tie_frame_format, C18_gen_encode_eq]
  simp only [List.nil_append]
  unfold Frame.format
  cases f.header.mask with
  | none => exact ⟨f.payload, rfl, rfl⟩
  | some m => exact ⟨applyMask m f.payload, rfl, WsProofs.C18.applyMask_length m f.payload⟩

/-- non-vacuity: a masked binary header with a 16-bit length, behind two foreign bytes -/
def exH : Header :=
  { fin := true, rsv1 := false, rsv2 := false, rsv3 := false, opcode := .data .binary,
    mask := some ⟨1, 2, 3, 4⟩ }

example : GenHdr.parse ⟨[9, 9] ++ encode exH 300 ++ [7], 2, []⟩ =
    (⟨[9, 9, 0x82, 0xfe, 1, 44, 1, 2, 3, 4, 7], 10, []⟩, .ok (some (exH, 300))) := rfl

end WsProofs.C18Gen
