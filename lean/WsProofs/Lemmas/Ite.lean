/-! `if`-chain elimination that scales to the long generated chains. -/

theorem ite_cases {α : Sort _} {P : α → Prop} (c : Prop) [Decidable c] (a b : α)
    (h1 : c → P a) (h2 : ¬ c → P b) : P (if c then a else b) := by
  by_cases h : c
  · rw [if_pos h]; exact h1 h
  · rw [if_neg h]; exact h2 h
