import WsModel.Spec.Rfc6455
import WsProofs.Lemmas.CollectorLemmas
import WsProofs.Lemmas.Utf8TableLemmas

/-! The specification's `viablePrefixB` (can these bytes still become well-formed UTF-8?) against
the state of the model's fragment collector. -/
namespace WsProofs.Read
open WsModel WsModel.Spec WsProofs.Utf8

theorem pp1 (a : UInt8) : properPrefixB [a] = true ↔ 194 ≤ a.toNat ∧ a.toNat ≤ 244 := by
  simp [properPrefixB, UInt8.le_iff_toNat_le]

theorem pp2 (a b : UInt8) : properPrefixB [a, b] = true ↔
    (a.toNat = 224 ∧ 160 ≤ b.toNat ∧ b.toNat ≤ 191) ∨
    (225 ≤ a.toNat ∧ a.toNat ≤ 236 ∧ 128 ≤ b.toNat ∧ b.toNat ≤ 191) ∨
    (a.toNat = 237 ∧ 128 ≤ b.toNat ∧ b.toNat ≤ 159) ∨
    (238 ≤ a.toNat ∧ a.toNat ≤ 239 ∧ 128 ≤ b.toNat ∧ b.toNat ≤ 191) ∨
    (a.toNat = 240 ∧ 144 ≤ b.toNat ∧ b.toNat ≤ 191) ∨
    (241 ≤ a.toNat ∧ a.toNat ≤ 243 ∧ 128 ≤ b.toNat ∧ b.toNat ≤ 191) ∨
    (a.toNat = 244 ∧ 128 ≤ b.toNat ∧ b.toNat ≤ 143) := by
  simp [properPrefixB, contB, UInt8.le_iff_toNat_le, ← UInt8.toNat_inj, and_assoc, or_assoc]

theorem pp3 (a b c : UInt8) : properPrefixB [a, b, c] = true ↔
    ((a.toNat = 240 ∧ 144 ≤ b.toNat ∧ b.toNat ≤ 191) ∨
     (241 ≤ a.toNat ∧ a.toNat ≤ 243 ∧ 128 ≤ b.toNat ∧ b.toNat ≤ 191) ∨
     (a.toNat = 244 ∧ 128 ≤ b.toNat ∧ b.toNat ≤ 143)) ∧ 128 ≤ c.toNat ∧ c.toNat ≤ 191 := by
  simp [properPrefixB, contB, UInt8.le_iff_toNat_le, ← UInt8.toNat_inj, and_assoc, or_assoc]

theorem step1 (a : UInt8) : utf8Step [a] = .incomplete ↔ 194 ≤ a.toNat ∧ a.toNat ≤ 244 := by
  rcases width_cases a with hw | hw | hw | hw | hw
  · have := (width0 a).mp hw
    simp [utf8Step, hw]; omega
  · have := (width1 a).mp hw
    simp [utf8Step, hw]; omega
  · have := (width2 a).mp hw
    simp [utf8Step, hw]; omega
  · have := (width3 a).mp hw
    simp [utf8Step, hw]; omega
  · have := (width4 a).mp hw
    simp [utf8Step, hw]; omega

theorem step2 (a b : UInt8) : utf8Step [a, b] = .incomplete ↔
    (utf8CharWidth a = 3 ∧ second3Ok a b = true) ∨ (utf8CharWidth a = 4 ∧ second4Ok a b = true) := by
  rcases width_cases a with hw | hw | hw | hw | hw
  · simp [utf8Step, hw]
  · simp [utf8Step, hw]
  · simp [utf8Step, hw]; split <;> simp
  · simp [utf8Step, hw]
  · simp [utf8Step, hw]

theorem step3 (a b c : UInt8) : utf8Step [a, b, c] = .incomplete ↔
    utf8CharWidth a = 4 ∧ second4Ok a b = true ∧ isCont c = true := by
  rcases width_cases a with hw | hw | hw | hw | hw
  · simp [utf8Step, hw]
  · simp [utf8Step, hw]
  · simp [utf8Step, hw]; split <;> simp
  · simp [utf8Step, hw]
    by_cases h : second3Ok a b = true
    · simp [h]; split <;> simp
    · simp [h]
  · simp [utf8Step, hw]
    by_cases h : second4Ok a b = true
    · simp [h]
    · simp [h]

/-- `properPrefixB` is exactly the collector's "unfinished code point" state -/
theorem properPrefix_iff (tail : Bytes) : properPrefixB tail = true ↔ utf8Step tail = .incomplete := by
  match tail with
  | [] => simp [properPrefixB, utf8Step]
  | [a] => rw [pp1, step1]
  | [a, b] =>
    rw [pp2, step2, width3, width4, second3Ok_nat, second4Ok_nat]
    omega
  | [a, b, c] =>
    rw [pp3, step3, width4, second4Ok_nat, isCont_nat]
    omega
  | a :: b :: c :: d :: r =>
    constructor
    · intro h; simp [properPrefixB] at h
    · intro h
      have := (step_incomplete h).2.1
      simp at this

theorem viable_of_wf {bs : Bytes} (h : WellFormed bs) : viablePrefixB bs = true := by
  simp [viablePrefixB, (wellFormedB_iff bs).mpr h]

/-- the collector invariant says the bytes seen so far are viable -/
theorem viable_of_split {d buf : Bytes} (hd : WellFormed d) (hb : utf8Step buf = .incomplete) :
    viablePrefixB (d ++ buf) = true := by
  obtain ⟨h1, h3, _⟩ := step_incomplete hb
  have hpp := (properPrefix_iff buf).mpr hb
  have hwf := (wellFormedB_iff d).mpr hd
  have hlen : (d ++ buf).length = d.length + buf.length := List.length_append
  have htake : (d ++ buf).take ((d ++ buf).length - buf.length) = d := by
    rw [hlen, Nat.add_sub_cancel]; exact List.take_left' rfl
  have hdrop : (d ++ buf).drop ((d ++ buf).length - buf.length) = buf := by
    rw [hlen, Nat.add_sub_cancel]; exact List.drop_left' rfl
  unfold viablePrefixB
  have hcases : buf.length = 1 ∨ buf.length = 2 ∨ buf.length = 3 := by omega
  rcases hcases with hk | hk | hk
  · rw [hk] at htake hdrop
    have hle : decide (1 ≤ (d ++ buf).length) = true := by
      rw [decide_eq_true_eq, hlen]; omega
    simp only [htake, hdrop, hwf, hpp, hle, Bool.and_true, Bool.or_true, Bool.true_or]
  · rw [hk] at htake hdrop
    have hle : decide (2 ≤ (d ++ buf).length) = true := by
      rw [decide_eq_true_eq, hlen]; omega
    simp only [htake, hdrop, hwf, hpp, hle, Bool.and_true, Bool.or_true, Bool.true_or]
  · rw [hk] at htake hdrop
    have hle : decide (3 ≤ (d ++ buf).length) = true := by
      rw [decide_eq_true_eq, hlen]; omega
    simp only [htake, hdrop, hwf, hpp, hle, Bool.and_true, Bool.or_true]

theorem extendable_of_viable {bs : Bytes} (h : viablePrefixB bs = true) :
    ∃ more, WellFormed (bs ++ more) := by
  unfold viablePrefixB at h
  have key : ∀ k, wellFormedB (bs.take (bs.length - k)) = true →
      properPrefixB (bs.drop (bs.length - k)) = true → ∃ more, WellFormed (bs ++ more) := by
    intro k h1 h2
    have hw := (wellFormedB_iff _).mp h1
    obtain ⟨_, _, more, _, hseq⟩ := step_incomplete ((properPrefix_iff _).mp h2)
    refine ⟨more, ?_⟩
    have := wf_append hw (seq_wf hseq)
    rwa [← List.append_assoc, List.take_append_drop] at this
  simp only [Bool.or_eq_true, Bool.and_eq_true] at h
  rcases h with ((h | ⟨⟨_, h1⟩, h2⟩) | ⟨⟨_, h1⟩, h2⟩) | ⟨⟨_, h1⟩, h2⟩
  · exact ⟨[], by rw [List.append_nil]; exact (wellFormedB_iff bs).mp h⟩
  · exact key 1 h1 h2
  · exact key 2 h1 h2
  · exact key 3 h1 h2

/-- the collector accepted `seen`: the specification calls `seen` viable -/
theorem viable_of_inv {s : Collector} {seen : Bytes} (h : Collector.Inv s seen) :
    viablePrefixB seen = true := by
  obtain ⟨hd, hi⟩ := h
  cases hinc : s.incomplete with
  | none =>
    rw [hinc] at hi
    simp only at hi
    rw [← hi]; exact viable_of_wf hd
  | some buf =>
    rw [hinc] at hi
    simp only at hi
    rw [← hi.1]; exact viable_of_split hd hi.2

/-- the collector rejected `seen`: the specification calls `seen` not viable -/
theorem not_viable_of_dead {seen : Bytes} (h : ∀ more, ¬ WellFormed (seen ++ more)) :
    viablePrefixB seen = false := by
  cases hv : viablePrefixB seen with
  | false => rfl
  | true =>
    obtain ⟨more, hm⟩ := extendable_of_viable hv
    exact absurd hm (h more)

/-- a finished text: `into_string` succeeds exactly on well-formed input -/
theorem intoString_of_inv {s : Collector} {seen : Bytes} (h : Collector.Inv s seen) :
    (wellFormedB seen = true ∧ s.intoString = .ok seen) ∨
    (wellFormedB seen = false ∧ s.intoString = .err .utf8) := by
  obtain ⟨hd, hi⟩ := h
  unfold Collector.intoString
  cases hinc : s.incomplete with
  | none =>
    rw [hinc] at hi
    simp only at hi
    left
    rw [← hi]
    exact ⟨(wellFormedB_iff _).mpr hd, rfl⟩
  | some buf =>
    rw [hinc] at hi
    simp only at hi
    right
    refine ⟨?_, rfl⟩
    cases hw : wellFormedB seen with
    | false => rfl
    | true =>
      have hw' := (wellFormedB_iff _).mp hw
      rw [← hi.1] at hw'
      exact absurd (wf_cancel hd hw') (not_wf_of_step_incomplete hi.2)

theorem collector_len_of_inv {s : Collector} {seen : Bytes} (h : Collector.Inv s seen) :
    s.len = seen.length := by
  obtain ⟨_, hi⟩ := h
  unfold Collector.len
  cases hinc : s.incomplete with
  | none =>
    rw [hinc] at hi
    simp only at hi
    rw [hi]; rfl
  | some buf =>
    rw [hinc] at hi
    simp only at hi
    rw [← hi.1, List.length_append]

theorem isUtf8_eq_wellFormedB (bs : Bytes) : isUtf8 bs = wellFormedB bs := by
  cases h : wellFormedB bs with
  | true =>
    have := (validate_ok_iff bs).mpr ((wellFormedB_iff bs).mp h)
    simp [isUtf8, this]
  | false =>
    cases h2 : isUtf8 bs with
    | false => rfl
    | true =>
      unfold isUtf8 at h2
      rw [beq_iff_eq] at h2
      have := (wellFormedB_iff bs).mpr ((validate_ok_iff bs).mp h2)
      rw [this] at h; cases h

end WsProofs.Read
