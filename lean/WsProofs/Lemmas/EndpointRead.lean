import WsProofs.Lemmas.EndpointFlush

/-! The read side: `doClose`, `read_message_frame` and its arms, `readPre`, the `read` loop, and
finally `step`, `run` and reachability. -/
namespace WsProofs
open WsModel WsModel.Gen

/-! ### message assembly never fails with `ConnectionClosed` and never yields a Close -/

theorem Collector.decodeRest_err (s : Collector) (i : Bytes) (e : Err)
    (h : (s.decodeRest i).2 = .err e) : e = .utf8 := by
  unfold Collector.decodeRest at h
  by_cases hi : i.isEmpty = true
  · rw [if_pos hi] at h; cases h
  · rw [if_neg hi] at h
    cases hd : utf8Decode i with
    | ok => rw [hd] at h; cases h
    | incomplete v suf => rw [hd] at h; cases h
    | invalid v k => rw [hd] at h; injection h with h; exact h.symm

theorem Collector.extend_err (s : Collector) (tail : Bytes) (e : Err)
    (h : (s.extend tail).2 = .err e) : e = .utf8 := by
  unfold Collector.extend at h
  cases hi : s.incomplete with
  | none => rw [hi] at h; exact Collector.decodeRest_err _ _ _ h
  | some buf =>
    rw [hi] at h
    simp only [] at h
    cases hc : utf8TryComplete buf tail with
    | still b => rw [hc] at h; cases h
    | panic => rw [hc] at h; cases h
    | done ok bytes consumed =>
      rw [hc] at h
      cases ok with
      | true => exact Collector.decodeRest_err _ _ _ h
      | false => injection h with h; exact h.symm

theorem Incomplete.extend_err (m : Incomplete) (tail : Bytes) (lim : Option Nat) (e : Err)
    (h : (m.extend tail lim).2 = .err e) : e ≠ .connectionClosed := by
  unfold Incomplete.extend at h
  simp only [] at h
  by_cases hc : m.len > lim.getD (2 ^ 64 - 1) ∨ tail.length > lim.getD (2 ^ 64 - 1) - m.len
  · rw [if_pos hc] at h
    injection h with h
    rw [← h]; simp
  · rw [if_neg hc] at h
    cases m with
    | binary v => cases h
    | text s =>
      have := Collector.extend_err s tail e h
      rw [this]; simp

theorem Incomplete.complete_spec (m : Incomplete) :
    m.complete ≠ .err .connectionClosed ∧ ∀ c, m.complete ≠ .ok (.close c) := by
  cases m with
  | binary v => exact ⟨by simp [Incomplete.complete], by simp [Incomplete.complete]⟩
  | text s =>
    obtain ⟨data, inc⟩ := s
    cases inc <;> simp [Incomplete.complete, Collector.intoString, Res.map]

theorem Frame.intoClose_err (f : Frame) (e : Err) (h : f.intoClose = .err e) :
    e ≠ .connectionClosed := by
  unfold Frame.intoClose at h
  match hp : f.payload, h with
  | [_], h => injection h with h; rw [← h]; simp
  | a :: b :: reason, h =>
    simp only [] at h
    by_cases hu : isUtf8 reason = true
    · rw [if_pos hu] at h; cases h
    · rw [if_neg hu] at h; injection h with h; rw [← h]; simp

theorem Frame.intoText_err (f : Frame) (e : Err) (h : f.intoText = .err e) :
    e ≠ .connectionClosed := by
  unfold Frame.intoText at h
  by_cases hu : isUtf8 f.payload = true
  · rw [if_pos hu] at h; cases h
  · rw [if_neg hu] at h; injection h with h; rw [← h]; simp

/-! ### the specification shared by the arms of `read_message_frame` -/

structure OFSpec (w w' : World) (r : Res (Option Message)) : Prop where
  t : w'.t = w.t
  queued : w'.queued = w.queued
  role : w'.c.role = w.c.role
  inv : Inv w → Inv w'
  tr : Tr w.c.state w'.c.state = true
  none : r = .ok none → w'.c.state = w.c.state
  closeMsg : ∀ c, r = .ok (some (.close c)) → w'.c.state.canRead = false
  cc : r = .err .connectionClosed → w.c.state.canRead = false ∧ w'.c.state = .terminated

theorem OFSpec.same (w : World) (r : Res (Option Message)) (hcc : r ≠ .err .connectionClosed)
    (hcl : ∀ c, r ≠ .ok (some (.close c))) : OFSpec w w r :=
  ⟨rfl, rfl, rfl, id, Tr.refl _, fun _ => rfl, fun c h => absurd h (hcl c), fun h => absurd h hcc⟩

theorem OFSpec.setIncomplete (w : World) (i : Option Incomplete) (r : Res (Option Message))
    (hcc : r ≠ .err .connectionClosed) (hcl : ∀ c, r ≠ .ok (some (.close c))) :
    OFSpec w (w.setIncomplete i) r :=
  ⟨rfl, rfl, rfl, fun h => Inv_setIncomplete h i, Tr.refl _, fun _ => rfl,
    fun c h => absurd h (hcl c), fun h => absurd h hcc⟩

/-! ### `doClose` -/

structure DCSpec (w w' : World) (r : Res (Option (Option CloseFrame))) : Prop where
  t : w'.t = w.t
  queued : w'.queued = w.queued
  role : w'.c.role = w.c.role
  inv : Inv w → Inv w'
  tr : Tr w.c.state w'.c.state = true
  none : r = .ok none → w'.c.state = w.c.state
  some : ∀ x, r = .ok (some x) → w'.c.state.canRead = false
  notErr : ∀ e, r ≠ .err e

theorem doClose_spec (w : World) (c : Option CloseFrame) :
    DCSpec w (w.doClose c).1 (w.doClose c).2 := by
  unfold World.doClose
  cases hs : w.c.state with
  | active =>
    simp only []
    obtain ⟨f1, f2, f3, f4, _⟩ := setAdditional_fields (w.setState .closedByPeer)
      (Frame.close (c.map fun cf =>
        if (!closeCodeIsAllowed cf.code) = true then
          { code := .protocol, reason := protocolViolationReason } else cf))
    refine ⟨f3, f4, f2, ?_, ?_, by simp, ?_, by simp⟩
    · intro h
      rw [setAdditional_of_active h hs]
      exact Inv_enter_closing h hs .closedByPeer rfl _
    · rw [f1, hs]; rfl
    · intro _ _; rw [f1]; rfl
  | closedByPeer =>
    exact ⟨rfl, rfl, rfl, id, by rw [hs]; rfl, fun _ => rfl, by simp, by simp⟩
  | closeAcknowledged =>
    exact ⟨rfl, rfl, rfl, id, by rw [hs]; rfl, fun _ => rfl, by simp, by simp⟩
  | closedByUs =>
    refine ⟨rfl, rfl, rfl, ?_, by rw [hs]; rfl, by simp, fun _ _ => rfl, by simp⟩
    intro h
    exact Inv_closing_state h (by rw [hs]; rfl) .closeAcknowledged rfl
  | terminated =>
    exact ⟨rfl, rfl, rfl, id, by rw [hs]; rfl, fun _ => rfl, by simp, by simp⟩

/-! ### control frames -/

theorem onControl_spec (w : World) (frame : Frame) (ctl : OpCtl) :
    OFSpec w (w.onControl frame ctl).1 (w.onControl frame ctl).2 := by
  unfold World.onControl
  by_cases h1 : (!frame.header.fin) = true
  · rw [if_pos h1]; exact OFSpec.same _ _ (by simp) (by simp)
  · rw [if_neg h1]
    by_cases h2 : frame.payload.length > 125
    · rw [if_pos h2]; exact OFSpec.same _ _ (by simp) (by simp)
    · rw [if_neg h2]
      cases ctl with
      | reserved i => exact OFSpec.same _ _ (by simp) (by simp)
      | pong => exact OFSpec.same _ _ (by simp) (by simp)
      | ping =>
        simp only []
        by_cases ha : w.c.state.isActive = true
        · simp only [ha, if_true]
          obtain ⟨f1, f2, f3, f4, _⟩ := setAdditional_fields w (Frame.pong frame.payload)
          exact ⟨f3, f4, f2, fun h => Inv_setAdditional_pong h (isActive_eq_true ha) _,
            by rw [f1]; exact Tr.refl _, fun _ => f1, by simp, by simp⟩
        · simp only [ha, if_false, Bool.false_eq_true]
          exact OFSpec.same _ _ (by simp) (by simp)
      | close =>
        simp only []
        cases hic : frame.intoClose with
        | err e =>
          have := Frame.intoClose_err frame e hic
          exact OFSpec.same _ _ (by simpa using this) (by simp)
        | panic s => exact OFSpec.same _ _ (by simp) (by simp)
        | ok c =>
          simp only []
          have S := doClose_spec w c
          generalize w.doClose c = x at *
          obtain ⟨w1, r⟩ := x
          cases r with
          | err e => exact absurd rfl (S.notErr e)
          | panic s =>
            exact ⟨S.t, S.queued, S.role, S.inv, S.tr, by simp [andThen], by simp [andThen],
              by simp [andThen]⟩
          | ok o =>
            cases o with
            | none =>
              exact ⟨S.t, S.queued, S.role, S.inv, S.tr, fun _ => S.none rfl,
                by simp [andThen], by simp [andThen]⟩
            | some x =>
              exact ⟨S.t, S.queued, S.role, S.inv, S.tr, by simp [andThen],
                fun _ _ => S.some x rfl, by simp [andThen]⟩

/-! ### data frames -/

theorem onContinue_spec (w : World) (frame : Frame) :
    OFSpec w (w.onContinue frame).1 (w.onContinue frame).2 := by
  unfold World.onContinue
  cases hi : w.c.incomplete with
  | none => exact OFSpec.same _ _ (by simp) (by simp)
  | some msg =>
    simp only []
    have herr := Incomplete.extend_err msg frame.payload w.c.cfg.maxMsg
    generalize msg.extend frame.payload w.c.cfg.maxMsg = x at *
    obtain ⟨msg', r⟩ := x
    cases r with
    | err e =>
      exact OFSpec.setIncomplete _ _ _ (by simpa using herr e rfl) (by simp)
    | panic s => exact OFSpec.setIncomplete _ _ _ (by simp) (by simp)
    | ok u =>
      cases u
      simp only []
      by_cases hf : frame.header.fin = true
      · rw [if_pos hf]
        obtain ⟨hc1, hc2⟩ := Incomplete.complete_spec msg'
        cases hcm : msg'.complete with
        | ok m =>
          rw [hcm] at hc2
          exact OFSpec.setIncomplete _ _ _ (by simp) (by
            intro c hc; injection hc with hc; injection hc with hc
            exact hc2 c (by rw [hc]))
        | err e =>
          rw [hcm] at hc1
          exact OFSpec.setIncomplete _ _ _ (by simpa using hc1) (by simp)
        | panic s => exact OFSpec.setIncomplete _ _ _ (by simp) (by simp)
      · rw [if_neg hf]
        exact OFSpec.setIncomplete _ _ _ (by simp) (by simp)

theorem startFragmented_spec (w : World) (frame : Frame) (ty : Incomplete) :
    OFSpec w (w.startFragmented frame ty).1 (w.startFragmented frame ty).2 := by
  unfold World.startFragmented
  have herr := Incomplete.extend_err ty frame.payload w.c.cfg.maxMsg
  generalize ty.extend frame.payload w.c.cfg.maxMsg = x at *
  obtain ⟨msg', r⟩ := x
  cases r with
  | err e => exact OFSpec.same _ _ (by simpa using herr e rfl) (by simp)
  | panic s => exact OFSpec.same _ _ (by simp) (by simp)
  | ok u =>
    cases u
    exact OFSpec.setIncomplete _ _ _ (by simp) (by simp)

theorem onData_spec (w : World) (frame : Frame) (d : OpData) :
    OFSpec w (w.onData frame d).1 (w.onData frame d).2 := by
  unfold World.onData
  cases d with
  | «continue» => exact onContinue_spec w frame
  | reserved i =>
    simp only []
    by_cases h1 : w.c.incomplete.isSome = true
    · rw [if_pos h1]; exact OFSpec.same _ _ (by simp) (by simp)
    · rw [if_neg h1]; exact OFSpec.same _ _ (by simp) (by simp)
  | text =>
    simp only []
    by_cases h1 : w.c.incomplete.isSome = true
    · rw [if_pos h1]; exact OFSpec.same _ _ (by simp) (by simp)
    · rw [if_neg h1]
      by_cases h2 : frame.header.fin = true
      · rw [if_pos h2]
        by_cases h3 : (!checkMaxSize frame.payload.length w.c.cfg.maxMsg) = true
        · rw [if_pos h3]; exact OFSpec.same _ _ (by simp) (by simp)
        · rw [if_neg h3]
          cases hit : frame.intoText with
          | ok t => exact OFSpec.same _ _ (by simp) (by simp)
          | err e =>
            have := Frame.intoText_err frame e hit
            exact OFSpec.same _ _ (by simpa using this) (by simp)
          | panic s => exact OFSpec.same _ _ (by simp) (by simp)
      · rw [if_neg h2]; exact startFragmented_spec w frame _
  | binary =>
    simp only []
    by_cases h1 : w.c.incomplete.isSome = true
    · rw [if_pos h1]; exact OFSpec.same _ _ (by simp) (by simp)
    · rw [if_neg h1]
      by_cases h2 : frame.header.fin = true
      · rw [if_pos h2]
        by_cases h3 : (!checkMaxSize frame.payload.length w.c.cfg.maxMsg) = true
        · rw [if_pos h3]; exact OFSpec.same _ _ (by simp) (by simp)
        · rw [if_neg h3]; exact OFSpec.same _ _ (by simp) (by simp)
      · rw [if_neg h2]; exact startFragmented_spec w frame _

theorem onFrame_spec (w : World) (frame : Frame) :
    OFSpec w (w.onFrame frame).1 (w.onFrame frame).2 ∧
    (w.c.state.canRead = false → ∀ m, (w.onFrame frame).2 ≠ .ok m) ∧
    (w.onFrame frame).2 ≠ .err .connectionClosed := by
  unfold World.onFrame
  by_cases h0 : (!w.c.state.canRead) = true
  · rw [if_pos h0]
    exact ⟨OFSpec.same _ _ (by simp) (by simp), by simp, by simp⟩
  · rw [if_neg h0]
    have hcr : w.c.state.canRead = true := by simpa using h0
    suffices hS : OFSpec w
        (if frame.header.rsv1 = true ∨ frame.header.rsv2 = true ∨ frame.header.rsv3 = true then
          (w, Res.err (Err.protocol ProtoErr.nonZeroReservedBits))
        else if w.c.role = Role.client ∧ frame.header.mask.isSome = true then
          (w, Res.err (Err.protocol ProtoErr.maskedFrameFromServer))
        else match frame.header.opcode with
          | OpCode.control ctl => w.onControl frame ctl
          | OpCode.data d => w.onData frame d).1
        (if frame.header.rsv1 = true ∨ frame.header.rsv2 = true ∨ frame.header.rsv3 = true then
          (w, Res.err (Err.protocol ProtoErr.nonZeroReservedBits))
        else if w.c.role = Role.client ∧ frame.header.mask.isSome = true then
          (w, Res.err (Err.protocol ProtoErr.maskedFrameFromServer))
        else match frame.header.opcode with
          | OpCode.control ctl => w.onControl frame ctl
          | OpCode.data d => w.onData frame d).2 by
      refine ⟨hS, ?_, ?_⟩
      · intro h; rw [hcr] at h; cases h
      · intro hr
        have := (hS.cc hr).1
        rw [hcr] at this; cases this
    by_cases h1 : frame.header.rsv1 = true ∨ frame.header.rsv2 = true ∨ frame.header.rsv3 = true
    · rw [if_pos h1]; exact OFSpec.same _ _ (by simp) (by simp)
    · rw [if_neg h1]
      by_cases h2 : w.c.role = .client ∧ frame.header.mask.isSome = true
      · rw [if_pos h2]; exact OFSpec.same _ _ (by simp) (by simp)
      · rw [if_neg h2]
        cases frame.header.opcode with
        | control ctl => exact onControl_spec w frame ctl
        | data d => exact onData_spec w frame d

theorem onEof_spec (w : World) :
    OFSpec w w.onEof.1 w.onEof.2 ∧ (∀ m, w.onEof.2 ≠ .ok m) := by
  unfold World.onEof
  cases hs : w.c.state with
  | closedByPeer =>
    exact ⟨⟨rfl, rfl, rfl, Inv_setTerminated, Tr.terminated _, by simp, by simp,
      fun _ => ⟨by rw [hs]; rfl, rfl⟩⟩, by simp⟩
  | closeAcknowledged =>
    exact ⟨⟨rfl, rfl, rfl, Inv_setTerminated, Tr.terminated _, by simp, by simp,
      fun _ => ⟨by rw [hs]; rfl, rfl⟩⟩, by simp⟩
  | active =>
    exact ⟨⟨rfl, rfl, rfl, Inv_setTerminated, Tr.terminated _, by simp, by simp, by simp⟩, by simp⟩
  | closedByUs =>
    exact ⟨⟨rfl, rfl, rfl, Inv_setTerminated, Tr.terminated _, by simp, by simp, by simp⟩, by simp⟩
  | terminated =>
    exact ⟨⟨rfl, rfl, rfl, Inv_setTerminated, Tr.terminated _, by simp, by simp, by simp⟩, by simp⟩

/-! ### `read_message_frame` -/

structure RMSpec (w w' : World) (r : Res (Option Message)) : Prop where
  queued : w'.queued = w.queued
  role : w'.c.role = w.c.role
  log : LogExt w.t.log w'.t.log
  inv : Inv w → Inv w'
  tr : Tr w.c.state w'.c.state = true
  none : r = .ok none → w'.c.state = w.c.state
  closeMsg : ∀ c, r = .ok (some (.close c)) → w'.c.state.canRead = false
  cc : r = .err .connectionClosed →
    w.c.state.canRead = false ∧ w'.c.state = .terminated ∧ LogEnded w.t.log w'.t.log
  blocked : w.c.state.canRead = false → ∀ m, r ≠ .ok m

theorem readRaw_inv {w : World} (h : Inv w) : Inv (readRaw w).1 := by
  have S := readRaw_spec w
  refine Inv_weaken h S.accepted S.same.outBuf S.same.maxOut S.same.writeLen S.cfg S.queued
    S.additional ?_ (Or.inl S.unflushed)
  rcases S.state with h1 | ⟨h1, _⟩
  · exact Or.inl h1
  · exact Or.inr h1

theorem readMessageFrame_spec (w : World) :
    RMSpec w w.readMessageFrame.1 w.readMessageFrame.2 := by
  rw [readMessageFrame_eq]
  have S := readRaw_spec w
  have hI := @readRaw_inv w
  generalize readRaw w = x at *
  obtain ⟨w1, r⟩ := x
  simp only [] at S hI
  have htr : Tr w.c.state w1.c.state = true := by
    rcases S.state with h1 | ⟨h1, _⟩
    · rw [h1]; exact Tr.refl _
    · rw [h1]; exact Tr.terminated _
  cases r with
  | panic s =>
    exact ⟨S.queued, S.role, S.log, hI, htr, by simp [andThen], by simp [andThen], by simp [andThen],
      by simp [andThen]⟩
  | err e =>
    refine ⟨S.queued, S.role, S.log, hI, htr, by simp [andThen], by simp [andThen], ?_,
      by simp [andThen]⟩
    · intro hr
      have hr' : (Res.err e : Res (Option Frame)) = .err .connectionClosed := by
        simp only [andThen] at hr
        injection hr with hr; rw [hr]
      obtain ⟨c1, c2, c3⟩ := S.cc hr'
      exact ⟨c2, c1, c3⟩
  | ok o =>
    have hst : w1.c.state = w.c.state := by
      rcases S.state with h1 | ⟨_, h2⟩
      · exact h1
      · cases h2
    cases o with
    | some frame =>
      obtain ⟨F, hb, hncc⟩ := onFrame_spec w1 frame
      show RMSpec w (w1.onFrame frame).1 (w1.onFrame frame).2
      exact ⟨F.queued.trans S.queued, F.role.trans S.role, by rw [F.t]; exact S.log,
        fun h => F.inv (hI h), by rw [← hst]; exact F.tr, fun h => (F.none h).trans hst,
        F.closeMsg, fun hr => absurd hr hncc, fun h => hb (hst ▸ h)⟩
    | none =>
      obtain ⟨F, hb⟩ := onEof_spec w1
      show RMSpec w w1.onEof.1 w1.onEof.2
      refine ⟨F.queued.trans S.queued, F.role.trans S.role, by rw [F.t]; exact S.log,
        fun h => F.inv (hI h), by rw [← hst]; exact F.tr, fun h => (F.none h).trans hst,
        F.closeMsg, ?_, fun _ => hb⟩
      intro hr
      obtain ⟨c1, c2⟩ := F.cc hr
      refine ⟨hst ▸ c1, c2, ?_⟩
      rw [F.t]
      exact S.eof rfl

/-! ### `readPre` -/

theorem closing3_of {s : WsState} (h1 : s.canRead = false) (h2 : s ≠ .terminated) :
    s.closing3 = true := by
  revert h1 h2
  cases s <;> decide

theorem readPre_inv {w : World} (h : Inv w) : Inv w.readPre.1 := by
  unfold World.readPre
  by_cases h1 : w.c.additional.isSome = true ∨ w.c.unflushed = true
  · rw [if_pos h1]
    have hf := flush_inv h
    generalize w.flush = x at *
    obtain ⟨w1, r⟩ := x
    cases r with
    | ok u => cases u; exact hf
    | panic s => exact hf
    | err e =>
      cases e with
      | io k =>
        cases k with
        | wouldBlock => exact Inv_setUnflushed_true hf
        | reset => exact hf
        | intr => exact hf
        | other => exact hf
      | connectionClosed => exact hf
      | alreadyClosed => exact hf
      | capacity a b => exact hf
      | protocol p => exact hf
      | writeBufferFull f => exact hf
      | utf8 => exact hf
  · rw [if_neg h1]
    by_cases h2 : w.c.role = .server ∧ (!w.c.state.canRead) = true
    · rw [if_pos h2]; exact Inv_setTerminated h
    · rw [if_neg h2]; exact h

theorem readPre_FS {w : World} (hnt : w.c.state ≠ .terminated) :
    FS w w.readPre.1 w.readPre.2 := by
  unfold World.readPre
  by_cases h1 : w.c.additional.isSome = true ∨ w.c.unflushed = true
  · rw [if_pos h1]
    have hf := (flush_FSC hnt).toFS
    generalize w.flush = x at *
    obtain ⟨w1, r⟩ := x
    cases r with
    | ok u => cases u; exact hf
    | panic s => exact hf
    | err e =>
      cases e with
      | io k =>
        cases k with
        | wouldBlock =>
          refine ⟨hf.role, hf.log, Or.inl ?_, hf.slotOk, by simp, Or.inl ⟨(), rfl⟩, hf.qext⟩
          rcases hf.state with h1 | ⟨_, h2⟩
          · exact h1
          · cases h2
        | reset => exact hf
        | intr => exact hf
        | other => exact hf
      | connectionClosed => exact hf
      | alreadyClosed => exact hf
      | capacity a b => exact hf
      | protocol p => exact hf
      | writeBufferFull f => exact hf
      | utf8 => exact hf
  · rw [if_neg h1]
    by_cases h2 : w.c.role = .server ∧ (!w.c.state.canRead) = true
    · rw [if_pos h2]
      have hcr' : w.c.state.canRead = false := by simpa using h2.2
      exact ⟨rfl, LogExt.refl _, Or.inr ⟨rfl, rfl⟩, fun h => h, fun _ => ⟨hcr', rfl⟩,
        Or.inr (Or.inr rfl), fun _ => QExt.refl _⟩
    · rw [if_neg h2]
      exact FS.refl_ok w ()

/-- with the invariant: a server that reports `ConnectionClosed` at the top of `read` has an empty
write buffer and an empty slot -/
theorem readPre_FSC {w : World} (h : Inv w) (hnt : w.c.state ≠ .terminated) :
    FSC w w.readPre.1 w.readPre.2 := by
  refine ⟨readPre_FS hnt, ?_⟩
  unfold World.readPre
  by_cases h1 : w.c.additional.isSome = true ∨ w.c.unflushed = true
  · rw [if_pos h1]
    have hf := flush_FSC hnt
    generalize w.flush = x at *
    obtain ⟨w1, r⟩ := x
    cases r with
    | ok u => cases u; exact hf.ccw
    | panic s => exact hf.ccw
    | err e =>
      cases e with
      | io k => cases k <;> simp
      | connectionClosed => exact hf.ccw
      | alreadyClosed => exact hf.ccw
      | capacity a b => exact hf.ccw
      | protocol p => exact hf.ccw
      | writeBufferFull f => exact hf.ccw
      | utf8 => exact hf.ccw
  · rw [if_neg h1]
    by_cases h2 : w.c.role = .server ∧ (!w.c.state.canRead) = true
    · rw [if_pos h2]
      obtain ⟨hrole, hcr⟩ := h2
      have hcr' : w.c.state.canRead = false := by simpa using hcr
      have hnone : w.c.additional = none := by
        cases ha : w.c.additional with
        | none => rfl
        | some f => exact absurd (Or.inl (by rw [ha]; rfl)) h1
      have hunf : w.c.unflushed = false := by
        cases hu : w.c.unflushed with
        | false => rfl
        | true => exact absurd (Or.inr hu) h1
      intro _
      exact Or.inl ⟨hrole, h.drained (closing3_of hcr' hnt) hnone hunf, hnone⟩
    · rw [if_neg h2]
      simp

/-! ### the `read` loop -/

/-- what holds of `read` from every state -/
structure RDSpec (w w' : World) (r : Res Message) : Prop where
  role : w'.c.role = w.c.role
  log : LogExt w.t.log w'.t.log
  tr : Tr w.c.state w'.c.state = true
  closeMsg : ∀ c, r = .ok (.close c) → w'.c.state.canRead = false
  cc : r = .err .connectionClosed → w.c.state.canRead = false ∧ w'.c.state = .terminated
  blocked : w.c.state.canRead = false → ∀ m, r ≠ .ok m

/-- what holds of `read` from states satisfying the invariant -/
structure RDInv (w w' : World) (r : Res Message) : Prop where
  inv : Inv w'
  qext : QExt w.queued w'.queued
  ccw : r = .err .connectionClosed →
    ((w.c.role = .server ∧ w'.c.codec.outBuf = [] ∧ w'.c.additional = none) ∨
      LogEnded w.t.log w'.t.log)

theorem readLoop_spec (fuel : Nat) (w : World) (hnt : w.c.state ≠ .terminated) :
    RDSpec w (World.readLoop fuel w).1 (World.readLoop fuel w).2 := by
  induction fuel generalizing w with
  | zero =>
    exact ⟨rfl, LogExt.refl _, Tr.refl _, by simp [World.readLoop],
      by simp [World.readLoop], by simp [World.readLoop]⟩
  | succ fuel ih =>
    simp only [World.readLoop]
    have P := readPre_FS hnt
    generalize w.readPre = x at *
    obtain ⟨w1, r1⟩ := x
    simp only [] at P
    cases r1 with
    | panic s => exact (P.not_panic).elim
    | err e =>
      have P' : FS w w1 (.err e : Res Message) := P.cast_err
      exact ⟨P.role, P.log, P.tr, by simp [andThen], P'.cc, by simp [andThen]⟩
    | ok u =>
      have hs1 : w1.c.state = w.c.state := P.state_of_ok
      have hnt1 : w1.c.state ≠ .terminated := hs1 ▸ hnt
      show RDSpec w (andThen w1.readMessageFrame _).1 (andThen w1.readMessageFrame _).2
      have M := readMessageFrame_spec w1
      generalize w1.readMessageFrame = y at *
      obtain ⟨w2, r2⟩ := y
      simp only [] at M
      have hlog2 : LogExt w.t.log w2.t.log := LogExt.trans P.log M.log
      have htr2 : Tr w.c.state w2.c.state = true := by rw [← hs1]; exact M.tr
      cases r2 with
      | panic s =>
        exact ⟨M.role.trans P.role, hlog2, htr2, by simp [andThen], by simp [andThen],
          by simp [andThen]⟩
      | err e =>
        refine ⟨M.role.trans P.role, hlog2, htr2, by simp [andThen], ?_, by simp [andThen]⟩
        intro hr
        have hr' : (Res.err e : Res (Option Message)) = .err .connectionClosed := by
          simp only [andThen] at hr
          injection hr with hr; rw [hr]
        obtain ⟨c1, c2, _⟩ := M.cc hr'
        exact ⟨hs1 ▸ c1, c2⟩
      | ok om =>
        cases om with
        | some m =>
          refine ⟨M.role.trans P.role, hlog2, htr2, ?_, by simp [andThen], ?_⟩
          · intro c hc
            have : m = .close c := by
              simp only [andThen] at hc
              injection hc
            exact M.closeMsg c (by rw [this])
          · intro hcr m' _
            exact M.blocked (hs1 ▸ hcr) (some m) rfl
        | none =>
          have hs2 : w2.c.state = w1.c.state := M.none rfl
          have R := ih w2 (by rw [hs2]; exact hnt1)
          show RDSpec w (World.readLoop fuel w2).1 (World.readLoop fuel w2).2
          have hs02 : w2.c.state = w.c.state := hs2.trans hs1
          refine ⟨R.role.trans (M.role.trans P.role), LogExt.trans hlog2 R.log,
            by rw [← hs02]; exact R.tr, R.closeMsg, ?_, fun hcr => R.blocked (hs02 ▸ hcr)⟩
          intro hr
          obtain ⟨c1, c2⟩ := R.cc hr
          exact ⟨hs02 ▸ c1, c2⟩

theorem readLoop_inv (fuel : Nat) (w : World) (h : Inv w) (hnt : w.c.state ≠ .terminated) :
    RDInv w (World.readLoop fuel w).1 (World.readLoop fuel w).2 := by
  induction fuel generalizing w with
  | zero => exact ⟨h, QExt.refl _, by simp [World.readLoop]⟩
  | succ fuel ih =>
    simp only [World.readLoop]
    have P := readPre_FSC h hnt
    have PI := readPre_inv h
    generalize w.readPre = x at *
    obtain ⟨w1, r1⟩ := x
    simp only [] at P PI
    have hq1 : QExt w.queued w1.queued := P.qext h.slotOk
    cases r1 with
    | panic s => exact (P.toFS.not_panic).elim
    | err e =>
      have P' : FSC w w1 (.err e : Res Message) := P.cast_err
      exact ⟨PI, hq1, P'.ccw⟩
    | ok u =>
      have hs1 : w1.c.state = w.c.state := P.toFS.state_of_ok
      have hnt1 : w1.c.state ≠ .terminated := hs1 ▸ hnt
      show RDInv w (andThen w1.readMessageFrame _).1 (andThen w1.readMessageFrame _).2
      have M := readMessageFrame_spec w1
      generalize w1.readMessageFrame = y at *
      obtain ⟨w2, r2⟩ := y
      simp only [] at M
      have hq2 : QExt w.queued w2.queued := QExt.trans hq1 (QExt.of_eq M.queued)
      have hlog2 : LogExt w.t.log w2.t.log := LogExt.trans P.log M.log
      cases r2 with
      | panic s => exact ⟨M.inv PI, hq2, by simp [andThen]⟩
      | err e =>
        refine ⟨M.inv PI, hq2, ?_⟩
        intro hr
        have hr' : (Res.err e : Res (Option Message)) = .err .connectionClosed := by
          simp only [andThen] at hr
          injection hr with hr; rw [hr]
        obtain ⟨_, _, c3⟩ := M.cc hr'
        exact Or.inr (LogEnded.trans_right P.log c3)
      | ok om =>
        cases om with
        | some m => exact ⟨M.inv PI, hq2, by simp [andThen]⟩
        | none =>
          have hs2 : w2.c.state = w1.c.state := M.none rfl
          have R := ih w2 (M.inv PI) (by rw [hs2]; exact hnt1)
          show RDInv w (World.readLoop fuel w2).1 (World.readLoop fuel w2).2
          refine ⟨R.inv, QExt.trans hq2 R.qext, ?_⟩
          intro hr
          rcases R.ccw hr with ⟨r1, r2, r3⟩ | c3
          · exact Or.inl ⟨(M.role.trans P.role) ▸ r1, r2, r3⟩
          · exact Or.inr (LogEnded.trans_right hlog2 c3)

end WsProofs
