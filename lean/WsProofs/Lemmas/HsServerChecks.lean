import WsModel.Handshake.Run
/-! The server-side header checks (`create_parts`, `Request::from_httparse`, the `DoneReading` arm of
`stage_finished`) as logical conditions. -/
namespace WsProofs.HsL
open WsModel WsModel.Hs WsModel.Gen


/-- the three headers `create_parts` sets have distinct names, so the header map prints them in
insertion order, one line each -/
theorem headerLines_base (acc : Bytes) :
    headerLines ([srvRespConnection, srvRespUpgrade, (srvRespAcceptName, acc)] ++ []) =
      headerLine (lowerAll srvRespConnection.1) srvRespConnection.2
        ++ headerLine (lowerAll srvRespUpgrade.1) srvRespUpgrade.2
        ++ headerLine (lowerAll srvRespAcceptName) acc := by
  have h1 : (lowerAll srvRespConnection.1 == lowerAll srvRespUpgrade.1) = false := by decide
  have h2 : (lowerAll srvRespConnection.1 == lowerAll srvRespAcceptName) = false := by decide
  have h3 : (lowerAll srvRespUpgrade.1 == lowerAll srvRespAcceptName) = false := by decide
  simp [headerLines, HMap.ofList, HMap.append, HMap.iter, h1, h2, h3]

theorem toStr_eq_some {v s : Bytes} (h : toStr v = some s) : s = v := by
  unfold toStr at h
  by_cases c : (v.all fun b => b == 9 || (32 ≤ b && b < 127)) = true
  · simp only [c, if_true, Option.some.injEq] at h; exact h.symm
  · simp only [c] at h; simp at h

/-- the three boolean header checks of `create_parts` and the key lookup -/
def connOk (hs : List (Bytes × Bytes)) : Prop :=
  ∃ v, hget hs srvConnectionName = some v ∧ toStr v = some v ∧
    ∃ tok ∈ splitOn srvConnectionSplit v, eqIgnoreCase tok srvConnectionToken = true
def upgOk (hs : List (Bytes × Bytes)) : Prop :=
  ∃ v, hget hs srvUpgradeName = some v ∧ toStr v = some v ∧ eqIgnoreCase v srvUpgradeValue = true
def verOk (hs : List (Bytes × Bytes)) : Prop := hget hs srvVersionName = some srvVersionValue

theorem bind_toStr_some {o : Option Bytes} {v : Bytes} :
    o.bind toStr = some v ↔ o = some v ∧ toStr v = some v := by
  cases o with
  | none => simp
  | some w =>
    simp only [Option.bind_some, Option.some.injEq]
    constructor
    · intro h; have := toStr_eq_some h; subst this; exact ⟨rfl, h⟩
    · intro ⟨h1, h2⟩; subst h1; exact h2

def connB (hs : List (Bytes × Bytes)) : Bool :=
  match (hget hs srvConnectionName).bind toStr with
  | some v => (splitOn srvConnectionSplit v).any (eqIgnoreCase · srvConnectionToken)
  | none => false
def upgB (hs : List (Bytes × Bytes)) : Bool :=
  match (hget hs srvUpgradeName).bind toStr with
  | some v => eqIgnoreCase v srvUpgradeValue
  | none => false
def verB (hs : List (Bytes × Bytes)) : Bool :=
  match hget hs srvVersionName with
  | some v => v == srvVersionValue
  | none => false

/-- the control skeleton of `create_parts` -/
def cpCore (c1 c2 c3 : Bool) (k : Option Bytes) : Except HsErr Bytes :=
  if !c1 then .error .missingConnectionUpgradeHeader
  else if !c2 then .error .missingUpgradeWebSocketHeader
  else if !c3 then .error .missingSecWebSocketVersionHeader
  else match k with
    | none => .error .missingSecWebSocketKey
    | some key => .ok (base64Encode (sha1 (key ++ wsGuidLit)))

theorem createParts_eq (hs : List (Bytes × Bytes)) :
    createParts hs = cpCore (connB hs) (upgB hs) (verB hs) (hget hs srvKeyName) := rfl

/-- `create_parts` only looks at the first value of four names -/
theorem createParts_congr {hs hs' : List (Bytes × Bytes)}
    (h : ∀ name ∈ [srvConnectionName, srvUpgradeName, srvVersionName, srvKeyName],
      hget hs name = hget hs' name) : createParts hs = createParts hs' := by
  rw [createParts_eq, createParts_eq]
  unfold connB upgB verB
  rw [h srvConnectionName (by simp), h srvUpgradeName (by simp), h srvVersionName (by simp),
    h srvKeyName (by simp)]

theorem connB_iff (hs : List (Bytes × Bytes)) : connB hs = true ↔ connOk hs := by
  unfold connOk connB
  cases h : (hget hs srvConnectionName).bind toStr with
  | none =>
    simp only [Bool.false_eq_true, false_iff]
    intro ⟨v, h1, h2, _⟩
    have := bind_toStr_some.2 ⟨h1, h2⟩
    rw [h] at this; cases this
  | some v =>
    obtain ⟨h1, h2⟩ := bind_toStr_some.1 h
    simp only [List.any_eq_true]
    constructor
    · intro ⟨tok, ht, he⟩; exact ⟨v, h1, h2, tok, ht, he⟩
    · intro ⟨v', h1', _, tok, ht, he⟩
      rw [h1] at h1'; cases h1'; exact ⟨tok, ht, he⟩

theorem upgB_iff (hs : List (Bytes × Bytes)) : upgB hs = true ↔ upgOk hs := by
  unfold upgOk upgB
  cases h : (hget hs srvUpgradeName).bind toStr with
  | none =>
    simp only [Bool.false_eq_true, false_iff]
    intro ⟨v, h1, h2, _⟩
    have := bind_toStr_some.2 ⟨h1, h2⟩
    rw [h] at this; cases this
  | some v =>
    obtain ⟨h1, h2⟩ := bind_toStr_some.1 h
    constructor
    · intro he; exact ⟨v, h1, h2, he⟩
    · intro ⟨v', h1', _, he⟩
      rw [h1] at h1'; cases h1'; exact he

theorem verB_iff (hs : List (Bytes × Bytes)) : verB hs = true ↔ verOk hs := by
  unfold verOk verB
  cases h : hget hs srvVersionName with
  | none => simp
  | some v => simp

theorem cpCore_ok_iff (c1 c2 c3 : Bool) (k : Option Bytes) (acc : Bytes) :
    cpCore c1 c2 c3 k = .ok acc ↔
      c1 = true ∧ c2 = true ∧ c3 = true ∧ ∃ key, k = some key ∧ acc = base64Encode (sha1 (key ++ wsGuidLit)) := by
  cases c1 <;> cases c2 <;> cases c3 <;> cases k <;> simp [cpCore, eq_comm]

theorem cpCore_error (c1 c2 c3 : Bool) (k : Option Bytes) :
    (∃ acc, cpCore c1 c2 c3 k = .ok acc) ∨ (∃ e, cpCore c1 c2 c3 k = .error e) := by
  cases h : cpCore c1 c2 c3 k with
  | ok a => exact .inl ⟨a, rfl⟩
  | error e => exact .inr ⟨e, rfl⟩

/-- `create_parts` succeeds exactly when the four header conditions hold, with the accept key
derived from the key header -/
theorem createParts_ok_iff (hs : List (Bytes × Bytes)) (acc : Bytes) :
    createParts hs = .ok acc ↔
      connOk hs ∧ upgOk hs ∧ verOk hs ∧
        ∃ k, hget hs srvKeyName = some k ∧ acc = base64Encode (sha1 (k ++ wsGuidLit)) := by
  rw [createParts_eq, cpCore_ok_iff, connB_iff, upgB_iff, verB_iff]

theorem requestFromRaw_ok_iff (h : RawHead) (hs : List (Bytes × Bytes)) :
    requestFromRaw h = .ok hs ↔ h.method = GET ∧ 1 ≤ h.version ∧ h.uriOk = true ∧ hs = h.headers := by
  unfold requestFromRaw
  by_cases h1 : h.method = GET
  · by_cases h2 : h.version < 1
    · simp [h1, h2]; omega
    · cases h3 : h.uriOk
      · simp [h1, h2]
      · simp [h1, h2, eq_comm]; omega
  · simp [h1]


/-- the callback stage of `stage_finished` -/
def cbResult (r : ServerRole) (key : Bytes) : Except HsErr (ServerRole × Bytes) :=
  match r.callback with
  | .none_ => .ok ({ r with callback := .none_ }, response101 key [])
  | .accept extra => .ok ({ r with callback := .none_ }, response101 key extra)
  | .reject status line hs body =>
    if 200 ≤ status ∧ status < 300 then .error .customResponseSuccessful
    else .ok ({ callback := .none_, errorResponse := some (status, body) }, rejectBytes line hs body)

theorem serverAfterRead_ok_iff (r0 : ServerRole) (h : RawHead) (tail : Bytes) (res : ServerRole × Bytes) :
    serverAfterRead r0 h tail = .ok res ↔
      h.method = GET ∧ 1 ≤ h.version ∧ h.uriOk = true ∧ tail = [] ∧
        ∃ acc, createParts h.headers = .ok acc ∧ cbResult r0 acc = .ok res := by
  unfold serverAfterRead
  cases hreq : requestFromRaw h with
  | error e =>
    simp only [reduceCtorEq, false_iff]
    intro ⟨h1, h2, h3, _⟩
    have := (requestFromRaw_ok_iff h h.headers).2 ⟨h1, h2, h3, rfl⟩
    rw [hreq] at this; cases this
  | ok hs =>
    obtain ⟨h1, h2, h3, h4⟩ := (requestFromRaw_ok_iff h hs).1 hreq
    subst h4
    cases tail with
    | cons b bs => simp
    | nil =>
      simp only [List.isEmpty_nil, Bool.not_true, Bool.false_eq_true, if_false]
      cases hcp : createParts h.headers with
      | error e => simp
      | ok acc =>
        simp only [h1, h2, h3, true_and, Except.ok.injEq, exists_eq_left']
        unfold cbResult
        rfl

end WsProofs.HsL
