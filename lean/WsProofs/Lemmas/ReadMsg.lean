import WsProofs.Lemmas.ReadOut
import WsProofs.Lemmas.ReadUtf8
import WsProofs.Lemmas.Ite

/-! Layer 2b: the message-level rules. `World.onFrame` on a complete frame against the
specification's `frameMeaning`. -/
namespace WsProofs.Read
open WsModel WsModel.Gen WsModel.Spec

/-! ## close codes -/

theorem closeCode_allowed (c : Nat) : closeCodeIsAllowed (closeCodeOfU16 c) = wireCloseCode c := by
  unfold closeCodeOfU16
  repeat' (apply ite_cases (P := fun x => closeCodeIsAllowed x = wireCloseCode c) <;> intro h)
  all_goals
    simp only [closeCodeIsAllowed, wireCloseCode]
    first
      | (symm
         simp only [Bool.or_eq_true, Bool.and_eq_true, decide_eq_true_eq]
         omega)
      | (symm
         simp only [Bool.or_eq_false_iff, Bool.and_eq_false_iff, decide_eq_false_iff_not]
         omega)

/-! ## the abstraction between the endpoint's fragment accumulator and the specification's -/

def FragRel : Option Incomplete → Option Partial → Prop
  | none, none => True
  | some (.binary v), some p => p.isText = false ∧ p.acc = v
  | some (.text s), some p => p.isText = true ∧ Collector.Inv s p.acc
  | _, _ => False

def accLen : Option Partial → Nat
  | none => 0
  | some p => p.acc.length

/-- the specification's message-size limit `lm` agrees with the configured one `cm` on every size
that can occur: either it is the effective limit of the implementation (a missing limit means
`usize::MAX`), or it is the configured limit and sizes stay below 2^64 -/
def LimOK (lm cm : Option Nat) (K : Nat) : Prop :=
  lm = some (cm.getD usizeMax) ∨ (lm = cm ∧ (cm = none → K < 2 ^ 64))

theorem LimOK.mono {lm cm : Option Nat} {K K' : Nat} (h : LimOK lm cm K) (hk : K' ≤ K) :
    LimOK lm cm K' := by
  rcases h with h | ⟨h1, h2⟩
  · exact Or.inl h
  · exact Or.inr ⟨h1, fun hn => by have := h2 hn; omega⟩

/-- the unfragmented check `check_max_size` -/
theorem LimOK.single {lm cm : Option Nat} {K n : Nat} (h : LimOK lm cm K) (hn : n < 2 ^ 64) :
    overLimit n lm = !checkMaxSize n cm := by
  rcases h with h | ⟨h1, _⟩
  · rw [h]
    cases cm with
    | some m => simp [overLimit, checkMaxSize]
    | none =>
      have h : ¬ n > (none : Option Nat).getD usizeMax := by
        simp only [Option.getD_none, usizeMax]; omega
      simp only [overLimit, checkMaxSize, h, decide_false, Bool.not_true]
  · rw [h1]
    cases cm with
    | some m => simp [overLimit, checkMaxSize]
    | none => rfl

/-- the accumulating check of `IncompleteMessage::extend` -/
theorem LimOK.extend {lm cm : Option Nat} {K : Nat} (h : LimOK lm cm K) (a b : Nat) (hn : a + b ≤ K) :
    overLimit (a + b) lm = decide (a > cm.getD usizeMax ∨ b > cm.getD usizeMax - a) := by
  have key : overLimit (a + b) lm = decide (a + b > cm.getD usizeMax) := by
    rcases h with h | ⟨h1, h2⟩
    · rw [h]; rfl
    · rw [h1]
      cases cm with
      | some m => rfl
      | none =>
        have := h2 rfl
        have h : ¬ a + b > (none : Option Nat).getD usizeMax := by
          simp only [Option.getD_none, usizeMax]; omega
        simp only [overLimit, h, decide_false]
  rw [key]
  apply decide_eq_decide.mpr
  omega

/-! ## bookkeeping of the world updates made while interpreting a frame -/

structure MsgSame (w w' : World) : Prop where
  t : w'.t = w.t
  codec : w'.c.codec = w.c.codec
  role : w'.c.role = w.c.role
  cfg : w'.c.cfg = w.c.cfg
  add : (∀ f, w.c.additional = some f → SmallFrame f) → ∀ f, w'.c.additional = some f → SmallFrame f

theorem MsgSame.refl (w : World) : MsgSame w w := ⟨rfl, rfl, rfl, rfl, fun h => h⟩

theorem setAdditional_same (w : World) (add : Frame) (hs : SmallFrame add) :
    MsgSame w (w.setAdditional add) ∧ (w.setAdditional add).c.state = w.c.state ∧
      (w.setAdditional add).c.incomplete = w.c.incomplete := by
  unfold World.setAdditional
  cases hadd : w.c.additional with
  | none =>
    refine ⟨⟨rfl, rfl, rfl, rfl, ?_⟩, rfl, rfl⟩
    intro _ f hf
    simp only [World.setAdditionalRaw] at hf
    cases hf; exact hs
  | some g =>
    dsimp only
    by_cases hp : g.isPong = true
    · rw [if_pos hp]
      refine ⟨⟨rfl, rfl, rfl, rfl, ?_⟩, rfl, rfl⟩
      intro _ f hf
      simp only [World.setAdditionalRaw] at hf
      cases hf; exact hs
    · rw [if_neg hp]
      exact ⟨⟨rfl, rfl, rfl, rfl, fun h f hf => h f hf⟩, rfl, rfl⟩

/-- how the model's reaction to a frame relates to the specification's verdict on it -/
def StepRel (w : World) (res : World × Res (Option Message)) : Spec.FrameOut → Prop
  | .fail c => ∃ e, res.2 = .err e ∧ errClassOf e = some c
  | .close m => res.2 = .ok (some m) ∧ MsgSame w res.1 ∧ res.1.c.state = .closedByPeer
  | .deliver m frag' => res.2 = .ok (some m) ∧ MsgSame w res.1 ∧ res.1.c.state = .active ∧
      FragRel res.1.c.incomplete frag'
  | .continue_ frag' => res.2 = .ok none ∧ MsgSame w res.1 ∧ res.1.c.state = .active ∧
      FragRel res.1.c.incomplete frag'

/-! ## control frames -/

theorem frameMeaning_ctl (lim : Limits) (frag : Option Partial) (fin : Bool) (o : Nat) (p : Bytes)
    (ho : o ≥ 8) :
    frameMeaning lim frag fin o p =
      if !fin then .fail .protocol
      else if p.length > 125 then .fail .protocol
      else if o = 8 then closeMessage p
      else if o = 9 then .deliver (.ping p) frag
      else .deliver (.pong p) frag := by
  unfold frameMeaning
  rw [if_pos ho]

theorem beBytes2_length (n : Nat) : (beBytes 2 n).length = 2 := C18.beBytes_length 2 n

theorem onClose_spec (w : World) (frame : Frame) (hst : w.c.state = .active)
    (hfin : frame.header.fin = true) (hlen : ¬ frame.payload.length > 125) :
    StepRel w (w.onControl frame .close) (closeMessage frame.payload) := by
  unfold World.onControl
  rw [hfin]
  simp only [Bool.not_true, Bool.false_eq_true, if_false, hlen]
  unfold Frame.intoClose closeMessage
  match hp : frame.payload with
  | [] =>
    dsimp only [andThen, World.doClose]
    rw [hst]
    dsimp only
    have hs : SmallFrame (Frame.close (Option.map
        (fun cf => if (!closeCodeIsAllowed cf.code) = true then
          ({ code := CloseCode.protocol, reason := protocolViolationReason } : CloseFrame) else cf) none)) :=
      ⟨by simp [Frame.close], rfl⟩
    obtain ⟨h1, h2, _⟩ := setAdditional_same (w.setState .closedByPeer) _ hs
    exact ⟨rfl, ⟨h1.t, h1.codec, h1.role, h1.cfg, h1.add⟩, h2⟩
  | [x] => exact ⟨_, rfl, rfl⟩
  | a :: b :: reason =>
    dsimp only
    rw [isUtf8_eq_wellFormedB]
    cases hwf : wellFormedB reason with
    | false => exact ⟨_, rfl, rfl⟩
    | true =>
      simp only [if_true, Bool.not_true, Bool.false_eq_true, if_false]
      dsimp only [andThen, World.doClose]
      rw [hst]
      dsimp only
      have hrl : reason.length ≤ 123 := by
        rw [hp] at hlen; simp only [List.length_cons] at hlen; omega
      simp only [Option.map_some]
      rw [← be16_eq, ← closeCode_allowed]
      cases hal : closeCodeIsAllowed (closeCodeOfU16 (be16 a b)) with
      | true =>
        simp only [Bool.not_true, Bool.false_eq_true, if_false, if_true]
        have hs : SmallFrame (Frame.close (some ⟨closeCodeOfU16 (be16 a b), reason⟩)) := by
          refine ⟨?_, rfl⟩
          simp only [Frame.close, List.length_append, beBytes2_length]; omega
        obtain ⟨h1, h2, _⟩ := setAdditional_same (w.setState .closedByPeer) _ hs
        exact ⟨rfl, ⟨h1.t, h1.codec, h1.role, h1.cfg, h1.add⟩, h2⟩
      | false =>
        simp only [Bool.not_false, if_true, Bool.false_eq_true, if_false]
        have hs : SmallFrame (Frame.close (some ⟨.protocol, protocolViolationReason⟩)) := by
          refine ⟨?_, rfl⟩
          simp only [Frame.close, List.length_append, beBytes2_length]; decide
        obtain ⟨h1, h2, _⟩ := setAdditional_same (w.setState .closedByPeer) _ hs
        exact ⟨rfl, ⟨h1.t, h1.codec, h1.role, h1.cfg, h1.add⟩, h2⟩

theorem onPing_spec (w : World) (frame : Frame) (frag : Option Partial) (hst : w.c.state = .active)
    (hfin : frame.header.fin = true) (hlen : ¬ frame.payload.length > 125)
    (hfr : FragRel w.c.incomplete frag) :
    StepRel w (w.onControl frame .ping) (.deliver (.ping frame.payload) frag) := by
  unfold World.onControl
  rw [hfin]
  simp only [Bool.not_true, Bool.false_eq_true, if_false, hlen, hst, WsState.isActive, if_true]
  have hs : SmallFrame (Frame.pong frame.payload) := ⟨by simp only [Frame.pong]; omega, rfl⟩
  obtain ⟨h1, h2, h3⟩ := setAdditional_same w _ hs
  refine ⟨rfl, h1, h2.trans hst, ?_⟩
  show FragRel (w.setAdditional (Frame.pong frame.payload)).c.incomplete frag
  rw [h3]; exact hfr

theorem onPong_spec (w : World) (frame : Frame) (frag : Option Partial) (hst : w.c.state = .active)
    (hfin : frame.header.fin = true) (hlen : ¬ frame.payload.length > 125)
    (hfr : FragRel w.c.incomplete frag) :
    StepRel w (w.onControl frame .pong) (.deliver (.pong frame.payload) frag) := by
  unfold World.onControl
  rw [hfin]
  simp only [Bool.not_true, Bool.false_eq_true, if_false, hlen]
  exact ⟨rfl, MsgSame.refl _, hst, hfr⟩

theorem onControl_fail1 (w : World) (frame : Frame) (ctl : OpCtl) (hfin : frame.header.fin = false) :
    StepRel w (w.onControl frame ctl) (.fail .protocol) := by
  unfold World.onControl
  rw [hfin]
  exact ⟨_, rfl, rfl⟩

theorem onControl_fail2 (w : World) (frame : Frame) (ctl : OpCtl) (hfin : frame.header.fin = true)
    (hlen : frame.payload.length > 125) :
    StepRel w (w.onControl frame ctl) (.fail .protocol) := by
  unfold World.onControl
  rw [hfin]
  simp only [Bool.not_true, Bool.false_eq_true, if_false, hlen, if_true]
  exact ⟨_, rfl, rfl⟩

/-! ## data frames -/

theorem incomplete_extend_over {m : Incomplete} {tail : Bytes} {cm : Option Nat}
    (h : m.len > cm.getD usizeMax ∨ tail.length > cm.getD usizeMax - m.len) :
    ∃ e, m.extend tail cm = (m, .err e) ∧ errClassOf e = some .capacity := by
  unfold Incomplete.extend
  dsimp only
  have h' : m.len > cm.getD (2 ^ 64 - 1) ∨ tail.length > cm.getD (2 ^ 64 - 1) - m.len := h
  rw [if_pos h']
  exact ⟨_, rfl, rfl⟩

/-- `IncompleteMessage::extend` once the size check has passed -/
def extendOk (m : Incomplete) (tail : Bytes) : Incomplete × Res Unit :=
  match m with
  | .binary v => (.binary (v ++ tail), .ok ())
  | .text s => (.text (s.extend tail).1, (s.extend tail).2)

theorem incomplete_extend_under {m : Incomplete} {tail : Bytes} {cm : Option Nat}
    (h : ¬ (m.len > cm.getD usizeMax ∨ tail.length > cm.getD usizeMax - m.len)) :
    m.extend tail cm = extendOk m tail := by
  unfold Incomplete.extend extendOk
  dsimp only
  have h' : ¬ (m.len > cm.getD (2 ^ 64 - 1) ∨ tail.length > cm.getD (2 ^ 64 - 1) - m.len) := h
  rw [if_neg h']
  cases m with
  | binary v => rfl
  | text s => rfl

theorem incomplete_len {i : Incomplete} {p : Partial} (h : FragRel (some i) (some p)) :
    i.len = p.acc.length := by
  cases i with
  | binary v =>
    obtain ⟨_, h2⟩ := h
    rw [h2]; rfl
  | text s =>
    obtain ⟨_, h2⟩ := h
    exact collector_len_of_inv h2

theorem frameMeaning_cont (lim : Limits) (frag : Option Partial) (fin : Bool) (p : Bytes) :
    frameMeaning lim frag fin 0 p =
      match frag with
      | none => .fail .protocol
      | some f =>
        if overLimit (f.acc.length + p.length) lim.maxMsg then .fail .capacity
        else
          if f.isText then
            if fin then (if wellFormedB (f.acc ++ p) then .deliver (.text (f.acc ++ p)) none else .fail .utf8)
            else (if viablePrefixB (f.acc ++ p) then .continue_ (some ⟨true, f.acc ++ p⟩) else .fail .utf8)
          else
            if fin then .deliver (.binary (f.acc ++ p)) none else .continue_ (some ⟨false, f.acc ++ p⟩) := by
  unfold frameMeaning
  rw [if_neg (by omega), if_pos rfl]
  rfl

theorem collector_extend_cases {s : Collector} {seen : Bytes} (h : Collector.Inv s seen) (p : Bytes) :
    ((s.extend p).2 = .ok () ∧ Collector.Inv (s.extend p).1 (seen ++ p)) ∨
    ((s.extend p).2 = .err .utf8 ∧ viablePrefixB (seen ++ p) = false ∧ wellFormedB (seen ++ p) = false) := by
  rcases Collector.extend_spec h p with ⟨h1, h2⟩ | ⟨h1, h2⟩
  · exact Or.inl ⟨h1, h2⟩
  · refine Or.inr ⟨h1, not_viable_of_dead h2, ?_⟩
    cases hw : wellFormedB (seen ++ p) with
    | false => rfl
    | true =>
      have := h2 []
      rw [List.append_nil] at this
      exact absurd ((Utf8.wellFormedB_iff _).mp hw) this

theorem onContinue_spec (w : World) (frame : Frame) (lim : Limits) (frag : Option Partial) (K : Nat)
    (hst : w.c.state = .active) (hfr : FragRel w.c.incomplete frag)
    (hlim : LimOK lim.maxMsg w.c.cfg.maxMsg K) (hK : accLen frag + frame.payload.length ≤ K) :
    StepRel w (w.onContinue frame) (frameMeaning lim frag frame.header.fin 0 frame.payload) := by
  rw [frameMeaning_cont]
  unfold World.onContinue
  cases hi : w.c.incomplete with
  | none =>
    rw [hi] at hfr
    cases frag with
    | none => exact ⟨_, rfl, rfl⟩
    | some f => exact hfr.elim
  | some msg =>
    rw [hi] at hfr
    cases frag with
    | none => cases msg <;> exact hfr.elim
    | some f =>
      dsimp only
      have hml := incomplete_len hfr
      have hov := hlim.extend f.acc.length frame.payload.length hK
      by_cases hc : msg.len > w.c.cfg.maxMsg.getD usizeMax ∨
          frame.payload.length > w.c.cfg.maxMsg.getD usizeMax - msg.len
      · obtain ⟨e, he, hce⟩ := incomplete_extend_over hc
        rw [he]
        rw [hml] at hc
        rw [hov, decide_eq_true hc]
        exact ⟨e, rfl, hce⟩
      · rw [incomplete_extend_under hc]
        rw [hml] at hc
        rw [hov, decide_eq_false hc]
        simp only [Bool.false_eq_true, if_false]
        cases msg with
        | binary v =>
          obtain ⟨h1, h2⟩ := hfr
          rw [h1, h2]
          simp only [Bool.false_eq_true, if_false, extendOk]
          cases hfin : frame.header.fin with
          | true =>
            simp only [if_true, Incomplete.complete]
            exact ⟨rfl, ⟨rfl, rfl, rfl, rfl, fun h => h⟩, hst, trivial⟩
          | false =>
            simp only [Bool.false_eq_true, if_false]
            exact ⟨rfl, ⟨rfl, rfl, rfl, rfl, fun h => h⟩, hst, ⟨rfl, rfl⟩⟩
        | text s =>
          obtain ⟨h1, h2⟩ := hfr
          rw [h1]
          simp only [if_true, extendOk]
          rcases collector_extend_cases h2 frame.payload with ⟨hr, hinv⟩ | ⟨hr, hnv, hnw⟩
          · rw [hr]
            dsimp only
            cases hfin : frame.header.fin with
            | true =>
              simp only [if_true, Incomplete.complete]
              rcases intoString_of_inv hinv with ⟨hw, hs⟩ | ⟨hw, hs⟩
              · rw [hs, hw]
                simp only [Res.map, if_true]
                exact ⟨rfl, ⟨rfl, rfl, rfl, rfl, fun h => h⟩, hst, trivial⟩
              · rw [hs, hw]
                simp only [Res.map, Bool.false_eq_true, if_false]
                exact ⟨_, rfl, rfl⟩
            | false =>
              simp only [Bool.false_eq_true, if_false, viable_of_inv hinv, if_true]
              exact ⟨rfl, ⟨rfl, rfl, rfl, rfl, fun h => h⟩, hst, ⟨rfl, hinv⟩⟩
          · rw [hr]
            dsimp only
            rw [hnv, hnw]
            cases hfin : frame.header.fin <;>
              simp only [Bool.false_eq_true, if_false, if_true] <;> exact ⟨_, rfl, rfl⟩

theorem frameMeaning_data (lim : Limits) (frag : Option Partial) (fin : Bool) (o : Nat) (p : Bytes)
    (ho : o = 1 ∨ o = 2) :
    frameMeaning lim frag fin o p =
      match frag with
      | some _ => .fail .protocol
      | none =>
        if overLimit p.length lim.maxMsg then .fail .capacity
        else if o = 1 then
          if fin then (if wellFormedB p then .deliver (.text p) none else .fail .utf8)
          else (if viablePrefixB p then .continue_ (some ⟨true, p⟩) else .fail .utf8)
        else
          if fin then .deliver (.binary p) none else .continue_ (some ⟨false, p⟩) := by
  unfold frameMeaning
  have h8 : ¬ o ≥ 8 := by omega
  have h0 : ¬ o = 0 := by omega
  rw [if_neg h8, if_neg h0]
  rfl

theorem startFragmented_over (w : World) (frame : Frame) (ty : Incomplete) (hl : ty.len = 0)
    (h : frame.payload.length > w.c.cfg.maxMsg.getD usizeMax) :
    ∃ e, w.startFragmented frame ty = (w, .err e) ∧ errClassOf e = some .capacity := by
  unfold World.startFragmented
  obtain ⟨e, he, hc⟩ := incomplete_extend_over (m := ty) (tail := frame.payload)
    (cm := w.c.cfg.maxMsg) (Or.inr (by rw [hl]; exact h))
  rw [he]
  exact ⟨e, rfl, hc⟩

theorem startFragmented_under (w : World) (frame : Frame) (ty : Incomplete) (hl : ty.len = 0)
    (h : ¬ frame.payload.length > w.c.cfg.maxMsg.getD usizeMax) :
    w.startFragmented frame ty =
      match extendOk ty frame.payload with
      | (_, .err e) => (w, .err e)
      | (_, .panic s) => (w, .panic s)
      | (msg, .ok ()) => (w.setIncomplete (some msg), .ok none) := by
  unfold World.startFragmented
  rw [incomplete_extend_under (m := ty) (tail := frame.payload) (cm := w.c.cfg.maxMsg)
    (by rw [hl]; omega)]
  rfl

theorem onText_spec (w : World) (frame : Frame) (lim : Limits) (frag : Option Partial) (K : Nat)
    (hst : w.c.state = .active) (hfr : FragRel w.c.incomplete frag)
    (hlim : LimOK lim.maxMsg w.c.cfg.maxMsg K) (hK : accLen frag + frame.payload.length ≤ K)
    (hlen : frame.payload.length < 2 ^ 64) :
    StepRel w (w.onData frame .text) (frameMeaning lim frag frame.header.fin 1 frame.payload) := by
  rw [frameMeaning_data _ _ _ _ _ (Or.inl rfl)]
  unfold World.onData
  cases hi : w.c.incomplete with
  | some msg =>
    rw [hi] at hfr
    cases frag with
    | none => cases msg <;> exact hfr.elim
    | some f => exact ⟨_, rfl, rfl⟩
  | none =>
    rw [hi] at hfr
    cases frag with
    | some f => exact hfr.elim
    | none =>
      simp only [Option.isSome_none, Bool.false_eq_true, if_false, if_true]
      cases hfin : frame.header.fin with
      | true =>
        simp only [if_true]
        rw [hlim.single hlen]
        cases hcm : checkMaxSize frame.payload.length w.c.cfg.maxMsg with
        | false =>
          simp only [Bool.not_false, if_true]
          exact ⟨_, rfl, rfl⟩
        | true =>
          simp only [Bool.not_true, Bool.false_eq_true, if_false, Frame.intoText,
            isUtf8_eq_wellFormedB]
          cases hw : wellFormedB frame.payload with
          | true =>
            simp only [if_true]
            exact ⟨rfl, MsgSame.refl _, hst, by rw [hi]; trivial⟩
          | false =>
            simp only [Bool.false_eq_true, if_false]
            exact ⟨_, rfl, rfl⟩
      | false =>
        simp only [Bool.false_eq_true, if_false]
        have hov := hlim.extend 0 frame.payload.length (by simpa [accLen] using hK)
        rw [Nat.zero_add] at hov
        rw [hov]
        by_cases hc : frame.payload.length > w.c.cfg.maxMsg.getD usizeMax
        · obtain ⟨e, he, hce⟩ := startFragmented_over w frame (.text {}) rfl hc
          have hd : 0 > w.c.cfg.maxMsg.getD usizeMax ∨
              frame.payload.length > w.c.cfg.maxMsg.getD usizeMax - 0 := Or.inr (by omega)
          rw [he, decide_eq_true hd]
          exact ⟨e, rfl, hce⟩
        · have hd : ¬ (0 > w.c.cfg.maxMsg.getD usizeMax ∨
              frame.payload.length > w.c.cfg.maxMsg.getD usizeMax - 0) := by omega
          rw [startFragmented_under w frame (.text {}) rfl hc, decide_eq_false hd]
          simp only [Bool.false_eq_true, if_false, extendOk]
          rcases collector_extend_cases Collector.inv_init frame.payload with
            ⟨hr, hinv⟩ | ⟨hr, hnv, _⟩
          · rw [List.nil_append] at hinv
            rw [hr, viable_of_inv hinv]
            exact ⟨rfl, ⟨rfl, rfl, rfl, rfl, fun h => h⟩, hst, ⟨rfl, hinv⟩⟩
          · rw [List.nil_append] at hnv
            rw [hr, hnv]
            exact ⟨_, rfl, rfl⟩

theorem onBinary_spec (w : World) (frame : Frame) (lim : Limits) (frag : Option Partial) (K : Nat)
    (hst : w.c.state = .active) (hfr : FragRel w.c.incomplete frag)
    (hlim : LimOK lim.maxMsg w.c.cfg.maxMsg K) (hK : accLen frag + frame.payload.length ≤ K)
    (hlen : frame.payload.length < 2 ^ 64) :
    StepRel w (w.onData frame .binary) (frameMeaning lim frag frame.header.fin 2 frame.payload) := by
  rw [frameMeaning_data _ _ _ _ _ (Or.inr rfl)]
  unfold World.onData
  cases hi : w.c.incomplete with
  | some msg =>
    rw [hi] at hfr
    cases frag with
    | none => cases msg <;> exact hfr.elim
    | some f => exact ⟨_, rfl, rfl⟩
  | none =>
    rw [hi] at hfr
    cases frag with
    | some f => exact hfr.elim
    | none =>
      simp only [Option.isSome_none, Bool.false_eq_true, if_false]
      rw [if_neg (show ¬ (2 : Nat) = 1 by decide)]
      cases hfin : frame.header.fin with
      | true =>
        simp only [if_true]
        rw [hlim.single hlen]
        cases hcm : checkMaxSize frame.payload.length w.c.cfg.maxMsg with
        | false =>
          simp only [Bool.not_false, if_true]
          exact ⟨_, rfl, rfl⟩
        | true =>
          simp only [Bool.not_true, Bool.false_eq_true, if_false]
          exact ⟨rfl, MsgSame.refl _, hst, by rw [hi]; trivial⟩
      | false =>
        simp only [Bool.false_eq_true, if_false]
        have hov := hlim.extend 0 frame.payload.length (by simpa [accLen] using hK)
        rw [Nat.zero_add] at hov
        rw [hov]
        by_cases hc : frame.payload.length > w.c.cfg.maxMsg.getD usizeMax
        · obtain ⟨e, he, hce⟩ := startFragmented_over w frame (.binary []) rfl hc
          have hd : 0 > w.c.cfg.maxMsg.getD usizeMax ∨
              frame.payload.length > w.c.cfg.maxMsg.getD usizeMax - 0 := Or.inr (by omega)
          rw [he, decide_eq_true hd]
          exact ⟨e, rfl, hce⟩
        · have hd : ¬ (0 > w.c.cfg.maxMsg.getD usizeMax ∨
              frame.payload.length > w.c.cfg.maxMsg.getD usizeMax - 0) := by omega
          rw [startFragmented_under w frame (.binary []) rfl hc, decide_eq_false hd]
          simp only [Bool.false_eq_true, if_false, extendOk, List.nil_append]
          exact ⟨rfl, ⟨rfl, rfl, rfl, rfl, fun h => h⟩, hst, ⟨rfl, rfl⟩⟩

/-! ## all frames -/

theorem onFrame_spec (w : World) (frame : Frame) (lim : Limits) (frag : Option Partial) (K : Nat)
    (hst : w.c.state = .active)
    (hrsv : (frame.header.rsv1 || frame.header.rsv2 || frame.header.rsv3) = false)
    (hmask : w.c.role = .client → frame.header.mask = none)
    (hop : isReservedOpcode frame.header.opcode = false)
    (hfr : FragRel w.c.incomplete frag)
    (hlim : LimOK lim.maxMsg w.c.cfg.maxMsg K) (hK : accLen frag + frame.payload.length ≤ K)
    (hlen : frame.payload.length < 2 ^ 64) :
    StepRel w (w.onFrame frame)
      (frameMeaning lim frag frame.header.fin (opCodeToU8 frame.header.opcode) frame.payload) := by
  unfold World.onFrame
  rw [hst]
  simp only [WsState.canRead, Bool.not_true, Bool.false_eq_true, if_false]
  have h1 : ¬ (frame.header.rsv1 = true ∨ frame.header.rsv2 = true ∨ frame.header.rsv3 = true) := by
    intro h
    simp only [Bool.or_eq_false_iff] at hrsv
    rcases h with h | h | h
    · rw [hrsv.1.1] at h; cases h
    · rw [hrsv.1.2] at h; cases h
    · rw [hrsv.2] at h; cases h
  rw [if_neg h1]
  have h2 : ¬ (w.c.role = .client ∧ frame.header.mask.isSome = true) := by
    intro ⟨hr, hm⟩
    rw [hmask hr] at hm; cases hm
  rw [if_neg h2]
  cases hopc : frame.header.opcode with
  | control ctl =>
    dsimp only
    cases ctl with
    | reserved i => rw [hopc] at hop; cases hop
    | close =>
      rw [show opCodeToU8 (OpCode.control OpCtl.close) = 8 from rfl,
        frameMeaning_ctl _ _ _ _ _ (by decide)]
      cases hfin : frame.header.fin with
      | false => exact onControl_fail1 w frame _ hfin
      | true =>
        simp only [Bool.not_true, Bool.false_eq_true, if_false]
        by_cases hl : frame.payload.length > 125
        · rw [if_pos hl]; exact onControl_fail2 w frame _ hfin hl
        · rw [if_neg hl]
          rw [if_pos trivial]
          exact onClose_spec w frame hst hfin hl
    | ping =>
      rw [show opCodeToU8 (OpCode.control OpCtl.ping) = 9 from rfl,
        frameMeaning_ctl _ _ _ _ _ (by decide)]
      cases hfin : frame.header.fin with
      | false => exact onControl_fail1 w frame _ hfin
      | true =>
        simp only [Bool.not_true, Bool.false_eq_true, if_false]
        by_cases hl : frame.payload.length > 125
        · rw [if_pos hl]; exact onControl_fail2 w frame _ hfin hl
        · rw [if_neg hl]
          rw [if_neg (show ¬ (9 : Nat) = 8 by decide), if_pos trivial]
          exact onPing_spec w frame frag hst hfin hl hfr
    | pong =>
      rw [show opCodeToU8 (OpCode.control OpCtl.pong) = 10 from rfl,
        frameMeaning_ctl _ _ _ _ _ (by decide)]
      cases hfin : frame.header.fin with
      | false => exact onControl_fail1 w frame _ hfin
      | true =>
        simp only [Bool.not_true, Bool.false_eq_true, if_false]
        by_cases hl : frame.payload.length > 125
        · rw [if_pos hl]; exact onControl_fail2 w frame _ hfin hl
        · rw [if_neg hl]
          rw [if_neg (show ¬ (10 : Nat) = 8 by decide), if_neg (show ¬ (10 : Nat) = 9 by decide)]
          exact onPong_spec w frame frag hst hfin hl hfr
  | data d =>
    dsimp only
    cases d with
    | reserved i => rw [hopc] at hop; cases hop
    | «continue» => exact onContinue_spec w frame lim frag K hst hfr hlim hK
    | text => exact onText_spec w frame lim frag K hst hfr hlim hK hlen
    | binary => exact onBinary_spec w frame lim frag K hst hfr hlim hK hlen

/-! ## the accumulator never holds more than the payload bytes seen -/

theorem frameMeaning_other (lim : Limits) (frag : Option Partial) (fin : Bool) (o : Nat) (p : Bytes)
    (h8 : ¬ o ≥ 8) (h0 : ¬ o = 0) :
    frameMeaning lim frag fin o p =
      match frag with
      | some _ => .fail .protocol
      | none =>
        if overLimit p.length lim.maxMsg then .fail .capacity
        else if o = 1 then
          if fin then (if wellFormedB p then .deliver (.text p) none else .fail .utf8)
          else (if viablePrefixB p then .continue_ (some ⟨true, p⟩) else .fail .utf8)
        else
          if fin then .deliver (.binary p) none else .continue_ (some ⟨false, p⟩) := by
  unfold frameMeaning
  rw [if_neg h8, if_neg h0]
  rfl

/-- the bound carried by a verdict -/
def accBound (n : Nat) : Spec.FrameOut → Prop
  | .deliver _ frag' => accLen frag' ≤ n
  | .continue_ frag' => accLen frag' ≤ n
  | _ => True

theorem closeMessage_acc (n : Nat) (p : Bytes) : accBound n (closeMessage p) := by
  unfold closeMessage
  match p with
  | [] => trivial
  | [_] => trivial
  | a :: b :: reason =>
    dsimp only
    cases wellFormedB reason with
    | false => trivial
    | true =>
      simp only [Bool.not_true, Bool.false_eq_true, if_false]
      cases wireCloseCode (be16 a b) <;> trivial

theorem frameMeaning_acc (lim : Limits) (frag : Option Partial) (fin : Bool) (o : Nat) (p : Bytes) :
    accBound (accLen frag + p.length) (frameMeaning lim frag fin o p) := by
  by_cases h8 : o ≥ 8
  · rw [frameMeaning_ctl _ _ _ _ _ h8]
    cases fin with
    | false => trivial
    | true =>
      simp only [Bool.not_true, Bool.false_eq_true, if_false]
      by_cases hl : p.length > 125
      · rw [if_pos hl]; trivial
      · rw [if_neg hl]
        by_cases h1 : o = 8
        · rw [if_pos h1]; exact closeMessage_acc _ _
        · rw [if_neg h1]
          by_cases h2 : o = 9
          · rw [if_pos h2]; exact Nat.le_add_right _ _
          · rw [if_neg h2]; exact Nat.le_add_right _ _
  · by_cases h0 : o = 0
    · subst h0
      rw [frameMeaning_cont]
      cases frag with
      | none => trivial
      | some f =>
        dsimp only
        cases overLimit (f.acc.length + p.length) lim.maxMsg with
        | true => trivial
        | false =>
          simp only [Bool.false_eq_true, if_false]
          cases f.isText <;> cases fin <;>
            simp only [Bool.false_eq_true, if_false, if_true]
          · simp only [accBound, accLen, List.length_append]; exact Nat.le_refl _
          · exact Nat.zero_le _
          · cases viablePrefixB (f.acc ++ p)
            · trivial
            · simp only [if_true, accBound, accLen, List.length_append]; exact Nat.le_refl _
          · cases wellFormedB (f.acc ++ p)
            · trivial
            · exact Nat.zero_le _
    · rw [frameMeaning_other _ _ _ _ _ h8 h0]
      cases frag with
      | some f => trivial
      | none =>
        dsimp only
        cases overLimit p.length lim.maxMsg with
        | true => trivial
        | false =>
          simp only [Bool.false_eq_true, if_false]
          by_cases h1 : o = 1
          · rw [if_pos h1]
            cases fin <;> simp only [Bool.false_eq_true, if_false, if_true]
            · cases viablePrefixB p
              · trivial
              · simp only [if_true, accBound, accLen, Nat.zero_add]; exact Nat.le_refl _
            · cases wellFormedB p
              · trivial
              · exact Nat.zero_le _
          · rw [if_neg h1]
            cases fin <;> simp only [Bool.false_eq_true, if_false, if_true]
            · simp only [accBound, accLen, Nat.zero_add]; exact Nat.le_refl _
            · exact Nat.zero_le _

end WsProofs.Read
