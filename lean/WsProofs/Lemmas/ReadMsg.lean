import WsProofs.Lemmas.ReadOut
import WsProofs.Lemmas.ReadUtf8
import WsProofs.Lemmas.Ite

/-! Layer 2b: the message-level rules. `World.onFrame` on a complete frame against the
specification's `frameMeaning`. -/
namespace WsProofs.Read
open WsModel WsModel.Gen WsModel.Spec

/-! ## close codes -/

theorem closeCode_allowed (c : Nat) : closeCodeIsAllowed (closeCodeOfU16 c) = wireCloseCode c := by
  unfold closeCodeOfU16
  repeat' (apply ite_cases (P := fun x => closeCodeIsAllowed x = wireCloseCode c) <;> intro h)
  all_goals
    simp only [closeCodeIsAllowed, wireCloseCode]
    first
      | (symm
         simp only [Bool.or_eq_true, Bool.and_eq_true, decide_eq_true_eq]
         omega)
      | (symm
         simp only [Bool.or_eq_false_iff, Bool.and_eq_false_iff, decide_eq_false_iff_not]
         omega)

/-! ## the abstraction between the endpoint's fragment accumulator and the specification's -/

def FragRel : Option Incomplete → Option Partial → Prop
  | none, none => True
  | some (.binary v), some p => p.isText = false ∧ p.acc = v
  | some (.text s), some p => p.isText = true ∧ Collector.Inv s p.acc
  | _, _ => False

def accLen : Option Partial → Nat
  | none => 0
  | some p => p.acc.length

/-- the specification's message-size limit `lm` agrees with the configured one `cm` on every size
that can occur: either it is the effective limit of the implementation (a missing limit means
`usize::MAX`), or it is the configured limit and sizes stay below 2^64 -/
def LimOK (lm cm : Option Nat) (K : Nat) : Prop :=
  lm = some (cm.getD usizeMax) ∨ (lm = cm ∧ (cm = none → K < 2 ^ 64))

theorem LimOK.mono {lm cm : Option Nat} {K K' : Nat} (h : LimOK lm cm K) (hk : K' ≤ K) :
    LimOK lm cm K' := by
  rcases h with h | ⟨h1, h2⟩
  · exact Or.inl h
  · exact Or.inr ⟨h1, fun hn => by have := h2 hn; omega⟩

/-- the unfragmented check `check_max_size` -/
theorem LimOK.single {lm cm : Option Nat} {K n : Nat} (h : LimOK lm cm K) (hn : n < 2 ^ 64) :
    overLimit n lm = !checkMaxSize n cm := by
  rcases h with h | ⟨h1, _⟩
  · rw [h]
    cases cm with
    | some m => simp [overLimit, checkMaxSize]
    | none =>
      simp only [overLimit, checkMaxSize, Option.getD_none, usizeMax]
      rw [Bool.not_true, decide_eq_false_iff_not]; omega
  · rw [h1]
    cases cm with
    | some m => simp [overLimit, checkMaxSize]
    | none => rfl

/-- the accumulating check of `IncompleteMessage::extend` -/
theorem LimOK.extend {lm cm : Option Nat} {K : Nat} (h : LimOK lm cm K) (a b : Nat) (hn : a + b ≤ K) :
    overLimit (a + b) lm = decide (a > cm.getD usizeMax ∨ b > cm.getD usizeMax - a) := by
  have key : overLimit (a + b) lm = decide (a + b > cm.getD usizeMax) := by
    rcases h with h | ⟨h1, h2⟩
    · rw [h]; rfl
    · rw [h1]
      cases cm with
      | some m => rfl
      | none =>
        have := h2 rfl
        simp only [overLimit, Option.getD_none, usizeMax]
        symm; rw [decide_eq_false_iff_not]; omega
  rw [key]
  apply decide_eq_decide.mpr
  omega

/-! ## bookkeeping of the world updates made while interpreting a frame -/

structure MsgSame (w w' : World) : Prop where
  t : w'.t = w.t
  codec : w'.c.codec = w.c.codec
  role : w'.c.role = w.c.role
  cfg : w'.c.cfg = w.c.cfg
  add : (∀ f, w.c.additional = some f → SmallFrame f) → ∀ f, w'.c.additional = some f → SmallFrame f

theorem MsgSame.refl (w : World) : MsgSame w w := ⟨rfl, rfl, rfl, rfl, fun h => h⟩

theorem setAdditional_same (w : World) (add : Frame) (hs : SmallFrame add) :
    MsgSame w (w.setAdditional add) ∧ (w.setAdditional add).c.state = w.c.state ∧
      (w.setAdditional add).c.incomplete = w.c.incomplete := by
  unfold World.setAdditional
  cases hadd : w.c.additional with
  | none =>
    refine ⟨⟨rfl, rfl, rfl, rfl, ?_⟩, rfl, rfl⟩
    intro _ f hf
    simp only [World.setAdditionalRaw] at hf
    cases hf; exact hs
  | some g =>
    dsimp only
    by_cases hp : g.isPong = true
    · rw [if_pos hp]
      refine ⟨⟨rfl, rfl, rfl, rfl, ?_⟩, rfl, rfl⟩
      intro _ f hf
      simp only [World.setAdditionalRaw] at hf
      cases hf; exact hs
    · rw [if_neg hp]
      exact ⟨⟨rfl, rfl, rfl, rfl, fun h f hf => h f (by rw [← hadd]; exact hf)⟩, rfl, rfl⟩

/-- how the model's reaction to a frame relates to the specification's verdict on it -/
def StepRel (w : World) (res : World × Res (Option Message)) : Spec.FrameOut → Prop
  | .fail c => ∃ e, res.2 = .err e ∧ errClassOf e = some c
  | .close m => res.2 = .ok (some m) ∧ MsgSame w res.1 ∧ res.1.c.state = .closedByPeer
  | .deliver m frag' => res.2 = .ok (some m) ∧ MsgSame w res.1 ∧ res.1.c.state = .active ∧
      FragRel res.1.c.incomplete frag'
  | .continue_ frag' => res.2 = .ok none ∧ MsgSame w res.1 ∧ res.1.c.state = .active ∧
      FragRel res.1.c.incomplete frag'

/-! ## control frames -/

theorem frameMeaning_ctl (lim : Limits) (frag : Option Partial) (fin : Bool) (o : Nat) (p : Bytes)
    (ho : o ≥ 8) :
    frameMeaning lim frag fin o p =
      if !fin then .fail .protocol
      else if p.length > 125 then .fail .protocol
      else if o = 8 then closeMessage p
      else if o = 9 then .deliver (.ping p) frag
      else .deliver (.pong p) frag := by
  unfold frameMeaning
  rw [if_pos ho]

theorem beBytes2_length (n : Nat) : (beBytes 2 n).length = 2 := C18.beBytes_length 2 n

theorem onClose_spec (w : World) (frame : Frame) (hst : w.c.state = .active)
    (hfin : frame.header.fin = true) (hlen : ¬ frame.payload.length > 125) :
    StepRel w (w.onControl frame .close) (closeMessage frame.payload) := by
  unfold World.onControl
  rw [hfin]
  simp only [Bool.not_true, Bool.false_eq_true, if_false, hlen]
  unfold Frame.intoClose closeMessage
  match hp : frame.payload with
  | [] =>
    dsimp only [andThen, World.doClose]
    rw [hst]
    dsimp only
    have hs : SmallFrame (Frame.close (Option.map
        (fun cf => if (!closeCodeIsAllowed cf.code) = true then
          ({ code := CloseCode.protocol, reason := protocolViolationReason } : CloseFrame) else cf) none)) :=
      ⟨by simp [Frame.close], rfl⟩
    obtain ⟨h1, h2, _⟩ := setAdditional_same (w.setState .closedByPeer) _ hs
    exact ⟨rfl, ⟨h1.t, h1.codec, h1.role, h1.cfg, h1.add⟩, h2⟩
  | [x] => exact ⟨_, rfl, rfl⟩
  | a :: b :: reason =>
    dsimp only
    rw [isUtf8_eq_wellFormedB]
    cases hwf : wellFormedB reason with
    | false => exact ⟨_, rfl, rfl⟩
    | true =>
      simp only [if_true, Bool.not_true, Bool.false_eq_true, if_false]
      dsimp only [andThen, World.doClose]
      rw [hst]
      dsimp only
      have hrl : reason.length ≤ 123 := by
        rw [hp] at hlen; simp only [List.length_cons] at hlen; omega
      rw [← be16_eq, ← closeCode_allowed]
      cases hal : closeCodeIsAllowed (closeCodeOfU16 (be16 a b)) with
      | true =>
        simp only [Option.map_some, Bool.not_true, Bool.false_eq_true, if_false, if_true]
        have hs : SmallFrame (Frame.close (some ⟨closeCodeOfU16 (be16 a b), reason⟩)) := by
          refine ⟨?_, rfl⟩
          simp only [Frame.close, List.length_append, beBytes2_length]; omega
        obtain ⟨h1, h2, _⟩ := setAdditional_same (w.setState .closedByPeer) _ hs
        exact ⟨rfl, ⟨h1.t, h1.codec, h1.role, h1.cfg, h1.add⟩, h2⟩
      | false =>
        simp only [Option.map_some, Bool.not_false, if_true, Bool.false_eq_true, if_false]
        have hs : SmallFrame (Frame.close (some ⟨.protocol, protocolViolationReason⟩)) := by
          refine ⟨?_, rfl⟩
          simp only [Frame.close, List.length_append, beBytes2_length]; decide
        obtain ⟨h1, h2, _⟩ := setAdditional_same (w.setState .closedByPeer) _ hs
        exact ⟨rfl, ⟨h1.t, h1.codec, h1.role, h1.cfg, h1.add⟩, h2⟩

end WsProofs.Read
