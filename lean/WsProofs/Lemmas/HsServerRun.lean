import WsModel.Handshake.Run
import WsProofs.Lemmas.HsMachine
import WsProofs.Lemmas.HsServerChecks
/-! The server handshake driven over a benign scripted transport: the loop invariant behind
schedule independence (C17). -/
namespace WsProofs.HsL
open WsModel WsModel.Hs WsModel.Gen

/-! ### benign transport calls -/

theorem read_benign {t : Transport} (hb : Transport.Benign t) :
    (∃ t1, t.read = (t1, .err .wouldBlock) ∧ Transport.Benign t1 ∧ t1.accepted = t.accepted ∧ t1.wr = t.wr ∧ t1.fl = t.fl ∧
        ((t.rd = [] ∧ t1.rd = []) ∨ t.rd = .err .wouldBlock :: t1.rd)) ∨
    (∃ t1 bs, t.read = (t1, .data bs) ∧ bs ≠ [] ∧ Transport.Benign t1 ∧ t1.accepted = t.accepted ∧ t1.wr = t.wr ∧
        t1.fl = t.fl ∧ t.rd = .data bs :: t1.rd) := by
  obtain ⟨b1, b2, b3, b4, b5, b6⟩ := hb
  cases hrd : t.rd with
  | nil =>
    left
    refine ⟨{ t with log := .read t.rdDef :: t.log, exhausted := true }, ?_, ⟨?_, b2, b3, b4, b5, b6⟩, rfl, rfl, rfl,
      .inl ⟨rfl, hrd⟩⟩
    · simp only [Transport.read, hrd, b4]
    · exact b1
  | cons e rest =>
    have he : rdBenign e = true := b1 e (by rw [hrd]; simp)
    have hrest : ∀ x ∈ rest, rdBenign x = true := fun x hx => b1 x (by rw [hrd]; simp [hx])
    have hread : t.read = ({ t with rd := rest, log := .read e :: t.log }, e) := by
      simp only [Transport.read, hrd]
    cases e with
    | eof => simp [rdBenign] at he
    | err k =>
      cases k <;> first | (simp [rdBenign] at he; done) | skip
      left
      exact ⟨_, hread, ⟨hrest, b2, b3, b4, b5, b6⟩, rfl, rfl, rfl, .inr rfl⟩
    | data bs =>
      right
      refine ⟨_, bs, hread, ?_, ⟨hrest, b2, b3, b4, b5, b6⟩, rfl, rfl, rfl, rfl⟩
      intro hbs; subst hbs; simp [rdBenign] at he

theorem writeEv_benign {t : Transport} (hb : Transport.Benign t) (rem : Bytes) (e : WrEv) (he : wrBenign e = true) :
    (∃ t1, t.writeEv rem e = (t1, .err .wouldBlock) ∧ Transport.Benign t1 ∧ t1.accepted = t.accepted) ∨
    (∃ t1 k, 1 ≤ k ∧ t.writeEv rem e = (t1, .ok (min k rem.length)) ∧ Transport.Benign t1 ∧
        t1.accepted = t.accepted ++ rem.take (min k rem.length)) := by
  cases e with
  | err k =>
    cases k <;> first | (simp [wrBenign] at he; done) | skip
    left; exact ⟨_, rfl, hb, rfl⟩
  | accept k =>
    right
    exact ⟨_, k, by simpa [wrBenign] using he, rfl, hb, rfl⟩

theorem write_benign {t : Transport} (hb : Transport.Benign t) (rem : Bytes) :
    (∃ t1, t.write rem = (t1, .err .wouldBlock) ∧ Transport.Benign t1 ∧ t1.accepted = t.accepted) ∨
    (∃ t1 k, 1 ≤ k ∧ t.write rem = (t1, .ok (min k rem.length)) ∧ Transport.Benign t1 ∧
        t1.accepted = t.accepted ++ rem.take (min k rem.length)) := by
  obtain ⟨b1, b2, b3, b4, b5, b6⟩ := hb
  cases t with
  | mk rd wr fl rdDef wrDef flDef accepted flushedUpTo log exhausted =>
    cases wr with
    | nil =>
      simp only [Transport.write]
      exact writeEv_benign (show Transport.Benign ⟨rd, [], fl, rdDef, wrDef, flDef, accepted, flushedUpTo, log, true⟩ from
        ⟨b1, b2, b3, b4, b5, b6⟩) rem wrDef b5
    | cons e rest =>
      simp only [Transport.write]
      have he : wrBenign e = true := b2 e (by simp)
      have hrest : ∀ x ∈ rest, wrBenign x = true := fun x hx => b2 x (by simp [hx])
      exact writeEv_benign (show Transport.Benign ⟨rd, rest, fl, rdDef, wrDef, flDef, accepted, flushedUpTo, log, exhausted⟩ from
        ⟨b1, hrest, b3, b4, b5, b6⟩) rem e he

theorem flushEv_benign {t : Transport} (hb : Transport.Benign t) (e : FlEv) (he : flBenign e = true) :
    (∃ t1, t.flushEv e = (t1, .err .wouldBlock) ∧ Transport.Benign t1 ∧ t1.accepted = t.accepted) ∨
    (∃ t1, t.flushEv e = (t1, .ok) ∧ t1.accepted = t.accepted) := by
  cases e with
  | ok => right; exact ⟨_, rfl, rfl⟩
  | err k =>
    cases k <;> first | (simp [flBenign] at he; done) | skip
    left; exact ⟨_, rfl, hb, rfl⟩

theorem flush_benign {t : Transport} (hb : Transport.Benign t) :
    (∃ t1, t.flush = (t1, .err .wouldBlock) ∧ Transport.Benign t1 ∧ t1.accepted = t.accepted) ∨
    (∃ t1, t.flush = (t1, .ok) ∧ t1.accepted = t.accepted) := by
  obtain ⟨b1, b2, b3, b4, b5, b6⟩ := hb
  cases t with
  | mk rd wr fl rdDef wrDef flDef accepted flushedUpTo log exhausted =>
    cases fl with
    | nil =>
      simp only [Transport.flush]
      exact flushEv_benign (show Transport.Benign ⟨rd, wr, [], rdDef, wrDef, flDef, accepted, flushedUpTo, log, true⟩ from
        ⟨b1, b2, b3, b4, b5, b6⟩) flDef b6
    | cons e rest =>
      simp only [Transport.flush]
      have he : flBenign e = true := b3 e (by simp)
      have hrest : ∀ x ∈ rest, flBenign x = true := fun x hx => b3 x (by simp [hx])
      exact flushEv_benign (show Transport.Benign ⟨rd, wr, rest, rdDef, wrDef, flDef, accepted, flushedUpTo, log, exhausted⟩ from
        ⟨b1, b2, hrest, b4, b5, b6⟩) e he


/-! ### `serverLoop`, one round at a time -/

/-- how a finished handshake is reported -/
def finalOf (role : ServerRole) : Outcome Unit :=
  match role.errorResponse with
  | some (status, body) => .failed (.http status body)
  | none => .done ()

theorem finalOf_cases (role : ServerRole) :
    finalOf role = .done () ∨ ∃ e, finalOf role = .failed e := by
  unfold finalOf
  cases role.errorResponse with
  | none => exact .inl rfl
  | some p => exact .inr ⟨_, rfl⟩

variable {parse : Bytes → HeadParse}

theorem serverLoop_wb {fuel : Nat} {m : ServerMid} {t t1 : Transport} {s : HState}
    (h : singleRound parse m.state t = (t1, .wouldBlock s)) :
    serverLoop parse (fuel + 1) m t = (t1, { m with state := s }, .interrupted) := by
  simp only [serverLoop, h]

theorem serverLoop_inc {fuel : Nat} {m : ServerMid} {t t1 : Transport} {s : HState}
    (h : singleRound parse m.state t = (t1, .incomplete s)) :
    serverLoop parse (fuel + 1) m t = serverLoop parse fuel { m with state := s } t1 := by
  simp only [serverLoop, h]

theorem serverLoop_doneWriting {fuel : Nat} {m : ServerMid} {t t1 : Transport}
    (h : singleRound parse m.state t = (t1, .doneWriting)) :
    serverLoop parse (fuel + 1) m t = (t1, m, finalOf m.role) := by
  simp only [serverLoop, h, finalOf]
  cases m.role.errorResponse <;> rfl

theorem serverLoop_doneReading_err {fuel : Nat} {m : ServerMid} {t t1 : Transport} {sz : Nat} {hd : RawHead}
    {tail : Bytes} {e : HsErr}
    (h : singleRound parse m.state t = (t1, .doneReading sz hd tail))
    (hs : serverAfterRead m.role hd tail = .error e) :
    serverLoop parse (fuel + 1) m t = (t1, m, .failed e) := by
  simp only [serverLoop, h, hs]

theorem serverLoop_doneReading_ok {fuel : Nat} {m : ServerMid} {t t1 : Transport} {sz : Nat} {hd : RawHead}
    {tail : Bytes} {role : ServerRole} {out : Bytes}
    (h : singleRound parse m.state t = (t1, .doneReading sz hd tail))
    (hs : serverAfterRead m.role hd tail = .ok (role, out)) :
    serverLoop parse (fuel + 1) m t = serverLoop parse fuel { role := role, state := .writing out } t1 := by
  simp only [serverLoop, h, hs]

theorem serverSpec_err {cb : Callback} {h : RawHead} {e : HsErr}
    (hs : serverAfterRead { callback := cb } h [] = .error e) : serverSpec cb h = ([], .failed e) := by
  simp only [serverSpec, hs]

theorem serverSpec_ok {cb : Callback} {h : RawHead} {role : ServerRole} {out : Bytes}
    (hs : serverAfterRead { callback := cb } h [] = .ok (role, out)) : serverSpec cb h = (out, finalOf role) := by
  simp only [serverSpec, hs, finalOf]
  cases role.errorResponse <;> rfl

theorem serverAfterRead_out_ne {r0 : ServerRole} {h : RawHead} {tail : Bytes} {role : ServerRole} {out : Bytes}
    (hs : serverAfterRead r0 h tail = .ok (role, out)) : out ≠ [] := by
  obtain ⟨_, _, _, _, acc, _, hcb⟩ := (serverAfterRead_ok_iff _ _ _ _).1 hs
  have hlen : 2 ≤ out.length := by
    unfold cbResult at hcb
    cases hc : r0.callback with
    | none_ =>
      rw [hc] at hcb; simp only [Except.ok.injEq, Prod.mk.injEq] at hcb
      rw [← hcb.2]; simp [response101, crlf]; omega
    | accept extra =>
      rw [hc] at hcb; simp only [Except.ok.injEq, Prod.mk.injEq] at hcb
      rw [← hcb.2]; simp [response101, crlf]; omega
    | reject status line hs' body =>
      rw [hc] at hcb; simp only at hcb
      by_cases h2 : 200 ≤ status ∧ status < 300
      · simp only [h2, and_self, if_true] at hcb; cases hcb
      · simp only [h2, if_false, Except.ok.injEq, Prod.mk.injEq] at hcb
        rw [← hcb.2]; simp [rejectBytes, crlf]; omega
  intro he; subst he; simp at hlen


/-! ### the invariant -/

theorem hsData_take_wb (rest : List RdEv) (k : Nat) :
    hsData ((RdEv.err .wouldBlock :: rest).take (k + 1)) = hsData (rest.take k) := by
  simp only [List.take_succ_cons, hsData]

theorem hsData_take_data (bs : Bytes) (rest : List RdEv) (k : Nat) :
    hsData ((RdEv.data bs :: rest).take (k + 1)) = bs ++ hsData (rest.take k) := by
  simp only [List.take_succ_cons, hsData]

/-- the states a benign server handshake for the head `S` (parsed as `h`) passes through -/
def Inv (cb : Callback) (S : Bytes) (h : RawHead) (m : ServerMid) (t : Transport) : Prop :=
  Transport.Benign t ∧
  match m.state with
  | .reading buf a =>
      m.role = { callback := cb } ∧ t.accepted = [] ∧ buf.length < S.length ∧
      (∃ k, buf ++ hsData (t.rd.take k) = S) ∧ guardOk a t.rd = true ∧
      (serverSpec cb h).1.length < t.wr.length + t.fl.length + 400
  | .writing rem => rem ≠ [] ∧ t.accepted ++ rem = (serverSpec cb h).1 ∧ (serverSpec cb h).2 = finalOf m.role
  | .flushing => t.accepted = (serverSpec cb h).1 ∧ (serverSpec cb h).2 = finalOf m.role

/-- rounds a handshake in this state can still take -/
def need (L : Nat) : HState → Transport → Nat
  | .reading _ _, t => t.rd.length + L + 1
  | .writing rem, _ => rem.length + 1
  | .flushing, _ => 1

/-- finished exactly as specified -/
def Final (cb : Callback) (h : RawHead) (t : Transport) (o : Outcome Unit) : Prop :=
  t.accepted = (serverSpec cb h).1 ∧
    ((o = .done () ∧ (serverSpec cb h).2 = .done ()) ∨ ∃ e, o = .failed e ∧ (serverSpec cb h).2 = .failed e)

def Post (cb : Callback) (S : Bytes) (h : RawHead) (r : Transport × ServerMid × Outcome Unit) : Prop :=
  (r.2.2 = .interrupted ∧ Inv cb S h r.2.1 r.1) ∨ Final cb h r.1 r.2.2

theorem final_of_finalOf {cb : Callback} {h : RawHead} {t : Transport} {role : ServerRole}
    (h1 : t.accepted = (serverSpec cb h).1) (h2 : (serverSpec cb h).2 = finalOf role) :
    Final cb h t (finalOf role) := by
  refine ⟨h1, ?_⟩
  cases finalOf_cases role with
  | inl hd => left; exact ⟨hd, by rw [h2, hd]⟩
  | inr hd => obtain ⟨e, he⟩ := hd; right; exact ⟨e, he, by rw [h2, he]⟩

theorem serverLoop_post {cb : Callback} {S : Bytes} {h : RawHead} (hhead : HeadOf parse S h) :
    ∀ (fuel : Nat) (m : ServerMid) (t : Transport), Inv cb S h m t →
      need (serverSpec cb h).1.length m.state t ≤ fuel → Post cb S h (serverLoop parse fuel m t) := by
  intro fuel
  induction fuel with
  | zero =>
    intro m t _ hfuel
    exfalso
    cases hst : m.state <;> rw [hst] at hfuel <;> simp only [need] at hfuel <;> omega
  | succ fuel ih =>
    intro m t hinv hfuel
    obtain ⟨role, state⟩ := m
    obtain ⟨hb, hinv⟩ := hinv
    cases state with
    | flushing =>
      simp only at hinv
      obtain ⟨hacc, hrole⟩ := hinv
      cases flush_benign hb with
      | inl hf =>
        obtain ⟨t1, hf, hb1, ha1⟩ := hf
        rw [serverLoop_wb (singleRound_flush_wb hf)]
        left; exact ⟨rfl, hb1, by simp only; rw [ha1]; exact ⟨hacc, hrole⟩⟩
      | inr hf =>
        obtain ⟨t1, hf, ha1⟩ := hf
        rw [serverLoop_doneWriting (singleRound_flush_ok hf)]
        right; exact final_of_finalOf (by rw [ha1]; exact hacc) hrole
    | writing rem =>
      simp only at hinv
      obtain ⟨hne, hacc, hrole⟩ := hinv
      simp only [need] at hfuel
      cases write_benign hb rem with
      | inl hw =>
        obtain ⟨t1, hw, hb1, ha1⟩ := hw
        rw [serverLoop_wb (singleRound_write_wb hne hw)]
        left; exact ⟨rfl, hb1, by simp only; rw [ha1]; exact ⟨hne, hacc, hrole⟩⟩
      | inr hw =>
        obtain ⟨t1, k, hk, hw, hb1, ha1⟩ := hw
        have hlen : 0 < rem.length := List.length_pos_iff.2 hne
        have hn0 : ¬ (min k rem.length = 0) := by omega
        have hround := singleRound_write_ok (parse := parse) hne hw
        simp only [hn0, if_false] at hround
        by_cases hdrop : (rem.drop (min k rem.length)).isEmpty = true
        · simp only [hdrop, if_true] at hround
          rw [serverLoop_inc hround]
          apply ih
          · refine ⟨hb1, ?_⟩
            simp only
            have : rem.take (min k rem.length) = rem := by
              have := List.isEmpty_iff.1 hdrop
              rw [List.drop_eq_nil_iff] at this
              exact List.take_of_length_le this
            rw [ha1, this]; exact ⟨hacc, hrole⟩
          · simp only [need]; omega
        · simp only [hdrop, Bool.false_eq_true, if_false] at hround
          rw [serverLoop_inc hround]
          apply ih
          · refine ⟨hb1, ?_⟩
            simp only
            refine ⟨fun he => hdrop (by rw [he]; rfl), ?_, hrole⟩
            rw [ha1, List.append_assoc, List.take_append_drop]; exact hacc
          · simp only [need, List.length_drop]; omega
    | reading buf a =>
      simp only at hinv
      obtain ⟨hrole, hacc, hlt, ⟨k, hk⟩, hguard, hlen⟩ := hinv
      simp only [need] at hfuel
      cases read_benign hb with
      | inl hr =>
        obtain ⟨t1, hr, hb1, ha1, hw1, hf1, hrd⟩ := hr
        rw [serverLoop_wb (singleRound_read_wb hr)]
        left; refine ⟨rfl, hb1, ?_⟩
        simp only
        refine ⟨hrole, by rw [ha1]; exact hacc, hlt, ?_, ?_, by rw [hw1, hf1]; exact hlen⟩
        · cases hrd with
          | inl hrd => exact ⟨k, by rw [hrd.2]; rw [hrd.1] at hk; exact hk⟩
          | inr hrd =>
            rw [hrd] at hk
            cases k with
            | zero =>
              exfalso
              simp only [List.take_zero, hsData, List.append_nil] at hk
              rw [hk] at hlt; omega
            | succ k' => exact ⟨k', by rw [hsData_take_wb] at hk; exact hk⟩
        · cases hrd with
          | inl hrd => rw [hrd.2]; rw [hrd.1] at hguard; exact hguard
          | inr hrd => rw [hrd] at hguard; simpa only [guardOk] using hguard
      | inr hr =>
        obtain ⟨t1, bs, hr, hbs, hb1, ha1, hw1, hf1, hrd⟩ := hr
        rw [hrd] at hk hguard hfuel
        have hround := singleRound_read_data (parse := parse) (buf := buf) (a := a) hr
        have hbs' : bs.isEmpty = false := by cases bs <;> simp_all
        simp only [guardOk, Bool.and_eq_true] at hguard
        obtain ⟨hg1, hg2⟩ := hguard
        simp only [hbs', hg1, Bool.not_true, Bool.false_eq_true, if_false] at hround
        cases k with
        | zero =>
          exfalso
          simp only [List.take_zero, hsData, List.append_nil] at hk
          rw [hk] at hlt; omega
        | succ k' =>
          rw [hsData_take_data, ← List.append_assoc] at hk
          simp only [List.length_cons] at hfuel
          by_cases hfull : (buf ++ bs).length < S.length
          · -- a proper prefix: incomplete
            have hpre : S.take (buf ++ bs).length = buf ++ bs := by
              rw [← hk]; exact List.take_left' rfl
            have hp : parse (buf ++ bs) = .incomplete := by
              rw [← hpre]; exact hhead.2 _ hfull
            simp only [parseStep, hp] at hround
            rw [serverLoop_inc hround]
            apply ih
            · refine ⟨hb1, ?_⟩
              simp only
              exact ⟨hrole, by rw [ha1]; exact hacc, hfull, ⟨k', hk⟩, hg2, by rw [hw1, hf1]; exact hlen⟩
            · simp only [need]; omega
          · -- the head is complete
            have hS : buf ++ bs = S := by
              have h1 : (buf ++ bs).length + (hsData (t1.rd.take k')).length = S.length := by
                rw [← hk]; simp only [List.length_append]
              have h2 : hsData (t1.rd.take k') = [] := List.eq_nil_of_length_eq_zero (by omega)
              rw [h2, List.append_nil] at hk; exact hk
            have hp : parse (buf ++ bs) = .complete S.length h := by rw [hS]; exact hhead.1
            simp only [parseStep, hp] at hround
            rw [hS, List.drop_length] at hround
            cases hsar : serverAfterRead { callback := cb } h [] with
            | error e =>
              rw [serverLoop_doneReading_err hround (by simp only; rw [hrole]; exact hsar)]
              right
              refine ⟨?_, .inr ⟨e, rfl, ?_⟩⟩
              · simp only; rw [ha1, hacc, serverSpec_err hsar]
              · rw [serverSpec_err hsar]
            | ok res =>
              obtain ⟨role', out⟩ := res
              rw [serverLoop_doneReading_ok hround (by simp only; rw [hrole]; exact hsar)]
              have hspec := serverSpec_ok hsar
              apply ih
              · refine ⟨hb1, ?_⟩
                simp only
                refine ⟨serverAfterRead_out_ne hsar, ?_, ?_⟩
                · rw [ha1, hacc, hspec]; rfl
                · rw [hspec]
              · simp only [need]; rw [hspec] at hfuel; simp only at hfuel; omega


theorem hsFuel_ge {cb : Callback} {S : Bytes} {h : RawHead} {m : ServerMid} {t : Transport}
    (hinv : Inv cb S h m t) : need (serverSpec cb h).1.length m.state t ≤ hsFuel m.state t := by
  obtain ⟨_, hinv⟩ := hinv
  cases hst : m.state with
  | reading buf a =>
    rw [hst] at hinv; simp only at hinv
    simp only [need, hsFuel]; omega
  | writing rem => simp only [need, hsFuel]; omega
  | flushing => simp only [need, hsFuel]; omega

/-- what has been written so far is a prefix of what the specification writes -/
theorem inv_prefix {cb : Callback} {S : Bytes} {h : RawHead} {m : ServerMid} {t : Transport}
    (hinv : Inv cb S h m t) : ∃ rest, (serverSpec cb h).1 = t.accepted ++ rest := by
  obtain ⟨_, hinv⟩ := hinv
  cases hst : m.state with
  | reading buf a =>
    rw [hst] at hinv; simp only at hinv
    exact ⟨_, by rw [hinv.2.1]; rfl⟩
  | writing rem =>
    rw [hst] at hinv; simp only at hinv
    exact ⟨rem, hinv.2.1.symm⟩
  | flushing =>
    rw [hst] at hinv; simp only at hinv
    exact ⟨[], by rw [List.append_nil]; exact hinv.1.symm⟩

/-- the statement of schedule independence for one run -/
def RunResult (cb : Callback) (h : RawHead) (r : Transport × ServerMid × Outcome Unit) : Prop :=
  (r.2.2 = .interrupted ∧ ∃ rest, (serverSpec cb h).1 = r.1.accepted ++ rest) ∨
  (r.1.accepted = (serverSpec cb h).1 ∧
    ((r.2.2 = .done () ∧ (serverSpec cb h).2 = .done ()) ∨
     ∃ e, r.2.2 = .failed e ∧ (serverSpec cb h).2 = .failed e))

theorem serverRun_result {cb : Callback} {S : Bytes} {h : RawHead} (hhead : HeadOf parse S h) :
    ∀ (n : Nat) (m : ServerMid) (t : Transport), Inv cb S h m t → RunResult cb h (serverRun parse n m t) := by
  intro n
  induction n with
  | zero =>
    intro m t hinv
    left; exact ⟨rfl, inv_prefix hinv⟩
  | succ n ih =>
    intro m t hinv
    have hpost := serverLoop_post hhead (hsFuel m.state t) m t hinv (hsFuel_ge hinv)
    cases hloop : serverLoop parse (hsFuel m.state t) m t with
    | mk t' rest =>
      obtain ⟨m', o⟩ := rest
      rw [hloop] at hpost
      cases hpost with
      | inl hp =>
        obtain ⟨ho, hinv'⟩ := hp
        simp only at ho hinv'
        subst ho
        simp only [serverRun, hloop]
        exact ih m' t' hinv'
      | inr hp =>
        obtain ⟨hacc, hout⟩ := hp
        simp only at hacc hout
        have hrun : serverRun parse (n + 1) m t = (t', m', o) := by
          cases hout with
          | inl hd => rw [hd.1] at hloop ⊢; simp only [serverRun, hloop]
          | inr hd => obtain ⟨e, he, _⟩ := hd; rw [he] at hloop ⊢; simp only [serverRun, hloop]
        rw [hrun]
        right; exact ⟨hacc, hout⟩

end WsProofs.HsL
