import WsProofs.Lemmas.PairLive2

/-! Two-party liveness, layer 3: one `flush` and one `read` of the fair driver (working transport,
full delivery), in the one-sided view: the invariant is kept, the write buffer stays clean, the
number of frames queued or pending grows by at most the number of frames read, and every `read`
brings the side closer to the state `Fin` in which it has nothing left to do (or has been told that
the connection is closed). -/
namespace WsProofs.Pair
open WsModel WsModel.Gen WsModel.Spec WsProofs WsProofs.Read WsProofs.Pipe WsProofs.Progress

/-- an action of the fair driver -/
def Full (a : Action) : Prop :=
  a.deliver = 2 ^ 64 ∧ a.wr = [] ∧ a.fl = [] ∧ a.wrDef = .accept (2 ^ 64) ∧ a.flDef = .ok

theorem full_fullAction (who : Side) (op : Op) : Full (fullAction who op) := ⟨rfl, rfl, rfl, rfl, rfl⟩

theorem full_accepts {a : Action} (hf : Full a) (A : World) (Pin : Bytes) (oD : Bool) :
    (actIn A Pin oD a).t.acceptsAll := ⟨hf.2.1, hf.2.2.1, hf.2.2.2.1, hf.2.2.2.2⟩

theorem full_benign {a : Action} (hf : Full a) (hraw : Op.noRaw a.op) : a.Benign := by
  obtain ⟨_, h2, h3, h4, h5⟩ := hf
  refine ⟨hraw, ?_, ?_, Or.inl ⟨_, h4, by decide⟩, Or.inl h5⟩
  · rw [h2]; intro e he; cases he
  · rw [h3]; intro e he; cases he

theorem HP.step_O (h : HP) (a : Action) : (h.step a).1.O = h.O := rfl
theorem HP.step_oD (h : HP) (a : Action) : (h.step a).1.oD = h.oD := rfl

/-- what a step of the fair driver guarantees -/
structure LiveRes (rA rO : Role) (h : HP) (nIn nOut : Nat) (a : Action) (nIn' : Nat) : Prop where
  j : JH rA rO (h.step a).1 nIn' nOut
  mono : nIn ≤ nIn'
  cnt : (h.step a).1.A.queued.length + slotN (h.step a).1.A + nIn ≤
    h.A.queued.length + slotN h.A + nIn'
  clean : (h.step a).1.aD = false → Clean (h.step a).1.A
  ccA : (h.step a).2.isConnectionClosed = true → rA = .client → h.oD = true
  dropped : (h.step a).1.aD = true → h.aD = true ∨ (h.step a).2.isConnectionClosed = true

theorem dropped_of (h : HP) (a : Action) (hd : (h.step a).1.aD = true) :
    h.aD = true ∨ (h.step a).2.isConnectionClosed = true := by
  have hd' : (h.aD || (actW h.A h.pin h.oD a).2.isConnectionClosed) = true := hd
  exact Bool.or_eq_true_iff.mp hd'

theorem aD_of_cc (h : HP) (a : Action) (hc : (actW h.A h.pin h.oD a).2.isConnectionClosed = true) :
    (h.step a).1.aD = true := by
  show (h.aD || (actW h.A h.pin h.oD a).2.isConnectionClosed) = true
  rw [hc]; exact Bool.or_true _

theorem not_term_of {rA rO : Role} {h : HP} {nIn nOut : Nat} (j : JH rA rO h nIn nOut)
    (hd : h.aD = false) : h.A.c.state ≠ .terminated := by
  intro ht
  rw [j.termA ht] at hd; cases hd

/-! ### `flush` -/

theorem live_flush {rA rO : Role} {h : HP} {nIn nOut : Nat} (j : JH rA rO h nIn nOut)
    (hd : h.aD = false) (a : Action) (hf : Full a) (hop : a.op = .flush) :
    LiveRes rA rO h nIn nOut a nIn := by
  have hnt := not_term_of j hd
  have hopk : OpOk a.op := by rw [hop]; exact ⟨trivial, trivial, trivial⟩
  have hb := full_benign hf hopk.1
  have hnr : a.op ≠ .read := by rw [hop]; intro h; cases h
  obtain ⟨g1, g2, g3, g4, g5, g6⟩ := act_generic j.hyp a hb hopk
  obtain ⟨r1, r3, r4, r5⟩ := act_nonread j.hyp a hopk hnr
  have R : ActRes rA rO h.A h.O h.pin h.pout h.oD nIn nOut a nIn :=
    ⟨r1, j.lin, r3, g1, g2, r4, by rw [r5, List.append_nil], g3, g4, g5, g6⟩
  have hact : actW h.A h.pin h.oD a =
      ((actIn h.A h.pin h.oD a).flush.1, .unit (actIn h.A h.pin h.oD a).flush.2) := by
    unfold actW; rw [hop]; rfl
  have F := flush_full (actIn h.A h.pin h.oD a) (actIn_wi j.wa _ _ _) (full_accepts hf _ _ _) hnt
  refine ⟨j.after a hopk R, Nat.le_refl _, ?_, ?_, fun hc => (R.cc hc).2.1, dropped_of h a⟩
  · show (actW h.A h.pin h.oD a).1.queued.length + slotN (actW h.A h.pin h.oD a).1 + nIn ≤ _
    have hA1 : (actW h.A h.pin h.oD a).1 = (actIn h.A h.pin h.oD a).flush.1 := by rw [hact]
    rw [hA1]
    have := (sd_count (flush_ws (actIn h.A h.pin h.oD a)).toSD).1
    have e1 : (actIn h.A h.pin h.oD a).queued = h.A.queued := rfl
    have e2 : slotN (actIn h.A h.pin h.oD a) = slotN h.A := rfl
    rw [e1, e2] at this
    omega
  · intro hd'
    show Clean (actW h.A h.pin h.oD a).1
    by_cases hT : T (actIn h.A h.pin h.oD a)
    · exfalso
      have hcc : (actW h.A h.pin h.oD a).2.isConnectionClosed = true := by
        rw [hact, (F.closed hT).1]; rfl
      rw [aD_of_cc h a hcc] at hd'; cases hd'
    · have hA1 : (actW h.A h.pin h.oD a).1 = (actIn h.A h.pin h.oD a).flush.1 := by rw [hact]
      rw [hA1]
      exact ⟨F.outBuf, (F.opened hT).2.2⟩

/-! ### `read` -/

/-- the side has nothing left to do: slot empty, inbound pipe empty, no complete frame buffered,
not a server that has to end the connection, and the peer is still there -/
def Fin2 (h : HP) : Prop :=
  h.A.c.additional = none ∧ h.pin = [] ∧ ¬ T h.A ∧ h.oD = false ∧
    ∃ B, Rep h.A.c.codec B ∧ shot usizeMax B = .needMore

/-- … or it has been told that the connection is closed -/
def Fin (h : HP) : Prop := h.aD = true ∨ Fin2 h

/-- reads that suffice to reach `Fin` -/
def bound (h : HP) (nIn : Nat) : Nat :=
  (h.O.queued.length - nIn) + (if h.oD = true ∧ h.pin = [] then 1 else 2)

/-- a `read` of a side that was already told the connection is closed -/
theorem live_read_dropped {rA rO : Role} {h : HP} {nIn nOut : Nat} (j : JH rA rO h nIn nOut)
    (hd : h.aD = true) (a : Action) (hf : Full a) (hop : a.op = .read) :
    LiveRes rA rO h nIn nOut a nIn := by
  have ht := (j.dropA hd).1
  have hopk : OpOk a.op := by rw [hop]; exact ⟨trivial, trivial, trivial⟩
  have hb := full_benign hf hopk.1
  obtain ⟨g1, g2, g3, g4, g5, g6⟩ := act_generic j.hyp a hb hopk
  have hact : actW h.A h.pin h.oD a = (actIn h.A h.pin h.oD a, .msg (.err .alreadyClosed)) := by
    unfold actW
    rw [hop]
    show ((actIn h.A h.pin h.oD a).read.1, Out.msg (actIn h.A h.pin h.oD a).read.2) = _
    rw [terminated_read (actIn h.A h.pin h.oD a) ht]
  have R : ActRes rA rO h.A h.O h.pin h.pout h.oD nIn nOut a nIn := by
    refine ⟨by rw [hact]; exact actIn_wi j.wa _ _ _, j.lin, ?_, g1, g2,
      by rw [hact]; exact outOk_msg_err (Or.inr (Or.inl rfl)), by rw [hact]; simp [dataOfOut],
      g3, g4, g5, g6⟩
    intro hn
    rw [hact] at hn
    exact absurd ht hn
  have hda : (h.step a).1.aD = true := by
    show (h.aD || _) = true
    rw [hd]; rfl
  refine ⟨j.after a hopk R, Nat.le_refl _, ?_, (fun hn => by rw [hda] at hn; cases hn),
    fun hc => (R.cc hc).2.1, dropped_of h a⟩
  show (actW h.A h.pin h.oD a).1.queued.length + slotN (actW h.A h.pin h.oD a).1 + nIn ≤ _
  rw [hact]
  exact Nat.le_refl _

/-- the pieces of `ActRes` for a `read` of a live side, together with the case summary -/
theorem act_read_live {rA rO : Role} {A O : World} {Pin Pout : Bytes} {oD : Bool} {nIn nOut : Nat}
    (H : ActHyp rA rO A O Pin Pout oD nIn nOut) (a : Action) (hb : a.Benign) (hop : a.op = .read)
    (hnt : A.c.state ≠ .terminated) :
    ∃ nIn', ActRes rA rO A O Pin Pout oD nIn nOut a nIn' ∧
      ReadSum (actIn A Pin oD a) Pin a.deliver (actIn A Pin oD a).read nIn nIn' ∧
      actW A Pin oD a = ((actIn A Pin oD a).read.1, .msg (actIn A Pin oD a).read.2) := by
  have hopk : OpOk a.op := by rw [hop]; exact ⟨trivial, trivial, trivial⟩
  have hact : actW A Pin oD a = ((actIn A Pin oD a).read.1, .msg (actIn A Pin oD a).read.2) := by
    unfold actW
    rw [hop]
    rfl
  obtain ⟨g1, g2, g3, g4, g5, g6⟩ := act_generic H a hb hopk
  obtain ⟨n', h1, h2, h3, h4, h5, h6, RS⟩ := read_core H a hnt
  refine ⟨n', ⟨by rw [hact]; exact h1, h2, ?_, g1, g2, by rw [hact]; exact h5,
    by rw [hact]; exact h6, g3, g4, g5, g6⟩, RS, hact⟩
  rw [pin_after A Pin oD a (by rw [hact]; exact h3), hact]
  exact h4

theorem live_read {rA rO : Role} {h : HP} {nIn nOut : Nat} (j : JH rA rO h nIn nOut)
    (hcl : h.aD = false → Clean h.A) (a : Action) (hf : Full a) (hop : a.op = .read) :
    ∃ nIn', LiveRes rA rO h nIn nOut a nIn' ∧ (Fin h → Fin (h.step a).1) ∧
      (¬ Fin h → Fin (h.step a).1 ∨ bound (h.step a).1 nIn' + 1 ≤ bound h nIn) := by
  have hopk : OpOk a.op := by rw [hop]; exact ⟨trivial, trivial, trivial⟩
  have hb := full_benign hf hopk.1
  cases hd : h.aD with
  | true =>
    have L := live_read_dropped j hd a hf hop
    have hda : (h.step a).1.aD = true := by
      show (h.aD || _) = true
      rw [hd]; rfl
    exact ⟨nIn, L, fun _ => Or.inl hda, fun _ => Or.inl (Or.inl hda)⟩
  | false =>
    have hnt := not_term_of j hd
    have hclean := hcl hd
    obtain ⟨n', R, RS, hact⟩ := act_read_live j.hyp a hb hop hnt
    have hW0 := actIn_wi j.wa h.pin h.oD a
    have hacc := full_accepts hf h.A h.pin h.oD
    have hclean0 : Clean (actIn h.A h.pin h.oD a) := hclean
    obtain ⟨PT, PN⟩ := readPre_full (actIn h.A h.pin h.oD a) hW0 hacc hnt hclean0
    have PW := readPre_ws (actIn h.A h.pin h.oD a)
    have hsd := sd_count PW.toSD
    have e1 : (actIn h.A h.pin h.oD a).queued = h.A.queued := rfl
    have e2 : slotN (actIn h.A h.pin h.oD a) = slotN h.A := rfl
    rw [e1, e2] at hsd
    have hTeq : T (actIn h.A h.pin h.oD a) ↔ T h.A := Iff.rfl
    have hJ := j.after a hopk R
    have hpinE : (h.step a).1.pin = h.pin.drop (actConsumed h.A h.pin h.oD a) := rfl
    have hAE : (h.step a).1.A = (actW h.A h.pin h.oD a).1 := rfl
    have hrem : ∀ k, bound (h.step a).1 k = (h.O.queued.length - k) +
        (if h.oD = true ∧ (h.step a).1.pin = [] then 1 else 2) := fun _ => rfl
    unfold ReadSum at RS
    generalize hres : (actIn h.A h.pin h.oD a).read = res at RS hact
    obtain ⟨A', r⟩ := res
    generalize hpre : (actIn h.A h.pin h.oD a).readPre = x at RS PT PN PW hsd
    obtain ⟨w1, r1⟩ := x
    dsimp only at RS PT PN PW hsd hact
    have hA' : (actW h.A h.pin h.oD a).1 = A' := by rw [hact]
    have hout : (actW h.A h.pin h.oD a).2 = .msg r := by rw [hact]
    rcases RS with ⟨e, he1, he2, hn⟩ | ⟨hok, hn, m, hm, ho, hu, hq, hnt2, hfr⟩ |
      ⟨hok, hn, hwb, c', t', B', he, hcs, hnil, hrepB, hshot, hdrop⟩ |
      ⟨hok, hn, hterm, hcc, hq, hadd⟩
    · -- the server ends the connection at the top of the loop
      cases he2
      subst hn
      have hT : T (actIn h.A h.pin h.oD a) := by
        apply Classical.byContradiction
        intro hT
        rw [(PN hT).1] at he1; cases he1
      obtain ⟨p1, p2⟩ := PT hT
      have hcc : (actW h.A h.pin h.oD a).2.isConnectionClosed = true := by
        have hec : (Res.err e : Res Unit) = .err .connectionClosed := he1.symm.trans p1
        injection hec with hec
        rw [hout, hec]; rfl
      have hda := aD_of_cc h a hcc
      refine ⟨n', ⟨hJ, Nat.le_refl _, ?_, (fun hx => by rw [hda] at hx; cases hx),
        fun hc => (R.cc hc).2.1, dropped_of h a⟩, fun _ => Or.inl hda, fun _ => Or.inl (Or.inl hda)⟩
      rw [hAE, hA']
      omega
    · -- a frame
      subst hn
      have hT : ¬ T (actIn h.A h.pin h.oD a) := by
        intro hT
        rw [(PT hT).1] at hok; cases hok
      obtain ⟨_, q1, q2, q3⟩ := PN hT
      have hs1 : slotN w1 = 0 := slotN_none q2
      have hlin := R.lin
      refine ⟨nIn + 1, ⟨hJ, Nat.le_succ _, ?_, ?_, fun hc => (R.cc hc).2.1, dropped_of h a⟩, ?_, ?_⟩
      · rw [hAE, hA', hq]
        have := slotN_le A'
        omega
      · intro _
        rw [hAE, hA']
        exact ⟨by rw [ho]; exact q1.1, by rw [hu]; exact q1.2⟩
      · -- `Fin` cannot deliver a frame
        intro hF
        rcases hF with hF | ⟨_, f2, _, _, B0, hB0, hs0⟩
        · rw [hd] at hF; cases hF
        · exact absurd hs0 (hfr f2 B0 hB0)
      · intro _
        right
        rw [hrem]
        unfold bound
        by_cases hc : h.oD = true ∧ h.pin = []
        · have hp' : (h.step a).1.pin = [] := by rw [hpinE, hc.2, List.drop_nil]
          rw [if_pos hc, if_pos ⟨hc.1, hp'⟩]
          omega
        · rw [if_neg hc]
          have : (if h.oD = true ∧ (h.step a).1.pin = [] then 1 else 2) ≤ 2 := by split <;> omega
          omega
    · -- the transport blocks: the whole pipe has been taken
      cases he
      subst hn
      have hT : ¬ T (actIn h.A h.pin h.oD a) := by
        intro hT
        rw [(PT hT).1] at hok; cases hok
      obtain ⟨_, q1, q2, q3⟩ := PN hT
      have hA'' : (h.step a).1.A = w1.setCodec c' t' := by rw [hAE, hA']
      have hpin' : (h.step a).1.pin = [] := by
        rw [hpinE, pin_after h.A h.pin h.oD a (by rw [hA']; show t'.rd <:+ _; rw [hnil]; exact List.nil_suffix),
          hA']
        show dataOf t'.rd ++ _ = []
        rw [hnil, hdrop hf.1]; rfl
      have hnotT' : ¬ T (h.step a).1.A := by
        rw [hA'']
        intro hT'
        apply hT
        exact ⟨(PW.role ▸ hT'.1 : _), by have := hT'.2; rw [show (w1.setCodec c' t').c.state = w1.c.state from rfl, q3] at this; exact this⟩
      have hdNot : (h.step a).1.aD = false := by
        show (h.aD || (actW h.A h.pin h.oD a).2.isConnectionClosed) = false
        rw [hd, hout]; rfl
      refine ⟨n', ⟨hJ, Nat.le_refl _, ?_, ?_, fun hc => (R.cc hc).2.1, dropped_of h a⟩, ?_, ?_⟩
      · rw [hA'']
        show w1.queued.length + slotN w1 + n' ≤ _
        omega
      · intro _
        rw [hA'']
        exact ⟨hcs.outBuf.trans q1.1, q1.2⟩
      · intro hF
        rcases hF with hF | ⟨_, _, _, f4, _⟩
        · rw [hd] at hF; cases hF
        · right
          refine ⟨by rw [hA'']; exact q2, hpin', hnotT', f4, B', by rw [hA'']; exact hrepB, hshot⟩
      · intro _
        cases hoD : h.oD with
        | false =>
          left; right
          exact ⟨by rw [hA'']; exact q2, hpin', hnotT', hoD, B', by rw [hA'']; exact hrepB, hshot⟩
        | true =>
          right
          have hpne : h.pin ≠ [] := by
            intro hp
            rcases tfor_rdDef h.A h.pin h.oD a with hx | ⟨_, _, _, _⟩
            · have : (tfor h.A h.pin h.oD a).rdDef = .eof := by
                show (if h.oD ∧ h.pin.isEmpty then RdEv.eof else .err .wouldBlock) = _
                rw [hoD, hp]; rfl
              rw [this] at hx; cases hx
            · have hwb' : (tfor h.A h.pin h.oD a).rdDef = .err .wouldBlock := hwb
              have : (tfor h.A h.pin h.oD a).rdDef = .eof := by
                show (if h.oD ∧ h.pin.isEmpty then RdEv.eof else .err .wouldBlock) = _
                rw [hoD, hp]; rfl
              rw [this] at hwb'; cases hwb'
          rw [hrem]
          unfold bound
          rw [if_pos ⟨hoD, hpin'⟩, if_neg (fun hc => hpne hc.2)]
          omega
    · -- the transport ended: told closed
      subst hn
      have hcc' : (actW h.A h.pin h.oD a).2.isConnectionClosed = true := by
        rw [hout, hcc]; rfl
      have hda := aD_of_cc h a hcc'
      have hT : ¬ T (actIn h.A h.pin h.oD a) := by
        intro hT
        rw [(PT hT).1] at hok; cases hok
      refine ⟨n', ⟨hJ, Nat.le_refl _, ?_, (fun hx => by rw [hda] at hx; cases hx),
        fun hc => (R.cc hc).2.1, dropped_of h a⟩, fun _ => Or.inl hda, fun _ => Or.inl (Or.inl hda)⟩
      rw [hAE, hA', hq, slotN_eq hadd]
      omega

end WsProofs.Pair
