import WsProofs.Lemmas.PairLive1

/-! Two-party liveness, layer 2: the pair seen from one side (`HP`: the acting endpoint `A`, its
peer `O`, the inbound and the outbound pipe), the symmetric form `JH` of the joint invariant
(strengthened by "terminated iff the transport was dropped"), its preservation by every scheduled
action, and the two views of a `Pair`. -/
namespace WsProofs.Pair
open WsModel WsModel.Gen WsModel.Spec WsProofs WsProofs.Read WsProofs.Pipe WsProofs.Progress

/-! ### an endpoint terminates only by being told `ConnectionClosed` -/

theorem nonread_term (w : World) (op : Op) (hop : Op.noRaw op) (hnr : op ≠ .read)
    (ht : (w.step op).1.c.state = .terminated) :
    w.c.state = .terminated ∨ (w.step op).2.err? = some .connectionClosed := by
  by_cases hnt : w.c.state = .terminated
  · exact Or.inl hnt
  · right
    have key : ∀ (w0 w' : World) (r : Res Unit), FS w0 w' r → w0.c.state ≠ .terminated →
        w'.c.state = .terminated → (Out.unit r).err? = some .connectionClosed := by
      intro w0 w' r F h0 h1
      rcases F.state with h | ⟨_, h⟩
      · rw [h1] at h; exact absurd h.symm h0
      · rw [h]; rfl
    cases op with
    | read => exact absurd rfl hnr
    | flush => exact key w w.flush.1 w.flush.2 (flush_FSC hnt).toFS hnt ht
    | close c =>
      obtain ⟨w0, _, _, _, _, _, hnt0, _, F⟩ := close_FSC (w := w) c hnt
      exact key w0 (w.close c).1 (w.close c).2 F.toFS hnt0 ht
    | write m =>
      have ht' : (w.write m).1.c.state = .terminated := ht
      by_cases hs : w.c.state = .active
      · obtain ⟨e1, e2, e3⟩ := write_data_eq w hs
        have hd : ∀ f, w.write m = w.writeData f → False := by
          intro f he
          rw [he, (writeData_spec w f hs).state] at ht'
          cases ht'
        cases m with
        | text d => exact (hd _ (e1 d)).elim
        | binary d => exact (hd _ (e2 d)).elim
        | ping d => exact (hd _ (e3 d)).elim
        | frame f => exact absurd hop (by simp [Op.noRaw])
        | close c =>
          show (Out.unit (w.write (.close c)).2).err? = _
          rw [write_close_eq w c hs] at ht' ⊢
          obtain ⟨w0, _, _, _, _, _, hnt0, _, F⟩ := close_FSC (w := w) c hnt
          exact key w0 (w.close c).1 (w.close c).2 F.toFS hnt0 ht'
        | pong d =>
          exfalso
          rw [write_pong_eq w d hs, andThen_unit_fst] at ht'
          have T := (slotTail_FSC (w.setAdditional (Frame.pong d))).toFS
          have hs' : (w.setAdditional (Frame.pong d)).c.state = .active :=
            (setAdditional_fields w _).1.trans hs
          rw [(T.active hs').1] at ht'
          cases ht'
      · rw [(write_refused w m hs).1] at ht'
        exact absurd ht' hnt

theorem act_term {rA rO : Role} {A O : World} {Pin Pout : Bytes} {oD : Bool} {nIn nOut : Nat}
    (H : ActHyp rA rO A O Pin Pout oD nIn nOut) (a : Action) (hop : OpOk a.op)
    (ht : (actW A Pin oD a).1.c.state = .terminated) :
    A.c.state = .terminated ∨ (actW A Pin oD a).2.isConnectionClosed = true := by
  by_cases hnt : A.c.state = .terminated
  · exact Or.inl hnt
  · right
    rw [isCC_iff]
    by_cases hr : a.op = .read
    · have hact : actW A Pin oD a =
          ((actIn A Pin oD a).read.1, .msg (actIn A Pin oD a).read.2) := by
        unfold actW; rw [hr]; rfl
      rw [hact] at ht ⊢
      obtain ⟨n', _, _, _, _, _, _, RS⟩ := read_core H a hnt
      have PF := readPre_FS (w := actIn A Pin oD a) hnt
      unfold ReadSum at RS
      generalize (actIn A Pin oD a).read = res at RS ht ⊢
      obtain ⟨A', r⟩ := res
      dsimp only at RS ht ⊢
      rcases RS with ⟨e, he1, he2, _⟩ | ⟨_, _, m, _, _, _, _, hn, _⟩ |
        ⟨hok, _, _, c', t', B', he, _⟩ | ⟨_, _, _, hcc, _⟩
      · cases he2
        rw [he1] at PF
        rcases PF.state with h | ⟨_, h⟩
        · rw [ht] at h; exact absurd h.symm hnt
        · injection h with h; rw [h]; rfl
      · exact absurd ht hn
      · cases he
        rw [hok] at PF
        have : (actIn A Pin oD a).readPre.1.c.state = (actIn A Pin oD a).c.state := PF.state_of_ok
        have ht2 : (actIn A Pin oD a).readPre.1.c.state = .terminated := ht
        rw [this] at ht2
        exact absurd ht2 hnt
      · rw [hcc]; rfl
    · exact (nonread_term (actIn A Pin oD a) a.op hop.1 hr ht).resolve_left hnt

/-! ### the pair seen from one side -/

structure HP where
  A : World
  O : World
  pin : Bytes
  pout : Bytes
  aD : Bool
  oD : Bool

/-- one action of the side `A` -/
def HP.step (h : HP) (a : Action) : HP × Out :=
  ({ h with A := (actW h.A h.pin h.oD a).1,
            pin := h.pin.drop (actConsumed h.A h.pin h.oD a),
            pout := if h.oD then h.pout else h.pout ++ actSent h.A h.pin h.oD a,
            aD := h.aD || (actW h.A h.pin h.oD a).2.isConnectionClosed },
   (actW h.A h.pin h.oD a).2)

def HP.swap (h : HP) : HP := ⟨h.O, h.A, h.pout, h.pin, h.oD, h.aD⟩

/-- the joint invariant, symmetric form -/
structure JH (rA rO : Role) (h : HP) (nIn nOut : Nat) : Prop where
  roles : rA = peerOf rO
  wa : WI rA h.A
  wo : WI rO h.O
  din : h.A.c.state ≠ .terminated → Dir h.O h.A h.pin nIn
  dout : h.O.c.state ≠ .terminated → Dir h.A h.O h.pout nOut
  lin : nIn ≤ h.O.queued.length
  lout : nOut ≤ h.A.queued.length
  dropA : h.aD = true → h.A.c.state = .terminated ∧ (rA = .client → h.oD = true) ∧
    (rA = .server → h.A.c.codec.outBuf = [] ∧ ∃ f ∈ h.A.queued, f.isClose = true)
  dropO : h.oD = true → h.O.c.state = .terminated ∧ (rO = .client → h.aD = true) ∧
    (rO = .server → h.O.c.codec.outBuf = [] ∧ ∃ f ∈ h.O.queued, f.isClose = true)
  termA : h.A.c.state = .terminated → h.aD = true
  termO : h.O.c.state = .terminated → h.oD = true

theorem peer_swap {rA rO : Role} (h : rA = peerOf rO) : rO = peerOf rA := by
  cases rO <;> subst h <;> rfl

theorem JH.swap {rA rO : Role} {h : HP} {nIn nOut : Nat} (j : JH rA rO h nIn nOut) :
    JH rO rA h.swap nOut nIn :=
  ⟨peer_swap j.roles, j.wo, j.wa, j.dout, j.din, j.lout, j.lin, j.dropO, j.dropA, j.termO, j.termA⟩

theorem JH.hyp {rA rO : Role} {h : HP} {nIn nOut : Nat} (j : JH rA rO h nIn nOut) :
    ActHyp rA rO h.A h.O h.pin h.pout h.oD nIn nOut := by
  refine ⟨j.roles, j.wa, j.wo, j.din, j.dout, j.lin, j.lout, ?_, ?_⟩
  · intro hd hc
    have hro : rO = .server := by
      have := j.roles
      rw [hc] at this
      cases rO with
      | server => rfl
      | client => cases this
    exact (j.dropO hd).2.2 hro
  · intro hd hs
    have hro : rO = .client := by
      have := j.roles
      rw [hs] at this
      cases rO with
      | server => cases this
      | client => rfl
    exact (j.dropA ((j.dropO hd).2.1 hro)).1

/-- assembling the invariant after an action of `A`, from the facts about the action -/
theorem JH.after {rA rO : Role} {h : HP} {nIn nOut : Nat} (j : JH rA rO h nIn nOut) (a : Action)
    (hop : OpOk a.op) {nIn' : Nat} (R : ActRes rA rO h.A h.O h.pin h.pout h.oD nIn nOut a nIn') :
    JH rA rO (h.step a).1 nIn' nOut := by
  refine ⟨j.roles, R.wa, j.wo, R.din, ?_, R.lin, R.lout, ?_, ?_, ?_, j.termO⟩
  · intro hs
    have hnd : h.oD = false := by
      cases hd : h.oD with
      | false => rfl
      | true => exact absurd (j.dropO hd).1 hs
    show Dir _ _ (if h.oD = true then h.pout else h.pout ++ _) _
    rw [if_neg (by rw [hnd]; exact Bool.false_ne_true)]
    exact R.dout hs
  · intro hd
    have hd' : (h.aD || (actW h.A h.pin h.oD a).2.isConnectionClosed) = true := hd
    show (actW h.A h.pin h.oD a).1.c.state = .terminated ∧ _ ∧ _
    rcases Bool.or_eq_true_iff.mp hd' with h1 | h1
    · obtain ⟨h2, h3, h4⟩ := j.dropA h1
      obtain ⟨f1, f2⟩ := R.frozen h2
      refine ⟨by rw [f1]; exact h2, h3, fun hs => ?_⟩
      obtain ⟨h5, h6⟩ := h4 hs
      refine ⟨?_, ?_⟩
      · show (actW h.A h.pin h.oD a).1.c.codec.outBuf = []
        rw [f1]; exact h5
      · show ∃ f ∈ (actW h.A h.pin h.oD a).1.queued, f.isClose = true
        rw [f2]; exact h6
    · exact R.cc h1
  · intro hd
    obtain ⟨h1, h2, h3⟩ := j.dropO hd
    refine ⟨h1, fun hc => ?_, h3⟩
    show (h.aD || _) = true
    rw [h2 hc]; rfl
  · intro ht
    show (h.aD || _) = true
    rcases act_term j.hyp a hop ht with h1 | h1
    · rw [j.termA h1]; rfl
    · rw [h1]; exact Bool.or_true _

theorem JH.step {rA rO : Role} {h : HP} {nIn nOut : Nat} (j : JH rA rO h nIn nOut) (a : Action)
    (hb : a.Benign) (hop : OpOk a.op) : ∃ nIn', JH rA rO (h.step a).1 nIn' nOut := by
  obtain ⟨n', R⟩ := act_step j.hyp a hb hop
  exact ⟨n', j.after a hop R⟩

/-! ### the two views of a pair -/

def viewC (p : Pair) : HP := ⟨p.c, p.s, p.s2c, p.c2s, p.cDropped, p.sDropped⟩
def viewS (p : Pair) : HP := ⟨p.s, p.c, p.c2s, p.s2c, p.sDropped, p.cDropped⟩
def ofC (h : HP) : Pair :=
  { c := h.A, s := h.O, c2s := h.pout, s2c := h.pin, cDropped := h.aD, sDropped := h.oD }
def ofS (h : HP) : Pair :=
  { c := h.O, s := h.A, c2s := h.pin, s2c := h.pout, cDropped := h.oD, sDropped := h.aD }

theorem ofC_viewC (p : Pair) : ofC (viewC p) = p := rfl
theorem ofS_viewS (p : Pair) : ofS (viewS p) = p := rfl
theorem viewC_ofC (h : HP) : viewC (ofC h) = h := rfl
theorem viewS_ofS (h : HP) : viewS (ofS h) = h := rfl
theorem viewS_eq (p : Pair) : viewS p = (viewC p).swap := rfl
theorem viewC_ofS (h : HP) : viewC (ofS h) = h.swap := rfl

theorem step_viewC (p : Pair) (a : Action) (h : a.who = .c) :
    p.step a = (ofC ((viewC p).step a).1, ((viewC p).step a).2) := by
  rw [step_c p a h]; rfl

theorem step_viewS (p : Pair) (a : Action) (h : a.who = .s) :
    p.step a = (ofS ((viewS p).step a).1, ((viewS p).step a).2) := by
  rw [step_s p a h]; rfl

/-- the strengthened joint invariant of a pair -/
def JP (p : Pair) (nc ns : Nat) : Prop := JH .client .server (viewC p) nc ns

theorem JP.s {p : Pair} {nc ns : Nat} (j : JP p nc ns) : JH .server .client (viewS p) ns nc :=
  JH.swap j

theorem JP.of_s {p : Pair} {nc ns : Nat} (j : JH .server .client (viewS p) ns nc) : JP p nc ns :=
  JH.swap j

theorem JP.step {p : Pair} {nc ns : Nat} (j : JP p nc ns) (a : Action) (hb : a.Benign)
    (hop : OpOk a.op) : ∃ nc' ns', JP (p.step a).1 nc' ns' := by
  cases hw : a.who with
  | c =>
    obtain ⟨n', j'⟩ := JH.step j a hb hop
    exact ⟨n', ns, by rw [step_viewC p a hw]; exact j'⟩
  | s =>
    obtain ⟨n', j'⟩ := JH.step j.s a hb hop
    exact ⟨nc, n', by rw [step_viewS p a hw]; exact JP.of_s j'⟩

theorem JP.run : ∀ (as : List Action) (p : Pair) (nc ns : Nat), JP p nc ns →
    (∀ a ∈ as, a.Benign ∧ OpOk a.op) → ∃ nc' ns', JP (p.run as).1 nc' ns' := by
  intro as
  induction as with
  | nil => intro p nc ns j _; exact ⟨nc, ns, j⟩
  | cons a as ih =>
    intro p nc ns j hall
    obtain ⟨hb, hop⟩ := hall a (List.mem_cons_self ..)
    obtain ⟨nc1, ns1, j1⟩ := j.step a hb hop
    exact ih (p.step a).1 nc1 ns1 j1 (fun b hb' => hall b (List.mem_cons_of_mem _ hb'))

theorem Start.jp {p : Pair} (h : Start p) : JP p 0 0 := by
  have j := h.j
  obtain ⟨hc, hs, _, _, _, _, d1, d2⟩ := h.init
  obtain ⟨c1, _⟩ := init_fields hc
  obtain ⟨s1, _⟩ := init_fields hs
  refine ⟨rfl, j.wc, j.ws, j.dsc, j.dcs, j.lc, j.ls, ?_, ?_, ?_, ?_⟩
  · intro hd; exact absurd (d1 ▸ hd : false = true) Bool.false_ne_true
  · intro hd; exact absurd (d2 ▸ hd : false = true) Bool.false_ne_true
  · intro ht
    have : (viewC p).A.c.state = .active := c1
    rw [this] at ht; cases ht
  · intro ht
    have : (viewC p).O.c.state = .active := s1
    rw [this] at ht; cases ht

end WsProofs.Pair
