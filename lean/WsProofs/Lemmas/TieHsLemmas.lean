import WsModel.Generated.HsGen

/-! Rewriting rules for the monad `GenHs.M` of the machine translation of
`HandshakeMachine::single_round` (`WsModel/Generated/HsGen.lean`): `>>=` applied to a transport is
`hthen`, every leaf applied to a transport is a function of the pair the transport call returned. -/
namespace WsProofs.Tie
open WsModel WsModel.Gen WsModel.Hs WsModel.GenHs

/-- sequencing on the pair a call returned -/
def hthen {α β : Type} (x : Transport × HR α) (k : Transport → α → Transport × HR β) :
    Transport × HR β :=
  match x with
  | (t, .ok a) => k t a
  | (t, .err e) => (t, .err e)
  | (t, .panic p) => (t, .panic p)

@[simp] theorem hthen_ok {α β : Type} (t : Transport) (a : α) (k : Transport → α → Transport × HR β) :
    hthen (t, HR.ok a) k = k t a := rfl
@[simp] theorem hthen_err {α β : Type} (t : Transport) (e : HsErr)
    (k : Transport → α → Transport × HR β) :
    hthen ((t, HR.err e) : Transport × HR α) k = (t, HR.err e) := rfl
@[simp] theorem hthen_panic {α β : Type} (t : Transport) (p : HPanic)
    (k : Transport → α → Transport × HR β) :
    hthen ((t, HR.panic p) : Transport × HR α) k = (t, HR.panic p) := rfl

/-! ### the monad -/

theorem hs_bind_apply {α β : Type} (x : M α) (k : α → M β) (t : Transport) :
    (x >>= k) t = hthen (x t) (fun t a => k a t) := by
  show M.bind x k t = _
  unfold M.bind hthen
  rcases x t with ⟨t', r⟩
  cases r <;> rfl

theorem hs_pure_apply {α : Type} (a : α) (t : Transport) : (pure a : M α) t = (t, HR.ok a) := rfl

theorem hs_ite_apply {α : Type} (c : Prop) [Decidable c] (x y : M α) (t : Transport) :
    (if c then x else y) t = if c then x t else y t := by
  by_cases h : c <;> simp [h]

/-! ### leaves -/

theorem hs_throwE_apply {α : Type} (e : HsErr) (t : Transport) :
    (throwE e : M α) t = (t, HR.err e) := rfl
theorem hs_panicAt_apply {α : Type} (p : HPanic) (t : Transport) :
    (panicAt p : M α) t = (t, HR.panic p) := rfl
theorem hs_liftRes_apply {α : Type} (r : HR α) (t : Transport) : liftRes r t = (t, r) := rfl

/-- `read_from(..).no_block()` on the pair the transport returned -/
def readPairHs (buf : Bytes) : Transport × RdEv → Transport × HR (Bytes × Option Nat)
  | (t, .err .wouldBlock) => (t, .ok (buf, none))
  | (t, .err k) => (t, .err (.io k))
  | (t, .eof) => (t, .ok (buf, some 0))
  | (t, .data bs) => (t, .ok (buf ++ bs, some bs.length))

theorem hs_readFromNoBlock_apply (buf : Bytes) (t : Transport) :
    readFromNoBlock buf t = readPairHs buf t.read := by
  unfold readFromNoBlock readPairHs
  rcases t.read with ⟨t', r⟩
  cases r with
  | data bs => rfl
  | eof => rfl
  | err k => cases k <;> rfl

/-- `write(..).no_block()` on the pair the transport returned -/
def writePairHs : Transport × WrRes → Transport × HR (Option Nat)
  | (t, .err .wouldBlock) => (t, .ok none)
  | (t, .err k) => (t, .err (.io k))
  | (t, .ok n) => (t, .ok (some n))

theorem hs_streamWriteNoBlock_apply (buf : Bytes) (t : Transport) :
    streamWriteNoBlock buf t = writePairHs (t.write buf) := by
  unfold streamWriteNoBlock writePairHs
  rcases t.write buf with ⟨t', r⟩
  cases r with
  | ok n => rfl
  | err k => cases k <;> rfl

/-- `flush().no_block()` on the pair the transport returned -/
def flushPairHs : Transport × FlEv → Transport × HR (Option Unit)
  | (t, .ok) => (t, .ok (some ()))
  | (t, .err .wouldBlock) => (t, .ok none)
  | (t, .err k) => (t, .err (.io k))

theorem hs_streamFlushNoBlock_apply (t : Transport) :
    streamFlushNoBlock t = flushPairHs t.flush := by
  unfold streamFlushNoBlock flushPairHs
  rcases t.flush with ⟨t', r⟩
  cases r with
  | ok => rfl
  | err k => cases k <;> rfl

/-- normal form: every `>>=` / leaf applied to a transport becomes `hthen` / a pair -/
syntax "hs_norm" ("[" Lean.Parser.Tactic.simpLemma,* "]")? : tactic
macro_rules
  | `(tactic| hs_norm) => `(tactic| simp only [hs_bind_apply, hs_pure_apply, hs_ite_apply,
      hs_throwE_apply, hs_panicAt_apply, hs_liftRes_apply, hs_readFromNoBlock_apply,
      hs_streamWriteNoBlock_apply, hs_streamFlushNoBlock_apply, hthen_ok, hthen_err, hthen_panic])
  | `(tactic| hs_norm [$ls,*]) => `(tactic| simp only [hs_bind_apply, hs_pure_apply, hs_ite_apply,
      hs_throwE_apply, hs_panicAt_apply, hs_liftRes_apply, hs_readFromNoBlock_apply,
      hs_streamWriteNoBlock_apply, hs_streamFlushNoBlock_apply, hthen_ok, hthen_err, hthen_panic,
      $ls,*])

end WsProofs.Tie
