import WsProofs.Lemmas.ReadSpec

/-! Layer 2a: the outbound side. Over a transport that accepts everything, the automatic
replies queued while reading (pong, close reply) are always written out, and writing them does not
touch anything the reading side depends on. -/
namespace WsProofs.Read
open WsModel WsModel.Gen WsProofs.C18

/-- the transport fields that survive a write or a flush -/
structure TOut (t t' : Transport) : Prop where
  rd : t'.rd = t.rd
  rdDef : t'.rdDef = t.rdDef
  wr : t'.wr = t.wr
  fl : t'.fl = t.fl
  wrDef : t'.wrDef = t.wrDef
  flDef : t'.flDef = t.flDef

theorem TOut.refl (t : Transport) : TOut t t := ⟨rfl, rfl, rfl, rfl, rfl, rfl⟩
theorem TOut.trans {a b c : Transport} (h1 : TOut a b) (h2 : TOut b c) : TOut a c :=
  ⟨h2.rd.trans h1.rd, h2.rdDef.trans h1.rdDef, h2.wr.trans h1.wr, h2.fl.trans h1.fl,
    h2.wrDef.trans h1.wrDef, h2.flDef.trans h1.flDef⟩

theorem TOut.accepts {t t' : Transport} (h : TOut t t') (ha : t.acceptsAll) : t'.acceptsAll := by
  obtain ⟨h1, h2, h3, h4⟩ := ha
  exact ⟨h.wr.trans h1, h.fl.trans h2, h.wrDef.trans h3, h.flDef.trans h4⟩

theorem write_accepts {t : Transport} (ha : t.acceptsAll) (buf : Bytes) (hne : buf ≠ []) :
    ∃ t' n, t.write buf = (t', .ok n) ∧ 1 ≤ n ∧ TOut t t' := by
  obtain ⟨h1, h2, h3, h4⟩ := ha
  have hlen : 1 ≤ buf.length := by
    cases buf with
    | nil => exact absurd rfl hne
    | cons a r => simp
  unfold Transport.write
  rw [h1]
  dsimp only
  rw [h3]
  unfold Transport.writeEv
  dsimp only
  refine ⟨_, _, rfl, ?_, ⟨rfl, rfl, h1.symm, rfl, h3.symm, rfl⟩⟩
  have : 1 ≤ 2 ^ 64 := by decide
  omega

theorem writeLoop_spec : ∀ (fuel : Nat) (c : Codec) (t : Transport), t.acceptsAll →
    c.outBuf.length ≤ fuel →
    ∃ t', Codec.writeLoop fuel c t = ({ c with outBuf := [] }, t', .ok ()) ∧ TOut t t' := by
  intro fuel
  induction fuel with
  | zero =>
    intro c t _ hf
    have : c.outBuf = [] := List.length_eq_zero_iff.mp (by omega)
    refine ⟨t, ?_, TOut.refl _⟩
    unfold Codec.writeLoop
    rw [this]
    simp only [List.isEmpty_nil, if_true]
    congr 1
    cases c; simp only at this; subst this; rfl
  | succ fuel ih =>
    intro c t ha hf
    unfold Codec.writeLoop
    by_cases he : c.outBuf = []
    · refine ⟨t, ?_, TOut.refl _⟩
      rw [he]
      simp only [List.isEmpty_nil, if_true]
      congr 1
      cases c; simp only at he; subst he; rfl
    · have hemp : c.outBuf.isEmpty = false := by
        cases hb : c.outBuf with
        | nil => exact absurd hb he
        | cons a r => rfl
      rw [hemp]
      simp only [Bool.false_eq_true, if_false]
      obtain ⟨t1, n, hw, hn, hto⟩ := write_accepts ha c.outBuf he
      rw [hw]
      dsimp only
      rw [if_neg (by omega)]
      obtain ⟨t2, h2, hto2⟩ := ih { c with outBuf := c.outBuf.drop n } t1 (hto.accepts ha)
        (by simp only [List.length_drop]; omega)
      exact ⟨t2, h2, hto.trans hto2⟩

theorem writeOutBuffer_spec (c : Codec) (t : Transport) (ha : t.acceptsAll) :
    ∃ t', c.writeOutBuffer t = ({ c with outBuf := [] }, t', .ok ()) ∧ TOut t t' :=
  writeLoop_spec c.outBuf.length c t ha (Nat.le_refl _)

/-- a frame small enough for an automatic reply: a control payload, no mask key yet -/
def SmallFrame (f : Frame) : Prop := f.payload.length ≤ 125 ∧ f.header.mask = none

theorem small_len (f : Frame) (m : Option Mask) (h : f.payload.length ≤ 125) :
    ({ f with header := { f.header with mask := m } } : Frame).len ≤ 131 := by
  simp only [Frame.len, Header.len, headerLen, lfForLength_small (show f.payload.length < 126 by omega),
    lfExtraBytes]
  cases m.isSome <;> simp <;> omega

theorem codec_bufferFrame_spec (c : Codec) (t : Transport) (f : Frame) (ha : t.acceptsAll)
    (hout : c.outBuf = []) (hmax : 200 ≤ c.maxOut) (hlen : f.len ≤ 131) :
    ∃ ob t', c.bufferFrame t f = ({ c with outBuf := ob }, t', .ok ()) ∧ TOut t t' := by
  unfold Codec.bufferFrame
  rw [hout]
  rw [if_neg (by simp only [List.length_nil]; omega)]
  dsimp only
  by_cases h : (f.formatIntoBuf []).length > c.writeLen
  · rw [if_pos h]
    obtain ⟨t', h1, h2⟩ := writeOutBuffer_spec { c with outBuf := f.formatIntoBuf [] } t ha
    exact ⟨[], t', h1, h2⟩
  · rw [if_neg h]
    exact ⟨_, t, rfl, TOut.refl _⟩

/-! ## world level -/

/-- everything the reading side depends on is unchanged -/
structure InSame (w w' : World) : Prop where
  role : w'.c.role = w.c.role
  cfg : w'.c.cfg = w.c.cfg
  state : w'.c.state = w.c.state
  incomplete : w'.c.incomplete = w.c.incomplete
  inBuf : w'.c.codec.inBuf = w.c.codec.inBuf
  header : w'.c.codec.header = w.c.codec.header
  maxOut : w'.c.codec.maxOut = w.c.codec.maxOut
  writeLen : w'.c.codec.writeLen = w.c.codec.writeLen
  t : TOut w.t w'.t

theorem InSame.refl (w : World) : InSame w w :=
  ⟨rfl, rfl, rfl, rfl, rfl, rfl, rfl, rfl, TOut.refl _⟩

theorem InSame.trans {a b c : World} (h1 : InSame a b) (h2 : InSame b c) : InSame a c :=
  ⟨h2.role.trans h1.role, h2.cfg.trans h1.cfg, h2.state.trans h1.state,
    h2.incomplete.trans h1.incomplete, h2.inBuf.trans h1.inBuf, h2.header.trans h1.header,
    h2.maxOut.trans h1.maxOut, h2.writeLen.trans h1.writeLen, h1.t.trans h2.t⟩

theorem world_writeOutBuffer_spec (w : World) (ha : w.t.acceptsAll) :
    ∃ w', w.writeOutBuffer = (w', .ok ()) ∧ InSame w w' ∧ w'.c.codec.outBuf = [] ∧
      w'.c.additional = w.c.additional ∧ w'.c.unflushed = w.c.unflushed := by
  unfold World.writeOutBuffer
  obtain ⟨t', h1, h2⟩ := writeOutBuffer_spec w.c.codec w.t ha
  rw [h1]
  exact ⟨_, rfl, ⟨rfl, rfl, rfl, rfl, rfl, rfl, rfl, rfl, h2⟩, rfl, rfl, rfl⟩

theorem world_bufferFrame_spec (w : World) (f : Frame) (ha : w.t.acceptsAll)
    (hout : w.c.codec.outBuf = []) (hmax : 200 ≤ w.c.codec.maxOut) (hf : SmallFrame f) :
    ∃ w', w.bufferFrame f = (w', .ok ()) ∧ InSame w w' ∧
      w'.c.additional = w.c.additional ∧ w'.c.unflushed = w.c.unflushed := by
  unfold World.bufferFrame
  cases hrole : w.c.role with
  | server =>
    dsimp only
    have hl : f.len ≤ 131 := by
      have := small_len f f.header.mask hf.1
      exact this
    obtain ⟨ob, t', h1, h2⟩ := codec_bufferFrame_spec w.c.codec w.t f ha hout hmax hl
    rw [h1]
    dsimp only [Res.isWriteBufferFull]
    simp only [Bool.false_eq_true, if_false, World.checkConnectionReset]
    exact ⟨_, rfl, ⟨hrole.symm ▸ rfl, rfl, rfl, rfl, rfl, rfl, rfl, rfl, h2⟩, rfl, rfl⟩
  | client =>
    dsimp only
    have key : ∀ (w1 : World) (m : Mask), w.nextMask = (w1, m) →
        w1.c = w.c ∧ w1.t = w.t := by
      intro w1 m hm
      unfold World.nextMask at hm
      cases hmu : w.mu with
      | nil => rw [hmu] at hm; cases hm; exact ⟨rfl, rfl⟩
      | cons a r => rw [hmu] at hm; cases hm; exact ⟨rfl, rfl⟩
    cases hnm : w.nextMask with
    | mk w1 m =>
      obtain ⟨hc, ht⟩ := key w1 m hnm
      dsimp only
      have hl : ({ f with header := { f.header with mask := some m } } : Frame).len ≤ 131 :=
        small_len f (some m) hf.1
      obtain ⟨ob, t', h1, h2⟩ := codec_bufferFrame_spec w1.c.codec w1.t
        { f with header := { f.header with mask := some m } } (ht ▸ ha) (hc ▸ hout) (hc ▸ hmax) hl
      rw [h1]
      dsimp only [Res.isWriteBufferFull]
      simp only [Bool.false_eq_true, if_false, World.checkConnectionReset]
      refine ⟨_, rfl, ⟨?_, ?_, ?_, ?_, ?_, ?_, ?_, ?_, ?_⟩, ?_, ?_⟩
      all_goals (try simp only [World.setCodec, hc])
      · rw [← ht]; exact h2

theorem InSame.accepts {w w' : World} (h : InSame w w') (ha : w.t.acceptsAll) : w'.t.acceptsAll :=
  h.t.accepts ha

/-- the pending control frame is written (or there is none) -/
theorem writeSlot_spec (w : World) (ha : w.t.acceptsAll) (hout : w.c.codec.outBuf = [])
    (hmax : 200 ≤ w.c.codec.maxOut) (hadd : ∀ f, w.c.additional = some f → SmallFrame f) :
    ∃ w' b, w.writeSlot = (w', .ok b) ∧ InSame w w' ∧ w'.c.additional = none := by
  unfold World.writeSlot
  cases hadd' : w.c.additional with
  | none => exact ⟨w, _, rfl, InSame.refl _, hadd'⟩
  | some msg =>
    dsimp only
    obtain ⟨w1, h1, h2, h3, _⟩ := world_bufferFrame_spec (w.setAdditionalRaw none) msg ha hout hmax
      (hadd msg hadd')
    rw [h1]
    dsimp only
    refine ⟨_, _, rfl, ?_, ?_⟩
    · exact ⟨h2.role, h2.cfg, h2.state, h2.incomplete, h2.inBuf, h2.header, h2.maxOut,
        h2.writeLen, h2.t⟩
    · exact h3

theorem streamFlush_spec (w : World) (ha : w.t.acceptsAll) :
    ∃ w', w.streamFlush = (w', .ok ()) ∧ InSame w w' ∧ w'.c.additional = w.c.additional ∧
      w'.c.codec.outBuf = w.c.codec.outBuf := by
  obtain ⟨h1, h2, h3, h4⟩ := ha
  unfold World.streamFlush Transport.flush
  rw [h2]
  dsimp only
  rw [h4]
  unfold Transport.flushEv
  dsimp only
  exact ⟨_, rfl, ⟨rfl, rfl, rfl, rfl, rfl, rfl, rfl, rfl, ⟨rfl, rfl, rfl, h2.symm, rfl, h4.symm⟩⟩,
    rfl, rfl⟩

/-- `flush` while the connection may still be read (or on a client): everything pending goes out -/
theorem flush_ok (w : World) (ha : w.t.acceptsAll) (hout : w.c.codec.outBuf = [])
    (hmax : 200 ≤ w.c.codec.maxOut) (hadd : ∀ f, w.c.additional = some f → SmallFrame f)
    (hnt : w.c.state.notTerminated = true) (hA : w.c.role = .client ∨ w.c.state.canRead = true) :
    ∃ w', w.flush = (w', .ok ()) ∧ InSame w w' ∧ w'.c.additional = none ∧
      w'.c.unflushed = false ∧ w'.c.codec.outBuf = [] := by
  unfold World.flush
  rw [hnt]
  simp only [Bool.not_true, Bool.false_eq_true, if_false]
  unfold World.writeInternal
  dsimp only [andThen]
  obtain ⟨w1, b, h1, hs1, ha1⟩ := writeSlot_spec w ha hout hmax hadd
  rw [h1]
  dsimp only
  have htail : w1.writeTail b = (w1, .ok b) := by
    unfold World.writeTail
    rw [if_neg]
    intro ⟨hr, hc, _⟩
    rw [hs1.role] at hr
    rw [hs1.state] at hc
    rcases hA with hA | hA
    · rw [hA] at hr; cases hr
    · rw [hA] at hc; cases hc
  rw [htail]
  dsimp only
  obtain ⟨w2, h2, hs2, hob2, hadd2, _⟩ := world_writeOutBuffer_spec w1 (hs1.accepts ha)
  rw [h2]
  dsimp only
  have hretry : w2.flushRetry = (w2, .ok ()) := by
    unfold World.flushRetry
    rw [hadd2, ha1]
    rfl
  rw [hretry]
  dsimp only
  obtain ⟨w3, h3, hs3, hadd3, hob3⟩ := streamFlush_spec w2 (hs2.accepts (hs1.accepts ha))
  rw [h3]
  dsimp only
  refine ⟨_, rfl, ?_, ?_, rfl, ?_⟩
  · have := (hs1.trans hs2).trans hs3
    exact ⟨this.role, this.cfg, this.state, this.incomplete, this.inBuf, this.header,
      this.maxOut, this.writeLen, this.t⟩
  · show w3.c.additional = none
    rw [hadd3, hadd2, ha1]
  · show w3.c.codec.outBuf = []
    rw [hob3, hob2]

/-- `flush` on a server once the peer's Close has been received: the connection is ended -/
theorem flush_closed (w : World) (ha : w.t.acceptsAll) (hout : w.c.codec.outBuf = [])
    (hmax : 200 ≤ w.c.codec.maxOut) (hadd : ∀ f, w.c.additional = some f → SmallFrame f)
    (hnt : w.c.state.notTerminated = true) (hrole : w.c.role = .server)
    (hcr : w.c.state.canRead = false) :
    ∃ w', w.flush = (w', .err .connectionClosed) := by
  unfold World.flush
  rw [hnt]
  simp only [Bool.not_true, Bool.false_eq_true, if_false]
  unfold World.writeInternal
  dsimp only [andThen]
  obtain ⟨w1, b, h1, hs1, ha1⟩ := writeSlot_spec w ha hout hmax hadd
  rw [h1]
  dsimp only
  obtain ⟨w2, h2, _⟩ := world_writeOutBuffer_spec w1 (hs1.accepts ha)
  have htail : w1.writeTail b = (w2.setState .terminated, .err .connectionClosed) := by
    unfold World.writeTail
    rw [if_pos]
    · rw [h2]; rfl
    · refine ⟨hs1.role.trans hrole, ?_, ?_⟩
      · rw [hs1.state, hcr]; rfl
      · rw [ha1]; rfl
  rw [htail]
  exact ⟨_, rfl⟩

/-- top of the `read` loop while reading goes on -/
theorem readPre_ok (w : World) (ha : w.t.acceptsAll) (hout : w.c.codec.outBuf = [])
    (hmax : 200 ≤ w.c.codec.maxOut) (hadd : ∀ f, w.c.additional = some f → SmallFrame f)
    (hnt : w.c.state.notTerminated = true) (hA : w.c.role = .client ∨ w.c.state.canRead = true) :
    ∃ w', w.readPre = (w', .ok ()) ∧ InSame w w' ∧ w'.c.additional = none ∧
      w'.c.codec.outBuf = [] := by
  unfold World.readPre
  by_cases h : w.c.additional.isSome = true ∨ w.c.unflushed = true
  · rw [if_pos h]
    obtain ⟨w', h1, h2, h3, _, h5⟩ := flush_ok w ha hout hmax hadd hnt hA
    rw [h1]
    exact ⟨w', rfl, h2, h3, h5⟩
  · rw [if_neg h]
    rw [if_neg]
    · refine ⟨w, rfl, InSame.refl _, ?_, hout⟩
      cases hadd' : w.c.additional with
      | none => rfl
      | some f => rw [hadd'] at h; exact absurd (Or.inl rfl) h
    · intro ⟨hr, hc⟩
      rcases hA with hA | hA
      · rw [hA] at hr; cases hr
      · rw [hA] at hc; cases hc

/-- top of the `read` loop on a server after the peer's Close -/
theorem readPre_closed (w : World) (ha : w.t.acceptsAll) (hout : w.c.codec.outBuf = [])
    (hmax : 200 ≤ w.c.codec.maxOut) (hadd : ∀ f, w.c.additional = some f → SmallFrame f)
    (hnt : w.c.state.notTerminated = true) (hrole : w.c.role = .server)
    (hcr : w.c.state.canRead = false) :
    ∃ w', w.readPre = (w', .err .connectionClosed) := by
  unfold World.readPre
  by_cases h : w.c.additional.isSome = true ∨ w.c.unflushed = true
  · rw [if_pos h]
    obtain ⟨w', h1⟩ := flush_closed w ha hout hmax hadd hnt hrole hcr
    rw [h1]
    exact ⟨w', rfl⟩
  · rw [if_neg h, if_pos ⟨hrole, by rw [hcr]; rfl⟩]
    exact ⟨_, rfl⟩

end WsProofs.Read
