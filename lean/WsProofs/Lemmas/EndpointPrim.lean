import WsProofs.Lemmas.EndpointBasic

/-! Specifications of the four `World`-level primitives that touch the codec or the transport:
`bufferFrame`, `writeOutBuffer`, `streamFlush`, and the frame-reading step of `readMessageFrame`.
Everything above them is composed from these and field setters. -/
namespace WsProofs
open WsModel WsModel.Gen

/-- same opcode, payload and FIN; the mask may differ -/
def SameKind (f f' : Frame) : Prop :=
  f'.payload = f.payload ∧ f'.header.opcode = f.header.opcode ∧ f'.header.fin = f.header.fin

theorem SameKind.isClose {f f' : Frame} (h : SameKind f f') : f'.isClose = f.isClose := by
  unfold Frame.isClose; rw [h.2.1]

theorem SameKind.isPong {f f' : Frame} (h : SameKind f f') : f'.isPong = f.isPong := by
  unfold Frame.isPong; rw [h.2.1]

/-! ### `checkConnectionReset` -/

/-- for every result other than `Err(ConnectionClosed)` (in particular for everything the codec
returns, `codec_bufferFrame_ne_cc` / `codec_readFrame_ne_cc`) -/
theorem checkConnectionReset_cases {α : Type} (w : World) (r : Res α)
    (hne : r ≠ .err .connectionClosed) :
    (w.checkConnectionReset r = (w, r) ∧ ¬ (r = .err (.io .reset) ∧ w.c.state.canRead = false)) ∨
    (w.checkConnectionReset r = (w.setState .terminated, .err .connectionClosed) ∧
      r = .err (.io .reset) ∧ w.c.state.canRead = false) := by
  rw [ccrOld_eq w r hne]
  unfold ccrOld
  cases r with
  | ok a => exact Or.inl ⟨rfl, by simp⟩
  | panic s => exact Or.inl ⟨rfl, by simp⟩
  | err e =>
    cases e with
    | io k =>
      cases k with
      | reset =>
        by_cases hcr : w.c.state.canRead = true
        · exact Or.inl ⟨by simp [hcr], by simp [hcr]⟩
        · have hcr' : w.c.state.canRead = false := by simpa using hcr
          exact Or.inr ⟨by simp [hcr'], rfl, hcr'⟩
      | wouldBlock => exact Or.inl ⟨rfl, by simp⟩
      | intr => exact Or.inl ⟨rfl, by simp⟩
      | other => exact Or.inl ⟨rfl, by simp⟩
    | connectionClosed => exact Or.inl ⟨rfl, by simp⟩
    | alreadyClosed => exact Or.inl ⟨rfl, by simp⟩
    | capacity a b => exact Or.inl ⟨rfl, by simp⟩
    | protocol p => exact Or.inl ⟨rfl, by simp⟩
    | writeBufferFull f => exact Or.inl ⟨rfl, by simp⟩
    | utf8 => exact Or.inl ⟨rfl, by simp⟩

/-- the transport is never touched -/
theorem checkConnectionReset_t {α : Type} (w : World) (r : Res α) :
    (w.checkConnectionReset r).1.t = w.t := by
  by_cases hne : r = .err .connectionClosed
  · subst hne; rfl
  · rcases checkConnectionReset_cases w r hne with ⟨h, _⟩ | ⟨h, _⟩ <;> rw [h] <;> rfl

/-! ### `bufferFrame` -/

/-- the client's masking step of `buffer_frame` -/
def maskStep (w : World) (f : Frame) : World × Frame :=
  match w.c.role with
  | .server => (w, f)
  | .client =>
    ((w.nextMask).1, { f with header := { f.header with mask := some (w.nextMask).2 } })

theorem nextMask_spec (w : World) :
    (w.nextMask).1.c = w.c ∧ (w.nextMask).1.t = w.t ∧ (w.nextMask).1.queued = w.queued := by
  unfold World.nextMask
  cases w.mu <;> exact ⟨rfl, rfl, rfl⟩

theorem maskStep_spec (w : World) (f : Frame) :
    (maskStep w f).1.c = w.c ∧ (maskStep w f).1.t = w.t ∧ (maskStep w f).1.queued = w.queued ∧
    SameKind f (maskStep w f).2 := by
  unfold maskStep
  cases w.c.role with
  | server => exact ⟨rfl, rfl, rfl, rfl, rfl, rfl⟩
  | client =>
    obtain ⟨h1, h2, h3⟩ := nextMask_spec w
    exact ⟨h1, h2, h3, rfl, rfl, rfl⟩

theorem bufferFrame_eq (w : World) (f : Frame) :
    w.bufferFrame f =
      (((if ((maskStep w f).1.c.codec.bufferFrame (maskStep w f).1.t (maskStep w f).2).2.2.isWriteBufferFull
         then (maskStep w f).1.setCodec
            ((maskStep w f).1.c.codec.bufferFrame (maskStep w f).1.t (maskStep w f).2).1
            ((maskStep w f).1.c.codec.bufferFrame (maskStep w f).1.t (maskStep w f).2).2.1
         else { (maskStep w f).1.setCodec
            ((maskStep w f).1.c.codec.bufferFrame (maskStep w f).1.t (maskStep w f).2).1
            ((maskStep w f).1.c.codec.bufferFrame (maskStep w f).1.t (maskStep w f).2).2.1 with
            queued := (maskStep w f).1.queued ++ [(maskStep w f).2] }) : World).checkConnectionReset
        ((maskStep w f).1.c.codec.bufferFrame (maskStep w f).1.t (maskStep w f).2).2.2) := by
  unfold World.bufferFrame maskStep
  cases w.c.role <;> rfl

/-- `World.bufferFrame`: what can change, and the two outcomes (handed back / queued) -/
structure BFSpec (w : World) (f : Frame) (w' : World) (r : Res Unit) : Prop where
  role : w'.c.role = w.c.role
  cfg : w'.c.cfg = w.c.cfg
  additional : w'.c.additional = w.c.additional
  unflushed : w'.c.unflushed = w.c.unflushed
  incomplete : w'.c.incomplete = w.c.incomplete
  maxOut : w'.c.codec.maxOut = w.c.codec.maxOut
  writeLen : w'.c.codec.writeLen = w.c.codec.writeLen
  log : LogExt w.t.log w'.t.log
  state : w'.c.state = w.c.state ∨ (w'.c.state = .terminated ∧ r = .err .connectionClosed)
  cc : r = .err .connectionClosed →
    w'.c.state = .terminated ∧ w.c.state.canRead = false ∧ LogEnded w.t.log w'.t.log
  kind : r = .ok () ∨ (∃ k, r = .err (.io k)) ∨ r = .err .connectionClosed ∨
    (∃ g, r = .err (.writeBufferFull g))
  queue : ∃ f', SameKind f f' ∧
    ((r = .err (.writeBufferFull f') ∧ w'.queued = w.queued ∧
        w'.c.codec.outBuf = w.c.codec.outBuf ∧ w'.t.accepted = w.t.accepted ∧
        w'.c.state = w.c.state) ∨
     ((∀ g, r ≠ .err (.writeBufferFull g)) ∧ w'.queued = w.queued ++ [f'] ∧
        w'.t.accepted ++ w'.c.codec.outBuf = w.t.accepted ++ w.c.codec.outBuf ++ f'.format ∧
        w'.c.codec.outBuf.length ≤ w.c.codec.maxOut))

theorem World.bufferFrame_spec (w : World) (f : Frame) :
    BFSpec w f (w.bufferFrame f).1 (w.bufferFrame f).2 := by
  rw [bufferFrame_eq]
  obtain ⟨hpc, hpt, hpq, hsk⟩ := maskStep_spec w f
  generalize maskStep w f = p at *
  obtain ⟨w0, f'⟩ := p
  simp only [] at hpc hpt hpq hsk ⊢
  have hcb := Codec.bufferFrame_spec w0.c.codec w0.t f'
  generalize w0.c.codec.bufferFrame w0.t f' = q at *
  obtain ⟨c1, t1, r⟩ := q
  simp only [] at hcb ⊢
  rw [hpc, hpt] at hcb
  rcases hcb.cases with ⟨hr, hc, ht⟩ | ⟨hk, hfifo, hbound⟩
  · -- handed back
    subst hr
    simp only [Res.isWriteBufferFull, if_true]
    rcases checkConnectionReset_cases (w0.setCodec c1 t1) (.err (.writeBufferFull f') : Res Unit)
        (by intro h; cases h)
      with ⟨he, _⟩ | ⟨_, h, _⟩
    · rw [he]
      simp only [World.setCodec, hpc, hpq, hc, ht]
      exact ⟨rfl, rfl, rfl, rfl, rfl, rfl, rfl, LogExt.refl _, Or.inl rfl, by simp,
        Or.inr (Or.inr (Or.inr ⟨_, rfl⟩)), f', hsk, Or.inl ⟨rfl, rfl, rfl, rfl, rfl⟩⟩
    · cases h
  · -- queued
    have hnw : r.isWriteBufferFull = false := by
      rcases hk with rfl | ⟨k, rfl⟩ <;> rfl
    have hnw' : ∀ g, r ≠ .err (.writeBufferFull g) := by
      intro g hg; rw [hg] at hnw; cases hnw
    simp only [hnw, Bool.false_eq_true, if_false]
    rcases checkConnectionReset_cases
        ({ w0.setCodec c1 t1 with queued := w0.queued ++ [f'] } : World) r
        (by rcases hk with rfl | ⟨k, rfl⟩ <;> (intro h; cases h))
      with ⟨he, _⟩ | ⟨he, hr, hcr⟩
    · rw [he]
      simp only [World.setCodec, hpc, hpq]
      refine ⟨rfl, rfl, rfl, rfl, rfl, hcb.maxOut, hcb.writeLen, hcb.log, Or.inl rfl, ?_, ?_,
        f', hsk, Or.inr ⟨hnw', rfl, hfifo, hbound⟩⟩
      · intro h; rcases hk with rfl | ⟨k, rfl⟩ <;> cases h
      · rcases hk with rfl | ⟨k, rfl⟩
        · exact Or.inl rfl
        · exact Or.inr (Or.inl ⟨k, rfl⟩)
    · rw [he]
      simp only [World.setCodec, World.setState, hpc, hpq] at hcr ⊢
      refine ⟨rfl, rfl, rfl, rfl, rfl, hcb.maxOut, hcb.writeLen, hcb.log, Or.inr ⟨rfl, rfl⟩,
        fun _ => ⟨rfl, hcr, hcb.ended hr⟩, Or.inr (Or.inr (Or.inl rfl)),
        f', hsk, Or.inr ⟨by simp, rfl, hfifo, hbound⟩⟩

/-! ### `writeOutBuffer`, `streamFlush` -/

structure WOSpec (w w' : World) (r : Res Unit) : Prop where
  role : w'.c.role = w.c.role
  cfg : w'.c.cfg = w.c.cfg
  state : w'.c.state = w.c.state
  additional : w'.c.additional = w.c.additional
  unflushed : w'.c.unflushed = w.c.unflushed
  incomplete : w'.c.incomplete = w.c.incomplete
  queued : w'.queued = w.queued
  codec : WLSpec w.c.codec w.t w'.c.codec w'.t r

theorem World.writeOutBuffer_spec (w : World) :
    WOSpec w w.writeOutBuffer.1 w.writeOutBuffer.2 := by
  unfold World.writeOutBuffer
  have h := Codec.writeOutBuffer_spec w.c.codec w.t
  generalize w.c.codec.writeOutBuffer w.t = q at *
  obtain ⟨c1, t1, r⟩ := q
  exact ⟨rfl, rfl, rfl, rfl, rfl, rfl, rfl, h⟩

structure SFSpec (w w' : World) (r : Res Unit) : Prop where
  c : w'.c = w.c
  queued : w'.queued = w.queued
  accepted : w'.t.accepted = w.t.accepted
  log : LogExt w.t.log w'.t.log
  kind : r = .ok () ∨ ∃ k, r = .err (.io k)
  flushed : r = .ok () → w'.t.flushedUpTo = w'.t.accepted.length

theorem World.streamFlush_spec (w : World) : SFSpec w w.streamFlush.1 w.streamFlush.2 := by
  unfold World.streamFlush
  obtain ⟨hlog, hacc, hfl⟩ := Transport.flush_spec w.t
  generalize w.t.flush = q at *
  obtain ⟨t1, e⟩ := q
  simp only [] at hlog hacc hfl
  cases e with
  | ok => exact ⟨rfl, rfl, hacc, ⟨[_], hlog⟩, Or.inl rfl, fun _ => by simp [hfl, hacc]⟩
  | err k => exact ⟨rfl, rfl, hacc, ⟨[_], hlog⟩, Or.inr ⟨k, rfl⟩, by simp⟩

/-! ### the frame-reading step of `readMessageFrame` -/

def readRaw (w : World) : World × Res (Option Frame) :=
  (w.setCodec
      (w.c.codec.readFrame w.t w.c.cfg.maxFrame (w.c.role == .server) w.c.cfg.acceptUnmasked).1
      (w.c.codec.readFrame w.t w.c.cfg.maxFrame (w.c.role == .server) w.c.cfg.acceptUnmasked).2.1
    ).checkConnectionReset
      (w.c.codec.readFrame w.t w.c.cfg.maxFrame (w.c.role == .server) w.c.cfg.acceptUnmasked).2.2

theorem readMessageFrame_eq (w : World) :
    w.readMessageFrame = andThen (readRaw w) fun w of =>
      match of with
      | some frame => w.onFrame frame
      | none => w.onEof := rfl

structure RRSpec (w w' : World) (r : Res (Option Frame)) : Prop where
  role : w'.c.role = w.c.role
  cfg : w'.c.cfg = w.c.cfg
  additional : w'.c.additional = w.c.additional
  unflushed : w'.c.unflushed = w.c.unflushed
  incomplete : w'.c.incomplete = w.c.incomplete
  queued : w'.queued = w.queued
  same : RSame w.c.codec w'.c.codec
  accepted : w'.t.accepted = w.t.accepted
  log : LogExt w.t.log w'.t.log
  state : w'.c.state = w.c.state ∨ (w'.c.state = .terminated ∧ r = .err .connectionClosed)
  cc : r = .err .connectionClosed →
    w'.c.state = .terminated ∧ w.c.state.canRead = false ∧ LogEnded w.t.log w'.t.log
  eof : r = .ok none → LogEnded w.t.log w'.t.log

theorem readRaw_spec (w : World) : RRSpec w (readRaw w).1 (readRaw w).2 := by
  unfold readRaw
  have h := Codec.readFrame_spec w.c.codec w.t w.c.cfg.maxFrame (w.c.role == .server)
    w.c.cfg.acceptUnmasked
  generalize w.c.codec.readFrame w.t w.c.cfg.maxFrame (w.c.role == .server)
    w.c.cfg.acceptUnmasked = q at *
  obtain ⟨c1, t1, r⟩ := q
  simp only [] at h ⊢
  rcases checkConnectionReset_cases (w.setCodec c1 t1) r h.notClosed with ⟨he, _⟩ | ⟨he, hr, hcr⟩
  · rw [he]
    exact ⟨rfl, rfl, rfl, rfl, rfl, rfl, h.same, h.accepted, h.log, Or.inl rfl,
      fun hc => absurd hc h.notClosed, fun hn => h.ended (Or.inr hn)⟩
  · rw [he]
    exact ⟨rfl, rfl, rfl, rfl, rfl, rfl, h.same, h.accepted, h.log, Or.inr ⟨rfl, rfl⟩,
      fun _ => ⟨rfl, hcr, h.ended (Or.inl hr)⟩, by simp⟩

end WsProofs
