import WsModel.TwoParty
import WsProofs.Lemmas.GlobalRead

/-! Two-party proofs, layer 0: every model function changes the transport only through the three
transport calls (`TReach`). From that one structural fact follow: the accepted bytes only grow
(`TReach.accepted`), and over a transport that only segments and delays (`GoodT`) the only call
that can tell the endpoint "the transport is gone" is a read that meets EOF (`TReach.noEnd`). -/
namespace WsProofs.Pair
open WsModel WsModel.Gen WsProofs

/-- `t'` is `t` after some transport calls -/
inductive TReach : Transport → Transport → Prop
  | refl (t : Transport) : TReach t t
  | read {t t1 : Transport} : TReach t t1 → TReach t (t1.read).1
  | write {t t1 : Transport} (buf : Bytes) : TReach t t1 → TReach t (t1.write buf).1
  | flush {t t1 : Transport} : TReach t t1 → TReach t (t1.flush).1

theorem TReach.trans {a b c : Transport} (h1 : TReach a b) (h2 : TReach b c) : TReach a c := by
  induction h2 with
  | refl => exact h1
  | read _ ih => exact .read ih
  | write buf _ ih => exact .write buf ih
  | flush _ ih => exact .flush ih

theorem TReach.of_eq {a b : Transport} (h : b = a) : TReach a b := h ▸ TReach.refl a

/-! ### codec -/

theorem Codec.writeLoop_tr (fuel : Nat) (c : Codec) (t : Transport) :
    TReach t (Codec.writeLoop fuel c t).2.1 := by
  induction fuel generalizing c t with
  | zero =>
    simp only [Codec.writeLoop]
    by_cases hE : c.outBuf.isEmpty = true
    · rw [if_pos hE]; exact .refl _
    · rw [if_neg hE]; exact .refl _
  | succ fuel ih =>
    simp only [Codec.writeLoop]
    by_cases hE : c.outBuf.isEmpty = true
    · rw [if_pos hE]; exact .refl _
    · rw [if_neg hE]
      have hw : TReach t (t.write c.outBuf).1 := .write _ (.refl _)
      generalize t.write c.outBuf = x at *
      obtain ⟨t1, r⟩ := x
      cases r with
      | err k => exact hw
      | ok n =>
        simp only []
        by_cases hn : n = 0
        · rw [if_pos hn]; exact hw
        · rw [if_neg hn]; exact hw.trans (ih _ t1)

theorem Codec.bufferFrame_tr (c : Codec) (t : Transport) (f : Frame) :
    TReach t (c.bufferFrame t f).2.1 := by
  unfold Codec.bufferFrame
  by_cases hfull : f.len + c.outBuf.length > c.maxOut
  · rw [if_pos hfull]; exact .refl _
  · rw [if_neg hfull]
    simp only []
    by_cases hw : (f.formatIntoBuf c.outBuf).length > c.writeLen
    · rw [if_pos hw]; exact Codec.writeLoop_tr _ _ _
    · rw [if_neg hw]; exact .refl _

theorem Codec.readLoop_tr (maxSize fuel : Nat) (c : Codec) (t : Transport) :
    TReach t (Codec.readLoop maxSize fuel c t).2.1 := by
  induction fuel generalizing c t with
  | zero => simp only [Codec.readLoop]; exact .refl _
  | succ fuel ih =>
    simp only [Codec.readLoop]
    cases hh : c.ensureHeader with
    | mk c1 r1 =>
      cases r1 with
      | err e => exact .refl _
      | panic s => exact .refl _
      | ok u =>
        cases u
        simp only []
        cases hsp : c1.trySplit maxSize with
        | frame c2 p => exact .refl _
        | tooLong size max => exact .refl _
        | more n =>
          simp only []
          have hr : TReach t (t.read).1 := .read (.refl _)
          generalize t.read = x at *
          obtain ⟨t1, ev⟩ := x
          cases ev with
          | data bs =>
            simp only []
            by_cases hbs : bs.isEmpty = true
            · rw [if_pos hbs]; exact hr
            · rw [if_neg hbs]; exact hr.trans (ih _ t1)
          | eof => exact hr
          | err k => exact hr

theorem Codec.readFrame_tr (c : Codec) (t : Transport) (maxSize : Option Nat) (u a : Bool) :
    TReach t (c.readFrame t maxSize u a).2.1 := by
  unfold Codec.readFrame
  have h := Codec.readLoop_tr (maxSize.getD usizeMax) (t.rd.length + 1) c t
  generalize Codec.readLoop (maxSize.getD usizeMax) (t.rd.length + 1) c t = q at *
  obtain ⟨c1, t1, r⟩ := q
  cases r with
  | err e => exact h
  | panic s => exact h
  | ok o =>
    cases o with
    | none => exact h
    | some p => exact h

/-! ### world level -/

theorem andThen_tr {α β : Type} {t0 : Transport} (x : World × Res α) (k : World → α → World × Res β)
    (hx : TReach t0 x.1.t) (hk : ∀ w a, TReach w.t (k w a).1.t) : TReach t0 (andThen x k).1.t := by
  rcases x with ⟨w, a | e | s⟩
  · exact hx.trans (hk w a)
  · exact hx
  · exact hx

theorem ccr_t {α : Type} (w : World) (r : Res α) : (w.checkConnectionReset r).1.t = w.t :=
  checkConnectionReset_t w r

theorem bufferFrame_tr (w : World) (f : Frame) : TReach w.t (w.bufferFrame f).1.t := by
  rw [bufferFrame_eq, ccr_t]
  obtain ⟨_, hpt, _, _⟩ := maskStep_spec w f
  generalize maskStep w f = p at *
  obtain ⟨w0, f'⟩ := p
  simp only [] at hpt ⊢
  have h := Codec.bufferFrame_tr w0.c.codec w0.t f'
  generalize w0.c.codec.bufferFrame w0.t f' = q at *
  obtain ⟨c1, t1, r⟩ := q
  simp only [] at h ⊢
  rw [← hpt]
  by_cases hb : r.isWriteBufferFull = true
  · rw [if_pos hb]; exact h
  · rw [if_neg hb]; exact h

theorem writeOutBuffer_tr (w : World) : TReach w.t w.writeOutBuffer.1.t := by
  unfold World.writeOutBuffer Codec.writeOutBuffer
  have h := Codec.writeLoop_tr w.c.codec.outBuf.length w.c.codec w.t
  generalize Codec.writeLoop w.c.codec.outBuf.length w.c.codec w.t = q at *
  obtain ⟨c1, t1, r⟩ := q
  exact h

theorem streamFlush_tr (w : World) : TReach w.t w.streamFlush.1.t := by
  unfold World.streamFlush
  have h : TReach w.t (w.t.flush).1 := .flush (.refl _)
  generalize w.t.flush = q at *
  obtain ⟨t1, e⟩ := q
  cases e <;> exact h

theorem setAdditional_t (w : World) (f : Frame) : (w.setAdditional f).t = w.t :=
  (setAdditional_fields w f).2.2.1

theorem writeSlot_tr (w : World) : TReach w.t w.writeSlot.1.t := by
  unfold World.writeSlot
  cases ha : w.c.additional with
  | none => exact .refl _
  | some msg =>
    simp only []
    have h : TReach w.t ((w.setAdditionalRaw none).bufferFrame msg).1.t :=
      bufferFrame_tr (w.setAdditionalRaw none) msg
    generalize (w.setAdditionalRaw none).bufferFrame msg = x at *
    obtain ⟨w1, r⟩ := x
    simp only [] at h
    cases r with
    | ok u => cases u; exact h
    | panic s => exact h
    | err e =>
      cases e with
      | writeBufferFull g => simp only []; rw [setAdditional_t]; exact h
      | connectionClosed => exact h
      | alreadyClosed => exact h
      | io k => exact h
      | capacity a b => exact h
      | protocol q => exact h
      | utf8 => exact h

theorem writeTail_tr (w : World) (sf : Bool) : TReach w.t (w.writeTail sf).1.t := by
  unfold World.writeTail
  by_cases hc : w.c.role = .server ∧ (!w.c.state.canRead) = true ∧ w.c.additional.isNone = true
  · rw [if_pos hc]
    exact andThen_tr _ _ (writeOutBuffer_tr w) (fun w1 _ => .refl _)
  · rw [if_neg hc]; exact .refl _

theorem slotTail_tr (w : World) : TReach w.t (slotTail w).1.t := by
  unfold slotTail
  exact andThen_tr _ _ (writeSlot_tr w) (fun w1 sf => writeTail_tr w1 sf)

theorem flushRetry_tr (w : World) : TReach w.t w.flushRetry.1.t := by
  unfold World.flushRetry
  by_cases hc : w.c.additional.isSome = true
  · rw [if_pos hc, writeInternal_none_eq]
    exact andThen_tr _ _ (slotTail_tr w) (fun w1 _ => writeOutBuffer_tr w1)
  · rw [if_neg hc]; exact .refl _

theorem flush_tr (w : World) : TReach w.t w.flush.1.t := by
  unfold World.flush
  by_cases hc : (!w.c.state.notTerminated) = true
  · rw [if_pos hc]; exact .refl _
  · rw [if_neg hc, writeInternal_none_eq]
    refine andThen_tr _ _ (slotTail_tr w) (fun w1 _ => ?_)
    refine andThen_tr _ _ (writeOutBuffer_tr w1) (fun w2 _ => ?_)
    refine andThen_tr _ _ (flushRetry_tr w2) (fun w3 _ => ?_)
    exact andThen_tr _ _ (streamFlush_tr w3) (fun w4 _ => .refl _)

theorem close_tr (w : World) (c : Option CloseFrame) : TReach w.t (w.close c).1.t := by
  unfold World.close
  by_cases hs : w.c.state = .active
  · rw [if_pos hs]
    exact flush_tr ((w.setState .closedByUs).setAdditionalRaw (some (Frame.close c)))
  · rw [if_neg hs]
    exact flush_tr w

theorem writeData_tr (w : World) (f : Frame) : TReach w.t (w.writeData f).1.t := by
  unfold World.writeData
  rw [writeInternal_some_eq]
  refine andThen_tr _ _ (andThen_tr _ _ (bufferFrame_tr w f) (fun w1 _ => slotTail_tr w1)) ?_
  intro w2 sf
  cases sf with
  | true => exact flush_tr w2
  | false => exact .refl _

theorem write_tr (w : World) (m : Message) : TReach w.t (w.write m).1.t := by
  unfold World.write
  by_cases h1 : (!w.c.state.notTerminated) = true
  · rw [if_pos h1]; exact .refl _
  · rw [if_neg h1]
    by_cases h2 : (!w.c.state.isActive) = true
    · rw [if_pos h2]; exact .refl _
    · rw [if_neg h2]
      cases m with
      | text d => exact writeData_tr w _
      | binary d => exact writeData_tr w _
      | ping d => exact writeData_tr w _
      | frame f => exact writeData_tr w _
      | close c => exact close_tr w c
      | pong d =>
        simp only []
        refine andThen_tr _ _ ?_ (fun w1 _ => .refl _)
        rw [writeInternal_none_eq]
        have h := slotTail_tr (w.setAdditional (Frame.pong d))
        rw [setAdditional_t] at h
        exact h

theorem readRaw_tr (w : World) : TReach w.t (readRaw w).1.t := by
  unfold readRaw
  rw [ccr_t]
  exact Codec.readFrame_tr _ _ _ _ _

theorem readMessageFrame_tr (w : World) : TReach w.t w.readMessageFrame.1.t := by
  rw [readMessageFrame_eq]
  refine andThen_tr _ _ (readRaw_tr w) ?_
  intro w1 of
  cases of with
  | some frame => exact TReach.of_eq (onFrame_spec w1 frame).1.t
  | none => exact TReach.of_eq (onEof_spec w1).1.t

theorem readPre_tr (w : World) : TReach w.t w.readPre.1.t := by
  unfold World.readPre
  by_cases h1 : w.c.additional.isSome = true ∨ w.c.unflushed = true
  · rw [if_pos h1]
    have hf := flush_tr w
    generalize w.flush = x at *
    obtain ⟨w1, r⟩ := x
    cases r with
    | ok u => cases u; exact hf
    | panic s => exact hf
    | err e =>
      cases e with
      | io k => cases k <;> exact hf
      | connectionClosed => exact hf
      | alreadyClosed => exact hf
      | capacity a b => exact hf
      | protocol p => exact hf
      | writeBufferFull f => exact hf
      | utf8 => exact hf
  · rw [if_neg h1]
    by_cases h2 : w.c.role = .server ∧ (!w.c.state.canRead) = true
    · rw [if_pos h2]; exact .refl _
    · rw [if_neg h2]; exact .refl _

theorem readLoop_tr (fuel : Nat) (w : World) : TReach w.t (World.readLoop fuel w).1.t := by
  induction fuel generalizing w with
  | zero => exact .refl _
  | succ fuel ih =>
    simp only [World.readLoop]
    refine andThen_tr _ _ (readPre_tr w) (fun w1 _ => ?_)
    refine andThen_tr _ _ (readMessageFrame_tr w1) (fun w2 om => ?_)
    cases om with
    | some m => exact .refl _
    | none => exact ih w2

theorem read_tr (w : World) : TReach w.t w.read.1.t := by
  unfold World.read
  by_cases hc : (!w.c.state.notTerminated) = true
  · rw [if_pos hc]; exact .refl _
  · rw [if_neg hc]; exact readLoop_tr _ w

theorem step_tr' (w : World) (op : Op) : TReach w.t (w.step op).1.t := by
  cases op with
  | read => exact read_tr w
  | write m => exact write_tr w m
  | flush => exact flush_tr w
  | close c => exact close_tr w c

/-! ### consequence 1: the accepted bytes only grow -/

theorem TReach.accepted {t t' : Transport} (h : TReach t t') :
    ∃ d, t'.accepted = t.accepted ++ d := by
  induction h with
  | refl => exact ⟨[], by simp⟩
  | @read t1 _ ih =>
    obtain ⟨d, hd⟩ := ih
    exact ⟨d, by rw [(Transport.read_spec t1).2.1, hd]⟩
  | @write t1 buf _ ih =>
    obtain ⟨d, hd⟩ := ih
    obtain ⟨e, _, hc⟩ := Transport.write_spec t1 buf
    rcases hc with ⟨k, _, _, ha⟩ | ⟨k, _, _, ha⟩
    · exact ⟨d ++ buf.take (min k buf.length), by rw [ha, hd, List.append_assoc]⟩
    · exact ⟨d, by rw [ha, hd]⟩
  | @flush t1 _ ih =>
    obtain ⟨d, hd⟩ := ih
    exact ⟨d, by rw [(Transport.flush_spec t1).2.1, hd]⟩

theorem step_accepted (w : World) (op : Op) :
    ∃ d, (w.step op).1.t.accepted = w.t.accepted ++ d := (step_tr' w op).accepted

/-! ### consequence 2: a transport that only segments and delays never "ends", except by EOF -/

/-- the scripts only segment and delay: reads deliver non-empty data or block (by default: block or
EOF), writes accept at least one byte or block -/
def GoodT (t : Transport) : Prop :=
  (∀ e ∈ t.rd, e.benign = true) ∧ (t.rdDef = .eof ∨ t.rdDef = .err .wouldBlock) ∧
  (∀ e ∈ t.wr, (∃ k, e = .accept k ∧ 1 ≤ k) ∨ e = .err .wouldBlock) ∧
  ((∃ k, t.wrDef = .accept k ∧ 1 ≤ k) ∨ t.wrDef = .err .wouldBlock)

theorem benign_notEnd {e : RdEv} (h : e.benign = true) : (Call.read e).isEnd = false := by
  cases e with
  | data bs =>
    cases bs with
    | nil => cases h
    | cons b bs => rfl
  | eof => cases h
  | err k => cases k <;> first | rfl | cases h

theorem goodWr_notEnd {e : WrEv} (n : Nat)
    (h : (∃ k, e = .accept k ∧ 1 ≤ k) ∨ e = .err .wouldBlock) : (Call.write n e).isEnd = false := by
  rcases h with ⟨k, rfl, hk⟩ | rfl
  · cases k with
    | zero => omega
    | succ k => rfl
  · rfl

theorem read_good (t : Transport) (hg : GoodT t) :
    GoodT (t.read).1 ∧ (t.read).1.rdDef = t.rdDef ∧
    ∃ c, (t.read).1.log = c :: t.log ∧ (c.isEnd = true → t.rdDef = .eof) := by
  obtain ⟨g1, g2, g3, g4⟩ := hg
  obtain ⟨rd, wr, fl, rdDef, wrDef, flDef, accepted, flushedUpTo, log, exhausted⟩ := t
  dsimp only at g1 g2 g3 g4
  cases rd with
  | nil =>
    refine ⟨⟨(by intro e he; cases he), g2, g3, g4⟩, rfl, Call.read rdDef, rfl, ?_⟩
    intro he
    rcases g2 with g2 | g2
    · exact g2
    · rw [g2] at he; cases he
  | cons e rest =>
    refine ⟨⟨fun x hx => g1 x (List.mem_cons_of_mem _ hx), g2, g3, g4⟩, rfl, Call.read e, rfl, ?_⟩
    intro he
    rw [benign_notEnd (g1 e (List.mem_cons_self ..))] at he; cases he

theorem write_good (t : Transport) (buf : Bytes) (hg : GoodT t) :
    GoodT (t.write buf).1 ∧ (t.write buf).1.rdDef = t.rdDef ∧
    ∃ c, (t.write buf).1.log = c :: t.log ∧ c.isEnd = false := by
  obtain ⟨g1, g2, g3, g4⟩ := hg
  obtain ⟨rd, wr, fl, rdDef, wrDef, flDef, accepted, flushedUpTo, log, exhausted⟩ := t
  dsimp only at g1 g2 g3 g4
  cases wr with
  | nil =>
    have hne := goodWr_notEnd buf.length g4
    cases wrDef with
    | accept k => exact ⟨⟨g1, g2, g3, g4⟩, rfl, _, rfl, hne⟩
    | err k => exact ⟨⟨g1, g2, g3, g4⟩, rfl, _, rfl, hne⟩
  | cons e rest =>
    have hne := goodWr_notEnd buf.length (g3 e (List.mem_cons_self ..))
    have g3' : ∀ x ∈ rest, (∃ k, x = WrEv.accept k ∧ 1 ≤ k) ∨ x = .err .wouldBlock :=
      fun x hx => g3 x (List.mem_cons_of_mem _ hx)
    cases e with
    | accept k => exact ⟨⟨g1, g2, g3', g4⟩, rfl, _, rfl, hne⟩
    | err k => exact ⟨⟨g1, g2, g3', g4⟩, rfl, _, rfl, hne⟩

theorem flush_good (t : Transport) (hg : GoodT t) :
    GoodT (t.flush).1 ∧ (t.flush).1.rdDef = t.rdDef ∧
    ∃ c, (t.flush).1.log = c :: t.log ∧ c.isEnd = false := by
  obtain ⟨g1, g2, g3, g4⟩ := hg
  obtain ⟨rd, wr, fl, rdDef, wrDef, flDef, accepted, flushedUpTo, log, exhausted⟩ := t
  dsimp only at g1 g2 g3 g4
  cases fl with
  | nil =>
    cases flDef with
    | ok => exact ⟨⟨g1, g2, g3, g4⟩, rfl, _, rfl, rfl⟩
    | err k => exact ⟨⟨g1, g2, g3, g4⟩, rfl, _, rfl, rfl⟩
  | cons e rest =>
    cases e with
    | ok => exact ⟨⟨g1, g2, g3, g4⟩, rfl, _, rfl, rfl⟩
    | err k => exact ⟨⟨g1, g2, g3, g4⟩, rfl, _, rfl, rfl⟩

theorem TReach.noEnd {t t' : Transport} (h : TReach t t') (hg : GoodT t) :
    GoodT t' ∧ t'.rdDef = t.rdDef ∧
    ∃ n, t'.log = n ++ t.log ∧ ∀ call ∈ n, call.isEnd = true → t.rdDef = .eof := by
  induction h with
  | refl => exact ⟨hg, rfl, [], rfl, by simp⟩
  | @read t1 _ ih =>
    obtain ⟨g, hdef, n, hn, hend⟩ := ih
    obtain ⟨g', hdef', c, hc, hce⟩ := read_good t1 g
    refine ⟨g', hdef'.trans hdef, c :: n, by rw [hc, hn]; rfl, ?_⟩
    intro call hcall he
    rcases List.mem_cons.mp hcall with rfl | hcall
    · rw [← hdef]; exact hce he
    · exact hend call hcall he
  | @write t1 buf _ ih =>
    obtain ⟨g, hdef, n, hn, hend⟩ := ih
    obtain ⟨g', hdef', c, hc, hce⟩ := write_good t1 buf g
    refine ⟨g', hdef'.trans hdef, c :: n, by rw [hc, hn]; rfl, ?_⟩
    intro call hcall he
    rcases List.mem_cons.mp hcall with rfl | hcall
    · rw [hce] at he; cases he
    · exact hend call hcall he
  | @flush t1 _ ih =>
    obtain ⟨g, hdef, n, hn, hend⟩ := ih
    obtain ⟨g', hdef', c, hc, hce⟩ := flush_good t1 g
    refine ⟨g', hdef'.trans hdef, c :: n, by rw [hc, hn]; rfl, ?_⟩
    intro call hcall he
    rcases List.mem_cons.mp hcall with rfl | hcall
    · rw [hce] at he; cases he
    · exact hend call hcall he

/-- over a transport that only segments and delays, a call that "ended the transport" was a read
that met EOF -/
theorem logEnded_eof {w w' : World} (h : TReach w.t w'.t) (hg : GoodT w.t)
    (he : LogEnded w.t.log w'.t.log) : w.t.rdDef = .eof := by
  obtain ⟨_, _, n, hn, hend⟩ := h.noEnd hg
  obtain ⟨n', hn', call, hc, hce⟩ := he
  have : n = n' := List.append_cancel_right (hn.symm.trans hn')
  subst this
  exact hend call hc hce

end WsProofs.Pair
