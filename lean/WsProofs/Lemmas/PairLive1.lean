import WsProofs.Lemmas.PairJoint

/-! Two-party liveness, layer 1: one endpoint over a working transport (everything offered is
accepted, every flush succeeds): what `flush` and the top of `read` establish. -/
namespace WsProofs.Pair
open WsModel WsModel.Gen WsModel.Spec WsProofs WsProofs.Read WsProofs.Pipe WsProofs.Progress

/-- nothing waits in the write buffer -/
def Clean (w : World) : Prop := w.c.codec.outBuf = [] ∧ w.c.unflushed = false

/-- 1 if a control frame waits in the slot -/
def slotN (w : World) : Nat := if w.c.additional.isSome then 1 else 0

theorem slotN_none {w : World} (h : w.c.additional = none) : slotN w = 0 := by
  unfold slotN; rw [h]; rfl

theorem slotN_le (w : World) : slotN w ≤ 1 := by
  unfold slotN; split <;> omega

theorem slotN_eq {w w' : World} (h : w'.c.additional = w.c.additional) : slotN w' = slotN w := by
  unfold slotN; rw [h]

/-- a pending control frame always fits into an empty write buffer -/
theorem WI.fits {r : Role} {w : World} (h : WI r w) : Fits w := by
  intro f hf g hg
  have hp := h.pq.2 f hf
  have hl : f.payload.length ≤ 125 := by
    rcases h.inv.slot f hf with hk | hk
    · have : f.header.opcode = .control .pong := by
        unfold Frame.isPong at hk; simpa using hk
      exact hp.2.2.2.1 this
    · have : f.header.opcode = .control .close := by
        unfold Frame.isClose at hk; simpa using hk
      exact (hp.2.2.2.2 this).1
  have h1 : g.len ≤ g.payload.length + 14 := by
    unfold Frame.len Header.len headerLen
    cases lfForLength g.payload.length <;> cases g.header.mask.isSome <;>
      simp [lfExtraBytes] <;> omega
  rw [hg] at h1
  have h2 := h.maxw
  rw [h.inv.cfgFixed.1]
  omega

/-- slot draining does not increase queue length + slot occupancy -/
theorem sd_count {w w' : World} (h : SD w w') :
    w'.queued.length + slotN w' ≤ w.queued.length + slotN w ∧ w.queued.length ≤ w'.queued.length := by
  cases ha : w.c.additional with
  | none =>
    obtain ⟨n, q⟩ := h.empty ha
    rw [q, slotN_none n, slotN_none ha]
    exact ⟨Nat.le_refl _, Nat.le_refl _⟩
  | some f =>
    have hs : slotN w = 1 := by unfold slotN; rw [ha]; rfl
    rcases h.full f ha with ⟨f', _, s, q⟩ | ⟨f', _, s, q⟩
    · have hs' : slotN w' = 1 := by unfold slotN; rw [s]; rfl
      rw [q, hs, hs']
      exact ⟨Nat.le_refl _, Nat.le_refl _⟩
    · rw [q, slotN_none s, hs, List.length_append]
      simp

/-! ### `flush` -/

theorem flush_full {r : Role} (w : World) (hW : WI r w) (ha : w.t.acceptsAll)
    (hnt : w.c.state ≠ .terminated) : FlPost w w.flush.1 w.flush.2 :=
  flush_post w hW.inv ha hnt hW.fits

/-! ### the top of the `read` loop -/

theorem readPre_full {r : Role} (w : World) (hW : WI r w) (ha : w.t.acceptsAll)
    (hnt : w.c.state ≠ .terminated) (hcl : Clean w) :
    (T w → w.readPre.2 = .err .connectionClosed ∧ w.readPre.1.c.state = .terminated) ∧
    (¬ T w → w.readPre.2 = .ok () ∧ Clean w.readPre.1 ∧ w.readPre.1.c.additional = none ∧
      w.readPre.1.c.state = w.c.state) := by
  have F := flush_full w hW ha hnt
  unfold World.readPre
  by_cases h1 : w.c.additional.isSome = true ∨ w.c.unflushed = true
  · rw [if_pos h1]
    generalize w.flush = x at F
    obtain ⟨w1, r1⟩ := x
    dsimp only at F
    constructor
    · intro hT
      obtain ⟨e1, e2⟩ := F.closed hT
      subst e1
      exact ⟨rfl, e2⟩
    · intro hT
      obtain ⟨e1, e2, e3⟩ := F.opened hT
      subst e1
      exact ⟨rfl, ⟨F.outBuf, e3⟩, F.additional, e2⟩
  · rw [if_neg h1]
    have hn : w.c.additional = none := by
      cases hadd : w.c.additional with
      | none => rfl
      | some f => rw [hadd] at h1; exact absurd (Or.inl rfl) h1
    by_cases h2 : w.c.role = .server ∧ (!w.c.state.canRead) = true
    · rw [if_pos h2]
      have hT : T w := ⟨h2.1, by simpa using h2.2⟩
      exact ⟨fun _ => ⟨rfl, rfl⟩, fun h => absurd hT h⟩
    · rw [if_neg h2]
      refine ⟨fun hT => absurd ⟨hT.1, by rw [hT.2]; rfl⟩ h2, fun _ => ⟨rfl, hcl, hn, rfl⟩⟩

end WsProofs.Pair
