import WsModel.Handshake.Run
import WsProofs.Lemmas.HsServerChecks
/-! `verify_response` (client) as a control skeleton over boolean header checks. -/
namespace WsProofs.HsL
open WsModel WsModel.Hs WsModel.Gen

/-- the subprotocol stage of `verify_response` -/
def protoCheck (p : Option Bytes) (subs : Option (List Bytes)) : Except HsErr Unit :=
  match p, subs with
  | none, some _ => .error (.subProtocol .noSubProtocol)
  | some _, none => .error (.subProtocol .serverSentSubProtocolNoneRequested)
  | none, none => .ok ()
  | some p, some offered =>
    match toStr p with
    | none => .error .utf8
    | some s => if offered.contains s then .ok () else .error (.subProtocol .invalidSubProtocol)

/-- the control skeleton of `verify_response` -/
def verifyCore (version code : Nat) (tail : Bytes) (u c a : Bool) (r : Except HsErr Unit) : Except HsErr Unit :=
  if version < 1 then .error .wrongHttpVersion
  else if code < 100 ∨ code ≥ 1000 then .error .httpFormat
  else if code ≠ cliSwitchingProtocols then .error (.http code (some tail))
  else if !u then .error .missingUpgradeWebSocketHeader
  else if !c then .error .missingConnectionUpgradeHeader
  else if !a then .error .secWebSocketAcceptKeyMismatch
  else r

def cliUpgB (hs : List (Bytes × Bytes)) : Bool :=
  match (hget hs cliUpgradeName).bind toStr with
  | some x => eqIgnoreCase x cliUpgradeValue
  | none => false
def cliConnB (hs : List (Bytes × Bytes)) : Bool :=
  match (hget hs cliConnectionName).bind toStr with
  | some x => eqIgnoreCase x cliConnectionValue
  | none => false
def cliAccB (hs : List (Bytes × Bytes)) (k : Bytes) : Bool :=
  match hget hs cliAcceptName with
  | some x => x == k
  | none => false

theorem verifyResponse_eq (v : VerifyData) (h : RawHead) (tail : Bytes) :
    verifyResponse v h tail =
      verifyCore h.version h.code tail (cliUpgB h.headers) (cliConnB h.headers) (cliAccB h.headers v.acceptKey)
        (protoCheck (hget h.headers cliProtocolName) v.subprotocols) := rfl

theorem eqCheck_iff (o : Option Bytes) (val : Bytes) :
    (match o.bind toStr with
     | some x => eqIgnoreCase x val
     | none => false) = true ↔ ∃ x, o = some x ∧ toStr x = some x ∧ eqIgnoreCase x val = true := by
  cases h : o.bind toStr with
  | none =>
    simp only [Bool.false_eq_true, false_iff]
    intro ⟨x, h1, h2, _⟩
    have := bind_toStr_some.2 ⟨h1, h2⟩
    rw [h] at this; cases this
  | some x =>
    obtain ⟨h1, h2⟩ := bind_toStr_some.1 h
    constructor
    · intro he; exact ⟨x, h1, h2, he⟩
    · intro ⟨x', h1', _, he⟩
      rw [h1] at h1'; cases h1'; exact he

theorem cliAccB_iff (hs : List (Bytes × Bytes)) (k : Bytes) : cliAccB hs k = true ↔ hget hs cliAcceptName = some k := by
  unfold cliAccB
  cases hget hs cliAcceptName <;> simp

theorem protoCheck_iff (p : Option Bytes) (subs : Option (List Bytes)) :
    protoCheck p subs = .ok () ↔
      ((p = none ∧ subs = none) ∨ (∃ q offered, p = some q ∧ subs = some offered ∧ toStr q = some q ∧ q ∈ offered)) := by
  cases p with
  | none => cases subs <;> simp [protoCheck]
  | some q =>
    cases subs with
    | none => simp [protoCheck]
    | some offered =>
      simp only [protoCheck, reduceCtorEq, false_and, Option.some.injEq, false_or]
      cases hq : toStr q with
      | none => simp [hq]
      | some s =>
        have := toStr_eq_some hq; subst this
        by_cases hc : offered.contains s = true
        · simp only [hc, if_true, true_iff]
          exact ⟨s, offered, rfl, rfl, hq, by simpa using hc⟩
        · simp only [hc, Bool.false_eq_true, if_false, reduceCtorEq, false_iff]
          intro ⟨q', off', e1, e2, _, hm⟩
          subst e1 e2; apply hc; simpa using hm

theorem verifyCore_iff (version code : Nat) (tail : Bytes) (u c a : Bool) (r : Except HsErr Unit) :
    verifyCore version code tail u c a r = .ok () ↔
      1 ≤ version ∧ code = 101 ∧ u = true ∧ c = true ∧ a = true ∧ r = .ok () := by
  unfold verifyCore
  by_cases h1 : version < 1
  · simp [h1]; omega
  · by_cases h2 : code = 101
    · subst h2
      cases u <;> cases c <;> cases a <;> simp [h1, cliSwitchingProtocols] <;> omega
    · by_cases h3 : code < 100 ∨ code ≥ 1000
      · simp [h1, h2, h3]
      · simp [h1, h2, h3, cliSwitchingProtocols]

end WsProofs.HsL
