import WsProofs.Lemmas.Utf8Lemmas

/-! The executable transcription of Table 3-7 (`Spec.wellFormedB`) decides `Spec.WellFormed`. -/
namespace WsProofs.Utf8
open WsModel WsModel.Spec

theorem u8_eq_iff (a b : UInt8) : a = b ↔ a.toNat = b.toNat := UInt8.toNat_inj.symm

theorem second3_table (a b : UInt8) (hw : utf8CharWidth a = 3) :
    (if a = 0xE0 then decide (0xA0 ≤ b) && decide (b ≤ 0xBF)
     else if a = 0xED then decide (0x80 ≤ b) && decide (b ≤ 0x9F) else contB b) = second3Ok a b := by
  rw [width3] at hw
  rw [Bool.eq_iff_iff, second3Ok_nat, contB_eq]
  by_cases h0 : a.toNat = 224
  · have : a = 0xE0 := UInt8.toNat_inj.mp (by simpa using h0)
    simp [this, u8_le_iff]
  · have h0' : ¬ a = 0xE0 := by intro h; apply h0; rw [h]; rfl
    by_cases h1 : a.toNat = 237
    · have : a = 0xED := UInt8.toNat_inj.mp (by simpa using h1)
      simp [this, u8_le_iff]
    · have h1' : ¬ a = 0xED := by intro h; apply h1; rw [h]; rfl
      simp only [h0', h1', if_false, isCont_nat]
      omega

theorem second4_table (a b : UInt8) (hw : utf8CharWidth a = 4) :
    (if a = 0xF0 then decide (0x90 ≤ b) && decide (b ≤ 0xBF)
     else if a = 0xF4 then decide (0x80 ≤ b) && decide (b ≤ 0x8F) else contB b) = second4Ok a b := by
  rw [width4] at hw
  rw [Bool.eq_iff_iff, second4Ok_nat, contB_eq]
  by_cases h0 : a.toNat = 240
  · have : a = 0xF0 := UInt8.toNat_inj.mp (by simpa using h0)
    simp [this, u8_le_iff]
  · have h0' : ¬ a = 0xF0 := by intro h; apply h0; rw [h]; rfl
    by_cases h1 : a.toNat = 244
    · have : a = 0xF4 := UInt8.toNat_inj.mp (by simpa using h1)
      simp [this, u8_le_iff]
    · have h1' : ¬ a = 0xF4 := by intro h; apply h1; rw [h]; rfl
      simp only [h0', h1', if_false, isCont_nat]
      omega

theorem width0 (b : UInt8) : utf8CharWidth b = 0 ↔
    (128 ≤ b.toNat ∧ b.toNat < 194) ∨ 245 ≤ b.toNat := by
  rw [width_nat]; repeat' split
  all_goals omega

/-- one unfolding of the executable table check, phrased with the model's step function -/
theorem wfFuel_step (f : Nat) (a : UInt8) (rest : Bytes) :
    wellFormedFuel (f + 1) (a :: rest) = true ↔
      ∃ n, utf8Step (a :: rest) = .ok n ∧ wellFormedFuel f ((a :: rest).drop n) = true := by
  have c1 : a ≤ 0x7F ↔ a.toNat ≤ 127 := by rw [u8_le_iff]; simp
  have c2 : (0xC2 ≤ a ∧ a ≤ 0xDF) ↔ (194 ≤ a.toNat ∧ a.toNat ≤ 223) := by
    rw [u8_le_iff, u8_le_iff]; simp
  have c3 : (0xE0 ≤ a ∧ a ≤ 0xEF) ↔ (224 ≤ a.toNat ∧ a.toNat ≤ 239) := by
    rw [u8_le_iff, u8_le_iff]; simp
  have c4 : (0xF0 ≤ a ∧ a ≤ 0xF4) ↔ (240 ≤ a.toNat ∧ a.toNat ≤ 244) := by
    rw [u8_le_iff, u8_le_iff]; simp
  rcases width_cases a with hw | hw | hw | hw | hw
  · have hw' := (width0 a).mp hw
    have h1 : ¬ a ≤ 0x7F := by rw [c1]; omega
    have h2 : ¬ (0xC2 ≤ a ∧ a ≤ 0xDF) := by rw [c2]; omega
    have h3 : ¬ (0xE0 ≤ a ∧ a ≤ 0xEF) := by rw [c3]; omega
    have h4 : ¬ (0xF0 ≤ a ∧ a ≤ 0xF4) := by rw [c4]; omega
    simp [wellFormedFuel, h1, h2, h3, h4, utf8Step, hw]
  · have hw' := (width1 a).mp hw
    have h1 : a ≤ 0x7F := by rw [c1]; omega
    simp [wellFormedFuel, h1, utf8Step, hw]
  · have hw' := (width2 a).mp hw
    have h1 : ¬ a ≤ 0x7F := by rw [c1]; omega
    have h2 : (0xC2 ≤ a ∧ a ≤ 0xDF) := by rw [c2]; omega
    cases rest with
    | nil => simp [wellFormedFuel, h1, h2, utf8Step, hw]
    | cons s r =>
      by_cases hs : isCont s = true <;> simp [wellFormedFuel, h1, h2, utf8Step, hw, contB_eq, hs]
  · have hw' := (width3 a).mp hw
    have h1 : ¬ a ≤ 0x7F := by rw [c1]; omega
    have h2 : ¬ (0xC2 ≤ a ∧ a ≤ 0xDF) := by rw [c2]; omega
    have h3 : (0xE0 ≤ a ∧ a ≤ 0xEF) := by rw [c3]; omega
    cases rest with
    | nil => simp [wellFormedFuel, h1, h2, h3, utf8Step, hw]
    | cons s r =>
      cases r with
      | nil => 
        by_cases hs : second3Ok a s = true <;> simp [wellFormedFuel, h1, h2, h3, utf8Step, hw, hs]
      | cons t r2 =>
        simp only [wellFormedFuel, h1, h2, h3, if_false, second3_table a s hw]
        by_cases hs : second3Ok a s = true <;> by_cases ht : isCont t = true <;>
          simp [utf8Step, hw, contB_eq, hs, ht]
  · have hw' := (width4 a).mp hw
    have h1 : ¬ a ≤ 0x7F := by rw [c1]; omega
    have h2 : ¬ (0xC2 ≤ a ∧ a ≤ 0xDF) := by rw [c2]; omega
    have h3 : ¬ (0xE0 ≤ a ∧ a ≤ 0xEF) := by rw [c3]; omega
    have h4 : (0xF0 ≤ a ∧ a ≤ 0xF4) := by rw [c4]; omega
    cases rest with
    | nil => simp [wellFormedFuel, h1, h2, h3, h4, utf8Step, hw]
    | cons s r =>
      cases r with
      | nil =>
        by_cases hs : second4Ok a s = true <;> simp [wellFormedFuel, h1, h2, h3, h4, utf8Step, hw, hs]
      | cons t r2 =>
        cases r2 with
        | nil =>
          by_cases hs : second4Ok a s = true <;> by_cases ht : isCont t = true <;>
            simp [wellFormedFuel, h1, h2, h3, h4, utf8Step, hw, hs, ht]
        | cons u r3 =>
          simp only [wellFormedFuel, h1, h2, h3, h4, if_false, second4_table a s hw]
          by_cases hs : second4Ok a s = true <;> by_cases ht : isCont t = true <;>
            by_cases hu : isCont u = true <;> simp [utf8Step, hw, contB_eq, hs, ht, hu]

theorem wf_iff_step {bs : Bytes} (hne : bs ≠ []) :
    WellFormed bs ↔ ∃ n, utf8Step bs = .ok n ∧ WellFormed (bs.drop n) := by
  constructor
  · intro h
    obtain ⟨n, hn⟩ := wf_step h
    refine ⟨n, hn, ?_⟩
    have hv := validate_of_step_ok hne hn
    rw [(validate_ok_iff bs).mpr h] at hv
    exact (validate_ok_iff _).mp (shift_eq_ok.mp hv.symm)
  · rintro ⟨n, hn, hd⟩
    have := seq_wf_cons (step_ok_seq hne hn).2 hd
    rwa [List.take_append_drop] at this

theorem wellFormedFuel_iff (fuel : Nat) : ∀ bs : Bytes, bs.length ≤ fuel →
    (wellFormedFuel fuel bs = true ↔ WellFormed bs) := by
  induction fuel with
  | zero =>
    intro bs h
    have : bs = [] := List.length_eq_zero_iff.mp (by omega)
    subst this
    simp [wellFormedFuel, WellFormed.nil]
  | succ f ih =>
    intro bs h
    cases bs with
    | nil => simp [wellFormedFuel, WellFormed.nil]
    | cons a r =>
      rw [wfFuel_step, wf_iff_step (by simp)]
      constructor
      · rintro ⟨n, hn, hd⟩
        have hpos := step_ok_pos (by simp) hn
        exact ⟨n, hn, (ih _ (by rw [List.length_drop]; omega)).mp hd⟩
      · rintro ⟨n, hn, hd⟩
        have hpos := step_ok_pos (by simp) hn
        exact ⟨n, hn, (ih _ (by rw [List.length_drop]; omega)).mpr hd⟩

theorem wellFormedB_iff (bs : Bytes) : wellFormedB bs = true ↔ WellFormed bs :=
  wellFormedFuel_iff bs.length bs (Nat.le_refl _)

end WsProofs.Utf8
