import WsModel.Handshake.Run
import WsProofs.Lemmas.HsMachine
import WsProofs.Lemmas.HsServerRun
/-! The client handshake driven over a benign scripted transport: writing the request (partial
writes, WouldBlock), flushing, then reading the response head under any segmentation, the chunk
that completes the head possibly carrying further bytes. The loop invariant behind the client half
of schedule independence (C17). Same machine and same proof structure as `HsServerRun`; here the
writing stage comes first. -/
namespace WsProofs.HsL
open WsModel WsModel.Hs WsModel.Gen

/-! ### writes and flushes leave the read script alone -/

theorem writeEv_rd (t : Transport) (buf : Bytes) (e : WrEv) : (t.writeEv buf e).1.rd = t.rd := by
  cases e <;> rfl

theorem write_rd (t : Transport) (buf : Bytes) : (t.write buf).1.rd = t.rd := by
  obtain ⟨rd, wr, fl, rdDef, wrDef, flDef, accepted, flushedUpTo, log, exhausted⟩ := t
  cases wr with
  | nil => exact writeEv_rd _ buf wrDef
  | cons e rest => exact writeEv_rd _ buf e

theorem flush_rd (t : Transport) : (t.flush).1.rd = t.rd := by
  obtain ⟨rd, wr, fl, rdDef, wrDef, flDef, accepted, flushedUpTo, log, exhausted⟩ := t
  cases fl with
  | nil => cases flDef <;> rfl
  | cons e rest => cases e <;> rfl

theorem write_rd_of {t t1 : Transport} {buf : Bytes} {r : WrRes} (h : t.write buf = (t1, r)) : t1.rd = t.rd := by
  have := write_rd t buf; rw [h] at this; exact this

theorem flush_rd_of {t t1 : Transport} {r : FlEv} (h : t.flush = (t1, r)) : t1.rd = t.rd := by
  have := flush_rd t; rw [h] at this; exact this

theorem guardOk_take (l : List RdEv) : ∀ (a : AttackCheck) (n : Nat), guardOk a l = true → guardOk a (l.take n) = true := by
  induction l with
  | nil => intro a n _; simp [guardOk]
  | cons e rest ih =>
    intro a n h
    cases n with
    | zero => simp [guardOk]
    | succ n =>
      rw [List.take_succ_cons]
      cases e with
      | data bs =>
        simp only [guardOk, Bool.and_eq_true] at h ⊢
        exact ⟨h.1, ih _ n h.2⟩
      | eof => simp only [guardOk] at h ⊢; exact ih _ n h
      | err k => simp only [guardOk] at h ⊢; exact ih _ n h

/-! ### `clientLoop`, one round at a time -/

variable {parse : Bytes → HeadParse}

theorem clientLoop_wb {fuel : Nat} {m : ClientMid} {t t1 : Transport} {s : HState}
    (h : singleRound parse m.state t = (t1, .wouldBlock s)) :
    clientLoop parse (fuel + 1) m t = (t1, { m with state := s }, .interrupted) := by
  simp only [clientLoop, h]

theorem clientLoop_inc {fuel : Nat} {m : ClientMid} {t t1 : Transport} {s : HState}
    (h : singleRound parse m.state t = (t1, .incomplete s)) :
    clientLoop parse (fuel + 1) m t = clientLoop parse fuel { m with state := s } t1 := by
  simp only [clientLoop, h]

theorem clientLoop_doneWriting {fuel : Nat} {m : ClientMid} {t t1 : Transport}
    (h : singleRound parse m.state t = (t1, .doneWriting)) :
    clientLoop parse (fuel + 1) m t = clientLoop parse fuel { m with state := .reading [] {} } t1 := by
  simp only [clientLoop, h]

theorem clientLoop_doneReading_err {fuel : Nat} {m : ClientMid} {t t1 : Transport} {sz : Nat} {hd : RawHead}
    {tail : Bytes} {e : HsErr}
    (h : singleRound parse m.state t = (t1, .doneReading sz hd tail))
    (hs : verifyResponse m.verify hd tail = .error e) :
    clientLoop parse (fuel + 1) m t = (t1, m, .failed e) := by
  simp only [clientLoop, h, hs]

theorem clientLoop_doneReading_ok {fuel : Nat} {m : ClientMid} {t t1 : Transport} {sz : Nat} {hd : RawHead}
    {tail : Bytes}
    (h : singleRound parse m.state t = (t1, .doneReading sz hd tail))
    (hs : verifyResponse m.verify hd tail = .ok ()) :
    clientLoop parse (fuel + 1) m t = (t1, m, .done tail) := by
  simp only [clientLoop, h, hs]

/-! ### the one-shot specification -/

/-- what a client handshake must do: write exactly the request, then judge the response head -/
def cSpec (vd : VerifyData) (h : RawHead) (tail : Bytes) : Outcome Bytes :=
  match verifyResponse vd h tail with
  | .ok () => .done tail
  | .error e => .failed e

theorem cSpec_ok {vd : VerifyData} {h : RawHead} {tail : Bytes}
    (hv : verifyResponse vd h tail = .ok ()) : cSpec vd h tail = .done tail := by
  simp only [cSpec, hv]

theorem cSpec_err {vd : VerifyData} {h : RawHead} {tail : Bytes} {e : HsErr}
    (hv : verifyResponse vd h tail = .error e) : cSpec vd h tail = .failed e := by
  simp only [cSpec, hv]

/-! ### the invariant -/

/-- the read script still delivers the rest of `S ++ extra`: some event completes the head `S` (the
bytes before it stay short of `S`), that same event carries the rest of `extra`, and the guard is
not tripped up to and including it -/
def RdOk (S extra : Bytes) (buf : Bytes) (a : AttackCheck) (rd : List RdEv) : Prop :=
  ∃ k, (buf ++ hsData (rd.take k)).length < S.length ∧ buf ++ hsData (rd.take (k + 1)) = S ++ extra ∧
    guardOk a (rd.take (k + 1)) = true

/-- the states a benign client handshake sending `req` and receiving `S ++ extra` passes through -/
def ClInv (vd : VerifyData) (req S extra : Bytes) (m : ClientMid) (t : Transport) : Prop :=
  Transport.Benign t ∧ m.verify = vd ∧
  match m.state with
  | .writing rem => rem ≠ [] ∧ t.accepted ++ rem = req ∧ RdOk S extra [] {} t.rd
  | .flushing => t.accepted = req ∧ RdOk S extra [] {} t.rd
  | .reading buf a => t.accepted = req ∧ RdOk S extra buf a t.rd

/-- rounds a client handshake in this state can still take -/
def cneed : HState → Transport → Nat
  | .writing rem, t => rem.length + t.rd.length + 2
  | .flushing, t => t.rd.length + 2
  | .reading _ _, t => t.rd.length + 1

/-- finished exactly as specified: the whole request written, the outcome that of `cSpec` on
the bytes received beyond the head -/
def CFinal (vd : VerifyData) (req : Bytes) (h : RawHead) (extra : Bytes) (t : Transport) (o : Outcome Bytes) : Prop :=
  t.accepted = req ∧
    ((o = .done extra ∧ cSpec vd h extra = .done extra) ∨
     ∃ e, o = .failed e ∧ cSpec vd h extra = .failed e)

def CPost (vd : VerifyData) (req S extra : Bytes) (h : RawHead) (r : Transport × ClientMid × Outcome Bytes) : Prop :=
  (r.2.2 = .interrupted ∧ ClInv vd req S extra r.2.1 r.1) ∨ CFinal vd req h extra r.1 r.2.2

theorem RdOk.wb {S extra buf : Bytes} {a : AttackCheck} {rd rd1 : List RdEv}
    (h : RdOk S extra buf a rd) (hrd : (rd = [] ∧ rd1 = []) ∨ rd = .err .wouldBlock :: rd1) :
    RdOk S extra buf a rd1 := by
  obtain ⟨k, h1, h2, h3⟩ := h
  cases hrd with
  | inl hrd =>
    exfalso
    rw [hrd.1] at h1 h2
    simp only [List.take_nil, hsData, List.append_nil] at h1 h2
    rw [h2, List.length_append] at h1; omega
  | inr hrd =>
    rw [hrd] at h1 h2 h3
    cases k with
    | zero =>
      exfalso
      simp only [List.take_zero, hsData, List.append_nil] at h1
      rw [hsData_take_wb] at h2
      simp only [List.take_zero, hsData, List.append_nil] at h2
      rw [h2, List.length_append] at h1; omega
    | succ k' =>
      rw [hsData_take_wb] at h1 h2
      rw [List.take_succ_cons] at h3
      simp only [guardOk] at h3
      exact ⟨k', h1, h2, h3⟩

theorem clientLoop_post {vd : VerifyData} {req S extra : Bytes} {h : RawHead} (hhead : HeadOf parse S h)
    (hstable : ∀ more, parse (S ++ more) = .complete S.length h) :
    ∀ (fuel : Nat) (m : ClientMid) (t : Transport), ClInv vd req S extra m t →
      cneed m.state t ≤ fuel → CPost vd req S extra h (clientLoop parse fuel m t) := by
  intro fuel
  induction fuel with
  | zero =>
    intro m t _ hfuel
    exfalso
    cases hst : m.state <;> rw [hst] at hfuel <;> simp only [cneed] at hfuel <;> omega
  | succ fuel ih =>
    intro m t hinv hfuel
    obtain ⟨verify, state⟩ := m
    obtain ⟨hb, hvd, hinv⟩ := hinv
    simp only at hvd
    cases state with
    | writing rem =>
      simp only at hinv
      obtain ⟨hne, hacc, hrdok⟩ := hinv
      simp only [cneed] at hfuel
      cases write_benign hb rem with
      | inl hw =>
        obtain ⟨t1, hw, hb1, ha1⟩ := hw
        rw [clientLoop_wb (singleRound_write_wb hne hw)]
        left; refine ⟨rfl, hb1, hvd, ?_⟩
        simp only
        rw [ha1, write_rd_of hw]; exact ⟨hne, hacc, hrdok⟩
      | inr hw =>
        obtain ⟨t1, k, hk, hw, hb1, ha1⟩ := hw
        have hrd1 : t1.rd = t.rd := write_rd_of hw
        have hlen : 0 < rem.length := List.length_pos_iff.2 hne
        have hn0 : ¬ (min k rem.length = 0) := by omega
        have hround := singleRound_write_ok (parse := parse) hne hw
        simp only [hn0, if_false] at hround
        by_cases hdrop : (rem.drop (min k rem.length)).isEmpty = true
        · simp only [hdrop, if_true] at hround
          rw [clientLoop_inc hround]
          apply ih
          · refine ⟨hb1, hvd, ?_⟩
            simp only
            have : rem.take (min k rem.length) = rem := by
              have := List.isEmpty_iff.1 hdrop
              rw [List.drop_eq_nil_iff] at this
              exact List.take_of_length_le this
            rw [ha1, this, hrd1]; exact ⟨hacc, hrdok⟩
          · simp only [cneed]; rw [hrd1]; omega
        · simp only [hdrop, Bool.false_eq_true, if_false] at hround
          rw [clientLoop_inc hround]
          apply ih
          · refine ⟨hb1, hvd, ?_⟩
            simp only
            refine ⟨fun he => hdrop (by rw [he]; rfl), ?_, by rw [hrd1]; exact hrdok⟩
            rw [ha1, List.append_assoc, List.take_append_drop]; exact hacc
          · simp only [cneed, List.length_drop]; rw [hrd1]; omega
    | flushing =>
      simp only at hinv
      obtain ⟨hacc, hrdok⟩ := hinv
      simp only [cneed] at hfuel
      cases flush_benign hb with
      | inl hf =>
        obtain ⟨t1, hf, hb1, ha1⟩ := hf
        rw [clientLoop_wb (singleRound_flush_wb hf)]
        left; refine ⟨rfl, hb1, hvd, ?_⟩
        simp only
        rw [ha1, flush_rd_of hf]; exact ⟨hacc, hrdok⟩
      | inr hf =>
        obtain ⟨t1, hf, ha1⟩ := hf
        have hrd1 : t1.rd = t.rd := flush_rd_of hf
        -- a successful flush keeps the transport benign
        have hb1 : Transport.Benign t1 := by
          obtain ⟨b1, b2, b3, b4, b5, b6⟩ := hb
          cases t with
          | mk rd wr fl rdDef wrDef flDef accepted flushedUpTo log exhausted =>
            cases fl with
            | nil =>
              simp only [Transport.flush] at hf
              cases flDef with
              | ok =>
                simp only [Transport.flushEv, Prod.mk.injEq] at hf
                rw [← hf.1]; exact ⟨b1, b2, b3, b4, b5, b6⟩
              | err k => simp [Transport.flushEv] at hf
            | cons e rest =>
              simp only [Transport.flush] at hf
              have hrest : ∀ x ∈ rest, flBenign x = true := fun x hx => b3 x (by simp [hx])
              cases e with
              | ok =>
                simp only [Transport.flushEv, Prod.mk.injEq] at hf
                rw [← hf.1]; exact ⟨b1, b2, hrest, b4, b5, b6⟩
              | err k => simp [Transport.flushEv] at hf
        rw [clientLoop_doneWriting (singleRound_flush_ok hf)]
        apply ih
        · refine ⟨hb1, hvd, ?_⟩
          simp only
          rw [ha1, hrd1]; exact ⟨hacc, hrdok⟩
        · simp only [cneed]; rw [hrd1]; omega
    | reading buf a =>
      simp only at hinv
      obtain ⟨hacc, hrdok⟩ := hinv
      simp only [cneed] at hfuel
      cases read_benign hb with
      | inl hr =>
        obtain ⟨t1, hr, hb1, ha1, _, _, hrd⟩ := hr
        rw [clientLoop_wb (singleRound_read_wb hr)]
        left; refine ⟨rfl, hb1, hvd, ?_⟩
        simp only
        exact ⟨by rw [ha1]; exact hacc, hrdok.wb hrd⟩
      | inr hr =>
        obtain ⟨t1, bs, hr, hbs, hb1, ha1, _, _, hrd⟩ := hr
        obtain ⟨k, hk1, hk2, hg⟩ := hrdok
        rw [hrd] at hk1 hk2 hg hfuel
        have hround := singleRound_read_data (parse := parse) (buf := buf) (a := a) hr
        have hbs' : bs.isEmpty = false := by cases bs <;> simp_all
        rw [List.take_succ_cons] at hg
        simp only [guardOk, Bool.and_eq_true] at hg
        obtain ⟨hg1, hg2⟩ := hg
        simp only [hbs', hg1, Bool.not_true, Bool.false_eq_true, if_false] at hround
        rw [hsData_take_data, ← List.append_assoc] at hk2
        simp only [List.length_cons] at hfuel
        cases k with
        | zero =>
          -- this chunk completes the head and carries `extra`
          simp only [List.take_zero, hsData, List.append_nil] at hk1 hk2
          have hp : parse (buf ++ bs) = .complete S.length h := by rw [hk2]; exact hstable extra
          simp only [parseStep, hp] at hround
          rw [hk2, List.drop_left] at hround
          cases hv : verifyResponse vd h extra with
          | error e =>
            rw [clientLoop_doneReading_err hround (by simp only; rw [hvd]; exact hv)]
            right
            exact ⟨by simp only; rw [ha1]; exact hacc, .inr ⟨e, rfl, cSpec_err hv⟩⟩
          | ok u =>
            cases u
            rw [clientLoop_doneReading_ok hround (by simp only; rw [hvd]; exact hv)]
            right
            exact ⟨by simp only; rw [ha1]; exact hacc, .inl ⟨rfl, cSpec_ok hv⟩⟩
        | succ k' =>
          -- still a proper prefix of the head
          rw [hsData_take_data, ← List.append_assoc] at hk1
          have hfull : (buf ++ bs).length < S.length := by
            rw [List.length_append] at hk1; omega
          have hpre : S.take (buf ++ bs).length = buf ++ bs := by
            have h1 : (S ++ extra).take (buf ++ bs).length = buf ++ bs := by
              rw [← hk2]; exact List.take_left' rfl
            rw [List.take_append_of_le_length (Nat.le_of_lt hfull)] at h1
            exact h1
          have hp : parse (buf ++ bs) = .incomplete := by
            rw [← hpre]; exact hhead.2 _ hfull
          simp only [parseStep, hp] at hround
          rw [clientLoop_inc hround]
          apply ih
          · refine ⟨hb1, hvd, ?_⟩
            simp only
            exact ⟨by rw [ha1]; exact hacc, k', hk1, hk2, hg2⟩
          · simp only [cneed]; omega

theorem chsFuel_ge (m : ClientMid) (t : Transport) : cneed m.state t ≤ hsFuel m.state t := by
  cases hst : m.state with
  | reading buf a => simp only [cneed, hsFuel]; omega
  | writing rem => simp only [cneed, hsFuel]; omega
  | flushing => simp only [cneed, hsFuel]; omega

/-- what has been written so far is a prefix of the request -/
theorem cinv_prefix {vd : VerifyData} {req S extra : Bytes} {m : ClientMid} {t : Transport}
    (hinv : ClInv vd req S extra m t) : ∃ rest, req = t.accepted ++ rest := by
  obtain ⟨_, _, hinv⟩ := hinv
  cases hst : m.state with
  | reading buf a =>
    rw [hst] at hinv; simp only at hinv
    exact ⟨[], by rw [List.append_nil]; exact hinv.1.symm⟩
  | writing rem =>
    rw [hst] at hinv; simp only at hinv
    exact ⟨rem, hinv.2.1.symm⟩
  | flushing =>
    rw [hst] at hinv; simp only at hinv
    exact ⟨[], by rw [List.append_nil]; exact hinv.1.symm⟩

/-- the statement of schedule independence for one client run -/
def CRunResult (vd : VerifyData) (req : Bytes) (h : RawHead) (extra : Bytes)
    (r : Transport × ClientMid × Outcome Bytes) : Prop :=
  (r.2.2 = .interrupted ∧ ∃ rest, req = r.1.accepted ++ rest) ∨
  (r.1.accepted = req ∧
    ((r.2.2 = .done extra ∧ cSpec vd h extra = .done extra) ∨
     ∃ e, r.2.2 = .failed e ∧ cSpec vd h extra = .failed e))

theorem clientRun_result {vd : VerifyData} {req S extra : Bytes} {h : RawHead} (hhead : HeadOf parse S h)
    (hstable : ∀ more, parse (S ++ more) = .complete S.length h) :
    ∀ (n : Nat) (m : ClientMid) (t : Transport), ClInv vd req S extra m t →
      CRunResult vd req h extra (clientRun parse n m t) := by
  intro n
  induction n with
  | zero =>
    intro m t hinv
    left; exact ⟨rfl, cinv_prefix hinv⟩
  | succ n ih =>
    intro m t hinv
    have hpost := clientLoop_post hhead hstable (hsFuel m.state t) m t hinv (chsFuel_ge m t)
    cases hloop : clientLoop parse (hsFuel m.state t) m t with
    | mk t' rest =>
      obtain ⟨m', o⟩ := rest
      rw [hloop] at hpost
      cases hpost with
      | inl hp =>
        obtain ⟨ho, hinv'⟩ := hp
        simp only at ho hinv'
        subst ho
        simp only [clientRun, hloop]
        exact ih m' t' hinv'
      | inr hp =>
        obtain ⟨hacc, hout⟩ := hp
        simp only at hacc hout
        have hrun : clientRun parse (n + 1) m t = (t', m', o) := by
          cases hout with
          | inl hd => rw [hd.1] at hloop ⊢; simp only [clientRun, hloop]
          | inr hd => obtain ⟨e, he, _⟩ := hd; rw [he] at hloop ⊢; simp only [clientRun, hloop]
        rw [hrun]
        right; exact ⟨hacc, hout⟩

/-- the start state satisfies the invariant -/
theorem cinv_start {vd : VerifyData} {req S extra : Bytes} (hreq : req ≠ []) (hne : S ≠ [])
    {t : Transport} (hb : Transport.Benign t) (hacc : t.accepted = [])
    (hdata : ∃ n, hsData (t.rd.take n) = S ++ extra ∧
      (∀ k, k < n → (hsData (t.rd.take k)).length < S.length) ∧ guardOk {} (t.rd.take n) = true) :
    ClInv vd req S extra { verify := vd, state := .writing req } t := by
  refine ⟨hb, rfl, ?_⟩
  simp only
  refine ⟨hreq, by rw [hacc]; rfl, ?_⟩
  obtain ⟨n, h1, h2, h3⟩ := hdata
  cases n with
  | zero =>
    exfalso
    simp only [List.take_zero, hsData] at h1
    have : S = [] := (List.append_eq_nil_iff.1 h1.symm).1
    exact hne this
  | succ n' =>
    exact ⟨n', by rw [List.nil_append]; exact h2 n' (Nat.lt_succ_self _), by rw [List.nil_append]; exact h1, h3⟩

end WsProofs.HsL
