import WsProofs.Lemmas.LocalCodec

/-! Local facts about the write side of `World`: `bufferFrame`, `writeSlot`, `writeTail`,
`writeInternal none`, `flushRetry`, `flush`. Only the fields the local theorems talk about are
tracked: `queued`, `c.additional`, `c.codec.outBuf`, `c.codec.maxOut`. -/
namespace WsProofs.Local
open WsModel WsModel.Gen

/-! ## `andThen` -/

theorem andThen_ok_inv {α β : Type} (x : World × Res α) (k : World → α → World × Res β) (b : β)
    (h : (andThen x k).2 = .ok b) : ∃ w a, x = (w, .ok a) ∧ andThen x k = k w a := by
  obtain ⟨w, r⟩ := x
  cases r with
  | ok a => exact ⟨w, a, rfl, rfl⟩
  | err e => exact nomatch h
  | panic s => exact nomatch h

theorem andThen_noFull {α β : Type} (x : World × Res α) (k : World → α → World × Res β)
    (hx : NoFull x.2) (hk : ∀ w a, NoFull (k w a).2) : NoFull (andThen x k).2 := by
  obtain ⟨w, r⟩ := x
  cases r with
  | ok a => exact hk w a
  | err e =>
    intro g h
    have h' : (Res.err e : Res β) = .err (.writeBufferFull g) := h
    injection h' with h'
    subst h'
    exact hx g rfl
  | panic s => exact noFull_panic s

theorem noFull_err_cast {α β : Type} {e : Err} (h : NoFull (Res.err e : Res α)) :
    NoFull (Res.err e : Res β) := by
  intro g hg
  injection hg with hg
  subst hg
  exact h g rfl

theorem noFull_isFull {α : Type} {r : Res α} (h : NoFull r) : r.isWriteBufferFull = false := by
  cases r with
  | ok a => rfl
  | panic s => rfl
  | err e =>
    cases e with
    | writeBufferFull g => exact absurd rfl (h g)
    | _ => rfl

/-! ## `checkConnectionReset` -/

theorem ccr_eq_or {α : Type} (w : World) (r : Res α) :
    w.checkConnectionReset r = (w, r) ∨
    ((r = .err (.io .reset) ∨ r = .err .connectionClosed) ∧
      w.checkConnectionReset r = (w.setState .terminated, .err .connectionClosed)) := by
  cases r with
  | ok a => left; rfl
  | panic s => left; rfl
  | err e =>
    cases e with
    | io k =>
      cases k with
      | reset =>
        unfold World.checkConnectionReset
        cases w.c.state.canRead
        · right; exact ⟨Or.inl rfl, rfl⟩
        · left; rfl
      | _ => left; rfl
    | connectionClosed => right; exact ⟨Or.inr rfl, rfl⟩
    | _ => left; rfl

/-! ## masking -/

/-- the world after the mask oracle was consulted (client) or not (server) -/
def afterMask (w : World) : World :=
  match w.c.role with
  | .server => w
  | .client => w.nextMask.1

/-- the frame as it is handed to the codec -/
def maskedFrame (w : World) (f : Frame) : Frame :=
  match w.c.role with
  | .server => f
  | .client => { f with header := { f.header with mask := some w.nextMask.2 } }

theorem afterMask_c (w : World) : (afterMask w).c = w.c := by
  unfold afterMask World.nextMask
  cases w.c.role with
  | server => rfl
  | client => cases w.mu <;> rfl

theorem afterMask_t (w : World) : (afterMask w).t = w.t := by
  unfold afterMask World.nextMask
  cases w.c.role with
  | server => rfl
  | client => cases w.mu <;> rfl

theorem afterMask_queued (w : World) : (afterMask w).queued = w.queued := by
  unfold afterMask World.nextMask
  cases w.c.role with
  | server => rfl
  | client => cases w.mu <;> rfl

theorem maskedFrame_payload (w : World) (f : Frame) : (maskedFrame w f).payload = f.payload := by
  unfold maskedFrame
  cases w.c.role <;> rfl

theorem maskedFrame_opcode (w : World) (f : Frame) :
    (maskedFrame w f).header.opcode = f.header.opcode := by
  unfold maskedFrame
  cases w.c.role <;> rfl

/-- two frames with the same payload differ in size by the mask only -/
theorem len_le_of_payload (f g : Frame) (h : g.payload = f.payload) : g.len ≤ f.len + 4 := by
  unfold Frame.len Header.len headerLen
  rw [h]
  cases g.header.mask.isSome <;> cases f.header.mask.isSome <;> simp <;> omega

theorem world_bufferFrame_eq (w : World) (f : Frame) :
    w.bufferFrame f =
      ((if ((afterMask w).c.codec.bufferFrame (afterMask w).t (maskedFrame w f)).2.2.isWriteBufferFull
        then (afterMask w).setCodec
          ((afterMask w).c.codec.bufferFrame (afterMask w).t (maskedFrame w f)).1
          ((afterMask w).c.codec.bufferFrame (afterMask w).t (maskedFrame w f)).2.1
        else { (afterMask w).setCodec
          ((afterMask w).c.codec.bufferFrame (afterMask w).t (maskedFrame w f)).1
          ((afterMask w).c.codec.bufferFrame (afterMask w).t (maskedFrame w f)).2.1 with
          queued := (afterMask w).queued ++ [maskedFrame w f] }).checkConnectionReset
        ((afterMask w).c.codec.bufferFrame (afterMask w).t (maskedFrame w f)).2.2) := by
  unfold World.bufferFrame afterMask maskedFrame
  cases w.c.role <;> rfl

/-- the two outcomes of `World.bufferFrame` -/
theorem world_bufferFrame_spec (w : World) (f : Frame) :
    ∃ f', f'.payload = f.payload ∧ f'.header.opcode = f.header.opcode ∧
      (w.bufferFrame f).1.c.additional = w.c.additional ∧
      (w.bufferFrame f).1.c.codec.maxOut = w.c.codec.maxOut ∧
      ((f'.len + w.c.codec.outBuf.length > w.c.codec.maxOut ∧
          (w.bufferFrame f).2 = .err (.writeBufferFull f') ∧
          (w.bufferFrame f).1.queued = w.queued ∧
          (w.bufferFrame f).1.c.codec.outBuf = w.c.codec.outBuf ∧
          (w.bufferFrame f).1.t = w.t) ∨
       (f'.len + w.c.codec.outBuf.length ≤ w.c.codec.maxOut ∧
          NoFull (w.bufferFrame f).2 ∧
          (w.bufferFrame f).1.queued = w.queued ++ [f'])) := by
  refine ⟨maskedFrame w f, maskedFrame_payload w f, maskedFrame_opcode w f, ?_⟩
  rw [world_bufferFrame_eq]
  have hc := afterMask_c w
  have ht := afterMask_t w
  have hq := afterMask_queued w
  generalize afterMask w = w0 at hc ht hq
  generalize maskedFrame w f = f'
  rw [← hc, ← ht, ← hq]
  by_cases hfull : f'.len + w0.c.codec.outBuf.length > w0.c.codec.maxOut
  · rw [bufferFrame_full _ _ _ hfull]
    refine ⟨rfl, rfl, Or.inl ⟨hfull, rfl, rfl, rfl, rfl⟩⟩
  · have hroom : f'.len + w0.c.codec.outBuf.length ≤ w0.c.codec.maxOut := by omega
    obtain ⟨⟨k, hk⟩, hnf, _⟩ := bufferFrame_room w0.c.codec w0.t f' hroom
    cases hr : w0.c.codec.bufferFrame w0.t f' with
    | mk c' tr =>
      cases tr with
      | mk t' r =>
        rw [hr] at hk hnf
        dsimp only at hk hnf ⊢
        rw [noFull_isFull hnf]
        simp only [Bool.false_eq_true, if_false]
        subst hk
        rcases ccr_eq_or ({ w0.setCodec { w0.c.codec with outBuf := (w0.c.codec.outBuf ++ f'.format).drop k } t'
            with queued := w0.queued ++ [f'] }) r with h | ⟨h1, h2⟩
        · rw [h]
          exact ⟨rfl, rfl, Or.inr ⟨hroom, hnf, rfl⟩⟩
        · rw [h2]
          refine ⟨rfl, rfl, Or.inr ⟨hroom, ?_, rfl⟩⟩
          intro g hg; cases hg

/-! ## `writeOutBuffer`, `streamFlush` -/

theorem world_writeOutBuffer_spec (w : World) :
    (w.writeOutBuffer).1.queued = w.queued ∧
    (w.writeOutBuffer).1.c.additional = w.c.additional ∧
    (w.writeOutBuffer).1.c.codec.maxOut = w.c.codec.maxOut ∧
    ((w.writeOutBuffer).2 = .ok () → (w.writeOutBuffer).1.c.codec.outBuf = []) ∧
    NoFull (w.writeOutBuffer).2 := by
  obtain ⟨⟨k, hk⟩, h2, h3, _⟩ := writeOutBuffer_spec w.c.codec w.t
  unfold World.writeOutBuffer
  cases hr : w.c.codec.writeOutBuffer w.t with
  | mk c' tr =>
    cases tr with
    | mk t' r =>
      rw [hr] at hk h2 h3
      dsimp only at hk h2 h3 ⊢
      subst hk
      exact ⟨rfl, rfl, rfl, h2, h3⟩

theorem streamFlush_spec (w : World) :
    (w.streamFlush).1.queued = w.queued ∧ (w.streamFlush).1.c = w.c ∧ NoFull (w.streamFlush).2 := by
  unfold World.streamFlush
  cases hr : w.t.flush with
  | mk t' e =>
    cases e with
    | ok => exact ⟨rfl, rfl, noFull_ok _⟩
    | err k => exact ⟨rfl, rfl, noFull_io _⟩

/-! ## `writeSlot` -/

theorem writeSlot_none (w : World) (h : w.c.additional = none) :
    w.writeSlot = (w, .ok w.c.unflushed) := by
  unfold World.writeSlot
  rw [h]

/-- the pending frame is either queued (slot emptied) or, when the buffer is full, put back -/
theorem writeSlot_some (w : World) (msg : Frame) (h : w.c.additional = some msg) :
    ∃ f', f'.payload = msg.payload ∧ f'.header.opcode = msg.header.opcode ∧
      (w.writeSlot).1.c.codec.maxOut = w.c.codec.maxOut ∧
      NoFull (w.writeSlot).2 ∧
      ((f'.len + w.c.codec.outBuf.length > w.c.codec.maxOut ∧
          (w.writeSlot).2 = .ok false ∧
          (w.writeSlot).1.c.additional = some f' ∧
          (w.writeSlot).1.queued = w.queued ∧
          (w.writeSlot).1.c.codec.outBuf = w.c.codec.outBuf) ∨
       (f'.len + w.c.codec.outBuf.length ≤ w.c.codec.maxOut ∧
          ∀ b, (w.writeSlot).2 = .ok b →
            (w.writeSlot).1.c.additional = none ∧ (w.writeSlot).1.queued = w.queued ++ [f'])) := by
  obtain ⟨f', hp, ho, hadd, hmax, hcases⟩ := world_bufferFrame_spec (w.setAdditionalRaw none) msg
  refine ⟨f', hp, ho, ?_⟩
  unfold World.writeSlot
  rw [h]
  dsimp only
  cases hr : (w.setAdditionalRaw none).bufferFrame msg with
  | mk w1 r =>
    rw [hr] at hadd hmax hcases
    dsimp only at hadd hmax hcases
    have hadd' : w1.c.additional = none := hadd
    have hmax' : w1.c.codec.maxOut = w.c.codec.maxOut := hmax
    have hcases' : (f'.len + w.c.codec.outBuf.length > w.c.codec.maxOut ∧
          r = .err (.writeBufferFull f') ∧ w1.queued = w.queued ∧
          w1.c.codec.outBuf = w.c.codec.outBuf ∧ w1.t = w.t) ∨
        (f'.len + w.c.codec.outBuf.length ≤ w.c.codec.maxOut ∧ NoFull r ∧
          w1.queued = w.queued ++ [f']) := hcases
    clear hadd hmax hcases
    rcases hcases' with ⟨hfull, hr2, hq, hob, _⟩ | ⟨hroom, hnf, hq⟩
    · subst hr2
      dsimp only
      have hsa : w1.setAdditional f' = w1.setAdditionalRaw (some f') := by
        unfold World.setAdditional; rw [hadd']
      rw [hsa]
      exact ⟨hmax', noFull_ok _, Or.inl ⟨hfull, rfl, rfl, hq, hob⟩⟩
    · cases r with
      | ok u =>
        cases u
        dsimp only
        exact ⟨hmax', noFull_ok _, Or.inr ⟨hroom, fun _ _ => ⟨hadd', hq⟩⟩⟩
      | panic s =>
        dsimp only
        exact ⟨hmax', noFull_panic _, Or.inr ⟨hroom, fun _ hb => nomatch hb⟩⟩
      | err e =>
        cases e with
        | writeBufferFull g => exact absurd rfl (hnf g)
        | connectionClosed =>
          dsimp only
          exact ⟨hmax', noFull_err_cast hnf, Or.inr ⟨hroom, fun _ hb => nomatch hb⟩⟩
        | alreadyClosed =>
          dsimp only
          exact ⟨hmax', noFull_err_cast hnf, Or.inr ⟨hroom, fun _ hb => nomatch hb⟩⟩
        | io k =>
          dsimp only
          exact ⟨hmax', noFull_err_cast hnf, Or.inr ⟨hroom, fun _ hb => nomatch hb⟩⟩
        | capacity a b =>
          dsimp only
          exact ⟨hmax', noFull_err_cast hnf, Or.inr ⟨hroom, fun _ hb => nomatch hb⟩⟩
        | protocol p =>
          dsimp only
          exact ⟨hmax', noFull_err_cast hnf, Or.inr ⟨hroom, fun _ hb => nomatch hb⟩⟩
        | utf8 =>
          dsimp only
          exact ⟨hmax', noFull_err_cast hnf, Or.inr ⟨hroom, fun _ hb => nomatch hb⟩⟩

theorem writeSlot_noFull (w : World) : NoFull (w.writeSlot).2 := by
  cases h : w.c.additional with
  | none => rw [writeSlot_none w h]; exact noFull_ok _
  | some msg =>
    obtain ⟨_, _, _, _, hnf, _⟩ := writeSlot_some w msg h
    exact hnf

/-! ## `writeTail`, `writeInternal none` -/

theorem writeTail_noFull (w : World) (sf : Bool) : NoFull (w.writeTail sf).2 := by
  unfold World.writeTail
  by_cases hc : w.c.role = .server ∧ (!w.c.state.canRead) = true ∧ w.c.additional.isNone = true
  · rw [if_pos hc]
    apply andThen_noFull
    · exact (world_writeOutBuffer_spec w).2.2.2.2
    · intro w' _ g hg; cases hg
  · rw [if_neg hc]; exact noFull_ok _

theorem writeTail_ok (w : World) (sf b : Bool) (h : (w.writeTail sf).2 = .ok b) :
    w.writeTail sf = (w, .ok sf) := by
  unfold World.writeTail at h ⊢
  by_cases hc : w.c.role = .server ∧ (!w.c.state.canRead) = true ∧ w.c.additional.isNone = true
  · rw [if_pos hc] at h
    obtain ⟨w', a, _, h2⟩ := andThen_ok_inv _ _ _ h
    rw [h2] at h
    exact nomatch h
  · rw [if_neg hc]

theorem writeInternal_none_eq (w : World) :
    w.writeInternal none = andThen w.writeSlot fun w sf => w.writeTail sf := rfl

theorem writeInternal_none_noFull (w : World) : NoFull (w.writeInternal none).2 := by
  rw [writeInternal_none_eq]
  exact andThen_noFull _ _ (writeSlot_noFull w) (fun w' sf => writeTail_noFull w' sf)

/-- a successful `_write(None)` is exactly its `writeSlot` step -/
theorem writeInternal_none_ok (w : World) (b : Bool) (h : (w.writeInternal none).2 = .ok b) :
    w.writeInternal none = w.writeSlot := by
  rw [writeInternal_none_eq] at h ⊢
  obtain ⟨w1, sf, h1, h2⟩ := andThen_ok_inv _ _ _ h
  rw [h2] at h ⊢
  rw [writeTail_ok w1 sf b h, h1]

/-! ## `flushRetry`, `flush` never report `WriteBufferFull` -/

theorem flushRetry_noFull (w : World) : NoFull (w.flushRetry).2 := by
  unfold World.flushRetry
  by_cases hc : w.c.additional.isSome = true
  · rw [if_pos hc]
    exact andThen_noFull _ _ (writeInternal_none_noFull w)
      (fun w' _ => (world_writeOutBuffer_spec w').2.2.2.2)
  · rw [if_neg hc]; exact noFull_ok _

theorem flush_noFull (w : World) : NoFull (w.flush).2 := by
  unfold World.flush
  by_cases hc : (!w.c.state.notTerminated) = true
  · rw [if_pos hc]; intro g hg; cases hg
  · rw [if_neg hc]
    apply andThen_noFull _ _ (writeInternal_none_noFull w)
    intro w1 _
    apply andThen_noFull _ _ (world_writeOutBuffer_spec w1).2.2.2.2
    intro w2 _
    apply andThen_noFull _ _ (flushRetry_noFull w2)
    intro w3 _
    apply andThen_noFull _ _ (streamFlush_spec w3).2.2
    intro w4 _
    exact noFull_ok _

end WsProofs.Local
