import WsModel.Generated.FrameGen

/-! Rewriting rules for the monad `GenFrame.M` of the machine translation of `Frame`
(`WsModel/Generated/FrameGen.lean`): `>>=` applied to an output buffer is `fr_then`, every leaf
applied to an output buffer is a pair. -/
namespace WsProofs.Tie
open WsModel WsModel.Gen WsModel.GenFrame

/-- sequencing on the pair a call returned -/
def fr_then {α β : Type} (x : Bytes × Res α) (k : Bytes → α → Bytes × Res β) : Bytes × Res β :=
  match x with
  | (s, .ok a) => k s a
  | (s, .err e) => (s, .err e)
  | (s, .panic p) => (s, .panic p)

@[simp] theorem fr_then_ok {α β : Type} (s : Bytes) (a : α) (k : Bytes → α → Bytes × Res β) :
    fr_then (s, Res.ok a) k = k s a := rfl
@[simp] theorem fr_then_err {α β : Type} (s : Bytes) (e : Err) (k : Bytes → α → Bytes × Res β) :
    fr_then ((s, Res.err e) : Bytes × Res α) k = (s, Res.err e) := rfl
@[simp] theorem fr_then_panic {α β : Type} (s : Bytes) (p : PanicSite)
    (k : Bytes → α → Bytes × Res β) :
    fr_then ((s, Res.panic p) : Bytes × Res α) k = (s, Res.panic p) := rfl

/-! ### the monad -/

theorem fr_bind_apply {α β : Type} (x : M α) (k : α → M β) (s : Bytes) :
    (x >>= k) s = fr_then (x s) (fun s a => k a s) := by
  show M.bind x k s = _
  unfold M.bind fr_then
  rcases x s with ⟨s', r⟩
  cases r <;> rfl

theorem fr_pure_apply {α : Type} (a : α) (s : Bytes) : (pure a : M α) s = (s, Res.ok a) := rfl

theorem fr_ite_apply {α : Type} (c : Prop) [Decidable c] (x y : M α) (s : Bytes) :
    (if c then x else y) s = if c then x s else y s := by
  by_cases h : c <;> simp [h]

/-! ### leaves -/

theorem fr_throwE_apply {α : Type} (e : Err) (s : Bytes) :
    (throwE e : M α) s = (s, Res.err e) := rfl
theorem fr_panicAt_apply {α : Type} (p : PanicSite) (s : Bytes) :
    (panicAt p : M α) s = (s, Res.panic p) := rfl
theorem fr_liftRes_apply {α : Type} (r : Res α) (s : Bytes) : liftRes r s = (s, r) := rfl
theorem fr_getW_apply (s : Bytes) : getW s = (s, Res.ok s) := rfl
theorem fr_modifyW_apply (f : Bytes → Bytes) (s : Bytes) : modifyW f s = (f s, Res.ok ()) := rfl
theorem fr_headerFormatInto_apply (h : Header) (n : Nat) (s : Bytes) :
    headerFormatInto h n s = (s ++ h.format n, Res.ok ()) := rfl
theorem fr_appendOut_apply (bs s : Bytes) : appendOut bs s = (s ++ bs, Res.ok ()) := rfl
theorem fr_maskOutFrom_apply (start : Nat) (m : Mask) (s : Bytes) :
    maskOutFrom start m s = (s.take start ++ applyMask m (s.drop start), Res.ok ()) := rfl

/-- normal form: every `>>=` / leaf applied to an output buffer becomes `fr_then` / a pair -/
syntax "fr_norm" ("[" Lean.Parser.Tactic.simpLemma,* "]")? : tactic
macro_rules
  | `(tactic| fr_norm) => `(tactic| simp only [fr_bind_apply, fr_pure_apply, fr_ite_apply,
      fr_throwE_apply, fr_panicAt_apply, fr_liftRes_apply, fr_getW_apply, fr_modifyW_apply,
      fr_headerFormatInto_apply, fr_appendOut_apply, fr_maskOutFrom_apply,
      fr_then_ok, fr_then_err, fr_then_panic])
  | `(tactic| fr_norm [$ls,*]) => `(tactic| simp only [fr_bind_apply, fr_pure_apply, fr_ite_apply,
      fr_throwE_apply, fr_panicAt_apply, fr_liftRes_apply, fr_getW_apply, fr_modifyW_apply,
      fr_headerFormatInto_apply, fr_appendOut_apply, fr_maskOutFrom_apply,
      fr_then_ok, fr_then_err, fr_then_panic, $ls,*])

end WsProofs.Tie
