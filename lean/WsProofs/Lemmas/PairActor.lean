import WsProofs.Lemmas.PairAct

/-! Two-party proofs, layer 6: the complete effect of one scheduled action on the acting endpoint
and on both directions of the connection (`act_step`). -/
namespace WsProofs.Pair
open WsModel WsModel.Gen WsModel.Spec WsProofs WsProofs.Read WsProofs.Pipe

/-- what is known before the action: `A` acts (role `rA`), `O` is its peer; `nIn` frames of `O`
have been consumed by `A`, `nOut` frames of `A` by `O`; `oD`: the peer dropped its transport -/
structure ActHyp (rA rO : Role) (A O : World) (Pin Pout : Bytes) (oD : Bool) (nIn nOut : Nat) :
    Prop where
  roles : rA = peerOf rO
  wa : WI rA A
  wo : WI rO O
  din : A.c.state ≠ .terminated → Dir O A Pin nIn
  dout : O.c.state ≠ .terminated → Dir A O Pout nOut
  lin : nIn ≤ O.queued.length
  lout : nOut ≤ A.queued.length
  eofH : oD = true → rA = .client → O.c.codec.outBuf = [] ∧ ∃ f ∈ O.queued, f.isClose = true
  eofA : oD = true → rA = .server → A.c.state = .terminated

/-- what holds after the action -/
structure ActRes (rA rO : Role) (A O : World) (Pin Pout : Bytes) (oD : Bool) (nIn nOut : Nat)
    (a : Action) (nIn' : Nat) : Prop where
  wa : WI rA (actW A Pin oD a).1
  lin : nIn' ≤ O.queued.length
  din : (actW A Pin oD a).1.c.state ≠ .terminated →
    Dir O (actW A Pin oD a).1 (Pin.drop (actConsumed A Pin oD a)) nIn'
  dout : O.c.state ≠ .terminated →
    Dir (actW A Pin oD a).1 O (Pout ++ actSent A Pin oD a) nOut
  lout : nOut ≤ (actW A Pin oD a).1.queued.length
  out : OutOk (actW A Pin oD a).2
  read : dataOfFrames (O.queued.take nIn') =
    dataOfFrames (O.queued.take nIn) ++ dataOfOut (actW A Pin oD a).2
  written : dataOfFrames (actW A Pin oD a).1.queued =
    dataOfFrames A.queued ++ dataWrittenOf a.op (actW A Pin oD a).2
  cc : (actW A Pin oD a).2.isConnectionClosed = true →
    (actW A Pin oD a).1.c.state = .terminated ∧ (rA = .client → oD = true) ∧
    (rA = .server → (actW A Pin oD a).1.c.codec.outBuf = [] ∧
      ∃ f ∈ (actW A Pin oD a).1.queued, f.isClose = true)
  frozen : A.c.state = .terminated →
    (actW A Pin oD a).1.c = A.c ∧ (actW A Pin oD a).1.queued = A.queued
  tr : Tr A.c.state (actW A Pin oD a).1.c.state = true

theorem actIn_wi {rA : Role} {A : World} (h : WI rA A) (Pin : Bytes) (oD : Bool) (a : Action) :
    WI rA (actIn A Pin oD a) := h.retarget _ rfl

theorem isCC_iff (o : Out) : o.isConnectionClosed = true ↔ o.err? = some .connectionClosed := by
  unfold Out.isConnectionClosed
  exact beq_iff_eq

/-! ### the parts that do not depend on the operation -/

theorem act_generic {rA rO : Role} {A O : World} {Pin Pout : Bytes} {oD : Bool} {nIn nOut : Nat}
    (H : ActHyp rA rO A O Pin Pout oD nIn nOut) (a : Action) (hb : a.Benign) (hop : OpOk a.op) :
    (O.c.state ≠ .terminated → Dir (actW A Pin oD a).1 O (Pout ++ actSent A Pin oD a) nOut) ∧
    nOut ≤ (actW A Pin oD a).1.queued.length ∧
    (dataOfFrames (actW A Pin oD a).1.queued =
      dataOfFrames A.queued ++ dataWrittenOf a.op (actW A Pin oD a).2) ∧
    ((actW A Pin oD a).2.isConnectionClosed = true →
      (actW A Pin oD a).1.c.state = .terminated ∧ (rA = .client → oD = true) ∧
      (rA = .server → (actW A Pin oD a).1.c.codec.outBuf = [] ∧
        ∃ f ∈ (actW A Pin oD a).1.queued, f.isClose = true)) ∧
    (A.c.state = .terminated →
      (actW A Pin oD a).1.c = A.c ∧ (actW A Pin oD a).1.queued = A.queued) ∧
    Tr A.c.state (actW A Pin oD a).1.c.state = true := by
  have hW0 := actIn_wi H.wa Pin oD a
  have hraw := hop.1
  have hI' : Inv (actW A Pin oD a).1 := step_inv _ _ hW0.inv hraw
  obtain ⟨d, hd⟩ := step_accepted (actIn A Pin oD a) a.op
  obtain ⟨l, hl⟩ := step_queued_ext (actIn A Pin oD a) a.op hW0.inv hraw
  have hsent : actSent A Pin oD a = d := by
    unfold actSent
    have : (actW A Pin oD a).1.t.accepted = A.t.accepted ++ d := hd
    rw [this]
    exact List.drop_left' rfl
  have hq : (actW A Pin oD a).1.queued = A.queued ++ l := hl
  refine ⟨?_, ?_, ?_, ?_, ?_, ?_⟩
  · intro hO
    rw [hsent]
    exact (H.dout hO).writer H.lout H.wa.inv hI' hq hd
  · rw [hq, List.length_append]
    have := H.lout
    omega
  · exact step_written (actIn A Pin oD a) a.op hW0.inv hraw
  · intro hcc
    have hcc' := (isCC_iff _).mp hcc
    obtain ⟨c1, c2, c3, c4⟩ := step_cc (actIn A Pin oD a) a.op hW0.inv hraw hcc'
    have hnt : A.c.state ≠ .terminated := c2
    have hgood := tfor_good A Pin oD a hb
    have hend : LogEnded (actIn A Pin oD a).t.log (actW A Pin oD a).1.t.log → oD = true := by
      intro he
      have hdef : (tfor A Pin oD a).rdDef = .eof :=
        logEnded_eof (step_tr' (actIn A Pin oD a) a.op) hgood he
      rcases tfor_rdDef A Pin oD a with h | ⟨_, _, h, _⟩
      · rw [h] at hdef; cases hdef
      · exact h
    refine ⟨c3, ?_, ?_⟩
    · intro hc
      rcases c4 with ⟨r1, _, _⟩ | c4
      · have : (actIn A Pin oD a).c.role = rA := hW0.role
        rw [this, hc] at r1; cases r1
      · exact hend c4
    · intro hs
      have hnotD : oD = false := by
        cases hoD : oD with
        | false => rfl
        | true => exact absurd (H.eofA hoD hs) hnt
      rcases c4 with ⟨_, r2, r3⟩ | c4
      · refine ⟨r2, ?_⟩
        have hc3 : (actIn A Pin oD a).c.state.closing3 = true := closing3_of c1 c2
        obtain ⟨pl, hp⟩ := hW0.kp hc3
        obtain ⟨w0, w1, _, hpre, hsd, hov⟩ := step_decomp (actIn A Pin oD a) a.op hW0.inv hraw
        have hp' : C13.ClosePending (actW A Pin oD a).1 pl := ((hp.pre hpre).sd hsd).ovw hov
        have r3' : (actW A Pin oD a).1.c.additional = none := r3
        rcases hp' with ⟨f, hf, _, _⟩ | ⟨f, hf, hfc, _⟩
        · rw [r3'] at hf; cases hf
        · exact ⟨f, hf, hfc⟩
      · rw [hend c4] at hnotD; cases hnotD
  · intro hterm
    have := (C03.C03_terminated_frozen (actIn A Pin oD a) a.op hterm).1
    have h1 : (actW A Pin oD a).1 = actIn A Pin oD a := this
    rw [h1]
    exact ⟨rfl, rfl⟩
  · exact step_tr (actIn A Pin oD a) a.op

/-! ### operations other than `read` -/

theorem act_nonread {rA rO : Role} {A O : World} {Pin Pout : Bytes} {oD : Bool} {nIn nOut : Nat}
    (H : ActHyp rA rO A O Pin Pout oD nIn nOut) (a : Action) (hop : OpOk a.op)
    (hnr : a.op ≠ .read) :
    WI rA (actW A Pin oD a).1 ∧
    ((actW A Pin oD a).1.c.state ≠ .terminated →
      Dir O (actW A Pin oD a).1 (Pin.drop (actConsumed A Pin oD a)) nIn) ∧
    OutOk (actW A Pin oD a).2 ∧ dataOfOut (actW A Pin oD a).2 = [] := by
  have hW0 := actIn_wi H.wa Pin oD a
  obtain ⟨hW', hrs, hst⟩ := nonread_step (actIn A Pin oD a) a.op hW0 hop hnr
  refine ⟨hW', ?_, nonread_out _ _ hop.1 hnr, ?_⟩
  · intro hnt'
    have hnt : A.c.state ≠ .terminated := by
      intro h
      have htr : Tr A.c.state (actW A Pin oD a).1.c.state = true := step_tr (actIn A Pin oD a) a.op
      rw [h] at htr
      cases hs : (actW A Pin oD a).1.c.state with
      | terminated => exact hnt' hs
      | _ => rw [hs] at htr; cases htr
    have hpin : Pin.drop (actConsumed A Pin oD a) = Pin := by
      rw [pin_after A Pin oD a (by
        have : (actW A Pin oD a).1.t.rd = (tfor A Pin oD a).rd := hrs.t.rd
        rw [this]; exact List.suffix_refl _)]
      have : (actW A Pin oD a).1.t.rd = (tfor A Pin oD a).rd := hrs.t.rd
      rw [this, tfor_dataOf, List.take_append_drop]
    rw [hpin]
    exact (H.din hnt).reader_same hrs.header hrs.inBuf hst hnt'
  · have : ∃ r, (actW A Pin oD a).2 = .unit r := by
      unfold actW
      cases hop' : a.op with
      | read => exact absurd hop' hnr
      | write m => exact ⟨_, rfl⟩
      | flush => exact ⟨_, rfl⟩
      | close c => exact ⟨_, rfl⟩
    obtain ⟨r, hr⟩ := this
    rw [hr]; rfl

end WsProofs.Pair
