import WsProofs.Lemmas.ReadTotal

/-! The specification on a (purely mathematical) stream of more than 2^64 bytes: a binary message
in two fragments of 2^63 bytes each. With no message-size limit the specification goes on; with
the limit `usize::MAX` (what the implementation enforces when no limit is configured) it reports
a capacity error. -/
namespace WsProofs.Read
open WsModel WsModel.Gen WsModel.Spec

/-- 2^63 -/
def half : Nat := 9223372036854775808

/-- a frame header: first byte `b0`, unmasked, 64-bit length form announcing 2^63 payload bytes -/
def bigHdr (b0 : UInt8) (X : Bytes) : Bytes :=
  b0 :: 0x7f :: 0x80 :: 0 :: 0 :: 0 :: 0 :: 0 :: 0 :: 0 :: X

theorem big_header (b0 : UInt8) (hb : b0.toNat < 16) (X : Bytes) :
    rawHeader (bigHdr b0 X) = some ⟨false, 0, b0.toNat, none, half, 10⟩ := by
  unfold bigHdr
  rw [rawHeader_cons]
  have h127 : (0x7f : UInt8).toNat % 128 = 127 := by decide
  rw [h127]
  rw [if_neg (by decide), if_neg (by decide)]
  have hl : ¬ (0x80 :: 0 :: 0 :: 0 :: 0 :: 0 :: 0 :: (0 : UInt8) :: X).length < 8 := by
    simp only [List.length_cons]; omega
  rw [if_neg hl]
  have ht : (0x80 :: 0 :: 0 :: 0 :: 0 :: 0 :: 0 :: (0 : UInt8) :: X).take 8 =
      [0x80, 0, 0, 0, 0, 0, 0, 0] := rfl
  have hd : (0x80 :: 0 :: 0 :: 0 :: 0 :: 0 :: 0 :: (0 : UInt8) :: X).drop 8 = X := rfl
  rw [ht, hd]
  have hbe : beNat [0x80, 0, 0, 0, 0, 0, 0, 0] = half := by decide
  rw [hbe]
  have hm : decide ((0x7f : UInt8).toNat ≥ 128) = false := by decide
  have hf : decide (b0.toNat ≥ 128) = false := by rw [decide_eq_false_iff_not]; omega
  have h1 : b0.toNat / 16 % 8 = 0 := by omega
  have h2 : b0.toNat % 16 = b0.toNat := by omega
  simp only [rawTail, hm, rawMask, Bool.false_eq_true, if_false, Option.map_some, hf, h1, h2,
    Nat.add_zero]

/-- one such frame, received by a client -/
theorem frameStep_big (au : Bool) (lim : Limits) (k : Option Partial → Bytes → List Message × End)
    (frag : Option Partial) (b0 : UInt8) (hb : b0.toNat < 16)
    (hd : isDefinedOpcode b0.toNat = true) (hmf : lim.maxFrame = none) (n : Nat) (hn : n = half)
    (X : Bytes) :
    frameStep .client au lim k frag (bigHdr b0 (List.replicate n 0 ++ X)) =
      match frameMeaning lim frag false b0.toNat (List.replicate n 0) with
      | .fail c => ([], .error c)
      | .close m => ([m], .closed)
      | .deliver m frag' => consMsg m (k frag' X)
      | .continue_ frag' => k frag' X := by
  unfold frameStep
  rw [big_header b0 hb]
  dsimp only
  rw [hd, hmf]
  have hlen : ¬ (bigHdr b0 (List.replicate n 0 ++ X)).length < 10 + half := by
    simp only [bigHdr, List.length_cons, List.length_append, List.length_replicate]
    omega
  have hraw : ((bigHdr b0 (List.replicate n 0 ++ X)).drop 10).take half = List.replicate n 0 := by
    show (List.replicate n 0 ++ X).take half = _
    rw [← hn]
    exact List.take_left' List.length_replicate
  have hrest : ((bigHdr b0 (List.replicate n 0 ++ X)).drop 10).drop half = X := by
    show (List.replicate n 0 ++ X).drop half = _
    rw [← hn]
    exact List.drop_left' List.length_replicate
  simp only [Bool.not_true, Bool.false_eq_true, if_false, overLimit, hlen, hraw, hrest,
    reduceCtorEq, false_and, ne_eq, not_true_eq_false, Option.isSome_none, and_false]
  cases frameMeaning lim frag false b0.toNat (List.replicate n 0) <;> rfl

/-- the two-fragment stream -/
def bigStream (n : Nat) : Bytes :=
  bigHdr 0x02 (List.replicate n 0 ++ bigHdr 0x00 (List.replicate n 0 ++ []))

theorem dec_nil (role : Role) (au : Bool) (lim : Limits) (frag : Option Partial) :
    dec role au lim frag [] = ([], .needMore) := by
  rw [dec_step]; rfl

theorem big_unlimited (au : Bool) (n : Nat) (hn : n = half) :
    Spec.decode .client au ⟨none, none⟩ (bigStream n) = ([], .needMore) := by
  rw [decode_eq_dec, dec_step]
  unfold bigStream
  rw [frameStep_big au _ _ _ 0x02 (by decide) (by decide) rfl n hn]
  rw [show (0x02 : UInt8).toNat = 2 from rfl, frameMeaning_data _ _ _ _ _ (Or.inr rfl)]
  simp only [overLimit, Bool.false_eq_true, if_false]
  rw [if_neg (show ¬ (2 : Nat) = 1 by decide)]
  dsimp only
  rw [dec_step, frameStep_big au _ _ _ 0x00 (by decide) (by decide) rfl n hn]
  rw [show (0x00 : UInt8).toNat = 0 from rfl, frameMeaning_cont]
  simp only [overLimit, Bool.false_eq_true, if_false]
  exact dec_nil _ _ _ _

theorem big_effective (au : Bool) (n : Nat) (hn : n = half) :
    Spec.decode .client au ⟨none, some usizeMax⟩ (bigStream n) = ([], .error .capacity) := by
  rw [decode_eq_dec, dec_step]
  unfold bigStream
  rw [frameStep_big au _ _ _ 0x02 (by decide) (by decide) rfl n hn]
  rw [show (0x02 : UInt8).toNat = 2 from rfl, frameMeaning_data _ _ _ _ _ (Or.inr rfl)]
  have h1 : ¬ n > usizeMax := by rw [hn]; decide
  simp only [overLimit, List.length_replicate, h1, decide_false, Bool.false_eq_true, if_false]
  rw [if_neg (show ¬ (2 : Nat) = 1 by decide)]
  dsimp only
  rw [dec_step, frameStep_big au _ _ _ 0x00 (by decide) (by decide) rfl n hn]
  rw [show (0x00 : UInt8).toNat = 0 from rfl, frameMeaning_cont]
  have h2 : n + n > usizeMax := by rw [hn]; decide
  simp only [overLimit, List.length_replicate, h2, decide_true, if_true]

end WsProofs.Read
