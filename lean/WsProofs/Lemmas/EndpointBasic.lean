import WsModel.Endpoint

/-! Generic rules for `andThen`, the byte-level facts about `Frame.format`, and specifications of
the transport and codec functions used by the endpoint proofs (C03, C10). -/

-- `WsState.closing3` / `closeReceived` are declared in `WsModel` while `WsState` lives in
-- `WsModel.Gen`; the alias makes the dot notation `s.closing3` resolve to the model's constant.
namespace WsModel.Gen
export WsModel (WsState.closing3 WsState.closeReceived)
end WsModel.Gen

namespace WsProofs
open WsModel WsModel.Gen

/-! ### `andThen` -/

/-- Hoare rule for Rust's `?` with result-dependent postconditions -/
theorem andThen_spec {α β : Type} {Q1 : World → Res α → Prop} {Q2 : World → Res β → Prop}
    (x : World × Res α) (k : World → α → World × Res β)
    (hx : Q1 x.1 x.2)
    (hok : ∀ w a, Q1 w (.ok a) → Q2 (k w a).1 (k w a).2)
    (herr : ∀ w e, Q1 w (.err e) → Q2 w (.err e))
    (hpanic : ∀ w s, Q1 w (.panic s) → Q2 w (.panic s)) :
    Q2 (andThen x k).1 (andThen x k).2 := by
  rcases x with ⟨w, a | e | s⟩
  · exact hok w a hx
  · exact herr w e hx
  · exact hpanic w s hx

theorem andThen_pres {α β : Type} {P : World → Prop} (x : World × Res α)
    (k : World → α → World × Res β)
    (hx : P x.1) (hk : ∀ w a, P w → P (k w a).1) : P (andThen x k).1 := by
  rcases x with ⟨w, a | e | s⟩
  · exact hk w a hx
  · exact hx
  · exact hx

/-- preservation when the continuation may use that the first part returned `ok` -/
theorem andThen_pres' {α β : Type} {P : World → Prop} (x : World × Res α)
    (k : World → α → World × Res β)
    (hx : P x.1) (hk : ∀ w a, x = (w, .ok a) → P w → P (k w a).1) : P (andThen x k).1 := by
  rcases x with ⟨w, a | e | s⟩
  · exact hk w a rfl hx
  · exact hx
  · exact hx

theorem andThen_ok {α β : Type} (x : World × Res α) (k : World → α → World × Res β) (b : β)
    (h : (andThen x k).2 = .ok b) : ∃ a, x.2 = .ok a ∧ (k x.1 a).2 = .ok b ∧
      (andThen x k).1 = (k x.1 a).1 := by
  rcases x with ⟨w, a | e | s⟩
  · exact ⟨a, rfl, h, rfl⟩
  · simp [andThen] at h
  · simp [andThen] at h

/-! ### wire image -/

theorem encodeAll_append (a b : List Frame) : encodeAll (a ++ b) = encodeAll a ++ encodeAll b := by
  induction a with
  | nil => rfl
  | cons f fs ih => simp [encodeAll, ih]

theorem encodeAll_singleton (f : Frame) : encodeAll [f] = f.format := by
  simp [encodeAll]

theorem formatIntoBuf_eq (f : Frame) (buf : Bytes) : f.formatIntoBuf buf = buf ++ f.format := by
  unfold Frame.formatIntoBuf Frame.format
  cases f.header.mask with
  | none => simp
  | some m =>
    simp only []
    rw [List.take_left', List.drop_left']
    · simp
    · rfl
    · rfl

theorem applyMaskFrom_length (m : Mask) (off : Nat) (bs : Bytes) :
    (applyMaskFrom m off bs).length = bs.length := by
  induction bs generalizing off with
  | nil => rfl
  | cons b bs ih => simp [applyMaskFrom, ih]

theorem applyMask_length (m : Mask) (bs : Bytes) : (applyMask m bs).length = bs.length :=
  applyMaskFrom_length m 0 bs

theorem beBytes_length (k n : Nat) : (beBytes k n).length = k := by
  induction k generalizing n with
  | zero => rfl
  | succ k ih => simp [beBytes, ih]

theorem Header.format_length (h : Header) (n : Nat) : (h.format n).length = h.len n := by
  unfold Header.format Header.len headerLen Header.extLen Header.maskBytes
  generalize lfForLength n = lf
  cases h.mask <;> cases lf <;> simp [lfExtraBytes, beBytes_length, Mask.toBytes]

theorem Frame.format_length (f : Frame) : f.format.length = f.len := by
  unfold Frame.format Frame.len
  cases h : f.header.mask <;> simp [Header.format_length, applyMask_length]

/-! ### transport -/

theorem Transport.writeEv_spec (t : Transport) (buf : Bytes) (e : WrEv) :
    (t.writeEv buf e).1.log = Call.write buf.length e :: t.log ∧
    ((∃ k, e = .accept k ∧ (t.writeEv buf e).2 = .ok (min k buf.length) ∧
        (t.writeEv buf e).1.accepted = t.accepted ++ buf.take (min k buf.length)) ∨
     (∃ k, e = .err k ∧ (t.writeEv buf e).2 = .err k ∧ (t.writeEv buf e).1.accepted = t.accepted)) := by
  cases e with
  | accept k => exact ⟨rfl, Or.inl ⟨k, rfl, rfl, rfl⟩⟩
  | err k => exact ⟨rfl, Or.inr ⟨k, rfl, rfl, rfl⟩⟩

theorem Transport.write_spec (t : Transport) (buf : Bytes) :
    ∃ e, (t.write buf).1.log = Call.write buf.length e :: t.log ∧
    ((∃ k, e = .accept k ∧ (t.write buf).2 = .ok (min k buf.length) ∧
        (t.write buf).1.accepted = t.accepted ++ buf.take (min k buf.length)) ∨
     (∃ k, e = .err k ∧ (t.write buf).2 = .err k ∧ (t.write buf).1.accepted = t.accepted)) := by
  obtain ⟨rd, wr, fl, rdDef, wrDef, flDef, accepted, flushedUpTo, log, exhausted⟩ := t
  cases wr with
  | nil => exact ⟨wrDef, Transport.writeEv_spec _ buf wrDef⟩
  | cons e rest => exact ⟨e, Transport.writeEv_spec _ buf e⟩

theorem Transport.read_spec (t : Transport) :
    (t.read).1.log = Call.read (t.read).2 :: t.log ∧ (t.read).1.accepted = t.accepted ∧
    (t.read).1.flushedUpTo = t.flushedUpTo := by
  obtain ⟨rd, wr, fl, rdDef, wrDef, flDef, accepted, flushedUpTo, log, exhausted⟩ := t
  cases rd <;> exact ⟨rfl, rfl, rfl⟩

theorem Transport.flush_spec (t : Transport) :
    (t.flush).1.log = Call.flush (t.flush).2 :: t.log ∧ (t.flush).1.accepted = t.accepted ∧
    ((t.flush).2 = .ok → (t.flush).1.flushedUpTo = t.accepted.length) := by
  obtain ⟨rd, wr, fl, rdDef, wrDef, flDef, accepted, flushedUpTo, log, exhausted⟩ := t
  cases fl with
  | nil => cases flDef <;> simp [Transport.flush, Transport.flushEv]
  | cons e rest => cases e <;> simp [Transport.flush, Transport.flushEv]

/-! ### log bookkeeping -/

/-- the transport log only grows -/
def LogExt (l l' : List Call) : Prop := ∃ n, l' = n ++ l

/-- the transport log grew by calls one of which told the endpoint the transport is gone -/
def LogEnded (l l' : List Call) : Prop := ∃ n, l' = n ++ l ∧ ∃ call ∈ n, call.isEnd = true

theorem LogExt.refl (l : List Call) : LogExt l l := ⟨[], rfl⟩

theorem LogExt.trans {a b c : List Call} (h1 : LogExt a b) (h2 : LogExt b c) : LogExt a c := by
  obtain ⟨n1, rfl⟩ := h1
  obtain ⟨n2, rfl⟩ := h2
  exact ⟨n2 ++ n1, by simp⟩

theorem LogEnded.ext {a b : List Call} (h : LogEnded a b) : LogExt a b := by
  obtain ⟨n, h, _⟩ := h
  exact ⟨n, h⟩

theorem LogEnded.trans_left {a b c : List Call} (h1 : LogEnded a b) (h2 : LogExt b c) :
    LogEnded a c := by
  obtain ⟨n1, rfl, call, hc, he⟩ := h1
  obtain ⟨n2, rfl⟩ := h2
  exact ⟨n2 ++ n1, by simp, call, by simp [hc], he⟩

theorem LogEnded.trans_right {a b c : List Call} (h1 : LogExt a b) (h2 : LogEnded b c) :
    LogEnded a c := by
  obtain ⟨n1, rfl⟩ := h1
  obtain ⟨n2, rfl, call, hc, he⟩ := h2
  exact ⟨n2 ++ n1, by simp, call, by simp [hc], he⟩

theorem LogEnded.newCalls {w w' : World} (h : LogEnded w.t.log w'.t.log) :
    ∃ call ∈ newCalls w w', call.isEnd = true := by
  obtain ⟨n, hn, call, hc, he⟩ := h
  refine ⟨call, ?_, he⟩
  unfold WsModel.newCalls
  rw [hn]
  simp [hc]

/-! ### codec: the write side -/

structure WLSpec (c : Codec) (t : Transport) (c' : Codec) (t' : Transport) (r : Res Unit) : Prop where
  fifo : t'.accepted ++ c'.outBuf = t.accepted ++ c.outBuf
  len : c'.outBuf.length ≤ c.outBuf.length
  inBuf : c'.inBuf = c.inBuf
  maxOut : c'.maxOut = c.maxOut
  writeLen : c'.writeLen = c.writeLen
  header : c'.header = c.header
  log : LogExt t.log t'.log
  ended : r = .err (.io .reset) → LogEnded t.log t'.log
  kind : r = .ok () ∨ ∃ k, r = .err (.io k)
  empty : r = .ok () → c'.outBuf = []

theorem Codec.writeLoop_spec (fuel : Nat) (c : Codec) (t : Transport) (hf : c.outBuf.length ≤ fuel) :
    WLSpec c t (Codec.writeLoop fuel c t).1 (Codec.writeLoop fuel c t).2.1
      (Codec.writeLoop fuel c t).2.2 := by
  induction fuel generalizing c t with
  | zero =>
    have he : c.outBuf = [] := List.eq_nil_of_length_eq_zero (Nat.le_zero.mp hf)
    simp only [Codec.writeLoop, he, List.isEmpty_nil, if_true]
    exact ⟨rfl, Nat.le_refl _, rfl, rfl, rfl, rfl, LogExt.refl _, by simp, Or.inl rfl, fun _ => he⟩
  | succ fuel ih =>
    by_cases hE : c.outBuf.isEmpty = true
    · simp only [Codec.writeLoop, hE, if_true]
      exact ⟨rfl, Nat.le_refl _, rfl, rfl, rfl, rfl, LogExt.refl _, by simp, Or.inl rfl,
        fun _ => List.isEmpty_iff.mp hE⟩
    · have hne : c.outBuf ≠ [] := fun h => hE (by simp [h])
      have hpos : 0 < c.outBuf.length := List.length_pos_iff.mpr hne
      obtain ⟨e, hlog, hcase⟩ := Transport.write_spec t c.outBuf
      simp only [Codec.writeLoop, hE]
      cases hw : t.write c.outBuf with
      | mk t1 r =>
        rw [hw] at hlog hcase
        simp only [] at hlog hcase
        rcases hcase with ⟨k, rfl, rfl, hacc⟩ | ⟨k, rfl, rfl, hacc⟩
        · by_cases hn : min k c.outBuf.length = 0
          · simp only [hn, if_true, Bool.false_eq_true, if_false]
            have hk : k = 0 := by omega
            subst hk
            refine ⟨?_, Nat.le_refl _, rfl, rfl, rfl, rfl, ⟨[_], hlog⟩, ?_, Or.inr ⟨_, rfl⟩, by simp⟩
            · rw [hacc, hn]; simp
            · intro _
              exact ⟨[_], hlog, _, List.mem_singleton.mpr rfl, rfl⟩
          · simp only [hn, if_false, Bool.false_eq_true]
            have h2 := ih { c with outBuf := c.outBuf.drop (min k c.outBuf.length) } t1
              (by simp only [List.length_drop]; omega)
            refine ⟨?_, ?_, h2.inBuf, h2.maxOut, h2.writeLen, h2.header, ?_, ?_, h2.kind, h2.empty⟩
            · rw [h2.fifo, hacc, List.append_assoc, List.take_append_drop]
            · have := h2.len
              simp only [List.length_drop] at this
              omega
            · exact LogExt.trans ⟨[_], hlog⟩ h2.log
            · intro hr
              exact LogEnded.trans_right ⟨[_], hlog⟩ (h2.ended hr)
        · simp only [Bool.false_eq_true, if_false]
          refine ⟨?_, Nat.le_refl _, rfl, rfl, rfl, rfl, ⟨[_], hlog⟩, ?_, Or.inr ⟨_, rfl⟩, by simp⟩
          · rw [hacc]
          · intro hr
            have hk : k = .reset := by simpa using hr
            subst hk
            exact ⟨[_], hlog, _, List.mem_singleton.mpr rfl, rfl⟩

theorem Codec.writeOutBuffer_spec (c : Codec) (t : Transport) :
    WLSpec c t (c.writeOutBuffer t).1 (c.writeOutBuffer t).2.1 (c.writeOutBuffer t).2.2 :=
  Codec.writeLoop_spec _ c t (Nat.le_refl _)

/-- `Codec.bufferFrame`: either refused with the frame handed back and nothing changed, or the
frame's image is appended and some prefix of the buffer handed to the transport -/
structure CBSpec (c : Codec) (t : Transport) (f : Frame) (c' : Codec) (t' : Transport)
    (r : Res Unit) : Prop where
  inBuf : c'.inBuf = c.inBuf
  maxOut : c'.maxOut = c.maxOut
  writeLen : c'.writeLen = c.writeLen
  header : c'.header = c.header
  log : LogExt t.log t'.log
  ended : r = .err (.io .reset) → LogEnded t.log t'.log
  cases : (r = .err (.writeBufferFull f) ∧ c' = c ∧ t' = t) ∨
    ((r = .ok () ∨ ∃ k, r = .err (.io k)) ∧
      t'.accepted ++ c'.outBuf = t.accepted ++ c.outBuf ++ f.format ∧
      c'.outBuf.length ≤ c.maxOut)

theorem Codec.bufferFrame_spec (c : Codec) (t : Transport) (f : Frame) :
    CBSpec c t f (c.bufferFrame t f).1 (c.bufferFrame t f).2.1 (c.bufferFrame t f).2.2 := by
  unfold Codec.bufferFrame
  by_cases hfull : f.len + c.outBuf.length > c.maxOut
  · simp only [hfull, if_true]
    exact ⟨rfl, rfl, rfl, rfl, LogExt.refl _, by simp, Or.inl ⟨rfl, rfl, rfl⟩⟩
  · simp only [hfull, if_false, formatIntoBuf_eq]
    have hlen : (c.outBuf ++ f.format).length ≤ c.maxOut := by
      rw [List.length_append, Frame.format_length]; omega
    by_cases hw : (c.outBuf ++ f.format).length > c.writeLen
    · simp only [hw, if_true]
      have h := Codec.writeOutBuffer_spec { c with outBuf := c.outBuf ++ f.format } t
      refine ⟨h.inBuf, h.maxOut, h.writeLen, h.header, h.log, h.ended, Or.inr ⟨h.kind, ?_, ?_⟩⟩
      · rw [h.fifo, List.append_assoc]
      · exact Nat.le_trans h.len hlen
    · simp only [hw, if_false]
      exact ⟨rfl, rfl, rfl, rfl, LogExt.refl _, by simp, Or.inr ⟨Or.inl rfl, by simp, hlen⟩⟩

/-! ### codec: the read side leaves the write side alone -/

theorem Header.parseFinish_error (first : UInt8) (o : OpCode) (len : Nat) (m : Option Mask) (u : Nat)
    (e : Err) (h : Header.parseFinish first o len m u = .error e) : ∃ p, e = .protocol p := by
  unfold Header.parseFinish at h
  by_cases hr : isReservedOpcode o = true
  · simp only [hr, if_true] at h
    injection h with h
    exact ⟨_, h.symm⟩
  · simp only [hr] at h
    cases h

theorem Header.parseMask_error (first second : UInt8) (o : OpCode) (len : Nat) (rest : Bytes) (u : Nat)
    (e : Err) (h : Header.parseMask first second o len rest u = .error e) : ∃ p, e = .protocol p := by
  unfold Header.parseMask at h
  by_cases hm : ((second &&& UInt8.ofNat parseBitMasked) != 0) = true
  · simp only [hm, if_true] at h
    match rest, h with
    | a :: b :: c :: d :: _, h => exact Header.parseFinish_error _ _ _ _ _ _ h
  · simp only [hm] at h
    exact Header.parseFinish_error _ _ _ _ _ _ h

theorem Header.parseLen_error (first second : UInt8) (o : OpCode) (rest : Bytes)
    (e : Err) (h : Header.parseLen first second o rest = .error e) : ∃ p, e = .protocol p := by
  unfold Header.parseLen at h
  simp only [] at h
  by_cases h0 : lfExtraBytes (lfForByte (second &&& UInt8.ofNat lenMask).toNat) > 0
  · simp only [h0, if_true] at h
    by_cases h8 : lfExtraBytes (lfForByte (second &&& UInt8.ofNat lenMask).toNat) > 8
    · simp only [h8, if_true] at h; cases h
    · simp only [h8, if_false] at h
      by_cases hl : rest.length < lfExtraBytes (lfForByte (second &&& UInt8.ofNat lenMask).toNat)
      · simp only [hl, if_true] at h; cases h
      · simp only [hl, if_false] at h
        exact Header.parseMask_error _ _ _ _ _ _ _ h
  · simp only [h0, if_false] at h
    exact Header.parseMask_error _ _ _ _ _ _ _ h

theorem Header.parse_error (bs : Bytes) (e : Err) (h : Header.parse bs = .error e) :
    ∃ p, e = .protocol p := by
  unfold Header.parse at h
  match bs, h with
  | first :: second :: rest, h =>
    simp only [] at h
    cases ho : opCodeOfU8 (first &&& UInt8.ofNat opcodeMask).toNat with
    | none => rw [ho] at h; cases h
    | some o => rw [ho] at h; exact Header.parseLen_error _ _ _ _ _ h

/-- what the read side may change -/
structure RSame (c c' : Codec) : Prop where
  outBuf : c'.outBuf = c.outBuf
  maxOut : c'.maxOut = c.maxOut
  writeLen : c'.writeLen = c.writeLen

theorem RSame.refl (c : Codec) : RSame c c := ⟨rfl, rfl, rfl⟩

theorem RSame.trans {a b c : Codec} (h1 : RSame a b) (h2 : RSame b c) : RSame a c :=
  ⟨h2.outBuf.trans h1.outBuf, h2.maxOut.trans h1.maxOut, h2.writeLen.trans h1.writeLen⟩

theorem Codec.ensureHeader_spec (c : Codec) :
    RSame c c.ensureHeader.1 ∧ (∀ e, c.ensureHeader.2 = .err e → ∃ p, e = .protocol p) := by
  unfold Codec.ensureHeader
  cases hh : c.header with
  | some _ => exact ⟨RSame.refl _, by simp⟩
  | none =>
    simp only []
    cases hp : Header.parse c.inBuf with
    | header h len used => exact ⟨⟨rfl, rfl, rfl⟩, by simp⟩
    | incomplete => exact ⟨RSame.refl _, by simp⟩
    | error e =>
      refine ⟨RSame.refl _, ?_⟩
      intro e' he'
      have : e = e' := by simpa using he'
      subst this
      exact Header.parse_error _ _ hp
    | panic s => exact ⟨RSame.refl _, by simp⟩

theorem Codec.trySplit_frame (c : Codec) (maxSize : Nat) (c' : Codec) (p : Bytes)
    (h : c.trySplit maxSize = .frame c' p) : RSame c c' := by
  unfold Codec.trySplit at h
  cases hh : c.header with
  | none => rw [hh] at h; cases h
  | some hl =>
    obtain ⟨hd, len⟩ := hl
    rw [hh] at h
    simp only [] at h
    by_cases h1 : len > maxSize
    · simp only [h1, if_true] at h; cases h
    · simp only [h1, if_false] at h
      by_cases h2 : len ≤ c.inBuf.length
      · simp only [h2, if_true] at h
        injection h with h _
        subst h
        exact ⟨rfl, rfl, rfl⟩
      · simp only [h2, if_false] at h; cases h

/-- specification of the reading loop as far as the endpoint invariants care -/
structure RLSpec (c : Codec) (t : Transport) (c' : Codec) (t' : Transport) {α : Type}
    (r : Res (Option α)) : Prop where
  same : RSame c c'
  accepted : t'.accepted = t.accepted
  flushedUpTo : t'.flushedUpTo = t.flushedUpTo
  log : LogExt t.log t'.log
  ended : (r = .err (.io .reset) ∨ r = .ok none) → LogEnded t.log t'.log
  notClosed : r ≠ .err .connectionClosed

theorem Codec.readLoop_spec (maxSize fuel : Nat) (c : Codec) (t : Transport) :
    RLSpec c t (Codec.readLoop maxSize fuel c t).1 (Codec.readLoop maxSize fuel c t).2.1
      (Codec.readLoop maxSize fuel c t).2.2 := by
  induction fuel generalizing c t with
  | zero =>
    simp only [Codec.readLoop]
    exact ⟨RSame.refl _, rfl, rfl, LogExt.refl _, by simp, by simp⟩
  | succ fuel ih =>
    simp only [Codec.readLoop]
    obtain ⟨hs1, he1⟩ := Codec.ensureHeader_spec c
    cases hh : c.ensureHeader with
    | mk c1 r1 =>
      rw [hh] at hs1 he1
      simp only [] at hs1 he1
      cases r1 with
      | err e =>
        simp only []
        obtain ⟨p, rfl⟩ := he1 e rfl
        exact ⟨hs1, rfl, rfl, LogExt.refl _, by simp, by simp⟩
      | panic s =>
        simp only []
        exact ⟨hs1, rfl, rfl, LogExt.refl _, by simp, by simp⟩
      | ok u =>
        cases u
        simp only []
        cases hsp : c1.trySplit maxSize with
        | frame c2 p =>
          simp only []
          exact ⟨RSame.trans hs1 (Codec.trySplit_frame _ _ _ _ hsp), rfl, rfl, LogExt.refl _,
            by simp, by simp⟩
        | tooLong size max =>
          simp only []
          exact ⟨hs1, rfl, rfl, LogExt.refl _, by simp, by simp⟩
        | more n =>
          simp only []
          obtain ⟨hlog, hacc, hfl⟩ := Transport.read_spec t
          cases hrd : t.read with
          | mk t1 ev =>
            rw [hrd] at hlog hacc hfl
            simp only [] at hlog hacc hfl
            cases ev with
            | data bs =>
              simp only []
              by_cases hbs : bs.isEmpty = true
              · simp only [hbs, if_true]
                have hnil : bs = [] := List.isEmpty_iff.mp hbs
                subst hnil
                exact ⟨hs1, hacc, hfl, ⟨[_], hlog⟩,
                  fun _ => ⟨[_], hlog, _, List.mem_singleton.mpr rfl, rfl⟩, by simp⟩
              · simp only [hbs, if_false, Bool.false_eq_true]
                have h2 := ih { c1 with inBuf := c1.inBuf ++ bs } t1
                exact ⟨RSame.trans hs1 (RSame.trans (b := { c1 with inBuf := c1.inBuf ++ bs }) ⟨rfl, rfl, rfl⟩ h2.same),
                  h2.accepted.trans hacc, h2.flushedUpTo.trans hfl,
                  LogExt.trans ⟨[_], hlog⟩ h2.log,
                  fun hr => LogEnded.trans_right ⟨[_], hlog⟩ (h2.ended hr), h2.notClosed⟩
            | eof =>
              simp only []
              exact ⟨hs1, hacc, hfl, ⟨[_], hlog⟩,
                fun _ => ⟨[_], hlog, _, List.mem_singleton.mpr rfl, rfl⟩, by simp⟩
            | err k =>
              simp only []
              refine ⟨hs1, hacc, hfl, ⟨[_], hlog⟩, ?_, by simp⟩
              intro hr
              have hk : k = .reset := by simpa using hr
              subst hk
              exact ⟨[_], hlog, _, List.mem_singleton.mpr rfl, rfl⟩

theorem Codec.finishFrame_spec (c : Codec) (p : Bytes) (u a : Bool) :
    RSame c (c.finishFrame p u a).1 ∧ (c.finishFrame p u a).2 ≠ .ok none ∧
    (∀ e, (c.finishFrame p u a).2 = .err e → ∃ q, e = .protocol q) := by
  unfold Codec.finishFrame
  cases hh : c.header with
  | none => exact ⟨RSame.refl _, by simp, by simp⟩
  | some hl =>
    obtain ⟨h, len⟩ := hl
    by_cases h1 : p.length = len
    case neg =>
      simp only [h1, ne_eq, not_false_eq_true, if_true]
      exact ⟨⟨rfl, rfl, rfl⟩, by simp, by simp⟩
    case pos =>
      simp only [h1, ne_eq, not_true_eq_false, if_false]
      by_cases h2 : u = true
      · simp only [h2, if_true]
        cases hm : h.mask with
        | some m => exact ⟨⟨rfl, rfl, rfl⟩, by simp, by simp⟩
        | none =>
          simp only []
          by_cases h3 : a = true
          · simp only [h3, if_true]
            exact ⟨⟨rfl, rfl, rfl⟩, by simp, by simp⟩
          · simp only [h3, if_false, Bool.false_eq_true]
            exact ⟨⟨rfl, rfl, rfl⟩, by simp, by simp⟩
      · simp only [h2, if_false, Bool.false_eq_true]
        exact ⟨⟨rfl, rfl, rfl⟩, by simp, by simp⟩

theorem Codec.readFrame_spec (c : Codec) (t : Transport) (maxSize : Option Nat) (u a : Bool) :
    RLSpec c t (c.readFrame t maxSize u a).1 (c.readFrame t maxSize u a).2.1
      (c.readFrame t maxSize u a).2.2 := by
  unfold Codec.readFrame
  have h := Codec.readLoop_spec (maxSize.getD usizeMax) (t.rd.length + 1) c t
  cases hl : Codec.readLoop (maxSize.getD usizeMax) (t.rd.length + 1) c t with
  | mk c1 tr =>
    obtain ⟨t1, r⟩ := tr
    rw [hl] at h
    simp only [] at h
    cases r with
    | err e => exact ⟨h.same, h.accepted, h.flushedUpTo, h.log, by simpa using h.ended, by simpa using h.notClosed⟩
    | panic s => exact ⟨h.same, h.accepted, h.flushedUpTo, h.log, by simp, by simp⟩
    | ok o =>
      cases o with
      | none =>
        exact ⟨h.same, h.accepted, h.flushedUpTo, h.log, fun _ => h.ended (Or.inr rfl), by simp⟩
      | some p =>
        simp only []
        obtain ⟨hs, hnone, herr⟩ := Codec.finishFrame_spec c1 p u a
        refine ⟨RSame.trans h.same hs, h.accepted, h.flushedUpTo, h.log, ?_, ?_⟩
        · intro hr
          rcases hr with hr | hr
          · obtain ⟨q, hq⟩ := herr _ hr
            cases hq
          · exact absurd hr hnone
        · intro hr
          obtain ⟨q, hq⟩ := herr _ hr
          cases hq

/-! ### the codec never reports `ConnectionClosed`, so `checkConnectionReset` only ever sees the
reset case -/

theorem codec_bufferFrame_ne_cc (c : Codec) (t : Transport) (f : Frame) :
    (c.bufferFrame t f).2.2 ≠ Res.err Err.connectionClosed := by
  have h := (Codec.bufferFrame_spec c t f).cases
  intro hc
  rw [hc] at h
  rcases h with ⟨h, _⟩ | ⟨h | ⟨k, h⟩, _⟩ <;> cases h

theorem codec_readFrame_ne_cc (c : Codec) (t : Transport) (m : Option Nat) (u a : Bool) :
    (c.readFrame t m u a).2.2 ≠ Res.err Err.connectionClosed :=
  (Codec.readFrame_spec c t m u a).notClosed

/-- the reset-only reading of `check_connection_reset`: what it does to every result other than
`Err(ConnectionClosed)` -/
def ccrOld {α : Type} (w : World) (r : Res α) : World × Res α :=
  match r with
  | .err (.io .reset) =>
    if !w.c.state.canRead then (w.setState .terminated, .err .connectionClosed)
    else (w, r)
  | _ => (w, r)

theorem ccrOld_eq {α : Type} (w : World) (r : Res α) (h : r ≠ .err .connectionClosed) :
    w.checkConnectionReset r = ccrOld w r := by
  unfold World.checkConnectionReset ccrOld
  cases r with
  | ok a => rfl
  | panic s => rfl
  | err e =>
    cases e with
    | io k =>
      cases k with
      | reset => cases w.c.state.canRead <;> rfl
      | wouldBlock => rfl
      | intr => rfl
      | other => rfl
    | connectionClosed => exact absurd rfl h
    | alreadyClosed => rfl
    | capacity a b => rfl
    | protocol p => rfl
    | writeBufferFull f => rfl
    | utf8 => rfl

/-- under `r ≠ Err(ConnectionClosed)` the definition is the reset-only one (`ccrOld` unfolds to
exactly that `match`) -/
theorem World.checkConnectionReset_of_ne_cc {α : Type} (w : World) (r : Res α)
    (h : r ≠ .err .connectionClosed) : w.checkConnectionReset r = ccrOld w r :=
  ccrOld_eq w r h

theorem World.checkConnectionReset_cc {α : Type} (w : World) :
    w.checkConnectionReset (.err .connectionClosed : Res α) =
      (w.setState .terminated, .err .connectionClosed) := rfl

/-- `World.bufferFrame` with the reset-only check -/
theorem World.bufferFrame_old (w : World) (f : Frame) :
    w.bufferFrame f =
      (let (w, f) : World × Frame := match w.c.role with
        | .server => (w, f)
        | .client =>
          let (w, m) := w.nextMask
          (w, { f with header := { f.header with mask := some m } })
      let (codec, t, r) := w.c.codec.bufferFrame w.t f
      let w := w.setCodec codec t
      let w := if r.isWriteBufferFull then w else { w with queued := w.queued ++ [f] }
      ccrOld w r) := by
  unfold World.bufferFrame
  cases w.c.role with
  | server => exact ccrOld_eq _ _ (codec_bufferFrame_ne_cc _ _ _)
  | client => exact ccrOld_eq _ _ (codec_bufferFrame_ne_cc _ _ _)

/-- `World.readMessageFrame` with the reset-only check -/
theorem World.readMessageFrame_old (w : World) :
    w.readMessageFrame =
      (let (codec, t, r) :=
        w.c.codec.readFrame w.t w.c.cfg.maxFrame (w.c.role == .server) w.c.cfg.acceptUnmasked
      let w := w.setCodec codec t
      andThen (ccrOld w r) fun w of =>
        match of with
        | some frame => w.onFrame frame
        | none => w.onEof) := by
  unfold World.readMessageFrame
  exact congrArg (fun x => andThen x _) (ccrOld_eq _ _ (codec_readFrame_ne_cc _ _ _ _ _))

end WsProofs
