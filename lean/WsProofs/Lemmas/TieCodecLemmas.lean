import WsModel.Generated.CodecGen

/-! Rewriting rules for the monad `GenCodec.M` of the machine translation of `FrameCodec`
(`WsModel/Generated/CodecGen.lean`): `>>=` applied to a state is `cthen`, every leaf applied to a
state is its defining pair.  Then the two loop lemmas (by induction on the fuel) that tie the
generated loops to `Codec.writeLoop` / `Codec.readLoop`. -/
namespace WsProofs.Tie
open WsModel WsModel.Gen WsModel.GenCodec

/-! ### `cthen` -/

/-- sequencing on the pair a call returned -/
def cthen {α β : Type} (x : CS × Res α) (k : CS → α → CS × Res β) : CS × Res β :=
  match x with
  | (s, .ok a) => k s a
  | (s, .err e) => (s, .err e)
  | (s, .panic p) => (s, .panic p)

@[simp] theorem cthen_ok {α β : Type} (s : CS) (a : α) (k : CS → α → CS × Res β) :
    cthen (s, Res.ok a) k = k s a := rfl
@[simp] theorem cthen_err {α β : Type} (s : CS) (e : Err) (k : CS → α → CS × Res β) :
    cthen ((s, Res.err e) : CS × Res α) k = (s, Res.err e) := rfl
@[simp] theorem cthen_panic {α β : Type} (s : CS) (p : PanicSite) (k : CS → α → CS × Res β) :
    cthen ((s, Res.panic p) : CS × Res α) k = (s, Res.panic p) := rfl

/-! ### the monad -/

theorem cd_bind_apply {α β : Type} (x : M α) (k : α → M β) (s : CS) :
    (x >>= k) s = cthen (x s) (fun s a => k a s) := by
  show M.bind x k s = _
  unfold M.bind cthen
  rcases x s with ⟨s', r⟩
  cases r <;> rfl

theorem cd_pure_apply {α : Type} (a : α) (s : CS) : (pure a : M α) s = (s, Res.ok a) := rfl

theorem cd_ite_apply {α : Type} (c : Prop) [Decidable c] (x y : M α) (s : CS) :
    (if c then x else y) s = if c then x s else y s := by
  by_cases h : c <;> simp [h]

/-! ### leaves -/

theorem cd_throwE_apply {α : Type} (e : Err) (s : CS) : (throwE e : M α) s = (s, Res.err e) := rfl
theorem cd_panicAt_apply {α : Type} (p : PanicSite) (s : CS) :
    (panicAt p : M α) s = (s, Res.panic p) := rfl
theorem cd_liftRes_apply {α : Type} (r : Res α) (s : CS) : liftRes r s = (s, r) := rfl
theorem cd_getW_apply (s : CS) : getW s = (s, Res.ok s) := rfl
theorem cd_setHeaderM_apply (h : Option (Header × Nat)) (s : CS) :
    setHeaderM h s = ({ s with c := { s.c with header := h } }, Res.ok ()) := rfl
theorem cd_takeHeader_apply (s : CS) :
    takeHeader s = ({ s with c := { s.c with header := none } }, Res.ok s.c.header) := rfl
theorem cd_drainOut_apply (n : Nat) (s : CS) :
    drainOut n s = ({ s with c := { s.c with outBuf := s.c.outBuf.drop n } }, Res.ok ()) := rfl
theorem cd_formatIntoOut_apply (f : Frame) (s : CS) :
    formatIntoOut f s = ({ s with c := { s.c with outBuf := f.formatIntoBuf s.c.outBuf } }, Res.ok ()) :=
  rfl
theorem cd_advanceIn_apply (n : Nat) (s : CS) :
    advanceIn n s = ({ s with c := { s.c with inBuf := s.c.inBuf.drop n } }, Res.ok ()) := rfl
theorem cd_splitTo_apply (n : Nat) (s : CS) :
    splitTo n s = ({ s with c := { s.c with inBuf := s.c.inBuf.drop n } }, Res.ok (s.c.inBuf.take n)) :=
  rfl
theorem cd_readFrameFuel_apply (s : CS) : readFrameFuel s = (s, Res.ok (s.t.rd.length + 1)) := rfl
theorem cd_writeFuel_apply (s : CS) : writeFuel s = (s, Res.ok s.c.outBuf.length) := rfl
theorem cd_unwrapAt_some {α : Type} (p : PanicSite) (a : α) (s : CS) :
    unwrapAt p (some a) s = (s, Res.ok a) := rfl
theorem cd_unwrapAt_none {α : Type} (p : PanicSite) (s : CS) :
    (unwrapAt p (none : Option α)) s = (s, Res.panic p) := rfl

/-- `stream.write` on the pair the transport returned -/
def writePair (c : Codec) : Transport × WrRes → CS × Res Nat
  | (t, .ok n) => (⟨c, t⟩, .ok n)
  | (t, .err k) => (⟨c, t⟩, .err (.io k))

theorem cd_streamWrite_apply (buf : Bytes) (c : Codec) (t : Transport) :
    streamWrite buf ⟨c, t⟩ = writePair c (t.write buf) := by
  unfold streamWrite writePair
  rcases t.write buf with ⟨t', r⟩
  cases r <;> rfl

@[simp] theorem writePair_ok (c : Codec) (t : Transport) (n : Nat) :
    writePair c (t, WrRes.ok n) = (⟨c, t⟩, Res.ok n) := rfl
@[simp] theorem writePair_err (c : Codec) (t : Transport) (k : IoKind) :
    writePair c (t, WrRes.err k) = (⟨c, t⟩, Res.err (Err.io k)) := rfl

/-- `read_in` on the pair the transport returned -/
def readPair (c : Codec) : Transport × RdEv → CS × Res Nat
  | (t, .data bs) => (⟨{ c with inBuf := c.inBuf ++ bs }, t⟩, .ok bs.length)
  | (t, .eof) => (⟨c, t⟩, .ok 0)
  | (t, .err k) => (⟨c, t⟩, .err (.io k))

theorem cd_readIn_apply (c : Codec) (t : Transport) : readIn ⟨c, t⟩ = readPair c t.read := by
  unfold readIn readPair
  rcases t.read with ⟨t', r⟩
  cases r <;> rfl

@[simp] theorem readPair_data (c : Codec) (t : Transport) (bs : Bytes) :
    readPair c (t, RdEv.data bs) = (⟨{ c with inBuf := c.inBuf ++ bs }, t⟩, Res.ok bs.length) := rfl
@[simp] theorem readPair_eof (c : Codec) (t : Transport) :
    readPair c (t, RdEv.eof) = (⟨c, t⟩, Res.ok 0) := rfl
@[simp] theorem readPair_err (c : Codec) (t : Transport) (k : IoKind) :
    readPair c (t, RdEv.err k) = (⟨c, t⟩, Res.err (Err.io k)) := rfl

/-- normal form: every `>>=` / leaf applied to a state becomes `cthen` / a pair -/
syntax "cd_norm" ("[" Lean.Parser.Tactic.simpLemma,* "]")? : tactic
macro_rules
  | `(tactic| cd_norm) => `(tactic| simp only [cd_bind_apply, cd_pure_apply, cd_ite_apply,
      cd_throwE_apply, cd_panicAt_apply, cd_liftRes_apply, cd_getW_apply, cd_setHeaderM_apply,
      cd_takeHeader_apply, cd_drainOut_apply, cd_formatIntoOut_apply, cd_advanceIn_apply,
      cd_splitTo_apply, cd_readFrameFuel_apply, cd_writeFuel_apply, cd_unwrapAt_some,
      cd_unwrapAt_none, cd_streamWrite_apply, cd_readIn_apply, writePair_ok, writePair_err,
      readPair_data, readPair_eof, readPair_err, cthen_ok, cthen_err, cthen_panic])
  | `(tactic| cd_norm [$ls,*]) => `(tactic| simp only [cd_bind_apply, cd_pure_apply, cd_ite_apply,
      cd_throwE_apply, cd_panicAt_apply, cd_liftRes_apply, cd_getW_apply, cd_setHeaderM_apply,
      cd_takeHeader_apply, cd_drainOut_apply, cd_formatIntoOut_apply, cd_advanceIn_apply,
      cd_splitTo_apply, cd_readFrameFuel_apply, cd_writeFuel_apply, cd_unwrapAt_some,
      cd_unwrapAt_none, cd_streamWrite_apply, cd_readIn_apply, writePair_ok, writePair_err,
      readPair_data, readPair_eof, readPair_err, cthen_ok, cthen_err, cthen_panic, $ls,*])

/-! ### the `while` of `write_out_buffer` -/

theorem writeOutBufferLoop1_tie (fuel : Nat) (c : Codec) (t : Transport) :
    GenCodec.writeOutBufferLoop1 fuel ⟨c, t⟩ =
      ((⟨(Codec.writeLoop fuel c t).1, (Codec.writeLoop fuel c t).2.1⟩ : CS),
       (Codec.writeLoop fuel c t).2.2.map fun _ => LoopOut.brk ()) := by
  induction fuel generalizing c t with
  | zero =>
    rw [writeOutBufferLoop1.eq_1, Codec.writeLoop.eq_1]
    cd_norm
    cases h : c.outBuf.isEmpty <;> simp [Res.map]
  | succ fuel ih =>
    rw [writeOutBufferLoop1.eq_2, Codec.writeLoop.eq_2]
    cd_norm
    cases h : c.outBuf.isEmpty
    · simp only [Bool.not_false, if_true, Bool.false_eq_true, if_false]
      rcases t.write c.outBuf with ⟨t', r⟩
      cases r with
      | err k => simp [Res.map]
      | ok n =>
        simp only [writePair_ok, cthen_ok]
        by_cases hn : n = 0
        · simp [hn, Res.map]
        · simp only [beq_iff_eq, hn, if_false]
          exact ih _ _
    · simp [Res.map]

/-! ### the `loop` of `read_frame` -/

/-- how the hand model's loop result reads as a translated loop's outcome -/
def loopOutOf : Res (Option Bytes) → Res (LoopOut Bytes (Option Frame))
  | .ok (some p) => .ok (.brk p)
  | .ok none => .ok (.ret none)
  | .err e => .err e
  | .panic s => .panic s

/-- the `read_in` tail of an iteration: split on what the transport delivers -/
local macro "read_more" t:ident ih:ident : tactic => `(tactic| (
  rcases Transport.read $t with ⟨t', ev⟩
  cases ev with
  | eof => simp [loopOutOf]
  | err k => simp [loopOutOf]
  | data bs =>
    cases bs with
    | nil => simp [loopOutOf]
    | cons b bs => simp [loopOutOf, $ih:ident]))

theorem readFrameLoop1_tie (maxSize : Nat) (unmask acc : Bool) (fuel : Nat) (c : Codec)
    (t : Transport) :
    GenCodec.readFrameLoop1 maxSize unmask acc fuel ⟨c, t⟩ =
      ((⟨(Codec.readLoop maxSize fuel c t).1, (Codec.readLoop maxSize fuel c t).2.1⟩ : CS),
       loopOutOf (Codec.readLoop maxSize fuel c t).2.2) := by
  induction fuel generalizing c t with
  | zero =>
    rw [readFrameLoop1.eq_1, Codec.readLoop.eq_1]
    rfl
  | succ fuel ih =>
    rw [readFrameLoop1.eq_2, Codec.readLoop.eq_2]
    cd_norm
    cases c with | mk inBuf outBuf maxOut writeLen header => ?_
    cases header with
    | some hl =>
      obtain ⟨h, len⟩ := hl
      simp only [Codec.ensureHeader, Codec.trySplit, Option.isNone_some, Bool.false_eq_true, if_false]
      by_cases h1 : len > maxSize
      · simp [h1, loopOutOf, cd_bind_apply, cd_throwE_apply]
      · by_cases h2 : len ≤ inBuf.length
        · simp [h1, h2, loopOutOf, cd_bind_apply, cd_getW_apply, cd_splitTo_apply, cd_pure_apply]
        · simp only [h1, h2, decide_false, Bool.false_eq_true, if_false]
          cd_norm [h2, decide_false, Bool.false_eq_true, if_false]
          read_more t ih
    | none =>
      simp only [Codec.ensureHeader, Option.isNone_none, if_true, headerParseAt, cursorNew,
        List.drop_zero, Nat.zero_add]
      cases hp : Header.parse inBuf with
      | error e => simp [loopOutOf]
      | panic s => simp [loopOutOf]
      | incomplete =>
        simp only [cthen_ok, List.drop_zero, Codec.trySplit]
        cd_norm
        read_more t ih
      | header h len used =>
        simp only [cthen_ok, Codec.trySplit]
        generalize List.drop used inBuf = ib
        by_cases h1 : len > maxSize
        · simp [h1, loopOutOf, cd_bind_apply, cd_throwE_apply]
        · by_cases h2 : len ≤ ib.length
          · simp [h1, h2, loopOutOf, cd_bind_apply, cd_getW_apply, cd_splitTo_apply, cd_pure_apply]
          · simp only [h1, h2, decide_false, Bool.false_eq_true, if_false]
            cd_norm [h2, decide_false, Bool.false_eq_true, if_false]
            read_more t ih

end WsProofs.Tie
