import WsProofs.Lemmas.PairActor

/-! Two-party proofs, layer 6b: a scheduled `read`. -/
namespace WsProofs.Pair
open WsModel WsModel.Gen WsModel.Spec WsProofs WsProofs.Read WsProofs.Pipe

theorem WI.of_read {r : Role} {w w' : World} (h : WI r w) (hI : Inv w') (hwf : C09.WfInv w')
    (hrole : w'.c.role = w.c.role) (hcfg : w'.c.cfg = w.c.cfg) (hinc : w'.c.incomplete = none)
    (hpq : PQ w') (hk : KP w') : WI r w' :=
  ⟨hI, hwf, hrole.trans h.role, hpq, hinc, by rw [hcfg]; exact h.mf, by rw [hcfg]; exact h.mm,
    by rw [hcfg]; exact h.maxw, hk⟩

theorem KP.of_fields {w w' : World} (h : KP w) (hs : w'.c.state = w.c.state)
    (ha : w'.c.additional = w.c.additional) (hq : w'.queued = w.queued) : KP w' := by
  intro hc
  obtain ⟨pl, hp⟩ := h (hs ▸ hc)
  exact ⟨pl, hp.of_queue ha ⟨[], by rw [hq]; simp⟩⟩

theorem dataOfFrames_single (f : Frame) : dataOfFrames [f] = (dataMsg f).toList := by
  unfold dataOfFrames
  rw [List.filterMap_cons]
  cases dataMsg f <;> rfl

/-- the data delivered for a legitimate frame is the data it carries -/
theorem frame_data {sender : Role} {f : Frame} (hf : Legit sender f) {w w2 : World} {m : Message}
    (O : OnFrameOut w (viewOf f) w2 m) : dataOfFrames [f] = dataOfOut (.msg (.ok m)) := by
  rw [dataOfFrames_single]
  have hctl : ∀ k, f.header.opcode = .control k → (dataMsg f).toList = dataOfOut (.msg (.ok m)) := by
    intro k ho
    obtain ⟨h1, h2⟩ := O.ctl k ho
    have hd : dataMsg f = none := by unfold dataMsg; rw [ho]
    rw [hd]
    cases m with
    | text d => exact absurd rfl (h1 d)
    | binary d => exact absurd rfl (h2 d)
    | ping d => rfl
    | pong d => rfl
    | close c => rfl
    | frame g => rfl
  rcases hf.2.2.2.2.2.2 with ⟨ho, _⟩ | ho | ⟨ho, _⟩ | ⟨ho, _⟩ | ⟨ho, _⟩
  · have hm := O.text ho
    subst hm
    unfold dataMsg
    rw [ho]
    rfl
  · have hm := O.binary ho
    subst hm
    unfold dataMsg
    rw [ho]
    rfl
  · exact hctl _ ho
  · exact hctl _ ho
  · exact hctl _ ho

/-- the stream facts a scheduled `read` starts from, and its case analysis -/
theorem read_setup {rA rO : Role} {A O : World} {Pin Pout : Bytes} {oD : Bool} {nIn nOut : Nat}
    (H : ActHyp rA rO A O Pin Pout oD nIn nOut) (a : Action) (hnt : A.c.state ≠ .terminated) :
    ∃ B, Rep A.c.codec B ∧ B ++ Pin ++ O.c.codec.outBuf = encodeAll (O.queued.drop nIn) ∧
      ReadCases (actIn A Pin oD a) B (Pin.drop a.deliver ++ O.c.codec.outBuf) (O.queued.drop nIn)
        (actIn A Pin oD a).read := by
  have hW0 := actIn_wi H.wa Pin oD a
  have hnt0 : (actIn A Pin oD a).c.state ≠ .terminated := hnt
  obtain ⟨⟨B, hrep, hB⟩, hclose⟩ := H.din hnt
  have hrole0 : (actIn A Pin oD a).c.role = peerOf rO := hW0.role.trans H.roles
  have hl : ∀ f ∈ O.queued.drop nIn, Legit rO f :=
    fun f hf => H.wo.legit f (List.mem_of_mem_drop hf)
  have hdata : dataOf (actIn A Pin oD a).t.rd = Pin.take a.deliver := tfor_dataOf A Pin oD a
  have hS : B ++ dataOf (actIn A Pin oD a).t.rd ++ (Pin.drop a.deliver ++ O.c.codec.outBuf) =
      encodeAll (O.queued.drop nIn) := by
    rw [hdata, ← hB]
    simp only [List.append_assoc]
    rw [← List.append_assoc (Pin.take _) (Pin.drop _), List.take_append_drop]
  have hcan : (actIn A Pin oD a).c.state.canRead = false → O.queued.drop nIn = [] := by
    intro hc
    have hcr : A.c.state.closeReceived = true := closeReceived_of hc hnt
    obtain ⟨f, hf, hfc⟩ := hclose.mpr hcr
    exact closeLast_take_drop H.wo.inv.closeLast hf hfc
  have hdef := tfor_rdDef A Pin oD a
  have hdef' : (actIn A Pin oD a).t.rdDef = .err .wouldBlock ∨
      ((actIn A Pin oD a).t.rdDef = .eof ∧ (actIn A Pin oD a).t.rd = []) := by
    rcases hdef with h | ⟨h1, h2, _⟩
    · exact Or.inl h
    · exact Or.inr ⟨h1, h2⟩
  have heof : (actIn A Pin oD a).t.rdDef = .eof →
      (Pin.drop a.deliver ++ O.c.codec.outBuf) = [] ∧
      (O.queued.drop nIn = [] → (actIn A Pin oD a).c.state.closeReceived = true) := by
    intro he
    have he' : (tfor A Pin oD a).rdDef = .eof := he
    rcases hdef with h | ⟨_, _, hoD, hP⟩
    · rw [h] at he'; cases he'
    · have hcl : rA = .client := by
        cases hr : rA with
        | client => rfl
        | server => exact absurd (H.eofA hoD hr) hnt
      obtain ⟨ho, f, hf, hfc⟩ := H.eofH hoD hcl
      refine ⟨by rw [hP, ho]; simp, ?_⟩
      intro hd
      have : O.queued.take nIn = O.queued :=
        List.take_of_length_le (List.drop_eq_nil_iff.mp hd)
      exact hclose.mp ⟨f, by rw [this]; exact hf, hfc⟩
  have RC := read_cases (sender := rO) (actIn A Pin oD a) B _ _ hnt0 hrole0 hW0.inc hW0.mf hW0.mm
    (tfor_oneChunk A Pin oD a) hdef' hrep hl hS hcan heof
  exact ⟨B, hrep, hB, RC⟩

theorem format_lt (f : Frame) (h : f.payload.length < 2 ^ 63) : f.format.length < 2 ^ 64 := by
  rw [Pipe.format_length]
  have : f.header.len f.payload.length ≤ 14 := by
    unfold Header.len headerLen
    cases lfForLength f.payload.length <;> cases f.header.mask.isSome <;> simp [lfExtraBytes]
  omega

/-- the four ways a scheduled `read` can go, with the new count of consumed frames -/
def ReadSum (w : World) (Pin : Bytes) (deliver : Nat) (res : World × Res Message) (nIn nIn' : Nat) :
    Prop :=
  (∃ e, w.readPre.2 = .err e ∧ res = (w.readPre.1, .err e) ∧ nIn' = nIn) ∨
  (w.readPre.2 = .ok () ∧ nIn' = nIn + 1 ∧ ∃ m, res.2 = .ok m ∧
      res.1.c.codec.outBuf = w.readPre.1.c.codec.outBuf ∧
      res.1.c.unflushed = w.readPre.1.c.unflushed ∧ res.1.queued = w.readPre.1.queued ∧
      res.1.c.state ≠ .terminated ∧
      (Pin = [] → ∀ B0, Rep w.c.codec B0 → shot usizeMax B0 ≠ .needMore)) ∨
  (w.readPre.2 = .ok () ∧ nIn' = nIn ∧ w.t.rdDef = .err .wouldBlock ∧ ∃ c' t' B',
      res = (w.readPre.1.setCodec c' t', .err (.io .wouldBlock)) ∧
      CSame w.readPre.1.c.codec c' ∧ t'.rd = [] ∧ Rep c' B' ∧ shot usizeMax B' = .needMore ∧
      (deliver = 2 ^ 64 → Pin.drop deliver = [])) ∨
  (w.readPre.2 = .ok () ∧ nIn' = nIn ∧ res.1.c.state = .terminated ∧
      res.2 = .err .connectionClosed ∧ res.1.queued = w.readPre.1.queued ∧
      res.1.c.additional = w.readPre.1.c.additional)

theorem read_core {rA rO : Role} {A O : World} {Pin Pout : Bytes} {oD : Bool} {nIn nOut : Nat}
    (H : ActHyp rA rO A O Pin Pout oD nIn nOut) (a : Action) (hnt : A.c.state ≠ .terminated) :
    ∃ nIn', WI rA (actIn A Pin oD a).read.1 ∧ nIn' ≤ O.queued.length ∧
      (actIn A Pin oD a).read.1.t.rd <:+ (tfor A Pin oD a).rd ∧
      ((actIn A Pin oD a).read.1.c.state ≠ .terminated →
        Dir O (actIn A Pin oD a).read.1
          (dataOf (actIn A Pin oD a).read.1.t.rd ++ Pin.drop a.deliver) nIn') ∧
      OutOk (.msg (actIn A Pin oD a).read.2) ∧
      dataOfFrames (O.queued.take nIn') =
        dataOfFrames (O.queued.take nIn) ++ dataOfOut (.msg (actIn A Pin oD a).read.2) ∧
      ReadSum (actIn A Pin oD a) Pin a.deliver (actIn A Pin oD a).read nIn nIn' := by
  have hW0 := actIn_wi H.wa Pin oD a
  have hnt0 : (actIn A Pin oD a).c.state ≠ .terminated := hnt
  obtain ⟨_, hclose⟩ := H.din hnt
  obtain ⟨B, hrep, hB, RC⟩ := read_setup H a hnt
  have hl : ∀ f ∈ O.queued.drop nIn, Legit rO f :=
    fun f hf => H.wo.legit f (List.mem_of_mem_drop hf)
  have hdata : dataOf (actIn A Pin oD a).t.rd = Pin.take a.deliver := tfor_dataOf A Pin oD a
  have hcan : (actIn A Pin oD a).c.state.canRead = false → O.queued.drop nIn = [] := by
    intro hc
    have hcr : A.c.state.closeReceived = true := closeReceived_of hc hnt
    obtain ⟨f, hf, hfc⟩ := hclose.mpr hcr
    exact closeLast_take_drop H.wo.inv.closeLast hf hfc
  have PW := readPre_ws (actIn A Pin oD a)
  have PF := readPre_FS hnt0
  have PI := _root_.WsProofs.readPre_inv hW0.inv
  have hI' : Inv (actIn A Pin oD a).read.1 := (read_inv _ hW0.inv hnt0).inv
  have hwf' : C09.WfInv (actIn A Pin oD a).read.1 :=
    C09.step_wf (actIn A Pin oD a) .read hW0.inv hW0.wf trivial
  have hrole' : (actIn A Pin oD a).read.1.c.role = (actIn A Pin oD a).c.role :=
    step_role (actIn A Pin oD a) .read
  unfold ReadCases at RC
  unfold ReadSum
  generalize (actIn A Pin oD a).read = res at RC hI' hwf' hrole' ⊢
  obtain ⟨A', r⟩ := res
  generalize (actIn A Pin oD a).readPre = x at RC PW PF PI
  obtain ⟨w1, r1⟩ := x
  dsimp only at RC PW PF PI hI' hwf' hrole' ⊢
  have hPQ1 : PQ w1 := hW0.pq.sd PW.toSD
  have hst1 : w1.c.state = (actIn A Pin oD a).c.state ∨ w1.c.state = .terminated := by
    rcases PF.state with h | ⟨h, _⟩
    · exact Or.inl h
    · exact Or.inr h
  have hKP1 : KP w1 := hW0.kp.sd PW.toSD hst1
  have hcfg1 : w1.c.cfg = (actIn A Pin oD a).c.cfg := PW.rside.cfg
  have hinc1 : w1.c.incomplete = none := PW.rside.incomplete.trans hW0.inc
  have hrd1 : w1.t.rd = (tfor A Pin oD a).rd := PW.rside.t.rd
  have hsplit : Pin.take a.deliver ++ Pin.drop a.deliver = Pin := List.take_append_drop _ _
  rcases RC with ⟨e, he1, he2⟩ |
    ⟨hok, f, fs', c', t', w2, m, hfs, hres, hcs, hsuf, hhd, hrest, OF⟩ |
    ⟨hok, hwb, c', t', hres, hcs, hnil, hrepS, hshotS⟩ | ⟨hok, hde, hfs, c', t', hres, hcs, hnil⟩
  · -- the top of the loop failed (transport error while flushing, or the server is done)
    cases he2
    subst he1
    refine ⟨nIn, hW0.of_read hI' hwf' hrole' hcfg1 hinc1 hPQ1 hKP1, H.lin,
      by rw [hrd1]; exact List.suffix_refl _, ?_, outOk_msg_err (allowed_of_wkind PF.kind),
      by simp [dataOfOut], Or.inl ⟨e, rfl, rfl, rfl⟩⟩
    intro hnt'
    have hp : dataOf A'.t.rd ++ Pin.drop a.deliver = Pin := by
      rw [hrd1, tfor_dataOf, hsplit]
    rw [hp]
    refine Dir.reader_same ⟨⟨B, hrep, hB⟩, hclose⟩ PW.rside.header PW.rside.inBuf ?_ hnt'
    rcases hst1 with h | h
    · exact Or.inl h
    · exact Or.inr (Or.inl h)
  · -- a frame
    cases hres
    subst hok
    have hs1 : w1.c.state = (actIn A Pin oD a).c.state := PF.state_of_ok
    obtain ⟨htake, hdrop, hle⟩ := drop_succ_of hfs
    have hf : Legit rO f := hl f (by rw [hfs]; exact List.mem_cons_self ..)
    have hcr0 : (actIn A Pin oD a).c.state.canRead = true := by
      cases hc : (actIn A Pin oD a).c.state.canRead with
      | true => rfl
      | false => have := hcan hc; rw [this] at hfs; cases hfs
    have hq2 : A'.queued = w1.queued := OF.queued
    have hst2 : (viewOf f).isClose = false → A'.c.state = w1.c.state := OF.stateOther
    have hslot2 : w1.c.state ≠ .active → A'.c.additional = w1.c.additional := OF.slotSame
    have hPQ2 : PQ A' := by
      rcases OF.slot with h | ⟨g', hg', hp, _⟩
      · exact hPQ1.of_same h hq2
      · exact hPQ1.set_slot hq2 hg' hp
    have hKP2 : KP A' := by
      intro hc3
      by_cases hact : w1.c.state = .active
      · -- only a Close can have started closing
        by_cases hcl : (viewOf f).isClose = true
        · have hp : Pongy (w1.setCodec c' t') := (PI.active hact).2
          obtain ⟨g', hg', hgc⟩ := OF.closeSlot hcl hact hp
          exact ⟨g'.payload, Or.inl ⟨g', hg', hgc, rfl⟩⟩
        · have hcl' : (viewOf f).isClose = false := by simpa using hcl
          rw [hst2 hcl', hact] at hc3
          cases hc3
      · have hc1 : w1.c.state.closing3 = true := by
          rcases canRead_cases hcr0 with h | h
          · exact absurd (hs1.trans h) hact
          · rw [hs1, h]; rfl
        obtain ⟨pl, hp⟩ := hKP1 hc1
        exact ⟨pl, hp.of_queue (hslot2 hact) ⟨[], by rw [hq2]; simp⟩⟩
    have hcodec2 : A'.c.codec = c' := OF.codec
    have ht2 : A'.t = t' := OF.t
    have hframe : Pin = [] → ∀ B0, Rep (actIn A Pin oD a).c.codec B0 →
        shot usizeMax B0 ≠ .needMore := by
      -- the frame was complete in the buffer if nothing was in the pipe
      intro hP B0 hB0 hs0
      have hrd0 : (tfor A Pin oD a).rd = [] := by
        show (if (Pin.take a.deliver).isEmpty then [] else [RdEv.data (Pin.take a.deliver)]) = []
        rw [hP]; simp
      have ht' : t'.rd = [] := by
        have := hsuf
        rw [show (actIn A Pin oD a).t.rd = (tfor A Pin oD a).rd from rfl, hrd0] at this
        exact List.suffix_nil.mp this
      have hrest' := hrest
      rw [ht', hP] at hrest'
      simp only [dataOf, List.append_nil, List.drop_nil, List.nil_append] at hrest'
      have hB' := hB
      rw [hP, hfs, List.append_nil] at hB'
      have hBe : B = f.format ++ c'.inBuf := by
        have h1 : B ++ O.c.codec.outBuf = (f.format ++ c'.inBuf) ++ O.c.codec.outBuf := by
          rw [hB', List.append_assoc, hrest']; rfl
        exact List.append_cancel_right h1
      have hsB : shot usizeMax B = .needMore := rep_needMore usizeMax hB0 hrep hs0
      rw [hBe, shot_format usizeMax f _ hf.opcode_ok (by have := hf.len_lt; omega)
        (by have := hf.len_lt; unfold usizeMax; omega)] at hsB
      cases hsB
    have hnt2 : A'.c.state ≠ .terminated := by
      by_cases hcl : (viewOf f).isClose = true
      · intro ht
        have := OF.stateClose hcl
        rw [ht] at this; cases this
      · have hcl' : (viewOf f).isClose = false := by simpa using hcl
        rw [hst2 hcl', hs1]; exact hnt0
    refine ⟨nIn + 1, hW0.of_read hI' hwf' hrole' (OF.cfg.trans hcfg1) OF.incomplete hPQ2 hKP2, hle,
      by rw [ht2]; exact hsuf, ?_, outOk_msg_ok m, ?_,
      Or.inr (Or.inl ⟨rfl, rfl, m, rfl, by rw [hcodec2]; exact hcs.outBuf, OF.unflushed, hq2,
        hnt2, hframe⟩)⟩
    · intro _
      refine ⟨⟨c'.inBuf, by rw [hcodec2]; exact Rep_none hhd, ?_⟩, ?_⟩
      · rw [hdrop, ht2, ← hrest]
        simp only [List.append_assoc]
      · rw [htake]
        have hvc : (viewOf f).isClose = f.isClose := rfl
        by_cases hcl : f.isClose = true
        · have : A'.c.state.closeReceived = true := OF.stateClose (hvc.trans hcl)
          rw [this]
          exact ⟨fun _ => rfl, fun _ => ⟨f, by simp, hcl⟩⟩
        · have hcl' : f.isClose = false := by simpa using hcl
          rw [hst2 (hvc.trans hcl'), hs1]
          constructor
          · intro ⟨g, hg, hgc⟩
            rcases List.mem_append.mp hg with hg | hg
            · exact hclose.mp ⟨g, hg, hgc⟩
            · rw [List.mem_singleton.mp hg, hcl'] at hgc; cases hgc
          · intro h
            obtain ⟨g, hg, hgc⟩ := hclose.mpr h
            exact ⟨g, List.mem_append_left _ hg, hgc⟩
    · rw [htake, dataOfFrames_append, frame_data hf OF]
  · -- the transport blocks
    cases hres
    subst hok
    have hs1 : w1.c.state = (actIn A Pin oD a).c.state := PF.state_of_ok
    refine ⟨nIn, hW0.of_read hI' hwf' hrole' hcfg1 hinc1 (hPQ1.of_same rfl rfl)
      (hKP1.of_fields rfl rfl rfl), H.lin, by show t'.rd <:+ _; rw [hnil]; exact List.nil_suffix,
      ?_, outOk_msg_err (Or.inr (Or.inr (Or.inl ⟨_, rfl⟩))), by simp [dataOfOut],
      Or.inr (Or.inr (Or.inl ⟨rfl, rfl, hwb, c', t', _, rfl, hcs, hnil, hrepS, hshotS, ?_⟩))⟩
    rotate_left
    · -- with full delivery a read that blocks has taken the whole pipe
      intro hfull
      have hS : (B ++ dataOf (actIn A Pin oD a).t.rd) ++ (Pin.drop a.deliver ++ O.c.codec.outBuf) =
          encodeAll (O.queued.drop nIn) := by
        rw [hdata, ← hB]
        simp only [List.append_assoc]
        rw [← List.append_assoc (Pin.take _) (Pin.drop _), hsplit]
      cases hfs : O.queued.drop nIn with
      | nil =>
        rw [hfs] at hS
        exact (List.append_eq_nil_iff.mp (List.append_eq_nil_iff.mp hS).2).1
      | cons f fs' =>
        rw [hfs] at hS
        have hf : Legit rO f := hl f (by rw [hfs]; exact List.mem_cons_self ..)
        rcases shot_legit' hf _ _ (encodeAll fs') hS with ⟨h1, _⟩ | ⟨rest, h1, _⟩
        · have h2 := format_lt f hf.len_lt
          rw [List.length_append, hdata, List.length_take, hfull] at h1
          exact List.drop_of_length_le (by rw [hfull]; omega)
        · rw [hshotS] at h1; cases h1
    intro _
    refine ⟨⟨B ++ Pin.take a.deliver, by rw [← hdata]; exact hrepS, ?_⟩, ?_⟩
    · show B ++ Pin.take a.deliver ++ (dataOf t'.rd ++ Pin.drop a.deliver) ++ _ = _
      rw [hnil, ← hB]
      simp only [dataOf, List.nil_append, List.append_assoc]
      rw [← List.append_assoc (Pin.take _) (Pin.drop _), hsplit]
    · show _ ↔ w1.c.state.closeReceived = true
      rw [hs1]; exact hclose
  · -- the transport ended after the close handshake
    cases hres
    refine ⟨nIn, hW0.of_read hI' hwf' hrole' hcfg1 hinc1 (hPQ1.of_same rfl rfl)
      (KP.of_not rfl), H.lin, by show t'.rd <:+ _; rw [hnil]; exact List.nil_suffix,
      fun h => absurd rfl h, outOk_msg_err (Or.inl rfl), by simp [dataOfOut],
      Or.inr (Or.inr (Or.inr ⟨hok, rfl, rfl, rfl, rfl, rfl⟩))⟩

/-- a scheduled `read` -/
theorem act_read {rA rO : Role} {A O : World} {Pin Pout : Bytes} {oD : Bool} {nIn nOut : Nat}
    (H : ActHyp rA rO A O Pin Pout oD nIn nOut) (a : Action) (hop : a.op = .read) :
    ∃ nIn', WI rA (actW A Pin oD a).1 ∧ nIn' ≤ O.queued.length ∧
      ((actW A Pin oD a).1.c.state ≠ .terminated →
        Dir O (actW A Pin oD a).1 (Pin.drop (actConsumed A Pin oD a)) nIn') ∧
      OutOk (actW A Pin oD a).2 ∧
      dataOfFrames (O.queued.take nIn') =
        dataOfFrames (O.queued.take nIn) ++ dataOfOut (actW A Pin oD a).2 := by
  have hact : actW A Pin oD a = ((actIn A Pin oD a).read.1, .msg (actIn A Pin oD a).read.2) := by
    unfold actW
    rw [hop]
    rfl
  by_cases hnt : A.c.state = .terminated
  · have hr : (actIn A Pin oD a).read = (actIn A Pin oD a, .err .alreadyClosed) :=
      terminated_read _ hnt
    rw [hr] at hact
    refine ⟨nIn, by rw [hact]; exact actIn_wi H.wa Pin oD a, H.lin, ?_,
      by rw [hact]; exact outOk_msg_err (Or.inr (Or.inl rfl)), by rw [hact]; simp [dataOfOut]⟩
    intro h
    rw [hact] at h
    exact absurd hnt h
  · obtain ⟨n', h1, h2, h3, h4, h5, h6, _⟩ := read_core H a hnt
    refine ⟨n', by rw [hact]; exact h1, h2, ?_, by rw [hact]; exact h5, by rw [hact]; exact h6⟩
    rw [pin_after A Pin oD a (by rw [hact]; exact h3), hact]
    exact h4

end WsProofs.Pair
