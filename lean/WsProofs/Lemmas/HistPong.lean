import WsProofs.Lemmas.GlobalRead

/-! Ping-aware refinement of the slot analysis of `GlobalRead`: when `read_message_frame`
overwrites the pending slot with a pong, that pong answers the Ping message the very same call
returns; and a returned Ping message is answered (while active) by putting its pong in the slot.
Then the history-level bookkeeping for C11: the pong payloads queued so far, followed by the pong
payload waiting in the slot, form a subsequence of the pong sources seen so far. -/
namespace WsProofs
open WsModel WsModel.Gen

/-! ### one arm of `read_message_frame` -/

/-- slot effect of one arm of `read_message_frame`, tied to the message it returns -/
structure PS (w w' : World) (r : Res (Option Message)) : Prop where
  slot : w'.c.additional = w.c.additional ∨ (∃ c, w'.c.additional = some (Frame.close c)) ∨
    (∃ p, r = .ok (some (.ping p)) ∧ w'.c.additional = some (Frame.pong p))
  ping : ∀ p, r = .ok (some (.ping p)) →
    w'.c.state = w.c.state ∧ (w.c.state = .active → Pongy w → w'.c.additional = some (Frame.pong p))

theorem PS.same (w : World) (r : Res (Option Message)) (hnp : ∀ p, r ≠ .ok (some (.ping p))) :
    PS w w r := ⟨Or.inl rfl, fun p h => absurd h (hnp p)⟩

theorem PS.setIncomplete (w : World) (i : Option Incomplete) (r : Res (Option Message))
    (hnp : ∀ p, r ≠ .ok (some (.ping p))) : PS w (w.setIncomplete i) r :=
  ⟨Or.inl rfl, fun p h => absurd h (hnp p)⟩

theorem Incomplete.complete_not_ping (m : Incomplete) (p : Bytes) : m.complete ≠ .ok (.ping p) := by
  cases m with
  | binary v => simp [Incomplete.complete]
  | text s =>
    obtain ⟨data, inc⟩ := s
    cases inc <;> simp [Incomplete.complete, Collector.intoString, Res.map]

theorem doClose_ps (w : World) (c : Option CloseFrame) :
    (w.doClose c).1.c.additional = w.c.additional ∨
      ∃ y, (w.doClose c).1.c.additional = some (Frame.close y) := by
  unfold World.doClose
  cases hs : w.c.state with
  | active =>
    simp only []
    rcases setAdditional_slot (w.setState .closedByPeer)
        (Frame.close (c.map fun cf =>
          if (!closeCodeIsAllowed cf.code) = true then
            { code := .protocol, reason := protocolViolationReason } else cf)) with h | ⟨_, h⟩
    · exact Or.inl h
    · exact Or.inr ⟨_, h⟩
  | closedByPeer => exact Or.inl rfl
  | closeAcknowledged => exact Or.inl rfl
  | closedByUs => exact Or.inl rfl
  | terminated => exact Or.inl rfl

theorem onControl_ps (w : World) (frame : Frame) (ctl : OpCtl) :
    PS w (w.onControl frame ctl).1 (w.onControl frame ctl).2 := by
  unfold World.onControl
  by_cases h1 : (!frame.header.fin) = true
  · rw [if_pos h1]; exact PS.same _ _ (by simp)
  · rw [if_neg h1]
    by_cases h2 : frame.payload.length > 125
    · rw [if_pos h2]; exact PS.same _ _ (by simp)
    · rw [if_neg h2]
      cases ctl with
      | reserved i => exact PS.same _ _ (by simp)
      | pong => exact PS.same _ _ (by simp)
      | ping =>
        simp only []
        by_cases ha : w.c.state.isActive = true
        · simp only [ha, if_true]
          obtain ⟨f1, _⟩ := setAdditional_fields w (Frame.pong frame.payload)
          refine ⟨?_, ?_⟩
          · rcases setAdditional_slot w (Frame.pong frame.payload) with h | ⟨_, h⟩
            · exact Or.inl h
            · exact Or.inr (Or.inr ⟨_, rfl, h⟩)
          · intro p hp
            have : frame.payload = p := by
              injection hp with hp
              injection hp with hp
              injection hp
            subst this
            exact ⟨f1, fun _ hP => setAdditional_pongy hP _⟩
        · simp only [ha, if_false, Bool.false_eq_true]
          refine ⟨Or.inl rfl, ?_⟩
          intro p _
          refine ⟨rfl, ?_⟩
          intro hs
          rw [hs] at ha
          exact absurd rfl ha
      | close =>
        simp only []
        cases hic : frame.intoClose with
        | err e => exact PS.same _ _ (by simp)
        | panic s => exact PS.same _ _ (by simp)
        | ok c =>
          simp only []
          have S := doClose_ps w c
          generalize w.doClose c = x at *
          obtain ⟨w1, r⟩ := x
          have hslot : w1.c.additional = w.c.additional ∨ (∃ c, w1.c.additional = some (Frame.close c)) ∨
              (∃ p, (andThen (w1, r) fun w r => (w, Res.ok (r.map Message.close))).2 =
                  .ok (some (.ping p)) ∧ w1.c.additional = some (Frame.pong p)) := by
            rcases S with h | h
            · exact Or.inl h
            · exact Or.inr (Or.inl h)
          cases r with
          | err e => exact ⟨hslot, by simp [andThen]⟩
          | panic s => exact ⟨hslot, by simp [andThen]⟩
          | ok o =>
            cases o with
            | none => exact ⟨hslot, by simp [andThen]⟩
            | some y => exact ⟨hslot, by simp [andThen]⟩

theorem onContinue_ps (w : World) (frame : Frame) :
    PS w (w.onContinue frame).1 (w.onContinue frame).2 := by
  unfold World.onContinue
  cases hi : w.c.incomplete with
  | none => exact PS.same _ _ (by simp)
  | some msg =>
    simp only []
    generalize msg.extend frame.payload w.c.cfg.maxMsg = x
    obtain ⟨msg', r⟩ := x
    cases r with
    | err e => exact PS.setIncomplete _ _ _ (by simp)
    | panic s => exact PS.setIncomplete _ _ _ (by simp)
    | ok u =>
      cases u
      simp only []
      by_cases hf : frame.header.fin = true
      · rw [if_pos hf]
        have hc2 := Incomplete.complete_not_ping msg'
        cases hcm : msg'.complete with
        | ok m =>
          rw [hcm] at hc2
          exact PS.setIncomplete _ _ _ (by
            intro p hp; injection hp with hp; injection hp with hp
            exact hc2 p (by rw [hp]))
        | err e => exact PS.setIncomplete _ _ _ (by simp)
        | panic s => exact PS.setIncomplete _ _ _ (by simp)
      · rw [if_neg hf]
        exact PS.setIncomplete _ _ _ (by simp)

theorem startFragmented_ps (w : World) (frame : Frame) (ty : Incomplete) :
    PS w (w.startFragmented frame ty).1 (w.startFragmented frame ty).2 := by
  unfold World.startFragmented
  generalize ty.extend frame.payload w.c.cfg.maxMsg = x
  obtain ⟨msg', r⟩ := x
  cases r with
  | err e => exact PS.same _ _ (by simp)
  | panic s => exact PS.same _ _ (by simp)
  | ok u =>
    cases u
    exact PS.setIncomplete _ _ _ (by simp)

theorem onData_ps (w : World) (frame : Frame) (d : OpData) :
    PS w (w.onData frame d).1 (w.onData frame d).2 := by
  unfold World.onData
  cases d with
  | «continue» => exact onContinue_ps w frame
  | reserved i =>
    simp only []
    by_cases h1 : w.c.incomplete.isSome = true
    · rw [if_pos h1]; exact PS.same _ _ (by simp)
    · rw [if_neg h1]; exact PS.same _ _ (by simp)
  | text =>
    simp only []
    by_cases h1 : w.c.incomplete.isSome = true
    · rw [if_pos h1]; exact PS.same _ _ (by simp)
    · rw [if_neg h1]
      by_cases h2 : frame.header.fin = true
      · rw [if_pos h2]
        by_cases h3 : (!checkMaxSize frame.payload.length w.c.cfg.maxMsg) = true
        · rw [if_pos h3]; exact PS.same _ _ (by simp)
        · rw [if_neg h3]
          cases hit : frame.intoText with
          | ok t => exact PS.same _ _ (by simp)
          | err e => exact PS.same _ _ (by simp)
          | panic s => exact PS.same _ _ (by simp)
      · rw [if_neg h2]; exact startFragmented_ps w frame _
  | binary =>
    simp only []
    by_cases h1 : w.c.incomplete.isSome = true
    · rw [if_pos h1]; exact PS.same _ _ (by simp)
    · rw [if_neg h1]
      by_cases h2 : frame.header.fin = true
      · rw [if_pos h2]
        by_cases h3 : (!checkMaxSize frame.payload.length w.c.cfg.maxMsg) = true
        · rw [if_pos h3]; exact PS.same _ _ (by simp)
        · rw [if_neg h3]; exact PS.same _ _ (by simp)
      · rw [if_neg h2]; exact startFragmented_ps w frame _

theorem onFrame_ps (w : World) (frame : Frame) :
    PS w (w.onFrame frame).1 (w.onFrame frame).2 := by
  unfold World.onFrame
  by_cases h0 : (!w.c.state.canRead) = true
  · rw [if_pos h0]; exact PS.same _ _ (by simp)
  · rw [if_neg h0]
    by_cases h1 : frame.header.rsv1 = true ∨ frame.header.rsv2 = true ∨ frame.header.rsv3 = true
    · rw [if_pos h1]; exact PS.same _ _ (by simp)
    · rw [if_neg h1]
      by_cases h2 : w.c.role = .client ∧ frame.header.mask.isSome = true
      · rw [if_pos h2]; exact PS.same _ _ (by simp)
      · rw [if_neg h2]
        cases frame.header.opcode with
        | control ctl => exact onControl_ps w frame ctl
        | data d => exact onData_ps w frame d

theorem onEof_ps (w : World) : PS w w.onEof.1 w.onEof.2 := by
  unfold World.onEof
  cases hs : w.c.state <;> exact ⟨Or.inl rfl, by simp⟩

theorem readMessageFrame_ps (w : World) : PS w w.readMessageFrame.1 w.readMessageFrame.2 := by
  rw [readMessageFrame_eq]
  have S := readRaw_spec w
  generalize readRaw w = x at *
  obtain ⟨w1, r⟩ := x
  simp only [] at S
  cases r with
  | panic s => exact ⟨Or.inl S.additional, by simp [andThen]⟩
  | err e => exact ⟨Or.inl S.additional, by simp [andThen]⟩
  | ok o =>
    have hst : w1.c.state = w.c.state := by
      rcases S.state with h1 | ⟨_, h2⟩
      · exact h1
      · cases h2
    have lift : ∀ (w2 : World) (r2 : Res (Option Message)), PS w1 w2 r2 → PS w w2 r2 := by
      intro w2 r2 F
      refine ⟨?_, ?_⟩
      · rcases F.slot with h | h | h
        · exact Or.inl (h.trans S.additional)
        · exact Or.inr (Or.inl h)
        · exact Or.inr (Or.inr h)
      · intro p hp
        obtain ⟨a, b⟩ := F.ping p hp
        exact ⟨a.trans hst, fun hs hP => b (hst.trans hs) (hP.of_eq S.additional)⟩
    cases o with
    | some frame => exact lift _ _ (onFrame_ps w1 frame)
    | none => exact lift _ _ (onEof_ps w1)

/-! ### the `read` loop -/

/-- `read`: some slot draining, then the last `read_message_frame`, whose overwrite of the slot by
a pong is the answer to the Ping message that `read` returns -/
def RLP (w w' : World) (r : Res Message) : Prop :=
  ∃ w1, SD w w1 ∧ w'.queued = w1.queued ∧
    (w'.c.additional = w1.c.additional ∨ (∃ c, w'.c.additional = some (Frame.close c)) ∨
      (∃ p, r = .ok (.ping p) ∧ w'.c.additional = some (Frame.pong p)))

theorem readLoop_rlp (fuel : Nat) (w : World) (hnt : w.c.state ≠ .terminated) :
    RLP w (World.readLoop fuel w).1 (World.readLoop fuel w).2 := by
  induction fuel generalizing w with
  | zero => exact ⟨w, SD.refl w, rfl, Or.inl rfl⟩
  | succ fuel ih =>
    simp only [World.readLoop]
    have P := readPre_FS hnt
    have PW := (readPre_ws w).toSD
    generalize w.readPre = x at *
    obtain ⟨wa, r1⟩ := x
    simp only [] at P PW
    cases r1 with
    | panic s => exact (P.not_panic).elim
    | err e => exact ⟨wa, PW, rfl, Or.inl rfl⟩
    | ok u =>
      have hsa : wa.c.state = w.c.state := P.state_of_ok
      have hnta : wa.c.state ≠ .terminated := hsa ▸ hnt
      show RLP w (andThen wa.readMessageFrame _).1 (andThen wa.readMessageFrame _).2
      have M := readMessageFrame_spec wa
      have O := readMessageFrame_os wa
      have Q := readMessageFrame_ps wa
      generalize wa.readMessageFrame = y at *
      obtain ⟨wb, r2⟩ := y
      simp only [] at M O Q
      cases r2 with
      | panic s =>
        refine ⟨wa, PW, O.queued, ?_⟩
        rcases Q.slot with h | h | ⟨p, hp, _⟩
        · exact Or.inl h
        · exact Or.inr (Or.inl h)
        · cases hp
      | err e =>
        refine ⟨wa, PW, O.queued, ?_⟩
        rcases Q.slot with h | h | ⟨p, hp, _⟩
        · exact Or.inl h
        · exact Or.inr (Or.inl h)
        · cases hp
      | ok om =>
        cases om with
        | some m =>
          refine ⟨wa, PW, O.queued, ?_⟩
          rcases Q.slot with h | h | ⟨p, hp, h⟩
          · exact Or.inl h
          · exact Or.inr (Or.inl h)
          · refine Or.inr (Or.inr ⟨p, ?_, h⟩)
            injection hp with hp
            injection hp with hp
            show Res.ok m = _
            rw [hp]
        | none =>
          have hsb : wb.c.state = wa.c.state := M.none rfl
          have hab : SD wa wb := SD.of_same O.role (O.none rfl) O.queued
          obtain ⟨w1, h1, h2, h3⟩ := ih wb (by rw [hsb]; exact hnta)
          show RLP w (World.readLoop fuel wb).1 (World.readLoop fuel wb).2
          exact ⟨w1, SD.trans PW (SD.trans hab h1), h2, h3⟩

theorem read_rlp (w : World) (hnt : w.c.state ≠ .terminated) : RLP w w.read.1 w.read.2 := by
  unfold World.read
  have hnt' : ¬ (!w.c.state.notTerminated) = true := by simp [notTerminated_iff.mpr hnt]
  rw [if_neg hnt']
  exact readLoop_rlp _ w hnt

/-- a Ping message returned while the endpoint stays active leaves its pong in the slot -/
theorem readLoop_ping (fuel : Nat) (w : World) (hI : Inv w) (hnt : w.c.state ≠ .terminated)
    (p : Bytes) (h : (World.readLoop fuel w).2 = .ok (.ping p))
    (hact : (World.readLoop fuel w).1.c.state = .active) :
    (World.readLoop fuel w).1.c.additional = some (Frame.pong p) := by
  induction fuel generalizing w with
  | zero => simp [World.readLoop] at h
  | succ fuel ih =>
    simp only [World.readLoop] at h hact ⊢
    have P := readPre_FS hnt
    have PI := readPre_inv hI
    generalize w.readPre = x at *
    obtain ⟨wa, r1⟩ := x
    simp only [] at P PI
    cases r1 with
    | panic s => exact (P.not_panic).elim
    | err e => simp [andThen] at h
    | ok u =>
      have hsa : wa.c.state = w.c.state := P.state_of_ok
      have hnta : wa.c.state ≠ .terminated := hsa ▸ hnt
      revert h hact
      show (andThen wa.readMessageFrame _).2 = _ → (andThen wa.readMessageFrame _).1.c.state = _ →
        (andThen wa.readMessageFrame _).1.c.additional = _
      have M := readMessageFrame_spec wa
      have Q := readMessageFrame_ps wa
      generalize wa.readMessageFrame = y at *
      obtain ⟨wb, r2⟩ := y
      simp only [] at M Q
      cases r2 with
      | panic s => intro h; simp [andThen] at h
      | err e => intro h; simp [andThen] at h
      | ok om =>
        cases om with
        | some m =>
          intro h hact
          have hm : m = .ping p := by
            simp only [andThen] at h
            injection h
          subst hm
          obtain ⟨a, b⟩ := Q.ping p rfl
          have hwa : wa.c.state = .active := a.symm.trans hact
          exact b hwa (PI.pongy hwa)
        | none =>
          have hsb : wb.c.state = wa.c.state := M.none rfl
          intro h hact
          exact ih wb (M.inv PI) (by rw [hsb]; exact hnta) h hact

/-! ### pong payloads of a world -/

/-- the pong frames that were queued, in queue (= wire) order -/
def qPongs (w : World) : List Bytes := (w.queued.filter (·.isPong)).map (·.payload)

/-- the payload of the pong waiting in the slot, if any -/
def slotPong (w : World) : List Bytes :=
  match w.c.additional with
  | some f => if f.isPong then [f.payload] else []
  | none => []

/-- all pong payloads the endpoint has committed to, oldest first -/
def pongs (w : World) : List Bytes := qPongs w ++ slotPong w

theorem qPongs_of_eq {w w' : World} (h : w'.queued = w.queued) : qPongs w' = qPongs w := by
  unfold qPongs; rw [h]

theorem slotPong_of_eq {w w' : World} (h : w'.c.additional = w.c.additional) : slotPong w' = slotPong w := by
  unfold slotPong; rw [h]

theorem slotPong_none {w : World} (h : w.c.additional = none) : slotPong w = [] := by
  unfold slotPong; rw [h]

theorem slotPong_some {w : World} {f : Frame} (h : w.c.additional = some f) :
    slotPong w = if f.isPong then [f.payload] else [] := by
  unfold slotPong; rw [h]

theorem slotPong_pong {w : World} {d : Bytes} (h : w.c.additional = some (Frame.pong d)) :
    slotPong w = [d] := by
  rw [slotPong_some h]; rfl

theorem slotPong_close {w : World} {c : Option CloseFrame} (h : w.c.additional = some (Frame.close c)) :
    slotPong w = [] := by
  rw [slotPong_some h]; rfl

theorem qPongs_snoc {w w' : World} {f : Frame} (h : w'.queued = w.queued ++ [f]) :
    qPongs w' = qPongs w ++ (if f.isPong then [f.payload] else []) := by
  unfold qPongs
  rw [h, List.filter_append, List.map_append]
  by_cases hp : f.isPong = true
  · simp [hp]
  · simp [hp]

/-- slot draining moves the slot's pong to the queue or leaves it: the committed pongs stay -/
theorem SD.pongs_eq {w w' : World} (h : SD w w') : pongs w' = pongs w := by
  unfold pongs
  cases ha : w.c.additional with
  | none =>
    obtain ⟨h1, h2⟩ := h.empty ha
    rw [qPongs_of_eq h2, slotPong_none h1, slotPong_none ha]
  | some f =>
    rcases h.full f ha with ⟨f', r, s, q⟩ | ⟨f', m, s, q⟩
    · rw [qPongs_of_eq q, slotPong_some s, slotPong_some ha, r.isPong, r.payload]
    · rw [qPongs_snoc q, slotPong_none s, slotPong_some ha, m.remask.isPong, m.remask.payload]
      simp

theorem UserFrame.notPong {f : Frame} (h : UserFrame f) : f.isPong = false := by
  rcases h with ⟨d, rfl⟩ | ⟨d, rfl⟩ | ⟨d, rfl⟩ <;> rfl

theorem sublist_snoc_of_prefix {a b s : List Bytes} (p : Bytes) (h : (a ++ b).Sublist s) :
    (a ++ [p]).Sublist (s ++ [p]) :=
  List.Sublist.append ((List.sublist_append_left a b).trans h) (List.Sublist.refl [p])

theorem sublist_of_prefix {a b s : List Bytes} (h : (a ++ b).Sublist s) : a.Sublist s :=
  (List.sublist_append_left a b).trans h

/-! ### one operation -/

/-- the pong source an operation contributes to the history -/
def srcOf : Op → Out → List Bytes
  | .read, .msg (.ok (.ping p)) => [p]
  | .write (.pong p), _ => [p]
  | _, _ => []

/-- operations other than `read`: prepare, then drain -/
theorem step_decomp_nr (w : World) (op : Op) (hI : Inv w) (hop : op.noRaw) (hnr : op ≠ .read) :
    ∃ w0, Pre w op w0 ∧ SD w0 (w.step op).1 := by
  have trivial_case : (w.step op).1 = w → ∃ w0, Pre w op w0 ∧ SD w0 (w.step op).1 := by
    intro h
    rw [h]
    exact ⟨w, Pre.same rfl rfl, SD.refl w⟩
  cases op with
  | read => exact absurd rfl hnr
  | flush => exact ⟨w, Pre.same rfl rfl, (flush_ws w).toSD⟩
  | close c =>
    by_cases hs : w.c.state = .active
    · exact ⟨(w.setState .closedByUs).setAdditionalRaw (some (Frame.close c)),
        Pre.close c hs (hI.pongy hs) rfl rfl, (close_ws_active w c hs).toSD⟩
    · exact ⟨w, Pre.same rfl rfl, (close_ws_other w c hs).toSD⟩
  | write m =>
    by_cases hs : w.c.state = .active
    · obtain ⟨e1, e2, e3⟩ := write_data_eq w hs
      have data_case : ∀ f, UserFrame f → w.write m = w.writeData f →
          ∃ w0, Pre w (.write m) w0 ∧ SD w0 (w.step (.write m)).1 := by
        intro f hu he
        have B := World.bufferFrame_bq w f
        refine ⟨(w.bufferFrame f).1, Pre.of_bq hu B, ?_⟩
        show SD _ (w.write m).1
        rw [he]
        exact (writeData_ws w f).toSD
      cases m with
      | text d => exact data_case _ (Or.inl ⟨d, rfl⟩) (e1 d)
      | binary d => exact data_case _ (Or.inr (Or.inl ⟨d, rfl⟩)) (e2 d)
      | ping d => exact data_case _ (Or.inr (Or.inr ⟨d, rfl⟩)) (e3 d)
      | frame f => exact absurd hop (by simp [Op.noRaw])
      | close c =>
        refine ⟨(w.setState .closedByUs).setAdditionalRaw (some (Frame.close c)),
          Pre.close c hs (hI.pongy hs) rfl rfl, ?_⟩
        show SD _ (w.write (.close c)).1
        rw [write_close_eq w c hs]
        exact (close_ws_active w c hs).toSD
      | pong d =>
        obtain ⟨f1, f2, f3, f4, _⟩ := setAdditional_fields w (Frame.pong d)
        refine ⟨w.setAdditional (Frame.pong d),
          Pre.pong d rfl hs (hI.pongy hs) (setAdditional_pongy (hI.pongy hs) _) f4, ?_⟩
        show SD _ (w.write (.pong d)).1
        rw [write_pong_eq w d hs, andThen_unit_fst]
        exact (slotTail_ws _).toSD
    · apply trivial_case
      show (w.write m).1 = w
      exact (write_refused w m hs).1

theorem srcOf_not_pong_write (op : Op) (o : Out) (hnr : op ≠ .read) (hnp : ∀ d, op ≠ .write (.pong d)) :
    srcOf op o = [] := by
  cases op with
  | read => exact absurd rfl hnr
  | flush => rfl
  | close c => rfl
  | write m =>
    cases m with
    | pong d => exact absurd rfl (hnp d)
    | text d => rfl
    | binary d => rfl
    | ping d => rfl
    | close c => rfl
    | frame f => rfl

/-- one operation keeps "the committed pongs are a subsequence of the sources so far" -/
theorem step_pongs (w : World) (op : Op) (hI : Inv w) (hop : op.noRaw) (acc : List Bytes)
    (h : (pongs w).Sublist acc) :
    (pongs (w.step op).1).Sublist (acc ++ srcOf op (w.step op).2) := by
  have weaken : ∀ {l : List Bytes} (s : List Bytes), l.Sublist acc → l.Sublist (acc ++ s) :=
    fun s hl => hl.trans (List.sublist_append_left acc s)
  by_cases hr : op = .read
  · subst hr
    by_cases hnt : w.c.state = .terminated
    · have e : w.step .read = (w, .msg (.err .alreadyClosed)) := by
        simp only [World.step, terminated_read w hnt]
      rw [e]
      exact weaken _ h
    · obtain ⟨w1, hsd, hq, hslot⟩ := read_rlp w hnt
      have h1 : (pongs w1).Sublist acc := by rw [hsd.pongs_eq]; exact h
      show (pongs w.read.1).Sublist (acc ++ srcOf .read (.msg w.read.2))
      rcases hslot with hs | ⟨c, hs⟩ | ⟨p, hp, hs⟩
      · have : pongs w.read.1 = pongs w1 := by
          unfold pongs; rw [qPongs_of_eq hq, slotPong_of_eq hs]
        rw [this]; exact weaken _ h1
      · have : pongs w.read.1 = qPongs w1 := by
          unfold pongs; rw [qPongs_of_eq hq, slotPong_close hs]; simp
        rw [this]; exact weaken _ (sublist_of_prefix h1)
      · have : pongs w.read.1 = qPongs w1 ++ [p] := by
          unfold pongs; rw [qPongs_of_eq hq, slotPong_pong hs]
        rw [this, hp]
        exact sublist_snoc_of_prefix p h1
  · obtain ⟨w0, hpre, hsd⟩ := step_decomp_nr w op hI hop hr
    rw [hsd.pongs_eq]
    cases hpre with
    | same ha hq =>
      have : pongs w0 = pongs w := by unfold pongs; rw [qPongs_of_eq hq, slotPong_of_eq ha]
      rw [this]; exact weaken _ h
    | close c _ _ ha hq =>
      have : pongs w0 = qPongs w := by
        unfold pongs; rw [qPongs_of_eq hq, slotPong_close ha]; simp
      rw [this]; exact weaken _ (sublist_of_prefix h)
    | pong d hopd _ _ ha hq =>
      have : pongs w0 = qPongs w ++ [d] := by
        unfold pongs; rw [qPongs_of_eq hq, slotPong_pong ha]
      rw [this, hopd]
      exact sublist_snoc_of_prefix d h
    | data f f' hu hm ha hq =>
      have hnp : f'.isPong = false := by rw [hm.remask.isPong]; exact hu.notPong
      have : pongs w0 = pongs w := by
        unfold pongs; rw [qPongs_snoc hq, slotPong_of_eq ha, hnp]; simp
      rw [this]; exact weaken _ h

end WsProofs
