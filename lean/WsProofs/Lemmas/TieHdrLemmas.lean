import WsModel.Generated.HdrGen
import WsProofs.Props.C18

/-! Rewriting rules for the monad `GenHdr.M` of the machine translation of `FrameHeader`
(`WsModel/Generated/HdrGen.lean`). -/
namespace WsProofs.Tie
open WsModel WsModel.Gen WsModel.GenHdr

/-- sequencing on the pair a call returned -/
def hd_then {α β : Type} (x : St × Res α) (k : St → α → St × Res β) : St × Res β :=
  match x with
  | (s, .ok a) => k s a
  | (s, .err e) => (s, .err e)
  | (s, .panic p) => (s, .panic p)

@[simp] theorem hd_then_ok {α β : Type} (s : St) (a : α) (k : St → α → St × Res β) :
    hd_then (s, Res.ok a) k = k s a := rfl
@[simp] theorem hd_then_err {α β : Type} (s : St) (e : Err) (k : St → α → St × Res β) :
    hd_then ((s, Res.err e) : St × Res α) k = (s, Res.err e) := rfl
@[simp] theorem hd_then_panic {α β : Type} (s : St) (p : PanicSite)
    (k : St → α → St × Res β) :
    hd_then ((s, Res.panic p) : St × Res α) k = (s, Res.panic p) := rfl

theorem hd_bind_apply {α β : Type} (x : M α) (k : α → M β) (s : St) :
    (x >>= k) s = hd_then (x s) (fun s a => k a s) := by
  show M.bind x k s = _
  unfold M.bind hd_then
  rcases x s with ⟨s', r⟩
  cases r <;> rfl

theorem hd_pure_apply {α : Type} (a : α) (s : St) : (pure a : M α) s = (s, Res.ok a) := rfl

theorem hd_ite_apply {α : Type} (c : Prop) [Decidable c] (x y : M α) (s : St) :
    (if c then x else y) s = if c then x s else y s := by
  by_cases h : c <;> simp [h]

theorem hd_throwE_apply {α : Type} (e : Err) (s : St) :
    (throwE e : M α) s = (s, Res.err e) := rfl
theorem hd_panicAt_apply {α : Type} (p : PanicSite) (s : St) :
    (panicAt p : M α) s = (s, Res.panic p) := rfl
theorem hd_liftRes_apply {α : Type} (r : Res α) (s : St) : liftRes r s = (s, r) := rfl
theorem hd_attempt_apply {α : Type} (x : M α) (s : St) :
    attempt x s = ((x s).1, Res.ok (x s).2) := rfl
theorem hd_getPos_apply (s : St) : getPos s = (s, Res.ok s.pos) := rfl
theorem hd_setPos_apply (p : Nat) (s : St) : setPos p s = ({ s with pos := p }, Res.ok ()) := rfl
theorem hd_appendOut_apply (bs : Bytes) (s : St) :
    appendOut bs s = ({ s with out := s.out ++ bs }, Res.ok ()) := rfl
theorem hd_cursorRead_apply (buf : Bytes) (s : St) :
    cursorRead buf s = ({ s with pos := s.pos + min buf.length s.rest.length },
      Res.ok (s.rest.take (min buf.length s.rest.length) ++ buf.drop (min buf.length s.rest.length),
        min buf.length s.rest.length)) := rfl
theorem hd_cursorReadExact_apply (buf : Bytes) (s : St) :
    cursorReadExact buf s =
      if s.rest.length < buf.length then ({ s with pos := s.data.length }, Res.ok ReadExact.eof)
      else ({ s with pos := s.pos + buf.length }, Res.ok (ReadExact.done (s.rest.take buf.length))) :=
  rfl
theorem hd_opCodeFromByte_some {b : UInt8} {o : OpCode} (h : opCodeOfU8 b.toNat = some o) (s : St) :
    opCodeFromByte b s = (s, Res.ok o) := by
  unfold opCodeFromByte; rw [h]; rfl
theorem hd_opCodeFromByte_none {b : UInt8} (h : opCodeOfU8 b.toNat = none) (s : St) :
    opCodeFromByte b s = (s, Res.panic .opcodeOutOfRange) := by
  unfold opCodeFromByte; rw [h]; rfl

syntax "hd_norm" ("[" Lean.Parser.Tactic.simpLemma,* "]")? : tactic
macro_rules
  | `(tactic| hd_norm) => `(tactic| simp only [hd_bind_apply, hd_pure_apply, hd_ite_apply,
      hd_throwE_apply, hd_panicAt_apply, hd_liftRes_apply, hd_attempt_apply, hd_getPos_apply,
      hd_setPos_apply, hd_appendOut_apply,
      hd_then_ok, hd_then_err, hd_then_panic])
  | `(tactic| hd_norm [$ls,*]) => `(tactic| simp only [hd_bind_apply, hd_pure_apply, hd_ite_apply,
      hd_throwE_apply, hd_panicAt_apply, hd_liftRes_apply, hd_attempt_apply, hd_getPos_apply,
      hd_setPos_apply, hd_appendOut_apply,
      hd_then_ok, hd_then_err, hd_then_panic, $ls,*])

/-! ### cursor -/

theorem rest_advance {s : St} {xs ys : Bytes} (h : s.rest = xs ++ ys) (n : Nat)
    (hn : n = xs.length) : ({ s with pos := s.pos + n } : St).rest = ys := by
  subst hn
  unfold St.rest at *
  show List.drop (s.pos + xs.length) s.data = ys
  rw [← List.drop_drop, h, List.drop_left]

theorem beNat_zeros (k : Nat) (xs : Bytes) : beNat (zeros k ++ xs) = beNat xs := by
  unfold beNat zeros
  rw [List.foldl_append]
  congr 1
  induction k with
  | zero => rfl
  | succ k ih => rw [List.replicate_succ, List.foldl_cons]; exact ih

theorem beBytes_mod (k n : Nat) : beBytes k (n % 256 ^ k) = beBytes k n := by
  induction k generalizing n with
  | zero => rfl
  | succ k ih =>
    rw [beBytes, beBytes]
    have h1 : n % 256 ^ (k + 1) / 256 = (n / 256) % 256 ^ k := by
      rw [Nat.pow_succ, Nat.mul_comm, Nat.mod_mul_right_div_self]
    have h2 : n % 256 ^ (k + 1) % 256 = n % 256 := by
      apply Nat.mod_mod_of_dvd
      exact ⟨256 ^ k, by rw [Nat.pow_succ, Nat.mul_comm]⟩
    rw [h1, h2, ih]

theorem cursorRead2 {s : St} {a b : UInt8} {r : Bytes} (h : s.rest = a :: b :: r) :
    cursorRead (zeros 2) s = ({ s with pos := s.pos + 2 }, Res.ok ([a, b], 2)) := by
  rw [hd_cursorRead_apply, h]
  have : min (zeros 2).length (a :: b :: r).length = 2 := by
    simp only [zeros, List.length_replicate, List.length_cons]; omega
  rw [this]; rfl

theorem cursorRead4 {s : St} {a b c d : UInt8} {r : Bytes} (h : s.rest = a :: b :: c :: d :: r) :
    cursorRead (zeros 4) s = ({ s with pos := s.pos + 4 }, Res.ok ([a, b, c, d], 4)) := by
  rw [hd_cursorRead_apply, h]
  have : min (zeros 4).length (a :: b :: c :: d :: r).length = 4 := by
    simp only [zeros, List.length_replicate, List.length_cons]; omega
  rw [this]; rfl

theorem cursorRead_short {s : St} {n : Nat} (h : s.rest.length < n) :
    ∃ bs, cursorRead (zeros n) s = ({ s with pos := s.pos + s.rest.length },
      Res.ok (bs, s.rest.length)) := by
  rw [hd_cursorRead_apply]
  have : min (zeros n).length s.rest.length = s.rest.length := by
    simp only [zeros, List.length_replicate]; omega
  rw [this]; exact ⟨_, rfl⟩

theorem cursorReadExact_eof {s : St} {buf : Bytes} (h : s.rest.length < buf.length) :
    cursorReadExact buf s = ({ s with pos := s.data.length }, Res.ok ReadExact.eof) := by
  rw [hd_cursorReadExact_apply, if_pos h]

theorem cursorReadExact_done {s : St} {buf : Bytes} (h : ¬ s.rest.length < buf.length) :
    cursorReadExact buf s =
      ({ s with pos := s.pos + buf.length }, Res.ok (ReadExact.done (s.rest.take buf.length))) := by
  rw [hd_cursorReadExact_apply, if_neg h]

theorem cursorRead_short' {s : St} {n : Nat} {r : Bytes} (hr : s.rest = r) (h : r.length < n) :
    ∃ bs, cursorRead (zeros n) s = ({ s with pos := s.pos + r.length },
      Res.ok (bs, r.length)) := by
  subst hr; exact cursorRead_short h

theorem shape4 (r : Bytes) : r.length < 4 ∨ ∃ a b c d t, r = a :: b :: c :: d :: t := by
  rcases r with _ | ⟨a, _ | ⟨b, _ | ⟨c, _ | ⟨d, t⟩⟩⟩⟩
  · left; simp only [List.length_nil]; omega
  · left; simp only [List.length_cons, List.length_nil]; omega
  · left; simp only [List.length_cons, List.length_nil]; omega
  · left; simp only [List.length_cons, List.length_nil]; omega
  · right; exact ⟨a, b, c, d, t, rfl⟩

theorem rest_advance_drop {s : St} {r : Bytes} (h : s.rest = r) (n : Nat) (hn : ¬ r.length < n) :
    ({ s with pos := s.pos + n } : St).rest = r.drop n := by
  apply rest_advance (xs := r.take n)
  · rw [h, List.take_append_drop]
  · rw [List.length_take]; omega

end WsProofs.Tie
