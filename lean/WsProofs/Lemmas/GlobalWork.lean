import WsProofs.Lemmas.GlobalPanic

/-! Bounded work: a potential that every transport call either leaves alone (it consumed a scripted
event, or drained bytes from the write buffer) or raises by one (the last call of a loop). -/
namespace WsProofs
open WsModel WsModel.Gen

/-- arithmetic after reducing projections of explicit tuples -/
local macro "psolve" : tactic => `(tactic| first | omega | (dsimp only; omega) | (simp only []; omega))

/-- calls made so far plus scripted events still to be consumed -/
def tcost (t : Transport) : Nat := t.log.length + t.rd.length + t.wr.length + t.fl.length

/-- upper bound of the encoded size of a frame with this payload, whatever the mask -/
def frameCost (f : Frame) : Nat := f.payload.length + 14

def psi0 (w : World) : Nat := tcost w.t + w.c.codec.outBuf.length

def slotLen (w : World) : Nat :=
  match w.c.additional with
  | some f => frameCost f
  | none => 0

/-- the potential: calls made, scripted events left, bytes waiting in the write buffer or the slot -/
def psi (w : World) : Nat := psi0 w + slotLen w

theorem Frame.len_le (f : Frame) : f.len ≤ frameCost f := by
  unfold Frame.len Header.len headerLen frameCost
  cases lfForLength f.payload.length <;> cases f.header.mask.isSome <;> simp [lfExtraBytes] <;> omega

/-! ### transport and codec -/

theorem Transport.writeEv_cost (t : Transport) (buf : Bytes) (e : WrEv) :
    (t.writeEv buf e).1.log.length = t.log.length + 1 ∧ (t.writeEv buf e).1.rd = t.rd ∧
    (t.writeEv buf e).1.wr = t.wr ∧ (t.writeEv buf e).1.fl = t.fl := by
  cases e <;> exact ⟨rfl, rfl, rfl, rfl⟩

theorem Transport.write_cost (t : Transport) (buf : Bytes) : tcost (t.write buf).1 ≤ tcost t + 1 := by
  obtain ⟨rd, wr, fl, rdDef, wrDef, flDef, accepted, flushedUpTo, log, exhausted⟩ := t
  cases wr with
  | nil =>
    obtain ⟨h1, h2, h3, h4⟩ := Transport.writeEv_cost
      { rd := rd, wr := [], fl := fl, rdDef := rdDef, wrDef := wrDef, flDef := flDef,
        accepted := accepted, flushedUpTo := flushedUpTo, log := log, exhausted := true } buf wrDef
    unfold tcost
    show (Transport.writeEv _ buf wrDef).1.log.length + (Transport.writeEv _ buf wrDef).1.rd.length +
      (Transport.writeEv _ buf wrDef).1.wr.length + (Transport.writeEv _ buf wrDef).1.fl.length ≤ _
    rw [h1, h2, h3, h4]
    simp <;> omega
  | cons e rest =>
    obtain ⟨h1, h2, h3, h4⟩ := Transport.writeEv_cost
      { rd := rd, wr := rest, fl := fl, rdDef := rdDef, wrDef := wrDef, flDef := flDef,
        accepted := accepted, flushedUpTo := flushedUpTo, log := log, exhausted := exhausted } buf e
    unfold tcost
    show (Transport.writeEv _ buf e).1.log.length + (Transport.writeEv _ buf e).1.rd.length +
      (Transport.writeEv _ buf e).1.wr.length + (Transport.writeEv _ buf e).1.fl.length ≤ _
    rw [h1, h2, h3, h4]
    simp <;> omega

theorem Transport.flush_cost (t : Transport) : tcost (t.flush).1 ≤ tcost t + 1 := by
  obtain ⟨rd, wr, fl, rdDef, wrDef, flDef, accepted, flushedUpTo, log, exhausted⟩ := t
  cases fl with
  | nil => cases flDef <;> simp [tcost, Transport.flush, Transport.flushEv] <;> omega
  | cons e rest => cases e <;> simp [tcost, Transport.flush, Transport.flushEv] <;> omega

theorem Transport.read_cost (t : Transport) :
    (t.read).1.wrDef = t.wrDef ∧ tcost (t.read).1 ≤ tcost t + 1 ∧
    (t.rd ≠ [] → tcost (t.read).1 = tcost t) ∧ (t.rd = [] → (t.read).2 = t.rdDef) := by
  obtain ⟨rd, wr, fl, rdDef, wrDef, flDef, accepted, flushedUpTo, log, exhausted⟩ := t
  cases rd with
  | nil =>
    exact ⟨rfl, by simp [tcost, Transport.read] <;> omega, fun h => absurd rfl h, fun _ => rfl⟩
  | cons e rest =>
    refine ⟨rfl, by simp [tcost, Transport.read] <;> omega, fun _ => ?_, fun h => by cases h⟩
    simp [tcost, Transport.read] <;> omega

theorem Codec.writeLoop_cost (fuel : Nat) (c : Codec) (t : Transport) :
    tcost (Codec.writeLoop fuel c t).2.1 + (Codec.writeLoop fuel c t).1.outBuf.length ≤
      tcost t + c.outBuf.length + 1 := by
  induction fuel generalizing c t with
  | zero =>
    simp only [Codec.writeLoop]
    by_cases hE : c.outBuf.isEmpty = true
    · rw [if_pos hE] ; psolve
    · rw [if_neg hE] ; psolve
  | succ fuel ih =>
    simp only [Codec.writeLoop]
    by_cases hE : c.outBuf.isEmpty = true
    · rw [if_pos hE] ; psolve
    · rw [if_neg hE]
      have hne : c.outBuf ≠ [] := fun h => hE (by simp [h])
      have hpos : 0 < c.outBuf.length := List.length_pos_iff.mpr hne
      have hw := Transport.write_cost t c.outBuf
      generalize t.write c.outBuf = x at *
      obtain ⟨t1, r⟩ := x
      simp only [] at hw
      cases r with
      | err k => simp only [] ; psolve
      | ok n =>
        simp only []
        by_cases hn : n = 0
        · rw [if_pos hn]; simp only [] ; psolve
        · rw [if_neg hn]
          have h2 := ih { c with outBuf := c.outBuf.drop n } t1
          simp only [List.length_drop] at h2
          omega

theorem Codec.bufferFrame_cost (c : Codec) (t : Transport) (f : Frame) :
    tcost (c.bufferFrame t f).2.1 + (c.bufferFrame t f).1.outBuf.length ≤
      tcost t + c.outBuf.length + f.len + 1 := by
  unfold Codec.bufferFrame
  by_cases hfull : f.len + c.outBuf.length > c.maxOut
  · rw [if_pos hfull]; simp only [] ; psolve
  · rw [if_neg hfull]
    simp only [formatIntoBuf_eq]
    have hl : (c.outBuf ++ f.format).length = c.outBuf.length + f.len := by
      rw [List.length_append, Frame.format_length]
    by_cases hw : (c.outBuf ++ f.format).length > c.writeLen
    · rw [if_pos hw]
      have h := Codec.writeLoop_cost (c.outBuf ++ f.format).length
        { c with outBuf := c.outBuf ++ f.format } t
      unfold Codec.writeOutBuffer
      simp only [] at h ⊢
      omega
    · rw [if_neg hw]; simp only [] ; psolve

theorem Codec.readLoop_cost (maxSize fuel : Nat) (c : Codec) (t : Transport)
    (hdef : ∀ bs, t.rdDef ≠ .data bs) :
    (Codec.readLoop maxSize fuel c t).2.1.wrDef = t.wrDef ∧
    tcost (Codec.readLoop maxSize fuel c t).2.1 ≤ tcost t + 1 := by
  induction fuel generalizing c t with
  | zero => simp only [Codec.readLoop]; exact ⟨by first | rfl | trivial, by psolve⟩
  | succ fuel ih =>
    simp only [Codec.readLoop]
    cases hh : c.ensureHeader with
    | mk c1 r1 =>
      cases r1 with
      | err e => exact ⟨rfl, by psolve⟩
      | panic s => exact ⟨rfl, by psolve⟩
      | ok u =>
        cases u
        dsimp only
        cases hsp : c1.trySplit maxSize with
        | frame c2 p => exact ⟨rfl, by psolve⟩
        | tooLong size max => exact ⟨rfl, by psolve⟩
        | more n =>
          dsimp only
          obtain ⟨q1, q2, q3, q4⟩ := Transport.read_cost t
          obtain ⟨r1, _, _⟩ := Transport.read_facts t hdef
          cases hrd : t.read with
          | mk t1 ev =>
            rw [hrd] at q1 q2 q3 q4 r1
            dsimp only at q1 q2 q3 q4 r1
            cases ev with
            | eof => exact ⟨q1, q2⟩
            | err k => exact ⟨q1, q2⟩
            | data bs =>
              dsimp only
              by_cases hbs : bs.isEmpty = true
              · rw [if_pos hbs]; exact ⟨q1, q2⟩
              · rw [if_neg hbs]
                have hne : t.rd ≠ [] := by
                  intro h
                  exact hdef bs (q4 h).symm
                obtain ⟨i1, i2⟩ := ih { c1 with inBuf := c1.inBuf ++ bs } t1 (by rw [r1]; exact hdef)
                exact ⟨i1.trans q1, by rw [← q3 hne]; exact i2⟩

theorem Codec.readFrame_cost (c : Codec) (t : Transport) (maxSize : Option Nat) (u a : Bool)
    (hdef : ∀ bs, t.rdDef ≠ .data bs) :
    (c.readFrame t maxSize u a).2.1.wrDef = t.wrDef ∧
    tcost (c.readFrame t maxSize u a).2.1 ≤ tcost t + 1 := by
  unfold Codec.readFrame
  have h := Codec.readLoop_cost (maxSize.getD usizeMax) (t.rd.length + 1) c t hdef
  generalize Codec.readLoop (maxSize.getD usizeMax) (t.rd.length + 1) c t = q at *
  obtain ⟨c1, t1, r⟩ := q
  cases r with
  | err e => exact h
  | panic s => exact h
  | ok o =>
    cases o with
    | none => exact h
    | some p => exact h

/-! ### world level -/

theorem psi0_eq {w2 : World} {c1 : Codec} {t1 : Transport} (hc : w2.c.codec = c1) (ht : w2.t = t1) :
    psi0 w2 = tcost t1 + c1.outBuf.length := by
  unfold psi0; rw [hc, ht]

theorem psi_none {w : World} (h : w.c.additional = none) : psi w = psi0 w := by
  unfold psi slotLen; rw [h]; rfl

theorem psi_some {w : World} {f : Frame} (h : w.c.additional = some f) :
    psi w = psi0 w + frameCost f := by
  unfold psi slotLen; rw [h]

theorem psi0_le_psi (w : World) : psi0 w ≤ psi w := by unfold psi; omega

theorem psi_le_of {w w' : World} {k : Nat} (ha : w'.c.additional = w.c.additional)
    (h0 : psi0 w' ≤ psi0 w + k) : psi w' ≤ psi w + k := by
  unfold psi slotLen; rw [ha]; omega

theorem psi0_le_of {w w' : World} {k : Nat} (ha : w'.c.additional = w.c.additional)
    (h : psi w' ≤ psi w + k) : psi0 w' ≤ psi0 w + k := by
  unfold psi slotLen at h; rw [ha] at h; omega

/-- a setter that touches neither transport, write buffer nor slot -/
theorem psi_setter {w w' : World} (ha : w'.c.additional = w.c.additional)
    (hc : w'.c.codec = w.c.codec) (ht : w'.t = w.t) : psi w' = psi w := by
  unfold psi psi0 slotLen; rw [ha, hc, ht]

theorem World.bufferFrame_cost (w : World) (f : Frame) :
    (w.bufferFrame f).1.c.additional = w.c.additional ∧
    psi0 (w.bufferFrame f).1 ≤ psi0 w + frameCost f + 1 ∧
    (∀ g, (w.bufferFrame f).2 = .err (.writeBufferFull g) →
      psi0 (w.bufferFrame f).1 = psi0 w ∧ g.payload = f.payload) := by
  rw [bufferFrame_eq]
  obtain ⟨hpc, hpt, _, hsk⟩ := maskStep_spec w f
  generalize maskStep w f = p at *
  obtain ⟨w0, f'⟩ := p
  simp only [] at hpc hpt hsk ⊢
  have hcb := Codec.bufferFrame_spec w0.c.codec w0.t f'
  have hcc := Codec.bufferFrame_cost w0.c.codec w0.t f'
  generalize w0.c.codec.bufferFrame w0.t f' = q at *
  obtain ⟨c1, t1, r⟩ := q
  simp only [] at hcb hcc ⊢
  have hlen : f'.len ≤ frameCost f := by
    have := Frame.len_le f'
    unfold frameCost at *
    rw [hsk.1] at this
    exact this
  have h0 : psi0 w = tcost w0.t + w0.c.codec.outBuf.length := by unfold psi0; rw [hpc, hpt]
  rcases hcb.cases with ⟨hr, hc, ht⟩ | ⟨hk, _, _⟩
  · subst hr
    simp only [Res.isWriteBufferFull, if_true]
    rcases checkConnectionReset_cases (w0.setCodec c1 t1) (.err (.writeBufferFull f') : Res Unit)
        (by intro h; cases h)
      with ⟨he, _⟩ | ⟨_, h, _⟩
    · rw [he]
      have e1 : psi0 (w0.setCodec c1 t1) = tcost t1 + c1.outBuf.length := psi0_eq rfl rfl
      refine ⟨by simp only [World.setCodec, hpc], by rw [e1, h0]; omega, ?_⟩
      intro g hg
      injection hg with hg
      injection hg with hg
      subst hg
      exact ⟨by rw [e1, h0, hc, ht], hsk.1⟩
    · cases h
  · have hnw : r.isWriteBufferFull = false := by
      rcases hk with rfl | ⟨k, rfl⟩ <;> rfl
    have hnw' : ∀ g, r ≠ .err (.writeBufferFull g) := by
      intro g hg; rw [hg] at hnw; cases hnw
    simp only [hnw, Bool.false_eq_true, if_false]
    rcases checkConnectionReset_cases
        ({ w0.setCodec c1 t1 with queued := w0.queued ++ [f'] } : World) r
        (by rcases hk with rfl | ⟨k, rfl⟩ <;> (intro h; cases h))
      with ⟨he, _⟩ | ⟨he, _, _⟩
    · rw [he]
      have e1 : psi0 ({ w0.setCodec c1 t1 with queued := w0.queued ++ [f'] } : World) =
          tcost t1 + c1.outBuf.length := psi0_eq rfl rfl
      exact ⟨by simp only [World.setCodec, hpc], by rw [e1, h0]; omega,
        fun g hg => absurd hg (hnw' g)⟩
    · rw [he]
      have e1 : psi0 (({ w0.setCodec c1 t1 with queued := w0.queued ++ [f'] } : World).setState
          .terminated) = tcost t1 + c1.outBuf.length := psi0_eq rfl rfl
      exact ⟨by simp only [World.setCodec, World.setState, hpc], by rw [e1, h0]; omega,
        fun g hg => by cases hg⟩

theorem World.writeOutBuffer_cost (w : World) : psi w.writeOutBuffer.1 ≤ psi w + 1 := by
  have S := World.writeOutBuffer_spec w
  apply psi_le_of S.additional
  unfold World.writeOutBuffer Codec.writeOutBuffer
  have h := Codec.writeLoop_cost w.c.codec.outBuf.length w.c.codec w.t
  generalize Codec.writeLoop w.c.codec.outBuf.length w.c.codec w.t = q at *
  obtain ⟨c1, t1, r⟩ := q
  have e1 : psi0 (w.setCodec c1 t1) = tcost t1 + c1.outBuf.length := psi0_eq rfl rfl
  show psi0 (w.setCodec c1 t1) ≤ _
  rw [e1]
  unfold psi0
  exact h

theorem World.streamFlush_cost (w : World) : psi w.streamFlush.1 ≤ psi w + 1 := by
  have S := World.streamFlush_spec w
  apply psi_le_of (by rw [S.c])
  unfold psi0
  rw [S.c]
  have h := Transport.flush_cost w.t
  unfold World.streamFlush
  generalize w.t.flush = q at *
  obtain ⟨t1, e⟩ := q
  cases e <;> (simp only [] at h ⊢; omega)

theorem andThen_cost {α β : Type} {w0 : World} {k1 k2 : Nat} (x : World × Res α)
    (k : World → α → World × Res β) (hx : psi x.1 ≤ psi w0 + k1)
    (hk : ∀ w a, psi (k w a).1 ≤ psi w + k2) : psi (andThen x k).1 ≤ psi w0 + (k1 + k2) := by
  rcases x with ⟨w, a | e | s⟩
  · have := hk w a
    show psi (k w a).1 ≤ _
    simp only [] at hx
    omega
  · show psi w ≤ _
    simp only [] at hx
    omega
  · show psi w ≤ _
    simp only [] at hx
    omega

theorem writeSlot_cost (w : World) : psi w.writeSlot.1 ≤ psi w + 1 := by
  unfold World.writeSlot
  cases ha : w.c.additional with
  | none => exact Nat.le_add_right _ _
  | some msg =>
    simp only []
    obtain ⟨b1, b2, b3⟩ := World.bufferFrame_cost (w.setAdditionalRaw none) msg
    generalize (w.setAdditionalRaw none).bufferFrame msg = x at *
    obtain ⟨w1, r⟩ := x
    simp only [] at b1 b2 b3
    have hadd : w1.c.additional = none := b1
    have hpsi : psi w = psi0 w + frameCost msg := psi_some ha
    have hb2 : psi0 w1 ≤ psi0 w + frameCost msg + 1 := b2
    have hu : psi (w1.setUnflushed true) ≤ psi w + 1 := by
      rw [psi_setter (w := w1) (w' := w1.setUnflushed true) rfl rfl rfl, psi_none hadd, hpsi]; exact hb2
    have h1 : psi w1 ≤ psi w + 1 := by
      rw [psi_none hadd, hpsi]; exact hb2
    cases r with
    | ok u => cases u; exact hu
    | panic s => exact h1
    | err e =>
      cases e with
      | writeBufferFull g =>
        obtain ⟨c1, c2⟩ := b3 g rfl
        have he : w1.setAdditional g = w1.setAdditionalRaw (some g) := by
          unfold World.setAdditional; rw [hadd]
        show psi (w1.setAdditional g) ≤ _
        rw [he, psi_some (w := w1.setAdditionalRaw (some g)) (f := g) rfl, hpsi]
        have e0 : psi0 (w1.setAdditionalRaw (some g)) = psi0 w1 := rfl
        have e2 : psi0 w1 = psi0 w := c1
        unfold frameCost
        rw [e0, e2, c2]
        omega
      | connectionClosed => exact hu
      | alreadyClosed => exact hu
      | io k => exact hu
      | capacity a b => exact hu
      | protocol q => exact hu
      | utf8 => exact hu

theorem writeTail_cost (w : World) (sf : Bool) : psi (w.writeTail sf).1 ≤ psi w + 1 := by
  unfold World.writeTail
  by_cases hc : w.c.role = .server ∧ (!w.c.state.canRead) = true ∧ w.c.additional.isNone = true
  · rw [if_pos hc]
    exact andThen_cost (k1 := 1) (k2 := 0) _ _ (World.writeOutBuffer_cost w)
      (fun w1 _ => Nat.le_of_eq (psi_setter rfl rfl rfl))
  · rw [if_neg hc]
    exact Nat.le_add_right _ _

theorem slotTail_cost (w : World) : psi (slotTail w).1 ≤ psi w + 2 := by
  unfold slotTail
  exact andThen_cost (k1 := 1) (k2 := 1) _ _ (writeSlot_cost w) (fun w1 sf => writeTail_cost w1 sf)

theorem flushRetry_cost (w : World) : psi w.flushRetry.1 ≤ psi w + 3 := by
  unfold World.flushRetry
  by_cases hc : w.c.additional.isSome = true
  · rw [if_pos hc, writeInternal_none_eq]
    exact andThen_cost (k1 := 2) (k2 := 1) _ _ (slotTail_cost w)
      (fun w1 _ => World.writeOutBuffer_cost w1)
  · rw [if_neg hc]
    exact Nat.le_add_right _ _

theorem flush_cost (w : World) : psi w.flush.1 ≤ psi w + 7 := by
  unfold World.flush
  by_cases hc : (!w.c.state.notTerminated) = true
  · rw [if_pos hc]; exact Nat.le_add_right _ _
  · rw [if_neg hc, writeInternal_none_eq]
    refine andThen_cost (k1 := 2) (k2 := 5) _ _ (slotTail_cost w) ?_
    intro w1 _
    refine andThen_cost (k1 := 1) (k2 := 4) _ _ (World.writeOutBuffer_cost w1) ?_
    intro w2 _
    refine andThen_cost (k1 := 3) (k2 := 1) _ _ (flushRetry_cost w2) ?_
    intro w3 _
    refine andThen_cost (k1 := 1) (k2 := 0) _ _ (World.streamFlush_cost w3) ?_
    intro w4 _
    exact Nat.le_of_eq (psi_setter rfl rfl rfl)

theorem readPre_cost (w : World) : psi w.readPre.1 ≤ psi w + 7 := by
  unfold World.readPre
  by_cases h1 : w.c.additional.isSome = true ∨ w.c.unflushed = true
  · rw [if_pos h1]
    have hf := flush_cost w
    generalize w.flush = x at *
    obtain ⟨w1, r⟩ := x
    simp only [] at hf
    have hu : psi (w1.setUnflushed true) ≤ psi w + 7 := by
      rw [psi_setter (w := w1) (w' := w1.setUnflushed true) rfl rfl rfl]; exact hf
    cases r with
    | ok u => cases u; exact hf
    | panic s => exact hf
    | err e =>
      cases e with
      | io k => cases k <;> first | exact hu | exact hf
      | connectionClosed => exact hf
      | alreadyClosed => exact hf
      | capacity a b => exact hf
      | protocol p => exact hf
      | writeBufferFull f => exact hf
      | utf8 => exact hf
  · rw [if_neg h1]
    by_cases h2 : w.c.role = .server ∧ (!w.c.state.canRead) = true
    · rw [if_pos h2]
      rw [psi_setter (w := w) (w' := w.setState .terminated) rfl rfl rfl]
      exact Nat.le_add_right _ _
    · rw [if_neg h2]; exact Nat.le_add_right _ _

/-! ### operations -/

theorem psi_set_slot (w w' : World) (g : Frame) (ha : w'.c.additional = some g)
    (hc : w'.c.codec = w.c.codec) (ht : w'.t = w.t) : psi w' ≤ psi w + frameCost g := by
  rw [psi_some ha]
  have : psi0 w' = psi0 w := by unfold psi0; rw [hc, ht]
  rw [this]
  have := psi0_le_psi w
  omega

theorem close_cost (w : World) (c : Option CloseFrame) :
    psi (w.close c).1 ≤ psi w + frameCost (Frame.close c) + 7 := by
  unfold World.close
  by_cases hs : w.c.state = .active
  · rw [if_pos hs]
    have h1 := flush_cost ((w.setState .closedByUs).setAdditionalRaw (some (Frame.close c)))
    have h2 := psi_set_slot w ((w.setState .closedByUs).setAdditionalRaw (some (Frame.close c)))
      (Frame.close c) rfl rfl rfl
    show psi ((w.setState .closedByUs).setAdditionalRaw (some (Frame.close c))).flush.1 ≤ _
    omega
  · rw [if_neg hs]
    have := flush_cost w
    show psi w.flush.1 ≤ _
    omega

theorem writeData_cost (w : World) (f : Frame) :
    psi (w.writeData f).1 ≤ psi w + (frameCost f + 1 + 2 + 7) := by
  unfold World.writeData
  rw [writeInternal_some_eq]
  refine andThen_cost (k1 := frameCost f + 1 + 2) (k2 := 7) _ _ ?_ ?_
  · refine andThen_cost (k1 := frameCost f + 1) (k2 := 2) _ _ ?_ (fun w1 _ => slotTail_cost w1)
    obtain ⟨b1, b2, _⟩ := World.bufferFrame_cost w f
    have := psi_le_of (k := frameCost f + 1) b1 (by omega)
    omega
  · intro w1 sf
    cases sf with
    | true => exact flush_cost w1
    | false => exact Nat.le_add_right _ _

theorem setAdditional_cost (w : World) (g : Frame) :
    psi (w.setAdditional g) ≤ psi w + frameCost g := by
  obtain ⟨_, _, f3, _, f5, _⟩ := setAdditional_fields w g
  rcases setAdditional_slot w g with h | ⟨_, h⟩
  · rw [psi_setter h f5 f3]; exact Nat.le_add_right _ _
  · exact psi_set_slot w _ g h f5 f3

/-- bytes the operation itself asks to send -/
def opLen : Op → Nat
  | .write (.text d) => d.length + 14
  | .write (.binary d) => d.length + 14
  | .write (.ping d) => d.length + 14
  | .write (.pong d) => d.length + 14
  | .write (.close c) => (Frame.close c).payload.length + 14
  | .write (.frame f) => f.payload.length + 14
  | .close c => (Frame.close c).payload.length + 14
  | _ => 0

theorem write_cost (w : World) (m : Message) : psi (w.write m).1 ≤ psi w + opLen (.write m) + 10 := by
  unfold World.write
  by_cases h1 : (!w.c.state.notTerminated) = true
  · rw [if_pos h1]; show psi w ≤ _; omega
  · rw [if_neg h1]
    by_cases h2 : (!w.c.state.isActive) = true
    · rw [if_pos h2]; show psi w ≤ _; omega
    · rw [if_neg h2]
      cases m with
      | text d => have := writeData_cost w (Frame.message d (.data .text) true); exact this
      | binary d => have := writeData_cost w (Frame.message d (.data .binary) true); exact this
      | ping d => have := writeData_cost w (Frame.ping d); exact this
      | frame f => have := writeData_cost w f; exact this
      | close c =>
        have := close_cost w c
        show psi (w.close c).1 ≤ psi w + ((Frame.close c).payload.length + 14) + 10
        unfold frameCost at this
        omega
      | pong d =>
        simp only []
        rw [writeInternal_none_eq]
        have h3 := setAdditional_cost w (Frame.pong d)
        have h4 := andThen_cost (w0 := w.setAdditional (Frame.pong d)) (k1 := 2) (k2 := 0)
          (slotTail (w.setAdditional (Frame.pong d))) (fun w _ => (w, (.ok () : Res Unit)))
          (slotTail_cost _) (fun w1 _ => Nat.le_refl _)
        show _ ≤ psi w + (d.length + 14) + 10
        have e : frameCost (Frame.pong d) = d.length + 14 := rfl
        omega

/-! ### the read side -/

theorem readRaw_cost (w : World) (hdef : ∀ bs, w.t.rdDef ≠ .data bs) :
    psi0 (readRaw w).1 ≤ psi0 w + 1 := by
  have S := readRaw_spec w
  unfold readRaw at S ⊢
  have h := Codec.readFrame_cost w.c.codec w.t w.c.cfg.maxFrame (w.c.role == .server)
    w.c.cfg.acceptUnmasked hdef
  have hncc := codec_readFrame_ne_cc w.c.codec w.t w.c.cfg.maxFrame (w.c.role == .server)
    w.c.cfg.acceptUnmasked
  generalize w.c.codec.readFrame w.t w.c.cfg.maxFrame (w.c.role == .server)
    w.c.cfg.acceptUnmasked = q at *
  obtain ⟨c1, t1, r⟩ := q
  simp only [] at h S hncc ⊢
  have hout := S.same.outBuf
  rcases checkConnectionReset_cases (w.setCodec c1 t1) r hncc with ⟨he, _⟩ | ⟨he, _, _⟩
  · rw [he] at hout ⊢
    have e1 : psi0 (w.setCodec c1 t1) = tcost t1 + c1.outBuf.length := psi0_eq rfl rfl
    have hout' : c1.outBuf = w.c.codec.outBuf := hout
    rw [e1, hout']
    unfold psi0
    omega
  · rw [he] at hout ⊢
    have e1 : psi0 ((w.setCodec c1 t1).setState .terminated) = tcost t1 + c1.outBuf.length :=
      psi0_eq rfl rfl
    have hout' : c1.outBuf = w.c.codec.outBuf := hout
    rw [e1, hout']
    unfold psi0
    omega

theorem readMessageFrame_cost (w : World) (hdef : ∀ bs, w.t.rdDef ≠ .data bs) :
    psi0 w.readMessageFrame.1 ≤ psi0 w + 1 ∧
    (w.readMessageFrame.2 = .ok none → psi w.readMessageFrame.1 ≤ psi w + 1) := by
  have O := readMessageFrame_os w
  have hO : w.readMessageFrame.2 = .ok none → w.readMessageFrame.1.c.additional = w.c.additional := O.none
  suffices h : psi0 w.readMessageFrame.1 ≤ psi0 w + 1 from
    ⟨h, fun hr => psi_le_of (hO hr) h⟩
  rw [readMessageFrame_eq]
  have C := readRaw_cost w hdef
  generalize readRaw w = x at *
  obtain ⟨w1, r⟩ := x
  simp only [] at C
  cases r with
  | panic s => exact C
  | err e => exact C
  | ok o =>
    cases o with
    | some frame =>
      have F := onFrame_np w1 frame
      show psi0 (w1.onFrame frame).1 ≤ _
      have : psi0 (w1.onFrame frame).1 = psi0 w1 := by unfold psi0; rw [F.codec, F.t]
      rw [this]; exact C
    | none =>
      have F := (onEof_np w1).1
      show psi0 w1.onEof.1 ≤ _
      have : psi0 w1.onEof.1 = psi0 w1 := by unfold psi0; rw [F.codec, F.t]
      rw [this]; exact C

theorem readLoop_cost (fuel : Nat) (w : World) (hdef : ∀ bs, w.t.rdDef ≠ .data bs) :
    psi0 (World.readLoop fuel w).1 ≤ psi w + 8 * fuel := by
  induction fuel generalizing w with
  | zero => exact psi0_le_psi w
  | succ fuel ih =>
    simp only [World.readLoop]
    have P := readPre_cost w
    have PW := readPre_ws w
    generalize w.readPre = x at *
    obtain ⟨wa, r1⟩ := x
    simp only [] at P PW
    have h0a := psi0_le_psi wa
    cases r1 with
    | panic s => show psi0 wa ≤ _; omega
    | err e => show psi0 wa ≤ _; omega
    | ok u =>
      have hda : ∀ bs, wa.t.rdDef ≠ .data bs := by rw [PW.rside.t.rdDef]; exact hdef
      show psi0 (andThen wa.readMessageFrame _).1 ≤ _
      obtain ⟨M1, M2⟩ := readMessageFrame_cost wa hda
      have N := readMessageFrame_np wa
      generalize wa.readMessageFrame = y at *
      obtain ⟨wb, r2⟩ := y
      simp only [] at M1 M2 N
      cases r2 with
      | panic s => show psi0 wb ≤ _; omega
      | err e => show psi0 wb ≤ _; omega
      | ok om =>
        cases om with
        | some m => show psi0 wb ≤ _; omega
        | none =>
          show psi0 (World.readLoop fuel wb).1 ≤ _
          have h1 := M2 rfl
          have h2 := ih wb (by rw [N.rdDef hda]; exact hda)
          omega

theorem read_cost (w : World) (hdef : ∀ bs, w.t.rdDef ≠ .data bs) :
    psi0 w.read.1 ≤ psi w + 8 * (w.c.codec.inBuf.length + rdBytes w.t.rd + 2) := by
  unfold World.read
  by_cases hc : (!w.c.state.notTerminated) = true
  · rw [if_pos hc]
    have := psi0_le_psi w
    show psi0 w ≤ _
    omega
  · rw [if_neg hc]
    exact readLoop_cost _ w hdef

/-- every operation raises the potential by a bounded amount -/
theorem step_cost (w : World) (op : Op) (hdef : ∀ bs, w.t.rdDef ≠ .data bs) :
    psi0 (w.step op).1 ≤
      psi w + opLen op + 8 * (w.c.codec.inBuf.length + rdBytes w.t.rd + 2) + 10 := by
  cases op with
  | read =>
    have := read_cost w hdef
    show psi0 w.read.1 ≤ _
    omega
  | flush =>
    have := flush_cost w
    have := psi0_le_psi w.flush.1
    show psi0 w.flush.1 ≤ _
    omega
  | close c =>
    have := close_cost w c
    have := psi0_le_psi (w.close c).1
    show psi0 (w.close c).1 ≤ psi w + ((Frame.close c).payload.length + 14) + _ + 10
    unfold frameCost at *
    omega
  | write m =>
    have := write_cost w m
    have := psi0_le_psi (w.write m).1
    show psi0 (w.write m).1 ≤ _
    omega

end WsProofs
