import WsProofs.Lemmas.ReadCodec

/-! The specification `Spec.decodeFrom`, unfolded one frame at a time and phrased with the
one-shot view `shot` of the model's header parser. -/
namespace WsProofs.Read
open WsModel WsModel.Gen WsModel.Spec WsProofs.C18

/-- `(m :: ms, e)` -/
def consMsg (m : Message) (r : List Message × End) : List Message × End := (m :: r.1, r.2)

/-- one frame of `decodeFrom`, with the recursive call abstracted as `k` -/
def frameStep (role : Role) (acceptUnmasked : Bool) (lim : Limits)
    (k : Option Partial → Bytes → List Message × End) (frag : Option Partial) (bs : Bytes) :
    List Message × End :=
  match rawHeader bs with
  | none => ([], .needMore)
  | some h =>
    if !isDefinedOpcode h.opcode then ([], .error .protocol)
    else if overLimit h.len lim.maxFrame then ([], .error .capacity)
    else if bs.length < h.size + h.len then ([], .needMore)
    else
      let raw := (bs.drop h.size).take h.len
      let rest := (bs.drop h.size).drop h.len
      if role = .server ∧ h.mask.isNone ∧ !acceptUnmasked then ([], .error .protocol)
      else if h.rsv ≠ 0 then ([], .error .protocol)
      else if role = .client ∧ h.mask.isSome then ([], .error .protocol)
      else
        let p := if role = .server then unmaskPayload h.mask raw else raw
        match frameMeaning lim frag h.fin h.opcode p with
        | .fail c => ([], .error c)
        | .close m => ([m], .closed)
        | .deliver m frag' => consMsg m (k frag' rest)
        | .continue_ frag' => k frag' rest

theorem decodeFrom_succ (role : Role) (au : Bool) (lim : Limits) (fuel : Nat)
    (frag : Option Partial) (bs : Bytes) :
    decodeFrom role au lim (fuel + 1) frag bs =
      frameStep role au lim (decodeFrom role au lim fuel) frag bs := by
  rw [decodeFrom]
  rfl

theorem frameStep_congr (role : Role) (au : Bool) (lim : Limits)
    (k1 k2 : Option Partial → Bytes → List Message × End) (frag : Option Partial) (bs : Bytes)
    (hk : ∀ frag' rest, rest.length + 2 ≤ bs.length → k1 frag' rest = k2 frag' rest) :
    frameStep role au lim k1 frag bs = frameStep role au lim k2 frag bs := by
  unfold frameStep
  cases hr : rawHeader bs with
  | none => rfl
  | some h =>
    dsimp only
    by_cases h1 : (!isDefinedOpcode h.opcode) = true
    · simp only [if_pos h1]
    · simp only [if_neg h1]
      by_cases h2 : overLimit h.len lim.maxFrame = true
      · simp only [if_pos h2]
      · simp only [if_neg h2]
        by_cases h3 : bs.length < h.size + h.len
        · simp only [if_pos h3]
        · simp only [if_neg h3]
          have hsz := (rawHeader_shape hr).2.2
          have hrest : ((bs.drop h.size).drop h.len).length + 2 ≤ bs.length := by
            simp only [List.length_drop]; omega
          by_cases h4 : role = .server ∧ h.mask.isNone ∧ (!au) = true
          · simp only [if_pos h4]
          · simp only [if_neg h4]
            by_cases h5 : h.rsv ≠ 0
            · simp only [if_pos h5]
            · simp only [if_neg h5]
              by_cases h6 : role = .client ∧ h.mask.isSome
              · simp only [if_pos h6]
              · simp only [if_neg h6]
                cases frameMeaning lim frag h.fin h.opcode
                    (if role = .server then unmaskPayload h.mask ((bs.drop h.size).take h.len)
                     else (bs.drop h.size).take h.len) with
                | fail c => rfl
                | close m => rfl
                | deliver m frag' => dsimp only; rw [hk _ _ hrest]
                | continue_ frag' => dsimp only; rw [hk _ _ hrest]

/-- enough fuel is enough -/
theorem decodeFrom_fuel (role : Role) (au : Bool) (lim : Limits) :
    ∀ (f1 f2 : Nat) (frag : Option Partial) (bs : Bytes), bs.length + 1 ≤ f1 → bs.length + 1 ≤ f2 →
      decodeFrom role au lim f1 frag bs = decodeFrom role au lim f2 frag bs := by
  intro f1
  induction f1 with
  | zero => intro f2 frag bs h; omega
  | succ f1 ih =>
    intro f2 frag bs h1 h2
    obtain ⟨f2, rfl⟩ : ∃ f, f2 = f + 1 := ⟨f2 - 1, by omega⟩
    rw [decodeFrom_succ, decodeFrom_succ]
    apply frameStep_congr
    intro frag' rest hrest
    exact ih f2 frag' rest (by omega) (by omega)

/-- the specification with exactly the fuel it needs -/
def dec (role : Role) (au : Bool) (lim : Limits) (frag : Option Partial) (bs : Bytes) :
    List Message × End :=
  decodeFrom role au lim (bs.length + 1) frag bs

theorem dec_step (role : Role) (au : Bool) (lim : Limits) (frag : Option Partial) (bs : Bytes) :
    dec role au lim frag bs = frameStep role au lim (dec role au lim) frag bs := by
  unfold dec
  rw [decodeFrom_succ]
  apply frameStep_congr
  intro frag' rest hrest
  exact decodeFrom_fuel role au lim _ _ frag' rest (by omega) (Nat.le_refl _)

theorem decode_eq_dec (role : Role) (au : Bool) (lim : Limits) (bs : Bytes) :
    decode role au lim bs = dec role au lim none bs := rfl

/-! ## the frame-size limit -/

theorem overLimit_getD {len : Nat} (hl : len < 2 ^ 64) (lim : Option Nat) :
    overLimit len lim = decide (len > lim.getD usizeMax) := by
  cases lim with
  | some m => rfl
  | none =>
    have h : ¬ len > (none : Option Nat).getD usizeMax := by
      simp only [Option.getD_none, usizeMax]; omega
    simp only [overLimit, h, decide_false]

/-! ## the three one-shot outcomes -/

theorem dec_needMore {role : Role} {au : Bool} {lim : Limits} {frag : Option Partial} {S : Bytes}
    (hs : shot (lim.maxFrame.getD usizeMax) S = .needMore) :
    dec role au lim frag S = ([], .needMore) := by
  rw [dec_step]
  unfold frameStep
  cases hr : rawHeader S with
  | none => rfl
  | some r =>
    dsimp only
    unfold shot at hs
    cases hp : Header.parse S with
    | incomplete => rw [(parse_incomplete_iff S).mp hp] at hr; cases hr
    | panic q => exact absurd hp (C18_parse_total S q)
    | error e => rw [hp] at hs; cases hs
    | header h len n =>
      rw [hp] at hs
      dsimp only at hs
      obtain ⟨r', hr', hdef, _, _, hlen, hn⟩ := parse_header_raw hp
      rw [hr] at hr'
      cases hr'
      have hlt := parse_len_lt hp
      have hnle := parse_used_le hp
      subst hlen
      subst hn
      by_cases h1 : r.len > lim.maxFrame.getD usizeMax
      · rw [if_pos h1] at hs; cases hs
      · rw [if_neg h1] at hs
        by_cases h2 : r.len ≤ (S.drop r.size).length
        · rw [if_pos h2] at hs; cases hs
        · have h3 : S.length < r.size + r.len := by
            rw [List.length_drop] at h2; omega
          simp only [hdef, Bool.not_true, Bool.false_eq_true, if_false, overLimit_getD hlt, h1,
            decide_false, h3, if_true]

theorem dec_fail {role : Role} {au : Bool} {lim : Limits} {frag : Option Partial} {S : Bytes}
    {e : Err} (hs : shot (lim.maxFrame.getD usizeMax) S = .fail e) :
    ∃ c, errClassOf e = some c ∧ dec role au lim frag S = ([], .error c) := by
  rw [dec_step]
  unfold frameStep
  rcases shot_fail_inv hs with hp | ⟨h, len, n, hp, hgt, rfl⟩
  · obtain ⟨r, hr, hdef, rfl⟩ := parse_error_raw hp
    refine ⟨.protocol, rfl, ?_⟩
    rw [hr]
    simp only [hdef, Bool.not_false, if_true]
  · obtain ⟨r, hr, hdef, _, _, hlen, hn⟩ := parse_header_raw hp
    have hlt := parse_len_lt hp
    subst hlen
    refine ⟨.capacity, rfl, ?_⟩
    rw [hr]
    simp only [hdef, Bool.not_true, Bool.false_eq_true, if_false, overLimit_getD hlt, hgt,
      decide_true, if_true]

/-- what follows a complete frame, in the model's terms -/
def afterFrame (role : Role) (au : Bool) (lim : Limits) (frag : Option Partial) (h : Header)
    (p rest : Bytes) : List Message × End :=
  if role = .server ∧ h.mask.isNone ∧ !au then ([], .error .protocol)
  else if (h.rsv1 || h.rsv2 || h.rsv3) = true then ([], .error .protocol)
  else if role = .client ∧ h.mask.isSome then ([], .error .protocol)
  else
    match frameMeaning lim frag h.fin (opCodeToU8 h.opcode)
        (if role = .server then unmaskPayload h.mask p else p) with
    | .fail c => ([], .error c)
    | .close m => ([m], .closed)
    | .deliver m frag' => consMsg m (dec role au lim frag' rest)
    | .continue_ frag' => dec role au lim frag' rest

theorem rsv_bits : ∀ n, n < 8 →
    ((n / 4 % 2 == 1) || (n / 2 % 2 == 1) || (n % 2 == 1)) = decide (n ≠ 0) := by
  decide

theorem dec_frame {role : Role} {au : Bool} {lim : Limits} {frag : Option Partial} {S : Bytes}
    {h : Header} {p rest : Bytes} (hs : shot (lim.maxFrame.getD usizeMax) S = .frame h p rest) :
    dec role au lim frag S = afterFrame role au lim frag h p rest ∧
    isReservedOpcode h.opcode = false ∧ p.length < 2 ^ 64 := by
  obtain ⟨n, hp, hgt, hnle, hdrop⟩ := shot_frame_inv hs
  obtain ⟨r, hr, hdef, hh, hop, hlen, hn⟩ := parse_header_raw hp
  have hlt := parse_len_lt hp
  refine ⟨?_, (C18_reencode S h _ n hp).2.1, hlt⟩
  rw [dec_step]
  unfold frameStep afterFrame
  rw [hr]
  subst hn
  have h3 : ¬ S.length < r.size + r.len := by
    have := congrArg List.length hdrop
    rw [List.length_drop, List.length_append] at this
    omega
  have hraw : (S.drop r.size).take r.len = p := by
    rw [hdrop, ← hlen]; exact List.take_left' rfl
  have hrest : (S.drop r.size).drop r.len = rest := by
    rw [hdrop, ← hlen]; exact List.drop_left' rfl
  have hfin : h.fin = r.fin := by rw [hh]; rfl
  have hmask : h.mask = r.mask := by rw [hh]; rfl
  have hrsv : (h.rsv1 || h.rsv2 || h.rsv3) = decide (r.rsv ≠ 0) := by
    rw [hh]; exact rsv_bits r.rsv (rawHeader_shape hr).2.1
  rw [hlen] at hlt hgt
  simp only [hdef, Bool.not_true, Bool.false_eq_true, if_false, overLimit_getD hlt, hgt,
    decide_false, h3, hraw, hrest, hfin, hmask, hrsv, hop, decide_eq_true_eq]

end WsProofs.Read
