import WsProofs.Lemmas.PairFrame
import WsProofs.Lemmas.ProgressEof

/-! Two-party proofs, layer 2: one `read` call of an endpoint whose codec state represents a point
`B` inside the wire image of legitimate frames `fs` of the peer, over the transport of one
scheduled action (at most one data event, then WouldBlock — or EOF). Resuming equals restarting:
the result depends on the stream, not on how it was cut. -/
namespace WsProofs.Pair
open WsModel WsModel.Gen WsModel.Spec WsProofs WsProofs.Read WsProofs.Pipe

theorem shot_nil' (maxSize : Nat) : shot maxSize [] = .needMore := rfl

/-- the next frame of a stream `S` that, continued by `T`, is the image of legitimate frames -/
theorem shot_stream {sender : Role} (fs : List Frame) (hl : ∀ f ∈ fs, Legit sender f)
    (S T : Bytes) (h : S ++ T = encodeAll fs) :
    (shot usizeMax S = .needMore ∧ (T = [] → fs = [])) ∨
    (∃ f fs' rest, fs = f :: fs' ∧ shot usizeMax S = .frame f.header (wirePayload f) rest ∧
      rest ++ T = encodeAll fs') := by
  cases fs with
  | nil =>
    left
    have : S = [] := (List.append_eq_nil_iff.mp h).1
    subst this
    exact ⟨rfl, fun _ => rfl⟩
  | cons f fs' =>
    have hf := hl f (List.mem_cons_self ..)
    rcases shot_legit' hf S T (encodeAll fs') h with ⟨h1, h2⟩ | ⟨rest, h1, h2⟩
    · left
      refine ⟨h2, ?_⟩
      intro hT
      subst hT
      rw [List.append_nil] at h
      rw [h] at h1
      have : (encodeAll (f :: fs')).length = f.format.length + (encodeAll fs').length := by
        show (f.format ++ encodeAll fs').length = _
        rw [List.length_append]
      omega
    · right
      exact ⟨f, fs', rest, rfl, h1, h2⟩

/-! ### `read_frame` over the transport of one action -/

/-- the read script of one action: nothing, or one non-empty chunk -/
def OneChunk (rd : List RdEv) : Prop := rd = [] ∨ ∃ ch, ch ≠ [] ∧ rd = [.data ch]

theorem OneChunk.benign {rd : List RdEv} (h : OneChunk rd) : ∀ e ∈ rd, e.benign = true := by
  rcases h with rfl | ⟨ch, hne, rfl⟩
  · intro e he; cases he
  · intro e he
    rw [List.mem_singleton.mp he]
    cases ch with
    | nil => exact absurd rfl hne
    | cons a r => rfl

/-- outcome of `read_frame`, relative to the frames still to come -/
def FrameOut (c : Codec) (t : Transport) (B T : Bytes) (fs : List Frame) (unmask au : Bool)
    (res : Codec × Transport × Res (Option Frame)) : Prop :=
  CSame c res.1 ∧
  ((∃ f fs', fs = f :: fs' ∧ res.2.2 = frameRes f.header (wirePayload f) unmask au ∧
      res.1.header = none ∧ res.1.inBuf ++ dataOf res.2.1.rd ++ T = encodeAll fs' ∧
      res.2.1.rd <:+ t.rd) ∨
   (t.rdDef = .err .wouldBlock ∧ res.2.2 = .err (.io .wouldBlock) ∧
      Rep res.1 (B ++ dataOf t.rd) ∧ res.2.1.rd = [] ∧
      shot usizeMax (B ++ dataOf t.rd) = .needMore) ∨
   (t.rdDef = .eof ∧ res.2.2 = .ok none ∧ Rep res.1 B ∧ res.2.1.rd = [] ∧
      shot usizeMax B = .needMore))

theorem readFrame_block {sender : Role} (c : Codec) (t : Transport) (B T : Bytes) (fs : List Frame)
    (unmask au : Bool) (hl : ∀ f ∈ fs, Legit sender f) (hrd : OneChunk t.rd)
    (hdef : t.rdDef = .err .wouldBlock) (hr : Rep c B)
    (hS : B ++ dataOf t.rd ++ T = encodeAll fs) :
    FrameOut c t B T fs unmask au (c.readFrame t none unmask au) := by
  have hfo := readFrame_spec none unmask au c t B hrd.benign hdef hr
  generalize c.readFrame t none unmask au = res at hfo ⊢
  obtain ⟨c', t', r⟩ := res
  unfold RdFrameOut at hfo
  unfold FrameOut
  dsimp only at hfo ⊢
  have hmax : (none : Option Nat).getD usizeMax = usizeMax := rfl
  rw [hmax] at hfo
  obtain ⟨hts, hcs, _, hcases⟩ := hfo
  refine ⟨hcs, ?_⟩
  rcases hcases with ⟨h, p, rest, hs, hres, hhd, hrest⟩ | ⟨hres, B', hrep', _, hB', hs', hrd'⟩ |
    ⟨e, _, hs⟩
  · left
    rcases shot_stream fs hl _ T hS with ⟨h1, _⟩ | ⟨f, fs', rest', hfs, h1, h2⟩
    · rw [hs] at h1; cases h1
    · rw [hs] at h1
      injection h1 with e1 e2 e3
      subst e1 e2 e3
      refine ⟨f, fs', hfs, hres, hhd, ?_, hts.rd⟩
      rw [hrest]; exact h2
  · right; left
    have hnil : t'.rd = [] := by
      rcases hrd' with h | h
      · exact h
      · rcases hrd with h0 | ⟨ch, _, h0⟩
        · rw [h0] at h; simp at h
        · rw [h0] at h
          simp only [List.length_cons, List.length_nil] at h
          exact List.length_eq_zero_iff.mp (by omega)
    rw [hnil] at hB'
    simp only [dataOf, List.append_nil] at hB'
    rw [hB'] at hrep' hs'
    exact ⟨hdef, hres, hrep', hnil, hs'⟩
  · exfalso
    rcases shot_stream fs hl _ T hS with ⟨h1, _⟩ | ⟨f, fs', rest', _, h1, _⟩
    · rw [hs] at h1; cases h1
    · rw [hs] at h1; cases h1

theorem transport_read_nil (t : Transport) (hrd : t.rd = []) :
    (t.read).2 = t.rdDef ∧ (t.read).1.rd = [] := by
  obtain ⟨rd, wr, fl, rdDef, wrDef, flDef, accepted, flushedUpTo, log, exhausted⟩ := t
  dsimp only at hrd
  subst hrd
  exact ⟨rfl, rfl⟩

theorem readFrame_eof {sender : Role} (c : Codec) (t : Transport) (B T : Bytes) (fs : List Frame)
    (unmask au : Bool) (hl : ∀ f ∈ fs, Legit sender f) (hrd : t.rd = [])
    (hdef : t.rdDef = .eof) (hr : Rep c B)
    (hS : B ++ dataOf t.rd ++ T = encodeAll fs) :
    FrameOut c t B T fs unmask au (c.readFrame t none unmask au) := by
  have hS' : B ++ T = encodeAll fs := by
    rw [hrd] at hS
    simpa only [dataOf, List.append_nil] using hS
  obtain ⟨hrv, hrd1⟩ := transport_read_nil t hrd
  unfold Codec.readFrame FrameOut
  rw [hrd]
  have hmax : (none : Option Nat).getD usizeMax = usizeMax := rfl
  rw [hmax]
  show (CSame c (match Codec.readLoop usizeMax (0 + 1) c t with
      | (c, t, .ok (some p)) => ((c.finishFrame p unmask au).1, t, (c.finishFrame p unmask au).2)
      | (c, t, .ok none) => (c, t, .ok none)
      | (c, t, .err e) => (c, t, .err e)
      | (c, t, .panic s) => (c, t, .panic s)).1 ∧ _)
  unfold Codec.readLoop
  rcases attempt_cases usizeMax hr with ⟨e, _, hs⟩ | ⟨c1, he, hr1, hcs, _, hsp⟩
  · exfalso
    rcases shot_stream fs hl _ T hS' with ⟨h1, _⟩ | ⟨f, fs', rest', _, h1, _⟩
    · rw [hs] at h1; cases h1
    · rw [hs] at h1; cases h1
  · rw [he]
    dsimp only
    cases hts : c1.trySplit usizeMax with
    | frame c2 p =>
      rw [hts] at hsp
      obtain ⟨h, hs, hh, hcs2, _⟩ := hsp
      dsimp only
      rw [finishFrame_spec c2 h p unmask au hh]
      dsimp only
      refine ⟨⟨hcs2.outBuf.trans hcs.outBuf, hcs2.maxOut.trans hcs.maxOut,
        hcs2.writeLen.trans hcs.writeLen⟩, Or.inl ?_⟩
      rcases shot_stream fs hl _ T hS' with ⟨h1, _⟩ | ⟨f, fs', rest', hfs, h1, h2⟩
      · rw [hs] at h1; cases h1
      · rw [hs] at h1
        injection h1 with e1 e2 e3
        subst e1 e2 e3
        refine ⟨f, fs', hfs, rfl, rfl, ?_, by rw [hrd]; exact List.suffix_refl _⟩
        rw [hrd]
        simp only [dataOf, List.append_nil]
        exact h2
    | tooLong a b =>
      rw [hts] at hsp
      exfalso
      have hs : shot usizeMax B = .fail (.capacity a b) := hsp
      rcases shot_stream fs hl _ T hS' with ⟨h1, _⟩ | ⟨f, fs', rest', _, h1, _⟩
      · rw [hs] at h1; cases h1
      · rw [hs] at h1; cases h1
    | more k =>
      rw [hts] at hsp
      obtain ⟨hs, _⟩ := hsp
      dsimp only
      generalize t.read = x at hrv hrd1
      obtain ⟨t1, ev⟩ := x
      dsimp only at hrv hrd1
      rw [hrv, hdef]
      dsimp only
      exact ⟨hcs, Or.inr (Or.inr ⟨rfl, rfl, hr1, hrd1, hs⟩)⟩

/-! ### one `read` -/

/-- what one `read` call does, relative to the frames `fs` still to come: `B` is the part of their
image the codec already holds, `T` the part not yet offered by the transport -/
def ReadCases (w : World) (B T : Bytes) (fs : List Frame) (res : World × Res Message) : Prop :=
  (∃ e, w.readPre.2 = .err e ∧ res = (w.readPre.1, .err e)) ∨
  (w.readPre.2 = .ok () ∧ ∃ f fs' c' t' w2 m, fs = f :: fs' ∧ res = (w2, .ok m) ∧
      CSame w.readPre.1.c.codec c' ∧ t'.rd <:+ w.t.rd ∧ c'.header = none ∧
      c'.inBuf ++ dataOf t'.rd ++ T = encodeAll fs' ∧
      OnFrameOut (w.readPre.1.setCodec c' t') (viewOf f) w2 m) ∨
  (w.readPre.2 = .ok () ∧ w.t.rdDef = .err .wouldBlock ∧ ∃ c' t',
      res = (w.readPre.1.setCodec c' t', .err (.io .wouldBlock)) ∧
      CSame w.readPre.1.c.codec c' ∧ t'.rd = [] ∧ Rep c' (B ++ dataOf w.t.rd) ∧
      shot usizeMax (B ++ dataOf w.t.rd) = .needMore) ∨
  (w.readPre.2 = .ok () ∧ w.t.rdDef = .eof ∧ fs = [] ∧ ∃ c' t',
      res = ((w.readPre.1.setCodec c' t').setState .terminated, .err .connectionClosed) ∧
      CSame w.readPre.1.c.codec c' ∧ t'.rd = [])

theorem read_cases {sender : Role} (w : World) (B T : Bytes) (fs : List Frame)
    (hnt : w.c.state ≠ .terminated) (hrole : w.c.role = peerOf sender)
    (hinc : w.c.incomplete = none) (hmf : w.c.cfg.maxFrame = none) (hmm : w.c.cfg.maxMsg = none)
    (hrd : OneChunk w.t.rd)
    (hdef : w.t.rdDef = .err .wouldBlock ∨ (w.t.rdDef = .eof ∧ w.t.rd = []))
    (hrep : Rep w.c.codec B) (hl : ∀ f ∈ fs, Legit sender f)
    (hS : B ++ dataOf w.t.rd ++ T = encodeAll fs)
    (hcan : w.c.state.canRead = false → fs = [])
    (heof : w.t.rdDef = .eof → T = [] ∧ (fs = [] → w.c.state.closeReceived = true)) :
    ReadCases w B T fs w.read := by
  unfold World.read
  have hnt' : ¬ (!w.c.state.notTerminated) = true := by
    simp [notTerminated_iff.mpr hnt]
  rw [if_neg hnt']
  have hfuel : w.readFuel = (w.c.codec.inBuf.length + rdBytes w.t.rd + 1) + 1 := rfl
  rw [hfuel]
  unfold World.readLoop ReadCases
  have P := readPre_FS hnt
  have PW := readPre_ws w
  generalize w.readPre = x at *
  obtain ⟨w1, r1⟩ := x
  dsimp only at P PW ⊢
  cases r1 with
  | panic s => exact (P.not_panic).elim
  | err e => exact Or.inl ⟨e, rfl, rfl⟩
  | ok u =>
    cases u
    right
    have hs1 : w1.c.state = w.c.state := P.state_of_ok
    have hrole1 : w1.c.role = peerOf sender := P.role.trans hrole
    have hrep1 : Rep w1.c.codec B := Rep_congr PW.rside.header PW.rside.inBuf hrep
    have hrd1 : w1.t.rd = w.t.rd := PW.rside.t.rd
    have hdef1 : w1.t.rdDef = w.t.rdDef := PW.rside.t.rdDef
    have hcfg1 : w1.c.cfg = w.c.cfg := PW.rside.cfg
    have hinc1 : w1.c.incomplete = none := PW.rside.incomplete.trans hinc
    have hFO : FrameOut w1.c.codec w1.t B T fs (w1.c.role == .server) w1.c.cfg.acceptUnmasked
        (w1.c.codec.readFrame w1.t w1.c.cfg.maxFrame (w1.c.role == .server)
          w1.c.cfg.acceptUnmasked) := by
      rw [hcfg1, hmf]
      rcases hdef with hd | ⟨hd, hnil⟩
      · exact readFrame_block w1.c.codec w1.t B T fs _ _ hl (by rw [hrd1]; exact hrd)
          (hdef1.trans hd) hrep1 (by rw [hrd1]; exact hS)
      · exact readFrame_eof w1.c.codec w1.t B T fs _ _ hl (hrd1.trans hnil)
          (hdef1.trans hd) hrep1 (by rw [hrd1]; exact hS)
    rw [Progress.andThen_ok_eq, Read.readMessageFrame_eq w1]
    generalize w1.c.codec.readFrame w1.t w1.c.cfg.maxFrame (w1.c.role == .server)
      w1.c.cfg.acceptUnmasked = res at hFO ⊢
    obtain ⟨c', t', r⟩ := res
    unfold FrameOut at hFO
    dsimp only at hFO ⊢
    obtain ⟨hcs, hcases⟩ := hFO
    rcases hcases with ⟨f, fs', hfs, hres, hhd, hrest, hsuf⟩ | ⟨hd, hres, hrepS, hnil, hshotS⟩ |
      ⟨hd, hres, hrepB, hnil, hshot⟩
    · -- a complete frame
      left
      have hf : Legit sender f := hl f (by rw [hfs]; exact List.mem_cons_self ..)
      rw [hrole1] at hres
      rw [frameRes_legit hf] at hres
      subst hres
      have hcr : w.c.state.canRead = true := by
        cases hc : w.c.state.canRead with
        | true => rfl
        | false => have := hcan hc; rw [this] at hfs; cases hfs
      obtain ⟨w2, m, hon, O⟩ := onFrame_legit hf (w1.setCodec c' t')
        (by show w1.c.state.canRead = true; rw [hs1]; exact hcr) hinc1
        (by show w1.c.cfg.maxMsg = none; rw [hcfg1]; exact hmm)
      dsimp only [World.checkConnectionReset, andThen]
      rw [hon]
      dsimp only
      exact ⟨rfl, f, fs', c', t', w2, m, hfs, rfl, hcs, by rw [← hrd1]; exact hsuf, hhd, hrest, O⟩
    · -- the transport blocks
      right; left
      subst hres
      dsimp only [World.checkConnectionReset, andThen]
      refine ⟨rfl, hdef1.symm.trans hd, c', t', rfl, hcs, hnil, ?_, ?_⟩
      · rw [← hrd1]; exact hrepS
      · rw [← hrd1]; exact hshotS
    · -- end of the transport
      right; right
      subst hres
      have hdw : w.t.rdDef = .eof := hdef1.symm.trans hd
      obtain ⟨hT, hcl⟩ := heof hdw
      have hnilw : w.t.rd = [] := by
        rcases hdef with h | ⟨_, h⟩
        · rw [hdw] at h; cases h
        · exact h
      have hfs : fs = [] := by
        have hS' : B ++ T = encodeAll fs := by
          rw [hnilw] at hS
          simpa only [dataOf, List.append_nil] using hS
        rcases shot_stream fs hl _ T hS' with ⟨_, h2⟩ | ⟨f, fs', rest', _, h1, _⟩
        · exact h2 hT
        · rw [hshot] at h1; cases h1
      have hcr : (w1.setCodec c' t').c.state.closeReceived = true := by
        show w1.c.state.closeReceived = true
        rw [hs1]; exact hcl hfs
      dsimp only [World.checkConnectionReset, andThen]
      rw [Progress.onEof_closeReceived _ hcr]
      dsimp only [andThen]
      exact ⟨rfl, hdw, hfs, c', t', rfl, hcs, hnil⟩

/-- two representations of the same codec state agree on whether a frame is complete -/
theorem rep_needMore {c : Codec} {B B' : Bytes} (m : Nat) (h : Rep c B) (h' : Rep c B')
    (hs : shot m B = .needMore) : shot m B' = .needMore := by
  cases hh : c.header with
  | none =>
    have e1 : B = c.inBuf := by simpa only [Rep, hh] using h
    have e2 : B' = c.inBuf := by simpa only [Rep, hh] using h'
    rw [e2, ← e1]; exact hs
  | some hl =>
    obtain ⟨hd, len⟩ := hl
    obtain ⟨n, hp, _, hdrop⟩ := Rep_parse h hh
    obtain ⟨n', hp', _, hdrop'⟩ := Rep_parse h' hh
    unfold shot at hs ⊢
    rw [hp] at hs
    rw [hp']
    dsimp only at hs ⊢
    rw [hdrop] at hs
    rw [hdrop']
    by_cases h1 : len > m
    · rw [if_pos h1] at hs; cases hs
    · rw [if_neg h1] at hs ⊢
      by_cases h2 : len ≤ c.inBuf.length
      · rw [if_pos h2] at hs; cases hs
      · rw [if_neg h2]

end WsProofs.Pair
