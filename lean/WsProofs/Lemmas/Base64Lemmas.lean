import WsModel.Handshake.Base64

/-!
# Base64: decode ∘ encode = id, and the length of an encoding

The alphabet facts are finite checks over the 64 digit values (`decide`); the per-group facts
are linear arithmetic over div/mod by powers of two (`omega`); the theorems follow by
induction on the input in steps of three bytes.
-/
namespace WsModel.Hs
open WsModel

/-! ## The alphabet -/

/-- digit → character → digit -/
theorem b64Index_b64Char : ∀ i, i < 64 → b64Index (b64Char i) = some i := by decide

/-- no digit is rendered as `=` -/
theorem b64Char_ne_pad : ∀ i, i < 64 → b64Char i ≠ b64Pad := by decide

/-! ## One group -/

private theorem ofNat_eq (a : UInt8) (n : Nat) (h : n = a.toNat) : UInt8.ofNat n = a := by
  subst h; exact UInt8.ofNat_toNat

theorem decodeBlock_encode3 (a b c : UInt8) :
    ∀ c0 c1 c2 c3, encode3 a b c = [c0, c1, c2, c3] → decodeBlock c0 c1 c2 c3 = some [a, b, c] := by
  intro c0 c1 c2 c3 h
  have ha := a.toNat_lt
  have hb := b.toNat_lt
  have hc := c.toNat_lt
  simp only [encode3, List.cons.injEq, and_true] at h
  obtain ⟨h0, h1, h2, h3⟩ := h
  subst h0 h1 h2 h3
  have l0 : (a.toNat * 65536 + b.toNat * 256 + c.toNat) / 262144 < 64 := by omega
  have l1 : (a.toNat * 65536 + b.toNat * 256 + c.toNat) / 4096 % 64 < 64 := by omega
  have l2 : (a.toNat * 65536 + b.toNat * 256 + c.toNat) / 64 % 64 < 64 := by omega
  have l3 : (a.toNat * 65536 + b.toNat * 256 + c.toNat) % 64 < 64 := by omega
  simp only [decodeBlock, decode4, if_neg (b64Char_ne_pad _ l3), b64Index_b64Char _ l0,
    b64Index_b64Char _ l1, b64Index_b64Char _ l2, b64Index_b64Char _ l3]
  congr 1
  congr 1
  · exact ofNat_eq _ _ (by omega)
  congr 1
  · exact ofNat_eq _ _ (by omega)
  congr 1
  exact ofNat_eq _ _ (by omega)

theorem decodeBlock_encode2 (a b : UInt8) :
    ∀ c0 c1 c2 c3, encode2 a b = [c0, c1, c2, c3] → decodeBlock c0 c1 c2 c3 = some [a, b] := by
  intro c0 c1 c2 c3 h
  have ha := a.toNat_lt
  have hb := b.toNat_lt
  simp only [encode2, List.cons.injEq, and_true] at h
  obtain ⟨h0, h1, h2, h3⟩ := h
  subst h0 h1 h2 h3
  have l0 : (a.toNat * 256 + b.toNat) * 4 / 4096 < 64 := by omega
  have l1 : (a.toNat * 256 + b.toNat) * 4 / 64 % 64 < 64 := by omega
  have l2 : (a.toNat * 256 + b.toNat) * 4 % 64 < 64 := by omega
  have t : (((a.toNat * 256 + b.toNat) * 4 / 4096 * 64 + (a.toNat * 256 + b.toNat) * 4 / 64 % 64) * 64
      + (a.toNat * 256 + b.toNat) * 4 % 64) % 4 = 0 := by omega
  simp only [decodeBlock, decode3, if_true, if_neg (b64Char_ne_pad _ l2), b64Index_b64Char _ l0,
    b64Index_b64Char _ l1, b64Index_b64Char _ l2, if_pos t]
  congr 1
  congr 1
  · exact ofNat_eq _ _ (by omega)
  congr 1
  exact ofNat_eq _ _ (by omega)

theorem decodeBlock_encode1 (a : UInt8) :
    ∀ c0 c1 c2 c3, encode1 a = [c0, c1, c2, c3] → decodeBlock c0 c1 c2 c3 = some [a] := by
  intro c0 c1 c2 c3 h
  have ha := a.toNat_lt
  simp only [encode1, List.cons.injEq, and_true] at h
  obtain ⟨h0, h1, h2, h3⟩ := h
  subst h0 h1 h2 h3
  have l0 : a.toNat * 16 / 64 < 64 := by omega
  have l1 : a.toNat * 16 % 64 < 64 := by omega
  have t : (a.toNat * 16 / 64 * 64 + a.toNat * 16 % 64) % 16 = 0 := by omega
  simp only [decodeBlock, decode2, if_true, b64Index_b64Char _ l0, b64Index_b64Char _ l1, if_pos t]
  congr 1
  congr 1
  exact ofNat_eq _ _ (by omega)

/-! ## The theorems -/

/-- Decoding an encoding gives back the input (in particular `base64Encode` is injective and
its output is always accepted by the strict decoder). -/
theorem base64_decode_encode : ∀ bs : Bytes, base64Decode (base64Encode bs) = some bs
  | [] => by simp [base64Encode, base64Decode]
  | [a] => by
    have h := decodeBlock_encode1 a _ _ _ _ rfl
    simp only [base64Encode, encode1, base64Decode] at h ⊢
    simp only [h, List.append_nil]
  | [a, b] => by
    have h := decodeBlock_encode2 a b _ _ _ _ rfl
    simp only [base64Encode, encode2, base64Decode] at h ⊢
    simp only [h, List.append_nil]
  | a :: b :: c :: rest => by
    have ih := base64_decode_encode rest
    have h := decodeBlock_encode3 a b c _ _ _ _ rfl
    simp only [base64Encode, encode3, base64Decode, List.cons_append, List.nil_append] at h ⊢
    simp only [h, ih, List.cons_append, List.nil_append]

/-- An encoding is four characters per started group of three bytes. -/
theorem base64_length : ∀ bs : Bytes, (base64Encode bs).length = 4 * ((bs.length + 2) / 3)
  | [] => by simp [base64Encode]
  | [a] => by simp [base64Encode, encode1]
  | [a, b] => by simp [base64Encode, encode2]
  | a :: b :: c :: rest => by
    have ih := base64_length rest
    simp only [base64Encode, encode3, List.length_append, List.length_cons, List.length_nil, ih]
    omega

end WsModel.Hs
