import WsModel.Generated.Ctx
import WsProofs.Lemmas.EndpointBasic

/-! Rewriting rules for the monad `GenCtx.M` of the machine translation
(`WsModel/Generated/Ctx.lean`): `>>=` applied to a world is `andThen`, every leaf applied to a
world is its defining pair.  Plus the two codec facts (`bufferFrame` / `readFrame` never return
`ConnectionClosed`) that make the generated `check_connection_reset` agree with the hand model. -/
namespace WsProofs.Tie
open WsModel WsModel.Gen WsModel.GenCtx

/-! ### `andThen` -/

@[simp] theorem andThen_ok {α β : Type} (w : World) (a : α) (k : World → α → World × Res β) :
    andThen (w, Res.ok a) k = k w a := rfl
@[simp] theorem andThen_err {α β : Type} (w : World) (e : Err) (k : World → α → World × Res β) :
    andThen ((w, Res.err e) : World × Res α) k = (w, Res.err e) := rfl
@[simp] theorem andThen_panic {α β : Type} (w : World) (s : PanicSite) (k : World → α → World × Res β) :
    andThen ((w, Res.panic s) : World × Res α) k = (w, Res.panic s) := rfl

theorem andThen_ite {α β : Type} (c : Prop) [Decidable c] (x y : World × Res α)
    (k : World → α → World × Res β) :
    andThen (if c then x else y) k = if c then andThen x k else andThen y k := by
  by_cases h : c <;> simp [h]

/-! ### the monad -/

theorem bind_apply {α β : Type} (x : M α) (k : α → M β) (w : World) :
    (x >>= k) w = andThen (x w) (fun w a => k a w) := by
  show M.bind x k w = _
  unfold M.bind andThen
  rcases x w with ⟨w', r⟩
  cases r <;> rfl

theorem pure_apply {α : Type} (a : α) (w : World) : (pure a : M α) w = (w, Res.ok a) := rfl

theorem map_apply {α β : Type} (f : α → β) (x : M α) (w : World) :
    (f <$> x) w = andThen (x w) (fun w a => (w, Res.ok (f a))) := by
  show M.bind x (fun a => M.pure (f a)) w = _
  unfold M.bind andThen
  rcases x w with ⟨w', r⟩
  cases r <;> rfl

theorem ite_apply' {α : Type} (c : Prop) [Decidable c] (x y : M α) (w : World) :
    (if c then x else y) w = if c then x w else y w := by
  by_cases h : c <;> simp [h]

/-! ### leaves -/

theorem throwE_apply {α : Type} (e : Err) (w : World) : (throwE e : M α) w = (w, Res.err e) := rfl
theorem panicAt_apply {α : Type} (s : PanicSite) (w : World) :
    (panicAt s : M α) w = (w, Res.panic s) := rfl
theorem liftRes_apply {α : Type} (r : Res α) (w : World) : liftRes r w = (w, r) := rfl
theorem getW_apply (w : World) : getW w = (w, Res.ok w) := rfl
theorem modifyW_apply (f : World → World) (w : World) : modifyW f w = (f w, Res.ok ()) := rfl
theorem setStateM_apply (s : WsState) (w : World) : setStateM s w = (w.setState s, Res.ok ()) := rfl
theorem setAdditionalM_apply (a : Option Frame) (w : World) :
    setAdditionalM a w = (w.setAdditionalRaw a, Res.ok ()) := rfl
theorem setUnflushedM_apply (b : Bool) (w : World) :
    setUnflushedM b w = (w.setUnflushed b, Res.ok ()) := rfl
theorem setIncompleteM_apply (i : Option Incomplete) (w : World) :
    setIncompleteM i w = (w.setIncomplete i, Res.ok ()) := rfl
theorem takeAdditional_apply (w : World) :
    takeAdditional w = (w.setAdditionalRaw none, Res.ok w.c.additional) := rfl
theorem takeIncomplete_apply (w : World) :
    takeIncomplete w = (w.setIncomplete none, Res.ok w.c.incomplete) := rfl
theorem replaceState_apply (s : WsState) (w : World) :
    replaceState s w = (w.setState s, Res.ok w.c.state) := rfl
theorem readFuel_apply (w : World) : GenCtx.readFuel w = (w, Res.ok w.readFuel) := rfl
theorem codecWriteOutBuffer_apply (w : World) : codecWriteOutBuffer w = w.writeOutBuffer := rfl
theorem streamFlush_apply (w : World) : GenCtx.streamFlush w = w.streamFlush := rfl
theorem unwrapAt_some {α : Type} (s : PanicSite) (a : α) (w : World) :
    unwrapAt s (some a) w = (w, Res.ok a) := rfl
theorem unwrapAt_none {α : Type} (s : PanicSite) (w : World) :
    (unwrapAt s (none : Option α)) w = (w, Res.panic s) := rfl

/-- `attempt x >>= k`: the continuation sees the `Result`; a panic passes through -/
theorem attempt_bind_apply {α β : Type} (x : M α) (k : Res α → M β) (w : World) :
    (attempt x >>= k) w =
      match x w with
      | (w, Res.panic s) => (w, Res.panic s)
      | (w, r) => k r w := by
  rw [bind_apply]
  unfold attempt
  rcases x w with ⟨w', r⟩
  cases r <;> rfl

/-- `attempt` on the pair a call returned -/
def attemptPair {α : Type} : World × Res α → World × Res (Res α)
  | (w, Res.ok a) => (w, Res.ok (Res.ok a))
  | (w, Res.err e) => (w, Res.ok (Res.err e))
  | (w, Res.panic s) => (w, Res.panic s)

theorem attempt_apply' {α : Type} (x : M α) (w : World) : attempt x w = attemptPair (x w) := by
  unfold attempt attemptPair
  rcases x w with ⟨w', r⟩
  cases r <;> rfl

@[simp] theorem attemptPair_ok {α : Type} (w : World) (a : α) :
    attemptPair (w, Res.ok a) = (w, Res.ok (Res.ok a)) := rfl
@[simp] theorem attemptPair_err {α : Type} (w : World) (e : Err) :
    attemptPair ((w, Res.err e) : World × Res α) = (w, Res.ok (Res.err e)) := rfl
@[simp] theorem attemptPair_panic {α : Type} (w : World) (s : PanicSite) :
    attemptPair ((w, Res.panic s) : World × Res α) = (w, Res.panic s) := rfl

theorem andThen_congr {α β : Type} (x : World × Res α) (k k' : World → α → World × Res β)
    (h : ∀ w a, k w a = k' w a) : andThen x k = andThen x k' := by
  have : k = k' := by funext w a; exact h w a
  rw [this]

theorem andThen_assoc {α β γ : Type} (x : World × Res α) (k : World → α → World × Res β)
    (k' : World → β → World × Res γ) :
    andThen (andThen x k) k' = andThen x (fun w a => andThen (k w a) k') := by
  rcases x with ⟨w, r⟩
  cases r <;> rfl

theorem andThen_unit (x : World × Res Unit) : andThen x (fun w _ => (w, Res.ok ())) = x := by
  rcases x with ⟨w, r⟩
  cases r <;> rfl

/-- two `if`s on the same condition: compare branch by branch -/
theorem ite_both {α : Sort _} (c : Prop) [Decidable c] (a a' b b' : α) (ha : c → a = a')
    (hb : ¬ c → b = b') : (if c then a else b) = (if c then a' else b') := by
  by_cases h : c
  · rw [if_pos h, if_pos h]; exact ha h
  · rw [if_neg h, if_neg h]; exact hb h

theorem setState_same (w : World) (s : WsState) (h : w.c.state = s) : w.setState s = w := by
  cases w with
  | mk c t mu mx q =>
    cases c
    simp only [World.setState] at *
    subst h
    rfl

theorem setAdditionalRaw_same (w : World) (a : Option Frame) (h : w.c.additional = a) :
    w.setAdditionalRaw a = w := by
  cases w with
  | mk c t mu mx q =>
    cases c
    simp only [World.setAdditionalRaw] at *
    subst h
    rfl

theorem setIncomplete_same (w : World) (a : Option Incomplete) (h : w.c.incomplete = a) :
    w.setIncomplete a = w := by
  cases w with
  | mk c t mu mx q =>
    cases c
    simp only [World.setIncomplete] at *
    subst h
    rfl

/-- normal form: every `>>=` / leaf applied to a world becomes `andThen` / a pair -/
syntax "tie_norm" ("[" Lean.Parser.Tactic.simpLemma,* "]")? : tactic
macro_rules
  | `(tactic| tie_norm) => `(tactic| simp only [bind_apply, map_apply, pure_apply, ite_apply',
      throwE_apply, panicAt_apply, liftRes_apply, getW_apply, modifyW_apply, setStateM_apply,
      setAdditionalM_apply, setUnflushedM_apply, setIncompleteM_apply, takeAdditional_apply,
      takeIncomplete_apply, replaceState_apply, readFuel_apply, codecWriteOutBuffer_apply,
      streamFlush_apply, unwrapAt_some, unwrapAt_none, attempt_apply', attemptPair_ok,
      attemptPair_err, attemptPair_panic, andThen_ok, andThen_err, andThen_panic])
  | `(tactic| tie_norm [$ls,*]) => `(tactic| simp only [bind_apply, map_apply, pure_apply, ite_apply',
      throwE_apply, panicAt_apply, liftRes_apply, getW_apply, modifyW_apply, setStateM_apply,
      setAdditionalM_apply, setUnflushedM_apply, setIncompleteM_apply, takeAdditional_apply,
      takeIncomplete_apply, replaceState_apply, readFuel_apply, codecWriteOutBuffer_apply,
      streamFlush_apply, unwrapAt_some, unwrapAt_none, attempt_apply', attemptPair_ok,
      attemptPair_err, attemptPair_panic, andThen_ok, andThen_err, andThen_panic, $ls,*])

/-! `codec_bufferFrame_ne_cc` / `codec_readFrame_ne_cc` (the codec never reports
`ConnectionClosed`) live in `EndpointBasic`. -/

end WsProofs.Tie
