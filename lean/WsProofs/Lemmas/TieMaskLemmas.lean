import WsModel.Generated.MaskGen
import WsProofs.Props.C19

/-! Lemmas for the tie of the machine translation of `mask.rs`. -/
namespace WsProofs.Tie
open WsModel WsModel.GenMask

theorem and_three (i : Nat) : i &&& 3 = i % 4 := Nat.and_two_pow_sub_one_eq_mod i 2

theorem toBytes_get (m : Mask) (i : Nat) : m.toBytes[i % 4]! = m.get i := by
  have h : i % 4 < 4 := Nat.mod_lt _ (by decide)
  unfold Mask.get Mask.toBytes
  generalize i % 4 = k at h
  match k, h with
  | 0, _ => rfl
  | 1, _ => rfl
  | 2, _ => rfl
  | 3, _ => rfl

theorem mapIdx_eq_applyMaskFrom (m : Mask) (off : Nat) (buf : Bytes) :
    (buf.mapIdx fun i b => b ^^^ m.get (off + i)) = applyMaskFrom m off buf := by
  induction buf generalizing off with
  | nil => rfl
  | cons b bs ih =>
    rw [List.mapIdx_cons]
    simp only [applyMaskFrom, Nat.add_zero]
    congr 1
    rw [← ih (off + 1)]
    congr 1
    funext i b
    rw [Nat.add_assoc, Nat.add_comm 1 i]

theorem fallback_eq (m : Mask) (buf : Bytes) :
    GenMask.applyMaskFallback buf m.toBytes = WsModel.applyMask m buf := by
  unfold GenMask.applyMaskFallback forEnum WsModel.applyMask
  rw [← mapIdx_eq_applyMaskFrom]
  show List.mapIdx _ buf = List.mapIdx _ buf
  congr 1
  funext i b
  rw [and_three, toBytes_get, Nat.zero_add]

theorem fallback_length (buf k : Bytes) : (GenMask.applyMaskFallback buf k).length = buf.length := by
  unfold GenMask.applyMaskFallback forEnum
  exact List.length_mapIdx

theorem fallback_word_eq (w : BitVec 32) (suf : Bytes) :
    GenMask.applyMaskFallback suf (u32ToNeBytes w) = WsModel.applyMask (wordToMask w) suf :=
  fallback_eq (wordToMask w) suf

theorem keyOfBytes_toBytes (m : Mask) : keyOfBytes m.toBytes = m := by
  cases m; rfl

theorem words_eq (k : BitVec 32) (n : Nat) (mid : Bytes) (h : mid.length = 4 * n) :
    (forEach (wordsOf n mid) (fun w => w ^^^ k)).flatMap wordToBytes = xorWords k n mid := by
  induction n generalizing mid with
  | zero =>
    have : mid = [] := List.eq_nil_of_length_eq_zero (by omega)
    subst this
    rfl
  | succ n ih =>
    match mid, h with
    | a :: b :: c :: d :: rest, h =>
      have hr : rest.length = 4 * n := by simp only [List.length_cons] at h; omega
      have := ih rest hr
      unfold forEach at this ⊢
      simp only [wordsOf, xorWords, List.map_cons, List.flatMap_cons, this]
    | [], h => simp only [List.length_nil] at h; omega
    | [_], h => simp only [List.length_cons, List.length_nil] at h; omega
    | [_, _], h => simp only [List.length_cons, List.length_nil] at h; omega
    | [_, _, _], h => simp only [List.length_cons, List.length_nil] at h; omega

theorem fast32_eq (sp : Split) (m : Mask) (buf : Bytes)
    (h : sp.pre + 4 * sp.words ≤ buf.length) :
    GenMask.applyMaskFast32 sp buf m.toBytes = WsModel.applyMaskFast sp.pre sp.words m buf := by
  have hp : (buf.take sp.pre).length = sp.pre := by rw [List.length_take]; omega
  have hmid : ((buf.drop sp.pre).take (4 * sp.words)).length = 4 * sp.words := by
    rw [List.length_take, List.length_drop]; omega
  unfold GenMask.applyMaskFast32 alignToMut joinAligned applyMaskFast
  simp only [hp, and_three, u32FromNeBytes, keyOfBytes_toBytes, targetEndianBig,
    Bool.false_eq_true, if_false, words_eq _ _ _ hmid, fallback_eq, fallback_word_eq, C19.C19_length]

end WsProofs.Tie
