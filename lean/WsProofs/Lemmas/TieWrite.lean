import WsProofs.Lemmas.TieLemmas

/-! The write side of the machine translation (`set_additional` … `write`) equals the hand model. -/
set_option linter.unusedSimpArgs false
namespace WsProofs.Tie
open WsModel WsModel.Gen WsModel.GenCtx

theorem resCheckConnectionReset_eq {α : Type} (r : Res α) (s : WsState) :
    resCheckConnectionReset r s =
      (match r with
       | .err (.io .reset) => if !s.canRead then .err .connectionClosed else r
       | _ => r) := by
  unfold resCheckConnectionReset
  cases r with
  | ok a => rfl
  | panic p => rfl
  | err e =>
    cases e with
    | io k => cases k <;> cases s <;> rfl
    | _ => rfl

theorem setAdditional_tie (add : Frame) (w : World) :
    GenCtx.setAdditional add w = (w.setAdditional add, .ok ()) := by
  unfold GenCtx.setAdditional World.setAdditional
  tie_norm
  cases h : w.c.additional with
  | none => simp
  | some f =>
    simp only [Option.elim, Frame.isPong]
    by_cases hp : (f.header.opcode == OpCode.control OpCtl.pong) = true <;> simp [hp]

/-- The generated `check_connection_reset` and the hand model both translate the result first and
then assign `Terminated` whenever the *translated* result is `ConnectionClosed` (also when the
input already was `ConnectionClosed`), so they agree on every input. -/
theorem checkConnectionReset_tie {α : Type} (r : Res α) (w : World) :
    GenCtx.checkConnectionReset r w = w.checkConnectionReset r := by
  unfold GenCtx.checkConnectionReset World.checkConnectionReset
  tie_norm
  cases r with
  | ok a => rfl
  | panic p => rfl
  | err e =>
    cases e with
    | io k =>
      cases k <;> cases hs : w.c.state <;>
        simp [resCheckConnectionReset, WsState.canRead, bind_apply, setStateM_apply, liftRes_apply]
    | connectionClosed =>
      simp [resCheckConnectionReset, bind_apply, setStateM_apply, liftRes_apply]
    | _ => rfl

theorem codecBufferFrame_ne_cc (f : Frame) (w : World) :
    (codecBufferFrame f w).2 ≠ .err .connectionClosed := by
  unfold codecBufferFrame
  exact codec_bufferFrame_ne_cc _ _ _

theorem codecReadFrame_ne_cc (m : Option Nat) (u a : Bool) (w : World) :
    (codecReadFrame m u a w).2 ≠ .err .connectionClosed := by
  unfold codecReadFrame
  exact codec_readFrame_ne_cc _ _ _ _ _

/-- `buffer_frame` after the masking step -/
def bufTail (w : World) (f : Frame) : World × Res Unit :=
  let (codec, t, r) := w.c.codec.bufferFrame w.t f
  let w := w.setCodec codec t
  let w := if r.isWriteBufferFull then w else { w with queued := w.queued ++ [f] }
  w.checkConnectionReset r

theorem bufferFrame_eq_tail (w : World) (f : Frame) :
    w.bufferFrame f = match w.c.role with
      | .server => bufTail w f
      | .client =>
        bufTail w.nextMask.1 { f with header := { f.header with mask := some w.nextMask.2 } } := by
  unfold World.bufferFrame bufTail
  cases w.c.role <;> rfl

theorem bufferTail_tie (f : Frame) (w : World) :
    (attempt (codecBufferFrame f) >>= fun r => GenCtx.checkConnectionReset r) w = bufTail w f := by
  rw [attempt_bind_apply]
  unfold bufTail
  unfold codecBufferFrame at *
  rcases hb : w.c.codec.bufferFrame w.t f with ⟨codec, t, r⟩
  simp only []
  cases r with
  | panic s => rfl
  | ok a => simp only []; rw [checkConnectionReset_tie]
  | err e => simp only []; rw [checkConnectionReset_tie]

theorem bufferFrame_tie (f : Frame) (w : World) : GenCtx.bufferFrame f w = w.bufferFrame f := by
  rw [bufferFrame_eq_tail]
  unfold GenCtx.bufferFrame
  simp only [bind_apply, getW_apply, andThen_ok]
  cases hr : w.c.role with
  | server =>
    simp only []
    exact bufferTail_tie f w
  | client =>
    simp only [bind_apply, setRandomMask, andThen_ok]
    exact bufferTail_tie _ _

theorem writeTail_eq (w : World) (sf : Bool) :
    w.writeTail sf =
      if (w.c.role == Role.server && !w.c.state.canRead && w.c.additional.isNone) = true then
        andThen w.writeOutBuffer fun w _ => (w.setState .terminated, .err .connectionClosed)
      else (w, .ok sf) := by
  unfold World.writeTail
  simp only [Bool.and_eq_true, beq_iff_eq, and_assoc]

theorem writeInternal_none_tie (w : World) :
    GenCtx.writeInternal none w = w.writeInternal none := by
  unfold GenCtx.writeInternal World.writeInternal World.writeSlot
  tie_norm
  cases h : w.c.additional with
  | none =>
    tie_norm [writeTail_eq]
    rw [setAdditionalRaw_same _ _ h]
  | some msg =>
    tie_norm [bufferFrame_tie]
    rcases (w.setAdditionalRaw none).bufferFrame msg with ⟨w1, r⟩
    cases r with
    | ok a => tie_norm [writeTail_eq]
    | panic s => tie_norm [writeTail_eq]
    | err e => cases e <;> tie_norm [writeTail_eq, setAdditional_tie]

theorem writeInternal_tie (d : Option Frame) (w : World) :
    GenCtx.writeInternal d w = w.writeInternal d := by
  cases d with
  | none => exact writeInternal_none_tie w
  | some f =>
    have h1 : GenCtx.writeInternal (some f) =
        (GenCtx.bufferFrame f >>= fun _ => GenCtx.writeInternal none) := rfl
    have h2 : w.writeInternal (some f) =
        andThen (w.bufferFrame f) fun w _ => w.writeInternal none := rfl
    rw [h1, h2, bind_apply, bufferFrame_tie]
    exact andThen_congr _ _ _ fun w _ => writeInternal_none_tie w

theorem flush_tie (w : World) : GenCtx.flush w = w.flush := by
  unfold GenCtx.flush World.flush World.flushRetry
  tie_norm [writeInternal_tie, checkNotTerminated]
  by_cases hn : w.c.state.notTerminated = true
  · simp only [hn, if_true, andThen_ok, Bool.not_true, Bool.false_eq_true, if_false]
    apply andThen_congr; intro w _
    apply andThen_congr; intro w _
    rw [andThen_ite, andThen_assoc]
    simp only [andThen_ok, andThen_assoc]
  · simp only [hn, if_false, andThen_err, Bool.not_eq_true] at hn ⊢
    simp [hn]

theorem close_tie (c : Option CloseFrame) (w : World) : GenCtx.close c w = w.close c := by
  unfold GenCtx.close World.close
  tie_norm
  cases h : w.c.state <;> tie_norm [flush_tie] <;> simp

theorem write_tie (m : Message) (w : World) : GenCtx.write m w = w.write m := by
  unfold GenCtx.write World.write World.writeData
  tie_norm [checkNotTerminated]
  by_cases hn : w.c.state.notTerminated = true
  · simp only [hn, if_true, andThen_ok, Bool.not_true, Bool.false_eq_true, if_false]
    by_cases ha : w.c.state.isActive = true
    · simp only [ha, Bool.not_true, Bool.false_eq_true, if_false]
      cases m <;>
        tie_norm [writeInternal_tie, flush_tie, close_tie, setAdditional_tie, andThen_unit]
    · simp only [Bool.not_eq_true] at ha
      simp only [ha, Bool.not_false, if_true]
  · simp only [Bool.not_eq_true] at hn
    simp only [hn, Bool.false_eq_true, if_false, andThen_err, Bool.not_false, if_true]

end WsProofs.Tie
