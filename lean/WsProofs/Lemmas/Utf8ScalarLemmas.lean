import WsProofs.Lemmas.Utf8Lemmas

/-! One accepted sequence is exactly the RFC 3629 encoding of one Unicode scalar value. -/
namespace WsProofs.Utf8
open WsModel WsModel.Spec

theorem ofNat_eq {a : UInt8} {n : Nat} (h : n % 256 = a.toNat) : UInt8.ofNat n = a :=
  UInt8.toNat_inj.mp (by rw [UInt8.toNat_ofNat']; exact h)

/-- the encoding of a scalar value is one accepted sequence -/
theorem seq_encodeScalar {c : Nat} (hc : IsScalar c) : Seq (encodeScalar c) := by
  unfold IsScalar at hc
  unfold encodeScalar
  by_cases h1 : c < 0x80
  · simp only [h1, if_true, Seq, width1, UInt8.toNat_ofNat']
    omega
  · by_cases h2 : c < 0x800
    · simp only [h1, h2, if_true, if_false, Seq, width2, isCont_nat, UInt8.toNat_ofNat']
      omega
    · by_cases h3 : c < 0x10000
      · simp only [h1, h2, h3, if_true, if_false, Seq, width3, isCont_nat, second3Ok_nat,
          UInt8.toNat_ofNat']
        omega
      · simp only [h1, h2, h3, if_false, Seq, width4, isCont_nat, second4Ok_nat,
          UInt8.toNat_ofNat']
        omega

/-- every accepted sequence encodes a scalar value -/
theorem seq_decode {enc : Bytes} (h : Seq enc) : ∃ c, IsScalar c ∧ enc = encodeScalar c := by
  match enc, h with
  | [a], h =>
    simp only [Seq, width1] at h
    refine ⟨a.toNat, Or.inl (by omega), ?_⟩
    have h1 : a.toNat < 0x80 := h
    simp only [encodeScalar, h1, if_true, UInt8.ofNat_toNat]
  | [a, b], h =>
    simp only [Seq, width2, isCont_nat] at h
    refine ⟨(a.toNat - 192) * 64 + (b.toNat - 128), Or.inl (by omega), ?_⟩
    generalize hx : (a.toNat - 192) * 64 + (b.toNat - 128) = x
    have h1 : ¬ x < 0x80 := by omega
    have h2 : x < 0x800 := by omega
    simp only [encodeScalar, h1, h2, if_true, if_false]
    rw [ofNat_eq (a := a) (by omega), ofNat_eq (a := b) (by omega)]
  | [a, b, c], h =>
    simp only [Seq, width3, isCont_nat, second3Ok_nat] at h
    refine ⟨(a.toNat - 224) * 4096 + (b.toNat - 128) * 64 + (c.toNat - 128), ?_, ?_⟩
    · unfold IsScalar; omega
    generalize hx : (a.toNat - 224) * 4096 + (b.toNat - 128) * 64 + (c.toNat - 128) = x
    have h1 : ¬ x < 0x80 := by omega
    have h2 : ¬ x < 0x800 := by omega
    have h3 : x < 0x10000 := by omega
    simp only [encodeScalar, h1, h2, h3, if_true, if_false]
    rw [ofNat_eq (a := a) (by omega), ofNat_eq (a := b) (by omega), ofNat_eq (a := c) (by omega)]
  | [a, b, c, d], h =>
    simp only [Seq, width4, isCont_nat, second4Ok_nat] at h
    refine ⟨(a.toNat - 240) * 262144 + (b.toNat - 128) * 4096 + (c.toNat - 128) * 64
      + (d.toNat - 128), ?_, ?_⟩
    · unfold IsScalar; omega
    generalize hx : (a.toNat - 240) * 262144 + (b.toNat - 128) * 4096 + (c.toNat - 128) * 64
      + (d.toNat - 128) = x
    have h1 : ¬ x < 0x80 := by omega
    have h2 : ¬ x < 0x800 := by omega
    have h3 : ¬ x < 0x10000 := by omega
    simp only [encodeScalar, h1, h2, h3, if_false]
    rw [ofNat_eq (a := a) (by omega), ofNat_eq (a := b) (by omega), ofNat_eq (a := c) (by omega),
      ofNat_eq (a := d) (by omega)]

theorem seq_iff_scalar (enc : Bytes) : Seq enc ↔ ∃ c, IsScalar c ∧ enc = encodeScalar c :=
  ⟨seq_decode, fun ⟨_, hc, he⟩ => he ▸ seq_encodeScalar hc⟩

theorem wf_encodeScalars {cs : List Nat} (h : ∀ c ∈ cs, IsScalar c) :
    WellFormed (encodeScalars cs) := by
  induction cs with
  | nil => exact .nil
  | cons c cs ih =>
    simp only [encodeScalars]
    exact seq_wf_cons (seq_encodeScalar (h c (by simp))) (ih (fun c' hc' => h c' (by simp [hc'])))

theorem wf_decode {bs : Bytes} (h : WellFormed bs) :
    ∃ cs : List Nat, (∀ c ∈ cs, IsScalar c) ∧ bs = encodeScalars cs := by
  refine wf_seq_induction
    (P := fun bs => ∃ cs : List Nat, (∀ c ∈ cs, IsScalar c) ∧ bs = encodeScalars cs) ?_ ?_ h
  · exact ⟨[], by simp, rfl⟩
  · intro enc rest hs _ ⟨cs, hcs, hrest⟩
    obtain ⟨c, hc, he⟩ := seq_decode hs
    refine ⟨c :: cs, ?_, by simp only [encodeScalars, he, hrest]⟩
    intro c' hc'
    rcases List.mem_cons.mp hc' with rfl | h'
    · exact hc
    · exact hcs c' h'

end WsProofs.Utf8
