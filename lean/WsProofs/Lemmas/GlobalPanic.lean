import WsProofs.Lemmas.GlobalRead
import WsProofs.Lemmas.CollectorLemmas
import WsProofs.Props.C18

/-! No `expect`/`unwrap`/`unreachable!` site of the read side is reachable, and the model's loops
never run out of fuel: the collector invariant (`CInv`), the codec potential (`phi`), and the
no-panic specification of every arm of `read_message_frame`. -/
namespace WsProofs
open WsModel WsModel.Gen WsProofs.Utf8

/-! ### the collector invariant -/

/-- the `utf8::Incomplete` buffer of a collector really is an unfinished code point -/
def CollOk (s : Collector) : Prop := ∀ buf, s.incomplete = some buf → utf8Step buf = .incomplete

def IncOk : Option Incomplete → Prop
  | some (.text s) => CollOk s
  | _ => True

/-- the partially assembled message (if it is text) has a sane collector -/
def CInv (w : World) : Prop := IncOk w.c.incomplete

theorem decodeRest_collOk (s : Collector) (h : CollOk s) (input : Bytes) :
    CollOk (s.decodeRest input).1 ∧ ∀ p, (s.decodeRest input).2 ≠ .panic p := by
  unfold Collector.decodeRest
  by_cases hi : input.isEmpty = true
  · rw [if_pos hi]; exact ⟨h, by simp⟩
  · rw [if_neg hi]
    cases hd : utf8Decode input with
    | ok => exact ⟨h, by simp⟩
    | invalid v k => exact ⟨h, by simp⟩
    | incomplete v suffix =>
      refine ⟨?_, by simp⟩
      intro buf hb
      cases hb
      unfold utf8Decode at hd
      cases hv : utf8Validate input with
      | ok => rw [hv] at hd; cases hd
      | err v' el =>
        rw [hv] at hd
        cases el with
        | some k => cases hd
        | none =>
          simp only [] at hd
          injection hd with h1 h2
          subst h1
          subst h2
          exact (validate_err_spec hv).2.2

theorem extend_collOk (s : Collector) (h : CollOk s) (tail : Bytes) :
    CollOk (s.extend tail).1 ∧ ∀ p, (s.extend tail).2 ≠ .panic p := by
  unfold Collector.extend
  cases hi : s.incomplete with
  | none => exact decodeRest_collOk s h tail
  | some buf =>
    simp only []
    have hb := h buf hi
    rcases Collector.tryComplete_spec hb tail with ⟨h1, h2⟩ | ⟨bytes, consumed, h1, _, _⟩ |
      ⟨bytes, consumed, h1, _⟩
    · rw [h1]
      exact ⟨fun b hb' => by cases hb'; exact h2, by simp⟩
    · rw [h1]
      exact decodeRest_collOk _ (fun b hb' => (by cases hb')) _
    · rw [h1]
      exact ⟨fun b hb' => (by cases hb'), by simp⟩

theorem Incomplete.extend_ok (m : Incomplete) (h : IncOk (some m)) (tail : Bytes) (lim : Option Nat) :
    IncOk (some (m.extend tail lim).1) ∧ ∀ p, (m.extend tail lim).2 ≠ .panic p := by
  unfold Incomplete.extend
  simp only []
  by_cases hc : m.len > lim.getD (2 ^ 64 - 1) ∨ tail.length > lim.getD (2 ^ 64 - 1) - m.len
  · rw [if_pos hc]; exact ⟨h, by simp⟩
  · rw [if_neg hc]
    cases m with
    | binary v => exact ⟨trivial, by simp⟩
    | text s =>
      show IncOk (some (Incomplete.text (s.extend tail).1)) ∧ ∀ p, (s.extend tail).2 ≠ .panic p
      exact extend_collOk s h tail

theorem Incomplete.complete_np (m : Incomplete) : ∀ p, m.complete ≠ .panic p := by
  cases m with
  | binary v => simp [Incomplete.complete]
  | text s =>
    obtain ⟨data, inc⟩ := s
    cases inc <;> simp [Incomplete.complete, Collector.intoString, Res.map]

theorem Frame.intoText_np (f : Frame) : ∀ p, f.intoText ≠ .panic p := by
  intro p
  unfold Frame.intoText
  by_cases hu : isUtf8 f.payload = true
  · rw [if_pos hu]; simp
  · rw [if_neg hu]; simp

theorem Frame.intoClose_np (f : Frame) : ∀ p, f.intoClose ≠ .panic p := by
  intro p
  unfold Frame.intoClose
  match f.payload with
  | [] => simp
  | [_] => simp
  | a :: b :: reason =>
    simp only []
    by_cases hu : isUtf8 reason = true
    · rw [if_pos hu]; simp
    · rw [if_neg hu]; simp

/-! ### the arms of `read_message_frame` -/

/-- an arm leaves codec and transport alone, keeps the collector invariant and does not panic -/
structure NP (w w' : World) (r : Res (Option Message)) : Prop where
  codec : w'.c.codec = w.c.codec
  t : w'.t = w.t
  cinv : CInv w → CInv w'
  np : CInv w → w.c.state ≠ .terminated → ∀ s, r ≠ .panic s

theorem NP.same (w : World) (r : Res (Option Message)) (h : ∀ s, r ≠ .panic s) : NP w w r :=
  ⟨rfl, rfl, id, fun _ _ => h⟩

theorem setAdditional_incomplete (w : World) (f : Frame) :
    (w.setAdditional f).c.incomplete = w.c.incomplete := by
  unfold World.setAdditional
  cases w.c.additional with
  | none => rfl
  | some g =>
    by_cases hg : g.isPong = true
    · simp [hg, World.setAdditionalRaw]
    · simp [hg]

theorem doClose_np (w : World) (c : Option CloseFrame) :
    (w.doClose c).1.c.codec = w.c.codec ∧ (w.doClose c).1.t = w.t ∧
    (w.doClose c).1.c.incomplete = w.c.incomplete ∧
    (w.c.state ≠ .terminated → ∀ s, (w.doClose c).2 ≠ .panic s) := by
  unfold World.doClose
  cases hs : w.c.state with
  | active =>
    simp only []
    obtain ⟨_, _, f3, _, f5, _⟩ := setAdditional_fields (w.setState .closedByPeer)
      (Frame.close (c.map fun cf =>
        if (!closeCodeIsAllowed cf.code) = true then
          { code := .protocol, reason := protocolViolationReason } else cf))
    exact ⟨f5, f3, setAdditional_incomplete _ _, by simp⟩
  | closedByPeer => exact ⟨rfl, rfl, rfl, by simp⟩
  | closeAcknowledged => exact ⟨rfl, rfl, rfl, by simp⟩
  | closedByUs => exact ⟨rfl, rfl, rfl, by simp⟩
  | terminated => exact ⟨rfl, rfl, rfl, fun h => absurd rfl h⟩

theorem onControl_np (w : World) (frame : Frame) (ctl : OpCtl) :
    NP w (w.onControl frame ctl).1 (w.onControl frame ctl).2 := by
  unfold World.onControl
  by_cases h1 : (!frame.header.fin) = true
  · rw [if_pos h1]; exact NP.same _ _ (by simp)
  · rw [if_neg h1]
    by_cases h2 : frame.payload.length > 125
    · rw [if_pos h2]; exact NP.same _ _ (by simp)
    · rw [if_neg h2]
      cases ctl with
      | reserved i => exact NP.same _ _ (by simp)
      | pong => exact NP.same _ _ (by simp)
      | ping =>
        simp only []
        by_cases ha : w.c.state.isActive = true
        · simp only [ha, if_true]
          obtain ⟨_, _, f3, _, f5, _⟩ := setAdditional_fields w (Frame.pong frame.payload)
          refine ⟨f5, f3, ?_, by simp⟩
          intro hC
          unfold CInv
          rw [setAdditional_incomplete]
          exact hC
        · simp only [ha, if_false, Bool.false_eq_true]
          exact NP.same _ _ (by simp)
      | close =>
        simp only []
        cases hic : frame.intoClose with
        | err e => exact NP.same _ _ (by simp)
        | panic s => exact absurd hic (Frame.intoClose_np frame s)
        | ok c =>
          simp only []
          obtain ⟨d1, d2, d3, d4⟩ := doClose_np w c
          generalize w.doClose c = x at *
          obtain ⟨w1, r⟩ := x
          simp only [] at d1 d2 d3 d4
          have hcinv : CInv w → CInv w1 := by
            intro hC; unfold CInv; rw [d3]; exact hC
          cases r with
          | err e => exact ⟨d1, d2, hcinv, by simp [andThen]⟩
          | panic s => exact ⟨d1, d2, hcinv, fun _ hnt => absurd rfl (d4 hnt s)⟩
          | ok o => exact ⟨d1, d2, hcinv, by simp [andThen]⟩

theorem onContinue_np (w : World) (frame : Frame) :
    NP w (w.onContinue frame).1 (w.onContinue frame).2 := by
  unfold World.onContinue
  cases hi : w.c.incomplete with
  | none => exact NP.same _ _ (by simp)
  | some msg =>
    simp only []
    have hE : CInv w → IncOk (some (msg.extend frame.payload w.c.cfg.maxMsg).1) ∧
        ∀ p, (msg.extend frame.payload w.c.cfg.maxMsg).2 ≠ .panic p := by
      intro hC
      unfold CInv at hC
      rw [hi] at hC
      exact Incomplete.extend_ok msg hC _ _
    generalize msg.extend frame.payload w.c.cfg.maxMsg = x at *
    obtain ⟨msg', r⟩ := x
    simp only [] at hE
    cases r with
    | err e => exact ⟨rfl, rfl, fun hC => (hE hC).1, by simp⟩
    | panic s => exact ⟨rfl, rfl, fun hC => (hE hC).1, fun hC _ => absurd rfl ((hE hC).2 s)⟩
    | ok u =>
      cases u
      simp only []
      by_cases hf : frame.header.fin = true
      · rw [if_pos hf]
        cases hcm : msg'.complete with
        | ok m => exact ⟨rfl, rfl, fun _ => trivial, by simp⟩
        | err e => exact ⟨rfl, rfl, fun _ => trivial, by simp⟩
        | panic s => exact absurd hcm (Incomplete.complete_np msg' s)
      · rw [if_neg hf]
        exact ⟨rfl, rfl, fun hC => (hE hC).1, by simp⟩

theorem startFragmented_np (w : World) (frame : Frame) (ty : Incomplete) (hty : IncOk (some ty)) :
    NP w (w.startFragmented frame ty).1 (w.startFragmented frame ty).2 := by
  unfold World.startFragmented
  have hE := Incomplete.extend_ok ty hty frame.payload w.c.cfg.maxMsg
  generalize ty.extend frame.payload w.c.cfg.maxMsg = x at *
  obtain ⟨msg', r⟩ := x
  simp only [] at hE
  cases r with
  | err e => exact NP.same _ _ (by simp)
  | panic s => exact absurd rfl (hE.2 s)
  | ok u =>
    cases u
    exact ⟨rfl, rfl, fun _ => hE.1, by simp⟩

theorem onData_np (w : World) (frame : Frame) (d : OpData) :
    NP w (w.onData frame d).1 (w.onData frame d).2 := by
  unfold World.onData
  cases d with
  | «continue» => exact onContinue_np w frame
  | reserved i =>
    simp only []
    by_cases h1 : w.c.incomplete.isSome = true
    · rw [if_pos h1]; exact NP.same _ _ (by simp)
    · rw [if_neg h1]; exact NP.same _ _ (by simp)
  | text =>
    simp only []
    by_cases h1 : w.c.incomplete.isSome = true
    · rw [if_pos h1]; exact NP.same _ _ (by simp)
    · rw [if_neg h1]
      by_cases h2 : frame.header.fin = true
      · rw [if_pos h2]
        by_cases h3 : (!checkMaxSize frame.payload.length w.c.cfg.maxMsg) = true
        · rw [if_pos h3]; exact NP.same _ _ (by simp)
        · rw [if_neg h3]
          cases hit : frame.intoText with
          | ok t => exact NP.same _ _ (by simp)
          | err e => exact NP.same _ _ (by simp)
          | panic s => exact absurd hit (Frame.intoText_np frame s)
      · rw [if_neg h2]
        exact startFragmented_np w frame _ (fun _ h => (by cases h))
  | binary =>
    simp only []
    by_cases h1 : w.c.incomplete.isSome = true
    · rw [if_pos h1]; exact NP.same _ _ (by simp)
    · rw [if_neg h1]
      by_cases h2 : frame.header.fin = true
      · rw [if_pos h2]
        by_cases h3 : (!checkMaxSize frame.payload.length w.c.cfg.maxMsg) = true
        · rw [if_pos h3]; exact NP.same _ _ (by simp)
        · rw [if_neg h3]; exact NP.same _ _ (by simp)
      · rw [if_neg h2]
        exact startFragmented_np w frame _ trivial

theorem onFrame_np (w : World) (frame : Frame) :
    NP w (w.onFrame frame).1 (w.onFrame frame).2 := by
  unfold World.onFrame
  by_cases h0 : (!w.c.state.canRead) = true
  · rw [if_pos h0]; exact NP.same _ _ (by simp)
  · rw [if_neg h0]
    by_cases h1 : frame.header.rsv1 = true ∨ frame.header.rsv2 = true ∨ frame.header.rsv3 = true
    · rw [if_pos h1]; exact NP.same _ _ (by simp)
    · rw [if_neg h1]
      by_cases h2 : w.c.role = .client ∧ frame.header.mask.isSome = true
      · rw [if_pos h2]; exact NP.same _ _ (by simp)
      · rw [if_neg h2]
        cases frame.header.opcode with
        | control ctl => exact onControl_np w frame ctl
        | data d => exact onData_np w frame d

theorem onEof_np (w : World) : NP w w.onEof.1 w.onEof.2 ∧ ∀ m, w.onEof.2 ≠ .ok m := by
  unfold World.onEof
  cases hs : w.c.state <;> exact ⟨⟨rfl, rfl, id, by simp⟩, by simp⟩

/-- closes `a = a` whether or not `simp` has already rewritten it to `True` -/
local macro "triv" : term => `(by first | rfl | trivial)

/-! ### the codec potential: header bonus + unread buffered bytes + bytes still in the script -/

/-- 2 while a parsed header waits for its payload (its ≥ 2 bytes have left `inBuf`) -/
def hb (c : Codec) : Nat := if c.header.isSome then 2 else 0

def phi (c : Codec) (t : Transport) : Nat := hb c + c.inBuf.length + rdBytes t.rd

theorem ensureHeader_phi (c : Codec) :
    hb c.ensureHeader.1 + c.ensureHeader.1.inBuf.length ≤ hb c + c.inBuf.length ∧
    (∀ s, c.ensureHeader.2 ≠ .panic s) := by
  unfold Codec.ensureHeader
  cases hh : c.header with
  | some _ => exact ⟨Nat.le_refl _, by simp⟩
  | none =>
    simp only []
    cases hp : Header.parse c.inBuf with
    | header h len used =>
      refine ⟨?_, by simp⟩
      have h1 := C18.parse_used_le hp
      obtain ⟨_, _, _, _, _, _, _, _, h2, _⟩ := C18.parse_inv hp
      have hc : hb c = 0 := by unfold hb; rw [hh]; rfl
      have hc1 : hb { c with header := some (h, len), inBuf := c.inBuf.drop used } = 2 := rfl
      rw [hc, hc1]
      simp only [List.length_drop]
      omega
    | incomplete => exact ⟨Nat.le_refl _, by simp⟩
    | error e => exact ⟨Nat.le_refl _, by simp⟩
    | panic s => exact absurd hp (C18.C18_parse_total c.inBuf s)

theorem trySplit_frame_phi {c c2 : Codec} {maxSize : Nat} {p : Bytes}
    (h : c.trySplit maxSize = .frame c2 p) :
    c2.header = c.header ∧ (∃ hd, c.header = some (hd, p.length)) ∧
    c2.inBuf.length ≤ c.inBuf.length := by
  unfold Codec.trySplit at h
  cases hh : c.header with
  | none => rw [hh] at h; cases h
  | some hl =>
    obtain ⟨hd, len⟩ := hl
    rw [hh] at h
    simp only [] at h
    by_cases h1 : len > maxSize
    · simp only [h1, if_true] at h; cases h
    · simp only [h1, if_false] at h
      by_cases h2 : len ≤ c.inBuf.length
      · simp only [h2, if_true] at h
        injection h with h3 h4
        subst h3
        subst h4
        refine ⟨triv, ⟨hd, ?_⟩, ?_⟩
        · rw [List.length_take, Nat.min_eq_left h2]
        · simp only [List.length_drop]; omega
      · simp only [h2, if_false] at h; cases h

theorem rdBytes_cons_le (e : RdEv) (rest : List RdEv) : rdBytes rest ≤ rdBytes (e :: rest) := by
  cases e <;> simp [rdBytes]

theorem Transport.read_facts (t : Transport) (hdef : ∀ bs, t.rdDef ≠ .data bs) :
    (t.read).1.rdDef = t.rdDef ∧
    (∀ bs, (t.read).2 = .data bs →
      bs.length + rdBytes (t.read).1.rd = rdBytes t.rd ∧ (t.read).1.rd.length + 1 = t.rd.length) ∧
    rdBytes (t.read).1.rd ≤ rdBytes t.rd := by
  obtain ⟨rd, wr, fl, rdDef, wrDef, flDef, accepted, flushedUpTo, log, exhausted⟩ := t
  cases rd with
  | nil =>
    refine ⟨rfl, ?_, Nat.le_refl _⟩
    intro bs hbs
    exact absurd hbs (hdef bs)
  | cons e rest =>
    refine ⟨rfl, ?_, rdBytes_cons_le e rest⟩
    intro bs hbs
    have : e = .data bs := hbs
    subst this
    exact ⟨rfl, rfl⟩

theorem Codec.readLoop_phi (maxSize fuel : Nat) (c : Codec) (t : Transport)
    (hdef : ∀ bs, t.rdDef ≠ .data bs) :
    (Codec.readLoop maxSize fuel c t).2.1.rdDef = t.rdDef ∧
    phi (Codec.readLoop maxSize fuel c t).1 (Codec.readLoop maxSize fuel c t).2.1 ≤ phi c t ∧
    (∀ p, (Codec.readLoop maxSize fuel c t).2.2 = .ok (some p) →
      ∃ h, (Codec.readLoop maxSize fuel c t).1.header = some (h, p.length)) ∧
    (t.rd.length < fuel → ∀ s, (Codec.readLoop maxSize fuel c t).2.2 ≠ .panic s) := by
  induction fuel generalizing c t with
  | zero =>
    simp only [Codec.readLoop]
    exact ⟨triv, Nat.le_refl _, by simp, fun h => absurd h (Nat.not_lt_zero _)⟩
  | succ fuel ih =>
    simp only [Codec.readLoop]
    obtain ⟨he1, he2⟩ := ensureHeader_phi c
    cases hh : c.ensureHeader with
    | mk c1 r1 =>
      rw [hh] at he1 he2
      simp only [] at he1 he2
      cases r1 with
      | err e =>
        simp only []
        exact ⟨triv, by unfold phi; omega, by simp, by simp⟩
      | panic s => exact absurd rfl (he2 s)
      | ok u =>
        cases u
        simp only []
        cases hsp : c1.trySplit maxSize with
        | frame c2 p =>
          simp only []
          obtain ⟨g1, ⟨hd, g2⟩, g3⟩ := trySplit_frame_phi hsp
          have hb2 : hb c2 = hb c1 := by unfold hb; rw [g1]
          refine ⟨triv, by unfold phi; omega, ?_, by simp⟩
          intro p' hp'
          injection hp' with hp'
          injection hp' with hp'
          subst hp'
          exact ⟨hd, g1.trans g2⟩
        | tooLong size max =>
          simp only []
          exact ⟨triv, by unfold phi; omega, by simp, by simp⟩
        | more n =>
          simp only []
          obtain ⟨r1, r2, r3⟩ := Transport.read_facts t hdef
          cases hrd : t.read with
          | mk t1 ev =>
            rw [hrd] at r1 r2 r3
            simp only [] at r1 r2 r3
            cases ev with
            | data bs =>
              simp only []
              obtain ⟨r4, r5⟩ := r2 bs rfl
              by_cases hbs : bs.isEmpty = true
              · simp only [hbs, if_true]
                exact ⟨r1, by unfold phi; omega, by simp, by simp⟩
              · simp only [hbs, if_false, Bool.false_eq_true]
                obtain ⟨i1, i2, i3, i4⟩ := ih { c1 with inBuf := c1.inBuf ++ bs } t1
                  (by rw [r1]; exact hdef)
                have hb3 : hb { c1 with inBuf := c1.inBuf ++ bs } = hb c1 := rfl
                refine ⟨i1.trans r1, ?_, i3, ?_⟩
                · refine Nat.le_trans i2 ?_
                  unfold phi
                  rw [hb3]
                  simp only [List.length_append]
                  omega
                · intro hf
                  exact i4 (by omega)
            | eof =>
              simp only []
              exact ⟨r1, by unfold phi; omega, by simp, by simp⟩
            | err k =>
              simp only []
              exact ⟨r1, by unfold phi; omega, by simp, by simp⟩

theorem Codec.finishFrame_phi (c : Codec) (p : Bytes) (u a : Bool) (hd : Header)
    (hh : c.header = some (hd, p.length)) :
    (∀ s, (c.finishFrame p u a).2 ≠ .panic s) ∧ (c.finishFrame p u a).1.header = none ∧
    (c.finishFrame p u a).1.inBuf = c.inBuf := by
  unfold Codec.finishFrame
  rw [hh]
  simp only [ne_eq, not_true_eq_false, if_false]
  by_cases h2 : u = true
  · simp only [h2, if_true]
    cases hm : hd.mask with
    | some m => exact ⟨by simp, triv, triv⟩
    | none =>
      simp only []
      by_cases h3 : a = true
      · simp only [h3, if_true]
        exact ⟨by simp, triv, triv⟩
      · simp only [h3, if_false, Bool.false_eq_true]
        exact ⟨by simp, triv, triv⟩
  · simp only [h2, if_false, Bool.false_eq_true]
    exact ⟨by simp, triv, triv⟩

/-- `read_frame` never panics, and a frame it returns has used up at least two units of potential -/
theorem Codec.readFrame_phi (c : Codec) (t : Transport) (maxSize : Option Nat) (u a : Bool)
    (hdef : ∀ bs, t.rdDef ≠ .data bs) :
    (c.readFrame t maxSize u a).2.1.rdDef = t.rdDef ∧
    (∀ s, (c.readFrame t maxSize u a).2.2 ≠ .panic s) ∧
    (∀ f, (c.readFrame t maxSize u a).2.2 = .ok (some f) →
      phi (c.readFrame t maxSize u a).1 (c.readFrame t maxSize u a).2.1 + 2 ≤ phi c t) := by
  unfold Codec.readFrame
  obtain ⟨l1, l2, l3, l4⟩ := Codec.readLoop_phi (maxSize.getD usizeMax) (t.rd.length + 1) c t hdef
  have l4' := l4 (Nat.lt_succ_self _)
  cases hl : Codec.readLoop (maxSize.getD usizeMax) (t.rd.length + 1) c t with
  | mk c1 tr =>
    obtain ⟨t1, r⟩ := tr
    rw [hl] at l1 l2 l3 l4'
    simp only [] at l1 l2 l3 l4'
    cases r with
    | err e => exact ⟨l1, by simp, by simp⟩
    | panic s => exact absurd rfl (l4' s)
    | ok o =>
      cases o with
      | none => exact ⟨l1, by simp, by simp⟩
      | some p =>
        simp only []
        obtain ⟨hd, hhd⟩ := l3 p rfl
        obtain ⟨f1, f2, f3⟩ := Codec.finishFrame_phi c1 p u a hd hhd
        refine ⟨l1, f1, ?_⟩
        intro _ _
        have h1 : hb (c1.finishFrame p u a).1 = 0 := by unfold hb; rw [f2]; rfl
        have h2 : hb c1 = 2 := by unfold hb; rw [hhd]; rfl
        unfold phi at l2 ⊢
        rw [h1, f3]
        omega

/-! ### `read_message_frame` and the `read` loop -/

/-- the potential of a world -/
def mu (w : World) : Nat := phi w.c.codec w.t

theorem readRaw_np (w : World) (hdef : ∀ bs, w.t.rdDef ≠ .data bs) :
    (readRaw w).1.t.rdDef = w.t.rdDef ∧ (∀ s, (readRaw w).2 ≠ .panic s) ∧
    (∀ f, (readRaw w).2 = .ok (some f) → mu (readRaw w).1 + 2 ≤ mu w) := by
  unfold readRaw
  obtain ⟨h1, h2, h3⟩ := Codec.readFrame_phi w.c.codec w.t w.c.cfg.maxFrame (w.c.role == .server)
    w.c.cfg.acceptUnmasked hdef
  have hncc := codec_readFrame_ne_cc w.c.codec w.t w.c.cfg.maxFrame (w.c.role == .server)
    w.c.cfg.acceptUnmasked
  generalize w.c.codec.readFrame w.t w.c.cfg.maxFrame (w.c.role == .server)
    w.c.cfg.acceptUnmasked = q at *
  obtain ⟨c1, t1, r⟩ := q
  simp only [] at h1 h2 h3 hncc ⊢
  rcases checkConnectionReset_cases (w.setCodec c1 t1) r hncc with ⟨he, _⟩ | ⟨he, _, _⟩
  · rw [he]; exact ⟨h1, h2, h3⟩
  · rw [he]; exact ⟨h1, by simp, by simp⟩

/-- `read_message_frame`: keeps the collector invariant, does not panic, and when it asks the loop to
go on (`Ok(None)`) a whole frame has been consumed -/
structure RMN (w w' : World) (r : Res (Option Message)) : Prop where
  cinv : CInv w → CInv w'
  np : (∀ bs, w.t.rdDef ≠ .data bs) → CInv w → w.c.state ≠ .terminated → ∀ s, r ≠ .panic s
  rdDef : (∀ bs, w.t.rdDef ≠ .data bs) → w'.t.rdDef = w.t.rdDef
  dec : (∀ bs, w.t.rdDef ≠ .data bs) → r = .ok none → mu w' + 2 ≤ mu w

theorem readMessageFrame_np (w : World) : RMN w w.readMessageFrame.1 w.readMessageFrame.2 := by
  rw [readMessageFrame_eq]
  have S := readRaw_spec w
  have N := readRaw_np w
  generalize readRaw w = x at *
  obtain ⟨w1, r⟩ := x
  simp only [] at S N
  have hci : CInv w → CInv w1 := by
    intro hC; unfold CInv; rw [S.incomplete]; exact hC
  cases r with
  | panic s =>
    exact ⟨hci, fun hd _ _ => absurd rfl ((N hd).2.1 s), fun hd => (N hd).1, by simp [andThen]⟩
  | err e => exact ⟨hci, by simp [andThen], fun hd => (N hd).1, by simp [andThen]⟩
  | ok o =>
    have hst : w1.c.state = w.c.state := by
      rcases S.state with h1 | ⟨_, h2⟩
      · exact h1
      · cases h2
    cases o with
    | some frame =>
      have F := onFrame_np w1 frame
      show RMN w (w1.onFrame frame).1 (w1.onFrame frame).2
      refine ⟨fun hC => F.cinv (hci hC), fun _ hC hnt => F.np (hci hC) (hst ▸ hnt),
        fun hd => by rw [F.t]; exact (N hd).1, ?_⟩
      intro hd _
      have hm : mu (w1.onFrame frame).1 = mu w1 := by unfold mu; rw [F.codec, F.t]
      rw [hm]
      exact (N hd).2.2 frame rfl
    | none =>
      obtain ⟨F, hno⟩ := onEof_np w1
      show RMN w w1.onEof.1 w1.onEof.2
      exact ⟨fun hC => F.cinv (hci hC), fun _ hC hnt => F.np (hci hC) (hst ▸ hnt),
        fun hd => by rw [F.t]; exact (N hd).1, fun _ h => absurd h (hno _)⟩

theorem WS.cinv {w w' : World} (h : WS w w') (hC : CInv w) : CInv w' := by
  unfold CInv; rw [h.rside.incomplete]; exact hC

theorem WS.mu_eq {w w' : World} (h : WS w w') : mu w' = mu w := by
  unfold mu phi hb
  rw [h.rside.inBuf, h.rside.header, h.rside.t.rd]

/-- the `read` loop never panics: `readPre` and `read_message_frame` do not, and the fuel suffices
because every continuing iteration uses up two units of potential -/
theorem readLoop_np (fuel : Nat) (w : World) (hnt : w.c.state ≠ .terminated) (hC : CInv w)
    (hdef : ∀ bs, w.t.rdDef ≠ .data bs) (hf : mu w + 2 ≤ 2 * fuel) :
    ∀ s, (World.readLoop fuel w).2 ≠ .panic s := by
  induction fuel generalizing w with
  | zero => exact absurd hf (by omega)
  | succ fuel ih =>
    simp only [World.readLoop]
    have P := readPre_FS hnt
    have PW := readPre_ws w
    generalize w.readPre = x at *
    obtain ⟨wa, r1⟩ := x
    simp only [] at P PW
    cases r1 with
    | panic s => exact (P.not_panic).elim
    | err e => simp [andThen]
    | ok u =>
      have hsa : wa.c.state = w.c.state := P.state_of_ok
      have hnta : wa.c.state ≠ .terminated := hsa ▸ hnt
      have hCa : CInv wa := PW.cinv hC
      have hda : ∀ bs, wa.t.rdDef ≠ .data bs := by rw [PW.rside.t.rdDef]; exact hdef
      have hma : mu wa = mu w := PW.mu_eq
      show ∀ s, (andThen wa.readMessageFrame _).2 ≠ .panic s
      have M := readMessageFrame_spec wa
      have N := readMessageFrame_np wa
      generalize wa.readMessageFrame = y at *
      obtain ⟨wb, r2⟩ := y
      simp only [] at M N
      cases r2 with
      | panic s => exact absurd rfl (N.np hda hCa hnta s)
      | err e => simp [andThen]
      | ok om =>
        cases om with
        | some m => simp [andThen]
        | none =>
          show ∀ s, (World.readLoop fuel wb).2 ≠ .panic s
          have hsb : wb.c.state = wa.c.state := M.none rfl
          have hdec := N.dec hda rfl
          apply ih wb (by rw [hsb]; exact hnta) (N.cinv hCa)
          · rw [N.rdDef hda]; exact hda
          · omega

theorem readLoop_cinv (fuel : Nat) (w : World) (hC : CInv w) : CInv (World.readLoop fuel w).1 := by
  induction fuel generalizing w with
  | zero => exact hC
  | succ fuel ih =>
    simp only [World.readLoop]
    apply andThen_pres (P := CInv)
    · exact (readPre_ws w).cinv hC
    · intro w1 _ h1
      apply andThen_pres (P := CInv)
      · exact (readMessageFrame_np w1).cinv h1
      · intro w2 om h2
        cases om with
        | some m => exact h2
        | none => exact ih w2 h2

/-! ### the collector invariant along histories -/

theorem step_cinv (w : World) (op : Op) (hC : CInv w) (hop : op.noRaw) : CInv (w.step op).1 := by
  cases op with
  | read =>
    show CInv w.read.1
    unfold World.read
    by_cases hc : (!w.c.state.notTerminated) = true
    · rw [if_pos hc]; exact hC
    · rw [if_neg hc]; exact readLoop_cinv _ w hC
  | flush => exact (flush_ws w).cinv hC
  | close c =>
    by_cases hs : w.c.state = .active
    · exact (close_ws_active w c hs).cinv hC
    · exact (close_ws_other w c hs).cinv hC
  | write m =>
    show CInv (w.write m).1
    by_cases hs : w.c.state = .active
    · obtain ⟨e1, e2, e3⟩ := write_data_eq w hs
      have hd : ∀ f, CInv (w.writeData f).1 := fun f =>
        (writeData_ws w f).cinv (by
          unfold CInv; rw [(World.bufferFrame_bq w f).rside.incomplete]; exact hC)
      cases m with
      | text d => rw [e1 d]; exact hd _
      | binary d => rw [e2 d]; exact hd _
      | ping d => rw [e3 d]; exact hd _
      | frame f => exact absurd hop (by simp [Op.noRaw])
      | close c => rw [write_close_eq w c hs]; exact (close_ws_active w c hs).cinv hC
      | pong d =>
        rw [write_pong_eq w d hs, andThen_unit_fst]
        exact (slotTail_ws _).cinv (by unfold CInv; rw [setAdditional_incomplete]; exact hC)
    · rw [(write_refused w m hs).1]; exact hC

theorem run_cinv (ops : List Op) (w : World) (hC : CInv w) (hops : ∀ op ∈ ops, Op.noRaw op) :
    CInv (w.run ops).1 := by
  induction ops generalizing w with
  | nil => exact hC
  | cons op ops ih =>
    simp only [World.run]
    exact ih (w.step op).1 (step_cinv w op hC (hops op (by simp))) (fun o ho => hops o (by simp [ho]))

theorem init_cinv (w : World) (h : w.Init) : CInv w := by
  obtain ⟨role, cfg, pre, c, hc, hwc, _, _, _, _⟩ := h
  unfold Ctx.new at hc
  by_cases hv : configValid cfg.maxw cfg.wbuf = true
  · rw [if_pos hv] at hc
    have hc' := (Option.some.inj hc).symm
    rw [hc'] at hwc
    unfold CInv
    rw [hwc]
    trivial
  · rw [if_neg hv] at hc; cases hc

theorem reachable_cinv (w : World) (h : w.Reachable) : CInv w := by
  obtain ⟨w0, ops, hinit, hops, rfl⟩ := h
  exact run_cinv ops w0 (init_cinv w0 hinit) hops

/-- `read` never panics on a reachable world whose read script default is not data -/
theorem read_np (w : World) (hC : CInv w) (hdef : ∀ bs, w.t.rdDef ≠ .data bs) :
    ∀ s, w.read.2 ≠ .panic s := by
  unfold World.read
  by_cases hc : (!w.c.state.notTerminated) = true
  · rw [if_pos hc]; simp
  · rw [if_neg hc]
    have hnt : w.c.state ≠ .terminated := by
      intro h; rw [h] at hc; exact hc rfl
    apply readLoop_np _ w hnt hC hdef
    unfold World.readFuel mu phi hb
    split <;> omega

end WsProofs
