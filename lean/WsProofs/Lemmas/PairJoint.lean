import WsProofs.Lemmas.PairReadAct

/-! Two-party proofs, layer 7: the joint invariant of a pair and its preservation by every
scheduled action; the bookkeeping of data messages written and read along a run. -/
namespace WsProofs.Pair
open WsModel WsModel.Gen WsModel.Spec WsProofs WsProofs.Read WsProofs.Pipe

/-- the complete effect of one scheduled action -/
theorem act_step {rA rO : Role} {A O : World} {Pin Pout : Bytes} {oD : Bool} {nIn nOut : Nat}
    (H : ActHyp rA rO A O Pin Pout oD nIn nOut) (a : Action) (hb : a.Benign) (hop : OpOk a.op) :
    ∃ nIn', ActRes rA rO A O Pin Pout oD nIn nOut a nIn' := by
  obtain ⟨g1, g2, g3, g4, g5, g6⟩ := act_generic H a hb hop
  by_cases hr : a.op = .read
  · obtain ⟨n', r1, r2, r3, r4, r5⟩ := act_read H a hr
    exact ⟨n', r1, r2, r3, g1, g2, r4, r5, g3, g4, g5, g6⟩
  · obtain ⟨r1, r3, r4, r5⟩ := act_nonread H a hop hr
    exact ⟨nIn, r1, H.lin, r3, g1, g2, r4, by rw [r5, List.append_nil], g3, g4, g5, g6⟩

/-- the joint invariant: `nc` frames of the server have been consumed by the client, `ns` frames
of the client by the server -/
structure J (p : Pair) (nc ns : Nat) : Prop where
  wc : WI .client p.c
  ws : WI .server p.s
  dcs : p.s.c.state ≠ .terminated → Dir p.c p.s p.c2s ns
  dsc : p.c.c.state ≠ .terminated → Dir p.s p.c p.s2c nc
  lc : nc ≤ p.s.queued.length
  ls : ns ≤ p.c.queued.length
  /-- a client drops its transport only after the server did -/
  dropC : p.cDropped = true → p.c.c.state = .terminated ∧ p.sDropped = true
  /-- a server drops its transport only with its Close (or reply) accepted by the transport -/
  dropS : p.sDropped = true → p.s.c.state = .terminated ∧ p.s.c.codec.outBuf = [] ∧
    ∃ f ∈ p.s.queued, f.isClose = true

theorem J.hypC {p : Pair} {nc ns : Nat} (h : J p nc ns) :
    ActHyp .client .server p.c p.s p.s2c p.c2s p.sDropped nc ns :=
  ⟨rfl, h.wc, h.ws, h.dsc, h.dcs, h.lc, h.ls, fun hd _ => (h.dropS hd).2,
    (fun _ hr => by cases hr)⟩

theorem J.hypS {p : Pair} {nc ns : Nat} (h : J p nc ns) :
    ActHyp .server .client p.s p.c p.c2s p.s2c p.cDropped ns nc :=
  ⟨rfl, h.ws, h.wc, h.dcs, h.dsc, h.ls, h.lc, (fun _ hr => by cases hr),
    fun hd _ => (h.dropS (h.dropC hd).2).1⟩

/-- what one action contributes to the four message lists -/
structure StepRes (p : Pair) (nc ns : Nat) (a : Action) (nc' ns' : Nat) : Prop where
  j : J (p.step a).1 nc' ns'
  out : OutOk (p.step a).2
  readC : dataOfFrames ((p.step a).1.s.queued.take nc') =
    dataOfFrames (p.s.queued.take nc) ++ (if a.who = .c then dataOfOut (p.step a).2 else [])
  readS : dataOfFrames ((p.step a).1.c.queued.take ns') =
    dataOfFrames (p.c.queued.take ns) ++ (if a.who = .s then dataOfOut (p.step a).2 else [])
  writtenC : dataOfFrames (p.step a).1.c.queued =
    dataOfFrames p.c.queued ++ (if a.who = .c then dataWrittenOf a.op (p.step a).2 else [])
  writtenS : dataOfFrames (p.step a).1.s.queued =
    dataOfFrames p.s.queued ++ (if a.who = .s then dataWrittenOf a.op (p.step a).2 else [])

theorem take_of_ext {q q' l : List Frame} {n : Nat} (hq : q' = q ++ l) (hn : n ≤ q.length) :
    q'.take n = q.take n := by
  rw [hq, List.take_append_of_le_length hn]

theorem J.step {p : Pair} {nc ns : Nat} (h : J p nc ns) (a : Action) (hb : a.Benign)
    (hop : OpOk a.op) : ∃ nc' ns', StepRes p nc ns a nc' ns' := by
  cases hw : a.who with
  | c =>
    obtain ⟨nc', R⟩ := act_step h.hypC a hb hop
    obtain ⟨l, hl⟩ := step_queued_ext (actIn p.c p.s2c p.sDropped a) a.op
      (actIn_wi h.wc _ _ _).inv hop.1
    have hl' : (actW p.c p.s2c p.sDropped a).1.queued = p.c.queued ++ l := hl
    refine ⟨nc', ns, ?_⟩
    refine ⟨?_, ?_, ?_, ?_, ?_, ?_⟩ <;> rw [step_c p a hw]
    rotate_left
    · exact R.out
    rotate_left 4
    refine ⟨R.wa, h.ws, ?_, R.din, R.lin, R.lout, ?_, h.dropS⟩
    · intro hs
      have hnd : p.sDropped = false := by
        cases hd : p.sDropped with
        | false => rfl
        | true => exact absurd (h.dropS hd).1 hs
      show Dir _ _ (if p.sDropped = true then p.c2s else p.c2s ++ _) _
      rw [if_neg (by rw [hnd]; exact Bool.false_ne_true)]
      exact R.dout hs
    · intro hd
      show (actW p.c p.s2c p.sDropped a).1.c.state = .terminated ∧ p.sDropped = true
      have hd' : (p.cDropped || (actW p.c p.s2c p.sDropped a).2.isConnectionClosed) = true := hd
      rcases Bool.or_eq_true_iff.mp hd' with h1 | h1
      · obtain ⟨h2, h3⟩ := h.dropC h1
        exact ⟨by rw [(R.frozen h2).1]; exact h2, h3⟩
      · obtain ⟨h2, h3, _⟩ := R.cc h1
        exact ⟨h2, h3 rfl⟩
    · rw [if_pos hw]
      exact R.read
    · show dataOfFrames ((actW p.c p.s2c p.sDropped a).1.queued.take ns) = _
      rw [take_of_ext hl' h.ls, if_neg (show ¬ a.who = Side.s by rw [hw]; decide), List.append_nil]
    · rw [if_pos hw]
      exact R.written
    · rw [if_neg (show ¬ a.who = Side.s by rw [hw]; decide), List.append_nil]
  | s =>
    obtain ⟨ns', R⟩ := act_step h.hypS a hb hop
    obtain ⟨l, hl⟩ := step_queued_ext (actIn p.s p.c2s p.cDropped a) a.op
      (actIn_wi h.ws _ _ _).inv hop.1
    have hl' : (actW p.s p.c2s p.cDropped a).1.queued = p.s.queued ++ l := hl
    refine ⟨nc, ns', ?_⟩
    refine ⟨?_, ?_, ?_, ?_, ?_, ?_⟩ <;> rw [step_s p a hw]
    rotate_left
    · exact R.out
    rotate_left 4
    refine ⟨h.wc, R.wa, R.din, ?_, R.lout, R.lin, ?_, ?_⟩
    · intro hs
      have hnd : p.cDropped = false := by
        cases hd : p.cDropped with
        | false => rfl
        | true => exact absurd (h.dropC hd).1 hs
      show Dir _ _ (if p.cDropped = true then p.s2c else p.s2c ++ _) _
      rw [if_neg (by rw [hnd]; exact Bool.false_ne_true)]
      exact R.dout hs
    · intro hd
      obtain ⟨h1, h2⟩ := h.dropC hd
      exact ⟨h1, by show (p.sDropped || _) = true; rw [h2]; rfl⟩
    · intro hd
      show (actW p.s p.c2s p.cDropped a).1.c.state = .terminated ∧
        (actW p.s p.c2s p.cDropped a).1.c.codec.outBuf = [] ∧
        ∃ f ∈ (actW p.s p.c2s p.cDropped a).1.queued, f.isClose = true
      have hd' : (p.sDropped || (actW p.s p.c2s p.cDropped a).2.isConnectionClosed) = true := hd
      rcases Bool.or_eq_true_iff.mp hd' with h1 | h1
      · obtain ⟨h2, h3, h4⟩ := h.dropS h1
        obtain ⟨f1, f2⟩ := R.frozen h2
        exact ⟨by rw [f1]; exact h2, by rw [f1]; exact h3, by rw [f2]; exact h4⟩
      · obtain ⟨h2, _, h3⟩ := R.cc h1
        exact ⟨h2, h3 rfl⟩
    · show dataOfFrames ((actW p.s p.c2s p.cDropped a).1.queued.take nc) = _
      rw [take_of_ext hl' h.lc, if_neg (show ¬ a.who = Side.c by rw [hw]; decide), List.append_nil]
    · rw [if_pos hw]
      exact R.read
    · rw [if_neg (show ¬ a.who = Side.c by rw [hw]; decide), List.append_nil]
    · rw [if_pos hw]
      exact R.written

/-! ### the initial pair -/

theorem init_fields {w : World} (h : w.Init) :
    w.c.state = .active ∧ w.c.incomplete = none ∧ w.c.additional = none ∧ w.queued = [] ∧
    w.c.codec.outBuf = [] ∧ w.c.codec.header = none := by
  obtain ⟨role, cfg, pre, c, hc, hwc, hq, _, _, _⟩ := h
  unfold Ctx.new at hc
  by_cases hv : configValid cfg.maxw cfg.wbuf = true
  · rw [if_pos hv] at hc
    have hc' := (Option.some.inj hc).symm
    rw [hc'] at hwc
    rw [hwc]
    exact ⟨rfl, rfl, rfl, hq, rfl, rfl⟩
  · rw [if_neg hv] at hc; cases hc

theorem init_wi {r : Role} {w : World} (h : w.Init) (hr : w.c.role = r)
    (hcfg : w.c.cfg.maxFrame = none ∧ w.c.cfg.maxMsg = none ∧ 400 ≤ w.c.cfg.maxw) : WI r w := by
  obtain ⟨f1, f2, f3, f4, _, _⟩ := init_fields h
  refine ⟨init_inv w h, C09.init_wf w h, hr, ⟨?_, ?_⟩, f2, hcfg.1, hcfg.2.1, hcfg.2.2, ?_⟩
  · rw [f4]; intro f hf; cases hf
  · rw [f3]; intro f hf; cases hf
  · exact KP.of_not (by rw [f1]; rfl)

theorem init_dir {X Y : World} (hX : X.Init) (hY : Y.Init) (hin : Y.c.codec.inBuf = []) :
    Dir X Y [] 0 := by
  obtain ⟨_, _, _, x4, x5, _⟩ := init_fields hX
  obtain ⟨y1, _, _, _, _, y6⟩ := init_fields hY
  refine ⟨⟨[], ?_, ?_⟩, ?_⟩
  · have := Rep_none y6
    rw [hin] at this
    exact this
  · rw [x5, x4]; rfl
  · rw [x4, y1]
    exact ⟨(fun ⟨f, hf, _⟩ => by cases hf), (fun h => by cases h)⟩

/-- the hypotheses on the initial pair: a fresh connection, nothing pre-read, no inbound limits,
room for a control frame in the write buffers -/
structure Start (p : Pair) : Prop where
  init : p.Init
  cfgC : p.c.c.cfg.maxFrame = none ∧ p.c.c.cfg.maxMsg = none ∧ 400 ≤ p.c.c.cfg.maxw
  cfgS : p.s.c.cfg.maxFrame = none ∧ p.s.c.cfg.maxMsg = none ∧ 400 ≤ p.s.c.cfg.maxw
  preC : p.c.c.codec.inBuf = []
  preS : p.s.c.codec.inBuf = []

theorem Start.j {p : Pair} (h : Start p) : J p 0 0 := by
  obtain ⟨hc, hs, rc, rs, e1, e2, d1, d2⟩ := h.init
  refine ⟨init_wi hc rc h.cfgC, init_wi hs rs h.cfgS, ?_, ?_, Nat.zero_le _, Nat.zero_le _, ?_, ?_⟩
  · intro _; rw [e1]; exact init_dir hc hs h.preS
  · intro _; rw [e2]; exact init_dir hs hc h.preC
  · intro hd; rw [d1] at hd; cases hd
  · intro hd; rw [d2] at hd; cases hd

/-! ### runs -/

/-- the data messages side `who` was delivered, in order -/
def dataRead (who : Side) : List (Side × Out) → List Message
  | [] => []
  | (sd, o) :: rest => (if sd = who then dataOfOut o else []) ++ dataRead who rest

/-- the data messages side `who` wrote that were taken (the call returned Ok or a transport
error), in order -/
def dataWritten (who : Side) : List Action → List (Side × Out) → List Message
  | a :: as, (_, o) :: rest =>
    (if a.who = who then dataWrittenOf a.op o else []) ++ dataWritten who as rest
  | _, _ => []

/-- the invariant along a run, with the message bookkeeping -/
theorem J.run : ∀ (as : List Action) (p : Pair) (nc ns : Nat), J p nc ns →
    (∀ a ∈ as, a.Benign ∧ OpOk a.op) →
    ∃ nc' ns', J (p.run as).1 nc' ns' ∧ (∀ so ∈ (p.run as).2, OutOk so.2) ∧
      dataOfFrames ((p.run as).1.s.queued.take nc') =
        dataOfFrames (p.s.queued.take nc) ++ dataRead .c (p.run as).2 ∧
      dataOfFrames ((p.run as).1.c.queued.take ns') =
        dataOfFrames (p.c.queued.take ns) ++ dataRead .s (p.run as).2 ∧
      dataOfFrames (p.run as).1.c.queued =
        dataOfFrames p.c.queued ++ dataWritten .c as (p.run as).2 ∧
      dataOfFrames (p.run as).1.s.queued =
        dataOfFrames p.s.queued ++ dataWritten .s as (p.run as).2 := by
  intro as
  induction as with
  | nil =>
    intro p nc ns h _
    exact ⟨nc, ns, h, (fun so hso => by cases hso), (List.append_nil _).symm,
      (List.append_nil _).symm, (List.append_nil _).symm, (List.append_nil _).symm⟩
  | cons a as ih =>
    intro p nc ns h hall
    obtain ⟨hb, hop⟩ := hall a (List.mem_cons_self ..)
    obtain ⟨nc1, ns1, R⟩ := h.step a hb hop
    obtain ⟨nc2, ns2, j2, o2, r1, r2, w1, w2⟩ := ih (p.step a).1 nc1 ns1 R.j
      (fun b hb' => hall b (List.mem_cons_of_mem _ hb'))
    have hrun : p.run (a :: as) =
        (((p.step a).1.run as).1, (a.who, (p.step a).2) :: ((p.step a).1.run as).2) := rfl
    rw [hrun]
    refine ⟨nc2, ns2, j2, ?_, ?_, ?_, ?_, ?_⟩
    · intro so hso
      rcases List.mem_cons.mp hso with rfl | hso
      · exact R.out
      · exact o2 so hso
    · rw [r1, R.readC]
      simp only [dataRead, List.append_assoc]
    · rw [r2, R.readS]
      simp only [dataRead, List.append_assoc]
    · rw [w1, R.writtenC]
      simp only [dataWritten, List.append_assoc]
    · rw [w2, R.writtenS]
      simp only [dataWritten, List.append_assoc]

end WsProofs.Pair
