import WsModel.ReadAll
import WsProofs.Props.C18
import WsProofs.Props.C19

/-! Layer 0 of the segmentation-independence proof: the model's header parser `Header.parse`
(UInt8 bit operations, generated constants) and the specification's `Spec.rawHeader`
(arithmetic on byte values) compute the same thing. -/
namespace WsProofs.Read
open WsModel WsModel.Gen WsModel.Spec WsProofs.C18

/-! ## byte-level facts, by evaluation over the 256 byte values -/

theorem byte_fin : ∀ b, b < 256 →
    ((UInt8.ofNat b &&& UInt8.ofNat parseBitFin) != 0) = decide (b ≥ 128) := by
  decide +kernel

theorem byte_rsv1 : ∀ b, b < 256 →
    ((UInt8.ofNat b &&& UInt8.ofNat parseBitRsv1) != 0) = (b / 16 % 8 / 4 % 2 == 1) := by
  decide +kernel

theorem byte_rsv2 : ∀ b, b < 256 →
    ((UInt8.ofNat b &&& UInt8.ofNat parseBitRsv2) != 0) = (b / 16 % 8 / 2 % 2 == 1) := by
  decide +kernel

theorem byte_rsv3 : ∀ b, b < 256 →
    ((UInt8.ofNat b &&& UInt8.ofNat parseBitRsv3) != 0) = (b / 16 % 8 % 2 == 1) := by
  decide +kernel

theorem byte_op : ∀ b, b < 256 →
    (UInt8.ofNat b &&& UInt8.ofNat opcodeMask).toNat = b % 16 := by
  decide +kernel

theorem byte_masked : ∀ b, b < 256 →
    ((UInt8.ofNat b &&& UInt8.ofNat parseBitMasked) != 0) = decide (b ≥ 128) := by
  decide +kernel

theorem byte_len : ∀ b, b < 256 →
    (UInt8.ofNat b &&& UInt8.ofNat lenMask).toNat = b % 128 := by
  decide +kernel

theorem u8_fin (f : UInt8) :
    ((f &&& UInt8.ofNat parseBitFin) != 0) = decide (f.toNat ≥ 128) := by
  have h := byte_fin f.toNat (UInt8.toNat_lt f); rwa [UInt8.ofNat_toNat] at h

theorem u8_rsv1 (f : UInt8) :
    ((f &&& UInt8.ofNat parseBitRsv1) != 0) = (f.toNat / 16 % 8 / 4 % 2 == 1) := by
  have h := byte_rsv1 f.toNat (UInt8.toNat_lt f); rwa [UInt8.ofNat_toNat] at h

theorem u8_rsv2 (f : UInt8) :
    ((f &&& UInt8.ofNat parseBitRsv2) != 0) = (f.toNat / 16 % 8 / 2 % 2 == 1) := by
  have h := byte_rsv2 f.toNat (UInt8.toNat_lt f); rwa [UInt8.ofNat_toNat] at h

theorem u8_rsv3 (f : UInt8) :
    ((f &&& UInt8.ofNat parseBitRsv3) != 0) = (f.toNat / 16 % 8 % 2 == 1) := by
  have h := byte_rsv3 f.toNat (UInt8.toNat_lt f); rwa [UInt8.ofNat_toNat] at h

theorem u8_op (f : UInt8) : (f &&& UInt8.ofNat opcodeMask).toNat = f.toNat % 16 := by
  have h := byte_op f.toNat (UInt8.toNat_lt f); rwa [UInt8.ofNat_toNat] at h

theorem u8_masked (s : UInt8) :
    ((s &&& UInt8.ofNat parseBitMasked) != 0) = decide (s.toNat ≥ 128) := by
  have h := byte_masked s.toNat (UInt8.toNat_lt s); rwa [UInt8.ofNat_toNat] at h

theorem u8_len (s : UInt8) : (s &&& UInt8.ofNat lenMask).toNat = s.toNat % 128 := by
  have h := byte_len s.toNat (UInt8.toNat_lt s); rwa [UInt8.ofNat_toNat] at h

/-! ## the parser as a function of the raw header -/

/-- the model header a raw header stands for, given its decoded opcode -/
def hdrOfRaw (r : RawHeader) (o : OpCode) : Header :=
  { fin := r.fin
    rsv1 := r.rsv / 4 % 2 == 1
    rsv2 := r.rsv / 2 % 2 == 1
    rsv3 := r.rsv % 2 == 1
    opcode := o
    mask := r.mask }

/-- what `Header.parse` returns, computed from `rawHeader` -/
def parseOfRaw : Option RawHeader → ParseRes
  | none => .incomplete
  | some r =>
    match opCodeOfU8 r.opcode with
    | none => .panic .opcodeOutOfRange
    | some o =>
      if isReservedOpcode o then .error (.protocol (.invalidOpcode r.opcode))
      else .header (hdrOfRaw r o) r.len r.size

theorem finish_eq (f : UInt8) (o : OpCode) (l : Nat) (m : Option Mask) (u : Nat)
    (hop : opCodeOfU8 (f &&& UInt8.ofNat opcodeMask).toNat = some o) :
    Header.parseFinish f o l m u =
      parseOfRaw (some ⟨decide (f.toNat ≥ 128), f.toNat / 16 % 8, f.toNat % 16, m, l, u⟩) := by
  rw [u8_op] at hop
  simp only [parseOfRaw, hop]
  cases hr : isReservedOpcode o with
  | true =>
    rw [parseFinish_bad hr, u8_op]; rfl
  | false =>
    rw [parseFinish_ok hr]
    simp only [Bool.false_eq_true, if_false]
    congr 1
    simp only [hdrOf, hdrOfRaw, u8_fin, u8_rsv1, u8_rsv2, u8_rsv3]

/-- the tail of `rawHeader` once the length is known -/
def rawTail (f s : UInt8) (l u : Nat) (rest : Bytes) : Option RawHeader :=
  (rawMask (decide (s.toNat ≥ 128)) rest).map fun (m, k) =>
    ⟨decide (f.toNat ≥ 128), f.toNat / 16 % 8, f.toNat % 16, m, l, u + k⟩

theorem mask_eq (f s : UInt8) (o : OpCode) (l : Nat) (rest : Bytes) (u : Nat)
    (hop : opCodeOfU8 (f &&& UInt8.ofNat opcodeMask).toNat = some o) :
    Header.parseMask f s o l rest u = parseOfRaw (rawTail f s l u rest) := by
  cases hmb : ((s &&& UInt8.ofNat parseBitMasked) != 0) with
  | false =>
    rw [parseMask_unmasked hmb, finish_eq f o l none u hop]
    rw [u8_masked] at hmb
    simp only [rawTail, hmb, rawMask, Bool.false_eq_true, if_false, Option.map_some, Nat.add_zero]
  | true =>
    have hmb' := hmb
    rw [u8_masked] at hmb'
    rcases rest with _ | ⟨a, _ | ⟨b, _ | ⟨c, _ | ⟨d, t⟩⟩⟩⟩
    · rw [parseMask_short hmb (by simp)]
      simp only [rawTail, hmb', rawMask, if_true, Option.map_none, parseOfRaw]
    · rw [parseMask_short hmb (by simp)]
      simp only [rawTail, hmb', rawMask, if_true, Option.map_none, parseOfRaw]
    · rw [parseMask_short hmb (by simp)]
      simp only [rawTail, hmb', rawMask, if_true, Option.map_none, parseOfRaw]
    · rw [parseMask_short hmb (by simp)]
      simp only [rawTail, hmb', rawMask, if_true, Option.map_none, parseOfRaw]
    · rw [parseMask_masked hmb, finish_eq f o l _ (u + 4) hop]
      simp only [rawTail, hmb', rawMask, if_true, Option.map_some]

theorem be16_eq (x y : UInt8) : be16 x y = beNat [x, y] := by
  simp only [be16, beNat, List.foldl_cons, List.foldl_nil, Nat.zero_mul, Nat.zero_add]

theorem be64_eq (bs : Bytes) : be64 bs = beNat bs := rfl

/-- `rawHeader` in terms of `rawTail` -/
theorem rawHeader_cons (f s : UInt8) (rest : Bytes) :
    rawHeader (f :: s :: rest) =
      if s.toNat % 128 < 126 then rawTail f s (s.toNat % 128) 2 rest
      else if s.toNat % 128 = 126 then
        (if rest.length < 2 then none else rawTail f s (beNat (rest.take 2)) 4 (rest.drop 2))
      else
        (if rest.length < 8 then none else rawTail f s (beNat (rest.take 8)) 10 (rest.drop 8)) := by
  simp only [rawHeader, rawTail]
  by_cases h1 : s.toNat % 128 < 126
  · simp only [h1, if_true]
  · simp only [h1, if_false]
    by_cases h2 : s.toNat % 128 = 126
    · simp only [h2, if_true]
      rcases rest with _ | ⟨x, _ | ⟨y, t⟩⟩
      · simp
      · simp
      · have hl : ¬ (t.length + 1 + 1 < 2) := by omega
        simp [be16_eq, hl]
    · simp only [h2, if_false, be64_eq]

/-- the model's header parser is the specification's raw header, followed by the opcode check -/
theorem parse_eq (bs : Bytes) : Header.parse bs = parseOfRaw (rawHeader bs) := by
  rcases bs with _ | ⟨f, _ | ⟨s, rest⟩⟩
  · rfl
  · rfl
  · cases hop : opCodeOfU8 (f &&& UInt8.ofNat opcodeMask).toNat with
    | none =>
      have h := op_total f.toNat (UInt8.toNat_lt f)
      rw [UInt8.ofNat_toNat (x := f), hop] at h
      cases h
    | some o =>
      rw [parse_cons_some hop, rawHeader_cons]
      rcases lenByte_cases s with ⟨hb, hk⟩ | ⟨hb, hk⟩ | ⟨hb, hk⟩
      · rw [parseLen_zero hk, mask_eq _ _ _ _ _ _ hop]
        rw [u8_len] at hb ⊢
        rw [if_pos hb]
      · rw [parseLen_ext hk (by omega) (by omega)]
        rw [u8_len] at hb
        have hn : ¬ s.toNat % 128 < 126 := by omega
        rw [if_neg hn, if_pos hb]
        by_cases hl : rest.length < 2
        · rw [if_pos hl, if_pos hl]; rfl
        · rw [if_neg hl, if_neg hl, mask_eq _ _ _ _ _ _ hop]
      · rw [parseLen_ext hk (by omega) (by omega)]
        rw [u8_len] at hb
        have hn : ¬ s.toNat % 128 < 126 := by omega
        have hn2 : ¬ s.toNat % 128 = 126 := by omega
        rw [if_neg hn, if_neg hn2]
        by_cases hl : rest.length < 8
        · rw [if_pos hl, if_pos hl]; rfl
        · rw [if_neg hl, if_neg hl, mask_eq _ _ _ _ _ _ hop]

/-! ## consequences used by the upper layers -/

theorem rawHeader_shape {bs : Bytes} {r : RawHeader} (h : rawHeader bs = some r) :
    r.opcode < 16 ∧ r.rsv < 8 ∧ 2 ≤ r.size := by
  rcases bs with _ | ⟨f, _ | ⟨s, rest⟩⟩
  · cases h
  · cases h
  · rw [rawHeader_cons] at h
    have key : ∀ l u t, 2 ≤ u → rawTail f s l u t = some r →
        r.opcode < 16 ∧ r.rsv < 8 ∧ 2 ≤ r.size := by
      intro l u t hu ht
      simp only [rawTail, Option.map_eq_some_iff] at ht
      obtain ⟨⟨m, k⟩, _, rfl⟩ := ht
      show f.toNat % 16 < 16 ∧ f.toNat / 16 % 8 < 8 ∧ 2 ≤ u + k
      omega
    by_cases h1 : s.toNat % 128 < 126
    · rw [if_pos h1] at h; exact key _ _ _ (by omega) h
    · rw [if_neg h1] at h
      by_cases h2 : s.toNat % 128 = 126
      · rw [if_pos h2] at h
        by_cases hl : rest.length < 2
        · rw [if_pos hl] at h; cases h
        · rw [if_neg hl] at h; exact key _ _ _ (by omega) h
      · rw [if_neg h2] at h
        by_cases hl : rest.length < 8
        · rw [if_pos hl] at h; cases h
        · rw [if_neg hl] at h; exact key _ _ _ (by omega) h

theorem rawHeader_opcode_lt {bs : Bytes} {r : RawHeader} (h : rawHeader bs = some r) :
    r.opcode < 16 := (rawHeader_shape h).1

/-- the six defined opcodes are those that decode to a non-reserved `OpCode` -/
theorem defined_iff : ∀ n, n < 16 →
    ∃ o, opCodeOfU8 n = some o ∧ isReservedOpcode o = !isDefinedOpcode n ∧ opCodeToU8 o = n := by
  decide +kernel

theorem parse_incomplete_iff (bs : Bytes) : Header.parse bs = .incomplete ↔ rawHeader bs = none := by
  rw [parse_eq]
  cases hr : rawHeader bs with
  | none => simp [parseOfRaw]
  | some r =>
    obtain ⟨o, h1, _, _⟩ := defined_iff r.opcode (rawHeader_opcode_lt hr)
    simp only [parseOfRaw, h1]
    by_cases h : isReservedOpcode o = true
    · simp [h]
    · simp [h]

/-- a header the model accepts: what the specification sees -/
theorem parse_header_raw {bs : Bytes} {h : Header} {len n : Nat}
    (hp : Header.parse bs = .header h len n) :
    ∃ r, rawHeader bs = some r ∧ isDefinedOpcode r.opcode = true ∧ h = hdrOfRaw r h.opcode ∧
      opCodeToU8 h.opcode = r.opcode ∧ len = r.len ∧ n = r.size := by
  rw [parse_eq] at hp
  cases hr : rawHeader bs with
  | none => rw [hr] at hp; cases hp
  | some r =>
    rw [hr] at hp
    obtain ⟨o, h1, h2, h3⟩ := defined_iff r.opcode (rawHeader_opcode_lt hr)
    simp only [parseOfRaw, h1] at hp
    by_cases hres : isReservedOpcode o = true
    · rw [if_pos hres] at hp; cases hp
    · rw [if_neg hres] at hp
      cases hp
      refine ⟨r, rfl, ?_, rfl, h3, rfl, rfl⟩
      rw [h2] at hres
      cases hd : isDefinedOpcode r.opcode with
      | true => rfl
      | false => rw [hd] at hres; exact absurd rfl hres

/-- a header the model rejects: a complete raw header with an undefined opcode -/
theorem parse_error_raw {bs : Bytes} {e : Err} (hp : Header.parse bs = .error e) :
    ∃ r, rawHeader bs = some r ∧ isDefinedOpcode r.opcode = false ∧
      e = .protocol (.invalidOpcode r.opcode) := by
  rw [parse_eq] at hp
  cases hr : rawHeader bs with
  | none => rw [hr] at hp; cases hp
  | some r =>
    rw [hr] at hp
    obtain ⟨o, h1, h2, _⟩ := defined_iff r.opcode (rawHeader_opcode_lt hr)
    simp only [parseOfRaw, h1] at hp
    by_cases hres : isReservedOpcode o = true
    · rw [if_pos hres] at hp
      cases hp
      refine ⟨r, rfl, ?_, rfl⟩
      rw [h2] at hres
      cases hd : isDefinedOpcode r.opcode with
      | true => rw [hd] at hres; cases hres
      | false => rfl
    · rw [if_neg hres] at hp; cases hp

/-- the payload length a raw header announces is a 64-bit number -/
theorem parse_len_lt {bs : Bytes} {h : Header} {len n : Nat}
    (hp : Header.parse bs = .header h len n) : len < 2 ^ 64 :=
  (C18_reencode bs h len n hp).1

/-! ## unmasking -/

theorem zipWith_range' (k : Mask) (off : Nat) (p : Bytes) :
    (List.range' off p.length).zipWith (fun i b => b ^^^ k.get i) p = applyMaskFrom k off p := by
  induction p generalizing off with
  | nil => rfl
  | cons b bs ih =>
    simp only [List.length_cons, List.range'_succ, List.zipWith_cons_cons, applyMaskFrom]
    rw [ih]

theorem unmask_some (k : Mask) (p : Bytes) : unmaskPayload (some k) p = applyMask k p := by
  simp only [unmaskPayload, List.range_eq_range', applyMask]
  exact zipWith_range' k 0 p

theorem unmask_none (p : Bytes) : unmaskPayload none p = p := rfl

end WsProofs.Read
