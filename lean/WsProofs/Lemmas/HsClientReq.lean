import WsModel.Handshake.Run
import WsProofs.Lemmas.HsHMap
import WsProofs.Lemmas.HsServerChecks
/-! `generate_request`: the five required headers are looked up, written and removed one by one. -/
namespace WsProofs.HsL
open WsModel WsModel.Hs WsModel.Gen

theorem takeRequired_cons_ok {name : Bytes} {names : List Bytes} {hs rest : HMap} {out : Bytes}
    (h : takeRequired (name :: names) hs = .ok (out, rest)) :
    ∃ v out', hs.get name = some v ∧ toStr v = some v ∧
      takeRequired names (hs.remove name) = .ok (out', rest) ∧ out = headerLine name v ++ out' := by
  simp only [takeRequired] at h
  cases hg : hs.get name with
  | none => rw [hg] at h; simp at h
  | some v =>
    rw [hg] at h; simp only at h
    cases ht : toStr v with
    | none => rw [ht] at h; simp at h
    | some s =>
      have := toStr_eq_some ht; subst this
      rw [ht] at h; simp only at h
      cases hr : takeRequired names (hs.remove name) with
      | error e => rw [hr] at h; simp at h
      | ok res =>
        obtain ⟨out', rest'⟩ := res
        rw [hr] at h
        simp only [Except.ok.injEq, Prod.mk.injEq] at h
        exact ⟨s, out', rfl, ht, by rw [← h.2], h.1.symm⟩

theorem takeRequired_keysNodup : ∀ (names : List Bytes) {hs rest : HMap} {out : Bytes},
    takeRequired names hs = .ok (out, rest) → KeysNodup hs → KeysNodup rest
  | [], hs, rest, out, h, hn => by
    simp only [takeRequired, Except.ok.injEq, Prod.mk.injEq] at h; rw [← h.2]; exact hn
  | name :: names, hs, rest, out, h, hn => by
    obtain ⟨v, out', _, _, hr, _⟩ := takeRequired_cons_ok h
    exact takeRequired_keysNodup names hr (keysNodup_remove hn name)

theorem takeRequired_get_none (b : Bytes) : ∀ (names : List Bytes) {hs rest : HMap} {out : Bytes},
    takeRequired names hs = .ok (out, rest) → KeysNodup hs → hs.get b = none → rest.get b = none
  | [], hs, rest, out, h, _, hb => by
    simp only [takeRequired, Except.ok.injEq, Prod.mk.injEq] at h; rw [← h.2]; exact hb
  | name :: names, hs, rest, out, h, hn, hb => by
    obtain ⟨v, out', _, _, hr, _⟩ := takeRequired_cons_ok h
    exact takeRequired_get_none b names hr (keysNodup_remove hn name) (get_remove_none hn name b hb)

theorem takeRequired_removed : ∀ (names : List Bytes) {hs rest : HMap} {out : Bytes},
    takeRequired names hs = .ok (out, rest) → KeysNodup hs → ∀ n ∈ names, rest.get n = none
  | [], _, _, _, _, _, n, hm => by cases hm
  | name :: names, hs, rest, out, h, hn, n, hm => by
    obtain ⟨v, out', _, _, hr, _⟩ := takeRequired_cons_ok h
    cases List.mem_cons.1 hm with
    | inl e =>
      subst e
      exact takeRequired_get_none n names hr (keysNodup_remove hn n) (get_remove_self hn n n rfl)
    | inr e => exact takeRequired_removed names hr (keysNodup_remove hn name) n e

theorem generateRequest_ok {u : UriView} {hm : HMap} {req key : Bytes}
    (h : generateRequest u hm = .ok (req, key)) :
    ∃ path req5 rest others, u.pathAndQuery = some path ∧ hm.get reqKeyName = some key ∧ toStr key = some key ∧
      takeRequired reqHeaderNames hm = .ok (req5, rest) ∧ otherHeaders rest.iter = .ok others ∧
      req = requestLine path ++ req5 ++ others ++ crlf := by
  unfold generateRequest at h
  cases hp : u.pathAndQuery with
  | none => rw [hp] at h; simp at h
  | some path =>
    rw [hp] at h; simp only at h
    cases hg : hm.get reqKeyName with
    | none => rw [hg] at h; simp at h
    | some kv =>
      rw [hg] at h; simp only at h
      cases ht : toStr kv with
      | none => rw [ht] at h; simp at h
      | some k =>
        have := toStr_eq_some ht; subst this
        rw [ht] at h; simp only at h
        cases hr : takeRequired reqHeaderNames hm with
        | error e => rw [hr] at h; simp at h
        | ok res =>
          obtain ⟨req5, rest⟩ := res
          rw [hr] at h; simp only at h
          cases ho : otherHeaders rest.iter with
          | error e => rw [ho] at h; simp at h
          | ok others =>
            rw [ho] at h
            simp only [Except.ok.injEq, Prod.mk.injEq] at h
            obtain ⟨h1, h2⟩ := h
            subst h2
            exact ⟨path, req5, rest, others, rfl, rfl, ht, rfl, ho, h1.symm⟩

end WsProofs.HsL
