import WsProofs.Lemmas.TieWrite

/-! The read side of the machine translation (`do_close` … `read`) equals the hand model. -/
set_option linter.unusedSimpArgs false
namespace WsProofs.Tie
open WsModel WsModel.Gen WsModel.GenCtx

theorem doClose_tie (c : Option CloseFrame) (w : World) : GenCtx.doClose c w = w.doClose c := by
  unfold GenCtx.doClose World.doClose
  tie_norm
  cases h : w.c.state <;> tie_norm [setAdditional_tie] <;> rfl

theorem attempt_ccr {α β : Type} (w1 : World) (r : Res α)
    (K : World → α → World × Res β) :
    andThen (attemptPair (w1, r)) (fun w a => andThen (GenCtx.checkConnectionReset a w) K) =
      andThen (w1.checkConnectionReset r) K := by
  cases r with
  | panic s => rfl
  | err e =>
    simp only [attemptPair_err, andThen_ok]
    rw [checkConnectionReset_tie]
  | ok o =>
    simp only [attemptPair_ok, andThen_ok]
    rw [checkConnectionReset_tie]

theorem readMessageFrame_tie (w : World) : GenCtx.readMessageFrame w = w.readMessageFrame := by
  unfold GenCtx.readMessageFrame World.readMessageFrame
  tie_norm
  generalize hB : codecReadFrame w.c.cfg.maxFrame _ w.c.cfg.acceptUnmasked w = x
  have hB' : codecReadFrame w.c.cfg.maxFrame (w.c.role == .server) w.c.cfg.acceptUnmasked w = x := by
    rw [← hB]; cases w.c.role <;> rfl
  clear hB
  unfold codecReadFrame at hB'
  rcases hrf : w.c.codec.readFrame w.t w.c.cfg.maxFrame (w.c.role == .server) w.c.cfg.acceptUnmasked
    with ⟨codec, t, r⟩
  rw [hrf] at hB'
  simp only [] at hB' ⊢
  subst hB'
  generalize w.setCodec codec t = w1
  rw [attempt_ccr]
  apply andThen_congr; intro w o
  cases o with
  | none =>
    unfold World.onEof
    tie_norm
    cases w.c.state <;> rfl
  | some frame =>
    unfold World.onFrame
    tie_norm
    have e1 : (frame.header.rsv1 = true ∨ frame.header.rsv2 = true ∨ frame.header.rsv3 = true) ↔
        (frame.header.rsv1 || frame.header.rsv2 || frame.header.rsv3) = true := by
      simp [or_assoc]
    have e2 : (w.c.role = Role.client ∧ frame.header.mask.isSome = true) ↔
        (w.c.role == Role.client && frame.header.mask.isSome) = true := by
      simp
    simp only [e1, e2]
    apply ite_both; · intro _; rfl
    intro _
    apply ite_both; · intro _; rfl
    intro _
    apply ite_both; · intro _; rfl
    intro _
    clear e1 e2
    cases hop : frame.header.opcode with
    | control ctl =>
      simp only []
      unfold World.onControl
      tie_norm [decide_eq_true_eq]
      apply ite_both; · intro _; rfl
      intro _
      apply ite_both; · intro _; rfl
      intro _
      cases ctl with
      | close =>
        tie_norm [doClose_tie]
        cases frame.intoClose <;> rfl
      | reserved i => rfl
      | ping =>
        tie_norm [setAdditional_tie]
        cases w.c.state.isActive <;> rfl
      | pong => rfl
    | data d =>
      simp only []
      unfold World.onData
      cases d with
      | «continue» =>
        simp only []
        unfold World.onContinue
        tie_norm
        cases hi : w.c.incomplete with
        | none => rfl
        | some msg =>
          tie_norm [incompleteExtend]
          rcases msg.extend frame.payload w.c.cfg.maxMsg with ⟨m', r'⟩
          cases r' with
          | err e => rfl
          | panic s => rfl
          | ok u =>
            tie_norm
            apply ite_both
            · intro _
              have h1 : (w.setIncomplete (some m')).c.incomplete = some m' := rfl
              have h2 : (w.setIncomplete (some m')).setIncomplete none = w.setIncomplete none := rfl
              rw [h1, h2]
              tie_norm
              cases m'.complete <;> rfl
            · intro _; rfl
      | text =>
        simp only []
        tie_norm
        apply ite_both; · intro _; rfl
        intro _
        apply ite_both
        · intro _
          unfold checkMaxSizeRes
          cases checkMaxSize (List.length frame.payload) w.c.cfg.maxMsg
          · rfl
          · simp only [if_true, andThen_ok, Bool.not_true, Bool.false_eq_true, if_false]
            cases frame.intoText <;> rfl
        · intro _
          unfold World.startFragmented incompleteExtend incompleteNew
          simp only []
          rcases Incomplete.extend (Incomplete.text {}) frame.payload w.c.cfg.maxMsg with ⟨m', r'⟩
          cases r' <;> rfl
      | binary =>
        simp only []
        tie_norm
        apply ite_both; · intro _; rfl
        intro _
        apply ite_both
        · intro _
          unfold checkMaxSizeRes
          cases checkMaxSize (List.length frame.payload) w.c.cfg.maxMsg <;> rfl
        · intro _
          unfold World.startFragmented incompleteExtend incompleteNew
          simp only []
          rcases Incomplete.extend (Incomplete.binary []) frame.payload w.c.cfg.maxMsg with ⟨m', r'⟩
          cases r' <;> rfl
      | reserved i =>
        simp only []
        tie_norm

theorem readLoop_tie (n : Nat) (w : World) : GenCtx.readLoop n w = World.readLoop n w := by
  induction n generalizing w with
  | zero => rfl
  | succ n ih =>
    unfold GenCtx.readLoop World.readLoop World.readPre
    tie_norm [flush_tie, readMessageFrame_tie]
    have e1 : (w.c.additional.isSome = true ∨ w.c.unflushed = true) ↔
        (w.c.additional.isSome || w.c.unflushed) = true := by simp
    have e2 : (w.c.role = Role.server ∧ (!w.c.state.canRead) = true) ↔
        (w.c.role == Role.server && !w.c.state.canRead) = true := by simp
    simp only [e1, e2, andThen_ite]
    clear e1 e2
    have hk : ∀ (w : World) (o : Option Message),
        (match o with
          | some message => (pure message : M Message)
          | _ => GenCtx.readLoop n) w =
        (match o with
          | some m => (w, Res.ok m)
          | none => World.readLoop n w) := by
      intro w o
      cases o with
      | none => exact ih w
      | some m => rfl
    apply ite_both
    · intro _
      rcases w.flush with ⟨w1, r⟩
      cases r with
      | ok u =>
        tie_norm [readMessageFrame_tie]
        exact andThen_congr _ _ _ hk
      | panic s => rfl
      | err e =>
        cases e with
        | io k =>
          cases k <;> tie_norm [readMessageFrame_tie] <;> first | rfl | exact andThen_congr _ _ _ hk
        | _ => rfl
    · intro _
      apply ite_both
      · intro _; rfl
      · intro _
        tie_norm
        exact andThen_congr _ _ _ hk

theorem read_tie (w : World) : GenCtx.read w = w.read := by
  unfold GenCtx.read World.read
  tie_norm [checkNotTerminated, readLoop_tie]
  cases w.c.state.notTerminated <;> rfl

end WsProofs.Tie
