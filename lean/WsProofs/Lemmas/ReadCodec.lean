import WsProofs.Lemmas.ReadHeader

/-! Layer 1: the incremental frame reader `Codec.readFrame` against a one-shot split of the
logical byte stream. -/
namespace WsProofs.Read
open WsModel WsModel.Gen WsProofs.C18

/-! ## the one-shot view of the next frame of a stream -/

inductive Shot where
  | needMore
  | fail (e : Err)
  | frame (h : Header) (payload rest : Bytes)

/-- the next frame of the stream `s`, decided in one go -/
def shot (maxSize : Nat) (s : Bytes) : Shot :=
  match Header.parse s with
  | .incomplete => .needMore
  | .error e => .fail e
  | .panic _ => .needMore
  | .header h len n =>
    if len > maxSize then .fail (.capacity len maxSize)
    else if len ≤ (s.drop n).length then .frame h ((s.drop n).take len) ((s.drop n).drop len)
    else .needMore

/-- a decided attempt stays the same whatever is appended -/
def Shot.extend (more : Bytes) : Shot → Shot
  | .needMore => .needMore
  | .fail e => .fail e
  | .frame h p rest => .frame h p (rest ++ more)

theorem shot_stable (maxSize : Nat) (s more : Bytes) (h : shot maxSize s ≠ .needMore) :
    shot maxSize (s ++ more) = (shot maxSize s).extend more := by
  unfold shot at h ⊢
  cases hp : Header.parse s with
  | incomplete => rw [hp] at h; exact absurd rfl h
  | panic p => rw [hp] at h; exact absurd rfl h
  | error e =>
    rw [parse_stable s more (by rw [hp]; intro h; cases h), hp]; rfl
  | header hd len n =>
    rw [hp] at h
    rw [parse_stable s more (by rw [hp]; intro h; cases h), hp]
    dsimp only at h ⊢
    by_cases h1 : len > maxSize
    · simp only [h1, if_true]; rfl
    · simp only [h1, if_false] at h ⊢
      by_cases h2 : len ≤ (s.drop n).length
      · have hn : n ≤ s.length := parse_used_le hp
        have h3 : len ≤ ((s ++ more).drop n).length := by
          rw [List.drop_append_of_le_length hn, List.length_append]; omega
        simp only [h2, h3, if_true]
        rw [List.drop_append_of_le_length hn,
          List.take_append_of_le_length h2, List.drop_append_of_le_length h2]
        rfl
      · rw [if_neg h2] at h; exact absurd rfl h

theorem shot_frame_inv {maxSize : Nat} {s : Bytes} {h : Header} {p rest : Bytes}
    (hs : shot maxSize s = .frame h p rest) :
    ∃ n, Header.parse s = .header h p.length n ∧ ¬ p.length > maxSize ∧ n ≤ s.length ∧
      s.drop n = p ++ rest := by
  unfold shot at hs
  cases hp : Header.parse s with
  | incomplete => rw [hp] at hs; cases hs
  | panic q => rw [hp] at hs; cases hs
  | error e => rw [hp] at hs; cases hs
  | header hd len n =>
    rw [hp] at hs
    dsimp only at hs
    by_cases h1 : len > maxSize
    · rw [if_pos h1] at hs; cases hs
    · rw [if_neg h1] at hs
      by_cases h2 : len ≤ (s.drop n).length
      · rw [if_pos h2] at hs
        cases hs
        have hl : ((s.drop n).take len).length = len := by rw [List.length_take]; omega
        refine ⟨n, by rw [hl], by rw [hl]; exact h1, parse_used_le hp, ?_⟩
        rw [List.take_append_drop]
      · rw [if_neg h2] at hs; cases hs

theorem shot_fail_inv {maxSize : Nat} {s : Bytes} {e : Err} (hs : shot maxSize s = .fail e) :
    Header.parse s = .error e ∨
    ∃ h len n, Header.parse s = .header h len n ∧ len > maxSize ∧ e = .capacity len maxSize := by
  unfold shot at hs
  cases hp : Header.parse s with
  | incomplete => rw [hp] at hs; cases hs
  | panic q => rw [hp] at hs; cases hs
  | error e' => rw [hp] at hs; cases hs; exact Or.inl rfl
  | header hd len n =>
    rw [hp] at hs
    dsimp only at hs
    by_cases h1 : len > maxSize
    · rw [if_pos h1] at hs; cases hs; exact Or.inr ⟨hd, len, n, rfl, h1, rfl⟩
    · rw [if_neg h1] at hs
      by_cases h2 : len ≤ (s.drop n).length
      · rw [if_pos h2] at hs; cases hs
      · rw [if_neg h2] at hs; cases hs

/-! ## the codec state as a representation of a stream -/

/-- the codec holds the bytes `B` of the stream since the last frame boundary: either all of
them unparsed in `inBuf`, or a parsed header (whose bytes `hb` are gone) followed by `inBuf` -/
def Rep (c : Codec) (B : Bytes) : Prop :=
  match c.header with
  | none => B = c.inBuf
  | some (h, len) => ∃ hb, Header.parse hb = .header h len hb.length ∧ B = hb ++ c.inBuf

/-- a kept header still waits for payload bytes -/
def Tight (c : Codec) : Prop :=
  ∀ h len, c.header = some (h, len) → c.inBuf.length < len

structure CSame (c c' : Codec) : Prop where
  outBuf : c'.outBuf = c.outBuf
  maxOut : c'.maxOut = c.maxOut
  writeLen : c'.writeLen = c.writeLen

theorem CSame.refl (c : Codec) : CSame c c := ⟨rfl, rfl, rfl⟩
theorem CSame.trans {a b c : Codec} (h1 : CSame a b) (h2 : CSame b c) : CSame a c :=
  ⟨h2.outBuf.trans h1.outBuf, h2.maxOut.trans h1.maxOut, h2.writeLen.trans h1.writeLen⟩

structure TSame (t t' : Transport) : Prop where
  rd : t'.rd <:+ t.rd
  rdDef : t'.rdDef = t.rdDef
  wr : t'.wr = t.wr
  fl : t'.fl = t.fl
  wrDef : t'.wrDef = t.wrDef
  flDef : t'.flDef = t.flDef

theorem TSame.refl (t : Transport) : TSame t t := ⟨List.suffix_refl _, rfl, rfl, rfl, rfl, rfl⟩
theorem TSame.trans {a b c : Transport} (h1 : TSame a b) (h2 : TSame b c) : TSame a c :=
  ⟨h2.rd.trans h1.rd, h2.rdDef.trans h1.rdDef, h2.wr.trans h1.wr, h2.fl.trans h1.fl,
    h2.wrDef.trans h1.wrDef, h2.flDef.trans h1.flDef⟩

theorem Rep_none {c : Codec} (h : c.header = none) : Rep c c.inBuf := by
  simp only [Rep, h]

theorem Rep_parse {c : Codec} {B : Bytes} {h : Header} {len : Nat} (hr : Rep c B)
    (hh : c.header = some (h, len)) :
    ∃ n, Header.parse B = .header h len n ∧ n ≤ B.length ∧ B.drop n = c.inBuf := by
  simp only [Rep, hh] at hr
  obtain ⟨hb, hp, rfl⟩ := hr
  refine ⟨hb.length, C18_parse_append hb c.inBuf h len _ hp, ?_, List.drop_left⟩
  rw [List.length_append]; omega

theorem Rep_push {c : Codec} {B : Bytes} (hr : Rep c B) (bs : Bytes) :
    Rep { c with inBuf := c.inBuf ++ bs } (B ++ bs) := by
  unfold Rep at hr ⊢
  cases hh : c.header with
  | none =>
    simp only [hh] at hr ⊢
    rw [hr]
  | some hl =>
    obtain ⟨h, len⟩ := hl
    simp only [hh] at hr ⊢
    obtain ⟨hb, hp, rfl⟩ := hr
    exact ⟨hb, hp, by rw [List.append_assoc]⟩

/-! ## one attempt: `ensureHeader` then `trySplit` -/

theorem ensure_ok {c c1 : Codec} {B : Bytes} (hr : Rep c B) (he : c.ensureHeader = (c1, .ok ())) :
    Rep c1 B ∧ CSame c c1 ∧ c1.inBuf.length ≤ c.inBuf.length ∧
    (c1.header = none → Header.parse B = .incomplete) := by
  unfold Codec.ensureHeader at he
  cases hh : c.header with
  | some hl =>
    simp only [hh] at he
    cases he
    exact ⟨hr, CSame.refl _, Nat.le_refl _, fun h => by rw [hh] at h; cases h⟩
  | none =>
    have hB : B = c.inBuf := by simpa only [Rep, hh] using hr
    simp only [hh] at he
    cases hp : Header.parse c.inBuf with
    | incomplete =>
      simp only [hp] at he
      cases he
      exact ⟨hr, CSame.refl _, Nat.le_refl _, fun _ => by rw [hB]; exact hp⟩
    | error e => simp only [hp] at he; cases he
    | panic s => simp only [hp] at he; cases he
    | header h len used =>
      simp only [hp] at he
      cases he
      obtain ⟨hle, htake, _⟩ := C18_parse_prefix c.inBuf h len used hp
      refine ⟨?_, ⟨rfl, rfl, rfl⟩, ?_, fun h => by cases h⟩
      · simp only [Rep]
        refine ⟨c.inBuf.take used, ?_, ?_⟩
        · rw [List.length_take, Nat.min_eq_left hle]; exact htake
        · rw [hB, List.take_append_drop]
      · simp only [List.length_drop]; omega

theorem ensure_err {c c1 : Codec} {B : Bytes} {e : Err} (hr : Rep c B)
    (he : c.ensureHeader = (c1, .err e)) : Header.parse B = .error e := by
  unfold Codec.ensureHeader at he
  cases hh : c.header with
  | some hl => simp only [hh] at he; cases he
  | none =>
    have hB : B = c.inBuf := by simpa only [Rep, hh] using hr
    simp only [hh] at he
    cases hp : Header.parse c.inBuf with
    | incomplete => simp only [hp] at he; cases he
    | error e' => simp only [hp] at he; cases he; rw [hB]; exact hp
    | panic s => simp only [hp] at he; cases he
    | header h len used => simp only [hp] at he; cases he

theorem ensure_no_panic {c c1 : Codec} {s : PanicSite} (he : c.ensureHeader = (c1, .panic s)) :
    False := by
  unfold Codec.ensureHeader at he
  cases hh : c.header with
  | some hl => simp only [hh] at he; cases he
  | none =>
    simp only [hh] at he
    cases hp : Header.parse c.inBuf with
    | incomplete => simp only [hp] at he; cases he
    | error e' => simp only [hp] at he; cases he
    | panic s' => exact C18_parse_total _ _ hp
    | header h len used => simp only [hp] at he; cases he

/-- outcome of `trySplit` on a state representing `B` -/
def SplitOut (maxSize : Nat) (c1 : Codec) (B : Bytes) : Attempt → Prop
  | .frame c2 p => ∃ h, shot maxSize B = .frame h p c2.inBuf ∧ c2.header = some (h, p.length) ∧
      CSame c1 c2 ∧ c2.inBuf.length ≤ c1.inBuf.length
  | .tooLong a b => shot maxSize B = .fail (.capacity a b)
  | .more _ => shot maxSize B = .needMore ∧ Tight c1

theorem split_spec (maxSize : Nat) {c1 : Codec} {B : Bytes} (hr : Rep c1 B)
    (hn : c1.header = none → Header.parse B = .incomplete) :
    SplitOut maxSize c1 B (c1.trySplit maxSize) := by
  unfold Codec.trySplit
  cases hh : c1.header with
  | none =>
    simp only [SplitOut, shot, hn hh]
    exact ⟨trivial, fun h len h' => by rw [hh] at h'; cases h'⟩
  | some hl =>
    obtain ⟨h, len⟩ := hl
    obtain ⟨n, hp, hle, hdrop⟩ := Rep_parse hr hh
    dsimp only
    by_cases h1 : len > maxSize
    · rw [if_pos h1]
      simp only [SplitOut, shot, hp, h1, if_true]
    · rw [if_neg h1]
      by_cases h2 : len ≤ c1.inBuf.length
      · rw [if_pos h2]
        simp only [SplitOut, shot, hp, h1, if_false, hdrop, h2, if_true]
        refine ⟨h, rfl, ?_, ⟨rfl, rfl, rfl⟩, ?_⟩
        · rw [List.length_take, Nat.min_eq_left h2]
        · simp only [List.length_drop]; omega
      · rw [if_neg h2]
        simp only [SplitOut, shot, hp, h1, if_false, hdrop, h2]
        refine ⟨trivial, fun h' len' hh' => ?_⟩
        rw [hh] at hh'; cases hh'; omega

/-! ## the read loop -/

theorem dataOf_length (evs : List RdEv) : (dataOf evs).length = rdBytes evs := by
  induction evs with
  | nil => rfl
  | cons e rest ih =>
    cases e with
    | data bs => simp only [dataOf, rdBytes, List.length_append, ih]
    | eof => simpa only [dataOf, rdBytes] using ih
    | err k => simpa only [dataOf, rdBytes] using ih

/-- what one call of the read loop may return, relative to the logical stream `S` -/
def LoopOut (maxSize : Nat) (c : Codec) (t : Transport) (S : Bytes)
    (res : Codec × Transport × Res (Option Bytes)) : Prop :=
  TSame t res.2.1 ∧ CSame c res.1 ∧
  res.1.inBuf.length + rdBytes res.2.1.rd ≤ c.inBuf.length + rdBytes t.rd ∧
  match res.2.2 with
  | .ok (some p) => ∃ h rest, shot maxSize S = .frame h p rest ∧
      res.1.header = some (h, p.length) ∧ res.1.inBuf ++ dataOf res.2.1.rd = rest
  | .ok none => False
  | .err e =>
    (e = .io .wouldBlock ∧ ∃ B', Rep res.1 B' ∧ Tight res.1 ∧ B' ++ dataOf res.2.1.rd = S ∧
      shot maxSize B' = .needMore ∧ (res.2.1.rd = [] ∨ res.2.1.rd.length < t.rd.length)) ∨
    shot maxSize S = .fail e
  | .panic _ => False

/-- the two ways an attempt (`ensureHeader`, then `trySplit`) can go -/
theorem attempt_cases (maxSize : Nat) {c : Codec} {B : Bytes} (hr : Rep c B) :
    (∃ e, c.ensureHeader = (c, .err e) ∧ shot maxSize B = .fail e) ∨
    (∃ c1, c.ensureHeader = (c1, .ok ()) ∧ Rep c1 B ∧ CSame c c1 ∧
      c1.inBuf.length ≤ c.inBuf.length ∧ SplitOut maxSize c1 B (c1.trySplit maxSize)) := by
  cases he : c.ensureHeader with
  | mk c1 r1 =>
    cases r1 with
    | panic s => exact (ensure_no_panic he).elim
    | err e =>
      left
      have hp := ensure_err hr he
      have hc : c1 = c := by
        unfold Codec.ensureHeader at he
        cases hh : c.header with
        | some hl => simp only [hh] at he; cases he
        | none =>
          simp only [hh] at he
          cases hp' : Header.parse c.inBuf with
          | incomplete => simp only [hp'] at he; cases he
          | error e' => simp only [hp'] at he; cases he; rfl
          | panic s => simp only [hp'] at he; cases he
          | header h len used => simp only [hp'] at he; cases he
      subst hc
      exact ⟨e, rfl, by simp only [shot, hp]⟩
    | ok u =>
      cases u
      right
      obtain ⟨h1, h2, h3, h4⟩ := ensure_ok hr he
      exact ⟨c1, rfl, h1, h2, h3, split_spec maxSize h1 h4⟩

theorem readLoop_spec (maxSize : Nat) : ∀ (fuel : Nat) (c : Codec)
    (t : Transport) (B : Bytes), (∀ e ∈ t.rd, e.benign = true) →
    t.rdDef = .err .wouldBlock → Rep c B → t.rd.length + 1 ≤ fuel →
    LoopOut maxSize c t (B ++ dataOf t.rd) (Codec.readLoop maxSize fuel c t) := by
  intro fuel
  induction fuel with
  | zero => intro c t B _ _ _ hf; omega
  | succ fuel ih =>
    intro c t B hben hdef hr hf
    unfold Codec.readLoop
    rcases attempt_cases maxSize hr with ⟨e, he, hs⟩ | ⟨c1, he, hr1, hcs, hlen, hsp⟩
    · rw [he]
      unfold LoopOut; dsimp only
      refine ⟨TSame.refl _, CSame.refl _, Nat.le_refl _, Or.inr ?_⟩
      rw [shot_stable maxSize B _ (by rw [hs]; intro h; cases h), hs]; rfl
    · rw [he]
      dsimp only
      cases hts : c1.trySplit maxSize with
      | frame c2 p =>
        rw [hts] at hsp
        obtain ⟨h, hs, hh, hcs2, hlen2⟩ := hsp
        unfold LoopOut; dsimp only
        refine ⟨TSame.refl _, hcs.trans hcs2, by omega, h, c2.inBuf ++ dataOf t.rd, ?_, hh, rfl⟩
        rw [shot_stable maxSize B _ (by rw [hs]; intro h; cases h), hs]; rfl
      | tooLong a b =>
        rw [hts] at hsp
        unfold LoopOut; dsimp only
        refine ⟨TSame.refl _, hcs, by omega, Or.inr ?_⟩
        have hs : shot maxSize B = .fail (.capacity a b) := hsp
        rw [shot_stable maxSize B _ (by rw [hs]; intro h; cases h), hs]; rfl
      | more k =>
        rw [hts] at hsp
        obtain ⟨hs, htight⟩ := hsp
        dsimp only
        unfold Transport.read
        cases hrd : t.rd with
        | nil =>
          dsimp only
          rw [hdef]
          unfold LoopOut; dsimp only
          refine ⟨⟨by rw [hrd]; exact List.suffix_refl _, hdef.symm, rfl, rfl, rfl, rfl⟩, hcs,
            by rw [hrd]; omega, Or.inl ⟨rfl, B, hr1, htight, ?_, hs, Or.inl rfl⟩⟩
          simp only [dataOf, List.append_nil]
        | cons e rest =>
          dsimp only
          have hbe : e.benign = true := hben e (by rw [hrd]; exact List.mem_cons_self)
          cases e with
          | eof => cases hbe
          | err k =>
            cases k with
            | wouldBlock =>
              unfold LoopOut; dsimp only
              refine ⟨⟨by rw [hrd]; exact List.suffix_cons _ _, rfl, rfl, rfl, rfl, rfl⟩, hcs,
                by rw [hrd]; simp only [rdBytes]; omega,
                Or.inl ⟨rfl, B, hr1, htight, ?_, hs, Or.inr ?_⟩⟩
              · rfl
              · rw [hrd]; simp only [List.length_cons]; omega
            | reset => cases hbe
            | intr => cases hbe
            | other => cases hbe
          | data bs =>
            dsimp only
            have hne : bs.isEmpty = false := by
              simpa only [RdEv.benign, Bool.not_eq_true'] using hbe
            rw [hne]
            simp only [Bool.false_eq_true, if_false]
            have hben' : ∀ e ∈ rest, e.benign = true := fun e he =>
              hben e (by rw [hrd]; exact List.mem_cons_of_mem _ he)
            have hrec := ih { c1 with inBuf := c1.inBuf ++ bs }
              { t with rd := rest, log := .read (.data bs) :: t.log } (B ++ bs) hben' hdef
              (Rep_push hr1 bs) (by rw [hrd] at hf; simp only [List.length_cons] at hf ⊢; omega)
            have hS : B ++ bs ++ dataOf rest = B ++ dataOf (RdEv.data bs :: rest) := by
              simp only [dataOf, List.append_assoc]
            rw [hS] at hrec
            generalize Codec.readLoop maxSize fuel { c1 with inBuf := c1.inBuf ++ bs }
              { t with rd := rest, log := .read (.data bs) :: t.log } = res at hrec ⊢
            obtain ⟨c', t', r⟩ := res
            unfold LoopOut at hrec ⊢
            dsimp only at hrec ⊢
            obtain ⟨hts', hcs', hlen', hout⟩ := hrec
            refine ⟨?_, ?_, ?_, ?_⟩
            · exact ⟨hts'.rd.trans (by rw [hrd]; exact List.suffix_cons _ _), hts'.rdDef,
                hts'.wr, hts'.fl, hts'.wrDef, hts'.flDef⟩
            · exact hcs.trans ⟨hcs'.outBuf, hcs'.maxOut, hcs'.writeLen⟩
            · simp only [List.length_append] at hlen' ⊢
              rw [hrd]; simp only [rdBytes]; omega
            · cases r with
              | ok o =>
                cases o with
                | none => exact hout
                | some p => exact hout
              | panic s => exact hout
              | err e =>
                dsimp only at hout ⊢
                rcases hout with ⟨h1, B', h2, h3, h4, h5, h6⟩ | h
                · refine Or.inl ⟨h1, B', h2, h3, h4, h5, ?_⟩
                  rcases h6 with h6 | h6
                  · exact Or.inl h6
                  · right; rw [hrd]; simp only [List.length_cons]; omega
                · exact Or.inr h

/-! ## `read_frame` -/

/-- what `finishFrame` makes of a complete frame -/
def frameRes (h : Header) (p : Bytes) (unmask au : Bool) : Res (Option Frame) :=
  if unmask then
    match h.mask with
    | some m => .ok (some { header := { h with mask := none }, payload := applyMask m p })
    | none => if au then .ok (some ⟨h, p⟩) else .err (.protocol .unmaskedFrameFromClient)
  else .ok (some ⟨h, p⟩)

/-- what one call of `read_frame` may return, relative to the logical stream `S` -/
def RdFrameOut (maxSize : Nat) (unmask au : Bool) (c : Codec) (t : Transport) (S : Bytes)
    (res : Codec × Transport × Res (Option Frame)) : Prop :=
  TSame t res.2.1 ∧ CSame c res.1 ∧
  res.1.inBuf.length + rdBytes res.2.1.rd ≤ c.inBuf.length + rdBytes t.rd ∧
  ((∃ h p rest, shot maxSize S = .frame h p rest ∧ res.2.2 = frameRes h p unmask au ∧
      res.1.header = none ∧ res.1.inBuf ++ dataOf res.2.1.rd = rest) ∨
   (res.2.2 = .err (.io .wouldBlock) ∧ ∃ B', Rep res.1 B' ∧ Tight res.1 ∧
      B' ++ dataOf res.2.1.rd = S ∧ shot maxSize B' = .needMore ∧
      (res.2.1.rd = [] ∨ res.2.1.rd.length < t.rd.length)) ∨
   (∃ e, res.2.2 = .err e ∧ shot maxSize S = .fail e))

theorem finishFrame_spec (c : Codec) (h : Header) (p : Bytes) (unmask au : Bool)
    (hh : c.header = some (h, p.length)) :
    c.finishFrame p unmask au = ({ c with header := none }, frameRes h p unmask au) := by
  unfold Codec.finishFrame frameRes
  rw [hh]
  dsimp only
  rw [if_neg (by simp)]
  cases unmask with
  | false => simp only [Bool.false_eq_true, if_false]
  | true =>
    simp only [if_true]
    cases h.mask with
    | none => cases au <;> simp
    | some m => rfl

theorem readFrame_spec (maxFrame : Option Nat) (unmask au : Bool) (c : Codec) (t : Transport)
    (B : Bytes) (hben : ∀ e ∈ t.rd, e.benign = true) (hdef : t.rdDef = .err .wouldBlock)
    (hr : Rep c B) :
    RdFrameOut (maxFrame.getD usizeMax) unmask au c t (B ++ dataOf t.rd)
      (c.readFrame t maxFrame unmask au) := by
  have hl := readLoop_spec (maxFrame.getD usizeMax) (t.rd.length + 1) c t B hben hdef hr
    (Nat.le_refl _)
  unfold Codec.readFrame
  generalize Codec.readLoop (maxFrame.getD usizeMax) (t.rd.length + 1) c t = res at hl ⊢
  obtain ⟨c', t', r⟩ := res
  unfold LoopOut at hl
  dsimp only at hl
  obtain ⟨hts, hcs, hlen, hout⟩ := hl
  cases r with
  | panic s => exact hout.elim
  | ok o =>
    cases o with
    | none => exact hout.elim
    | some p =>
      dsimp only at hout ⊢
      obtain ⟨h, rest, hs, hh, hrest⟩ := hout
      rw [finishFrame_spec c' h p unmask au hh]
      unfold RdFrameOut
      dsimp only
      exact ⟨hts, ⟨hcs.outBuf, hcs.maxOut, hcs.writeLen⟩, hlen,
        Or.inl ⟨h, p, rest, hs, rfl, rfl, hrest⟩⟩
  | err e =>
    dsimp only at hout ⊢
    unfold RdFrameOut
    dsimp only
    refine ⟨hts, hcs, hlen, ?_⟩
    rcases hout with ⟨h1, h2⟩ | h
    · subst h1; exact Or.inr (Or.inl ⟨rfl, h2⟩)
    · exact Or.inr (Or.inr ⟨e, rfl, h⟩)

/-! ## measure facts for the fuel arguments -/

theorem parse_used_ge {bs : Bytes} {h : Header} {len n : Nat}
    (hp : Header.parse bs = .header h len n) : 2 ≤ n := by
  obtain ⟨f, s, o, m, ext, tail, _, _, rfl, _⟩ := parse_inv hp
  omega

/-- a delivered frame strictly shortens what is left to read -/
theorem frame_measure {maxSize : Nat} {c : Codec} {B D : Bytes} {h : Header} {p rest : Bytes}
    (hr : Rep c B) (ht : Tight c) (hs : shot maxSize (B ++ D) = .frame h p rest) :
    rest.length + 1 ≤ c.inBuf.length + D.length := by
  obtain ⟨n, hp, _, hn, hdrop⟩ := shot_frame_inv hs
  have hlen : B.length + D.length = n + (p.length + rest.length) := by
    have := congrArg List.length hdrop
    simp only [List.length_drop, List.length_append] at this hn
    omega
  cases hh : c.header with
  | none =>
    have hB : B = c.inBuf := by simpa only [Rep, hh] using hr
    have := parse_used_ge hp
    rw [hB] at hlen
    omega
  | some hl =>
    obtain ⟨h0, len0⟩ := hl
    obtain ⟨n0, hp0, hle0, hdrop0⟩ := Rep_parse hr hh
    have hp0' := C18_parse_append B D h0 len0 n0 hp0
    rw [hp] at hp0'
    cases hp0'
    have h1 := ht _ _ hh
    have hB : B.length = n + c.inBuf.length := by
      have := congrArg List.length hdrop0
      rw [List.length_drop] at this
      omega
    omega

end WsProofs.Read
