import WsProofs.Lemmas.PairStep

/-! Two-party proofs, layer 4: one direction of a pair (`Dir`: what the reader's codec holds, what
is in flight and what the writer still buffers is the wire image of the writer's frames the reader
has not consumed yet), and one scheduled action seen from the acting endpoint (`act_*`). -/
namespace WsProofs.Pair
open WsModel WsModel.Gen WsModel.Spec WsProofs WsProofs.Read WsProofs.Pipe

/-! ### lists -/

theorem closeLast_take_drop {q : List Frame} (h : CloseLast q) {n : Nat} {f : Frame}
    (hf : f ∈ q.take n) (hc : f.isClose = true) : q.drop n = [] := by
  obtain ⟨s, t, hst⟩ := List.append_of_mem hf
  have hq : q = s ++ f :: (t ++ q.drop n) := by
    have h0 : List.take n q ++ List.drop n q = s ++ f :: (t ++ List.drop n q) := by
      rw [hst]; simp
    rw [List.take_append_drop] at h0
    exact h0
  exact (List.append_eq_nil_iff.mp (h s f (t ++ q.drop n) hq hc)).2

theorem drop_succ_of {α : Type} {q : List α} {n : Nat} {f : α} {fs' : List α}
    (h : q.drop n = f :: fs') :
    q.take (n + 1) = q.take n ++ [f] ∧ q.drop (n + 1) = fs' ∧ n + 1 ≤ q.length := by
  have hlt : n < q.length := by
    apply Decidable.byContradiction
    intro hge
    rw [List.drop_of_length_le (by omega)] at h
    cases h
  refine ⟨?_, ?_, hlt⟩
  · rw [List.take_add, h]; rfl
  · rw [← List.drop_drop, h]; rfl

theorem drop_take_length (l : Bytes) (d : Nat) : l.drop (l.take d).length = l.drop d := by
  rw [List.length_take]
  by_cases h : d ≤ l.length
  · rw [Nat.min_eq_left h]
  · rw [Nat.min_eq_right (by omega), List.drop_of_length_le (by omega),
      List.drop_of_length_le (by omega)]

/-! ### data messages -/

/-- the data message a frame carries -/
def dataMsg (f : Frame) : Option Message :=
  match f.header.opcode with
  | .data .text => some (.text f.payload)
  | .data .binary => some (.binary f.payload)
  | _ => none

def dataOfFrames (fs : List Frame) : List Message := fs.filterMap dataMsg

/-- the data message a call delivered -/
def dataOfOut : Out → List Message
  | .msg (.ok (.text d)) => [.text d]
  | .msg (.ok (.binary d)) => [.binary d]
  | _ => []

theorem dataOfFrames_append (a b : List Frame) :
    dataOfFrames (a ++ b) = dataOfFrames a ++ dataOfFrames b := List.filterMap_append

/-! ### one direction -/

/-- direction `X → Y`: `n` frames of `X.queued` have been consumed by `Y`; the rest is what `Y`'s
codec holds (`B`), then the pipe `P`, then `X`'s write buffer; `Y` has received a Close iff one is
among the consumed frames -/
structure Dir (X Y : World) (P : Bytes) (n : Nat) : Prop where
  rep : ∃ B, Rep Y.c.codec B ∧ B ++ P ++ X.c.codec.outBuf = encodeAll (X.queued.drop n)
  close : (∃ f ∈ X.queued.take n, f.isClose = true) ↔ Y.c.state.closeReceived = true

/-- the writer made a call: frames appended, bytes handed to the transport -/
theorem Dir.writer {X X' Y : World} {P d : Bytes} {n : Nat} {l : List Frame}
    (h : Dir X Y P n) (hn : n ≤ X.queued.length) (hI : Inv X) (hI' : Inv X')
    (hq : X'.queued = X.queued ++ l) (ha : X'.t.accepted = X.t.accepted ++ d) :
    Dir X' Y (P ++ d) n := by
  obtain ⟨⟨B, hr, hB⟩, hc⟩ := h
  have h1 := hI.fifo
  have h2 := hI'.fifo
  rw [ha, hq, encodeAll_append, ← h1, List.append_assoc, List.append_assoc] at h2
  have h3 : d ++ X'.c.codec.outBuf = X.c.codec.outBuf ++ encodeAll l := List.append_cancel_left h2
  refine ⟨⟨B, hr, ?_⟩, ?_⟩
  · rw [hq, List.drop_append_of_le_length hn, encodeAll_append, ← hB]
    simp only [List.append_assoc]
    rw [h3]
  · rw [hq, List.take_append_of_le_length hn]; exact hc

theorem closeReceived_strel {s s' : WsState} (h : StRel s s') (hnt : s' ≠ .terminated) :
    s'.closeReceived = s.closeReceived := by
  rcases h with h | h | ⟨h1, h2⟩
  · rw [h]
  · exact absurd h hnt
  · rw [h1, h2]; rfl

/-- the reader made a call that did not touch its read side -/
theorem Dir.reader_same {X Y Y' : World} {P : Bytes} {n : Nat} (h : Dir X Y P n)
    (hh : Y'.c.codec.header = Y.c.codec.header) (hi : Y'.c.codec.inBuf = Y.c.codec.inBuf)
    (hs : StRel Y.c.state Y'.c.state) (hnt : Y'.c.state ≠ .terminated) : Dir X Y' P n := by
  obtain ⟨⟨B, hr, hB⟩, hc⟩ := h
  exact ⟨⟨B, Rep_congr hh hi hr, hB⟩, by rw [closeReceived_strel hs hnt]; exact hc⟩

/-! ### the acting endpoint -/

/-- the transport the scheduler hands to the acting endpoint -/
def tfor (A : World) (Pin : Bytes) (oD : Bool) (a : Action) : Transport :=
  { A.t with
    rd := if (Pin.take a.deliver).isEmpty then [] else [.data (Pin.take a.deliver)]
    rdDef := if oD ∧ Pin.isEmpty then .eof else .err .wouldBlock
    wr := a.wr, fl := a.fl, wrDef := a.wrDef, flDef := a.flDef }

/-- the acting endpoint with that transport -/
def actIn (A : World) (Pin : Bytes) (oD : Bool) (a : Action) : World :=
  { A with t := tfor A Pin oD a }

/-- the call -/
def actW (A : World) (Pin : Bytes) (oD : Bool) (a : Action) : World × Out :=
  (actIn A Pin oD a).step a.op

def actConsumed (A : World) (Pin : Bytes) (oD : Bool) (a : Action) : Nat :=
  if (tfor A Pin oD a).rd.isEmpty then 0
  else if (actW A Pin oD a).1.t.rd.isEmpty then (Pin.take a.deliver).length else 0

def actSent (A : World) (Pin : Bytes) (oD : Bool) (a : Action) : Bytes :=
  (actW A Pin oD a).1.t.accepted.drop A.t.accepted.length

theorem step_c (p : Pair) (a : Action) (h : a.who = .c) :
    p.step a =
      ({ p with c := (actW p.c p.s2c p.sDropped a).1,
                s2c := p.s2c.drop (actConsumed p.c p.s2c p.sDropped a),
                c2s := if p.sDropped then p.c2s else p.c2s ++ actSent p.c p.s2c p.sDropped a,
                cDropped := p.cDropped || (actW p.c p.s2c p.sDropped a).2.isConnectionClosed },
       (actW p.c p.s2c p.sDropped a).2) := by
  obtain ⟨who, op, deliver, wr, fl, wrDef, flDef⟩ := a
  dsimp only at h
  subst h
  rfl

theorem step_s (p : Pair) (a : Action) (h : a.who = .s) :
    p.step a =
      ({ p with s := (actW p.s p.c2s p.cDropped a).1,
                c2s := p.c2s.drop (actConsumed p.s p.c2s p.cDropped a),
                s2c := if p.cDropped then p.s2c else p.s2c ++ actSent p.s p.c2s p.cDropped a,
                sDropped := p.sDropped || (actW p.s p.c2s p.cDropped a).2.isConnectionClosed },
       (actW p.s p.c2s p.cDropped a).2) := by
  obtain ⟨who, op, deliver, wr, fl, wrDef, flDef⟩ := a
  dsimp only at h
  subst h
  rfl

/-! ### the scheduler's transport -/

theorem tfor_oneChunk (A : World) (Pin : Bytes) (oD : Bool) (a : Action) :
    OneChunk (tfor A Pin oD a).rd := by
  show OneChunk (if (Pin.take a.deliver).isEmpty then [] else [.data (Pin.take a.deliver)])
  by_cases h : (Pin.take a.deliver).isEmpty = true
  · rw [if_pos h]; exact Or.inl rfl
  · rw [if_neg h]
    exact Or.inr ⟨_, fun hn => h (by rw [hn]; rfl), rfl⟩

theorem tfor_dataOf (A : World) (Pin : Bytes) (oD : Bool) (a : Action) :
    dataOf (tfor A Pin oD a).rd = Pin.take a.deliver := by
  show dataOf (if (Pin.take a.deliver).isEmpty then [] else [.data (Pin.take a.deliver)]) = _
  by_cases h : (Pin.take a.deliver).isEmpty = true
  · rw [if_pos h, List.isEmpty_iff.mp h]; rfl
  · rw [if_neg h]; simp only [dataOf, List.append_nil]

theorem tfor_rdDef (A : World) (Pin : Bytes) (oD : Bool) (a : Action) :
    ((tfor A Pin oD a).rdDef = .err .wouldBlock) ∨
    ((tfor A Pin oD a).rdDef = .eof ∧ (tfor A Pin oD a).rd = [] ∧ oD = true ∧ Pin = []) := by
  show ((if oD ∧ Pin.isEmpty then RdEv.eof else .err .wouldBlock) = _) ∨
    ((if oD ∧ Pin.isEmpty then RdEv.eof else .err .wouldBlock) = _ ∧
      (if (Pin.take a.deliver).isEmpty then [] else [RdEv.data (Pin.take a.deliver)]) = [] ∧ _)
  by_cases h : (oD = true ∧ Pin.isEmpty = true)
  · right
    have hP : Pin = [] := List.isEmpty_iff.mp h.2
    rw [if_pos h, hP]
    exact ⟨rfl, by simp, h.1, rfl⟩
  · left; rw [if_neg h]

theorem tfor_good (A : World) (Pin : Bytes) (oD : Bool) (a : Action) (hb : a.Benign) :
    GoodT (tfor A Pin oD a) := by
  obtain ⟨_, h2, _, h4, _⟩ := hb
  refine ⟨(tfor_oneChunk A Pin oD a).benign, ?_, h2, h4⟩
  rcases tfor_rdDef A Pin oD a with h | ⟨h, _⟩
  · exact Or.inr h
  · exact Or.inl h

/-- what is left in the inbound pipe, from what is left of the read script -/
theorem pin_after (A : World) (Pin : Bytes) (oD : Bool) (a : Action)
    (hsuf : (actW A Pin oD a).1.t.rd <:+ (tfor A Pin oD a).rd) :
    Pin.drop (actConsumed A Pin oD a) =
      dataOf (actW A Pin oD a).1.t.rd ++ Pin.drop a.deliver := by
  unfold actConsumed
  have hsplit : Pin.take a.deliver ++ Pin.drop a.deliver = Pin := List.take_append_drop _ _
  rcases tfor_oneChunk A Pin oD a with h0 | ⟨ch, hne, h0⟩
  · -- nothing offered
    rw [h0] at hsuf
    have h1 : (actW A Pin oD a).1.t.rd = [] := List.suffix_nil.mp hsuf
    have hd : dataOf (tfor A Pin oD a).rd = Pin.take a.deliver := tfor_dataOf A Pin oD a
    rw [h0] at hd
    have hd' : Pin.take a.deliver = [] := hd.symm
    rw [h0, h1]
    simp only [List.isEmpty_nil, if_true, List.drop_zero, dataOf, List.nil_append]
    rw [hd', List.nil_append] at hsplit
    exact hsplit.symm
  · have hd : dataOf (tfor A Pin oD a).rd = Pin.take a.deliver := tfor_dataOf A Pin oD a
    rw [h0] at hd
    simp only [dataOf, List.append_nil] at hd
    rw [h0] at hsuf ⊢
    simp only [List.isEmpty_cons, Bool.false_eq_true, if_false]
    by_cases h1 : (actW A Pin oD a).1.t.rd.isEmpty = true
    · rw [if_pos h1, List.isEmpty_iff.mp h1, drop_take_length]
      rfl
    · rw [if_neg h1]
      have h2 : (actW A Pin oD a).1.t.rd = [.data ch] := by
        obtain ⟨pre, hpre⟩ := hsuf
        cases pre with
        | nil => exact hpre
        | cons x xs =>
          exfalso
          have hl := congrArg List.length hpre
          simp only [List.length_append, List.length_cons, List.length_nil] at hl
          have : (actW A Pin oD a).1.t.rd = [] := List.length_eq_zero_iff.mp (by omega)
          exact h1 (by rw [this]; rfl)
      rw [h2]
      simp only [dataOf, List.append_nil, List.drop_zero]
      rw [hd]; exact hsplit.symm

end WsProofs.Pair
