import WsModel.Handshake.Run
/-! The model of `http::HeaderMap` (`HMap`): `get`, swap-`remove` and `ofList` on maps whose keys are
pairwise distinct (which `ofList` and `remove` maintain). -/
namespace WsProofs.HsL
open WsModel WsModel.Hs WsModel.Gen

/-- the entries of a header map have pairwise distinct names (an invariant of `http::HeaderMap`) -/
def KeysNodup (m : HMap) : Prop := (m.map Prod.fst).Nodup

theorem find?_key_iff (key : Bytes) : ∀ (m : HMap), KeysNodup m → ∀ e : Bytes × List Bytes,
    (m.find? (fun (k, _) => k == key) = some e ↔ e ∈ m ∧ e.1 = key)
  | [], _, e => by simp
  | (k, vs) :: rest, hn, e => by
    have hn' : k ∉ rest.map Prod.fst ∧ KeysNodup rest := by
      simpa [KeysNodup, List.nodup_cons] using hn
    by_cases hk : k = key
    · subst hk
      simp only [List.find?_cons, beq_self_eq_true, Option.some.injEq, List.mem_cons]
      constructor
      · intro h; subst h; exact ⟨.inl rfl, rfl⟩
      · intro ⟨h1, h2⟩
        cases h1 with
        | inl h => exact h.symm
        | inr h =>
          exfalso; apply hn'.1
          rw [← h2]; exact List.mem_map_of_mem h
    · have : (k == key) = false := by simpa using hk
      simp only [List.find?_cons, this, List.mem_cons]
      rw [find?_key_iff key rest hn'.2 e]
      constructor
      · intro ⟨h1, h2⟩; exact ⟨.inr h1, h2⟩
      · intro ⟨h1, h2⟩
        cases h1 with
        | inl h => subst h; exact absurd h2 hk
        | inr h => exact ⟨h, h2⟩

theorem get_some_iff {m : HMap} (hn : KeysNodup m) (name v : Bytes) :
    m.get name = some v ↔ ∃ vs, (lowerAll name, v :: vs) ∈ m := by
  unfold HMap.get
  cases hf : m.find? (fun (k, _) => k == lowerAll name) with
  | none =>
    simp only [reduceCtorEq, false_iff]
    intro ⟨vs, hm⟩
    have := (find?_key_iff (lowerAll name) m hn (lowerAll name, v :: vs)).2 ⟨hm, rfl⟩
    rw [hf] at this; cases this
  | some e =>
    obtain ⟨he1, he2⟩ := (find?_key_iff (lowerAll name) m hn e).1 hf
    obtain ⟨k, vs⟩ := e
    simp only at he2; subst he2
    cases vs with
    | nil =>
      simp only [reduceCtorEq, false_iff]
      intro ⟨vs, hm⟩
      have := (find?_key_iff (lowerAll name) m hn (lowerAll name, v :: vs)).2 ⟨hm, rfl⟩
      rw [hf] at this; cases this
    | cons w ws =>
      simp only [Option.some.injEq]
      constructor
      · intro h; subst h; exact ⟨ws, he1⟩
      · intro ⟨vs, hm⟩
        have := (find?_key_iff (lowerAll name) m hn (lowerAll name, v :: vs)).2 ⟨hm, rfl⟩
        rw [hf] at this; cases this; rfl

theorem option_ext {α} {a b : Option α} (h : ∀ v, a = some v ↔ b = some v) : a = b := by
  cases a with
  | none => cases b with
    | none => rfl
    | some y => exact ((h y).2 rfl).symm ▸ rfl
  | some x => exact ((h x).1 rfl).symm

/-- where `findIdx?` finds its element -/
theorem findIdx?_split {α} (p : α → Bool) : ∀ m : List α,
    (m.findIdx? p = none ∧ ∀ e ∈ m, p e = false) ∨
    ∃ pre x post, m = pre ++ x :: post ∧ (∀ e ∈ pre, p e = false) ∧ p x = true ∧ m.findIdx? p = some pre.length
  | [] => .inl ⟨rfl, by simp⟩
  | a :: rest => by
    by_cases ha : p a = true
    · exact .inr ⟨[], a, rest, rfl, by simp, ha, by simp [List.findIdx?_cons, ha]⟩
    · have ha' : p a = false := by simpa using ha
      cases findIdx?_split p rest with
      | inl h => exact .inl ⟨by simp [List.findIdx?_cons, ha', h.1], by
          intro e he; cases List.mem_cons.1 he with
          | inl h1 => subst h1; exact ha'
          | inr h1 => exact h.2 e h1⟩
      | inr h =>
        obtain ⟨pre, x, post, e1, e2, e3, e4⟩ := h
        refine .inr ⟨a :: pre, x, post, by rw [e1]; rfl, ?_, e3, by simp [List.findIdx?_cons, ha', e4]⟩
        intro e he; cases List.mem_cons.1 he with
        | inl h1 => subst h1; exact ha'
        | inr h1 => exact e2 e h1

/-- `remove` either finds nothing, or removes the (first) entry of that name, permuting the rest -/
theorem remove_spec (m : HMap) (name : Bytes) :
    ((∀ e ∈ m, e.1 ≠ lowerAll name) ∧ m.remove name = m) ∨
    ∃ pre x post, m = pre ++ x :: post ∧ x.1 = lowerAll name ∧ (m.remove name).Perm (pre ++ post) := by
  unfold HMap.remove
  cases findIdx?_split (fun (e : Bytes × List Bytes) => match e with | (k, _) => k == lowerAll name) m with
  | inl h =>
    refine .inl ⟨?_, by rw [h.1]⟩
    intro e he; have := h.2 e he
    obtain ⟨k, vs⟩ := e
    simpa using this
  | inr h =>
    obtain ⟨pre, x, post, e1, _, e3, e4⟩ := h
    refine .inr ⟨pre, x, post, e1, ?_, ?_⟩
    · obtain ⟨k, vs⟩ := x; simpa using e3
    · rw [e4]; simp only
      subst e1
      by_cases hp : post = []
      · subst hp; simp
      · have hl : ¬ (pre.length + 1 = (pre ++ x :: post).length) := by
          have : post.length ≠ 0 := by simpa using hp
          simp; omega
        simp only [hl, if_false]
        have hpost := List.dropLast_concat_getLast hp
        generalize post.getLast hp = last at hpost
        generalize post.dropLast = mid at hpost
        subst hpost
        have hlast : (pre ++ x :: (mid ++ [last])).getLast? = some last := by
          rw [show pre ++ x :: (mid ++ [last]) = (pre ++ x :: mid) ++ [last] by simp]
          exact List.getLast?_concat
        rw [hlast]
        simp only
        have h1 : List.take pre.length (pre ++ x :: (mid ++ [last])) = pre := by simp
        have h2 : List.drop (pre.length + 1) (pre ++ x :: (mid ++ [last])) = mid ++ [last] := by
          rw [show pre ++ x :: (mid ++ [last]) = (pre ++ [x]) ++ (mid ++ [last]) by simp]
          rw [List.drop_left' (by simp)]
        rw [h1, h2]
        have h3 : (pre ++ [last] ++ (mid ++ [last])) = (pre ++ [last] ++ mid) ++ [last] := by simp
        rw [h3, List.take_left' (by simp)]
        rw [List.append_assoc]
        exact List.Perm.append_left pre List.perm_append_comm


theorem keysNodup_remove {m : HMap} (hn : KeysNodup m) (name : Bytes) : KeysNodup (m.remove name) := by
  cases remove_spec m name with
  | inl h => rw [h.2]; exact hn
  | inr h =>
    obtain ⟨pre, x, post, e1, _, hp⟩ := h
    unfold KeysNodup at hn ⊢
    apply (hp.map Prod.fst).nodup_iff.2
    subst e1
    refine List.Nodup.sublist ?_ hn
    simp only [List.map_append, List.map_cons]
    exact List.Sublist.append_left (List.sublist_cons_self _ _) _

theorem mem_remove_iff {m : HMap} (hn : KeysNodup m) (name : Bytes) (e : Bytes × List Bytes) :
    e ∈ m.remove name ↔ e ∈ m ∧ e.1 ≠ lowerAll name := by
  cases remove_spec m name with
  | inl h => rw [h.2]; exact ⟨fun he => ⟨he, h.1 e he⟩, fun he => he.1⟩
  | inr h =>
    obtain ⟨pre, x, post, e1, e2, hp⟩ := h
    rw [hp.mem_iff]
    subst e1
    unfold KeysNodup at hn
    simp only [List.map_append, List.map_cons, List.nodup_append, List.nodup_cons, List.mem_cons,
      List.mem_map, ne_eq, forall_exists_index, and_imp] at hn
    obtain ⟨_, ⟨hx, _⟩, hcross⟩ := hn
    simp only [List.mem_append, List.mem_cons]
    constructor
    · intro he
      cases he with
      | inl he =>
        refine ⟨.inl he, ?_⟩
        intro hk
        exact hcross e.1 e he rfl x.1 (.inl rfl) (by rw [hk, e2])
      | inr he =>
        refine ⟨.inr (.inr he), ?_⟩
        intro hk
        apply hx; exact ⟨e, he, by rw [hk, e2]⟩
    · intro ⟨he, hk⟩
      cases he with
      | inl he => exact .inl he
      | inr he =>
        cases he with
        | inl he => subst he; exact absurd e2 hk
        | inr he => exact .inr he

/-- removing one name does not disturb the others -/
theorem get_remove_ne {m : HMap} (hn : KeysNodup m) (a b : Bytes) (hab : lowerAll b ≠ lowerAll a) :
    (m.remove a).get b = m.get b := by
  apply option_ext; intro v
  rw [get_some_iff (keysNodup_remove hn a), get_some_iff hn]
  constructor
  · intro ⟨vs, h⟩; exact ⟨vs, ((mem_remove_iff hn a _).1 h).1⟩
  · intro ⟨vs, h⟩; exact ⟨vs, (mem_remove_iff hn a _).2 ⟨h, hab⟩⟩

/-- a removed name is gone -/
theorem get_remove_self {m : HMap} (hn : KeysNodup m) (a b : Bytes) (hab : lowerAll b = lowerAll a) :
    (m.remove a).get b = none := by
  cases h : (m.remove a).get b with
  | none => rfl
  | some v =>
    obtain ⟨vs, hm⟩ := (get_some_iff (keysNodup_remove hn a) b v).1 h
    exact absurd hab ((mem_remove_iff hn a _).1 hm).2

/-- … and stays gone under further removals -/
theorem get_remove_none {m : HMap} (hn : KeysNodup m) (a b : Bytes) (h : m.get b = none) :
    (m.remove a).get b = none := by
  cases h' : (m.remove a).get b with
  | none => rfl
  | some v =>
    obtain ⟨vs, hm⟩ := (get_some_iff (keysNodup_remove hn a) b v).1 h'
    have := (get_some_iff hn b v).2 ⟨vs, ((mem_remove_iff hn a _).1 hm).1⟩
    rw [h] at this; cases this

/-! ### `ofList` -/

theorem keys_append (n v : Bytes) : ∀ m : HMap,
    (m.append n v).map Prod.fst = m.map Prod.fst ∨
    (lowerAll n ∉ m.map Prod.fst ∧ (m.append n v).map Prod.fst = m.map Prod.fst ++ [lowerAll n])
  | [] => .inr ⟨by simp, rfl⟩
  | (k, vs) :: rest => by
    by_cases hk : k = lowerAll n
    · left; simp [HMap.append, hk]
    · have hk' : (k == lowerAll n) = false := by simpa using hk
      simp only [HMap.append, hk', Bool.false_eq_true, if_false, List.map_cons]
      cases keys_append n v rest with
      | inl h => left; rw [h]
      | inr h =>
        right; refine ⟨?_, by rw [h.2]; rfl⟩
        simp only [List.mem_cons, not_or]
        exact ⟨fun e => hk e.symm, h.1⟩

theorem keysNodup_append {m : HMap} (hn : KeysNodup m) (n v : Bytes) : KeysNodup (m.append n v) := by
  unfold KeysNodup at hn ⊢
  cases keys_append n v m with
  | inl h => rw [h]; exact hn
  | inr h =>
    rw [h.2, List.nodup_append]
    refine ⟨hn, by simp, ?_⟩
    intro a ha b hb
    simp only [List.mem_singleton] at hb
    subst hb; intro e; subst e; exact h.1 ha

theorem keysNodup_foldl (l : List (Bytes × Bytes)) : ∀ m : HMap, KeysNodup m →
    KeysNodup (l.foldl (fun m (n, v) => m.append n v) m) := by
  induction l with
  | nil => intro m hm; exact hm
  | cons x rest ih => intro m hm; exact ih _ (keysNodup_append hm x.1 x.2)

theorem keysNodup_ofList (l : List (Bytes × Bytes)) : KeysNodup (HMap.ofList l) :=
  keysNodup_foldl l [] (by simp [KeysNodup])

/-- the first header given keeps the first place under its name -/
theorem head_foldl (k v : Bytes) (l : List (Bytes × Bytes)) : ∀ (vs : List Bytes) (rest : HMap),
    ∃ vs' rest', l.foldl (fun (m : HMap) (n, v) => m.append n v) ((k, v :: vs) :: rest) = (k, v :: vs') :: rest' := by
  induction l with
  | nil => intro vs rest; exact ⟨vs, rest, rfl⟩
  | cons x xs ih =>
    intro vs rest
    simp only [List.foldl_cons, HMap.append]
    by_cases hk : (k == lowerAll x.1) = true
    · simp only [hk, if_true]; exact ih _ _
    · simp only [hk, Bool.false_eq_true, if_false]; exact ih _ _

theorem get_ofList_head (n v : Bytes) (l : List (Bytes × Bytes)) : (HMap.ofList ((n, v) :: l)).get n = some v := by
  obtain ⟨vs', rest', h⟩ := head_foldl (lowerAll n) v l [] []
  unfold HMap.ofList
  simp only [List.foldl_cons, HMap.append]
  rw [h]
  simp [HMap.get]




/-- the host is what follows the last `@` -/
theorem afterAt_last (auth : Bytes) :
    ∃ cred, auth = cred ++ afterAt true auth ∧ ¬ (64 : UInt8) ∈ afterAt true auth ∧
      (cred = [] ∨ cred.getLast? = some 64) := by
  unfold afterAt
  simp only [if_true]
  generalize hidx : ((List.range auth.length).filter fun i => auth[i]? == some 64) = idxs
  cases hl : idxs.getLast? with
  | none =>
    refine ⟨[], rfl, ?_, .inl rfl⟩
    have : idxs = [] := by simpa using hl
    subst this
    intro hm
    obtain ⟨i, hi, he⟩ := List.mem_iff_getElem.1 hm
    have : i ∈ (List.range auth.length).filter fun i => auth[i]? == some 64 := by
      simp [List.mem_filter, hi, he]
    rw [hidx] at this; cases this
  | some i =>
    have hi : i ∈ idxs := List.mem_of_getLast? hl
    rw [← hidx] at hi
    simp only [List.mem_filter, List.mem_range, beq_iff_eq] at hi
    obtain ⟨hi1, hi2⟩ := hi
    refine ⟨auth.take (i + 1), (List.take_append_drop _ _).symm, ?_, .inr ?_⟩
    · intro hm
      obtain ⟨j, hj, he⟩ := List.mem_iff_getElem.1 hm
      simp only [List.length_drop] at hj
      rw [List.getElem_drop] at he
      have hj' : i + 1 + j ∈ idxs := by
        rw [← hidx]; simp only [List.mem_filter, List.mem_range, beq_iff_eq]
        exact ⟨by omega, by rw [List.getElem?_eq_getElem (by omega), he]⟩
      have hpw : idxs.Pairwise (· < ·) := by
        rw [← hidx]; exact List.Pairwise.filter _ List.pairwise_lt_range
      obtain ⟨init, hsplit⟩ := List.getLast?_eq_some_iff.1 hl
      rw [hsplit] at hj' hpw
      rw [List.pairwise_append] at hpw
      cases List.mem_append.1 hj' with
      | inl h => have := hpw.2.2 _ h i (by simp); omega
      | inr h => simp at h; omega
    · rw [List.getLast?_eq_getElem?]
      have hlen : (auth.take (i + 1)).length - 1 = i := by simp; omega
      rw [hlen, List.getElem?_take_of_lt (by omega)]
      exact hi2
end WsProofs.HsL
