import WsProofs.Lemmas.ReadMsg

/-! Layer 2c: one `read_message_frame` / one `read` of the endpoint against the specification. -/
namespace WsProofs.Read
open WsModel WsModel.Gen WsModel.Spec

/-! ## invariants -/

/-- what holds of the endpoint throughout reading over a benign, all-accepting transport -/
structure Static (role : Role) (cfg : Config) (w : World) : Prop where
  role : w.c.role = role
  cfg : w.c.cfg = cfg
  maxOut : 200 ≤ w.c.codec.maxOut
  outBuf : w.c.codec.outBuf = []
  add : ∀ f, w.c.additional = some f → SmallFrame f
  ben : ∀ e ∈ w.t.rd, e.benign = true
  rdDef : w.t.rdDef = .err .wouldBlock
  acc : w.t.acceptsAll

/-- the bytes not yet turned into frames: buffered part, then the rest of the read script -/
def StreamRep (w : World) (S : Bytes) : Prop := ∃ B, Rep w.c.codec B ∧ B ++ dataOf w.t.rd = S

structure Inv (role : Role) (cfg : Config) (w : World) (S : Bytes) (frag : Option Partial) :
    Prop where
  st : Static role cfg w
  state : w.c.state = .active
  rep : StreamRep w S
  tight : Tight w.c.codec
  frag : FragRel w.c.incomplete frag

/-- after the peer's Close has been delivered -/
structure ClosedInv (role : Role) (cfg : Config) (w : World) : Prop where
  st : Static role cfg w
  state : w.c.state = .closedByPeer
  rep : ∃ B, Rep w.c.codec B

/-- bytes left to read -/
def measN (w : World) : Nat := w.c.codec.inBuf.length + rdBytes w.t.rd
/-- bytes and read events left -/
def measM (w : World) : Nat := measN w + w.t.rd.length

theorem Static.of_inSame {role : Role} {cfg : Config} {w w' : World} (hs : Static role cfg w)
    (h : InSame w w') (hadd : w'.c.additional = none) (hout : w'.c.codec.outBuf = []) :
    Static role cfg w' :=
  ⟨h.role.trans hs.role, h.cfg.trans hs.cfg, (by rw [h.maxOut]; exact hs.maxOut), hout,
    (fun f hf => by rw [hadd] at hf; cases hf),
    (by rw [h.t.rd]; exact hs.ben), h.t.rdDef.trans hs.rdDef, h.t.accepts hs.acc⟩

theorem Static.of_frame {role : Role} {cfg : Config} {w : World} {c' : Codec} {t' : Transport}
    (hs : Static role cfg w) (hts : TSame w.t t') (hcs : CSame w.c.codec c') :
    Static role cfg (w.setCodec c' t') :=
  ⟨hs.role, hs.cfg, (by show 200 ≤ c'.maxOut; rw [hcs.maxOut]; exact hs.maxOut),
    hcs.outBuf.trans hs.outBuf, hs.add,
    fun e he => hs.ben e (hts.rd.subset he), hts.rdDef.trans hs.rdDef,
    ⟨hts.wr.trans hs.acc.1, hts.fl.trans hs.acc.2.1, hts.wrDef.trans hs.acc.2.2.1,
      hts.flDef.trans hs.acc.2.2.2⟩⟩

theorem Static.of_msgSame {role : Role} {cfg : Config} {w w' : World} (hs : Static role cfg w)
    (h : MsgSame w w') : Static role cfg w' :=
  ⟨h.role.trans hs.role, h.cfg.trans hs.cfg, (by rw [h.codec]; exact hs.maxOut),
    (by rw [h.codec]; exact hs.outBuf), h.add hs.add, (by rw [h.t]; exact hs.ben),
    (by rw [h.t]; exact hs.rdDef), (by rw [h.t]; exact hs.acc)⟩

/-! ## the specification's verdict as a value -/

def specOf (role : Role) (au : Bool) (lim : Limits) (rest : Bytes) :
    Spec.FrameOut → List Message × End
  | .fail c => ([], .error c)
  | .close m => ([m], .closed)
  | .deliver m frag' => consMsg m (dec role au lim frag' rest)
  | .continue_ frag' => dec role au lim frag' rest

theorem afterFrame_eq (role : Role) (au : Bool) (lim : Limits) (frag : Option Partial)
    (h : Header) (p rest : Bytes) :
    afterFrame role au lim frag h p rest =
      if role = .server ∧ h.mask.isNone ∧ !au then ([], .error .protocol)
      else if (h.rsv1 || h.rsv2 || h.rsv3) = true then ([], .error .protocol)
      else if role = .client ∧ h.mask.isSome then ([], .error .protocol)
      else specOf role au lim rest (frameMeaning lim frag h.fin (opCodeToU8 h.opcode)
        (if role = .server then unmaskPayload h.mask p else p)) := by
  unfold afterFrame
  cases frameMeaning lim frag h.fin (opCodeToU8 h.opcode)
    (if role = .server then unmaskPayload h.mask p else p) <;> rfl

/-- the frame handed to `onFrame` and the specification's verdict on the raw frame -/
theorem frame_verdict (role : Role) (au : Bool) (lim : Limits) (frag : Option Partial) (K : Nat)
    (w : World) (h : Header) (p rest : Bytes)
    (hrole : w.c.role = role) (hst : w.c.state = .active)
    (hop : isReservedOpcode h.opcode = false) (hfr : FragRel w.c.incomplete frag)
    (hlim : LimOK lim.maxMsg w.c.cfg.maxMsg K) (hK : accLen frag + p.length ≤ K)
    (hlen : p.length < 2 ^ 64) :
    ∃ fo, afterFrame role au lim frag h p rest = specOf role au lim rest fo ∧
      accBound (accLen frag + p.length) fo ∧
      StepRel w (andThen (w.checkConnectionReset (frameRes h p (role == .server) au))
        (fun w of => match of with
          | some frame => w.onFrame frame
          | none => w.onEof)) fo := by
  rw [afterFrame_eq]
  cases role with
  | server =>
    have hb : (Role.server == Role.server) = true := rfl
    rw [hb]
    unfold frameRes
    simp only [if_true, true_and, Bool.not_eq_true', reduceCtorEq, false_and,
      if_false]
    cases hm : h.mask with
    | none =>
      cases au with
      | false =>
        refine ⟨.fail .protocol, by simp [specOf], trivial, ?_⟩
        exact ⟨_, rfl, rfl⟩
      | true =>
        simp only [Option.isNone_none, Bool.true_eq_false, and_false, if_false, if_true]
        dsimp only [World.checkConnectionReset, andThen]
        by_cases hr : (h.rsv1 || h.rsv2 || h.rsv3) = true
        · refine ⟨.fail .protocol, by rw [if_pos hr]; rfl, trivial, ?_⟩
          unfold World.onFrame
          rw [hst]
          simp only [WsState.canRead, Bool.not_true, Bool.false_eq_true, if_false]
          have : h.rsv1 = true ∨ h.rsv2 = true ∨ h.rsv3 = true := by
            simp only [Bool.or_eq_true] at hr
            rcases hr with (hr | hr) | hr
            · exact Or.inl hr
            · exact Or.inr (Or.inl hr)
            · exact Or.inr (Or.inr hr)
          rw [if_pos this]
          exact ⟨_, rfl, rfl⟩
        · rw [if_neg hr]
          refine ⟨_, rfl, ?_, ?_⟩
          · rw [unmask_none]; exact frameMeaning_acc _ _ _ _ _
          have := onFrame_spec w ⟨h, p⟩ lim frag K hst (by simpa using hr)
            (fun hc => by rw [hrole] at hc; cases hc) hop hfr hlim hK hlen
          rw [unmask_none]
          exact this
    | some m =>
      simp only [Option.isNone_some, Bool.false_eq_true, false_and, if_false]
      dsimp only [World.checkConnectionReset, andThen]
      by_cases hr : (h.rsv1 || h.rsv2 || h.rsv3) = true
      · refine ⟨.fail .protocol, by rw [if_pos hr]; rfl, trivial, ?_⟩
        unfold World.onFrame
        rw [hst]
        simp only [WsState.canRead, Bool.not_true, Bool.false_eq_true, if_false]
        have : h.rsv1 = true ∨ h.rsv2 = true ∨ h.rsv3 = true := by
          simp only [Bool.or_eq_true] at hr
          rcases hr with (hr | hr) | hr
          · exact Or.inl hr
          · exact Or.inr (Or.inl hr)
          · exact Or.inr (Or.inr hr)
        rw [if_pos this]
        exact ⟨_, rfl, rfl⟩
      · rw [if_neg hr]
        refine ⟨_, rfl, ?_, ?_⟩
        · rw [unmask_some, ← C18.applyMask_length m p]; exact frameMeaning_acc _ _ _ _ _
        have := onFrame_spec w ⟨{ h with mask := none }, applyMask m p⟩ lim frag K hst
          (by simpa using hr) (fun _ => rfl) hop hfr hlim
          (by rw [show (Frame.mk { h with mask := none } (applyMask m p)).payload.length = p.length
                from C18.applyMask_length m p]; exact hK)
          (by rw [show (Frame.mk { h with mask := none } (applyMask m p)).payload.length = p.length
                from C18.applyMask_length m p]; exact hlen)
        rw [unmask_some]
        exact this
  | client =>
    have hb : (Role.client == Role.server) = false := rfl
    rw [hb]
    unfold frameRes
    simp only [Bool.false_eq_true, if_false, reduceCtorEq, false_and, true_and]
    dsimp only [World.checkConnectionReset, andThen]
    by_cases hr : (h.rsv1 || h.rsv2 || h.rsv3) = true
    · refine ⟨.fail .protocol, by rw [if_pos hr]; rfl, trivial, ?_⟩
      unfold World.onFrame
      rw [hst]
      simp only [WsState.canRead, Bool.not_true, Bool.false_eq_true, if_false]
      have : h.rsv1 = true ∨ h.rsv2 = true ∨ h.rsv3 = true := by
        simp only [Bool.or_eq_true] at hr
        rcases hr with (hr | hr) | hr
        · exact Or.inl hr
        · exact Or.inr (Or.inl hr)
        · exact Or.inr (Or.inr hr)
      rw [if_pos this]
      exact ⟨_, rfl, rfl⟩
    · rw [if_neg hr]
      by_cases hm : h.mask.isSome = true
      · refine ⟨.fail .protocol, by rw [if_pos hm]; rfl, trivial, ?_⟩
        unfold World.onFrame
        rw [hst]
        simp only [WsState.canRead, Bool.not_true, Bool.false_eq_true, if_false]
        have hnr : ¬ (h.rsv1 = true ∨ h.rsv2 = true ∨ h.rsv3 = true) := by
          intro hx
          apply hr
          simp only [Bool.or_eq_true]
          rcases hx with hx | hx | hx
          · exact Or.inl (Or.inl hx)
          · exact Or.inl (Or.inr hx)
          · exact Or.inr hx
        rw [if_neg hnr, if_pos ⟨hrole, hm⟩]
        exact ⟨_, rfl, rfl⟩
      · rw [if_neg hm]
        refine ⟨_, rfl, frameMeaning_acc _ _ _ _ _, ?_⟩
        have hmn : h.mask = none := by
          cases hmm : h.mask with
          | none => rfl
          | some m => rw [hmm] at hm; exact absurd rfl hm
        exact onFrame_spec w ⟨h, p⟩ lim frag K hst (by simpa using hr) (fun _ => hmn) hop hfr
          hlim hK hlen

/-! ## one `read_message_frame` -/

/-- what one `read_message_frame` does, relative to the specification on the remaining stream -/
def RmfOut (role : Role) (cfg : Config) (lim : Limits) (K : Nat) (w : World) (S : Bytes)
    (frag : Option Partial) (res : World × Res (Option Message)) : Prop :=
  let D := dec role cfg.acceptUnmasked lim
  (∃ m S' frag', res.2 = .ok (some m) ∧ D frag S = consMsg m (D frag' S') ∧
      Inv role cfg res.1 S' frag' ∧ measN res.1 < measN w ∧
      res.1.t.rd.length ≤ w.t.rd.length ∧ accLen frag' + S'.length ≤ K) ∨
  (∃ m, res.2 = .ok (some m) ∧ D frag S = ([m], .closed) ∧ ClosedInv role cfg res.1 ∧
      measN res.1 < measN w ∧ res.1.t.rd.length ≤ w.t.rd.length) ∨
  (∃ S' frag', res.2 = .ok none ∧ D frag S = D frag' S' ∧
      Inv role cfg res.1 S' frag' ∧ measN res.1 < measN w ∧
      res.1.t.rd.length ≤ w.t.rd.length ∧ accLen frag' + S'.length ≤ K) ∨
  (res.2 = .err (.io .wouldBlock) ∧ Inv role cfg res.1 S frag ∧ measN res.1 ≤ measN w ∧
      res.1.t.rd.length ≤ w.t.rd.length ∧
      (res.1.t.rd = [] → D frag S = ([], .needMore)) ∧
      (res.1.t.rd ≠ [] → res.1.t.rd.length < w.t.rd.length)) ∨
  (∃ e c, res.2 = .err e ∧ errClassOf e = some c ∧ D frag S = ([], .error c))

theorem readMessageFrame_eq (w : World) :
    w.readMessageFrame =
      andThen ((w.setCodec
          (w.c.codec.readFrame w.t w.c.cfg.maxFrame (w.c.role == .server) w.c.cfg.acceptUnmasked).1
          (w.c.codec.readFrame w.t w.c.cfg.maxFrame (w.c.role == .server)
            w.c.cfg.acceptUnmasked).2.1).checkConnectionReset
          (w.c.codec.readFrame w.t w.c.cfg.maxFrame (w.c.role == .server)
            w.c.cfg.acceptUnmasked).2.2)
        (fun w of => match of with
          | some frame => w.onFrame frame
          | none => w.onEof) := rfl

theorem checkReset_err (w : World) {α : Type} (e : Err) (c : ErrClass) (h : errClassOf e = some c) :
    w.checkConnectionReset (α := α) (.err e) = (w, .err e) := by
  cases e with
  | io k => cases h
  | connectionClosed => cases h
  | _ => rfl

theorem suffix_length_le {α : Type} {a b : List α} (h : a <:+ b) : a.length ≤ b.length :=
  h.length_le

theorem rmf_step (role : Role) (cfg : Config) (lim : Limits) (K : Nat) (w : World) (S : Bytes)
    (frag : Option Partial) (hinv : Inv role cfg w S frag) (hmf : lim.maxFrame = cfg.maxFrame)
    (hlim : LimOK lim.maxMsg cfg.maxMsg K) (hK : accLen frag + S.length ≤ K) :
    RmfOut role cfg lim K w S frag w.readMessageFrame := by
  obtain ⟨B, hrep, hS⟩ := hinv.rep
  have hfo := readFrame_spec w.c.cfg.maxFrame (w.c.role == .server) w.c.cfg.acceptUnmasked
    w.c.codec w.t B hinv.st.ben hinv.st.rdDef hrep
  rw [hS] at hfo
  rw [readMessageFrame_eq]
  generalize w.c.codec.readFrame w.t w.c.cfg.maxFrame (w.c.role == .server)
    w.c.cfg.acceptUnmasked = res at hfo ⊢
  obtain ⟨c', t', r⟩ := res
  unfold RdFrameOut at hfo
  dsimp only at hfo ⊢
  obtain ⟨hts, hcs, hlen, hcases⟩ := hfo
  have hcfg := hinv.st.cfg
  have hrole := hinv.st.role
  rw [hcfg, ← hmf] at hcases
  have hst' : Static role cfg (w.setCodec c' t') := hinv.st.of_frame hts hcs
  have hrdlen : t'.rd.length ≤ w.t.rd.length := hts.rd.length_le
  rcases hcases with ⟨h, p, rest, hs, hr, hhd, hrest⟩ | ⟨hr, B', hrep', htight', hS', hs', hrd⟩ |
    ⟨e, hr, hs⟩
  · -- a complete frame
    obtain ⟨hdec, hop, hplen⟩ := dec_frame (role := role) (au := cfg.acceptUnmasked) (frag := frag) hs
    obtain ⟨n, _, _, hn, hdrop⟩ := shot_frame_inv hs
    have hSlen : S.length = n + (p.length + rest.length) := by
      have := congrArg List.length hdrop
      rw [List.length_drop, List.length_append] at this
      omega
    have hmeas : rest.length + 1 ≤ w.c.codec.inBuf.length + (dataOf w.t.rd).length :=
      frame_measure hrep hinv.tight (by rw [hS]; exact hs)
    have hrl : rest.length = c'.inBuf.length + rdBytes t'.rd := by
      rw [← hrest, List.length_append, dataOf_length]
    obtain ⟨fo, hfo1, hfo2, hfo3⟩ := frame_verdict role cfg.acceptUnmasked lim frag K
      (w.setCodec c' t') h p rest hrole hinv.state hop hinv.frag
      (by show LimOK lim.maxMsg w.c.cfg.maxMsg K; rw [hcfg]; exact hlim)
      (by omega) hplen
    rw [hr, hrole]
    generalize andThen ((w.setCodec c' t').checkConnectionReset
      (frameRes h p (role == .server) cfg.acceptUnmasked))
      (fun w of => match of with
        | some frame => w.onFrame frame
        | none => w.onEof) = X at hfo3 ⊢
    have hmX : ∀ (hm : MsgSame (w.setCodec c' t') X.1), measN X.1 < measN w ∧
        X.1.t.rd.length ≤ w.t.rd.length ∧ X.1.c.codec.header = none ∧
        X.1.c.codec.inBuf ++ dataOf X.1.t.rd = rest := by
      intro hm
      refine ⟨?_, ?_, ?_, ?_⟩
      · unfold measN
        rw [hm.codec, hm.t]
        show c'.inBuf.length + rdBytes t'.rd < _
        rw [dataOf_length] at hmeas
        omega
      · rw [hm.t]; exact hrdlen
      · rw [hm.codec]; exact hhd
      · rw [hm.codec, hm.t]; exact hrest
    unfold RmfOut
    dsimp only
    rw [hdec, hfo1]
    cases fo with
    | fail c =>
      obtain ⟨e, he, hc⟩ := hfo3
      exact Or.inr (Or.inr (Or.inr (Or.inr ⟨e, c, he, hc, rfl⟩)))
    | close m =>
      obtain ⟨he, hm, hstate⟩ := hfo3
      obtain ⟨h1, h2, h3, _⟩ := hmX hm
      refine Or.inr (Or.inl ⟨m, he, rfl, ⟨hst'.of_msgSame hm, hstate, ?_⟩, h1, h2⟩)
      exact ⟨_, Rep_none h3⟩
    | deliver m frag' =>
      obtain ⟨he, hm, hstate, hfr'⟩ := hfo3
      obtain ⟨h1, h2, h3, h4⟩ := hmX hm
      refine Or.inl ⟨m, rest, frag', he, rfl, ⟨hst'.of_msgSame hm, hstate, ⟨_, Rep_none h3, h4⟩,
        ?_, hfr'⟩, h1, h2, ?_⟩
      · intro h' len' hh; rw [h3] at hh; cases hh
      · have : accLen frag' ≤ accLen frag + p.length := hfo2
        omega
    | continue_ frag' =>
      obtain ⟨he, hm, hstate, hfr'⟩ := hfo3
      obtain ⟨h1, h2, h3, h4⟩ := hmX hm
      refine Or.inr (Or.inr (Or.inl ⟨rest, frag', he, rfl, ⟨hst'.of_msgSame hm, hstate,
        ⟨_, Rep_none h3, h4⟩, ?_, hfr'⟩, h1, h2, ?_⟩))
      · intro h' len' hh; rw [h3] at hh; cases hh
      · have : accLen frag' ≤ accLen frag + p.length := hfo2
        omega
  · -- the transport blocks
    rw [hr]
    unfold RmfOut
    dsimp only [World.checkConnectionReset, andThen]
    refine Or.inr (Or.inr (Or.inr (Or.inl ⟨rfl, ⟨hst', hinv.state, ⟨B', hrep', hS'⟩, htight',
      hinv.frag⟩, hlen, hrdlen, ?_, ?_⟩)))
    · intro hnil
      have hnil' : t'.rd = [] := hnil
      rw [hnil'] at hS'
      simp only [dataOf, List.append_nil] at hS'
      rw [← hS']
      exact dec_needMore hs'
    · intro hne
      have hne' : t'.rd ≠ [] := hne
      rcases hrd with hrd | hrd
      · exact absurd hrd hne'
      · exact hrd
  · -- an error decided by the header
    obtain ⟨c, hc, hd⟩ := dec_fail (role := role) (au := cfg.acceptUnmasked) (frag := frag) hs
    rw [hr, checkReset_err _ e c hc]
    unfold RmfOut
    exact Or.inr (Or.inr (Or.inr (Or.inr ⟨e, c, rfl, hc, hd⟩)))

/-! ## the top of the `read` loop -/

theorem Rep_congr {c c' : Codec} {B : Bytes} (hh : c'.header = c.header) (hi : c'.inBuf = c.inBuf)
    (h : Rep c B) : Rep c' B := by
  unfold Rep at h ⊢
  rw [hh, hi]; exact h

theorem Tight_congr {c c' : Codec} (hh : c'.header = c.header) (hi : c'.inBuf = c.inBuf)
    (h : Tight c) : Tight c' := by
  intro hd len hc
  rw [hi]; exact h hd len (by rw [← hh]; exact hc)

theorem readPre_inv {role : Role} {cfg : Config} {w : World} {S : Bytes} {frag : Option Partial}
    (hinv : Inv role cfg w S frag) :
    ∃ w1, w.readPre = (w1, .ok ()) ∧ Inv role cfg w1 S frag ∧ measN w1 = measN w ∧
      w1.t.rd = w.t.rd := by
  obtain ⟨w1, h1, hs, hadd, hout⟩ := readPre_ok w hinv.st.acc hinv.st.outBuf hinv.st.maxOut
    hinv.st.add (by rw [hinv.state]; rfl) (Or.inr (by rw [hinv.state]; rfl))
  obtain ⟨B, hrep, hS⟩ := hinv.rep
  refine ⟨w1, h1, ⟨hinv.st.of_inSame hs hadd hout, hs.state.trans hinv.state,
    ⟨B, Rep_congr hs.header hs.inBuf hrep, by rw [hs.t.rd]; exact hS⟩,
    Tight_congr hs.header hs.inBuf hinv.tight, by rw [hs.incomplete]; exact hinv.frag⟩, ?_, hs.t.rd⟩
  unfold measN
  rw [hs.inBuf, hs.t.rd]

theorem readPre_closedInv {role : Role} {cfg : Config} {w : World} (hc : ClosedInv role cfg w)
    (hrole : role = .client) :
    ∃ w1, w.readPre = (w1, .ok ()) ∧ ClosedInv role cfg w1 := by
  obtain ⟨w1, h1, hs, hadd, hout⟩ := readPre_ok w hc.st.acc hc.st.outBuf hc.st.maxOut
    hc.st.add (by rw [hc.state]; rfl) (Or.inl (by rw [hc.st.role, hrole]))
  obtain ⟨B, hrep⟩ := hc.rep
  exact ⟨w1, h1, ⟨hc.st.of_inSame hs hadd hout, hs.state.trans hc.state,
    ⟨B, Rep_congr hs.header hs.inBuf hrep⟩⟩⟩

/-! ## one `read` -/

/-- what one `read` does, relative to the specification on the remaining stream -/
def ReadOut (role : Role) (cfg : Config) (lim : Limits) (K : Nat) (w : World) (S : Bytes)
    (frag : Option Partial) (res : World × Res Message) : Prop :=
  let D := dec role cfg.acceptUnmasked lim
  (∃ m S' frag', res.2 = .ok m ∧ D frag S = consMsg m (D frag' S') ∧
      Inv role cfg res.1 S' frag' ∧ measM res.1 < measM w ∧ accLen frag' + S'.length ≤ K) ∨
  (∃ m, res.2 = .ok m ∧ D frag S = ([m], .closed) ∧ ClosedInv role cfg res.1 ∧
      measM res.1 < measM w) ∨
  (∃ S' frag', res.2 = .err (.io .wouldBlock) ∧ D frag S = D frag' S' ∧
      Inv role cfg res.1 S' frag' ∧ accLen frag' + S'.length ≤ K ∧
      (res.1.t.rd = [] → D frag' S' = ([], .needMore)) ∧
      (res.1.t.rd ≠ [] → measM res.1 < measM w)) ∨
  (∃ e c, res.2 = .err e ∧ errClassOf e = some c ∧ D frag S = ([], .error c))

theorem worldLoop_spec (role : Role) (cfg : Config) (lim : Limits) (K : Nat)
    (hmf : lim.maxFrame = cfg.maxFrame) (hlim : LimOK lim.maxMsg cfg.maxMsg K) :
    ∀ (fuel : Nat) (w : World) (S : Bytes) (frag : Option Partial), Inv role cfg w S frag →
      accLen frag + S.length ≤ K → measN w + 1 ≤ fuel →
      ReadOut role cfg lim K w S frag (World.readLoop fuel w) := by
  intro fuel
  induction fuel with
  | zero => intro w S frag _ _ hf; omega
  | succ fuel ih =>
    intro w S frag hinv hK hf
    obtain ⟨w1, hpre, hinv1, hN1, hrd1⟩ := readPre_inv hinv
    have hstep := rmf_step role cfg lim K w1 S frag hinv1 hmf hlim hK
    unfold World.readLoop
    rw [hpre]
    dsimp only [andThen]
    generalize w1.readMessageFrame = res at hstep ⊢
    obtain ⟨w2, r⟩ := res
    unfold RmfOut at hstep
    dsimp only at hstep
    have hM : ∀ w' : World, measN w' < measN w1 → w'.t.rd.length ≤ w1.t.rd.length →
        measM w' < measM w := by
      intro w' h1 h2
      unfold measM
      rw [← hN1, ← hrd1]; omega
    rcases hstep with ⟨m, S', frag', hr, hd, hi, hn, hl, hk⟩ | ⟨m, hr, hd, hc, hn, hl⟩ |
      ⟨S', frag', hr, hd, hi, hn, hl, hk⟩ | ⟨hr, hi, hn, hl, he, hne⟩ | ⟨e, c, hr, hc, hd⟩
    · subst hr
      exact Or.inl ⟨m, S', frag', rfl, hd, hi, hM _ hn hl, hk⟩
    · subst hr
      exact Or.inr (Or.inl ⟨m, rfl, hd, hc, hM _ hn hl⟩)
    · subst hr
      dsimp only
      have hrec := ih w2 S' frag' hi hk (by omega)
      have hM2 := hM _ hn hl
      unfold ReadOut at hrec ⊢
      dsimp only at hrec ⊢
      rw [hd]
      rcases hrec with ⟨m, S'', frag'', h1, h2, h3, h4, h5⟩ | ⟨m, h1, h2, h3, h4⟩ |
        ⟨S'', frag'', h1, h2, h3, h4, h5, h6⟩ | ⟨e, c, h1, h2, h3⟩
      · exact Or.inl ⟨m, S'', frag'', h1, h2, h3, by omega, h5⟩
      · exact Or.inr (Or.inl ⟨m, h1, h2, h3, by omega⟩)
      · exact Or.inr (Or.inr (Or.inl ⟨S'', frag'', h1, h2, h3, h4, h5,
          fun hne => by have := h6 hne; omega⟩))
      · exact Or.inr (Or.inr (Or.inr ⟨e, c, h1, h2, h3⟩))
    · subst hr
      dsimp only
      refine Or.inr (Or.inr (Or.inl ⟨S, frag, rfl, rfl, hi, hK, he, ?_⟩))
      intro hnonempty
      have := hne hnonempty
      show measM w2 < measM w
      unfold measM
      rw [← hN1, ← hrd1]; omega
    · subst hr
      exact Or.inr (Or.inr (Or.inr ⟨e, c, rfl, hc, hd⟩))

theorem read_spec (role : Role) (cfg : Config) (lim : Limits) (K : Nat)
    (hmf : lim.maxFrame = cfg.maxFrame) (hlim : LimOK lim.maxMsg cfg.maxMsg K)
    (w : World) (S : Bytes) (frag : Option Partial) (hinv : Inv role cfg w S frag)
    (hK : accLen frag + S.length ≤ K) :
    ReadOut role cfg lim K w S frag w.read := by
  unfold World.read
  rw [hinv.state]
  simp only [WsState.notTerminated, Bool.not_true, Bool.false_eq_true, if_false]
  exact worldLoop_spec role cfg lim K hmf hlim _ w S frag hinv hK
    (by unfold World.readFuel measN; omega)

/-! ## after the peer's Close -/

theorem closed_server_read {cfg : Config} {w : World} (hc : ClosedInv .server cfg w) :
    ∃ w', w.read = (w', .err .connectionClosed) := by
  unfold World.read
  rw [hc.state]
  simp only [WsState.notTerminated, Bool.not_true, Bool.false_eq_true, if_false]
  obtain ⟨w', h⟩ := readPre_closed w hc.st.acc hc.st.outBuf hc.st.maxOut hc.st.add
    (by rw [hc.state]; rfl) hc.st.role (by rw [hc.state]; rfl)
  refine ⟨w', ?_⟩
  show World.readLoop (w.c.codec.inBuf.length + rdBytes w.t.rd + 1 + 1) w = _
  unfold World.readLoop
  rw [h]
  rfl

theorem closed_client_read {cfg : Config} {w : World} (hc : ClosedInv .client cfg w) :
    (w.read.2 = .err (.io .wouldBlock) ∧ ClosedInv .client cfg w.read.1) ∨
    (∃ e c, w.read.2 = .err e ∧ errClassOf e = some c) := by
  unfold World.read
  rw [hc.state]
  simp only [WsState.notTerminated, Bool.not_true, Bool.false_eq_true, if_false]
  have hfuel : w.readFuel = (w.c.codec.inBuf.length + rdBytes w.t.rd + 1) + 1 := rfl
  rw [hfuel]
  obtain ⟨w1, hpre, hc1⟩ := readPre_closedInv hc rfl
  unfold World.readLoop
  rw [hpre]
  dsimp only [andThen]
  obtain ⟨B, hrep⟩ := hc1.rep
  have hfo := readFrame_spec w1.c.cfg.maxFrame (w1.c.role == .server) w1.c.cfg.acceptUnmasked
    w1.c.codec w1.t B hc1.st.ben hc1.st.rdDef hrep
  rw [readMessageFrame_eq]
  generalize w1.c.codec.readFrame w1.t w1.c.cfg.maxFrame (w1.c.role == .server)
    w1.c.cfg.acceptUnmasked = res at hfo ⊢
  obtain ⟨c', t', r⟩ := res
  unfold RdFrameOut at hfo
  dsimp only at hfo ⊢
  obtain ⟨hts, hcs, _, hcases⟩ := hfo
  rcases hcases with ⟨h, p, rest, hs, hr, hhd, hrest⟩ | ⟨hr, B', hrep', _, _, _, _⟩ | ⟨e, hr, hs⟩
  · right
    rw [hr, hc1.st.role]
    have hb : (Role.client == Role.server) = false := rfl
    rw [hb]
    unfold frameRes
    simp only [Bool.false_eq_true, if_false]
    dsimp only [World.checkConnectionReset, andThen]
    unfold World.onFrame
    have hst : (w1.setCodec c' t').c.state = .closedByPeer := hc1.state
    rw [hst]
    exact ⟨_, .protocol, rfl, rfl⟩
  · left
    rw [hr]
    dsimp only [World.checkConnectionReset, andThen]
    exact ⟨rfl, ⟨hc1.st.of_frame hts hcs, hc1.state, ⟨B', hrep'⟩⟩⟩
  · right
    obtain ⟨c, hc', _⟩ := dec_fail (role := .client) (au := false)
      (lim := ⟨w1.c.cfg.maxFrame, none⟩) (frag := none) hs
    rw [hr, checkReset_err _ e c hc']
    exact ⟨e, c, rfl, hc'⟩

end WsProofs.Read
