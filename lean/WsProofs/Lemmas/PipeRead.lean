import WsProofs.Lemmas.PipeSpec

/-! A client endpoint reading (any cutting of) a prefix of a legitimate server wire image: the
incremental reader followed frame by frame, keeping track of the exact unread remainder — which
the generic refinement (`ReadOut`) forgets once the peer's Close has been delivered. -/
namespace WsProofs.Pipe
open WsModel WsModel.Gen WsModel.Spec WsProofs.Read WsProofs.C18

/-- after the peer's Close, with the unread remainder `R` of the stream -/
structure ClosedInvR (cfg : Config) (w : World) (R : Bytes) : Prop where
  base : ClosedInv .client cfg w
  rep : StreamRep w R

theorem shot_nil (maxSize : Nat) : shot maxSize [] = .needMore := rfl

/-- one `read_message_frame` of a client, in terms of the one-shot view of the stream -/
theorem rmf_client_gen (cfg : Config) (hmf : cfg.maxFrame = none) (w : World) (S : Bytes)
    (frag : Option Partial) (hinv : Inv .client cfg w S frag) :
    (∃ h p rest c' t', shot usizeMax S = .frame h p rest ∧
        w.readMessageFrame = (w.setCodec c' t').onFrame ⟨h, p⟩ ∧ c'.header = none ∧
        c'.inBuf ++ dataOf t'.rd = rest ∧ TSame w.t t' ∧ CSame w.c.codec c' ∧
        c'.inBuf.length + rdBytes t'.rd < measN w) ∨
    (w.readMessageFrame.2 = .err (.io .wouldBlock) ∧ Inv .client cfg w.readMessageFrame.1 S frag ∧
        measN w.readMessageFrame.1 ≤ measN w ∧
        w.readMessageFrame.1.t.rd.length ≤ w.t.rd.length ∧
        (w.readMessageFrame.1.t.rd ≠ [] → w.readMessageFrame.1.t.rd.length < w.t.rd.length)) ∨
    (∃ e, shot usizeMax S = .fail e) := by
  obtain ⟨B, hrep, hS⟩ := hinv.rep
  have hfo := readFrame_spec w.c.cfg.maxFrame (w.c.role == .server) w.c.cfg.acceptUnmasked
    w.c.codec w.t B hinv.st.ben hinv.st.rdDef hrep
  rw [hS] at hfo
  rw [readMessageFrame_eq]
  generalize w.c.codec.readFrame w.t w.c.cfg.maxFrame (w.c.role == .server)
    w.c.cfg.acceptUnmasked = res at hfo ⊢
  obtain ⟨c', t', r⟩ := res
  unfold RdFrameOut at hfo
  dsimp only at hfo ⊢
  obtain ⟨hts, hcs, hlen, hcases⟩ := hfo
  have hcfg := hinv.st.cfg
  have hrole := hinv.st.role
  have hmax : (w.c.cfg.maxFrame).getD usizeMax = usizeMax := by rw [hcfg, hmf]; rfl
  rw [hmax] at hcases
  have hst' : Static .client cfg (w.setCodec c' t') := hinv.st.of_frame hts hcs
  have hrdlen : t'.rd.length ≤ w.t.rd.length := hts.rd.length_le
  rcases hcases with ⟨h, p, rest, hs, hr, hhd, hrest⟩ | ⟨hr, B', hrep', htight', hS', hs', hrd⟩ |
    ⟨e, hr, hs⟩
  · left
    have hmeas : rest.length + 1 ≤ w.c.codec.inBuf.length + (dataOf w.t.rd).length :=
      frame_measure hrep hinv.tight (by rw [hS]; exact hs)
    have hrl : rest.length = c'.inBuf.length + rdBytes t'.rd := by
      rw [← hrest, List.length_append, dataOf_length]
    refine ⟨h, p, rest, c', t', hs, ?_, hhd, hrest, hts, hcs, ?_⟩
    · rw [hr, hrole]
      rfl
    · unfold measN
      rw [dataOf_length] at hmeas
      omega
  · right; left
    rw [hr]
    dsimp only [World.checkConnectionReset, andThen]
    refine ⟨rfl, ⟨hst', hinv.state, ⟨B', hrep', hS'⟩, htight', hinv.frag⟩, hlen, hrdlen, ?_⟩
    intro hne
    have hne' : t'.rd ≠ [] := hne
    rcases hrd with hrd | hrd
    · exact absurd hrd hne'
    · exact hrd
  · right; right
    exact ⟨e, hs⟩

/-- what one `read_message_frame` does on a prefix of a legitimate server image -/
def RmfC (cfg : Config) (w : World) (frames : List Frame) (n : Nat)
    (res : World × Res (Option Message)) : Prop :=
  (∃ f fs, frames = f :: fs ∧ f.format.length ≤ n ∧ f.isClose = false ∧
      res.2 = .ok (some (msgOf f)) ∧
      Inv .client cfg res.1 ((encodeAll fs).take (n - f.format.length)) none ∧
      measN res.1 < measN w ∧ res.1.t.rd.length ≤ w.t.rd.length) ∨
  (∃ f fs, frames = f :: fs ∧ f.format.length ≤ n ∧ f.isClose = true ∧
      res.2 = .ok (some (msgOf f)) ∧
      ClosedInvR cfg res.1 ((encodeAll fs).take (n - f.format.length))) ∨
  (res.2 = .err (.io .wouldBlock) ∧ Inv .client cfg res.1 ((encodeAll frames).take n) none ∧
      measN res.1 ≤ measN w ∧ res.1.t.rd.length ≤ w.t.rd.length ∧
      (res.1.t.rd ≠ [] → res.1.t.rd.length < w.t.rd.length))

theorem server_wire_payload {f : Frame} (hf : Legit .server f) :
    f.header.mask = none ∧ wirePayload f = f.payload := by
  have hm := hf.2.2.2.2.1
  have : f.header.mask = none := by
    cases hk : f.header.mask with
    | none => rfl
    | some k => rw [hk] at hm; exact absurd (hm.mpr rfl) (by intro h; cases h)
  refine ⟨this, ?_⟩
  unfold wirePayload
  rw [this]

theorem rmf_client (cfg : Config) (hmf : cfg.maxFrame = none) (hmm : cfg.maxMsg = none)
    (w : World) (frames : List Frame) (n : Nat) (hl : ∀ f ∈ frames, Legit .server f)
    (hinv : Inv .client cfg w ((encodeAll frames).take n) none) :
    RmfC cfg w frames n w.readMessageFrame := by
  rcases rmf_client_gen cfg hmf w _ none hinv with
    ⟨h, p, rest, c', t', hs, hr, hhd, hrest, hts, hcs, hmeas⟩ | ⟨h1, h2, h3, h4, h5⟩ | ⟨e, hs⟩
  · cases frames with
    | nil =>
      rw [show (encodeAll []).take n = [] from List.take_nil] at hs
      rw [shot_nil] at hs
      cases hs
    | cons f fs =>
      have hf := hl f (List.mem_cons_self ..)
      rcases shot_legit .server f fs n hf with ⟨_, hs'⟩ | ⟨hn, hs'⟩
      · rw [hs'] at hs; cases hs
      · rw [hs'] at hs
        obtain ⟨hmask, hwp⟩ := server_wire_payload hf
        rw [hwp] at hs
        simp only [Shot.frame.injEq] at hs
        obtain ⟨rfl, rfl, rfl⟩ := hs
        have hfe : (⟨f.header, f.payload⟩ : Frame) = f := rfl
        rw [hfe] at hr
        have hst' : Static .client cfg (w.setCodec c' t') := hinv.st.of_frame hts hcs
        have hrsv : (f.header.rsv1 || f.header.rsv2 || f.header.rsv3) = false := by
          rw [hf.2.1, hf.2.2.1, hf.2.2.2.1]; rfl
        have hstep := onFrame_spec (w.setCodec c' t') f ⟨none, none⟩ none (2 ^ 63)
          hinv.state hrsv (fun _ => hmask) hf.opcode_ok hinv.frag
          (Or.inr ⟨by show none = w.c.cfg.maxMsg; rw [hinv.st.cfg, hmm],
            fun _ => by omega⟩)
          (by have := hf.len_lt; simp only [accLen]; omega)
          (by have := hf.len_lt; omega)
        rw [frameMeaning_legit ⟨none, none⟩ rfl hf] at hstep
        rw [hr]
        generalize (w.setCodec c' t').onFrame f = X at hstep ⊢
        have hmX : ∀ (hm : MsgSame (w.setCodec c' t') X.1), measN X.1 < measN w ∧
            X.1.t.rd.length ≤ w.t.rd.length ∧ X.1.c.codec.header = none ∧
            X.1.c.codec.inBuf ++ dataOf X.1.t.rd =
              (encodeAll fs).take (n - f.format.length) := by
          intro hm
          refine ⟨?_, ?_, ?_, ?_⟩
          · show X.1.c.codec.inBuf.length + rdBytes X.1.t.rd < _
            rw [hm.codec, hm.t]
            exact hmeas
          · rw [hm.t]; exact hts.rd.length_le
          · rw [hm.codec]; exact hhd
          · rw [hm.codec, hm.t]; exact hrest
        by_cases hc : f.isClose = true
        · rw [if_pos hc] at hstep
          obtain ⟨he, hm, hstate⟩ := hstep
          obtain ⟨_, _, k3, k4⟩ := hmX hm
          refine Or.inr (Or.inl ⟨f, fs, rfl, hn, hc, he,
            ⟨⟨hst'.of_msgSame hm, hstate, ⟨_, Rep_none k3⟩⟩, ⟨_, Rep_none k3, k4⟩⟩⟩)
        · rw [if_neg hc] at hstep
          obtain ⟨he, hm, hstate, hfr'⟩ := hstep
          obtain ⟨k1, k2, k3, k4⟩ := hmX hm
          refine Or.inl ⟨f, fs, rfl, hn, by simpa using hc, he,
            ⟨hst'.of_msgSame hm, hstate, ⟨_, Rep_none k3, k4⟩, ?_, hfr'⟩, k1, k2⟩
          intro h' len' hh
          rw [k3] at hh
          cases hh
  · exact Or.inr (Or.inr ⟨h1, h2, h3, h4, h5⟩)
  · exfalso
    cases frames with
    | nil =>
      rw [show (encodeAll []).take n = [] from List.take_nil, shot_nil] at hs
      cases hs
    | cons f fs =>
      rcases shot_legit .server f fs n (hl f (List.mem_cons_self ..)) with ⟨_, hs'⟩ | ⟨_, hs'⟩ <;>
        rw [hs'] at hs <;> cases hs

/-! ## one `read` -/

/-- what one `read` does on a prefix of a legitimate server image -/
def ReadC (cfg : Config) (w : World) (frames : List Frame) (n : Nat)
    (res : World × Res Message) : Prop :=
  (∃ f fs, frames = f :: fs ∧ f.format.length ≤ n ∧ f.isClose = false ∧
      res.2 = .ok (msgOf f) ∧
      Inv .client cfg res.1 ((encodeAll fs).take (n - f.format.length)) none ∧
      measM res.1 < measM w) ∨
  (∃ f fs, frames = f :: fs ∧ f.format.length ≤ n ∧ f.isClose = true ∧
      res.2 = .ok (msgOf f) ∧
      ClosedInvR cfg res.1 ((encodeAll fs).take (n - f.format.length))) ∨
  (res.2 = .err (.io .wouldBlock) ∧ Inv .client cfg res.1 ((encodeAll frames).take n) none ∧
      (res.1.t.rd ≠ [] → measM res.1 < measM w))

theorem read_client (cfg : Config) (hmf : cfg.maxFrame = none) (hmm : cfg.maxMsg = none)
    (w : World) (frames : List Frame) (n : Nat) (hl : ∀ f ∈ frames, Legit .server f)
    (hinv : Inv .client cfg w ((encodeAll frames).take n) none) :
    ReadC cfg w frames n w.read := by
  unfold World.read
  rw [hinv.state]
  simp only [WsState.notTerminated, Bool.not_true, Bool.false_eq_true, if_false]
  have hfuel : w.readFuel = (w.c.codec.inBuf.length + rdBytes w.t.rd + 1) + 1 := rfl
  rw [hfuel]
  obtain ⟨w1, hpre, hinv1, hN1, hrd1⟩ := readPre_inv hinv
  have hstep := rmf_client cfg hmf hmm w1 frames n hl hinv1
  unfold World.readLoop
  rw [hpre]
  dsimp only [andThen]
  generalize w1.readMessageFrame = res at hstep ⊢
  obtain ⟨w2, r⟩ := res
  unfold RmfC at hstep
  dsimp only at hstep
  rcases hstep with ⟨f, fs, hfr, hn, hc, hr, hi, hm, hrl⟩ | ⟨f, fs, hfr, hn, hc, hr, hi⟩ |
    ⟨hr, hi, hm, hrl, hne⟩
  · subst hr
    refine Or.inl ⟨f, fs, hfr, hn, hc, rfl, hi, ?_⟩
    show measM w2 < measM w
    unfold measM
    rw [← hN1, ← hrd1]; omega
  · subst hr
    exact Or.inr (Or.inl ⟨f, fs, hfr, hn, hc, rfl, hi⟩)
  · subst hr
    refine Or.inr (Or.inr ⟨rfl, hi, ?_⟩)
    intro hnonempty
    have := hne hnonempty
    show measM w2 < measM w
    unfold measM
    rw [← hN1, ← hrd1]; omega

/-! ## after the Close, nothing left -/

/-- a client that has received the Close and has nothing left to read blocks, and stays so -/
theorem closedR_read {cfg : Config} {w : World}
    (hc : ClosedInvR cfg w []) :
    w.read.2 = .err (.io .wouldBlock) ∧ ClosedInvR cfg w.read.1 [] := by
  have hcb := hc.base
  unfold World.read
  rw [hcb.state]
  simp only [WsState.notTerminated, Bool.not_true, Bool.false_eq_true, if_false]
  have hfuel : w.readFuel = (w.c.codec.inBuf.length + rdBytes w.t.rd + 1) + 1 := rfl
  rw [hfuel]
  obtain ⟨w1, hpre, hs, hadd, hout⟩ := readPre_ok w hcb.st.acc hcb.st.outBuf hcb.st.maxOut
    hcb.st.add (by rw [hcb.state]; rfl) (Or.inl hcb.st.role)
  have hst1 : Static .client cfg w1 := hcb.st.of_inSame hs hadd hout
  have hstate1 : w1.c.state = .closedByPeer := hs.state.trans hcb.state
  obtain ⟨B, hrep0, hS0⟩ := hc.rep
  have hrep : Rep w1.c.codec B := Rep_congr hs.header hs.inBuf hrep0
  have hS : B ++ dataOf w1.t.rd = [] := by rw [hs.t.rd]; exact hS0
  unfold World.readLoop
  rw [hpre]
  dsimp only [andThen]
  have hfo := readFrame_spec w1.c.cfg.maxFrame (w1.c.role == .server) w1.c.cfg.acceptUnmasked
    w1.c.codec w1.t B hst1.ben hst1.rdDef hrep
  rw [hS] at hfo
  rw [readMessageFrame_eq]
  generalize w1.c.codec.readFrame w1.t w1.c.cfg.maxFrame (w1.c.role == .server)
    w1.c.cfg.acceptUnmasked = res at hfo ⊢
  obtain ⟨c', t', r⟩ := res
  unfold RdFrameOut at hfo
  dsimp only at hfo ⊢
  obtain ⟨hts, hcs, _, hcases⟩ := hfo
  rw [shot_nil] at hcases
  rcases hcases with ⟨h, p, rest, hs', _⟩ | ⟨hr, B', hrep', _, hS', _, _⟩ | ⟨e, _, hs'⟩
  · cases hs'
  · rw [hr]
    dsimp only [World.checkConnectionReset, andThen]
    exact ⟨rfl, ⟨⟨hst1.of_frame hts hcs, hstate1, ⟨B', hrep'⟩⟩, ⟨B', hrep', hS'⟩⟩⟩
  · cases hs'

theorem closedR_readAll {cfg : Config} :
    ∀ (fuel : Nat) (w : World), ClosedInvR cfg w [] → readAll fuel w = ([], .pending) := by
  intro fuel
  induction fuel with
  | zero => intro w _; rfl
  | succ fuel ih =>
    intro w hc
    obtain ⟨h1, h2⟩ := closedR_read hc
    have hread : w.read = (w.read.1, .err (.io .wouldBlock)) := by rw [← h1]
    rw [readAll_block hread]
    by_cases hemp : w.read.1.t.rd.isEmpty = true
    · rw [if_pos hemp]
    · rw [if_neg hemp]; exact ih _ h2

/-! ## the whole stream -/

theorem closeLast_tail {f : Frame} {fs : List Frame} (hc : CloseLast (f :: fs)) : CloseLast fs := by
  intro pre g post he hg
  exact hc (f :: pre) g post (by rw [he]; rfl) hg

/-- a client reading any cutting of any prefix of a legitimate server image: its reads return
what `expect` says and reading ends blocked, never in an error -/
theorem readAll_client (cfg : Config) (hmf : cfg.maxFrame = none) (hmm : cfg.maxMsg = none) :
    ∀ (fuel : Nat) (w : World) (frames : List Frame) (n : Nat),
      (∀ f ∈ frames, Legit .server f) → CloseLast frames →
      Inv .client cfg w ((encodeAll frames).take n) none → measM w + 1 ≤ fuel →
      (readAll fuel w).2 = .pending := by
  intro fuel
  induction fuel with
  | zero => intro w frames n _ _ _ hf; omega
  | succ fuel ih =>
    intro w frames n hl hcl hinv hf
    have hro := read_client cfg hmf hmm w frames n hl hinv
    generalize hres : w.read = res at hro
    obtain ⟨w', r⟩ := res
    unfold ReadC at hro
    dsimp only at hro
    rcases hro with ⟨f, fs, hfr, hn, hc, hr, hi, hm⟩ | ⟨f, fs, hfr, hn, hc, hr, hi⟩ |
      ⟨hr, hi, hne⟩
    · subst hr
      subst hfr
      rw [readAll_ok hres]
      exact ih w' fs _ (fun g hg => hl g (List.mem_cons_of_mem _ hg)) (closeLast_tail hcl) hi
        (by omega)
    · subst hr
      subst hfr
      rw [readAll_ok hres]
      have : fs = [] := hcl [] f fs rfl hc
      subst this
      rw [show (encodeAll []).take (n - f.format.length) = [] from List.take_nil] at hi
      rw [closedR_readAll fuel w' hi]
    · subst hr
      rw [readAll_block hres]
      by_cases hemp : w'.t.rd.isEmpty = true
      · rw [if_pos hemp]
      · rw [if_neg hemp]
        have hne' : w'.t.rd ≠ [] := fun h => hemp (List.isEmpty_iff.mpr h)
        have := hne hne'
        exact ih w' frames n hl hcl hi (by omega)

end WsProofs.Pipe
