import WsProofs.Lemmas.PairLive5

/-! Two-party liveness, layer 6: two rounds of the fair driver complete the close handshake. -/
namespace WsProofs.Pair
open WsModel WsModel.Gen WsModel.Spec WsProofs WsProofs.Read WsProofs.Pipe WsProofs.Progress

theorem hturn_tr (h : HP) (who : Side) (reads : Nat) :
    Tr h.A.c.state (hturn h who reads).1.A.c.state = true := by
  unfold hturn
  by_cases hd : h.aD = true
  · rw [if_pos hd]; exact Tr.refl _
  · rw [if_neg hd]; exact HP.run_tr _ h

/-- one turn, summarised -/
theorem hp_stage {rA rO : Role} {h : HP} {nIn nOut : Nat} (j : JH rA rO h nIn nOut)
    (who : Side) (R : Nat) (hR : psi h nIn nOut + 2 ≤ R) :
    ∃ nIn', JH rA rO (hturn h who R).1 nIn' nOut ∧
      psi (hturn h who R).1 nIn' nOut ≤ psi h nIn nOut ∧
      (hturn h who R).1.O = h.O ∧ (hturn h who R).1.oD = h.oD ∧
      (h.aD = false → Fin (hturn h who R).1) ∧
      (h.aD = true → (hturn h who R).1.aD = true) ∧
      ((hturn h who R).1.aD = false → Clean (hturn h who R).1.A) ∧
      Tr h.A.c.state (hturn h who R).1.A.c.state = true ∧
      (∀ o ∈ (hturn h who R).2, o.isConnectionClosed = true → rA = .client → h.oD = true) ∧
      ((hturn h who R).1.aD = true →
        h.aD = true ∨ ∃ o ∈ (hturn h who R).2, o.isConnectionClosed = true) := by
  have hr : (h.O.queued.length - nIn) + 2 ≤ R := by
    unfold psi at hR; omega
  obtain ⟨n', M, hF, hK⟩ := hp_turn j (fun _ => trivial) who R hr
  exact ⟨n', M.j, M.psi_le j, M.O_eq, M.oD_eq, hF, hK, M.clean, hturn_tr h who R, M.ccA, M.dropped⟩

theorem no_close_pending {w : World} (hs : w.c.additional = none)
    (hq : ∀ f ∈ w.queued, f.isClose = false) (pl : Bytes) : ¬ C13.ClosePending w pl := by
  intro h
  rcases h with ⟨f, hf, _, _⟩ | ⟨f, hf, hc, _⟩
  · rw [hs] at hf; cases hf
  · rw [hq f hf] at hc; cases hc

theorem active_of {s : WsState} (h1 : s.closing3 = false) (h2 : s ≠ .terminated) : s = .active := by
  cases s <;> first | rfl | exact absurd rfl h2 | cases h1

theorem closing3_of_nonactive {s : WsState} (h1 : s ≠ .active) (h2 : s ≠ .terminated) :
    s.closing3 = true := by
  cases s <;> first | rfl | exact absurd rfl h1 | exact absurd rfl h2

/-- two rounds of the fair driver, starting with the server: both sides are told that the
connection is closed, the server first. `h0` is the pair seen from the server. -/
theorem hp_close {h0 : HP} {ns nc : Nat} (j0 : JH .server .client h0 ns nc)
    (hclosing : h0.O.c.state ≠ .active ∨ h0.A.c.state ≠ .active) (R : Nat)
    (hR : psi h0 ns nc + 2 ≤ R) :
    (hturn (hturn (hturn (hturn h0 .s R).1.swap .c R).1.swap .s R).1.swap .c R).1.aD = true ∧
    (hturn (hturn (hturn (hturn h0 .s R).1.swap .c R).1.swap .s R).1.swap .c R).1.oD = true ∧
    (h0.aD = false → h0.oD = false →
      (∃ o ∈ (hturn h0 .s R).2, o.isConnectionClosed = true) ∨
      ((∀ o ∈ (hturn (hturn h0 .s R).1.swap .c R).2, o.isConnectionClosed = false) ∧
        ∃ o ∈ (hturn (hturn (hturn h0 .s R).1.swap .c R).1.swap .s R).2,
          o.isConnectionClosed = true)) := by
  obtain ⟨n1, j1, ps1, O1, oD1, F1, K1, C1, T1, _, d1⟩ := hp_stage j0 .s R hR
  generalize (hturn h0 .s R) = r1 at *
  obtain ⟨a1, outs1⟩ := r1
  dsimp only at j1 ps1 O1 oD1 F1 K1 C1 T1 d1 ⊢
  have hR2 : psi a1.swap nc n1 + 2 ≤ R := by rw [psi_swap]; omega
  obtain ⟨n2, j2, ps2, O2, oD2, F2, K2, C2, T2, cc2, _⟩ := hp_stage j1.swap .c R hR2
  generalize (hturn a1.swap .c R) = r2 at *
  obtain ⟨b2, outs2⟩ := r2
  dsimp only at j2 ps2 O2 oD2 F2 K2 C2 T2 cc2 ⊢
  have hR3 : psi b2.swap n1 n2 + 2 ≤ R := by
    rw [psi_swap]
    rw [psi_swap] at ps2
    omega
  obtain ⟨n3, j3, ps3, O3, oD3, F3, K3, C3, _, _, d3⟩ := hp_stage j2.swap .s R hR3
  generalize (hturn b2.swap .s R) = r3 at *
  obtain ⟨a3, outs3⟩ := r3
  dsimp only at j3 ps3 O3 oD3 F3 K3 C3 d3 ⊢
  have hR4 : psi a3.swap n2 n3 + 2 ≤ R := by
    rw [psi_swap]
    rw [psi_swap] at ps2 ps3
    omega
  obtain ⟨n4, j4, _, _, oD4, F4, K4, _, _, _, _⟩ := hp_stage j3.swap .c R hR4
  generalize (hturn a3.swap .c R) = r4 at *
  obtain ⟨b4, outs4⟩ := r4
  dsimp only at j4 oD4 F4 K4 ⊢
  -- bookkeeping of who is who
  have e_b2O : b2.O = a1.A := O2
  have e_b2oD : b2.oD = a1.aD := oD2
  have e_a3O : a3.O = b2.A := O3
  have e_a3oD : a3.oD = b2.aD := oD3
  have e_b4oD : b4.oD = a3.aD := oD4
  have e_a1O : a1.O = h0.O := O1
  have e_a1oD : a1.oD = h0.oD := oD1
  -- the server is told closed by the end of its second turn
  have claimA : a3.aD = true := by
    apply Classical.byContradiction
    intro hA
    have hA3 : a3.aD = false := by simpa using hA
    have hA2 : b2.oD = false := by
      cases hx : b2.oD with
      | false => rfl
      | true => exact absurd (K3 hx) hA
    have hA1 : a1.aD = false := by rw [← e_b2oD]; exact hA2
    have hA0 : h0.aD = false := by
      cases hx : h0.aD with
      | false => rfl
      | true => rw [K1 hx] at hA1; cases hA1
    have hB2 : b2.aD = false := by
      cases hx : b2.aD with
      | false => rfl
      | true => rw [(j2.dropA hx).2.1 rfl] at hA2; cases hA2
    have hB1 : a1.oD = false := by
      cases hx : a1.oD with
      | false => rfl
      | true =>
        have : a1.swap.aD = true := hx
        rw [K2 this] at hB2; cases hB2
    have f1 : Fin2 a1 := by
      rcases F1 hA0 with h | h
      · rw [hA1] at h; cases h
      · exact h
    have f2 : Fin2 b2 := by
      rcases F2 hB1 with h | h
      · rw [hB2] at h; cases h
      · exact h
    have f3 : Fin2 a3 := by
      rcases F3 hA2 with h | h
      · rw [hA3] at h; cases h
      · exact h
    have cl1 : Clean a1.A := C1 hA1
    have cl2 : Clean b2.A := C2 hB2
    have nt3 : a3.A.c.state ≠ .terminated := not_term_of j3 hA3
    have nt2 : b2.A.c.state ≠ .terminated := not_term_of j2 hB2
    have nt1 : a1.A.c.state ≠ .terminated := not_term_of j1 hA1
    -- the server has consumed every frame of the client and has not received a Close
    have hall3 : n3 = a3.O.queued.length :=
      fin_all_consumed j3 f3 nt3 (by rw [e_a3O]; exact cl2.1)
    have hcan3 : a3.A.c.state.canRead = true := by
      cases hc : a3.A.c.state.canRead with
      | true => rfl
      | false => exact absurd ⟨j3.wa.role, hc⟩ f3.2.2.1
    have hncr3 : a3.A.c.state.closeReceived = false := by
      rcases canRead_cases hcan3 with h | h <;> rw [h] <;> rfl
    have hnoClose : ∀ f ∈ b2.A.queued, f.isClose = false := by
      intro f hf
      cases hfc : f.isClose with
      | false => rfl
      | true =>
        exfalso
        have := (j3.din nt3).close.mp ⟨f, by
          rw [hall3, List.take_of_length_le (Nat.le_refl _), e_a3O]; exact hf, hfc⟩
        rw [hncr3] at this; cases this
    -- hence the client is still active
    have hactC : b2.A.c.state = .active := by
      apply active_of _ nt2
      cases hc : b2.A.c.state.closing3 with
      | false => rfl
      | true =>
        obtain ⟨pl, hp⟩ := j2.wa.kp hc
        exact absurd hp (no_close_pending f2.1 hnoClose pl)
    rcases hclosing with hc | hs
    · -- the client was closing: it still is
      have : a1.swap.A.c.state ≠ .active := by
        show a1.O.c.state ≠ .active
        rw [e_a1O]; exact hc
      exact Tr.not_active T2 this hactC
    · -- the server was closing: its Close has reached the client
      have hs1 : a1.A.c.state ≠ .active := Tr.not_active T1 hs
      obtain ⟨pl, hp⟩ := j1.wa.kp (closing3_of_nonactive hs1 nt1)
      have hclose1 : ∃ f ∈ a1.A.queued, f.isClose = true := by
        rcases hp with ⟨f, hf, _, _⟩ | ⟨f, hf, hfc, _⟩
        · rw [f1.1] at hf; cases hf
        · exact ⟨f, hf, hfc⟩
      have hall2 : n2 = b2.O.queued.length :=
        fin_all_consumed j2 f2 nt2 (by rw [e_b2O]; exact cl1.1)
      obtain ⟨f, hf, hfc⟩ := hclose1
      have := (j2.din nt2).close.mp ⟨f, by
        rw [hall2, List.take_of_length_le (Nat.le_refl _), e_b2O]; exact hf, hfc⟩
      rw [hactC] at this
      cases this
  refine ⟨?_, by rw [e_b4oD]; exact claimA, ?_⟩
  · -- the client is told closed in its second turn at the latest
    cases hx : a3.oD with
    | true =>
      have : a3.swap.aD = true := hx
      exact K4 this
    | false =>
      have : a3.swap.aD = false := hx
      rcases F4 this with h | h
      · exact h
      · have := h.2.2.2.1
        rw [e_b4oD, claimA] at this; cases this
  · intro hA0 hO0
    by_cases hA1 : a1.aD = true
    · left
      rcases d1 hA1 with h | h
      · rw [hA0] at h; cases h
      · exact h
    · right
      have hA1' : a1.aD = false := by simpa using hA1
      refine ⟨?_, ?_⟩
      · intro o ho
        cases hoc : o.isConnectionClosed with
        | false => rfl
        | true =>
          have : a1.swap.oD = true := cc2 o ho hoc rfl
          have h' : a1.aD = true := this
          exact absurd h' hA1
      · have hA2 : b2.swap.aD = false := by
          show b2.oD = false
          rw [e_b2oD]; exact hA1'
        rcases d3 claimA with h | h
        · rw [hA2] at h; cases h
        · exact h

end WsProofs.Pair

namespace WsProofs.Pair
open WsModel WsModel.Gen WsProofs

/-- two rounds of the fair driver, in the one-sided views -/
theorem drive2 (p : Pair) (R : Nat) :
    p.drive R 2 =
      (ofC (hturn (hturn (hturn (hturn (viewS p) .s R).1.swap .c R).1.swap .s R).1.swap .c R).1,
       (hturn (viewS p) .s R).2.map (Prod.mk Side.s) ++
       (hturn (hturn (viewS p) .s R).1.swap .c R).2.map (Prod.mk Side.c) ++
       ((hturn (hturn (hturn (viewS p) .s R).1.swap .c R).1.swap .s R).2.map (Prod.mk Side.s) ++
        (hturn (hturn (hturn (hturn (viewS p) .s R).1.swap .c R).1.swap .s R).1.swap .c R).2.map
          (Prod.mk Side.c) ++ [])) := by
  simp only [Pair.drive, driveSide_s, driveSide_c]
  rfl

end WsProofs.Pair
