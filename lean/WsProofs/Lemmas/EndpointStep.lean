import WsProofs.Lemmas.EndpointRead

/-! Operation-level facts: `writeData`, `write`, `close`, `read`, `step`, `run`, reachability. -/
namespace WsProofs
open WsModel WsModel.Gen

/-! ### `writeData` (the user-data path of `write`) -/

structure WDSpec (w : World) (f : Frame) (w' : World) (r : Res Unit) : Prop where
  state : w'.c.state = .active
  kind : r = .ok () ∨ (∃ k, r = .err (.io k)) ∨ ∃ g, r = .err (.writeBufferFull g)
  queue : SlotOk w → ∃ f', SameKind f f' ∧
    ((r = .err (.writeBufferFull f') ∧ w'.queued = w.queued) ∨
     ((r = .ok () ∨ ∃ k, r = .err (.io k)) ∧
        ∃ l, w'.queued = w.queued ++ [f'] ++ l ∧ ∀ g ∈ l, (g.isPong = true ∨ g.isClose = true)))

theorem active_ne_terminated {s : WsState} (h : s = .active) : s ≠ .terminated := by
  rw [h]; simp

theorem writeData_spec (w : World) (f : Frame) (hs : w.c.state = .active) :
    WDSpec w f (w.writeData f).1 (w.writeData f).2 := by
  unfold World.writeData
  rw [writeInternal_some_eq]
  have S := World.bufferFrame_spec w f
  generalize w.bufferFrame f = x at *
  obtain ⟨w1, r1⟩ := x
  simp only [] at S
  have hncc : r1 ≠ .err .connectionClosed := by
    intro hr
    have := (S.cc hr).2.1
    rw [hs] at this; cases this
  have hs1 : w1.c.state = .active := by
    rcases S.state with h1 | ⟨_, h2⟩
    · rw [h1, hs]
    · exact absurd h2 hncc
  have hso1 : SlotOk w → SlotOk w1 := by
    intro h g hg; rw [S.additional] at hg; exact h g hg
  obtain ⟨f', hsk, hcase⟩ := S.queue
  rcases hcase with ⟨hr, hqq, _, _, _⟩ | ⟨hnw, hqq, _, _⟩
  · subst hr
    exact ⟨hs1, Or.inr (Or.inr ⟨_, rfl⟩), fun _ => ⟨f', hsk, Or.inl ⟨rfl, hqq⟩⟩⟩
  · rcases S.kind with rfl | ⟨k, rfl⟩ | rfl | ⟨g, rfl⟩
    · -- buffered; now the slot, the tail, and possibly a flush
      show WDSpec w f (andThen (slotTail w1) _).1 (andThen (slotTail w1) _).2
      have T := (slotTail_FSC w1).toFS
      obtain ⟨hs2, hk2⟩ := T.active hs1
      generalize slotTail w1 = y at *
      obtain ⟨w2, r2⟩ := y
      simp only [] at T hs2 hk2
      rcases hk2 with ⟨sf, rfl⟩ | ⟨k, rfl⟩
      · cases sf with
        | false =>
          refine ⟨hs2, Or.inl rfl, fun h => ⟨f', hsk, Or.inr ⟨Or.inl rfl, ?_⟩⟩⟩
          obtain ⟨l, hl, hlk⟩ := T.qext (hso1 h)
          exact ⟨l, by show w2.queued = _; rw [hl, hqq], hlk⟩
        | true =>
          show WDSpec w f w2.flush.1 w2.flush.2
          have F := (flush_FSC (active_ne_terminated hs2)).toFS
          obtain ⟨hs3, hk3⟩ := F.active hs2
          refine ⟨hs3, ?_, fun h => ⟨f', hsk, Or.inr ⟨?_, ?_⟩⟩⟩
          · rcases hk3 with ⟨u, h3⟩ | h3
            · exact Or.inl h3
            · exact Or.inr (Or.inl h3)
          · rcases hk3 with ⟨u, h3⟩ | h3
            · exact Or.inl h3
            · exact Or.inr h3
          · obtain ⟨l, hl, hlk⟩ := T.qext (hso1 h)
            obtain ⟨l', hl', hlk'⟩ := F.qext (T.slotOk (hso1 h))
            refine ⟨l ++ l', by show w2.flush.1.queued = _; rw [hl', hl, hqq]; simp, ?_⟩
            intro g hg
            rcases List.mem_append.mp hg with hg | hg
            · exact hlk g hg
            · exact hlk' g hg
      · refine ⟨hs2, Or.inr (Or.inl ⟨k, rfl⟩), fun h => ⟨f', hsk, Or.inr ⟨Or.inr ⟨k, rfl⟩, ?_⟩⟩⟩
        obtain ⟨l, hl, hlk⟩ := T.qext (hso1 h)
        exact ⟨l, by show w2.queued = _; rw [hl, hqq], hlk⟩
    · exact ⟨hs1, Or.inr (Or.inl ⟨k, rfl⟩),
        fun _ => ⟨f', hsk, Or.inr ⟨Or.inr ⟨k, rfl⟩, [], by show w1.queued = _; rw [hqq]; simp, by simp⟩⟩⟩
    · exact absurd rfl hncc
    · exact absurd rfl (hnw g)

/-! ### `close`, `flush` as operations -/

/-- `close()` from a non-terminated state -/
theorem close_FSC {w : World} (c : Option CloseFrame) (hnt : w.c.state ≠ .terminated) :
    ∃ w0 : World, w0.t = w.t ∧ w0.queued = w.queued ∧ w0.c.role = w.c.role ∧
      (w.c.state = .active → w0.c.state = .closedByUs ∧ (Inv w → Inv w0)) ∧
      (w.c.state ≠ .active → w0 = w) ∧ w0.c.state ≠ .terminated ∧
      (SlotOk w → SlotOk w0) ∧
      FSC w0 (w.close c).1 (w.close c).2 := by
  unfold World.close
  by_cases hs : w.c.state = .active
  · rw [if_pos hs]
    refine ⟨(w.setState .closedByUs).setAdditionalRaw (some (Frame.close c)), rfl, rfl, rfl,
      fun _ => ⟨rfl, fun h => Inv_enter_closing h hs .closedByUs rfl c⟩, fun h => absurd hs h,
      by simp [World.setAdditionalRaw, World.setState], ?_, flush_FSC (by simp [World.setAdditionalRaw, World.setState])⟩
    intro _ f hf
    have : f = Frame.close c := (Option.some.inj hf).symm
    subst this
    exact Or.inr rfl
  · rw [if_neg hs]
    exact ⟨w, rfl, rfl, rfl, fun h => absurd h hs, fun _ => rfl, hnt, id, flush_FSC hnt⟩

/-! ### state transitions of every operation, from every state -/

theorem write_refused (w : World) (m : Message) (h : w.c.state ≠ .active) :
    (w.write m).1 = w ∧
    ((w.write m).2 = .err .alreadyClosed ∨ (w.write m).2 = .err (.protocol .sendAfterClosing)) := by
  unfold World.write
  by_cases h1 : (!w.c.state.notTerminated) = true
  · rw [if_pos h1]; exact ⟨rfl, Or.inl rfl⟩
  · rw [if_neg h1]
    have h2 : (!w.c.state.isActive) = true := by
      cases hs : w.c.state <;> first | rfl | exact absurd hs h
    rw [if_pos h2]; exact ⟨rfl, Or.inr rfl⟩

theorem terminated_flush (w : World) (h : w.c.state = .terminated) :
    w.flush = (w, .err .alreadyClosed) := by
  unfold World.flush
  rw [h]; rfl

theorem terminated_read (w : World) (h : w.c.state = .terminated) :
    w.read = (w, .err .alreadyClosed) := by
  unfold World.read
  rw [h]; rfl

theorem terminated_close (w : World) (c : Option CloseFrame) (h : w.c.state = .terminated) :
    w.close c = (w, .err .alreadyClosed) := by
  unfold World.close
  have : ¬ w.c.state = .active := by rw [h]; simp
  simp only [this, if_false]
  exact terminated_flush w h

theorem read_spec (w : World) (hnt : w.c.state ≠ .terminated) :
    RDSpec w w.read.1 w.read.2 := by
  unfold World.read
  have hnt' : ¬ (!w.c.state.notTerminated) = true := by simp [notTerminated_iff.mpr hnt]
  rw [if_neg hnt']
  exact readLoop_spec _ w hnt

theorem read_inv (w : World) (h : Inv w) (hnt : w.c.state ≠ .terminated) :
    RDInv w w.read.1 w.read.2 := by
  unfold World.read
  have hnt' : ¬ (!w.c.state.notTerminated) = true := by simp [notTerminated_iff.mpr hnt]
  rw [if_neg hnt']
  exact readLoop_inv _ w h hnt

theorem step_tr (w : World) (op : Op) : Tr w.c.state (w.step op).1.c.state = true := by
  by_cases hnt : w.c.state = .terminated
  · cases op with
    | read => simp only [World.step, terminated_read w hnt]; exact Tr.refl _
    | flush => simp only [World.step, terminated_flush w hnt]; exact Tr.refl _
    | close c => simp only [World.step, terminated_close w c hnt]; exact Tr.refl _
    | write m =>
      have := (write_refused w m (by rw [hnt]; simp)).1
      simp only [World.step, this]; exact Tr.refl _
  · cases op with
    | read => exact (read_spec w hnt).tr
    | flush => exact (flush_FSC hnt).toFS.tr
    | close c =>
      obtain ⟨w0, _, _, _, ha, hna, _, _, F⟩ := close_FSC (w := w) c hnt
      by_cases hs : w.c.state = .active
      · show Tr w.c.state (w.close c).1.c.state = true
        rw [hs]; cases (w.close c).1.c.state <;> rfl
      · have := hna hs
        subst this
        exact F.toFS.tr
    | write m =>
      by_cases hs : w.c.state = .active
      · show Tr w.c.state (w.write m).1.c.state = true
        rw [hs]; cases (w.write m).1.c.state <;> rfl
      · have := (write_refused w m hs).1
        simp only [World.step, this]; exact Tr.refl _

/-! ### the invariant along histories -/

theorem step_inv (w : World) (op : Op) (h : Inv w) (hop : op.noRaw) : Inv (w.step op).1 := by
  cases op with
  | read =>
    by_cases hnt : w.c.state = .terminated
    · simp only [World.step, terminated_read w hnt]; exact h
    · exact (read_inv w h hnt).inv
  | flush => exact flush_inv h
  | close c => exact close_inv h c
  | write m => exact write_inv h m hop

theorem run_inv (ops : List Op) (w : World) (h : Inv w) (hops : ∀ op ∈ ops, Op.noRaw op) :
    Inv (w.run ops).1 := by
  induction ops generalizing w with
  | nil => exact h
  | cons op ops ih =>
    simp only [World.run]
    exact ih (w.step op).1 (step_inv w op h (hops op (by simp)))
      (fun o ho => hops o (by simp [ho]))

theorem init_inv (w : World) (h : w.Init) : Inv w := by
  obtain ⟨role, cfg, pre, c, hc, hwc, hq, hacc, _, _⟩ := h
  unfold Ctx.new at hc
  by_cases hv : configValid cfg.maxw cfg.wbuf = true
  · rw [if_pos hv] at hc
    have hc' := (Option.some.inj hc).symm
    rw [hc'] at hwc
    refine ⟨?_, ?_, ?_, ?_, ?_, ?_, ?_, ?_, ?_⟩
    · rw [hacc, hq, hwc]; rfl
    · rw [hwc]; exact Nat.zero_le _
    · rw [hwc]; exact ⟨rfl, rfl⟩
    · rw [hq]; intro pre f post he; cases pre <;> cases he
    · intro _; rw [hq, hwc]; exact ⟨by simp, by simp⟩
    · intro hcl; rw [hwc] at hcl; cases hcl
    · intro hcl; rw [hwc] at hcl; cases hcl
    · rw [hwc]; simp
    · rw [hwc]; simp
  · rw [if_neg hv] at hc; cases hc

theorem reachable_inv (w : World) (h : w.Reachable) : Inv w := by
  obtain ⟨w0, ops, hinit, hops, rfl⟩ := h
  exact run_inv ops w0 (init_inv w0 hinit) hops

/-! ### `ConnectionClosed` at the operation level -/

theorem closeReceived_of {s : WsState} (h1 : s.canRead = false) (h2 : s ≠ .terminated) :
    s.closeReceived = true := by
  revert h1 h2
  cases s <;> decide

theorem write_active_kind (w : World) (m : Message) (hs : w.c.state = .active) :
    (w.write m).2 = .ok () ∨ (∃ k, (w.write m).2 = .err (.io k)) ∨
    (∃ g, (w.write m).2 = .err (.writeBufferFull g)) ∨ (w.write m).2 = .err .connectionClosed := by
  unfold World.write
  have h1 : ¬ (!w.c.state.notTerminated) = true := by rw [hs]; simp [WsState.notTerminated]
  have h2 : ¬ (!w.c.state.isActive) = true := by rw [hs]; simp [WsState.isActive]
  rw [if_neg h1, if_neg h2]
  have hwd : ∀ f, (w.writeData f).2 = .ok () ∨ (∃ k, (w.writeData f).2 = .err (.io k)) ∨
      (∃ g, (w.writeData f).2 = .err (.writeBufferFull g)) ∨
      (w.writeData f).2 = .err .connectionClosed := by
    intro f
    rcases (writeData_spec w f hs).kind with h | h | h
    · exact Or.inl h
    · exact Or.inr (Or.inl h)
    · exact Or.inr (Or.inr (Or.inl h))
  cases m with
  | text d => exact hwd _
  | binary d => exact hwd _
  | ping d => exact hwd _
  | frame f => exact hwd _
  | pong d =>
    simp only []
    rw [writeInternal_none_eq]
    have T := (slotTail_FSC (w.setAdditional (Frame.pong d))).toFS
    have hs' : (w.setAdditional (Frame.pong d)).c.state = .active := by
      rw [(setAdditional_fields w _).1]; exact hs
    obtain ⟨_, hk⟩ := T.active hs'
    generalize slotTail (w.setAdditional (Frame.pong d)) = y at *
    obtain ⟨w2, r2⟩ := y
    rcases hk with ⟨a, rfl⟩ | ⟨k, rfl⟩
    · exact Or.inl rfl
    · exact Or.inr (Or.inl ⟨k, rfl⟩)
  | close c =>
    simp only []
    obtain ⟨w0, _, _, _, _, _, _, _, F⟩ := close_FSC (w := w) c (active_ne_terminated hs)
    rcases F.kind with ⟨u, h⟩ | h | h
    · exact Or.inl h
    · exact Or.inr (Or.inl h)
    · exact Or.inr (Or.inr (Or.inr h))

/-- the complete statement about an operation that reports `ConnectionClosed` -/
theorem step_cc (w : World) (op : Op) (h : Inv w) (hop : op.noRaw)
    (hcc : (w.step op).2.err? = some .connectionClosed) :
    w.c.state.canRead = false ∧ w.c.state ≠ .terminated ∧ (w.step op).1.c.state = .terminated ∧
    ((w.c.role = .server ∧ (w.step op).1.c.codec.outBuf = [] ∧ (w.step op).1.c.additional = none) ∨
      LogEnded w.t.log (w.step op).1.t.log) := by
  have hnt : w.c.state ≠ .terminated := by
    intro hnt
    cases op with
    | read => simp [World.step, terminated_read w hnt, Out.err?] at hcc
    | flush => simp [World.step, terminated_flush w hnt, Out.err?] at hcc
    | close c => simp [World.step, terminated_close w c hnt, Out.err?] at hcc
    | write m =>
      rcases (write_refused w m (by rw [hnt]; simp)).2 with h2 | h2 <;>
        simp [World.step, h2, Out.err?] at hcc
  cases op with
  | read =>
    have hr : w.read.2 = .err .connectionClosed := by
      simp only [World.step, Out.err?] at hcc
      cases hres : w.read.2 with
      | ok m => rw [hres] at hcc; cases hcc
      | panic s => rw [hres] at hcc; cases hcc
      | err e => rw [hres] at hcc; injection hcc with hcc; rw [hcc]
    obtain ⟨c1, c2⟩ := (read_spec w hnt).cc hr
    exact ⟨c1, hnt, c2, (read_inv w h hnt).ccw hr⟩
  | flush =>
    have hr : w.flush.2 = .err .connectionClosed := by
      simp only [World.step, Out.err?] at hcc
      cases hres : w.flush.2 with
      | ok m => rw [hres] at hcc; cases hcc
      | panic s => rw [hres] at hcc; cases hcc
      | err e => rw [hres] at hcc; injection hcc with hcc; rw [hcc]
    have F := flush_FSC hnt
    obtain ⟨c1, c2⟩ := F.cc hr
    exact ⟨c1, hnt, c2, F.ccw hr⟩
  | close c =>
    have hr : (w.close c).2 = .err .connectionClosed := by
      simp only [World.step, Out.err?] at hcc
      cases hres : (w.close c).2 with
      | ok m => rw [hres] at hcc; cases hcc
      | panic s => rw [hres] at hcc; cases hcc
      | err e => rw [hres] at hcc; injection hcc with hcc; rw [hcc]
    obtain ⟨w0, ht, _, hrole, ha, hna, _, _, F⟩ := close_FSC (w := w) c hnt
    obtain ⟨c1, c2⟩ := F.cc hr
    by_cases hs : w.c.state = .active
    · rw [(ha hs).1] at c1; cases c1
    · have := hna hs
      subst this
      exact ⟨c1, hnt, c2, F.ccw hr⟩
  | write m =>
    have hr : (w.write m).2 = .err .connectionClosed := by
      simp only [World.step, Out.err?] at hcc
      cases hres : (w.write m).2 with
      | ok m => rw [hres] at hcc; cases hcc
      | panic s => rw [hres] at hcc; cases hcc
      | err e => rw [hres] at hcc; injection hcc with hcc; rw [hcc]
    by_cases hs : w.c.state = .active
    · -- only `write (close _)` can report it, and then via `close`, which has just left `active`
      exfalso
      cases m with
      | close c =>
        have hw : w.write (.close c) = w.close c := by
          unfold World.write
          have h1 : ¬ (!w.c.state.notTerminated) = true := by rw [hs]; simp [WsState.notTerminated]
          have h2 : ¬ (!w.c.state.isActive) = true := by rw [hs]; simp [WsState.isActive]
          rw [if_neg h1, if_neg h2]
        rw [hw] at hr
        obtain ⟨w0, _, _, _, ha, _, _, _, F⟩ := close_FSC (w := w) c hnt
        have c1 := (F.cc hr).1
        rw [(ha hs).1] at c1; cases c1
      | frame f => exact hop
      | text d =>
        have hk := (writeData_spec w (Frame.message d (.data .text) true) hs).kind
        have hw : w.write (.text d) = w.writeData (Frame.message d (.data .text) true) := by
          unfold World.write
          have h1 : ¬ (!w.c.state.notTerminated) = true := by rw [hs]; simp [WsState.notTerminated]
          have h2 : ¬ (!w.c.state.isActive) = true := by rw [hs]; simp [WsState.isActive]
          rw [if_neg h1, if_neg h2]
        rw [hw] at hr
        rcases hk with h | ⟨k, h⟩ | ⟨g, h⟩ <;> rw [h] at hr <;> cases hr
      | binary d =>
        have hk := (writeData_spec w (Frame.message d (.data .binary) true) hs).kind
        have hw : w.write (.binary d) = w.writeData (Frame.message d (.data .binary) true) := by
          unfold World.write
          have h1 : ¬ (!w.c.state.notTerminated) = true := by rw [hs]; simp [WsState.notTerminated]
          have h2 : ¬ (!w.c.state.isActive) = true := by rw [hs]; simp [WsState.isActive]
          rw [if_neg h1, if_neg h2]
        rw [hw] at hr
        rcases hk with h | ⟨k, h⟩ | ⟨g, h⟩ <;> rw [h] at hr <;> cases hr
      | ping d =>
        have hk := (writeData_spec w (Frame.ping d) hs).kind
        have hw : w.write (.ping d) = w.writeData (Frame.ping d) := by
          unfold World.write
          have h1 : ¬ (!w.c.state.notTerminated) = true := by rw [hs]; simp [WsState.notTerminated]
          have h2 : ¬ (!w.c.state.isActive) = true := by rw [hs]; simp [WsState.isActive]
          rw [if_neg h1, if_neg h2]
        rw [hw] at hr
        rcases hk with h | ⟨k, h⟩ | ⟨g, h⟩ <;> rw [h] at hr <;> cases hr
      | pong d =>
        have hw : w.write (.pong d) =
            andThen (slotTail (w.setAdditional (Frame.pong d))) fun w _ => (w, .ok ()) := by
          unfold World.write
          have h1 : ¬ (!w.c.state.notTerminated) = true := by rw [hs]; simp [WsState.notTerminated]
          have h2 : ¬ (!w.c.state.isActive) = true := by rw [hs]; simp [WsState.isActive]
          rw [if_neg h1, if_neg h2]
          rfl
        rw [hw] at hr
        have T := (slotTail_FSC (w.setAdditional (Frame.pong d))).toFS
        have hs' : (w.setAdditional (Frame.pong d)).c.state = .active := by
          rw [(setAdditional_fields w _).1]; exact hs
        obtain ⟨_, hk⟩ := T.active hs'
        generalize slotTail (w.setAdditional (Frame.pong d)) = y at *
        obtain ⟨w2, r2⟩ := y
        rcases hk with ⟨a, rfl⟩ | ⟨k, rfl⟩ <;> cases hr
    · exfalso
      rcases (write_refused w m hs).2 with h2 | h2 <;> rw [h2] at hr <;> cases hr

/-! ### a successful `flush` -/

theorem flush_ok_spec {w : World} (h : Inv w) (hok : w.flush.2 = .ok ()) :
    w.flush.1.c.codec.outBuf = [] ∧ w.flush.1.t.flushedUpTo = w.flush.1.t.accepted.length ∧
    w.flush.1.c.unflushed = false := by
  unfold World.flush at hok ⊢
  by_cases hc : (!w.c.state.notTerminated) = true
  · rw [if_pos hc] at hok; cases hok
  · rw [if_neg hc, writeInternal_none_eq] at hok ⊢
    obtain ⟨a1, _, hok1, e1⟩ := andThen_ok _ _ _ hok
    rw [e1]
    have I1 : Inv (slotTail w).1 := slotTail_inv h
    generalize (slotTail w).1 = w1 at *
    obtain ⟨a2, hr2, hok2, e2⟩ := andThen_ok _ _ _ hok1
    rw [e2]
    obtain ⟨I2, he2⟩ := writeOutBuffer_inv I1
    have he2' := he2 (by cases a2; exact hr2)
    generalize w1.writeOutBuffer.1 = w2 at *
    obtain ⟨a3, hr3, hok3, e3⟩ := andThen_ok _ _ _ hok2
    rw [e3]
    obtain ⟨I3, he3⟩ := flushRetry_invE I2 he2'
    have he3' := he3 (by cases a3; exact hr3)
    generalize w2.flushRetry.1 = w3 at *
    obtain ⟨a4, hr4, _, e4⟩ := andThen_ok _ _ _ hok3
    rw [e4]
    have S := World.streamFlush_spec w3
    refine ⟨?_, ?_, rfl⟩
    · show w3.streamFlush.1.c.codec.outBuf = []
      rw [streamFlush_outBuf]; exact he3'
    · show w3.streamFlush.1.t.flushedUpTo = w3.streamFlush.1.t.accepted.length
      exact S.flushed (by cases a4; exact hr4)

/-! ### operations that queue no user data -/

theorem andThen_unit_fst {α : Type} (x : World × Res α) :
    (andThen x fun w _ => (w, (.ok () : Res Unit))).1 = x.1 := by
  rcases x with ⟨w, a | e | s⟩ <;> rfl

theorem write_close_eq (w : World) (c : Option CloseFrame) (hs : w.c.state = .active) :
    w.write (.close c) = w.close c := by
  unfold World.write
  have h1 : ¬ (!w.c.state.notTerminated) = true := by rw [hs]; simp [WsState.notTerminated]
  have h2 : ¬ (!w.c.state.isActive) = true := by rw [hs]; simp [WsState.isActive]
  rw [if_neg h1, if_neg h2]

theorem write_pong_eq (w : World) (d : Bytes) (hs : w.c.state = .active) :
    w.write (.pong d) =
      andThen (slotTail (w.setAdditional (Frame.pong d))) fun w _ => (w, .ok ()) := by
  unfold World.write
  have h1 : ¬ (!w.c.state.notTerminated) = true := by rw [hs]; simp [WsState.notTerminated]
  have h2 : ¬ (!w.c.state.isActive) = true := by rw [hs]; simp [WsState.isActive]
  rw [if_neg h1, if_neg h2]
  rfl

theorem write_data_eq (w : World) (hs : w.c.state = .active) :
    (∀ d, w.write (.text d) = w.writeData (Frame.message d (.data .text) true)) ∧
    (∀ d, w.write (.binary d) = w.writeData (Frame.message d (.data .binary) true)) ∧
    (∀ d, w.write (.ping d) = w.writeData (Frame.ping d)) := by
  have h1 : ¬ (!w.c.state.notTerminated) = true := by rw [hs]; simp [WsState.notTerminated]
  have h2 : ¬ (!w.c.state.isActive) = true := by rw [hs]; simp [WsState.isActive]
  refine ⟨?_, ?_, ?_⟩ <;> intro d <;> unfold World.write <;> rw [if_neg h1, if_neg h2]

theorem close_qext (w : World) (c : Option CloseFrame) (h : Inv w) :
    QExt w.queued (w.close c).1.queued := by
  by_cases hnt : w.c.state = .terminated
  · rw [terminated_close w c hnt]; exact QExt.refl _
  · obtain ⟨w0, _, hq, _, _, _, _, hso, F⟩ := close_FSC (w := w) c hnt
    rw [← hq]
    exact F.qext (hso h.slotOk)

/-- every operation other than a user data `write` appends only pong/close frames to `queued` -/
theorem step_qext (w : World) (op : Op) (h : Inv w) (hop : op.noRaw)
    (hnd : ∀ d, op ≠ .write (.text d) ∧ op ≠ .write (.binary d) ∧ op ≠ .write (.ping d)) :
    QExt w.queued (w.step op).1.queued := by
  cases op with
  | read =>
    by_cases hnt : w.c.state = .terminated
    · simp only [World.step, terminated_read w hnt]; exact QExt.refl _
    · exact (read_inv w h hnt).qext
  | flush =>
    by_cases hnt : w.c.state = .terminated
    · simp only [World.step, terminated_flush w hnt]; exact QExt.refl _
    · exact (flush_FSC hnt).qext h.slotOk
  | close c => exact close_qext w c h
  | write m =>
    show QExt w.queued (w.write m).1.queued
    by_cases hs : w.c.state = .active
    · cases m with
      | text d => exact absurd rfl (hnd d).1
      | binary d => exact absurd rfl (hnd d).2.1
      | ping d => exact absurd rfl (hnd d).2.2
      | frame f => exact absurd hop (by simp [Op.noRaw])
      | close c => rw [write_close_eq w c hs]; exact close_qext w c h
      | pong d =>
        rw [write_pong_eq w d hs, andThen_unit_fst]
        have T := (slotTail_FSC (w.setAdditional (Frame.pong d))).toFS
        have hq := T.qext (Inv_setAdditional_pong h hs d).slotOk
        rw [(setAdditional_fields w _).2.2.2.1] at hq
        exact hq
    · rw [(write_refused w m hs).1]; exact QExt.refl _

end WsProofs
