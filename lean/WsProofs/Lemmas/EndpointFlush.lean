import WsProofs.Lemmas.EndpointInv

/-! State, result and transport-log specification of the write side (`writeSlot` … `flush`,
`readPre`): the state stays or becomes `terminated`; `ConnectionClosed` is reported only when
reading is over and either (server) everything was written out or the transport ended. -/
namespace WsProofs
open WsModel WsModel.Gen

/-- frames appended to `queued` that came from the pending slot -/
def QExt (q q' : List Frame) : Prop :=
  ∃ l, q' = q ++ l ∧ ∀ g ∈ l, (g.isPong = true ∨ g.isClose = true)

theorem QExt.refl (q : List Frame) : QExt q q := ⟨[], by simp, by simp⟩

theorem QExt.of_eq {q q' : List Frame} (h : q' = q) : QExt q q' := h ▸ QExt.refl q

theorem QExt.trans {a b c : List Frame} (h1 : QExt a b) (h2 : QExt b c) : QExt a c := by
  obtain ⟨l1, rfl, h1⟩ := h1
  obtain ⟨l2, rfl, h2⟩ := h2
  refine ⟨l1 ++ l2, by simp, ?_⟩
  intro g hg
  rcases List.mem_append.mp hg with hg | hg
  · exact h1 g hg
  · exact h2 g hg

/-- result kinds of the write side below `flush` -/
def WKind {α : Type} (r : Res α) : Prop :=
  (∃ a, r = .ok a) ∨ (∃ k, r = .err (.io k)) ∨ r = .err .connectionClosed

/-- the pending slot holds a pong or a close frame (a field of `Inv`, preserved on its own) -/
def SlotOk (w : World) : Prop :=
  ∀ f, w.c.additional = some f → (f.isPong = true ∨ f.isClose = true)

theorem Inv.slotOk {w : World} (h : Inv w) : SlotOk w := h.slot

/-- state and result bookkeeping that holds from every state -/
structure FS (w w' : World) {α : Type} (r : Res α) : Prop where
  role : w'.c.role = w.c.role
  log : LogExt w.t.log w'.t.log
  state : w'.c.state = w.c.state ∨ (w'.c.state = .terminated ∧ r = .err .connectionClosed)
  slotOk : SlotOk w → SlotOk w'
  cc : r = .err .connectionClosed → w.c.state.canRead = false ∧ w'.c.state = .terminated
  kind : WKind r
  qext : SlotOk w → QExt w.queued w'.queued

/-- … plus: `ConnectionClosed` means (server) all written out and slot empty, or transport ended -/
structure FSC (w w' : World) {α : Type} (r : Res α) : Prop extends FS w w' r where
  ccw : r = .err .connectionClosed →
    ((w.c.role = .server ∧ w'.c.codec.outBuf = [] ∧ w'.c.additional = none) ∨
      LogEnded w.t.log w'.t.log)

theorem FS.refl_ok {α : Type} (w : World) (a : α) : FS w w (.ok a : Res α) :=
  ⟨rfl, LogExt.refl _, Or.inl rfl, id, by simp, Or.inl ⟨a, rfl⟩, fun _ => QExt.refl _⟩

theorem FSC.refl_ok {α : Type} (w : World) (a : α) : FSC w w (.ok a : Res α) :=
  ⟨FS.refl_ok w a, by simp⟩

theorem FS.state_of_ok {α : Type} {w w' : World} {a : α} (h : FS w w' (.ok a : Res α)) :
    w'.c.state = w.c.state := by
  rcases h.state with h1 | ⟨_, h2⟩
  · exact h1
  · cases h2

theorem FS.bind {α β : Type} {w w1 w2 : World} {a : α} {r2 : Res β}
    (h1 : FS w w1 (.ok a : Res α)) (h2 : FS w1 w2 r2) : FS w w2 r2 := by
  have hs := h1.state_of_ok
  refine ⟨h2.role.trans h1.role, LogExt.trans h1.log h2.log, ?_, fun h => h2.slotOk (h1.slotOk h),
    ?_, h2.kind, fun h => QExt.trans (h1.qext h) (h2.qext (h1.slotOk h))⟩
  · rw [← hs]; exact h2.state
  · intro hr
    obtain ⟨c1, c2⟩ := h2.cc hr
    exact ⟨hs ▸ c1, c2⟩

theorem FSC.bind {α β : Type} {w w1 w2 : World} {a : α} {r2 : Res β}
    (h1 : FS w w1 (.ok a : Res α)) (h2 : FSC w1 w2 r2) : FSC w w2 r2 := by
  refine ⟨FS.bind h1 h2.toFS, ?_⟩
  intro hr
  rcases h2.ccw hr with ⟨r1, r2, r3⟩ | c3
  · exact Or.inl ⟨h1.role ▸ r1, r2, r3⟩
  · exact Or.inr (LogEnded.trans_right h1.log c3)

theorem FS.cast_err {α β : Type} {w w' : World} {e : Err} (h : FS w w' (.err e : Res α)) :
    FS w w' (.err e : Res β) := by
  refine ⟨h.role, h.log, ?_, h.slotOk, ?_, ?_, h.qext⟩
  · rcases h.state with h1 | ⟨h1, h2⟩
    · exact Or.inl h1
    · exact Or.inr ⟨h1, by injection h2 with h2; rw [h2]⟩
  · intro hr
    apply h.cc
    injection hr with hr; rw [hr]
  · rcases h.kind with ⟨a, h1⟩ | ⟨k, h1⟩ | h1
    · cases h1
    · injection h1 with h1; exact Or.inr (Or.inl ⟨k, by rw [h1]⟩)
    · injection h1 with h1; exact Or.inr (Or.inr (by rw [h1]))

theorem FSC.cast_err {α β : Type} {w w' : World} {e : Err} (h : FSC w w' (.err e : Res α)) :
    FSC w w' (.err e : Res β) := by
  refine ⟨h.toFS.cast_err, ?_⟩
  intro hr
  apply h.ccw
  injection hr with hr; rw [hr]

theorem FS.not_panic {α : Type} {w w' : World} {s : PanicSite} (h : FS w w' (.panic s : Res α)) :
    False := by
  rcases h.kind with ⟨a, h1⟩ | ⟨k, h1⟩ | h1 <;> cases h1

theorem andThen_FS {α β : Type} {w0 : World} (x : World × Res α) (k : World → α → World × Res β)
    (hx : FS w0 x.1 x.2)
    (hk : ∀ w a, x = (w, .ok a) → FS w (k w a).1 (k w a).2) :
    FS w0 (andThen x k).1 (andThen x k).2 := by
  rcases x with ⟨w, a | e | s⟩
  · exact FS.bind hx (hk w a rfl)
  · exact hx.cast_err
  · exact (hx.not_panic).elim

theorem andThen_FSC {α β : Type} {w0 : World} (x : World × Res α) (k : World → α → World × Res β)
    (hx : FSC w0 x.1 x.2)
    (hk : ∀ w a, x = (w, .ok a) → FSC w (k w a).1 (k w a).2) :
    FSC w0 (andThen x k).1 (andThen x k).2 := by
  rcases x with ⟨w, a | e | s⟩
  · exact FSC.bind hx.toFS (hk w a rfl)
  · exact hx.cast_err
  · exact (hx.toFS.not_panic).elim

/-! ### setters -/

theorem setAdditional_fields (w : World) (f : Frame) :
    (w.setAdditional f).c.state = w.c.state ∧ (w.setAdditional f).c.role = w.c.role ∧
    (w.setAdditional f).t = w.t ∧ (w.setAdditional f).queued = w.queued ∧
    (w.setAdditional f).c.codec = w.c.codec ∧ (w.setAdditional f).c.cfg = w.c.cfg ∧
    (w.setAdditional f).c.unflushed = w.c.unflushed := by
  unfold World.setAdditional
  cases w.c.additional with
  | none => exact ⟨rfl, rfl, rfl, rfl, rfl, rfl, rfl⟩
  | some g =>
    by_cases hg : g.isPong = true
    · simp [hg, World.setAdditionalRaw]
    · simp [hg]

/-! ### the write side -/

theorem writeOutBuffer_FSC (w : World) : FSC w w.writeOutBuffer.1 w.writeOutBuffer.2 := by
  have S := World.writeOutBuffer_spec w
  have hncc : w.writeOutBuffer.2 ≠ .err .connectionClosed := by
    intro hr
    rcases S.codec.kind with h | ⟨k, h⟩ <;> rw [h] at hr <;> cases hr
  refine ⟨⟨S.role, S.codec.log, Or.inl S.state, ?_, fun hr => absurd hr hncc, ?_,
    fun _ => QExt.of_eq S.queued⟩, fun hr => absurd hr hncc⟩
  · intro h f hf; rw [S.additional] at hf; exact h f hf
  · rcases S.codec.kind with h | ⟨k, h⟩
    · exact Or.inl ⟨(), h⟩
    · exact Or.inr (Or.inl ⟨k, h⟩)

theorem streamFlush_FSC (w : World) : FSC w w.streamFlush.1 w.streamFlush.2 := by
  have S := World.streamFlush_spec w
  have hncc : w.streamFlush.2 ≠ .err .connectionClosed := by
    intro hr
    rcases S.kind with h | ⟨k, h⟩ <;> rw [h] at hr <;> cases hr
  refine ⟨⟨by rw [S.c], S.log, Or.inl (by rw [S.c]), ?_, fun hr => absurd hr hncc, ?_,
    fun _ => QExt.of_eq S.queued⟩, fun hr => absurd hr hncc⟩
  · intro h f hf; rw [S.c] at hf; exact h f hf
  · rcases S.kind with h | ⟨k, h⟩
    · exact Or.inl ⟨(), h⟩
    · exact Or.inr (Or.inl ⟨k, h⟩)

theorem writeSlot_FSC (w : World) : FSC w w.writeSlot.1 w.writeSlot.2 := by
  unfold World.writeSlot
  cases ha : w.c.additional with
  | none => exact FSC.refl_ok w _
  | some msg =>
    simp only []
    have S := World.bufferFrame_spec (w.setAdditionalRaw none) msg
    generalize (w.setAdditionalRaw none).bufferFrame msg = x at *
    obtain ⟨w1, r⟩ := x
    simp only [World.setAdditionalRaw] at S
    obtain ⟨f', hsk, hcase⟩ := S.queue
    have hadd : w1.c.additional = none := S.additional
    rcases hcase with ⟨hr, hqq, hout, hacc, hst⟩ | ⟨hnw, hqq, hfifo, hbound⟩
    · subst hr
      simp only []
      obtain ⟨f1, f2, f3, f4, _⟩ := setAdditional_fields w1 f'
      refine ⟨⟨by rw [f2]; exact S.role, by rw [f3]; exact S.log, Or.inl (by rw [f1]; exact hst),
        ?_, by simp, Or.inl ⟨_, rfl⟩, fun _ => QExt.of_eq (by rw [f4]; exact hqq)⟩, by simp⟩
      intro h f hf
      have he : w1.setAdditional f' = w1.setAdditionalRaw (some f') := by
        unfold World.setAdditional; rw [hadd]
      rw [he] at hf
      have : f = f' := (Option.some.inj hf).symm
      subst this
      rw [hsk.isPong, hsk.isClose]
      exact h msg ha
    · have hq : SlotOk w → QExt w.queued w1.queued := by
        intro h
        refine ⟨[f'], hqq, ?_⟩
        intro g hg
        rw [List.mem_singleton.mp hg, hsk.isPong, hsk.isClose]
        exact h msg ha
      have hso : SlotOk w → SlotOk (w1.setUnflushed true) := by
        intro _ f hf
        have : w1.c.additional = some f := hf
        rw [hadd] at this; cases this
      rcases S.kind with rfl | ⟨k, rfl⟩ | rfl | ⟨g, rfl⟩
      · exact ⟨⟨S.role, S.log, Or.inl (by
          rcases S.state with h1 | ⟨_, h2⟩
          · exact h1
          · cases h2), hso, by simp, Or.inl ⟨_, rfl⟩, hq⟩, by simp⟩
      · exact ⟨⟨S.role, S.log, Or.inl (by
          rcases S.state with h1 | ⟨_, h2⟩
          · exact h1
          · cases h2), hso, by simp, Or.inr (Or.inl ⟨k, rfl⟩), hq⟩, by simp⟩
      · obtain ⟨c1, c2, c3⟩ := S.cc rfl
        exact ⟨⟨S.role, S.log, Or.inr ⟨c1, rfl⟩, hso, fun _ => ⟨c2, c1⟩, Or.inr (Or.inr rfl), hq⟩,
          fun _ => Or.inr c3⟩
      · exact absurd rfl (hnw g)

theorem writeTail_FSC (w : World) (sf : Bool) : FSC w (w.writeTail sf).1 (w.writeTail sf).2 := by
  unfold World.writeTail
  by_cases hc : w.c.role = .server ∧ (!w.c.state.canRead) = true ∧ w.c.additional.isNone = true
  · rw [if_pos hc]
    obtain ⟨hrole, hcr, hnone⟩ := hc
    apply andThen_FSC
    · exact writeOutBuffer_FSC w
    · intro w1 _ hx
      have S := World.writeOutBuffer_spec w
      rw [hx] at S
      simp only [] at S
      have hcr1 : w1.c.state.canRead = false := by rw [S.state]; simpa using hcr
      have hn1 : w1.c.additional = none := by
        rw [S.additional]; exact Option.isNone_iff_eq_none.mp hnone
      refine ⟨⟨rfl, LogExt.refl _, Or.inr ⟨rfl, rfl⟩, fun h => h, fun _ => ⟨hcr1, rfl⟩,
        Or.inr (Or.inr rfl), fun _ => QExt.refl _⟩, ?_⟩
      intro _
      exact Or.inl ⟨by rw [S.role]; exact hrole, S.codec.empty rfl, hn1⟩
  · rw [if_neg hc]
    exact FSC.refl_ok w _

/-- `_write` after its data part -/
def slotTail (w : World) : World × Res Bool :=
  andThen w.writeSlot fun w sf => w.writeTail sf

theorem writeInternal_none_eq (w : World) : w.writeInternal none = slotTail w := rfl

theorem writeInternal_some_eq (w : World) (f : Frame) :
    w.writeInternal (some f) = andThen (w.bufferFrame f) fun w _ => slotTail w := rfl

theorem slotTail_inv {w : World} (h : Inv w) : Inv (slotTail w).1 := by
  rw [← writeInternal_none_eq]
  exact writeInternal_inv h none (by simp)

theorem slotTail_FSC (w : World) : FSC w (slotTail w).1 (slotTail w).2 := by
  unfold slotTail
  apply andThen_FSC
  · exact writeSlot_FSC w
  · intro w1 sf _
    exact writeTail_FSC w1 sf

theorem flushRetry_FSC (w : World) : FSC w w.flushRetry.1 w.flushRetry.2 := by
  unfold World.flushRetry
  by_cases hc : w.c.additional.isSome = true
  · rw [if_pos hc, writeInternal_none_eq]
    apply andThen_FSC
    · exact slotTail_FSC w
    · intro w1 _ _
      exact writeOutBuffer_FSC w1
  · rw [if_neg hc]
    exact FSC.refl_ok w _

theorem notTerminated_iff {s : WsState} : s.notTerminated = true ↔ s ≠ .terminated := by
  cases s <;> simp [WsState.notTerminated]

theorem flush_FSC {w : World} (hnt : w.c.state ≠ .terminated) :
    FSC w w.flush.1 w.flush.2 := by
  unfold World.flush
  have hnt' : ¬ (!w.c.state.notTerminated) = true := by
    simp [notTerminated_iff.mpr hnt]
  rw [if_neg hnt', writeInternal_none_eq]
  apply andThen_FSC
  · exact slotTail_FSC w
  · intro w1 _ _
    apply andThen_FSC
    · exact writeOutBuffer_FSC w1
    · intro w2 _ _
      apply andThen_FSC
      · exact flushRetry_FSC w2
      · intro w3 _ _
        apply andThen_FSC
        · exact streamFlush_FSC w3
        · intro w4 _ _
          exact ⟨⟨rfl, LogExt.refl _, Or.inl rfl, fun h => h, by simp, Or.inl ⟨(), rfl⟩,
            fun _ => QExt.refl _⟩, by simp⟩

/-! ### derived facts -/

theorem FS.active {α : Type} {w w' : World} {r : Res α} (h : FS w w' r)
    (hs : w.c.state = .active) : w'.c.state = .active ∧ ((∃ a, r = .ok a) ∨ ∃ k, r = .err (.io k)) := by
  have hncc : r ≠ .err .connectionClosed := by
    intro hr
    have := (h.cc hr).1
    rw [hs] at this; cases this
  refine ⟨?_, ?_⟩
  · rcases h.state with h1 | ⟨_, h2⟩
    · rw [h1, hs]
    · exact absurd h2 hncc
  · rcases h.kind with h1 | h1 | h1
    · exact Or.inl h1
    · exact Or.inr h1
    · exact absurd h1 hncc

/-- the state transitions an endpoint can make -/
def Tr : WsState → WsState → Bool
  | _, .terminated => true
  | .active, _ => true
  | .closedByUs, .closedByUs => true
  | .closedByUs, .closeAcknowledged => true
  | .closedByPeer, .closedByPeer => true
  | .closeAcknowledged, .closeAcknowledged => true
  | _, _ => false

theorem Tr.refl (s : WsState) : Tr s s = true := by cases s <;> rfl

theorem Tr.trans {a b c : WsState} (h1 : Tr a b = true) (h2 : Tr b c = true) : Tr a c = true := by
  revert h1 h2
  cases a <;> cases b <;> cases c <;> decide

theorem Tr.terminated (s : WsState) : Tr s .terminated = true := by cases s <;> rfl

theorem Tr.not_active {a b : WsState} (h : Tr a b = true) (ha : a ≠ .active) : b ≠ .active := by
  revert h ha
  cases a <;> cases b <;> decide

theorem Tr.canRead {a b : WsState} (h : Tr a b = true) (ha : a.canRead = false) :
    b.canRead = false := by
  revert h ha
  cases a <;> cases b <;> decide

theorem FS.tr {α : Type} {w w' : World} {r : Res α} (h : FS w w' r) :
    Tr w.c.state w'.c.state = true := by
  rcases h.state with h1 | ⟨h1, _⟩
  · rw [h1]; exact Tr.refl _
  · rw [h1]; exact Tr.terminated _

end WsProofs
