import WsModel.Generated.CollGen

/-! Rewriting rules for the monad `GenColl.M` of the machine translation of `StringCollector`
(`WsModel/Generated/CollGen.lean`): `>>=` applied to a collector is `sthen`, every leaf applied to
a collector is a pair. -/
namespace WsProofs.Tie
open WsModel WsModel.Gen WsModel.GenColl

/-- the hand model's three-way result in the generated code's vocabulary -/
def ofRes {α : Type} : Res α → GR Err α
  | .ok a => .ok a
  | .err e => .err e
  | .panic p => .panic p

@[simp] theorem ofRes_ok {α : Type} (a : α) : ofRes (Res.ok a) = GR.ok a := rfl
@[simp] theorem ofRes_err {α : Type} (e : Err) : ofRes (Res.err e : Res α) = GR.err e := rfl
@[simp] theorem ofRes_panic {α : Type} (p : PanicSite) :
    ofRes (Res.panic p : Res α) = GR.panic p := rfl

/-- sequencing on the pair a call returned -/
def sthen {α β : Type} (x : Collector × GR Err α) (k : Collector → α → Collector × GR Err β) :
    Collector × GR Err β :=
  match x with
  | (s, .ok a) => k s a
  | (s, .err e) => (s, .err e)
  | (s, .panic p) => (s, .panic p)

@[simp] theorem sthen_ok {α β : Type} (s : Collector) (a : α)
    (k : Collector → α → Collector × GR Err β) : sthen (s, GR.ok a) k = k s a := rfl
@[simp] theorem sthen_err {α β : Type} (s : Collector) (e : Err)
    (k : Collector → α → Collector × GR Err β) :
    sthen ((s, GR.err e) : Collector × GR Err α) k = (s, GR.err e) := rfl
@[simp] theorem sthen_panic {α β : Type} (s : Collector) (p : PanicSite)
    (k : Collector → α → Collector × GR Err β) :
    sthen ((s, GR.panic p) : Collector × GR Err α) k = (s, GR.panic p) := rfl

/-! ### the monad -/

theorem coll_bind_apply {α β : Type} (x : M α) (k : α → M β) (s : Collector) :
    (x >>= k) s = sthen (x s) (fun s a => k a s) := by
  show M.bind x k s = _
  unfold M.bind sthen
  rcases x s with ⟨s', r⟩
  cases r <;> rfl

theorem coll_pure_apply {α : Type} (a : α) (s : Collector) : (pure a : M α) s = (s, GR.ok a) := rfl

theorem coll_ite_apply {α : Type} (c : Prop) [Decidable c] (x y : M α) (s : Collector) :
    (if c then x else y) s = if c then x s else y s := by
  by_cases h : c <;> simp [h]

/-! ### leaves -/

theorem coll_throwE_apply {α : Type} (e : Err) (s : Collector) :
    (throwE e : M α) s = (s, GR.err e) := rfl
theorem coll_panicAt_apply {α : Type} (p : PanicSite) (s : Collector) :
    (panicAt p : M α) s = (s, GR.panic p) := rfl
theorem coll_liftRes_apply {α : Type} (r : GR Err α) (s : Collector) : liftRes r s = (s, r) := rfl
theorem coll_getW_apply (s : Collector) : getW s = (s, GR.ok s) := rfl
theorem coll_modifyW_apply (f : Collector → Collector) (s : Collector) :
    modifyW f s = (f s, GR.ok ()) := rfl
theorem coll_takeIncomplete_apply (s : Collector) :
    takeIncomplete s = ({ s with incomplete := none }, GR.ok s.incomplete) := rfl
theorem coll_setIncompleteM_apply (i : Option Bytes) (s : Collector) :
    setIncompleteM i s = ({ s with incomplete := i }, GR.ok ()) := rfl
theorem coll_pushStr_apply (text : Bytes) (s : Collector) :
    pushStr text s = ({ s with data := s.data ++ text }, GR.ok ()) := rfl

/-- normal form: every `>>=` / leaf applied to a collector becomes `sthen` / a pair -/
syntax "coll_norm" ("[" Lean.Parser.Tactic.simpLemma,* "]")? : tactic
macro_rules
  | `(tactic| coll_norm) => `(tactic| simp only [coll_bind_apply, coll_pure_apply, coll_ite_apply,
      coll_throwE_apply, coll_panicAt_apply, coll_liftRes_apply, coll_getW_apply,
      coll_modifyW_apply, coll_takeIncomplete_apply, coll_setIncompleteM_apply,
      coll_pushStr_apply, sthen_ok, sthen_err, sthen_panic])
  | `(tactic| coll_norm [$ls,*]) => `(tactic| simp only [coll_bind_apply, coll_pure_apply,
      coll_ite_apply, coll_throwE_apply, coll_panicAt_apply, coll_liftRes_apply, coll_getW_apply,
      coll_modifyW_apply, coll_takeIncomplete_apply, coll_setIncompleteM_apply,
      coll_pushStr_apply, sthen_ok, sthen_err, sthen_panic, $ls,*])

end WsProofs.Tie
