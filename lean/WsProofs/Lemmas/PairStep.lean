import WsProofs.Lemmas.PairRead
import WsProofs.Props.C13

/-! Two-party proofs, layer 3: the invariant of ONE endpoint inside a pair (`WI`: the global
invariant, well-formedness and payload conditions of everything queued or pending, no partial
message, a pending Close is never lost) and its preservation by every operation other than `read`
(`nonread_step`). `read` depends on the peer's stream and is treated in `PairInv`. -/
namespace WsProofs.Pair
open WsModel WsModel.Gen WsModel.Spec WsProofs WsProofs.Read WsProofs.Pipe

/-- `close(Some(frame))`: the reason is UTF-8 and fits a control frame. (`Op.Sendable` constrains
`write(Message::Close(..))` only; without this a `close()` call can queue an invalid Close frame.) -/
def CloseOk : Op → Prop
  | .close (some cf) => Spec.WellFormed cf.reason ∧ cf.reason.length ≤ 123
  | _ => True

/-- the user's calls respect the documented preconditions -/
def OpOk (op : Op) : Prop := Op.noRaw op ∧ op.Sendable ∧ CloseOk op

/-! ### payload conditions of queue and slot -/

def PQ (w : World) : Prop :=
  (∀ f ∈ w.queued, PayOk f) ∧ (∀ f, w.c.additional = some f → PayOk f)

theorem PQ.of_same {w w' : World} (h : PQ w) (ha : w'.c.additional = w.c.additional)
    (hq : w'.queued = w.queued) : PQ w' := by
  refine ⟨?_, ?_⟩
  · rw [hq]; exact h.1
  · rw [ha]; exact h.2

theorem PQ.set_slot {w w' : World} (h : PQ w) (hq : w'.queued = w.queued) {g : Frame}
    (ha : w'.c.additional = some g) (hg : PayOk g) : PQ w' := by
  refine ⟨?_, ?_⟩
  · rw [hq]; exact h.1
  · intro f hf
    rw [ha] at hf
    cases hf
    exact hg

theorem PQ.snoc {w w' : World} (h : PQ w) (ha : w'.c.additional = w.c.additional) {g : Frame}
    (hq : w'.queued = w.queued ++ [g]) (hg : PayOk g) : PQ w' := by
  refine ⟨?_, ?_⟩
  · rw [hq]
    intro f hf
    rcases C09.mem_snoc hf with hf | rfl
    · exact h.1 f hf
    · exact hg
  · rw [ha]; exact h.2

theorem PQ.sd {w w' : World} (h : PQ w) (hd : SD w w') : PQ w' := by
  cases ha : w.c.additional with
  | none =>
    obtain ⟨n, q⟩ := hd.empty ha
    exact h.of_same (n.trans ha.symm) q
  | some f =>
    have hf := h.2 f ha
    rcases hd.full f ha with ⟨f', r, s, q⟩ | ⟨f', m, s, q⟩
    · exact h.set_slot q s (hf.of_sameKind r.sameKind)
    · refine ⟨?_, ?_⟩
      · rw [q]
        intro g hg
        rcases C09.mem_snoc hg with hg | rfl
        · exact h.1 g hg
        · exact hf.of_sameKind m.remask.sameKind
      · intro g hg
        rw [s] at hg; cases hg

/-! ### a pending Close is never lost -/

/-- once closing has begun a Close frame is pending: in the slot or already queued -/
def KP (w : World) : Prop := w.c.state.closing3 = true → ∃ pl, C13.ClosePending w pl

theorem KP.sd {w w' : World} (h : KP w) (hd : SD w w')
    (hs : w'.c.state = w.c.state ∨ w'.c.state = .terminated) : KP w' := by
  intro hc
  rcases hs with hs | hs
  · obtain ⟨pl, hp⟩ := h (hs ▸ hc)
    exact ⟨pl, hp.sd hd⟩
  · rw [hs] at hc; cases hc

theorem KP.of_not {w : World} (h : w.c.state.closing3 = false) : KP w := by
  intro hc; rw [h] at hc; cases hc

/-! ### the invariant of one endpoint of a pair -/

structure WI (r : Role) (w : World) : Prop where
  inv : Inv w
  wf : C09.WfInv w
  role : w.c.role = r
  pq : PQ w
  inc : w.c.incomplete = none
  mf : w.c.cfg.maxFrame = none
  mm : w.c.cfg.maxMsg = none
  maxw : 400 ≤ w.c.cfg.maxw
  kp : KP w

/-- the scheduler's transport for the next call: the scripts are replaced, the history is kept -/
theorem WI.retarget {r : Role} {w : World} (h : WI r w) (t0 : Transport)
    (ha : t0.accepted = w.t.accepted) : WI r { w with t := t0 } := by
  obtain ⟨hI, hw, hr, hp, hi, hmf, hmm, hmw, hk⟩ := h
  refine ⟨?_, hw, hr, hp, hi, hmf, hmm, hmw, hk⟩
  exact ⟨by show t0.accepted ++ _ = _; rw [ha]; exact hI.fifo, hI.bound, hI.cfgFixed, hI.closeLast,
    hI.active, hI.closing, hI.drained, hI.slot, hI.slotClean⟩

/-- every queued frame is a legitimate frame of the role -/
theorem WI.legit {r : Role} {w : World} (h : WI r w) : ∀ f ∈ w.queued, Legit r f := by
  intro f hf
  have := h.wf.1 f hf
  rw [h.role] at this
  exact legit_of this (h.pq.1 f hf)

/-- how the state may change in a call that is not `read` -/
def StRel (s s' : WsState) : Prop :=
  s' = s ∨ s' = .terminated ∨ (s = .active ∧ s' = .closedByUs)

/-- assembling the invariant after a call that does not touch the read side -/
theorem WI.of_parts {r : Role} {w w' : World} (h : WI r w) (hI : Inv w') (hwf : C09.WfInv w')
    (hrole : w'.c.role = w.c.role) (hrs : RSide w w') (hpq : PQ w') (hk : KP w') : WI r w' :=
  ⟨hI, hwf, hrole.trans h.role, hpq, hrs.incomplete.trans h.inc, by rw [hrs.cfg]; exact h.mf,
    by rw [hrs.cfg]; exact h.mm, by rw [hrs.cfg]; exact h.maxw, hk⟩

theorem payOk_user {m : Message} {f : Frame} (hm : C10.userFrame m = some f)
    (hs : Op.Sendable (.write m)) : PayOk f := by
  cases m with
  | text d =>
    have : f = Frame.message d (.data .text) true := (Option.some.inj hm).symm
    subst this
    exact payOk_text d hs.1 hs.2
  | binary d =>
    have : f = Frame.message d (.data .binary) true := (Option.some.inj hm).symm
    subst this
    exact payOk_binary d hs
  | ping d =>
    have : f = Frame.ping d := (Option.some.inj hm).symm
    subst this
    exact payOk_ping d hs
  | pong d => cases hm
  | close c => cases hm
  | frame g => cases hm

theorem payOk_close (c : Option CloseFrame)
    (h : ∀ cf, c = some cf → Spec.WellFormed cf.reason ∧ cf.reason.length ≤ 123) :
    PayOk (Frame.close c) := by
  cases c with
  | none => exact payOk_close_none
  | some cf =>
    obtain ⟨h1, h2⟩ := h cf rfl
    exact payOk_close_some cf h1 h2

/-- `close()` (also reached through `write(Message::Close)`) -/
theorem close_step {r : Role} (w : World) (c : Option CloseFrame) (hW : WI r w)
    (hc : ∀ cf, c = some cf → Spec.WellFormed cf.reason ∧ cf.reason.length ≤ 123) :
    PQ (w.close c).1 ∧ KP (w.close c).1 ∧ RSide w (w.close c).1 ∧
    StRel w.c.state (w.close c).1.c.state := by
  by_cases hnt : w.c.state = .terminated
  · rw [terminated_close w c hnt]
    exact ⟨hW.pq, hW.kp, RSide.refl w, Or.inl rfl⟩
  · obtain ⟨w0, _, _, _, ha, hna, hnt0, _, F⟩ := close_FSC (w := w) c hnt
    have hst : (w.close c).1.c.state = w0.c.state ∨ (w.close c).1.c.state = .terminated := by
      rcases F.state with h | ⟨h, _⟩
      · exact Or.inl h
      · exact Or.inr h
    by_cases hs : w.c.state = .active
    · have W := close_ws_active w c hs
      have hpq0 : PQ ((w.setState .closedByUs).setAdditionalRaw (some (Frame.close c))) :=
        hW.pq.set_slot (g := Frame.close c) rfl rfl (payOk_close c hc)
      have hk0 : KP ((w.setState .closedByUs).setAdditionalRaw (some (Frame.close c))) :=
        fun _ => ⟨_, Or.inl ⟨_, rfl, rfl, rfl⟩⟩
      have hst' : (w.close c).1.c.state = WsState.closedByUs ∨
          (w.close c).1.c.state = .terminated := by
        have F' := flush_FSC (w := (w.setState .closedByUs).setAdditionalRaw (some (Frame.close c)))
          (by simp [World.setAdditionalRaw, World.setState])
        have he : (w.close c) =
            ((w.setState .closedByUs).setAdditionalRaw (some (Frame.close c))).flush := by
          unfold World.close; rw [if_pos hs]
        rw [he]
        rcases F'.state with h | ⟨h, _⟩
        · exact Or.inl h
        · exact Or.inr h
      refine ⟨hpq0.sd W.toSD, hk0.sd W.toSD hst', ?_, ?_⟩
      · exact RSide.trans (RSide.of_fields
          (w2 := (w.setState .closedByUs).setAdditionalRaw (some (Frame.close c)))
          (RSide.refl w) rfl rfl rfl rfl) W.rside
      · rcases hst' with h | h
        · exact Or.inr (Or.inr ⟨hs, h⟩)
        · exact Or.inr (Or.inl h)
    · have W := close_ws_other w c hs
      have := hna hs
      subst this
      refine ⟨hW.pq.sd W.toSD, hW.kp.sd W.toSD hst, W.rside, ?_⟩
      rcases hst with h | h
      · exact Or.inl h
      · exact Or.inr (Or.inl h)

/-- every operation other than `read`: the invariant is kept, the read side is not touched, and
the state stays, becomes `terminated`, or goes from `active` to `closedByUs` -/
theorem nonread_step {r : Role} (w : World) (op : Op) (hW : WI r w) (hop : OpOk op)
    (hnr : op ≠ .read) :
    WI r (w.step op).1 ∧ RSide w (w.step op).1 ∧ StRel w.c.state (w.step op).1.c.state := by
  obtain ⟨hraw, hsend, hcl⟩ := hop
  have hI' := step_inv w op hW.inv hraw
  have hwf' := C09.step_wf w op hW.inv hW.wf hraw
  have hrole' := step_role w op
  suffices h : PQ (w.step op).1 ∧ KP (w.step op).1 ∧ RSide w (w.step op).1 ∧
      StRel w.c.state (w.step op).1.c.state from
    ⟨hW.of_parts hI' hwf' hrole' h.2.2.1 h.1 h.2.1, h.2.2.1, h.2.2.2⟩
  cases op with
  | read => exact absurd rfl hnr
  | flush =>
    show PQ w.flush.1 ∧ KP w.flush.1 ∧ RSide w w.flush.1 ∧ StRel w.c.state w.flush.1.c.state
    have W := flush_ws w
    have hst : w.flush.1.c.state = w.c.state ∨ w.flush.1.c.state = .terminated := by
      by_cases hnt : w.c.state = .terminated
      · rw [terminated_flush w hnt]; exact Or.inl rfl
      · rcases (flush_FSC hnt).state with h | ⟨h, _⟩
        · exact Or.inl h
        · exact Or.inr h
    refine ⟨hW.pq.sd W.toSD, hW.kp.sd W.toSD hst, W.rside, ?_⟩
    rcases hst with h | h
    · exact Or.inl h
    · exact Or.inr (Or.inl h)
  | close c =>
    exact close_step w c hW (fun cf h => by subst h; exact hcl)
  | write m =>
    show PQ (w.write m).1 ∧ KP (w.write m).1 ∧ RSide w (w.write m).1 ∧
      StRel w.c.state (w.write m).1.c.state
    by_cases hs : w.c.state = .active
    · have hnc : w.c.state.closing3 = false := active_not_closing3 hs
      obtain ⟨e1, e2, e3⟩ := write_data_eq w hs
      have data_case : ∀ f, C10.userFrame m = some f → w.write m = w.writeData f →
          PQ (w.write m).1 ∧ KP (w.write m).1 ∧ RSide w (w.write m).1 ∧
            StRel w.c.state (w.write m).1.c.state := by
        intro f hu he
        rw [he]
        have B := World.bufferFrame_bq w f
        have W := writeData_ws w f
        have D := writeData_spec w f hs
        have hpf : PayOk f := payOk_user hu hsend
        have hpq0 : PQ (w.bufferFrame f).1 := by
          obtain ⟨f', hm, hcase⟩ := B.queue
          rcases hcase with ⟨_, hq⟩ | ⟨_, hq⟩
          · exact hW.pq.of_same B.additional hq
          · exact hW.pq.snoc B.additional hq (hpf.of_sameKind hm.remask.sameKind)
        refine ⟨hpq0.sd W.toSD, KP.of_not (by rw [D.state]; rfl), RSide.trans B.rside W.rside, ?_⟩
        exact Or.inl (by rw [D.state, hs])
      cases m with
      | text d => exact data_case _ rfl (e1 d)
      | binary d => exact data_case _ rfl (e2 d)
      | ping d => exact data_case _ rfl (e3 d)
      | frame f => exact absurd hraw (by simp [Op.noRaw])
      | close c =>
        rw [write_close_eq w c hs]
        refine close_step w c hW ?_
        intro cf h
        subst h
        exact ⟨hsend.1, hsend.2.1⟩
      | pong d =>
        rw [write_pong_eq w d hs, andThen_unit_fst]
        obtain ⟨f1, f2, f3, f4, f5, f6, f7⟩ := setAdditional_fields w (Frame.pong d)
        have W := slotTail_ws (w.setAdditional (Frame.pong d))
        have T := (slotTail_FSC (w.setAdditional (Frame.pong d))).toFS
        have hs' : (w.setAdditional (Frame.pong d)).c.state = .active := f1.trans hs
        obtain ⟨hact, _⟩ := T.active hs'
        have hpq0 : PQ (w.setAdditional (Frame.pong d)) := by
          rcases setAdditional_slot w (Frame.pong d) with h | ⟨_, h⟩
          · exact hW.pq.of_same h f4
          · exact hW.pq.set_slot f4 h (payOk_pong d hsend)
        refine ⟨hpq0.sd W.toSD, KP.of_not (by rw [hact]; rfl), ?_, Or.inl (by rw [hact, hs])⟩
        exact RSide.trans (RSide.of_fields (RSide.refl w) f6 (setAdditional_incomplete w _) f5 f3)
          W.rside
    · rw [(write_refused w m hs).1]
      exact ⟨hW.pq, hW.kp, RSide.refl w, Or.inl rfl⟩

end WsProofs.Pair
